/-
  Property C01 with the library's OWN keyring: package `basic` (/repo/basic/key.go,
  model Saltpack/Model/Basic.lean) satisfies what the ring round-trip theorems
  of Props/C01.lean need — so `Open` with a `basic.Keyring` returns exactly the
  plaintext and the sender.  Statements only; proofs in Proofs/Basic.lean,
  Proofs/BasicRT.lean.

  Reading guide
    * what the keyring IS: `C01_basic_kid_*` (copy into a 32-byte array),
      `C01_basic_map_*` (a Go map), `C01_basic_last_import_wins`,
      `C01_basic_lookup` (which index for which kid list), `C01_basic_never_nil`;
    * the bridge: `C01_basic_is_faithful_ring` — on every header whose ephemeral
      key and visible key ids are 32 bytes, for EVERY packet stream (genuine or
      hostile) and EVERY iteration order of Go's map, a well-formed honest basic
      keyring behaves exactly like `faithfulKeyring` of its secrets; so every
      theorem of C01/C02 about faithful keyrings is one about basic keyrings;
    * the property: `C01_roundtrip_basic` (import history), `…_basic_ring`,
      `…_basic_ring_unique`, `C01_no_key_basic`, `C01_roundtrip_bytes_basic`;
    * hypotheses the proofs forced, each with the excluded point evaluated in the
      model (`example`s at the end; the real code is run at the same points by the
      correspondence streams `basic.lookup`, `basic.enc.open.kidlen`):
        `Honest` — `ImportBoxKey(pub, sec)` stores `pub` unchecked;
        `hlen`  — visible key ids of 32 bytes.
-/
import Saltpack.Proofs.BasicRT
import Saltpack.Props.C01
import Saltpack.Toy

namespace Saltpack.Props.C01
open Saltpack Saltpack.Basic Saltpack.Encrypt Saltpack.Proofs Saltpack.Proofs.BasicRing

/-! ## the keyring as a value -/

/-- `kidToPublicKey`: always 32 bytes; the kid itself if it has 32 bytes -/
theorem C01_basic_kid_len32 (kid : Bytes) :
    (kidToPublicKey kid).length = 32 ∧ (kid.length = 32 → kidToPublicKey kid = kid) :=
  ⟨kid_length kid, kid_of_len32⟩

/-- wrong lengths: a short kid is zero padded, a long one truncated — so a key
    is also found under its first 32 bytes followed by anything -/
theorem C01_basic_kid_wrong_length (kid key extra : Bytes) :
    (kid.length ≤ 32 → kidToPublicKey kid = kid ++ zeros (32 - kid.length)) ∧
    (32 ≤ kid.length → kidToPublicKey kid = kid.take 32) ∧
    (key.length = 32 → kidToPublicKey (key ++ extra) = key) :=
  ⟨kid_short, kid_long, fun h => kid_append_of_len32 h extra⟩

/-- the association list is a map: read-after-write, other keys untouched, keys
    stay pairwise distinct -/
theorem C01_basic_map_laws (m : List SecretKey) (nk : SecretKey) (p : Bytes) :
    mapGet (mapInsert m nk) nk.pub = some nk ∧
    (p ≠ nk.pub → mapGet (mapInsert m nk) p = mapGet m p) ∧
    (MapWF m → MapWF (mapInsert m nk)) :=
  ⟨mapGet_insert_same m nk, mapGet_insert_other m nk, mapInsert_wf nk⟩

/-- invariants of EVERY import history: distinct public keys; honest imports
    give an honest keyring -/
theorem C01_basic_invariants (P : Prims) (es : List SecretKey) :
    WF (Basic.Keyring.empty.importAll es) ∧
    ((∀ e ∈ es, e.pub = P.boxPub e.sec) → Honest P (Basic.Keyring.empty.importAll es)) :=
  ⟨importAll_empty_wf es, importAll_honest (empty_honest P) es⟩

/-- **last import wins**: the entry under a public key is the one imported LAST
    with it -/
theorem C01_basic_last_import_wins (k : Basic.Keyring) (es : List SecretKey) (p : Bytes) :
    mapGet (k.importAll es).encKeys p =
      match es.reverse.find? (fun e => e.pub == p) with
      | some e => some e
      | none => mapGet k.encKeys p :=
  mapGet_importAll k es p

/-- an imported key stays in the keyring unless its public key is imported again -/
theorem C01_basic_import_stays (k : Basic.Keyring) (pre post : List SecretKey) (e : SecretKey)
    (hpost : ∀ e' ∈ post, e'.pub ≠ e.pub) : e ∈ (k.importAll (pre ++ e :: post)).encKeys :=
  mem_importAll k pre post e hpost

/-- **`LookupBoxSecretKey`**: the index of the FIRST kid (in the order given,
    duplicates included) whose 32-byte copy is a key of the map, with that entry;
    `(-1, nil)` if there is none -/
theorem C01_basic_lookup (k : Basic.Keyring) (kids : List Bytes) :
    (∃ (idx : Nat) (sk : SecretKey), ∃ (h : idx < kids.length),
        mapGet k.encKeys (kidToPublicKey kids[idx]) = some sk ∧
        (∀ j (hj : j < idx), mapGet k.encKeys (kidToPublicKey (kids[j]'(by omega))) = none) ∧
        k.lookupBoxSecretKey kids = ((idx : Int), some sk)) ∨
    ((∀ kid ∈ kids, mapGet k.encKeys (kidToPublicKey kid) = none) ∧ k.lookupBoxSecretKey kids = (-1, none)) :=
  lookup_spec k kids

/-- `LookupBoxPublicKey`, `ImportBoxEphemeralKey`, `LookupSigningPublicKey` never
    return nil (so `ErrBadEphemeralKey` / `ErrNoSenderKey` cannot come from a basic keyring) -/
theorem C01_basic_never_nil (k : Basic.Keyring) (order : List SecretKey) (kid : Bytes) :
    (k.toRing order).lookupBoxPublicKey kid ≠ none ∧ (k.toRing order).importBoxEphemeralKey kid ≠ none ∧
    (k.toRing order).lookupSigningPublicKey kid ≠ none :=
  toRing_never_nil k order kid

/-! ## the bridge to the abstract keyrings of the theorems -/

/-- on 32-byte kids the basic keyring's `LookupBoxSecretKey` is the faithful
    keyring's, for every iteration order of the map -/
theorem C01_basic_lookup_is_faithful (P : Prims) (k : Basic.Keyring) (hwf : WF k) (hh : Honest P k)
    (order : List SecretKey) (hperm : order.Perm k.encKeys) (kids : List Bytes) (hk : ∀ kid ∈ kids, kid.length = 32) :
    (k.toRing order).lookupBoxSecretKey kids = (faithfulKeyring P (order.map (·.sec))).lookupBoxSecretKey kids :=
  toRing_lookup_eq P hwf hh hperm kids hk

/-- **A well-formed honest basic keyring IS a faithful keyring** as far as
    `NewDecryptStream` can tell: same released bytes, same error, same key
    info, same calls on key objects — for every header with a 32-byte ephemeral
    key and 32-byte visible key ids (else arbitrary), every packet stream and
    every order in which `GetAllBoxSecretKeys` iterates the map. -/
theorem C01_basic_is_faithful_ring (P : Prims) (k : Basic.Keyring) (hwf : WF k) (hh : Honest P k)
    (order : List SecretKey) (hperm : order.Perm k.encKeys) (valid : Validator)
    (hr : HeaderRead EncHeader) (ps : PStream EncBlock) (h32 : ∀ hb h, hr = .ok hb h → Hdr32 h) :
    Decrypt.openStream P valid (k.toRing order) hr ps =
      Decrypt.openStream P valid (faithfulKeyring P (order.map (·.sec))) hr ps :=
  dec_openStream_eq P hwf hh hperm valid hr ps h32

/-- what `Hdr32` says -/
theorem C01_basic_hdr32_def (h : EncHeader) :
    Hdr32 h ↔ (h.ephemeral.length = 32 ∧
      ∀ kid ∈ (Decrypt.visibleIndices h.receivers).map (fun i => Decrypt.kidOf (h.receivers.getD i default)),
        kid.length = 32) := Iff.rfl

/-- `decryptStream.processHeader` consults a keyring at four places only -/
theorem C01_basic_keyring_use (P : Prims) (valid : Validator) (kr1 kr2 : Saltpack.Keyring) (hh : Bytes) (h : EncHeader)
    (hi : kr1.importBoxEphemeralKey h.ephemeral = kr2.importBoxEphemeralKey h.ephemeral)
    (hl : kr1.lookupBoxSecretKey ((Decrypt.visibleIndices h.receivers).map (fun i => Decrypt.kidOf (h.receivers.getD i default))) =
          kr2.lookupBoxSecretKey ((Decrypt.visibleIndices h.receivers).map (fun i => Decrypt.kidOf (h.receivers.getD i default))))
    (ha : kr1.getAllBoxSecretKeys = kr2.getAllBoxSecretKeys)
    (hp : ∀ k, k.length = 32 → kr1.lookupBoxPublicKey k = kr2.lookupBoxPublicKey k) :
    Decrypt.processHeader P valid kr1 hh h = Decrypt.processHeader P valid kr2 hh h :=
  processHeader_congr P valid kr1 kr2 hh h hi hl ha hp

/-! ## the property -/

/-- **Round trip, stated on the import history** (`C01_roundtrip_ring` for the
    library's own keyring).  For every plaintext, both versions, named or
    anonymous sender, every recipient list/visibility pattern and chunk size:
    import ANY honest key pairs into an empty `basic.Keyring`, in ANY order and
    number (re-imports included), among them one with the public key of
    recipient `i`; let Go iterate the map in ANY order.  `Open` returns exactly
    the plaintext, the true sender key (or the ephemeral key and the anonymous
    flag) and the named recipients, as SOME recipient `i'` whose secret `sk'` was
    imported (`C01_roundtrip_basic_ring_unique`: `i' = i` when the keyring holds
    one recipient's key only).
    Hypotheses beyond those of `C01_roundtrip_ring`: the imports are honest
    (`hes`) and visible key ids have 32 bytes (`hlen`). -/
theorem C01_roundtrip_basic (P : Prims) (hP : P.Lawful) (bs : Nat) (hbs : 0 < bs)
    (v : Version) (hv : v = v1 ∨ v = v2)
    (sender : Option Bytes) (rs : List Recipient) (eph payloadKey pt : Bytes)
    (hpk : payloadKey.length = 32)
    (hnamed : ∀ s, sender = some s → P.boxPub s ≠ P.boxPub eph)
    (hpub : ∀ r ∈ rs, r.hidden = false → r.pub ≠ [])
    (hlen : ∀ r ∈ rs, r.hidden = false → r.pub.length = 32)
    (es : List SecretKey) (hes : ∀ e ∈ es, e.pub = P.boxPub e.sec)
    (i : Nat) (hi : i < rs.length) (himp : ∃ e ∈ es, e.pub = (rs.getD i default).pub)
    (order : List SecretKey) (hperm : order.Perm (Basic.Keyring.empty.importAll es).encKeys)
    (hns : RingNoSpuriousOpen P v eph payloadKey rs (es.map (·.sec)))
    (h : EncHeader) (hb : Bytes) (blks : List EncBlock)
    (hseal : sealPackets P bs v sender rs eph payloadKey pt = .ok (h, hb, blks)) :
    ∃ i' sk', i' < rs.length ∧ sk' ∈ es.map (·.sec) ∧ (rs.getD i' default).pub = P.boxPub sk' ∧
      Decrypt.openAll P knownMajor ((Basic.Keyring.empty.importAll es).toRing order) (.ok hb h) ⟨blks.map some, .eof⟩ =
        .ok ({ senderKey := P.boxPub (sender.getD eph), senderIsAnon := sender.isNone,
               receiverKey := sk', receiverIsAnon := (rs.getD i' default).hidden,
               namedReceivers := (rs.filter (fun r => !r.hidden)).map (·.pub),
               numAnonReceivers := if (rs.getD i' default).hidden then (rs.filter (·.hidden)).length else 0 }, pt) :=
  enc_roundtrip_basic_imports P hP bs hbs v hv sender rs eph payloadKey pt hpk hnamed hpub hlen es hes i hi himp order
    hperm hns h hb blks hseal

/-- **Round trip, any well-formed honest basic keyring that holds a recipient's
    key** (however it was built: imports, `GenerateBoxKey`) -/
theorem C01_roundtrip_basic_ring (P : Prims) (hP : P.Lawful) (bs : Nat) (hbs : 0 < bs)
    (v : Version) (hv : v = v1 ∨ v = v2)
    (sender : Option Bytes) (rs : List Recipient) (eph payloadKey pt : Bytes)
    (hpk : payloadKey.length = 32)
    (hnamed : ∀ s, sender = some s → P.boxPub s ≠ P.boxPub eph)
    (hpub : ∀ r ∈ rs, r.hidden = false → r.pub ≠ [])
    (hlen : ∀ r ∈ rs, r.hidden = false → r.pub.length = 32)
    (k : Basic.Keyring) (hwf : WF k) (hh : Honest P k) (order : List SecretKey) (hperm : order.Perm k.encKeys)
    (i : Nat) (hi : i < rs.length) (sk : Bytes) (hmem : (⟨P.boxPub sk, sk⟩ : SecretKey) ∈ k.encKeys)
    (hsk : (rs.getD i default).pub = P.boxPub sk)
    (hns : RingNoSpuriousOpen P v eph payloadKey rs (k.encKeys.map (·.sec)))
    (h : EncHeader) (hb : Bytes) (blks : List EncBlock)
    (hseal : sealPackets P bs v sender rs eph payloadKey pt = .ok (h, hb, blks)) :
    ∃ i' sk', i' < rs.length ∧ (⟨P.boxPub sk', sk'⟩ : SecretKey) ∈ k.encKeys ∧
      (rs.getD i' default).pub = P.boxPub sk' ∧
      Decrypt.openAll P knownMajor (k.toRing order) (.ok hb h) ⟨blks.map some, .eof⟩ =
        .ok ({ senderKey := P.boxPub (sender.getD eph), senderIsAnon := sender.isNone,
               receiverKey := sk', receiverIsAnon := (rs.getD i' default).hidden,
               namedReceivers := (rs.filter (fun r => !r.hidden)).map (·.pub),
               numAnonReceivers := if (rs.getD i' default).hidden then (rs.filter (·.hidden)).length else 0 }, pt) :=
  enc_roundtrip_basic_ring P hP bs hbs v hv sender rs eph payloadKey pt hpk hnamed hpub hlen k hwf hh order hperm i hi
    sk hmem hsk hns h hb blks hseal

/-- …with the exact key information when only one recipient's key is in the
    keyring (other entries foreign, in any number, imported before or after) -/
theorem C01_roundtrip_basic_ring_unique (P : Prims) (hP : P.Lawful) (bs : Nat) (hbs : 0 < bs)
    (v : Version) (hv : v = v1 ∨ v = v2)
    (sender : Option Bytes) (rs : List Recipient) (eph payloadKey pt : Bytes)
    (hpk : payloadKey.length = 32)
    (hnamed : ∀ s, sender = some s → P.boxPub s ≠ P.boxPub eph)
    (hpub : ∀ r ∈ rs, r.hidden = false → r.pub ≠ [])
    (hlen : ∀ r ∈ rs, r.hidden = false → r.pub.length = 32)
    (k : Basic.Keyring) (hwf : WF k) (hh : Honest P k) (order : List SecretKey) (hperm : order.Perm k.encKeys)
    (i : Nat) (hi : i < rs.length) (sk : Bytes) (hmem : (⟨P.boxPub sk, sk⟩ : SecretKey) ∈ k.encKeys)
    (hsk : (rs.getD i default).pub = P.boxPub sk)
    (honly : ∀ e ∈ k.encKeys, ∀ j, j < rs.length → (rs.getD j default).pub = e.pub → j = i ∧ e.sec = sk)
    (hns : RingNoSpuriousOpen P v eph payloadKey rs (k.encKeys.map (·.sec)))
    (h : EncHeader) (hb : Bytes) (blks : List EncBlock)
    (hseal : sealPackets P bs v sender rs eph payloadKey pt = .ok (h, hb, blks)) :
    Decrypt.openAll P knownMajor (k.toRing order) (.ok hb h) ⟨blks.map some, .eof⟩ =
      .ok ({ senderKey := P.boxPub (sender.getD eph), senderIsAnon := sender.isNone,
             receiverKey := sk, receiverIsAnon := (rs.getD i default).hidden,
             namedReceivers := (rs.filter (fun r => !r.hidden)).map (·.pub),
             numAnonReceivers := if (rs.getD i default).hidden then (rs.filter (·.hidden)).length else 0 }, pt) :=
  enc_roundtrip_basic_ring_unique P hP bs hbs v hv sender rs eph payloadKey pt hpk hnamed hpub hlen k hwf hh order hperm
    i hi sk hmem hsk honly hns h hb blks hseal

/-- a basic keyring holding none of the recipient keys (and opening none of the
    boxes) gets `noDecryptionKey` and no plaintext -/
theorem C01_no_key_basic (P : Prims) (hP : P.Lawful) (bs : Nat)
    (v : Version) (hv : v = v1 ∨ v = v2)
    (sender : Option Bytes) (rs : List Recipient) (eph payloadKey pt : Bytes)
    (hlen : ∀ r ∈ rs, r.hidden = false → r.pub.length = 32)
    (k : Basic.Keyring) (hwf : WF k) (hh : Honest P k) (order : List SecretKey) (hperm : order.Perm k.encKeys)
    (hnone : ∀ e ∈ k.encKeys, ∀ r ∈ rs, r.pub ≠ e.pub)
    (hopen : ∀ e ∈ k.encKeys, ∀ j, j < rs.length → ∀ n, Nonce.payloadKeyBox v j = .ok n →
        P.unbox e.sec (P.boxPub eph) n (P.box eph (rs.getD j default).pub n payloadKey) = none)
    (h : EncHeader) (hb : Bytes) (blks : List EncBlock)
    (hseal : sealPackets P bs v sender rs eph payloadKey pt = .ok (h, hb, blks)) :
    Decrypt.openAll P knownMajor (k.toRing order) (.ok hb h) ⟨blks.map some, .eof⟩ = .error .noDecryptionKey ∧
    (Decrypt.openStream P knownMajor (k.toRing order) (.ok hb h) ⟨blks.map some, .eof⟩).released = [] :=
  enc_no_key_basic P hP bs v hv sender rs eph payloadKey pt hlen k hwf hh order hperm hnone hopen h hb blks hseal

/-- **Round trip on the emitted BYTES with a basic keyring** (cf. `C01_roundtrip_bytes_ring`) -/
theorem C01_roundtrip_bytes_basic (P : Prims) (hP : P.Lawful) (bs : Nat) (hbs : 0 < bs) (hbs32 : bs + 16 < 2 ^ 32)
    (v : Version) (hv : v = v1 ∨ v = v2)
    (sender : Option Bytes) (rs : List Recipient) (eph payloadKey pt : Bytes)
    (hpk : payloadKey.length = 32)
    (hnamed : ∀ s, sender = some s → P.boxPub s ≠ P.boxPub eph)
    (hpub : ∀ r ∈ rs, r.hidden = false → r.pub ≠ [])
    (hlen : ∀ r ∈ rs, r.hidden = false → r.pub.length = 32)
    (k : Basic.Keyring) (hwf : WF k) (hh : Honest P k) (order : List SecretKey) (hperm : order.Perm k.encKeys)
    (i : Nat) (hi : i < rs.length) (sk : Bytes) (hmem : (⟨P.boxPub sk, sk⟩ : SecretKey) ∈ k.encKeys)
    (hsk : (rs.getD i default).pub = P.boxPub sk)
    (hns : RingNoSpuriousOpen P v eph payloadKey rs (k.encKeys.map (·.sec)))
    (L : Nat) (hL : ∀ r ∈ rs, r.pub.length ≤ L) (hsmall : 145 + rs.length * (L + 63) < 2 ^ 32)
    (msg : Bytes) (hmsg : sealWith P bs v sender rs eph payloadKey pt = .ok msg) :
    ∃ hr ps, Wire.splitEnc msg = .ok (hr, ps) ∧
      ∃ i' sk', i' < rs.length ∧ (⟨P.boxPub sk', sk'⟩ : SecretKey) ∈ k.encKeys ∧
        (rs.getD i' default).pub = P.boxPub sk' ∧
        Decrypt.openAll P knownMajor (k.toRing order) hr ps =
          .ok ({ senderKey := P.boxPub (sender.getD eph), senderIsAnon := sender.isNone,
                 receiverKey := sk', receiverIsAnon := (rs.getD i' default).hidden,
                 namedReceivers := (rs.filter (fun r => !r.hidden)).map (·.pub),
                 numAnonReceivers := if (rs.getD i' default).hidden then (rs.filter (·.hidden)).length else 0 }, pt) :=
  enc_roundtrip_bytes_basic_ring P hP bs hbs hbs32 v hv sender rs eph payloadKey pt hpk hnamed hpub hlen k hwf hh order
    hperm i hi sk hmem hsk hns L hL hsmall msg hmsg

/-! ## non-vacuity and the excluded points (toy primitives, evaluated by the kernel) -/

/-- a keyring built by three imports: foreign, recipient `[3]`, foreign -/
def toyRing : Basic.Keyring :=
  Basic.Keyring.empty.importAll
    [⟨Toy.prims.boxPub [7], [7]⟩, ⟨Toy.prims.boxPub [3], [3]⟩, ⟨Toy.prims.boxPub [8], [8]⟩]

example : WF toyRing ∧ Honest Toy.prims toyRing :=
  ⟨importAll_empty_wf _, importAll_honest (empty_honest _) _ (by decide)⟩

/-- seal the message of the examples for a recipient list and open it -/
def toyOpen (kr : Saltpack.Keyring) (rs : List Recipient) : Except Err (MKI × Bytes) :=
  match sealPackets Toy.prims 4 v2 (some [1]) rs [2] (Toy.pad 32 [9]) [1, 2, 3, 4, 5] with
  | .ok (h, hb, blks) => Decrypt.openAll Toy.prims knownMajor kr (.ok hb h) ⟨blks.map some, .eof⟩
  | .error e => .error e

/-- hidden `[4]`, visible `[3]` -/
def toyRsV : List Recipient := [⟨Toy.prims.boxPub [4], true⟩, ⟨Toy.prims.boxPub [3], false⟩]

/-- the round trip, in import order and in another iteration order of the map -/
example : toyOpen toyRing.ring toyRsV =
    .ok ({ senderKey := Toy.prims.boxPub [1], senderIsAnon := false, receiverKey := [3], receiverIsAnon := false,
           namedReceivers := [Toy.prims.boxPub [3]], numAnonReceivers := 0 }, [1, 2, 3, 4, 5]) := by decide

example : toyOpen (toyRing.toRing toyRing.encKeys.reverse) toyRsV =
    .ok ({ senderKey := Toy.prims.boxPub [1], senderIsAnon := false, receiverKey := [3], receiverIsAnon := false,
           namedReceivers := [Toy.prims.boxPub [3]], numAnonReceivers := 0 }, [1, 2, 3, 4, 5]) := by decide

/-- …as a hidden recipient (the two hidden recipients of Props/C01.lean) -/
example : toyOpen toyRing.ring toyRs =
    .ok ({ senderKey := Toy.prims.boxPub [1], senderIsAnon := false, receiverKey := [3], receiverIsAnon := true,
           namedReceivers := [], numAnonReceivers := 2 }, [1, 2, 3, 4, 5]) := by decide

/-- a keyring without any recipient key -/
example : toyOpen (Basic.Keyring.empty.importAll [⟨Toy.prims.boxPub [7], [7]⟩]).ring toyRsV = .error .noDecryptionKey := by
  decide

/-- `LookupBoxSecretKey` on a kid list with an absent short kid, a present kid
    that is too LONG, and a present kid: index 1, the entry for `[3]` -/
example : toyRing.lookupBoxSecretKey [[1], Toy.prims.boxPub [3] ++ [5, 5], Toy.prims.boxPub [7]] =
    (1, some ⟨Toy.prims.boxPub [3], [3]⟩) := by decide

/-- re-import of a public key with another secret: the map entry is replaced -/
example : mapGet ((toyRing.importBoxKey (Toy.prims.boxPub [3]) [9]).encKeys) (Toy.prims.boxPub [3]) =
    some ⟨Toy.prims.boxPub [3], [9]⟩ ∧ (toyRing.importBoxKey (Toy.prims.boxPub [3]) [9]).encKeys.length = 3 := by decide

/-- **excluded point `Honest`**: `ImportBoxKey(pub of [3], secret [9])` — the
    lookup by key id finds the entry, its secret does not open the box: the
    answer is the key object's `decryptionFailed`, not `noDecryptionKey`, and no
    round trip -/
example : toyOpen (Basic.Keyring.empty.importAll [⟨Toy.prims.boxPub [3], [9]⟩]).ring toyRsV = .error .decryptionFailed := by
  decide

/-- **excluded point `hlen`**: a recipient whose key id is its raw key followed
    by one more byte (33 bytes).  The basic keyring copies the kid into 32 bytes,
    finds the key and opens the message; the faithful keyring, which compares key
    ids as they are, has no key.  So at this point the two keyrings differ — and
    the basic keyring errs on the side of the round trip. -/
example :
    (toyOpen toyRing.ring [⟨Toy.prims.boxPub [3] ++ [0], false⟩]).toOption.map (·.2) = some [1, 2, 3, 4, 5] ∧
    toyOpen (faithfulKeyring Toy.prims [[7], [3], [8]]) [⟨Toy.prims.boxPub [3] ++ [0], false⟩] =
      .error .noDecryptionKey := by decide

/-- …and a key id that is the raw key WITHOUT its last (zero) byte (31 bytes) -/
example :
    (toyOpen toyRing.ring [⟨(Toy.prims.boxPub [3]).take 31, false⟩]).toOption.map (·.2) = some [1, 2, 3, 4, 5] ∧
    toyOpen (faithfulKeyring Toy.prims [[7], [3], [8]]) [⟨(Toy.prims.boxPub [3]).take 31, false⟩] =
      .error .noDecryptionKey := by decide

end Saltpack.Props.C01
