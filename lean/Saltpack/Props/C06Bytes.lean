/-
  C06 (attached signatures: only signed bytes are released) at the BYTE level:
  for EVERY byte string handed to `NewVerifyStream`.

  The packets are those the front end produced from the bytes (`Front.readSig`:
  go-codec's typed decoding `Codec`; `Wire` only where `Codec` says unmodelled); the verifier's state is
  `⟨h.version, P.hash hb, pk⟩` for the header `h` (bytes `hb`) decoded from them
  and the key `pk` the keyring returned for `h.senderPublic`.

  Statements only; proofs in Saltpack/Proofs/CodecBytesAuth.lean, Receiver.lean, Authentic.lean.
-/
import Saltpack.Proofs.CodecBytesAuth
import Saltpack.Toy

namespace Saltpack.Props.C06
open Saltpack Saltpack.Proofs

/-- **Every byte string: refusal, or a packet-level run** (validators admitting
    majors 1, 2 — the documented contract). -/
theorem C06_bytes_cases (P : Prims) (valid : Validator) (hvalid : ValidatorOK valid) (kr : Keyring) (msg : Bytes)
    (r : Sign.Result) (hopen : Sign.verifyBytes P valid kr msg = .ok r) :
    (r.released = [] ∧ r.err ≠ none) ∨
    ∃ hb h ps pk, Front.readSig msg = .ok (.ok hb h, ps) ∧
      Sign.validate valid h mtAttached = .ok () ∧ kr.lookupSigningPublicKey h.senderPublic = some pk ∧
      r = ⟨some pk, (Sign.run P ⟨h.version, P.hash hb, pk⟩ ps.items ps.tail 1).bytes,
            (Sign.run P ⟨h.version, P.hash hb, pk⟩ ps.items ps.tail 1).err⟩ :=
  sig_bytes_cases P valid hvalid kr msg r hopen

/-- **Level A (in order, no gaps), every byte string.** -/
theorem C06_released_is_accepted_prefix_bytes (P : Prims) (valid : Validator) (hvalid : ValidatorOK valid)
    (kr : Keyring) (msg : Bytes) (r : Sign.Result) (hopen : Sign.verifyBytes P valid kr msg = .ok r) :
    (r.released = [] ∧ r.err ≠ none) ∨
    ∃ hb h ps pk, Front.readSig msg = .ok (.ok hb h, ps) ∧
      Sign.validate valid h mtAttached = .ok () ∧ kr.lookupSigningPublicKey h.senderPublic = some pk ∧
      ∃ bs : List SigBlock, (bs.map some) <+: ps.items ∧
        Chain (Ver.accept P ⟨h.version, P.hash hb, pk⟩) (Sign.blockFinal h.version) 1 bs r.released := by
  rcases sig_bytes_cases P valid hvalid kr msg r hopen with a | ⟨hb, h, ps, pk, h1, h2, h3, rfl⟩
  · exact Or.inl a
  · exact Or.inr ⟨hb, h, ps, pk, h1, h2, h3, Ver.run_prefix P ⟨h.version, P.hash hb, pk⟩ ps.items ps.tail 1⟩

/-- **Level A (complete iff clean), every byte string.** -/
theorem C06_clean_end_iff_complete_bytes (P : Prims) (valid : Validator) (hvalid : ValidatorOK valid)
    (kr : Keyring) (msg : Bytes) (r : Sign.Result) (hopen : Sign.verifyBytes P valid kr msg = .ok r) :
    r.err = none ↔
      ∃ hb h ps pk, Front.readSig msg = .ok (.ok hb h, ps) ∧
        Sign.validate valid h mtAttached = .ok () ∧ kr.lookupSigningPublicKey h.senderPublic = some pk ∧
        ∃ bs : List SigBlock, ps.items = bs.map some ∧ ps.tail = .eof ∧
          Complete (Ver.accept P ⟨h.version, P.hash hb, pk⟩) (Sign.blockFinal h.version) 1 bs r.released := by
  constructor
  · intro he
    rcases sig_bytes_cases P valid hvalid kr msg r hopen with ⟨_, b⟩ | ⟨hb, h, ps, pk, h1, h2, h3, rfl⟩
    · exact (b he).elim
    · exact ⟨hb, h, ps, pk, h1, h2, h3, (Ver.run_ok_iff P ⟨h.version, P.hash hb, pk⟩ ps.items ps.tail 1).mp he⟩
  · rintro ⟨hb, h, ps, pk, h1, h2, h3, hc⟩
    have := sig_bytes_run P valid hvalid kr msg hb h ps h1 h2 pk h3
    rw [hopen] at this
    injection this with this
    subst this
    exact (Ver.run_ok_iff P ⟨h.version, P.hash hb, pk⟩ ps.items ps.tail 1).mpr hc

/-- the all-at-once form (`Verify`) on what the front end read returns a message
    only if the streaming form on the same bytes ended cleanly, and then what the
    streaming form released, attributed to the signer it reports -/
theorem C06_all_at_once_only_if_clean_bytes (P : Prims) (valid : Validator) (kr : Keyring) (msg : Bytes)
    (hr : HeaderRead SigHeader) (ps : PStream SigBlock) (hread : Front.readSig msg = .ok (hr, ps))
    (k m : Bytes) (h : Sign.verifyAll P valid kr hr ps = .ok (k, m)) :
    ∃ r, Sign.verifyBytes P valid kr msg = .ok r ∧ r.err = none ∧ r.released = m ∧ r.signer = some k := by
  refine ⟨_, sig_verifyBytes_of_read hread, ?_⟩
  unfold Sign.verifyAll at h
  generalize Sign.verifyStream P valid kr hr ps = r at h
  obtain ⟨sg, rel, err⟩ := r
  cases err <;> cases sg <;> simp_all

/-- **The reduction, every byte string.**  The front end read `msg` into header
    bytes `hb`, header `h`, packets `ps`; the header passed `validate` and the
    keyring knows the signer (`pk`).  Released bytes are the first `m` chunks of
    ONE message the owner of `pk` signed under the hash of THESE header bytes, all
    iff clean; or nothing and an error; or `AuthSig.BreakIn` (`C06_break_def`) on
    the packets decoded from `msg`.  `hv`, `hhl` of `C06_authentic_or_break` are
    discharged (validator contract, lawful hash); `hitems` (fewer than 2^64
    packets) stays — a byte string that long does not exist in practice. -/
theorem C06_authentic_or_break_bytes (P : Prims) (hP : P.Lawful) (valid : Validator) (hvalid : ValidatorOK valid)
    (kr : Keyring) (msg hb : Bytes) (h : SigHeader) (ps : PStream SigBlock)
    (hread : Front.readSig msg = .ok (.ok hb h, ps))
    (hval : Sign.validate valid h mtAttached = .ok ()) (pk : Bytes)
    (hpk : kr.lookupSigningPublicKey h.senderPublic = some pk)
    (H : List AuthSig.Event)
    (hlen : ∀ e ∈ H, e.headerHash.length = 64)
    (hplan : ∀ e ∈ H, e.headerHash = P.hash hb → PlanOK e.plan ∧ e.plan.length < 2 ^ 64)
    (hv1 : h.version.major = 1 → ∀ e ∈ H, e.headerHash = P.hash hb → ∀ p ∈ e.plan, (p.1 = [] ↔ p.2 = true))
    (hone : ∀ e ∈ H, ∀ e' ∈ H, e.headerHash = P.hash hb → e'.headerHash = P.hash hb → e = e')
    (hitems : ps.items.length < 2 ^ 64) :
    ∃ r, Sign.verifyBytes P valid kr msg = .ok r ∧ r.signer = some pk ∧
      (r.released = [] ∧ r.err ≠ none ∨
       (∃ e ∈ H, e.headerHash = P.hash hb ∧ ∃ m, m ≤ e.plan.length ∧ r.released = planPrefix e.plan m ∧
          (r.err = none → m = e.plan.length)) ∨
       AuthSig.BreakIn P ⟨h.version, P.hash hb, pk⟩ H ps.items) := by
  obtain ⟨hv, hhl⟩ := sig_state_ok P hP valid hvalid hb h hval pk
  exact ⟨_, sig_bytes_run P valid hvalid kr msg hb h ps hread hval pk hpk, rfl,
    AuthSig.authentic_or_break P hP ⟨h.version, P.hash hb, pk⟩ hv hhl H hlen hplan hv1 hone ps.items hitems ps.tail⟩

/-! ## a concrete hostile byte string (kernel-evaluated)

  An attached-signature message (V2) whose payload packet is a FIXMAP where the
  packet array is expected: `82 c3 c4 01 09 c4 01 41 07` = two pairs = the flat
  elements `true, bin[09], bin[41], 7`.  `Wire` calls it unmodelled; the front end
  decodes the block ⟨sig [9], chunk "A", final⟩; the signature does not verify:
  nothing released, an error — the first disjunct. -/

def hostileSigMsg : Bytes :=
  headerPacket (Msgpack.encode (Sign.header v2 [1] mtAttached [2]).toVal) ++
    [0x82, 0xc3, 0xc4, 0x01, 0x09, 0xc4, 0x01, 0x41, 0x07]

def anyRing : Keyring := ⟨fun _ => (-1, none), fun _ => none, [], fun _ => none, fun k => some k⟩

example : (match Wire.splitSig hostileSigMsg with | .unmodelled _ => true | .ok _ => false) = true := by decide

example : (Front.readSig hostileSigMsg).toOption.map (fun x => (x.2.items, x.2.tail)) =
    some ([some ⟨[9], [0x41], true⟩], .eof) := by decide

example : (Sign.verifyBytes Toy.prims knownMajor anyRing hostileSigMsg).toOption.map
    (fun r => (r.signer, r.released, r.err)) = some (some [1], [], some .badSignature) := by decide

/-- the same shape carrying the genuine (toy) signature on chunk "A" is
    accepted: the map-shaped packet is read as the final packet of the message,
    and "A" is released with a clean end -/
def goodHeader : Bytes := Msgpack.encode (Sign.header v2 (Toy.prims.sigPub [1]) mtAttached [2]).toVal

def goodMapMsg : Bytes :=
  headerPacket goodHeader ++ [0x82, 0xc3] ++
    Msgpack.encBin (Toy.prims.sign [1]
      ((attachedSignatureInput Toy.prims v2 (Toy.prims.hash goodHeader) [0x41] 0 true).toOption.getD [])) ++
    [0xc4, 0x01, 0x41, 0x07]

example : (match Wire.splitSig goodMapMsg with | .unmodelled _ => true | .ok _ => false) = true := by decide +kernel

example : (Sign.verifyBytes Toy.prims knownMajor anyRing goodMapMsg).toOption.map
    (fun r => (r.released, r.err)) = some ([0x41], none) := by decide +kernel

/-! ## the audit's inputs (repair R1), kernel-evaluated on the model

  A genuine (toy-signed) V2 message, one final packet `94 c3 <sig> "A" <extra>`
  with a reserved extra element nested `d` arrays deep (`91^d 00`): go-codec's depth
  budget inside a V2 block is 97 — depth 97 is accepted, depth 98 is a decode error
  and NOTHING is released (Go: `max depth exceeded`).  The spec-shaped reader
  accepts both; the front end (Codec first) follows go-codec. -/

def deepMsg (d : Nat) : Bytes :=
  headerPacket goodHeader ++ [0x94, 0xc3] ++
    Msgpack.encBin (Toy.prims.sign [1]
      ((attachedSignatureInput Toy.prims v2 (Toy.prims.hash goodHeader) [0x41] 0 true).toOption.getD [])) ++
    [0xc4, 0x01, 0x41] ++ List.replicate d 0x91 ++ [0x00]

example : (Sign.verifyBytes Toy.prims knownMajor anyRing (deepMsg 97)).toOption.map
    (fun r => (r.released, r.err)) = some ([0x41], none) := by decide +kernel

example : (Sign.verifyBytes Toy.prims knownMajor anyRing (deepMsg 98)).toOption.map
    (fun r => (r.released, r.err)) = some ([], some .decodeError) := by decide +kernel

example : (match Wire.splitSig (deepMsg 98) with | .ok x => x.2.items.length == 1 && x.2.tail == .eof | _ => false) = true := by
  decide +kernel

/-- read ORDER (finding #2): `93 c3 05 c6 00001000 01 02` — an integer where the
    signature is expected, then a truncated bin32: go-codec reports the wrong type
    (decode error), not the truncation -/
example : (Sign.verifyBytes Toy.prims knownMajor anyRing
      (headerPacket goodHeader ++ [0x93, 0xc3, 0x05, 0xc6, 0x00, 0x00, 0x10, 0x00, 0x01, 0x02])).toOption.map
    (fun r => (r.released, r.err)) = some ([], some .decodeError) := by decide +kernel

/-- … while the same truncated object BEHIND the final packet is read by
    `assertEndOfStream` generically: `io.EOF`, a clean end — Go accepts the message
    (`Front.settle`) -/
example : (Sign.verifyBytes Toy.prims knownMajor anyRing (deepMsg 3 ++ [0xc4, 0x05, 0x01])).toOption.map
    (fun r => (r.released, r.err)) = some ([0x41], none) := by decide +kernel

example : (Sign.verifyBytes Toy.prims knownMajor anyRing (deepMsg 3 ++ [0x05])).toOption.map
    (fun r => (r.released, r.err)) = some ([0x41], some .trailingGarbage) := by decide +kernel

example : Toy.prims.Lawful := Toy.lawful

end Saltpack.Props.C06
