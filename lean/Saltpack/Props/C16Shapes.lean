/-
  Property C16 — the binary classifier reads its three header fields the way
  go-codec does (repair of audit finding #6: `Classify.binarySlice` used the
  generic MessagePack parser and answered "not saltpack" where
  `IsSaltpackBinarySlice` classifies).  Statements only; proofs in
  Saltpack/Proofs/ClassifyCodec.lean.

  `decName` / `decVersionTop` / `decMode` = `decoder.Decode(&formatName)` /
  `Decode(&version)` / `Decode(&msgType)` through `Model/Codec.lean`; driven by the
  streams `classify.binary.shapes`, `classify.stream.shapes`,
  `classify.armored.shapes`, `dispatch.shapes` (every field in every shape
  go-codec accepts or refuses).
-/
import Saltpack.Proofs.ClassifyCodec
import Saltpack.Proofs.ClassifyLemmas

namespace Saltpack.Props.C16
open Saltpack Saltpack.Classify Saltpack.Codec Saltpack.Proofs Saltpack.Proofs.CodecMono

/-- **The classifier's three decoders are local**: what `Decode(&formatName)`,
    `Decode(&version)`, `Decode(&msgType)` read from the front of `b` they read,
    to the same value, from the front of every extension `b ++ e` (the fuel of
    `swallow` for surplus version elements grows with the input; more fuel never
    changes an answer).  All inputs. -/
theorem C16_field_decoders_local (b e r : Bytes) :
    (∀ x, decName b = .ok (x, r) → decName (b ++ e) = .ok (x, r ++ e)) ∧
    (∀ v, decVersionTop b = .ok (v, r) → decVersionTop (b ++ e) = .ok (v, r ++ e)) ∧
    (∀ t, decMode b = .ok (t, r) → decMode (b ++ e) = .ok (t, r ++ e)) :=
  ⟨fun x h => decName_ext b x r e h, fun v h => decVersionTop_ext b v r e h, fun t h => decMode_ext b t r e h⟩

/-- go-codec's `swallow` and generic decoding (`interface{}`), any depth budget:
    an object read with fuel `f` from the front of `b` is read with every fuel
    `f' ≥ f` from the front of every extension -/
theorem C16_swallow_local (f f' rem : Nat) (h : f ≤ f') (b r e : Bytes) (hs : swallow f rem b = .ok ((), r)) :
    swallow f' rem (b ++ e) = .ok ((), r ++ e) :=
  (allSim f f' h).swallow rem b () r e hs

/-- the body of the classifier decides by these three reads: an answer IS the
    three successful reads (format name equal to "saltpack", a mode among the four) -/
theorem C16_binary_body_iff (rest : Bytes) (t : Int) (v : Version) :
    binBody rest = .ok (t, v) ↔
      isMode t = true ∧ ∃ r1 r2 r3, decName rest = .ok (Gen.c_sp_FormatName, r1) ∧
        decVersionTop r1 = .ok (v, r2) ∧ decMode r2 = .ok (t, r3) :=
  ⟨binBody_sound rest t v, fun ⟨hm, r1, r2, r3, h1, h2, h3⟩ => binBody_of rest r1 r2 r3 t v hm h1 h2 h3⟩

/-- the audit's input (#6), kernel-evaluated: the format name written as a
    MessagePack ARRAY of eight small ints is classified (encryption, 2.0), as
    `IsSaltpackBinarySlice` does (go-codec's `DecodeString` accepts arrays of uint8) -/
theorem C16_binary_name_as_ints :
    binarySlice ([0xc4, 0x40, 0x96, 0x98, 0x73, 0x61, 0x6c, 0x74, 0x70, 0x61, 0x63, 0x6b, 0x92, 0x02, 0x00, 0x00] ++
      List.replicate 50 0) = .ok (0, ⟨2, 0⟩) := by decide +kernel

/-- further go-codec shapes, kernel-evaluated: version in map form
    (`{"minor":0,"major":2}`), mode nil (= 0), version with a surplus element
    (swallowed), a `uint64` mode that wraps to −1 (refused) -/
theorem C16_binary_codec_shapes :
    binarySlice ([0xc4, 0x40, 0x96, 0xa8, 0x73, 0x61, 0x6c, 0x74, 0x70, 0x61, 0x63, 0x6b,
        0x82, 0xa5, 0x6d, 0x69, 0x6e, 0x6f, 0x72, 0x00, 0xa5, 0x6d, 0x61, 0x6a, 0x6f, 0x72, 0x02, 0x03] ++ List.replicate 40 0)
      = .ok (3, ⟨2, 0⟩) ∧
    binarySlice ([0xc4, 0x40, 0x96, 0xa8, 0x73, 0x61, 0x6c, 0x74, 0x70, 0x61, 0x63, 0x6b, 0x92, 0x01, 0x00, 0xc0] ++ List.replicate 40 0)
      = .ok (0, ⟨1, 0⟩) ∧
    binarySlice ([0xc4, 0x40, 0x96, 0xa8, 0x73, 0x61, 0x6c, 0x74, 0x70, 0x61, 0x63, 0x6b, 0x93, 0x02, 0x00, 0x91, 0x90, 0x01] ++ List.replicate 40 0)
      = .ok (1, ⟨2, 0⟩) ∧
    binarySlice ([0xc4, 0x40, 0x96, 0xa8, 0x73, 0x61, 0x6c, 0x74, 0x70, 0x61, 0x63, 0x6b, 0x92, 0x02, 0x00,
        0xcf, 0xff, 0xff, 0xff, 0xff, 0xff, 0xff, 0xff, 0xff] ++ List.replicate 40 0)
      = .notSaltpack := by decide +kernel

end Saltpack.Props.C16
