/-
  Property C16, extension (ii) — the stream layer: `bufio.Reader.Peek` does not
  consume, `ClassifyStream` on the bufio machine is the pure classifier of the
  bytes to come, a reader error in the peeked range is reported, and
  classification followed by reading the stream to its end yields exactly the
  bytes and final condition of the source.

  `Bufio` (Model/Bufio.lean) is a state machine for what the code uses of
  `bufio.Reader` (`NewReaderSize`, `Size`, `fill`, `readErr`, `Peek`, `Read`) over
  a scripted source — a list of deliveries `(bytes, condition?)`, i.e. every
  fragmentation, data-with-EOF and data-with-error readers.  `view s` is what the
  reader will still deliver (all bytes up to the source's first condition, and
  that condition); `Inv` is the machine invariant (no `(0, nil)` reads in the
  script — `Progress` —, buffer within its size).  The machine is compared with
  the real `bufio.Reader` call by call (stream `bufio.calls`, including scripts
  WITH empty reads and `io.ErrNoProgress`), and `ClassifyStream` + drain with the
  real code on scripted readers (`bufio.classify`).

  Partial: the equality "machine = pure `classifyStream`" and "classify then drain
  = source" are proved when the source holds at least one full buffer
  (`size ≤ length`, no condition is met while peeking) and, for shorter streams,
  when the stream ends with an ERROR (`C16_stream_error_reported`).  A stream
  shorter than the buffer that ends with EOF — where `Peek` reports and forgets
  the EOF and the second `Peek` reads the source again — is covered by the
  correspondence only (`bufio.classify`, modes one/bytes/rand/eofdata/empty).
-/
import Saltpack.Proofs.Bufio

namespace Saltpack.Props.C16
open Saltpack Saltpack.Classify Saltpack.Stream Saltpack.Bufio Saltpack.Proofs.BufioP

/-- **`Peek` does not consume.**  For every state of the machine and every `n`:
    without an error the `n` returned bytes are the first `n` bytes to come and
    the view is unchanged; `ErrBufferFull` only when `n` exceeds the buffer
    (view unchanged, the returned bytes are the front of the view); any other
    condition is reported exactly when the WHOLE remaining stream is shorter than
    `n`: the returned bytes and the condition ARE the view, and the reader keeps
    the bytes but forgets the condition -/
theorem C16_peek_does_not_consume (n : Nat) (s : BState) (hi : Inv s)
    (out : Bytes) (e : Option BErr) (s' : BState) (h : peek n s = (out, e, s')) :
    Inv s' ∧ s'.size = s.size ∧
    (e = none → out = (view s).1.take n ∧ out.length = n ∧ view s' = view s ∧ n ≤ s.size) ∧
    (e = some .bufferFull → n > s.size ∧ view s' = view s ∧ ∃ r, (view s).1 = out ++ r) ∧
    (∀ x, e = some x → x ≠ .bufferFull →
      view s = (out, x) ∧ s'.err = none ∧ s'.buf = out ∧ out.length < n ∧ n ≤ s.size) :=
  peek_view n s hi out e s' h

/-- **`Read` removes exactly what it returns** -/
theorem C16_read_exact (cap : Nat) (hcap : 0 < cap) (s : BState) (hi : Inv s)
    (d : Bytes) (e : Option BErr) (s' : BState) (h : Bufio.read cap s = (d, e, s')) :
    (e = none → Inv s' ∧ s'.size = s.size ∧ (view s).1 = d ++ (view s').1 ∧ (view s).2 = (view s').2 ∧ d ≠ []) ∧
    (∀ x, e = some x → view s = (d, x)) :=
  read_view cap hcap s hi d e s' h

/-- **reading to the end yields the view**: every byte once, in order, then the
    final condition — for every read size -/
theorem C16_drain_exact (cap : Nat) (hcap : 0 < cap) (fuel : Nat) (s : BState) (acc : Bytes) (hi : Inv s)
    (hf : (view s).1.length + 1 ≤ fuel) :
    (drain cap fuel s acc).1 = acc ++ (view s).1 ∧ (drain cap fuel s acc).2.1 = some (view s).2 :=
  drain_view cap hcap fuel s acc hi hf

/-- **`ClassifyStream` on the machine is the pure classifier and consumes
    nothing** (reader able to deliver a full buffer): the answer is
    `classifyStream size` of the bytes to come (`C16_stream_*`, `C16_peeks_only`
    speak about that function), and the view is unchanged -/
theorem C16_stream_machine_pure (s : BState) (hi : Inv s) (hsz : 0 < s.size) (hfull : s.size ≤ (view s).1.length) :
    Inv (classifyStreamM s).2 ∧ view (classifyStreamM s).2 = view s ∧
    (classifyStreamM s).1 = .v (classifyStream s.size (view s).1) :=
  classify_full s hi hsz hfull

/-- **a source error within the peeked range is reported by `ClassifyStream`,
    never swallowed into a verdict** (the property behind fix 565786f / D12) -/
theorem C16_stream_error_reported (s : BState) (hi : Inv s) (all : Bytes) (x : Err)
    (hv : view s = (all, .src (.err x))) (hshort : all.length < s.size) :
    (classifyStreamM s).1 = .fail (.src (.err x)) :=
  classify_reports_error s hi all x hv hshort

/-- **classification, then reading the stream to its end, yields EXACTLY the
    bytes and the final condition of the underlying source** — for every
    fragmentation of the source (`src` is an arbitrary script without `(0, nil)`
    reads), every buffer size, every read size; the verdict is the pure function
    of those bytes -/
theorem C16_classify_then_drain (src : Source) (size cap fuel : Nat) (hp : Progress src) (hcap : 0 < cap)
    (hfull : max size minReadBufferSize ≤ (total src).1.length) (hfuel : (total src).1.length + 1 ≤ fuel) :
    let r := classifyStreamM (newReaderSize src size)
    r.1 = .v (classifyStream (max size minReadBufferSize) (total src).1) ∧
    (drain cap fuel r.2 []).1 = (total src).1 ∧
    (drain cap fuel r.2 []).2.1 = some (.src (total src).2) :=
  classify_then_drain src size cap fuel hp hcap hfull hfuel

/-- the armored classifier never answers `io.EOF` (used to align the machine's
    fall-through with the pure function) -/
theorem C16_armored_never_eof (pref : Bytes) : armoredPrefix pref ≠ .eof :=
  armoredPrefix_ne_eof pref

/-! ## non-vacuity -/

/-- a 20-byte source in three deliveries (the last with EOF) behind a 16-byte
    reader: invariant, full buffer, and what the theorems then say, evaluated -/
def demoSrc : Source := [([1, 2, 3, 4, 5, 6, 7], none), ([8, 9, 10, 11, 12, 13, 14, 15, 16, 17], none), ([18, 19, 20], some .eof)]

example : Progress demoSrc ∧ (total demoSrc).1.length = 20 ∧ (total demoSrc).2 = .eof := by
  refine ⟨?_, by decide, by decide⟩
  intro p hp
  simp only [demoSrc, List.mem_cons, List.not_mem_nil, or_false] at hp
  rcases hp with rfl | rfl | rfl <;> simp

example : (peek 16 (newReaderSize demoSrc 16)).1 = (total demoSrc).1.take 16 ∧
    (peek 16 (newReaderSize demoSrc 16)).2.1 = none := by decide

example : (drain 3 30 (classifyStreamM (newReaderSize demoSrc 16)).2 []).1 = (total demoSrc).1 := by decide

/-- a transient error after 5 bytes: reported -/
example : (classifyStreamM (newReaderSize [([66, 69, 71, 73, 78], some (.err .ioError)), ([32, 83], none)] 4096)).1 =
    .fail (.src (.err .ioError)) := by decide

end Saltpack.Props.C16
