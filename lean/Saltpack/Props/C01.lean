/-
  Property C01 — encryption round trip: every recipient recovers the exact
  plaintext and sender.  Statements only; proofs in
  Saltpack/Proofs/RoundTripEnc.lean (+ EncLemmas, ChunkPlan, Receiver).

  The theorems speak about the packet structures the sender model builds
  (`Encrypt.sealPackets`); `Encrypt.sealWith` is exactly their MessagePack
  encoding — compared byte-for-byte with `Seal` / `NewEncryptStream` of the
  implementation by the correspondence — and `C01_wire` is the MessagePack round
  trip that relates bytes and structures.

  Keyrings: `C01_roundtrip_ring` / `C01_roundtrip_ring_unique` (and their
  `_bytes` forms) are about ANY keyring `faithfulKeyring P sks` that holds a
  recipient's key somewhere among other keys (proofs: Proofs/RingEnc.lean,
  RingRT.lean); `C01_roundtrip` / `C01_roundtrip_bytes` (ring = exactly that one
  key) are their corollaries.
-/
import Saltpack.Proofs.RoundTripEnc
import Saltpack.Proofs.MsgpackRT
import Saltpack.Proofs.WireRT
import Saltpack.Proofs.RingRT
import Saltpack.Proofs.ArmoredRT
import Saltpack.Toy

namespace Saltpack.Props.C01
open Saltpack Saltpack.Encrypt Saltpack.Proofs

/-- **Round trip, any keyring that holds a recipient's key.**  For every
    plaintext, both versions, named or anonymous sender, every non-empty list of
    recipients with distinct keys in any visible/hidden pattern, every chunk
    size, and every keyring `sks` (any number of box secret keys, in any order)
    that contains the secret key `sk` of SOME recipient position `i`:
    the message opens to exactly the plaintext, with the true sender key (or the
    ephemeral key and the anonymous flag), the list of named recipients — and it
    opens *as some recipient `i'` whose secret key `sk'` is in the ring*: the
    reported receiver key, hidden flag and anonymous-recipient count are those
    of `i'`.  (If the ring holds the keys of several recipients the receiver
    picks one: the first visible recipient, in header order, whose key is in the
    ring; failing that the first ring key, in ring order, that belongs to a
    hidden recipient.  `C01_roundtrip_ring_unique` says `i' = i`, `sk' = sk`
    when only one recipient's key is in the ring.)
    Hypotheses beyond `Prims.Lawful`: a named sender's key differs from the
    ephemeral key (`hnamed`); visible recipients have non-empty key ids (`hpub`);
    `RingNoSpuriousOpen` — no key of the ring opens the payload-key box of a
    hidden recipient that precedes its own entry (for a foreign key: of any
    hidden recipient): `tryHiddenReceivers` tries every ring key against every
    hidden entry, and authenticated encryption is what makes the wrong ones
    fail; it is the standing assumption on `box`, not a consequence of
    `Prims.Lawful` (see the toy counterexample at the end of this file). -/
theorem C01_roundtrip_ring (P : Prims) (hP : P.Lawful) (bs : Nat) (hbs : 0 < bs)
    (v : Version) (hv : v = v1 ∨ v = v2)
    (sender : Option Bytes) (rs : List Recipient) (eph payloadKey pt : Bytes)
    (hpk : payloadKey.length = 32)
    (hnamed : ∀ s, sender = some s → P.boxPub s ≠ P.boxPub eph)
    (hpub : ∀ r ∈ rs, r.hidden = false → r.pub ≠ [])
    (sks : List Bytes) (i : Nat) (hi : i < rs.length) (sk : Bytes) (hmem : sk ∈ sks)
    (hsk : (rs.getD i default).pub = P.boxPub sk)
    (hns : RingNoSpuriousOpen P v eph payloadKey rs sks)
    (h : EncHeader) (hb : Bytes) (blks : List EncBlock)
    (hseal : sealPackets P bs v sender rs eph payloadKey pt = .ok (h, hb, blks)) :
    ∃ i' sk', i' < rs.length ∧ sk' ∈ sks ∧ (rs.getD i' default).pub = P.boxPub sk' ∧
      Decrypt.openAll P knownMajor (faithfulKeyring P sks) (.ok hb h) ⟨blks.map some, .eof⟩ =
        .ok ({ senderKey := P.boxPub (sender.getD eph), senderIsAnon := sender.isNone,
               receiverKey := sk', receiverIsAnon := (rs.getD i' default).hidden,
               namedReceivers := (rs.filter (fun r => !r.hidden)).map (·.pub),
               numAnonReceivers := if (rs.getD i' default).hidden then (rs.filter (·.hidden)).length else 0 }, pt) :=
  enc_roundtrip_seal_ring P hP bs hbs v hv sender rs eph payloadKey pt hpk hnamed hpub sks i hi sk hmem hsk hns
    h hb blks hseal

/-- **…with the exact key information when the ring holds one recipient's key
    only** (`honly`: every other key of the ring is foreign — extra keys before
    and after the recipient key, in any number): the receiver reports exactly
    recipient `i`, its key `sk` and its hidden flag, wherever `sk` sits in the ring. -/
theorem C01_roundtrip_ring_unique (P : Prims) (hP : P.Lawful) (bs : Nat) (hbs : 0 < bs)
    (v : Version) (hv : v = v1 ∨ v = v2)
    (sender : Option Bytes) (rs : List Recipient) (eph payloadKey pt : Bytes)
    (hpk : payloadKey.length = 32)
    (hnamed : ∀ s, sender = some s → P.boxPub s ≠ P.boxPub eph)
    (hpub : ∀ r ∈ rs, r.hidden = false → r.pub ≠ [])
    (sks : List Bytes) (i : Nat) (hi : i < rs.length) (sk : Bytes) (hmem : sk ∈ sks)
    (hsk : (rs.getD i default).pub = P.boxPub sk)
    (honly : ∀ s ∈ sks, ∀ j, j < rs.length → (rs.getD j default).pub = P.boxPub s → j = i ∧ s = sk)
    (hns : RingNoSpuriousOpen P v eph payloadKey rs sks)
    (h : EncHeader) (hb : Bytes) (blks : List EncBlock)
    (hseal : sealPackets P bs v sender rs eph payloadKey pt = .ok (h, hb, blks)) :
    Decrypt.openAll P knownMajor (faithfulKeyring P sks) (.ok hb h) ⟨blks.map some, .eof⟩ =
      .ok ({ senderKey := P.boxPub (sender.getD eph), senderIsAnon := sender.isNone,
             receiverKey := sk, receiverIsAnon := (rs.getD i default).hidden,
             namedReceivers := (rs.filter (fun r => !r.hidden)).map (·.pub),
             numAnonReceivers := if (rs.getD i default).hidden then (rs.filter (·.hidden)).length else 0 }, pt) :=
  enc_roundtrip_seal_ring_unique P hP bs hbs v hv sender rs eph payloadKey pt hpk hnamed hpub sks i hi sk hmem hsk
    honly hns h hb blks hseal

/-- the hypothesis on the ring in its plain (stronger) form: no key of the ring
    opens a hidden entry that is not its own -/
theorem C01_ring_hypothesis_plain (P : Prims) (v : Version) (eph payloadKey : Bytes) (rs : List Recipient)
    (sks : List Bytes)
    (h : ∀ s ∈ sks, ∀ j, j < rs.length → (rs.getD j default).hidden = true →
      (rs.getD j default).pub ≠ P.boxPub s → ∀ n, Nonce.payloadKeyBox v j = .ok n →
        P.unbox s (P.boxPub eph) n (P.box eph (rs.getD j default).pub n payloadKey) = none) :
    RingNoSpuriousOpen P v eph payloadKey rs sks :=
  RingNoSpuriousOpen.of_foreign h

/-- **Round trip, keyring = exactly the recipient's key** (corollary of
    `C01_roundtrip_ring_unique`: `sks = [sk]`).  For every plaintext, both
    versions, named or anonymous
    sender, every non-empty list of recipients with distinct keys in any
    visible/hidden pattern, every chunk size and every recipient position `i`:
    the holder of recipient `i`'s secret key opens the message to exactly the
    plaintext, with the true sender key (or the ephemeral key and the anonymous
    flag), its own key, its hidden flag, the list of named recipients and the
    count of anonymous ones.
    Hypotheses beyond `Prims.Lawful`: a named sender's key differs from the
    ephemeral key (`hnamed`); visible recipients have non-empty key ids (`hpub`);
    `NoSpuriousOpen` — the opener's key does not open the payload-key boxes of
    hidden recipients that precede it (the standing assumption on `box`;
    exercised by the `example` with `i = 1` at the end of this file). -/
theorem C01_roundtrip (P : Prims) (hP : P.Lawful) (bs : Nat) (hbs : 0 < bs)
    (v : Version) (hv : v = v1 ∨ v = v2)
    (sender : Option Bytes) (rs : List Recipient) (eph payloadKey pt : Bytes)
    (hpk : payloadKey.length = 32)
    (hnamed : ∀ s, sender = some s → P.boxPub s ≠ P.boxPub eph)
    (hpub : ∀ r ∈ rs, r.hidden = false → r.pub ≠ [])
    (hblocks : (chunkPlan v bs pt).length < 2 ^ 64 - 1)
    (i : Nat) (hi : i < rs.length) (sk : Bytes) (hsk : (rs.getD i default).pub = P.boxPub sk)
    (hns : NoSpuriousOpen P v eph payloadKey rs i sk)
    (h : EncHeader) (hb : Bytes) (blks : List EncBlock)
    (hseal : sealPackets P bs v sender rs eph payloadKey pt = .ok (h, hb, blks)) :
    Decrypt.openAll P knownMajor (faithfulKeyring P [sk]) (.ok hb h) ⟨blks.map some, .eof⟩ =
      .ok ({ senderKey := P.boxPub (sender.getD eph), senderIsAnon := sender.isNone,
             receiverKey := sk, receiverIsAnon := (rs.getD i default).hidden,
             namedReceivers := (rs.filter (fun r => !r.hidden)).map (·.pub),
             numAnonReceivers := if (rs.getD i default).hidden then (rs.filter (·.hidden)).length else 0 }, pt) :=
  have _ := hblocks
  enc_roundtrip_of_ring P hP bs hbs v hv sender rs eph payloadKey pt hpk hnamed hpub i hi sk hsk hns h hb blks hseal

/-- a keyring holding none of the recipient keys (and opening none of the boxes)
    gets `noDecryptionKey` and no plaintext -/
theorem C01_no_key (P : Prims) (hP : P.Lawful) (bs : Nat)
    (v : Version) (hv : v = v1 ∨ v = v2)
    (sender : Option Bytes) (rs : List Recipient) (eph payloadKey pt : Bytes)
    (sks : List Bytes)
    (hnone : ∀ s ∈ sks, ∀ r ∈ rs, r.pub ≠ P.boxPub s)
    (hopen : ∀ s ∈ sks, ∀ j, j < rs.length → ∀ n, Nonce.payloadKeyBox v j = .ok n →
        P.unbox s (P.boxPub eph) n (P.box eph (rs.getD j default).pub n payloadKey) = none)
    (h : EncHeader) (hb : Bytes) (blks : List EncBlock)
    (hseal : sealPackets P bs v sender rs eph payloadKey pt = .ok (h, hb, blks)) :
    Decrypt.openAll P knownMajor (faithfulKeyring P sks) (.ok hb h) ⟨blks.map some, .eof⟩ =
      .error .noDecryptionKey ∧
    (Decrypt.openStream P knownMajor (faithfulKeyring P sks) (.ok hb h) ⟨blks.map some, .eof⟩).released = [] :=
  enc_no_key P hP bs v hv sender rs eph payloadKey pt sks hnone hopen h hb blks hseal

/-- sealing succeeds on every legal input (the round trip is not vacuous) -/
theorem C01_seal_total (P : Prims) (bs : Nat) (v : Version) (hv : v = v1 ∨ v = v2)
    (sender : Option Bytes) (rs : List Recipient) (eph payloadKey pt : Bytes)
    (hrs : rs ≠ []) (hn : rs.length ≤ 4294967295) (hd : (rs.map (·.pub)).Nodup)
    (hblocks : (chunkPlan v bs pt).length < 2 ^ 64 - 1) :
    ∃ h hb blks, sealPackets P bs v sender rs eph payloadKey pt = .ok (h, hb, blks) ∧
      blks.length = (chunkPlan v bs pt).length ∧ h.receivers.length = rs.length :=
  sealPackets_ok P bs v hv sender rs eph payloadKey pt hrs hn hd hblocks

/-- chunking at every length, incl. ±1 around multiples of the block size: the
    chunks concatenate to the plaintext, none exceeds a block, every non-final
    chunk before the last data chunk is a full block, exactly the last packet is
    final -/
theorem C01_chunking (v : Version) (bs : Nat) (hb : 0 < bs) (pt : Bytes) :
    ((chunkPlan v bs pt).map (·.1)).flatten = pt ∧
    (∀ p ∈ chunkPlan v bs pt, p.1.length ≤ bs) ∧
    (∃ pre c, chunkPlan v bs pt = pre ++ [(c, true)] ∧ ∀ p ∈ pre, p.2 = false) ∧
    (∀ pre c rest, chunkPlan v bs pt = pre ++ (c, false) :: rest → (v = v1 ∨ v = v2) →
      (rest.length ≥ 2 ∨ v = v2) → c.length = bs) :=
  ⟨chunkPlan_flatten v bs pt, chunkPlan_size v bs hb pt, chunkPlan_final v bs pt, chunkPlan_full v bs hb pt⟩

/-- all-at-once = streaming read to the end; nothing unless it ended cleanly -/
theorem C01_forms_agree (P : Prims) (valid : Validator) (kr : Keyring) (hr : HeaderRead EncHeader)
    (ps : PStream EncBlock) (m : MKI) (pt : Bytes) :
    Decrypt.openAll P valid kr hr ps = .ok (m, pt) ↔
      (Decrypt.openStream P valid kr hr ps).err = none ∧ (Decrypt.openStream P valid kr hr ps).mki = some m ∧
      (Decrypt.openStream P valid kr hr ps).released = pt := by
  unfold Decrypt.openAll
  generalize Decrypt.openStream P valid kr hr ps = r
  obtain ⟨mk, rel, err, calls⟩ := r
  cases err <;> cases mk <;> simp

/-- binary form = structures (MessagePack round trip of every written value) -/
theorem C01_wire (v : Msgpack.Val) (hv : ValWF v) (rest : Bytes) :
    Msgpack.parse1 (Msgpack.encode v ++ rest) = .ok (v, rest) :=
  parse1_encode v hv rest

/-- **Round trip on the emitted BYTES, any keyring that holds a recipient's key.**
    The message `Seal` emits, split the way a receiver's MessagePack stream
    splits it (`Wire.splitEnc`: header bytes, header, payload packets, clean
    end), opens with the same key info as `C01_roundtrip_ring` — the composition
    of the structure-level round trip with the MessagePack round trip of every
    packet.  (Size hypotheses: everything fits MessagePack's 32-bit lengths; real
    parameters satisfy them — see the `example` in Proofs/WireRT.lean.) -/
theorem C01_roundtrip_bytes_ring (P : Prims) (hP : P.Lawful) (bs : Nat) (hbs : 0 < bs) (hbs32 : bs + 16 < 2 ^ 32)
    (v : Version) (hv : v = v1 ∨ v = v2)
    (sender : Option Bytes) (rs : List Encrypt.Recipient) (eph payloadKey pt : Bytes)
    (hpk : payloadKey.length = 32)
    (hnamed : ∀ s, sender = some s → P.boxPub s ≠ P.boxPub eph)
    (hpub : ∀ r ∈ rs, r.hidden = false → r.pub ≠ [])
    (sks : List Bytes) (i : Nat) (hi : i < rs.length) (sk : Bytes) (hmem : sk ∈ sks)
    (hsk : (rs.getD i default).pub = P.boxPub sk)
    (hns : RingNoSpuriousOpen P v eph payloadKey rs sks)
    (L : Nat) (hL : ∀ r ∈ rs, r.pub.length ≤ L) (hsmall : 145 + rs.length * (L + 63) < 2 ^ 32)
    (msg : Bytes) (hmsg : Encrypt.sealWith P bs v sender rs eph payloadKey pt = .ok msg) :
    ∃ hr ps, Wire.splitEnc msg = .ok (hr, ps) ∧
      ∃ i' sk', i' < rs.length ∧ sk' ∈ sks ∧ (rs.getD i' default).pub = P.boxPub sk' ∧
        Decrypt.openAll P knownMajor (faithfulKeyring P sks) hr ps =
          .ok ({ senderKey := P.boxPub (sender.getD eph), senderIsAnon := sender.isNone,
                 receiverKey := sk', receiverIsAnon := (rs.getD i' default).hidden,
                 namedReceivers := (rs.filter (fun r => !r.hidden)).map (·.pub),
                 numAnonReceivers := if (rs.getD i' default).hidden then (rs.filter (·.hidden)).length else 0 }, pt) :=
  enc_roundtrip_bytes_ring P hP bs hbs hbs32 v hv sender rs eph payloadKey pt hpk hnamed hpub sks i hi sk hmem hsk hns
    L hL hsmall msg hmsg

/-- …with the exact key information when the ring holds one recipient's key only -/
theorem C01_roundtrip_bytes_ring_unique (P : Prims) (hP : P.Lawful) (bs : Nat) (hbs : 0 < bs)
    (hbs32 : bs + 16 < 2 ^ 32) (v : Version) (hv : v = v1 ∨ v = v2)
    (sender : Option Bytes) (rs : List Encrypt.Recipient) (eph payloadKey pt : Bytes)
    (hpk : payloadKey.length = 32)
    (hnamed : ∀ s, sender = some s → P.boxPub s ≠ P.boxPub eph)
    (hpub : ∀ r ∈ rs, r.hidden = false → r.pub ≠ [])
    (sks : List Bytes) (i : Nat) (hi : i < rs.length) (sk : Bytes) (hmem : sk ∈ sks)
    (hsk : (rs.getD i default).pub = P.boxPub sk)
    (honly : ∀ s ∈ sks, ∀ j, j < rs.length → (rs.getD j default).pub = P.boxPub s → j = i ∧ s = sk)
    (hns : RingNoSpuriousOpen P v eph payloadKey rs sks)
    (L : Nat) (hL : ∀ r ∈ rs, r.pub.length ≤ L) (hsmall : 145 + rs.length * (L + 63) < 2 ^ 32)
    (msg : Bytes) (hmsg : Encrypt.sealWith P bs v sender rs eph payloadKey pt = .ok msg) :
    ∃ hr ps, Wire.splitEnc msg = .ok (hr, ps) ∧
      Decrypt.openAll P knownMajor (faithfulKeyring P sks) hr ps =
        .ok ({ senderKey := P.boxPub (sender.getD eph), senderIsAnon := sender.isNone,
               receiverKey := sk, receiverIsAnon := (rs.getD i default).hidden,
               namedReceivers := (rs.filter (fun r => !r.hidden)).map (·.pub),
               numAnonReceivers := if (rs.getD i default).hidden then (rs.filter (·.hidden)).length else 0 }, pt) :=
  enc_roundtrip_bytes_ring_unique P hP bs hbs hbs32 v hv sender rs eph payloadKey pt hpk hnamed hpub sks i hi sk hmem
    hsk honly hns L hL hsmall msg hmsg

/-- **Round trip on the emitted BYTES, keyring = exactly the recipient's key**
    (corollary of `C01_roundtrip_bytes_ring_unique`). -/
theorem C01_roundtrip_bytes (P : Prims) (hP : P.Lawful) (bs : Nat) (hbs : 0 < bs) (hbs32 : bs + 16 < 2 ^ 32)
    (v : Version) (hv : v = v1 ∨ v = v2)
    (sender : Option Bytes) (rs : List Encrypt.Recipient) (eph payloadKey pt : Bytes)
    (hpk : payloadKey.length = 32)
    (hnamed : ∀ s, sender = some s → P.boxPub s ≠ P.boxPub eph)
    (hpub : ∀ r ∈ rs, r.hidden = false → r.pub ≠ [])
    (hblocks : (Encrypt.chunkPlan v bs pt).length < 2 ^ 64 - 1)
    (i : Nat) (hi : i < rs.length) (sk : Bytes) (hsk : (rs.getD i default).pub = P.boxPub sk)
    (hns : NoSpuriousOpen P v eph payloadKey rs i sk)
    (L : Nat) (hL : ∀ r ∈ rs, r.pub.length ≤ L) (hsmall : 145 + rs.length * (L + 63) < 2 ^ 32)
    (msg : Bytes) (hmsg : Encrypt.sealWith P bs v sender rs eph payloadKey pt = .ok msg) :
    ∃ hr ps, Wire.splitEnc msg = .ok (hr, ps) ∧
      Decrypt.openAll P knownMajor (faithfulKeyring P [sk]) hr ps =
        .ok ({ senderKey := P.boxPub (sender.getD eph), senderIsAnon := sender.isNone,
               receiverKey := sk, receiverIsAnon := (rs.getD i default).hidden,
               namedReceivers := (rs.filter (fun r => !r.hidden)).map (·.pub),
               numAnonReceivers := if (rs.getD i default).hidden then (rs.filter (·.hidden)).length else 0 }, pt) := by
  have _ := hblocks
  obtain ⟨_, _, _, _, hs, _, _⟩ := seal_bytes_are_packets_enc P bs v sender rs eph payloadKey pt msg hmsg
  obtain ⟨hcr, _⟩ := sealPackets_inv P bs v sender rs eph payloadKey pt _ _ _ hs
  obtain ⟨_, hnd⟩ := checkReceivers_inv hcr
  exact enc_roundtrip_bytes_ring_unique P hP bs hbs hbs32 v hv sender rs eph payloadKey pt hpk hnamed hpub [sk] i hi sk
    (by simp) hsk (honly_single P rs hnd i hi sk hsk) (RingNoSpuriousOpen.single hsk hns) L hL hsmall msg hmsg

/-- **Armored round trip** (`EncryptArmor62Seal` ∘ `Dearmor62DecryptOpen`, model
    level): the armored text of the message dearmors, with validated
    `BEGIN/END [brand] SALTPACK ENCRYPTED MESSAGE` frames (`C11_roundtrip`), to
    exactly the binary message and the brand, and that payload splits and opens
    as in `C01_roundtrip_bytes_ring`. -/
theorem C01_roundtrip_armored (P : Prims) (hP : P.Lawful) (bs : Nat) (hbs : 0 < bs) (hbs32 : bs + 16 < 2 ^ 32)
    (v : Version) (hv : v = v1 ∨ v = v2)
    (sender : Option Bytes) (rs : List Encrypt.Recipient) (eph payloadKey pt : Bytes)
    (hpk : payloadKey.length = 32)
    (hnamed : ∀ s, sender = some s → P.boxPub s ≠ P.boxPub eph)
    (hpub : ∀ r ∈ rs, r.hidden = false → r.pub ≠ [])
    (sks : List Bytes) (i : Nat) (hi : i < rs.length) (sk : Bytes) (hmem : sk ∈ sks)
    (hsk : (rs.getD i default).pub = P.boxPub sk)
    (hns : RingNoSpuriousOpen P v eph payloadKey rs sks)
    (L : Nat) (hL : ∀ r ∈ rs, r.pub.length ≤ L) (hsmall : 145 + rs.length * (L + 63) < 2 ^ 32)
    (brand : Bytes) (hbr : BrandOK brand)
    (msg : Bytes) (hmsg : Encrypt.sealWith P bs v sender rs eph payloadKey pt = .ok msg) :
    ∃ r hr ps, Armor.open62 (some mtEncryption) (Armor.seal62 mtEncryption brand msg) = .ok r ∧
      r.payload = msg ∧ r.brand = brand ∧
      Wire.splitEnc r.payload = .ok (hr, ps) ∧
      ∃ i' sk', i' < rs.length ∧ sk' ∈ sks ∧ (rs.getD i' default).pub = P.boxPub sk' ∧
        Decrypt.openAll P knownMajor (faithfulKeyring P sks) hr ps =
          .ok ({ senderKey := P.boxPub (sender.getD eph), senderIsAnon := sender.isNone,
                 receiverKey := sk', receiverIsAnon := (rs.getD i' default).hidden,
                 namedReceivers := (rs.filter (fun r => !r.hidden)).map (·.pub),
                 numAnonReceivers := if (rs.getD i' default).hidden then (rs.filter (·.hidden)).length else 0 }, pt) :=
  enc_armored_roundtrip_ring P hP bs hbs hbs32 v hv sender rs eph payloadKey pt hpk hnamed hpub sks i hi sk hmem hsk
    hns L hL hsmall brand hbr msg hmsg

/-! ## non-vacuity -/
example : Toy.prims.Lawful := Toy.lawful

/-- the toy recipients of the examples below: two HIDDEN recipients -/
def toyRs : List Recipient := [⟨Toy.prims.boxPub [4], true⟩, ⟨Toy.prims.boxPub [3], true⟩]

/-- `NoSpuriousOpen` for the second (hidden) recipient `[3]`, position `i = 1`:
    its key does not open the box made for the hidden recipient `[4]` at
    position 0 — a genuine obligation (`j = 0 < i`), here met because the two
    toy keys differ within their first 16 bytes -/
theorem toy_noSpurious : NoSpuriousOpen Toy.prims v2 [2] (Toy.pad 32 [9]) toyRs 1 [3] := by
  intro j hj _ n hn
  have hj0 : j = 0 := by omega
  subst hj0
  have : n = Nonce.payloadKeyBoxV2 0 := by
    simp only [Nonce.payloadKeyBox, show v2.major = 2 from rfl, show ¬ ((2 : Int) = 1) by decide,
      if_true, if_false, Except.ok.injEq] at hn
    exact hn.symm
  subst this
  decide

/-- **`C01_roundtrip` instantiated with a hidden entry and `i = 1 > 0`** (so
    that `NoSpuriousOpen` is exercised): the holder of `[3]` opens the message
    of the named sender `[1]` to the plaintext, as the anonymous recipient at
    position 1 -/
example : ∃ h hb blks,
    sealPackets Toy.prims 4 v2 (some [1]) toyRs [2] (Toy.pad 32 [9]) [1, 2, 3, 4, 5] = .ok (h, hb, blks) ∧
    Decrypt.openAll Toy.prims knownMajor (faithfulKeyring Toy.prims [[3]]) (.ok hb h) ⟨blks.map some, .eof⟩ =
      .ok ({ senderKey := Toy.prims.boxPub [1], senderIsAnon := false, receiverKey := [3],
             receiverIsAnon := true, namedReceivers := [], numAnonReceivers := 2 }, [1, 2, 3, 4, 5]) := by
  obtain ⟨h, hb, blks, hs, _⟩ := C01_seal_total Toy.prims 4 v2 (Or.inr rfl) (some [1]) toyRs [2] (Toy.pad 32 [9])
    [1, 2, 3, 4, 5] (by decide) (by decide) (by decide) (by decide)
  refine ⟨h, hb, blks, hs, ?_⟩
  exact C01_roundtrip Toy.prims Toy.lawful 4 (by decide) v2 (Or.inr rfl) (some [1]) toyRs [2] (Toy.pad 32 [9])
    [1, 2, 3, 4, 5] (by decide) (by intro s hs; cases hs; decide) (by decide) (by decide)
    1 (by decide) [3] (by decide) toy_noSpurious h hb blks hs

/-- the same message opened with a ring of three keys — a foreign key, the
    recipient's key, another foreign key (`C01_roundtrip_ring_unique`) -/
example : ∃ h hb blks,
    sealPackets Toy.prims 4 v2 (some [1]) toyRs [2] (Toy.pad 32 [9]) [1, 2, 3, 4, 5] = .ok (h, hb, blks) ∧
    Decrypt.openAll Toy.prims knownMajor (faithfulKeyring Toy.prims [[7], [3], [8]]) (.ok hb h)
        ⟨blks.map some, .eof⟩ =
      .ok ({ senderKey := Toy.prims.boxPub [1], senderIsAnon := false, receiverKey := [3],
             receiverIsAnon := true, namedReceivers := [], numAnonReceivers := 2 }, [1, 2, 3, 4, 5]) := by
  obtain ⟨h, hb, blks, hs, _⟩ := C01_seal_total Toy.prims 4 v2 (Or.inr rfl) (some [1]) toyRs [2] (Toy.pad 32 [9])
    [1, 2, 3, 4, 5] (by decide) (by decide) (by decide) (by decide)
  refine ⟨h, hb, blks, hs, ?_⟩
  refine C01_roundtrip_ring_unique Toy.prims Toy.lawful 4 (by decide) v2 (Or.inr rfl) (some [1]) toyRs [2]
    (Toy.pad 32 [9]) [1, 2, 3, 4, 5] (by decide) (by intro s hs; cases hs; decide) (by decide)
    [[7], [3], [8]] 1 (by decide) [3] (by decide) (by decide) ?_ ?_ h hb blks hs
  · intro s hs j hj heq
    have hs' : s = [7] ∨ s = [3] ∨ s = [8] := by simpa using hs
    have hj' : j = 0 ∨ j = 1 := by
      have : j < 2 := hj
      omega
    rcases hs' with rfl | rfl | rfl <;> rcases hj' with rfl | rfl <;>
      first
        | exact ⟨rfl, rfl⟩
        | exact absurd heq (by decide)
  · apply C01_ring_hypothesis_plain
    intro s hs j hj _ hne n hn
    have hs' : s = [7] ∨ s = [3] ∨ s = [8] := by simpa using hs
    have hj' : j = 0 ∨ j = 1 := by
      have : j < 2 := hj
      omega
    have hn' : n = Nonce.payloadKeyBoxV2 j := by
      simp only [Nonce.payloadKeyBox, show v2.major = 2 from rfl, show ¬ ((2 : Int) = 1) by decide,
        if_true, if_false, Except.ok.injEq] at hn
      exact hn.symm
    subst hn'
    rcases hs' with rfl | rfl | rfl <;> rcases hj' with rfl | rfl <;>
      first
        | decide
        | exact absurd rfl hne

/-- `NoSpuriousOpen` is NOT a consequence of `Prims.Lawful`: the toy "box" puts
    a 16-byte tag derived from the first 16 bytes of the shared key in front of
    the plaintext, so two keys that agree on their first 16 bytes open each
    other's boxes.  (The hypothesis is true of the toy primitives exactly for
    keys that differ within their first 16 bytes, as in the examples above.) -/
example : ¬ NoSpuriousOpen Toy.prims v2 [2] (Toy.pad 32 [9])
    [⟨Toy.prims.boxPub (zeros 16 ++ [1]), true⟩, ⟨Toy.prims.boxPub (zeros 16 ++ [2]), true⟩] 1 (zeros 16 ++ [2]) := by
  intro h
  have := h 0 (by decide) (by decide) (Nonce.payloadKeyBoxV2 0) (by decide)
  exact absurd this (by decide)

end Saltpack.Props.C01
