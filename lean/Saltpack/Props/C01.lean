/-
  Property C01 — encryption round trip: every recipient recovers the exact
  plaintext and sender.  Statements only; proofs in
  Saltpack/Proofs/RoundTripEnc.lean (+ EncLemmas, ChunkPlan, Receiver).

  The theorems speak about the packet structures the sender model builds
  (`Encrypt.sealPackets`); `Encrypt.sealWith` is exactly their MessagePack
  encoding — compared byte-for-byte with `Seal` / `NewEncryptStream` of the
  implementation by the correspondence — and `C01_wire` is the MessagePack round
  trip that relates bytes and structures.
-/
import Saltpack.Proofs.RoundTripEnc
import Saltpack.Proofs.MsgpackRT
import Saltpack.Proofs.WireRT
import Saltpack.Toy

namespace Saltpack.Props.C01
open Saltpack Saltpack.Encrypt Saltpack.Proofs

/-- **Round trip.** For every plaintext, both versions, named or anonymous
    sender, every non-empty list of recipients with distinct keys in any
    visible/hidden pattern, every chunk size and every recipient position `i`:
    the holder of recipient `i`'s secret key opens the message to exactly the
    plaintext, with the true sender key (or the ephemeral key and the anonymous
    flag), its own key, its hidden flag, the list of named recipients and the
    count of anonymous ones.
    Hypotheses beyond `Prims.Lawful`: a named sender's key differs from the
    ephemeral key (`hnamed`); visible recipients have non-empty key ids (`hpub`);
    `NoSpuriousOpen` — the opener's key does not open the payload-key boxes of
    hidden recipients that precede it (the standing assumption on `box`). -/
theorem C01_roundtrip (P : Prims) (hP : P.Lawful) (bs : Nat) (hbs : 0 < bs)
    (v : Version) (hv : v = v1 ∨ v = v2)
    (sender : Option Bytes) (rs : List Recipient) (eph payloadKey pt : Bytes)
    (hpk : payloadKey.length = 32)
    (hnamed : ∀ s, sender = some s → P.boxPub s ≠ P.boxPub eph)
    (hpub : ∀ r ∈ rs, r.hidden = false → r.pub ≠ [])
    (hblocks : (chunkPlan v bs pt).length < 2 ^ 64 - 1)
    (i : Nat) (hi : i < rs.length) (sk : Bytes) (hsk : (rs.getD i default).pub = P.boxPub sk)
    (hns : NoSpuriousOpen P v eph payloadKey rs i sk)
    (h : EncHeader) (hb : Bytes) (blks : List EncBlock)
    (hseal : sealPackets P bs v sender rs eph payloadKey pt = .ok (h, hb, blks)) :
    Decrypt.openAll P knownMajor (faithfulKeyring P [sk]) (.ok hb h) ⟨blks.map some, .eof⟩ =
      .ok ({ senderKey := P.boxPub (sender.getD eph), senderIsAnon := sender.isNone,
             receiverKey := sk, receiverIsAnon := (rs.getD i default).hidden,
             namedReceivers := (rs.filter (fun r => !r.hidden)).map (·.pub),
             numAnonReceivers := if (rs.getD i default).hidden then (rs.filter (·.hidden)).length else 0 }, pt) :=
  enc_roundtrip P hP bs hbs v hv sender rs eph payloadKey pt hpk hnamed hpub hblocks i hi sk hsk hns h hb blks hseal

/-- a keyring holding none of the recipient keys (and opening none of the boxes)
    gets `noDecryptionKey` and no plaintext -/
theorem C01_no_key (P : Prims) (hP : P.Lawful) (bs : Nat)
    (v : Version) (hv : v = v1 ∨ v = v2)
    (sender : Option Bytes) (rs : List Recipient) (eph payloadKey pt : Bytes)
    (sks : List Bytes)
    (hnone : ∀ s ∈ sks, ∀ r ∈ rs, r.pub ≠ P.boxPub s)
    (hopen : ∀ s ∈ sks, ∀ j, j < rs.length → ∀ n, Nonce.payloadKeyBox v j = .ok n →
        P.unbox s (P.boxPub eph) n (P.box eph (rs.getD j default).pub n payloadKey) = none)
    (h : EncHeader) (hb : Bytes) (blks : List EncBlock)
    (hseal : sealPackets P bs v sender rs eph payloadKey pt = .ok (h, hb, blks)) :
    Decrypt.openAll P knownMajor (faithfulKeyring P sks) (.ok hb h) ⟨blks.map some, .eof⟩ =
      .error .noDecryptionKey ∧
    (Decrypt.openStream P knownMajor (faithfulKeyring P sks) (.ok hb h) ⟨blks.map some, .eof⟩).released = [] :=
  enc_no_key P hP bs v hv sender rs eph payloadKey pt sks hnone hopen h hb blks hseal

/-- sealing succeeds on every legal input (the round trip is not vacuous) -/
theorem C01_seal_total (P : Prims) (bs : Nat) (v : Version) (hv : v = v1 ∨ v = v2)
    (sender : Option Bytes) (rs : List Recipient) (eph payloadKey pt : Bytes)
    (hrs : rs ≠ []) (hn : rs.length ≤ 4294967295) (hd : (rs.map (·.pub)).Nodup)
    (hblocks : (chunkPlan v bs pt).length < 2 ^ 64 - 1) :
    ∃ h hb blks, sealPackets P bs v sender rs eph payloadKey pt = .ok (h, hb, blks) ∧
      blks.length = (chunkPlan v bs pt).length ∧ h.receivers.length = rs.length :=
  sealPackets_ok P bs v hv sender rs eph payloadKey pt hrs hn hd hblocks

/-- chunking at every length, incl. ±1 around multiples of the block size: the
    chunks concatenate to the plaintext, none exceeds a block, every non-final
    chunk before the last data chunk is a full block, exactly the last packet is
    final -/
theorem C01_chunking (v : Version) (bs : Nat) (hb : 0 < bs) (pt : Bytes) :
    ((chunkPlan v bs pt).map (·.1)).flatten = pt ∧
    (∀ p ∈ chunkPlan v bs pt, p.1.length ≤ bs) ∧
    (∃ pre c, chunkPlan v bs pt = pre ++ [(c, true)] ∧ ∀ p ∈ pre, p.2 = false) ∧
    (∀ pre c rest, chunkPlan v bs pt = pre ++ (c, false) :: rest → (v = v1 ∨ v = v2) →
      (rest.length ≥ 2 ∨ v = v2) → c.length = bs) :=
  ⟨chunkPlan_flatten v bs pt, chunkPlan_size v bs hb pt, chunkPlan_final v bs pt, chunkPlan_full v bs hb pt⟩

/-- all-at-once = streaming read to the end; nothing unless it ended cleanly -/
theorem C01_forms_agree (P : Prims) (valid : Validator) (kr : Keyring) (hr : HeaderRead EncHeader)
    (ps : PStream EncBlock) (m : MKI) (pt : Bytes) :
    Decrypt.openAll P valid kr hr ps = .ok (m, pt) ↔
      (Decrypt.openStream P valid kr hr ps).err = none ∧ (Decrypt.openStream P valid kr hr ps).mki = some m ∧
      (Decrypt.openStream P valid kr hr ps).released = pt := by
  unfold Decrypt.openAll
  generalize Decrypt.openStream P valid kr hr ps = r
  obtain ⟨mk, rel, err, calls⟩ := r
  cases err <;> cases mk <;> simp

/-- binary form = structures (MessagePack round trip of every written value) -/
theorem C01_wire (v : Msgpack.Val) (hv : ValWF v) (rest : Bytes) :
    Msgpack.parse1 (Msgpack.encode v ++ rest) = .ok (v, rest) :=
  parse1_encode v hv rest

/-- **Round trip on the emitted BYTES.** The message `Seal` emits, split the way
    a receiver's MessagePack stream splits it (`Wire.splitEnc`: header bytes,
    header, payload packets, clean end), opens at every recipient position to the
    plaintext with the same key info as `C01_roundtrip` — the composition of the
    structure-level round trip with the MessagePack round trip of every packet.
    (Size hypotheses: everything fits MessagePack's 32-bit lengths; real
    parameters satisfy them — see the `example` in Proofs/WireRT.lean.) -/
theorem C01_roundtrip_bytes (P : Prims) (hP : P.Lawful) (bs : Nat) (hbs : 0 < bs) (hbs32 : bs + 16 < 2 ^ 32)
    (v : Version) (hv : v = v1 ∨ v = v2)
    (sender : Option Bytes) (rs : List Encrypt.Recipient) (eph payloadKey pt : Bytes)
    (hpk : payloadKey.length = 32)
    (hnamed : ∀ s, sender = some s → P.boxPub s ≠ P.boxPub eph)
    (hpub : ∀ r ∈ rs, r.hidden = false → r.pub ≠ [])
    (hblocks : (Encrypt.chunkPlan v bs pt).length < 2 ^ 64 - 1)
    (i : Nat) (hi : i < rs.length) (sk : Bytes) (hsk : (rs.getD i default).pub = P.boxPub sk)
    (hns : NoSpuriousOpen P v eph payloadKey rs i sk)
    (L : Nat) (hL : ∀ r ∈ rs, r.pub.length ≤ L) (hsmall : 145 + rs.length * (L + 63) < 2 ^ 32)
    (msg : Bytes) (hmsg : Encrypt.sealWith P bs v sender rs eph payloadKey pt = .ok msg) :
    ∃ hr ps, Wire.splitEnc msg = .ok (hr, ps) ∧
      Decrypt.openAll P knownMajor (faithfulKeyring P [sk]) hr ps =
        .ok ({ senderKey := P.boxPub (sender.getD eph), senderIsAnon := sender.isNone,
               receiverKey := sk, receiverIsAnon := (rs.getD i default).hidden,
               namedReceivers := (rs.filter (fun r => !r.hidden)).map (·.pub),
               numAnonReceivers := if (rs.getD i default).hidden then (rs.filter (·.hidden)).length else 0 }, pt) :=
  enc_roundtrip_bytes P hP bs hbs hbs32 v hv sender rs eph payloadKey pt hpk hnamed hpub hblocks i hi sk hsk hns
    L hL hsmall msg hmsg

/-! ## non-vacuity -/
example : Toy.prims.Lawful := Toy.lawful

end Saltpack.Props.C01
