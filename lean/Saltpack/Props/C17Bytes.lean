/-
  C17 (gating, no cross-mode confusion) at the BYTE level: for EVERY byte string.

  `Props/C17.lean` states the gates for a decoded header `.ok hb h` and the
  transplant theorems under `Wire.decodeHeader … = .ok …`, i.e. for
  ARRAY-shaped headers read by the spec-shaped reader (DESIGN §12: "C17's
  transplant theorems cover array-shaped headers only").  Here both are stated
  for what the byte-level front end (`Model/Front.lean`) makes of every byte
  string it reads — go-codec's typed decode (`Model/Codec.lean`, the primary
  reader): a header given as a MAP keyed by codec names, as nil, with fields in
  lenient encodings (byte strings as arrays of integers, wide integers, …)
  included; `Wire`'s typed view only where `Codec` says unmodelled.

  * gates: whatever the bytes, a receiver releases something or accepts only if
    the header it decoded names the saltpack format, an admitted version and its
    own mode; conversely a decoded header with another format name / a refused
    version / another mode is refused with the documented error class, nothing
    released, no key object touched; no decodable header — the same.
  * transplants: header bytes `hb` written canonically by a sender of ANY mode
    (`CanonHeaderBytes hb m ver`, true of all four model senders:
    `C17_honest_header_canonical`) decode to mode `m`, version `ver` under BOTH
    readers and into BOTH header structs (`C17_front_header_tag`); hence
    (a) a receiver of another mode / not admitting `ver` that released or accepted
    anything on any byte string read DIFFERENT header bytes
    (`C17_*_no_transplant_bytes`; with `ne_hash_or_collision`: a different header
    hash, or the two header byte strings are an explicit collision of the hash), and
    (b) behind these header bytes such a receiver accepts NOTHING, whatever packets
    follow — packets that were accepted under their own header included: exact
    refusal class, nothing released, no key object touched
    (`C17_*_foreign_header_refused_bytes`).

  Statements only; proofs in Saltpack/Proofs/CodecBytesGate.lean.
-/
import Saltpack.Proofs.CodecBytesGate
import Saltpack.Toy

namespace Saltpack.Props.C17
open Saltpack Saltpack.Proofs

/-! ## gates, every byte string -/

theorem C17_decrypt_gate_bytes (P : Prims) (valid : Validator) (kr : Keyring) (msg : Bytes) (r : Decrypt.Result)
    (hopen : Decrypt.openBytes P valid kr msg = .ok r) (hacc : r.released ≠ [] ∨ r.err = none) :
    ∃ hb h ps, Front.readEnc msg = .ok (.ok hb h, ps) ∧ FrontEncHeader hb h ∧
      h.formatName = Gen.c_sp_FormatName ∧ valid h.version = true ∧ h.typ = mtEncryption :=
  decrypt_gate_bytes P valid kr msg r hopen hacc

theorem C17_signcrypt_gate_bytes (P : Prims) (kr : Keyring) (res : Signcrypt.Resolver) (msg : Bytes)
    (r : Signcrypt.Result) (hopen : Signcrypt.openBytes P kr res msg = .ok r)
    (hacc : r.released ≠ [] ∨ r.err = none) :
    ∃ hb h ps, Front.readSigncrypt msg = .ok (.ok hb h, ps) ∧ FrontEncHeader hb h ∧
      h.formatName = Gen.c_sp_FormatName ∧ h.version.major = 2 ∧ h.typ = mtSigncryption :=
  signcrypt_gate_bytes P kr res msg r hopen hacc

theorem C17_verify_gate_bytes (P : Prims) (valid : Validator) (kr : Keyring) (msg : Bytes) (r : Sign.Result)
    (hopen : Sign.verifyBytes P valid kr msg = .ok r) (hacc : r.released ≠ [] ∨ r.err = none) :
    ∃ hb h ps, Front.readSig msg = .ok (.ok hb h, ps) ∧ FrontSigHeader hb h ∧
      h.formatName = Gen.c_sp_FormatName ∧ valid h.version = true ∧ h.typ = mtAttached :=
  verify_gate_bytes P valid kr msg r hopen hacc

theorem C17_detached_gate_bytes (P : Prims) (valid : Validator) (kr : Keyring) (sigMsg msg k : Bytes)
    (hopen : Sign.verifyDetachedBytes P valid kr sigMsg msg = .ok (.ok k)) :
    ∃ hb h sr, Front.readDetached sigMsg = .ok (.ok hb h, sr) ∧ FrontSigHeader hb h ∧
      h.formatName = Gen.c_sp_FormatName ∧ valid h.version = true ∧ h.typ = mtDetached :=
  detached_gate_bytes P valid kr sigMsg msg k hopen

/-- `FrontEncHeader` / `FrontSigHeader`, spelled out: go-codec's typed decode of
    the header bytes, or (the fallback) the typed view of the generic parse -/
theorem C17_front_header_def (hb : Bytes) :
    (∀ h : EncHeader, FrontEncHeader hb h ↔
      ((∃ r, Codec.decEncHeader hb = .ok (h, r)) ∨ Wire.decodeHeader viewEncHeader hb = .ok (.ok hb h))) ∧
    (∀ h : SigHeader, FrontSigHeader hb h ↔
      ((∃ r, Codec.decSigHeader hb = .ok (h, r)) ∨ Wire.decodeHeader viewSigHeader hb = .ok (.ok hb h))) :=
  ⟨fun _ => Iff.rfl, fun _ => Iff.rfl⟩

/-! ## refusals: exact error class, nothing released, no key object touched -/

/-- **Decryption.** The front end read `msg` and decoded the header `h` (any
    shape): another format name ⇒ `ErrNotASaltpackMessage`; else another mode ⇒
    `ErrWrongMessageType`; else a version the validator refuses ⇒
    `ErrBadVersion` — each with nothing released and an empty call log. -/
theorem C17_decrypt_refuses_bytes (P : Prims) (valid : Validator) (kr : Keyring) (msg hb : Bytes) (h : EncHeader)
    (ps : PStream EncBlock) (hread : Front.readEnc msg = .ok (.ok hb h, ps)) :
    (h.formatName ≠ Gen.c_sp_FormatName →
      Decrypt.openBytes P valid kr msg = .ok ⟨none, [], some .notASaltpackMessage, []⟩) ∧
    (h.formatName = Gen.c_sp_FormatName → h.typ ≠ mtEncryption →
      Decrypt.openBytes P valid kr msg = .ok ⟨none, [], some .wrongMessageType, []⟩) ∧
    (h.formatName = Gen.c_sp_FormatName → h.typ = mtEncryption → valid h.version = false →
      Decrypt.openBytes P valid kr msg = .ok ⟨none, [], some .badVersion, []⟩) := by
  obtain ⟨a, b, c⟩ := dec_validate_error valid h
  rw [dec_openBytes_of_read hread]
  exact ⟨fun h1 => by rw [dec_openStream_refused P valid kr hb h ps _ (a h1)],
         fun h1 h2 => by rw [dec_openStream_refused P valid kr hb h ps _ (b h1 h2)],
         fun h1 h2 h3 => by rw [dec_openStream_refused P valid kr hb h ps _ (c h1 h2 h3)]⟩

theorem C17_signcrypt_refuses_bytes (P : Prims) (kr : Keyring) (res : Signcrypt.Resolver) (msg hb : Bytes)
    (h : EncHeader) (ps : PStream SigncryptBlock) (hread : Front.readSigncrypt msg = .ok (.ok hb h, ps)) :
    (h.formatName ≠ Gen.c_sp_FormatName →
      Signcrypt.openBytes P kr res msg = .ok ⟨none, [], some .notASaltpackMessage, []⟩) ∧
    (h.formatName = Gen.c_sp_FormatName → h.typ ≠ mtSigncryption →
      Signcrypt.openBytes P kr res msg = .ok ⟨none, [], some .wrongMessageType, []⟩) ∧
    (h.formatName = Gen.c_sp_FormatName → h.typ = mtSigncryption → h.version.major ≠ 2 →
      Signcrypt.openBytes P kr res msg = .ok ⟨none, [], some .badVersion, []⟩) := by
  obtain ⟨a, b, c⟩ := sc_validate_error h
  rw [sc_openBytes_of_read hread]
  exact ⟨fun h1 => by rw [sc_openStream_refused P kr res hb h ps _ (a h1)],
         fun h1 h2 => by rw [sc_openStream_refused P kr res hb h ps _ (b h1 h2)],
         fun h1 h2 h3 => by rw [sc_openStream_refused P kr res hb h ps _ (c h1 h2 h3)]⟩

theorem C17_verify_refuses_bytes (P : Prims) (valid : Validator) (kr : Keyring) (msg hb : Bytes) (h : SigHeader)
    (ps : PStream SigBlock) (hread : Front.readSig msg = .ok (.ok hb h, ps)) :
    (h.formatName ≠ Gen.c_sp_FormatName →
      Sign.verifyBytes P valid kr msg = .ok ⟨none, [], some .notASaltpackMessage⟩) ∧
    (h.formatName = Gen.c_sp_FormatName → valid h.version = false →
      Sign.verifyBytes P valid kr msg = .ok ⟨none, [], some .badVersion⟩) ∧
    (h.formatName = Gen.c_sp_FormatName → valid h.version = true → h.typ ≠ mtAttached →
      Sign.verifyBytes P valid kr msg = .ok ⟨none, [], some .wrongMessageType⟩) := by
  obtain ⟨a, b, c⟩ := sig_validate_error valid h mtAttached
  rw [sig_verifyBytes_of_read hread]
  exact ⟨fun h1 => by rw [ver_verifyStream_refused P valid kr hb h ps _ (a h1)],
         fun h1 h2 => by rw [ver_verifyStream_refused P valid kr hb h ps _ (b h1 h2)],
         fun h1 h2 h3 => by rw [ver_verifyStream_refused P valid kr hb h ps _ (c h1 h2 h3)]⟩

theorem C17_detached_refuses_bytes (P : Prims) (valid : Validator) (kr : Keyring) (sigMsg msg hb : Bytes)
    (h : SigHeader) (sr : Sign.SigRead) (hread : Front.readDetached sigMsg = .ok (.ok hb h, sr)) :
    (h.formatName ≠ Gen.c_sp_FormatName →
      Sign.verifyDetachedBytes P valid kr sigMsg msg = .ok (.error .notASaltpackMessage)) ∧
    (h.formatName = Gen.c_sp_FormatName → valid h.version = false →
      Sign.verifyDetachedBytes P valid kr sigMsg msg = .ok (.error .badVersion)) ∧
    (h.formatName = Gen.c_sp_FormatName → valid h.version = true → h.typ ≠ mtDetached →
      Sign.verifyDetachedBytes P valid kr sigMsg msg = .ok (.error .wrongMessageType)) := by
  obtain ⟨a, b, c⟩ := sig_validate_error valid h mtDetached
  rw [sig_verifyDetachedBytes_of_read hread]
  exact ⟨fun h1 => by rw [det_verifyDetached_refused P valid kr hb h sr msg _ (a h1)],
         fun h1 h2 => by rw [det_verifyDetached_refused P valid kr hb h sr msg _ (b h1 h2)],
         fun h1 h2 h3 => by rw [det_verifyDetached_refused P valid kr hb h sr msg _ (c h1 h2 h3)]⟩

/-- no decodable header (first object not a byte string, input ends, inner bytes
    do not decode): refused, nothing released, no key object touched -/
theorem C17_no_header_refused_bytes (P : Prims) (valid : Validator) (kr : Keyring) (res : Signcrypt.Resolver) (msg : Bytes) :
    (∀ hr ps, Front.readEnc msg = .ok (hr, ps) → (∀ hb h, hr ≠ .ok hb h) →
      ∃ r, Decrypt.openBytes P valid kr msg = .ok r ∧ r.released = [] ∧ r.err ≠ none ∧ r.calls = []) ∧
    (∀ hr ps, Front.readSigncrypt msg = .ok (hr, ps) → (∀ hb h, hr ≠ .ok hb h) →
      ∃ r, Signcrypt.openBytes P kr res msg = .ok r ∧ r.released = [] ∧ r.err ≠ none ∧ r.calls = []) ∧
    (∀ hr ps, Front.readSig msg = .ok (hr, ps) → (∀ hb h, hr ≠ .ok hb h) →
      ∃ r, Sign.verifyBytes P valid kr msg = .ok r ∧ r.released = [] ∧ r.err ≠ none) ∧
    (∀ hr sr m, Front.readDetached msg = .ok (hr, sr) → (∀ hb h, hr ≠ .ok hb h) →
      ∃ e, Sign.verifyDetachedBytes P valid kr msg m = .ok (.error e)) := by
  refine ⟨fun hr ps hrd hno => ?_, fun hr ps hrd hno => ?_, fun hr ps hrd hno => ?_, fun hr sr m hrd hno => ?_⟩
  · exact ⟨_, dec_openBytes_of_read hrd, dec_openStream_no_header P valid kr hr ps hno⟩
  · exact ⟨_, sc_openBytes_of_read hrd, sc_openStream_no_header P kr res hr ps hno⟩
  · exact ⟨_, sig_verifyBytes_of_read hrd, ver_verifyStream_no_header P valid kr hr ps hno⟩
  · obtain ⟨e, he⟩ := det_verifyDetached_no_header P valid kr hr sr m hno
    exact ⟨e, by rw [sig_verifyDetachedBytes_of_read hrd, he]⟩

/-! ## transplants, every byte string, both readers, both header structs -/

/-- `CanonHeaderBytes hb m ver`, spelled out: `hb` is the canonical encoding of
    an array `[format name (str), [major, minor], mode, …]` — what follows is
    arbitrary (any family's fields, any extras) -/
theorem C17_canon_header_def (hb : Bytes) (m : Int) (ver : Version) :
    CanonHeaderBytes hb m ver ↔
      ∃ (fmt : Bytes) (rest : List Msgpack.Val),
        hb = Msgpack.encode (.arr (.str fmt :: ver.toVal :: .int m :: rest)) ∧
        ValWF (.arr (.str fmt :: ver.toVal :: .int m :: rest)) ∧
        (-(2 ^ 63 : Int) ≤ m ∧ m < 2 ^ 63) ∧ (-(2 ^ 63 : Int) ≤ ver.major ∧ ver.major < 2 ^ 63) ∧
        (-(2 ^ 63 : Int) ≤ ver.minor ∧ ver.minor < 2 ^ 63) :=
  Iff.rfl

/-- the header bytes of every model sender are canonical and announce its own
    mode and the requested version -/
theorem C17_honest_header_canonical (P : Prims) :
    (∀ bs v sender rs eph pk pt (h : EncHeader) hb blks,
      Encrypt.sealPackets P bs v sender rs eph pk pt = .ok (h, hb, blks) → ValWF h.toVal →
      CanonHeaderBytes hb mtEncryption v) ∧
    (∀ bs sender rs eph pk pt (h : EncHeader) hb blks,
      Signcrypt.sealPackets P bs sender rs eph pk pt = .ok (h, hb, blks) → ValWF h.toVal →
      CanonHeaderBytes hb mtSigncryption v2) ∧
    (∀ bs v signer nonce msg (h : SigHeader) hb blks,
      Sign.attachedPackets P bs v signer nonce msg = .ok (h, hb, blks) → ValWF h.toVal →
      CanonHeaderBytes hb mtAttached v) ∧
    (∀ v signer nonce msg out, Sign.detachedWith P v signer nonce msg = .ok out →
      (P.sigPub signer).length < 2 ^ 32 → nonce.length < 2 ^ 32 →
      ∃ hb rest, out = headerPacket hb ++ rest ∧ CanonHeaderBytes hb mtDetached v) :=
  ⟨fun bs v sender rs eph pk pt h hb blks hs hwf => seal_header_canonical P bs v sender rs eph pk pt h hb blks hs hwf,
   fun bs sender rs eph pk pt h hb blks hs hwf => signcrypt_header_canonical P bs sender rs eph pk pt h hb blks hs hwf,
   fun bs v signer nonce msg h hb blks hs hwf => sign_header_canonical P bs v signer nonce msg h hb blks hs hwf,
   fun v signer nonce msg out hs hpk hn => detached_header_canonical P v signer nonce msg out hs hpk hn⟩

/-- **One tag per canonical header, whoever reads it.**  Canonical header bytes
    announcing `(m, ver)` decode to that mode and version under the spec-shaped
    reader AND under go-codec's typed decode, into the encryption-family struct
    AND into the signature-family struct (an honest signature header read by a
    decryptor: `sender_public`, `nonce` land in `ephemeral`, `sendersecretbox`,
    `rcvrs` stays empty — mode and version are still those of the sender). -/
theorem C17_front_header_tag (hb : Bytes) (m : Int) (ver : Version) (hc : CanonHeaderBytes hb m ver) :
    headerTag hb = some (m, ver) ∧
    (∀ h : EncHeader, FrontEncHeader hb h → (h.typ, h.version) = (m, ver)) ∧
    (∀ h : SigHeader, FrontSigHeader hb h → (h.typ, h.version) = (m, ver)) :=
  ⟨canonHeaderBytes_tag hc, fun h hf => frontEncHeader_tag hb m ver hc h hf,
   fun h hf => frontSigHeader_tag hb m ver hc h hf⟩

/-- **No transplant into a decryptor.**  `hb` = canonical header bytes announcing
    mode `m`, version `ver` with `m` not encryption or `ver` refused.  A decryptor
    that released anything or ended cleanly on ANY byte string `msg'` read header
    bytes `hb'` that are not `hb`.  (That is the whole content — the former second
    conjunct "different hash or collision" was excluded middle; it follows for any
    two different byte strings, `ne_hash_or_collision`.) -/
theorem C17_decrypt_no_transplant_bytes (P : Prims) (valid : Validator) (kr : Keyring)
    (hb : Bytes) (m : Int) (ver : Version) (hhon : CanonHeaderBytes hb m ver)
    (msg' hb' : Bytes) (h' : EncHeader) (ps : PStream EncBlock)
    (hread : Front.readEnc msg' = .ok (.ok hb' h', ps)) (r : Decrypt.Result)
    (hopen : Decrypt.openBytes P valid kr msg' = .ok r) (hacc : r.released ≠ [] ∨ r.err = none)
    (hother : m ≠ mtEncryption ∨ valid ver = false) :
    hb' ≠ hb :=
  decrypt_no_transplant_bytes P valid kr hb m ver hhon msg' hb' h' ps hread r hopen hacc hother

theorem C17_signcrypt_no_transplant_bytes (P : Prims) (kr : Keyring) (res : Signcrypt.Resolver)
    (hb : Bytes) (m : Int) (ver : Version) (hhon : CanonHeaderBytes hb m ver)
    (msg' hb' : Bytes) (h' : EncHeader) (ps : PStream SigncryptBlock)
    (hread : Front.readSigncrypt msg' = .ok (.ok hb' h', ps)) (r : Signcrypt.Result)
    (hopen : Signcrypt.openBytes P kr res msg' = .ok r) (hacc : r.released ≠ [] ∨ r.err = none)
    (hother : m ≠ mtSigncryption ∨ ver.major ≠ 2) :
    hb' ≠ hb :=
  signcrypt_no_transplant_bytes P kr res hb m ver hhon msg' hb' h' ps hread r hopen hacc hother

theorem C17_verify_no_transplant_bytes (P : Prims) (valid : Validator) (kr : Keyring)
    (hb : Bytes) (m : Int) (ver : Version) (hhon : CanonHeaderBytes hb m ver)
    (msg' hb' : Bytes) (h' : SigHeader) (ps : PStream SigBlock)
    (hread : Front.readSig msg' = .ok (.ok hb' h', ps)) (r : Sign.Result)
    (hopen : Sign.verifyBytes P valid kr msg' = .ok r) (hacc : r.released ≠ [] ∨ r.err = none)
    (hother : m ≠ mtAttached ∨ valid ver = false) :
    hb' ≠ hb :=
  verify_no_transplant_bytes P valid kr hb m ver hhon msg' hb' h' ps hread r hopen hacc hother

theorem C17_detached_no_transplant_bytes (P : Prims) (valid : Validator) (kr : Keyring)
    (hb : Bytes) (m : Int) (ver : Version) (hhon : CanonHeaderBytes hb m ver)
    (sigMsg' hb' : Bytes) (h' : SigHeader) (sr : Sign.SigRead)
    (hread : Front.readDetached sigMsg' = .ok (.ok hb' h', sr)) (msg k : Bytes)
    (hopen : Sign.verifyDetachedBytes P valid kr sigMsg' msg = .ok (.ok k))
    (hother : m ≠ mtDetached ∨ valid ver = false) :
    hb' ≠ hb :=
  detached_no_transplant_bytes P valid kr hb m ver hhon sigMsg' hb' h' sr hread msg k hopen hother

/-! ### … and behind a foreign header nothing is accepted

  The converse direction, with the exact outcome: the front end read `msg'` and its
  header bytes ARE canonical header bytes of another mode / of a version this
  receiver refuses.  Then — whatever packets follow in `msg'`, in particular packets
  that a receiver of the right mode accepted behind this very header — the run is
  refused with `ErrNotASaltpackMessage`, `ErrWrongMessageType` or `ErrBadVersion`,
  releases nothing and touches no key object (`calls = []`). -/

theorem C17_decrypt_foreign_header_refused_bytes (P : Prims) (valid : Validator) (kr : Keyring)
    (hb : Bytes) (m : Int) (ver : Version) (hhon : CanonHeaderBytes hb m ver)
    (msg' : Bytes) (h' : EncHeader) (ps : PStream EncBlock)
    (hread : Front.readEnc msg' = .ok (.ok hb h', ps)) (hother : m ≠ mtEncryption ∨ valid ver = false) :
    ∃ e, Decrypt.openBytes P valid kr msg' = .ok ⟨none, [], some e, []⟩ ∧
      (e = .notASaltpackMessage ∨ e = .wrongMessageType ∨ e = .badVersion) :=
  decrypt_foreign_header_refused P valid kr hb m ver hhon msg' h' ps hread hother

theorem C17_signcrypt_foreign_header_refused_bytes (P : Prims) (kr : Keyring) (res : Signcrypt.Resolver)
    (hb : Bytes) (m : Int) (ver : Version) (hhon : CanonHeaderBytes hb m ver)
    (msg' : Bytes) (h' : EncHeader) (ps : PStream SigncryptBlock)
    (hread : Front.readSigncrypt msg' = .ok (.ok hb h', ps)) (hother : m ≠ mtSigncryption ∨ ver.major ≠ 2) :
    ∃ e, Signcrypt.openBytes P kr res msg' = .ok ⟨none, [], some e, []⟩ ∧
      (e = .notASaltpackMessage ∨ e = .wrongMessageType ∨ e = .badVersion) :=
  signcrypt_foreign_header_refused P kr res hb m ver hhon msg' h' ps hread hother

theorem C17_verify_foreign_header_refused_bytes (P : Prims) (valid : Validator) (kr : Keyring)
    (hb : Bytes) (m : Int) (ver : Version) (hhon : CanonHeaderBytes hb m ver)
    (msg' : Bytes) (h' : SigHeader) (ps : PStream SigBlock)
    (hread : Front.readSig msg' = .ok (.ok hb h', ps)) (hother : m ≠ mtAttached ∨ valid ver = false) :
    ∃ e, Sign.verifyBytes P valid kr msg' = .ok ⟨none, [], some e⟩ ∧
      (e = .notASaltpackMessage ∨ e = .wrongMessageType ∨ e = .badVersion) :=
  verify_foreign_header_refused P valid kr hb m ver hhon msg' h' ps hread hother

theorem C17_detached_foreign_header_refused_bytes (P : Prims) (valid : Validator) (kr : Keyring)
    (hb : Bytes) (m : Int) (ver : Version) (hhon : CanonHeaderBytes hb m ver)
    (sigMsg' : Bytes) (h' : SigHeader) (sr : Sign.SigRead)
    (hread : Front.readDetached sigMsg' = .ok (.ok hb h', sr)) (msg : Bytes)
    (hother : m ≠ mtDetached ∨ valid ver = false) :
    ∃ e, Sign.verifyDetachedBytes P valid kr sigMsg' msg = .ok (.error e) ∧
      (e = .notASaltpackMessage ∨ e = .wrongMessageType ∨ e = .badVersion) :=
  detached_foreign_header_refused P valid kr hb m ver hhon sigMsg' h' sr hread msg hother

/-- non-vacuity: a genuine attached-signature message of the toy sender, handed to
    the DECRYPTOR: the front end reads it (header bytes = the signer's canonical
    header), and the run is refused as a message of the wrong type, no key touched -/
example : (Decrypt.openBytes Toy.prims knownMajor ⟨fun _ => (-1, none), fun _ => none, [], fun _ => none, fun _ => none⟩
      (headerPacket (Msgpack.encode (Sign.header v2 [1] mtAttached [2]).toVal) ++
        [0x93, 0xc3, 0xc4, 0x01, 0x09, 0xc4, 0x01, 0x41])).toOption.map
    (fun r => (r.released, r.err, r.calls)) = some ([], some .wrongMessageType, []) := by decide +kernel

/-! ## concrete hostile byte strings (kernel-evaluated)

  A header given as a MAP keyed by go-codec's field names:
  `{"type": 1, "format_name": "saltpack", "vers": [2, 0]}` — an attached-signature
  label inside a map, handed to the decryptor.  The spec-shaped reader calls it
  unmodelled, go-codec decodes it by names; the gate refuses it. -/

def mapHeader : Bytes :=
  [0x83, 0xa4, 0x74, 0x79, 0x70, 0x65, 0x01,
   0xab, 0x66, 0x6f, 0x72, 0x6d, 0x61, 0x74, 0x5f, 0x6e, 0x61, 0x6d, 0x65,
     0xa8, 0x73, 0x61, 0x6c, 0x74, 0x70, 0x61, 0x63, 0x6b,
   0xa4, 0x76, 0x65, 0x72, 0x73, 0x92, 0x02, 0x00]

def mapHeaderMsg : Bytes := headerPacket mapHeader

example : (match Wire.splitEnc mapHeaderMsg with | .unmodelled _ => true | .ok _ => false) = true := by decide

/-- the front end decodes the map-shaped header: saltpack, 2.0, mode 1 -/
example : (Front.readEnc mapHeaderMsg).toOption.map (fun x => match x.1 with
      | .ok hb h => some (hb == mapHeader, h.formatName == Gen.c_sp_FormatName, h.version, h.typ)
      | _ => none) = some (some (true, true, v2, mtAttached)) := by decide +kernel

/-- a keyring that holds nothing -/
def emptyRing : Keyring := ⟨fun _ => (-1, none), fun _ => none, [], fun _ => none, fun _ => none⟩

/-- … and the decryptor refuses it as a message of the wrong type -/
example : (Decrypt.openBytes Toy.prims knownMajor emptyRing mapHeaderMsg).toOption.map
    (fun r => (r.released, r.err, r.calls)) = some ([], some .wrongMessageType, []) := by decide +kernel

/-- the same header with major version 3, to the verifier: refused as a bad version -/
example : (Sign.verifyBytes Toy.prims knownMajor emptyRing
      (headerPacket (mapHeader.dropLast.dropLast ++ [0x03, 0x00]))).toOption.map
    (fun r => (r.released, r.err)) = some ([], some .badVersion) := by decide +kernel

/-- canonical header bytes of a concrete attached-signature header, and what
    go-codec's typed decode INTO THE ENCRYPTION HEADER makes of them: mode 1, version 2.0 -/
example : CanonHeaderBytes (Msgpack.encode (Sign.header v2 [1] mtAttached [2]).toVal) mtAttached v2 :=
  canon_of_sigHeader _ (sigHeader_valWF _ (by decide) (by decide) (by decide) (by decide) (by decide) (by decide))
    (by unfold InInt64; decide) (by unfold InInt64; decide) (by unfold InInt64; decide)

example : (Codec.decEncHeader (Msgpack.encode (Sign.header v2 [1] mtAttached [2]).toVal)).toOption.map
    (fun x => (x.1.typ, x.1.version, x.1.ephemeral, x.1.senderSecretbox, x.1.receivers)) =
    some (mtAttached, v2, [1], [2], []) := by decide

end Saltpack.Props.C17
