/-
  Property C03 — signcryption round trip for box-key and symmetric-key
  recipients.  Statements only; proofs in Saltpack/Proofs/RoundTripSig.lean,
  RingSig.lean, RingRT.lean.

  Keyrings: the `_ring` theorems are about ANY keyring `faithfulKeyring P sks`
  (any number of box secret keys in any order) that MAY be accompanied by a
  symmetric-key resolver; the theorems without `_ring` (ring = exactly the
  recipient's key / empty ring) are their corollaries.
-/
import Saltpack.Proofs.RoundTripSig
import Saltpack.Proofs.WireRT
import Saltpack.Proofs.RingRT
import Saltpack.Toy

namespace Saltpack.Props.C03
open Saltpack Saltpack.Encrypt

/-- **Box-key recipient, any keyring that holds its key, with or without a
    resolver.**  The ring `sks` holds the box secret key `sk` of the recipient at
    position `i` somewhere among other keys (foreign ones, or those of other
    recipients); `res` is any resolver or none (it is not consulted: box keys are
    tried first).  The message opens to exactly the plaintext and the sender's
    signing public key (none for an anonymous sender).
    `ScRingNoCollision` (`hnc`): up to position `i`, a ring key's derived
    identifier equals a header identifier only for the entry made for that very
    key — `tryBoxSecretKeys` tries every ring key against every entry, stops at
    the first identifier match and fails hard if that box does not open
    (explicit, satisfiable hypothesis: identifiers are 32 bytes of HMAC output). -/
theorem C03_roundtrip_box_ring (P : Prims) (hP : P.Lawful) (bs : Nat) (hbs : 0 < bs)
    (sender : Option Bytes) (rs : List Signcrypt.Recipient) (eph payloadKey pt : Bytes)
    (hpk : payloadKey.length = 32)
    (hsender : ∀ s, sender = some s → ¬ ((P.sigPub s).all (· == 0)))
    (hblocks : (chunkPlan v2 bs pt).length < 2 ^ 64 - 1)
    (sks : List Bytes) (res : Signcrypt.Resolver)
    (i : Nat) (hi : i < rs.length) (sk : Bytes) (hmem : sk ∈ sks) (hsk : rs.getD i default = .box (P.boxPub sk))
    (h : EncHeader) (hb : Bytes) (blks : List SigncryptBlock)
    (hseal : Signcrypt.sealPackets P bs sender rs eph payloadKey pt = .ok (h, hb, blks))
    (hnc : ∀ s ∈ sks, ∀ j, j ≤ i → j < rs.length →
      Signcrypt.keyIdentifier P (Signcrypt.derivedKeyFromBoxKeys P (P.boxPub eph) s) j =
        Decrypt.kidOf (h.receivers.getD j default) →
      rs.getD j default = .box (P.boxPub s)) :
    Signcrypt.openAll P (Proofs.faithfulKeyring P sks) res (.ok hb h) ⟨blks.map some, .eof⟩ =
      .ok (sender.map P.sigPub, pt) :=
  Proofs.sc_roundtrip_box_seal_ring P hP bs hbs sender rs eph payloadKey pt hpk hsender hblocks sks res i hi sk hmem
    hsk h hb blks hseal hnc

/-- **Box-key recipient at any position, keyring = exactly its key** (corollary
    of `C03_roundtrip_box_ring`: `sks = [sk]`, no resolver) opens to exactly the
    plaintext and the
    sender's signing public key (none for an anonymous sender).
    `NoIdentifierCollision` (`hnc`): the opener's derived key does not yield the
    identifier of an earlier header entry (explicit, satisfiable hypothesis). -/
theorem C03_roundtrip_box (P : Prims) (hP : P.Lawful) (bs : Nat) (hbs : 0 < bs)
    (sender : Option Bytes) (rs : List Signcrypt.Recipient) (eph payloadKey pt : Bytes)
    (hpk : payloadKey.length = 32)
    (hsender : ∀ s, sender = some s → ¬ ((P.sigPub s).all (· == 0)))
    (hblocks : (chunkPlan v2 bs pt).length < 2 ^ 64 - 1)
    (i : Nat) (hi : i < rs.length) (sk : Bytes) (hsk : rs.getD i default = .box (P.boxPub sk))
    (h : EncHeader) (hb : Bytes) (blks : List SigncryptBlock)
    (hseal : Signcrypt.sealPackets P bs sender rs eph payloadKey pt = .ok (h, hb, blks))
    (hnc : ∀ j, j < i → Signcrypt.keyIdentifier P (Signcrypt.derivedKeyFromBoxKeys P (P.boxPub eph) sk) j ≠
        Decrypt.kidOf (h.receivers.getD j default)) :
    Signcrypt.openAll P (Proofs.faithfulKeyring P [sk]) none (.ok hb h) ⟨blks.map some, .eof⟩ =
      .ok (sender.map P.sigPub, pt) :=
  Proofs.sc_roundtrip_box_of_ring P hP bs hbs sender rs eph payloadKey pt hpk hsender hblocks i hi sk hsk h hb blks
    hseal hnc

/-- **Symmetric-key recipients, keyring with any (foreign) box keys AND a
    resolver**: the ring's box keys produce none of the header identifiers
    (`hfor`, the explicit no-collision hypothesis); the resolver resolves any
    non-empty subset of the identifiers, each to the true key of its entry. -/
theorem C03_roundtrip_sym_ring (P : Prims) (hP : P.Lawful) (bs : Nat) (hbs : 0 < bs)
    (sender : Option Bytes) (rs : List Signcrypt.Recipient) (eph payloadKey pt : Bytes)
    (hpk : payloadKey.length = 32)
    (hsender : ∀ s, sender = some s → ¬ ((P.sigPub s).all (· == 0)))
    (hblocks : (chunkPlan v2 bs pt).length < 2 ^ 64 - 1)
    (h : EncHeader) (hb : Bytes) (blks : List SigncryptBlock)
    (hseal : Signcrypt.sealPackets P bs sender rs eph payloadKey pt = .ok (h, hb, blks))
    (sks : List Bytes)
    (hfor : ∀ s ∈ sks, ∀ j, j < h.receivers.length →
      Signcrypt.keyIdentifier P (Signcrypt.derivedKeyFromBoxKeys P (P.boxPub eph) s) j ≠
        Decrypt.kidOf (h.receivers.getD j default))
    (f : List Bytes → Except Err (List (Option Bytes))) (keys : List (Option Bytes))
    (hf : f (h.receivers.map Decrypt.kidOf) = .ok keys) (hlen : keys.length = rs.length)
    (htrue : ∀ (j : Nat) (k : Bytes), keys[j]? = some (some k) → ∃ ident, rs[j]? = some (Signcrypt.Recipient.sym k ident))
    (hsome : ∃ (j : Nat) (k : Bytes), keys[j]? = some (some k)) :
    Signcrypt.openAll P (Proofs.faithfulKeyring P sks) (some f) (.ok hb h) ⟨blks.map some, .eof⟩ =
      .ok (sender.map P.sigPub, pt) :=
  Proofs.sc_roundtrip_sym_seal_ring P hP bs hbs sender rs eph payloadKey pt hpk hsender hblocks h hb blks hseal
    sks hfor f keys hf hlen htrue hsome

/-- **Symmetric-key recipients, empty keyring** (corollary of
    `C03_roundtrip_sym_ring`): a resolver that resolves any non-empty subset of
    the identifiers, each to the true key of its entry, opens the message. -/
theorem C03_roundtrip_sym (P : Prims) (hP : P.Lawful) (bs : Nat) (hbs : 0 < bs)
    (sender : Option Bytes) (rs : List Signcrypt.Recipient) (eph payloadKey pt : Bytes)
    (hpk : payloadKey.length = 32)
    (hsender : ∀ s, sender = some s → ¬ ((P.sigPub s).all (· == 0)))
    (hblocks : (chunkPlan v2 bs pt).length < 2 ^ 64 - 1)
    (h : EncHeader) (hb : Bytes) (blks : List SigncryptBlock)
    (hseal : Signcrypt.sealPackets P bs sender rs eph payloadKey pt = .ok (h, hb, blks))
    (f : List Bytes → Except Err (List (Option Bytes))) (keys : List (Option Bytes))
    (hf : f (h.receivers.map Decrypt.kidOf) = .ok keys) (hlen : keys.length = rs.length)
    (htrue : ∀ (j : Nat) (k : Bytes), keys[j]? = some (some k) → ∃ ident, rs[j]? = some (Signcrypt.Recipient.sym k ident))
    (hsome : ∃ (j : Nat) (k : Bytes), keys[j]? = some (some k)) :
    Signcrypt.openAll P (Proofs.faithfulKeyring P []) (some f) (.ok hb h) ⟨blks.map some, .eof⟩ =
      .ok (sender.map P.sigPub, pt) :=
  C03_roundtrip_sym_ring P hP bs hbs sender rs eph payloadKey pt hpk hsender hblocks h hb blks hseal []
    (fun s hs => by cases hs) f keys hf hlen htrue hsome

/-- **Holders of no recipient key get `noDecryptionKey`, and nothing is
    released**: ANY list `sks` of box secret keys none of which is a
    recipient's — precisely: none of which produces the identifier of a header
    entry (`hfor`; for the genuine key of a box recipient the identifier does
    match, so this says "no recipient key, and no identifier collision") — and
    ANY resolver that resolves no identifier (or no resolver at all).
    (Statement strengthened: it used to cover only the empty ring and a resolver
    answering `rs.map (fun _ => none)`, and did not state `released = []`;
    cf. `C01_no_key`.) -/
theorem C03_no_key (P : Prims) (bs : Nat)
    (sender : Option Bytes) (rs : List Signcrypt.Recipient) (eph payloadKey pt : Bytes)
    (h : EncHeader) (hb : Bytes) (blks : List SigncryptBlock)
    (hseal : Signcrypt.sealPackets P bs sender rs eph payloadKey pt = .ok (h, hb, blks))
    (sks : List Bytes)
    (hfor : ∀ s ∈ sks, ∀ j, j < h.receivers.length →
      Signcrypt.keyIdentifier P (Signcrypt.derivedKeyFromBoxKeys P (P.boxPub eph) s) j ≠
        Decrypt.kidOf (h.receivers.getD j default))
    (res : Signcrypt.Resolver)
    (hres : ∀ f, res = some f → ∃ keys, f (h.receivers.map Decrypt.kidOf) = .ok keys ∧
      keys.length = rs.length ∧ ∀ k ∈ keys, k = none) :
    Signcrypt.openAll P (Proofs.faithfulKeyring P sks) res (.ok hb h) ⟨blks.map some, .eof⟩ =
      .error .noDecryptionKey ∧
    (Signcrypt.openStream P (Proofs.faithfulKeyring P sks) res (.ok hb h) ⟨blks.map some, .eof⟩).released = [] :=
  Proofs.sc_no_key_seal_ring P bs sender rs eph payloadKey pt h hb blks hseal sks hfor res hres

/-- the previous form of `C03_no_key` (empty ring, a resolver that answers
    `none` for every identifier) is the special case -/
theorem C03_no_key_empty_ring (P : Prims) (bs : Nat)
    (sender : Option Bytes) (rs : List Signcrypt.Recipient) (eph payloadKey pt : Bytes)
    (h : EncHeader) (hb : Bytes) (blks : List SigncryptBlock)
    (hseal : Signcrypt.sealPackets P bs sender rs eph payloadKey pt = .ok (h, hb, blks))
    (f : List Bytes → Except Err (List (Option Bytes)))
    (hf : f (h.receivers.map Decrypt.kidOf) = .ok (rs.map (fun _ => none))) :
    Signcrypt.openAll P (Proofs.faithfulKeyring P []) (some f) (.ok hb h) ⟨blks.map some, .eof⟩ =
      .error .noDecryptionKey :=
  (C03_no_key P bs sender rs eph payloadKey pt h hb blks hseal [] (fun s hs => by cases hs) (some f)
    (by
      intro f' hf'
      cases hf'
      refine ⟨_, hf, by simp, ?_⟩
      intro k hk
      simp only [List.mem_map] at hk
      obtain ⟨_, _, rfl⟩ := hk
      rfl)).1

/-- **Sealing succeeds on every legal input** (so the `hseal` hypotheses above
    are satisfiable — the round trips are not vacuous): `SigncryptSeal`'s model
    returns `.ok` for every recipient list that passes `checkSigncryptReceivers`
    and every plaintext whose chunk count is below the packet-number bound; the
    header is `Signcrypt.header`, the header bytes its encoding. -/
theorem C03_seal_total (P : Prims) (bs : Nat) (sender : Option Bytes) (rs : List Signcrypt.Recipient)
    (eph payloadKey pt : Bytes)
    (hcr : Signcrypt.checkReceivers rs [] = .ok ())
    (hblocks : (chunkPlan v2 bs pt).length < 2 ^ 64 - 1) :
    ∃ h hb blks, Signcrypt.sealPackets P bs sender rs eph payloadKey pt = .ok (h, hb, blks) ∧
      h = Signcrypt.header P sender eph payloadKey rs ∧ hb = Msgpack.encode h.toVal ∧
      blks.length = (chunkPlan v2 bs pt).length ∧ h.receivers.length = rs.length :=
  Proofs.sc_sealPackets_ok P bs sender rs eph payloadKey pt hcr hblocks

/-- …and `checkSigncryptReceivers` passes for every non-empty list of at most
    2^32 − 1 recipients with pairwise distinct identifiers -/
theorem C03_checkReceivers_ok (rs : List Signcrypt.Recipient)
    (hrs : rs ≠ []) (hn : rs.length ≤ 4294967295) (hd : (rs.map Signcrypt.Recipient.ident).Nodup) :
    Signcrypt.checkReceivers rs [] = .ok () :=
  Proofs.sc_checkReceivers_ok rs hrs hn hd

/-- all-at-once = streaming read to the end, nothing unless it ended cleanly -/
theorem C03_forms_agree (P : Prims) (kr : Keyring) (res : Signcrypt.Resolver) (hr : HeaderRead EncHeader)
    (ps : PStream SigncryptBlock) (s : Option Bytes) (m : Bytes) :
    Signcrypt.openAll P kr res hr ps = .ok (s, m) ↔
      (Signcrypt.openStream P kr res hr ps).err = none ∧ (Signcrypt.openStream P kr res hr ps).sender = s ∧
      (Signcrypt.openStream P kr res hr ps).released = m := by
  unfold Signcrypt.openAll
  generalize Signcrypt.openStream P kr res hr ps = r
  obtain ⟨sg, rel, err, calls⟩ := r
  cases err <;> simp

/-- **Round trips on the emitted BYTES** (the message `SigncryptSeal` emits,
    split as a receiver's MessagePack stream splits it) — box-key recipients,
    any keyring holding the key, with or without a resolver … -/
theorem C03_roundtrip_box_bytes_ring (P : Prims) (hP : P.Lawful) (bs : Nat) (hbs : 0 < bs) (hbs32 : bs + 80 < 2 ^ 32)
    (sender : Option Bytes) (rs : List Signcrypt.Recipient) (eph payloadKey pt : Bytes)
    (hpk : payloadKey.length = 32)
    (hsender : ∀ s, sender = some s → ¬ ((P.sigPub s).all (· == 0)))
    (hblocks : (Encrypt.chunkPlan v2 bs pt).length < 2 ^ 64 - 1)
    (sks : List Bytes) (res : Signcrypt.Resolver)
    (i : Nat) (hi : i < rs.length) (sk : Bytes) (hmem : sk ∈ sks) (hsk : rs.getD i default = .box (P.boxPub sk))
    (hnc : ∀ s ∈ sks, ∀ j, j ≤ i → j < rs.length →
      Signcrypt.keyIdentifier P (Signcrypt.derivedKeyFromBoxKeys P (P.boxPub eph) s) j =
        Decrypt.kidOf ((Signcrypt.header P sender eph payloadKey rs).receivers.getD j default) →
      rs.getD j default = .box (P.boxPub s))
    (L : Nat) (hL32 : 32 ≤ L)
    (hid : ∀ key ident, Signcrypt.Recipient.sym key ident ∈ rs → ident.length ≤ L)
    (hsmall : 145 + rs.length * (L + 63) < 2 ^ 32)
    (msg : Bytes) (hmsg : Signcrypt.sealWith P bs sender rs eph payloadKey pt = .ok msg) :
    ∃ hr ps, Wire.splitSigncrypt msg = .ok (hr, ps) ∧
      Signcrypt.openAll P (Proofs.faithfulKeyring P sks) res hr ps = .ok (sender.map P.sigPub, pt) :=
  Proofs.sc_roundtrip_box_bytes_ring P hP bs hbs hbs32 sender rs eph payloadKey pt hpk hsender hblocks sks res i hi sk
    hmem hsk hnc L hL32 hid hsmall msg hmsg

/-- … keyring = exactly the recipient's key (corollary) … -/
theorem C03_roundtrip_box_bytes (P : Prims) (hP : P.Lawful) (bs : Nat) (hbs : 0 < bs) (hbs32 : bs + 80 < 2 ^ 32)
    (sender : Option Bytes) (rs : List Signcrypt.Recipient) (eph payloadKey pt : Bytes)
    (hpk : payloadKey.length = 32)
    (hsender : ∀ s, sender = some s → ¬ ((P.sigPub s).all (· == 0)))
    (hblocks : (Encrypt.chunkPlan v2 bs pt).length < 2 ^ 64 - 1)
    (i : Nat) (hi : i < rs.length) (sk : Bytes) (hsk : rs.getD i default = .box (P.boxPub sk))
    (hnc : ∀ j, j < i → Signcrypt.keyIdentifier P (Signcrypt.derivedKeyFromBoxKeys P (P.boxPub eph) sk) j ≠
        Decrypt.kidOf ((Signcrypt.header P sender eph payloadKey rs).receivers.getD j default))
    (L : Nat) (hL32 : 32 ≤ L)
    (hid : ∀ key ident, Signcrypt.Recipient.sym key ident ∈ rs → ident.length ≤ L)
    (hsmall : 145 + rs.length * (L + 63) < 2 ^ 32)
    (msg : Bytes) (hmsg : Signcrypt.sealWith P bs sender rs eph payloadKey pt = .ok msg) :
    ∃ hr ps, Wire.splitSigncrypt msg = .ok (hr, ps) ∧
      Signcrypt.openAll P (Proofs.faithfulKeyring P [sk]) none hr ps = .ok (sender.map P.sigPub, pt) :=
  Proofs.sc_roundtrip_box_bytes_ring P hP bs hbs hbs32 sender rs eph payloadKey pt hpk hsender hblocks [sk] none i hi sk
    (by simp) hsk (Proofs.ScRingNoCollision.single hsk hnc) L hL32 hid hsmall msg hmsg

/-- … symmetric-key recipients, keyring of foreign box keys and a resolver … -/
theorem C03_roundtrip_sym_bytes_ring (P : Prims) (hP : P.Lawful) (bs : Nat) (hbs : 0 < bs) (hbs32 : bs + 80 < 2 ^ 32)
    (sender : Option Bytes) (rs : List Signcrypt.Recipient) (eph payloadKey pt : Bytes)
    (hpk : payloadKey.length = 32)
    (hsender : ∀ s, sender = some s → ¬ ((P.sigPub s).all (· == 0)))
    (hblocks : (Encrypt.chunkPlan v2 bs pt).length < 2 ^ 64 - 1)
    (sks : List Bytes)
    (hfor : ∀ s ∈ sks, ∀ j, j < (Signcrypt.header P sender eph payloadKey rs).receivers.length →
      Signcrypt.keyIdentifier P (Signcrypt.derivedKeyFromBoxKeys P (P.boxPub eph) s) j ≠
        Decrypt.kidOf ((Signcrypt.header P sender eph payloadKey rs).receivers.getD j default))
    (f : List Bytes → Except Err (List (Option Bytes))) (keys : List (Option Bytes))
    (hf : f ((Signcrypt.header P sender eph payloadKey rs).receivers.map Decrypt.kidOf) = .ok keys)
    (hlen : keys.length = rs.length)
    (htrue : ∀ (j : Nat) (k : Bytes), keys[j]? = some (some k) → ∃ ident, rs[j]? = some (Signcrypt.Recipient.sym k ident))
    (hsome : ∃ (j : Nat) (k : Bytes), keys[j]? = some (some k))
    (L : Nat) (hL32 : 32 ≤ L)
    (hid : ∀ key ident, Signcrypt.Recipient.sym key ident ∈ rs → ident.length ≤ L)
    (hsmall : 145 + rs.length * (L + 63) < 2 ^ 32)
    (msg : Bytes) (hmsg : Signcrypt.sealWith P bs sender rs eph payloadKey pt = .ok msg) :
    ∃ hr ps, Wire.splitSigncrypt msg = .ok (hr, ps) ∧
      Signcrypt.openAll P (Proofs.faithfulKeyring P sks) (some f) hr ps = .ok (sender.map P.sigPub, pt) :=
  Proofs.sc_roundtrip_sym_bytes_ring P hP bs hbs hbs32 sender rs eph payloadKey pt hpk hsender hblocks sks hfor f keys
    hf hlen htrue hsome L hL32 hid hsmall msg hmsg

/-- … and symmetric-key recipients, empty keyring (corollary) -/
theorem C03_roundtrip_sym_bytes (P : Prims) (hP : P.Lawful) (bs : Nat) (hbs : 0 < bs) (hbs32 : bs + 80 < 2 ^ 32)
    (sender : Option Bytes) (rs : List Signcrypt.Recipient) (eph payloadKey pt : Bytes)
    (hpk : payloadKey.length = 32)
    (hsender : ∀ s, sender = some s → ¬ ((P.sigPub s).all (· == 0)))
    (hblocks : (Encrypt.chunkPlan v2 bs pt).length < 2 ^ 64 - 1)
    (f : List Bytes → Except Err (List (Option Bytes))) (keys : List (Option Bytes))
    (hf : f ((Signcrypt.header P sender eph payloadKey rs).receivers.map Decrypt.kidOf) = .ok keys)
    (hlen : keys.length = rs.length)
    (htrue : ∀ (j : Nat) (k : Bytes), keys[j]? = some (some k) → ∃ ident, rs[j]? = some (Signcrypt.Recipient.sym k ident))
    (hsome : ∃ (j : Nat) (k : Bytes), keys[j]? = some (some k))
    (L : Nat) (hL32 : 32 ≤ L)
    (hid : ∀ key ident, Signcrypt.Recipient.sym key ident ∈ rs → ident.length ≤ L)
    (hsmall : 145 + rs.length * (L + 63) < 2 ^ 32)
    (msg : Bytes) (hmsg : Signcrypt.sealWith P bs sender rs eph payloadKey pt = .ok msg) :
    ∃ hr ps, Wire.splitSigncrypt msg = .ok (hr, ps) ∧
      Signcrypt.openAll P (Proofs.faithfulKeyring P []) (some f) hr ps = .ok (sender.map P.sigPub, pt) :=
  C03_roundtrip_sym_bytes_ring P hP bs hbs hbs32 sender rs eph payloadKey pt hpk hsender hblocks []
    (fun s hs => by cases hs) f keys hf hlen htrue hsome L hL32 hid hsmall msg hmsg

/-! ## non-vacuity -/
example : Toy.prims.Lawful := Toy.lawful

/-! The toy primitives are deliberately degenerate: their HMAC output starts
  with the key, so the 32-byte identifiers of ALL box-key recipients coincide
  (the first 32 bytes of the context string).  `ScRingNoCollision` / `hfor` are
  therefore satisfiable, for the toy primitives, only by rings whose keys meet no
  foreign box-key entry — the examples below are chosen accordingly (real HMAC
  output has no such collisions; the hypotheses say exactly this). -/

/-- toy recipients: a symmetric-key recipient, then two box-key recipients -/
def toyRs : List Signcrypt.Recipient :=
  [.sym (zeros 32) [5, 5], .box (Toy.prims.boxPub [4]), .box (Toy.prims.boxPub [3])]

/-- toy recipients: two symmetric-key recipients -/
def toySyms : List Signcrypt.Recipient := [.sym (zeros 32) [5, 5], .sym (Toy.pad 32 [1]) [6, 6]]

/-- `C03_seal_total`, concretely: `checkSigncryptReceivers` passes for the toy
    recipients and sealing a 5-byte plaintext in blocks of 4 succeeds -/
example : ∃ h hb blks,
    Signcrypt.sealPackets Toy.prims 4 (some [1]) toyRs [2] (Toy.pad 32 [9]) [1, 2, 3, 4, 5] = .ok (h, hb, blks) ∧
    blks.length = 2 ∧ h.receivers.length = 3 := by
  obtain ⟨h, hb, blks, hs, _, _, hl, hr⟩ := C03_seal_total Toy.prims 4 (some [1]) toyRs [2] (Toy.pad 32 [9])
    [1, 2, 3, 4, 5] (C03_checkReceivers_ok toyRs (by decide) (by decide) (by decide)) (by decide)
  exact ⟨h, hb, blks, hs, by rw [hl]; decide, hr⟩

/-- **`C03_roundtrip_box_ring` instantiated**: the box key `[4]` of the recipient
    at position 1 (after a symmetric-key entry), accompanied by a resolver
    (which is never consulted: here it would fail) -/
example : ∃ h hb blks,
    Signcrypt.sealPackets Toy.prims 4 (some [1]) toyRs [2] (Toy.pad 32 [9]) [1, 2, 3, 4, 5] = .ok (h, hb, blks) ∧
    Signcrypt.openAll Toy.prims (Proofs.faithfulKeyring Toy.prims [[4]]) (some (fun _ => .error .ioError))
        (.ok hb h) ⟨blks.map some, .eof⟩ = .ok (some (Toy.prims.sigPub [1]), [1, 2, 3, 4, 5]) := by
  obtain ⟨h, hb, blks, hs, hh, _, _, _⟩ := C03_seal_total Toy.prims 4 (some [1]) toyRs [2] (Toy.pad 32 [9])
    [1, 2, 3, 4, 5] (C03_checkReceivers_ok toyRs (by decide) (by decide) (by decide)) (by decide)
  refine ⟨h, hb, blks, hs, ?_⟩
  refine C03_roundtrip_box_ring Toy.prims Toy.lawful 4 (by decide) (some [1]) toyRs [2] (Toy.pad 32 [9])
    [1, 2, 3, 4, 5] (by decide) (by intro s hs; cases hs; decide) (by decide) [[4]] _ 1 (by decide) [4]
    (by decide) (by decide) h hb blks hs ?_
  subst hh
  intro s hs j hj _ hid
  have hs' : s = [4] := by simpa using hs
  have hj' : j = 0 ∨ j = 1 := by omega
  subst hs'
  rcases hj' with rfl | rfl
  · exact absurd hid (by decide)
  · rfl

/-- **`C03_roundtrip_sym_ring` instantiated**: a ring with a foreign box key and a
    resolver that knows the second symmetric key only -/
example : ∃ h hb blks,
    Signcrypt.sealPackets Toy.prims 4 none toySyms [2] (Toy.pad 32 [9]) [1, 2, 3, 4, 5] = .ok (h, hb, blks) ∧
    Signcrypt.openAll Toy.prims (Proofs.faithfulKeyring Toy.prims [[7]])
        (some (fun _ => .ok [none, some (Toy.pad 32 [1])])) (.ok hb h) ⟨blks.map some, .eof⟩ =
      .ok (none, [1, 2, 3, 4, 5]) := by
  obtain ⟨h, hb, blks, hs, hh, _, _, _⟩ := C03_seal_total Toy.prims 4 none toySyms [2] (Toy.pad 32 [9])
    [1, 2, 3, 4, 5] (C03_checkReceivers_ok toySyms (by decide) (by decide) (by decide)) (by decide)
  refine ⟨h, hb, blks, hs, ?_⟩
  refine C03_roundtrip_sym_ring Toy.prims Toy.lawful 4 (by decide) none toySyms [2] (Toy.pad 32 [9])
    [1, 2, 3, 4, 5] (by decide) (by intro s hs; cases hs) (by decide) h hb blks hs [[7]] ?_ _
    [none, some (Toy.pad 32 [1])] rfl rfl ?_ ⟨1, Toy.pad 32 [1], rfl⟩
  · subst hh
    intro s hs j hj
    have hs' : s = [7] := by simpa using hs
    have hj' : j = 0 ∨ j = 1 := by
      have : j < 2 := hj
      omega
    subst hs'
    rcases hj' with rfl | rfl <;> decide
  · intro j k hk
    match j with
    | 0 => simp at hk
    | 1 =>
      simp only [List.getElem?_cons_succ, List.getElem?_cons_zero, Option.some.injEq] at hk
      subst hk
      exact ⟨[6, 6], rfl⟩
    | j + 2 => simp at hk

/-- **`C03_no_key` instantiated**: a ring of two foreign box keys and no
    resolver gets `noDecryptionKey` and no plaintext -/
example : ∃ h hb blks,
    Signcrypt.sealPackets Toy.prims 4 none toySyms [2] (Toy.pad 32 [9]) [1, 2, 3, 4, 5] = .ok (h, hb, blks) ∧
    Signcrypt.openAll Toy.prims (Proofs.faithfulKeyring Toy.prims [[7], [8]]) none (.ok hb h) ⟨blks.map some, .eof⟩ =
      .error .noDecryptionKey := by
  obtain ⟨h, hb, blks, hs, hh, _, _, _⟩ := C03_seal_total Toy.prims 4 none toySyms [2] (Toy.pad 32 [9])
    [1, 2, 3, 4, 5] (C03_checkReceivers_ok toySyms (by decide) (by decide) (by decide)) (by decide)
  refine ⟨h, hb, blks, hs, ?_⟩
  refine (C03_no_key Toy.prims 4 none toySyms [2] (Toy.pad 32 [9]) [1, 2, 3, 4, 5] h hb blks hs [[7], [8]] ?_ none
    (by intro f hf; cases hf)).1
  subst hh
  intro s hs j hj
  have hs' : s = [7] ∨ s = [8] := by simpa using hs
  have hj' : j = 0 ∨ j = 1 := by
    have : j < 2 := hj
    omega
  rcases hs' with rfl | rfl <;> rcases hj' with rfl | rfl <;> decide

end Saltpack.Props.C03
