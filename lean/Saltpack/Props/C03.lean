/-
  Property C03 — signcryption round trip for box-key and symmetric-key
  recipients.  Statements only; proofs in Saltpack/Proofs/RoundTripSig.lean.
-/
import Saltpack.Proofs.RoundTripSig
import Saltpack.Proofs.WireRT
import Saltpack.Toy

namespace Saltpack.Props.C03
open Saltpack Saltpack.Encrypt

/-- **Box-key recipient at any position** opens to exactly the plaintext and the
    sender's signing public key (none for an anonymous sender).
    `NoIdentifierCollision` (`hnc`): the opener's derived key does not yield the
    identifier of an earlier header entry (explicit, satisfiable hypothesis). -/
theorem C03_roundtrip_box (P : Prims) (hP : P.Lawful) (bs : Nat) (hbs : 0 < bs)
    (sender : Option Bytes) (rs : List Signcrypt.Recipient) (eph payloadKey pt : Bytes)
    (hpk : payloadKey.length = 32)
    (hsender : ∀ s, sender = some s → ¬ ((P.sigPub s).all (· == 0)))
    (hblocks : (chunkPlan v2 bs pt).length < 2 ^ 64 - 1)
    (i : Nat) (hi : i < rs.length) (sk : Bytes) (hsk : rs.getD i default = .box (P.boxPub sk))
    (h : EncHeader) (hb : Bytes) (blks : List SigncryptBlock)
    (hseal : Signcrypt.sealPackets P bs sender rs eph payloadKey pt = .ok (h, hb, blks))
    (hnc : ∀ j, j < i → Signcrypt.keyIdentifier P (Signcrypt.derivedKeyFromBoxKeys P (P.boxPub eph) sk) j ≠
        Decrypt.kidOf (h.receivers.getD j default)) :
    Signcrypt.openAll P (Proofs.faithfulKeyring P [sk]) none (.ok hb h) ⟨blks.map some, .eof⟩ =
      .ok (sender.map P.sigPub, pt) :=
  Proofs.sc_roundtrip_box P hP bs hbs sender rs eph payloadKey pt hpk hsender hblocks i hi sk hsk h hb blks hseal hnc

/-- **Symmetric-key recipients**: a resolver that resolves any non-empty subset of
    the identifiers, each to the true key of its entry, opens the message. -/
theorem C03_roundtrip_sym (P : Prims) (hP : P.Lawful) (bs : Nat) (hbs : 0 < bs)
    (sender : Option Bytes) (rs : List Signcrypt.Recipient) (eph payloadKey pt : Bytes)
    (hpk : payloadKey.length = 32)
    (hsender : ∀ s, sender = some s → ¬ ((P.sigPub s).all (· == 0)))
    (hblocks : (chunkPlan v2 bs pt).length < 2 ^ 64 - 1)
    (h : EncHeader) (hb : Bytes) (blks : List SigncryptBlock)
    (hseal : Signcrypt.sealPackets P bs sender rs eph payloadKey pt = .ok (h, hb, blks))
    (f : List Bytes → Except Err (List (Option Bytes))) (keys : List (Option Bytes))
    (hf : f (h.receivers.map Decrypt.kidOf) = .ok keys) (hlen : keys.length = rs.length)
    (htrue : ∀ (j : Nat) (k : Bytes), keys[j]? = some (some k) → ∃ ident, rs[j]? = some (Signcrypt.Recipient.sym k ident))
    (hsome : ∃ (j : Nat) (k : Bytes), keys[j]? = some (some k)) :
    Signcrypt.openAll P (Proofs.faithfulKeyring P []) (some f) (.ok hb h) ⟨blks.map some, .eof⟩ =
      .ok (sender.map P.sigPub, pt) :=
  Proofs.sc_roundtrip_sym P hP bs hbs sender rs eph payloadKey pt hpk hsender hblocks h hb blks hseal f keys hf hlen htrue hsome

/-- holders of no recipient key get `noDecryptionKey` -/
theorem C03_no_key (P : Prims) (bs : Nat)
    (sender : Option Bytes) (rs : List Signcrypt.Recipient) (eph payloadKey pt : Bytes)
    (h : EncHeader) (hb : Bytes) (blks : List SigncryptBlock)
    (hseal : Signcrypt.sealPackets P bs sender rs eph payloadKey pt = .ok (h, hb, blks))
    (f : List Bytes → Except Err (List (Option Bytes)))
    (hf : f (h.receivers.map Decrypt.kidOf) = .ok (rs.map (fun _ => none))) :
    Signcrypt.openAll P (Proofs.faithfulKeyring P []) (some f) (.ok hb h) ⟨blks.map some, .eof⟩ =
      .error .noDecryptionKey :=
  Proofs.sc_no_key P bs sender rs eph payloadKey pt h hb blks hseal f hf

/-- all-at-once = streaming read to the end, nothing unless it ended cleanly -/
theorem C03_forms_agree (P : Prims) (kr : Keyring) (res : Signcrypt.Resolver) (hr : HeaderRead EncHeader)
    (ps : PStream SigncryptBlock) (s : Option Bytes) (m : Bytes) :
    Signcrypt.openAll P kr res hr ps = .ok (s, m) ↔
      (Signcrypt.openStream P kr res hr ps).err = none ∧ (Signcrypt.openStream P kr res hr ps).sender = s ∧
      (Signcrypt.openStream P kr res hr ps).released = m := by
  unfold Signcrypt.openAll
  generalize Signcrypt.openStream P kr res hr ps = r
  obtain ⟨sg, rel, err, calls⟩ := r
  cases err <;> simp

/-- **Round trips on the emitted BYTES** (the message `SigncryptSeal` emits,
    split as a receiver's MessagePack stream splits it) — box-key recipients … -/
theorem C03_roundtrip_box_bytes (P : Prims) (hP : P.Lawful) (bs : Nat) (hbs : 0 < bs) (hbs32 : bs + 80 < 2 ^ 32)
    (sender : Option Bytes) (rs : List Signcrypt.Recipient) (eph payloadKey pt : Bytes)
    (hpk : payloadKey.length = 32)
    (hsender : ∀ s, sender = some s → ¬ ((P.sigPub s).all (· == 0)))
    (hblocks : (Encrypt.chunkPlan v2 bs pt).length < 2 ^ 64 - 1)
    (i : Nat) (hi : i < rs.length) (sk : Bytes) (hsk : rs.getD i default = .box (P.boxPub sk))
    (hnc : ∀ j, j < i → Signcrypt.keyIdentifier P (Signcrypt.derivedKeyFromBoxKeys P (P.boxPub eph) sk) j ≠
        Decrypt.kidOf ((Signcrypt.header P sender eph payloadKey rs).receivers.getD j default))
    (L : Nat) (hL32 : 32 ≤ L)
    (hid : ∀ key ident, Signcrypt.Recipient.sym key ident ∈ rs → ident.length ≤ L)
    (hsmall : 145 + rs.length * (L + 63) < 2 ^ 32)
    (msg : Bytes) (hmsg : Signcrypt.sealWith P bs sender rs eph payloadKey pt = .ok msg) :
    ∃ hr ps, Wire.splitSigncrypt msg = .ok (hr, ps) ∧
      Signcrypt.openAll P (Proofs.faithfulKeyring P [sk]) none hr ps = .ok (sender.map P.sigPub, pt) :=
  Proofs.sc_roundtrip_box_bytes P hP bs hbs hbs32 sender rs eph payloadKey pt hpk hsender hblocks i hi sk hsk hnc
    L hL32 hid hsmall msg hmsg

/-- … and symmetric-key recipients -/
theorem C03_roundtrip_sym_bytes (P : Prims) (hP : P.Lawful) (bs : Nat) (hbs : 0 < bs) (hbs32 : bs + 80 < 2 ^ 32)
    (sender : Option Bytes) (rs : List Signcrypt.Recipient) (eph payloadKey pt : Bytes)
    (hpk : payloadKey.length = 32)
    (hsender : ∀ s, sender = some s → ¬ ((P.sigPub s).all (· == 0)))
    (hblocks : (Encrypt.chunkPlan v2 bs pt).length < 2 ^ 64 - 1)
    (f : List Bytes → Except Err (List (Option Bytes))) (keys : List (Option Bytes))
    (hf : f ((Signcrypt.header P sender eph payloadKey rs).receivers.map Decrypt.kidOf) = .ok keys)
    (hlen : keys.length = rs.length)
    (htrue : ∀ (j : Nat) (k : Bytes), keys[j]? = some (some k) → ∃ ident, rs[j]? = some (Signcrypt.Recipient.sym k ident))
    (hsome : ∃ (j : Nat) (k : Bytes), keys[j]? = some (some k))
    (L : Nat) (hL32 : 32 ≤ L)
    (hid : ∀ key ident, Signcrypt.Recipient.sym key ident ∈ rs → ident.length ≤ L)
    (hsmall : 145 + rs.length * (L + 63) < 2 ^ 32)
    (msg : Bytes) (hmsg : Signcrypt.sealWith P bs sender rs eph payloadKey pt = .ok msg) :
    ∃ hr ps, Wire.splitSigncrypt msg = .ok (hr, ps) ∧
      Signcrypt.openAll P (Proofs.faithfulKeyring P []) (some f) hr ps = .ok (sender.map P.sigPub, pt) :=
  Proofs.sc_roundtrip_sym_bytes P hP bs hbs hbs32 sender rs eph payloadKey pt hpk hsender hblocks f keys hf hlen htrue hsome
    L hL32 hid hsmall msg hmsg

/-! ## non-vacuity -/
example : Toy.prims.Lawful := Toy.lawful

end Saltpack.Props.C03
