/-
  Property C07 with the library's OWN keyring (package `basic`): `VerifyDetached`
  with ANY `basic.Keyring` accepts the detached signature of the message and
  returns the signer's key.  Statements only.  (As for C05, no hypothesis on the
  keyring: `LookupSigningPublicKey` returns the 32-byte copy of any kid.)
-/
import Saltpack.Proofs.BasicRT
import Saltpack.Props.C07
import Saltpack.Toy

namespace Saltpack.Props.C07
open Saltpack Saltpack.Basic Saltpack.Proofs.BasicRing

/-- **Round trip with any basic keyring** -/
theorem C07_roundtrip_basic (P : Prims) (hP : P.Lawful)
    (v : Version) (hv : v = v1 ∨ v = v2) (signer nonce msg : Bytes)
    (k : Basic.Keyring) (order : List SecretKey) :
    let h := Sign.header v (P.sigPub signer) mtDetached nonce
    let hb := Msgpack.encode h.toVal
    Sign.verifyDetached P knownMajor (k.toRing order) (.ok hb h)
        (.sig (P.sign signer (detachedSignatureInput P (P.hash hb) msg))) msg = .ok (P.sigPub signer) :=
  C07_roundtrip P hP v hv signer nonce msg (k.toRing order) (basic_knows_signer P hP k order signer)

/-- …on the emitted BYTES -/
theorem C07_roundtrip_bytes_basic (P : Prims) (hP : P.Lawful)
    (v : Version) (signer nonce msg : Bytes) (hn : nonce.length + 92 < 2 ^ 32)
    (k : Basic.Keyring) (order : List SecretKey)
    (out : Bytes) (hout : Sign.detachedWith P v signer nonce msg = .ok out) :
    ∃ hr sr, Wire.splitDetached out = .ok (hr, sr) ∧
      Sign.verifyDetached P knownMajor (k.toRing order) hr sr msg = .ok (P.sigPub signer) :=
  C07_roundtrip_bytes P hP v signer nonce msg hn (k.toRing order) (basic_knows_signer P hP k order signer) out hout

/-- soundness (`C07_sound`) specialised: what a successful `VerifyDetached` with a
    basic keyring returns is the 32-byte copy of the header's signer field, and
    the signature verified under exactly that key -/
theorem C07_basic_returns_header_signer (P : Prims) (valid : Validator) (k : Basic.Keyring) (order : List SecretKey)
    (hb : Bytes) (h : SigHeader) (sg msg key : Bytes)
    (hok : Sign.verifyDetached P valid (k.toRing order) (.ok hb h) (.sig sg) msg = .ok key) :
    key = kidToPublicKey h.senderPublic ∧
    P.verify key (detachedSignatureInput P (P.hash hb) msg) sg = true := by
  simp only [Sign.verifyDetached, Basic.Keyring.toRing, Basic.Keyring.lookupSigningPublicKey] at hok
  split at hok
  · cases hok
  · split at hok
    · rename_i hv
      simp only [Except.ok.injEq] at hok
      subst hok
      exact ⟨rfl, hv⟩
    · cases hok

example : Toy.prims.Lawful := Toy.lawful

/-- concretely: a detached signature by `[5]` under an empty basic keyring -/
example :
    let h := Sign.header v2 (Toy.prims.sigPub [5]) mtDetached [0, 1]
    let hb := Msgpack.encode h.toVal
    Sign.verifyDetached Toy.prims knownMajor Basic.Keyring.empty.ring (.ok hb h)
        (.sig (Toy.prims.sign [5] (detachedSignatureInput Toy.prims (Toy.prims.hash hb) [1, 2, 3]))) [1, 2, 3] =
      .ok (Toy.prims.sigPub [5]) :=
  C07_roundtrip_basic Toy.prims Toy.lawful v2 (Or.inr rfl) [5] [0, 1] [1, 2, 3] _ _

end Saltpack.Props.C07
