/-
  C09 (spec-valid messages are accepted) through the model's OWN typed decoder
  (Model/Codec.lean = go-codec), the part `Props/C09Codec.lean` left open:

  * decode-of-canonical, WITH the reserved extra trailing elements: the receivers
    list, both headers, the V1 and V2 encryption packets, the V2 signature packet,
    the outer header packet — `Codec.dec… (canonical encoding ++ extras) = ok fields`;
  * the BRIDGE between the two readers of the model: on canonical messages —
    structurally (`C09_bridge_*`: any header / packets within MessagePack's size
    limits) and for what the model senders emit (`C09_bridge_seal_*`) —
    `Wire.split*` and `Codec.split*` answer the same header read and the same
    packet stream; hence the front end (`Front.read*`) is either of them there.

  Extras must be encodable and nest at most 99 deep at struct level, 98 inside a
  V2 block (go-codec's depth limit, `C15_codec_depth_limit`).
  Since repair R1 the front end asks `Codec` FIRST; the bridge is what lets the
  older `Wire`-based byte theorems (round trips, C08, C09 acceptance) speak about
  the front end: `C01/C03/C05/C07_roundtrip_bytes_front`, `C15_front_reads_sealed_*`.
  `C09_bridge_signcrypt_extras` (audit finding #10): the bridge WITH reserved extras
  at the end of the header and of every packet, for signcryption.
  The two readers do NOT agree on every byte string where `Wire` answers — refuted
  by the audit (a reserved extra nested beyond go-codec's depth budget: `Wire`
  accepts, go-codec and `Codec` refuse; a type error left of a truncation: `Wire`
  reports the truncation, go-codec and `Codec` the type error), which is why
  `Wire` is no longer asked first.  NOT proved: the bridge with extras for the
  other modes, for extras INSIDE the version pair / a recipient pair of a full
  message, and for non-canonical encodings (wide lengths, str-for-bin, …: tied by
  the correspondence streams `codec.list.*`, `deep.*` only).

  Statements only; proofs in Saltpack/Proofs/CodecBytesCanon.lean, CodecBytesBridge.lean.
-/
import Saltpack.Proofs.CodecBytesBridge
import Saltpack.Proofs.CodecBytesBridgeExtras
import Saltpack.Toy

namespace Saltpack.Props.C09
open Saltpack Saltpack.Msgpack Saltpack.Codec Saltpack.Proofs Saltpack.Proofs.CodecP Saltpack.Proofs.WireRT

/-! ## decode of canonical encodings -/

/-- one `receiverKeys` pair `[kid | nil, payload key box]` -/
theorem C09_codec_receiver (fuel rem : Nat) (rk : RecvKeys) (hk : ∀ k, rk.kid = some k → k.length < 2 ^ 32)
    (hb : rk.box.length < 2 ^ 32) (r : Bytes) :
    decReceiver fuel rem (encode rk.toVal ++ r) = .ok (rk, r) :=
  decReceiver_encode fuel rem rk hk hb r

/-- the receivers list -/
theorem C09_codec_receivers (fuel rem : Nat) (rs : List RecvKeys) (hlen : rs.length < 2 ^ 32)
    (hrs : ∀ rk ∈ rs, (∀ k, rk.kid = some k → k.length < 2 ^ 32) ∧ rk.box.length < 2 ^ 32) (r : Bytes) :
    kSliceOf (decReceiver fuel rem) zeroRecv (encode (.arr (rs.map RecvKeys.toVal)) ++ r) = .ok (rs, r) :=
  decReceivers_encode fuel rem rs hlen hrs r

/-- the encryption / signcryption header with extras: `decodeFromBytes(&header, …)`
    returns exactly the sender's fields -/
theorem C09_codec_enc_header (h : EncHeader) (hf : h.formatName.length < 2 ^ 32)
    (hma : -(2 ^ 63 : Int) ≤ h.version.major ∧ h.version.major < (2 ^ 63 : Int))
    (hmi : -(2 ^ 63 : Int) ≤ h.version.minor ∧ h.version.minor < (2 ^ 63 : Int))
    (ht : -(2 ^ 63 : Int) ≤ h.typ ∧ h.typ < (2 ^ 63 : Int))
    (he : h.ephemeral.length < 2 ^ 32) (hs : h.senderSecretbox.length < 2 ^ 32)
    (hrl : h.receivers.length < 2 ^ 32)
    (hrs : ∀ rk ∈ h.receivers, (∀ k, rk.kid = some k → k.length < 2 ^ 32) ∧ rk.box.length < 2 ^ 32)
    (ex : List Val) (hex : TopExtras ex) (hlen : ex.length + 6 < 2 ^ 32) (r : Bytes) :
    decEncHeader (encode (.arr ([.str h.formatName, h.version.toVal, .int h.typ, .bin h.ephemeral, .bin h.senderSecretbox,
        .arr (h.receivers.map RecvKeys.toVal)] ++ ex)) ++ r) = .ok (h, r) :=
  decEncHeader_encode h hf hma hmi ht he hs hrl hrs ex hex hlen r

/-- the signature header with extras -/
theorem C09_codec_sig_header (h : SigHeader) (hf : h.formatName.length < 2 ^ 32)
    (hma : -(2 ^ 63 : Int) ≤ h.version.major ∧ h.version.major < (2 ^ 63 : Int))
    (hmi : -(2 ^ 63 : Int) ≤ h.version.minor ∧ h.version.minor < (2 ^ 63 : Int))
    (ht : -(2 ^ 63 : Int) ≤ h.typ ∧ h.typ < (2 ^ 63 : Int))
    (hpk : h.senderPublic.length < 2 ^ 32) (hn : h.nonce.length < 2 ^ 32)
    (ex : List Val) (hex : TopExtras ex) (hlen : ex.length + 5 < 2 ^ 32) (r : Bytes) :
    decSigHeader (encode (.arr ([.str h.formatName, h.version.toVal, .int h.typ, .bin h.senderPublic, .bin h.nonce] ++ ex)) ++ r)
      = .ok (h, r) :=
  decSigHeader_encode h hf hma hmi ht hpk hn ex hex hlen r

/-- with no extras these are the encodings of `h.toVal` themselves -/
theorem C09_codec_headers_toVal :
    (∀ h : EncHeader, EncHeaderSized h → decEncHeader (encode h.toVal) = .ok (h, [])) ∧
    (∀ h : SigHeader, SigHeaderSized h → decSigHeader (encode h.toVal) = .ok (h, [])) :=
  ⟨fun _ s => s.dec, fun _ s => s.dec⟩

/-- the authenticator list (32-byte bins) -/
theorem C09_codec_authenticators (fuel rem : Nat) (auths : List Bytes) (hlen : auths.length < 2 ^ 32)
    (h32 : ∀ a ∈ auths, a.length = 32) (r : Bytes) :
    decAuthenticators fuel rem (encode (.arr (auths.map .bin)) ++ r) = .ok (auths, r) :=
  decAuthenticators_encode fuel rem auths hlen h32 r

/-- the V1 encryption packet `[authenticators, ctext] ++ extras` (`authsVal`: nil
    for an empty list, as `makeEncryptionBlock` writes it); no final flag on the wire -/
theorem C09_codec_enc_packet_v1 (auths : List Bytes) (hal : auths.length < 2 ^ 32) (h32 : ∀ a ∈ auths, a.length = 32)
    (ct : Bytes) (hct : ct.length < 2 ^ 32) (ex : List Val) (hex : TopExtras ex) (hlen : ex.length + 2 < 2 ^ 32)
    (r : Bytes) :
    decEncBlockV1 (encode (.arr ([authsVal auths, .bin ct] ++ ex)) ++ r) = .ok (⟨auths, ct, false⟩, r) :=
  decEncBlockV1_encode auths hal h32 ct hct ex hex hlen r

/-- the V2 encryption packet `[final, authenticators, ctext] ++ extras` -/
theorem C09_codec_enc_packet_v2 (f : Bool) (auths : List Bytes) (hal : auths.length < 2 ^ 32)
    (h32 : ∀ a ∈ auths, a.length = 32) (ct : Bytes) (hct : ct.length < 2 ^ 32)
    (ex : List Val) (hex : SelfExtras ex) (hlen : ex.length + 3 < 2 ^ 32) (r : Bytes) :
    decEncBlockV2 (encode (.arr ([.bool f, authsVal auths, .bin ct] ++ ex)) ++ r) = .ok (⟨auths, ct, f⟩, r) :=
  decEncBlockV2_encode f auths hal h32 ct hct ex hex hlen r

/-- the V2 attached-signature packet `[final, signature, chunk] ++ extras` -/
theorem C09_codec_sig_packet_v2 (f : Bool) (sg ch : Bytes) (hsg : sg.length < 2 ^ 32) (hch : ch.length < 2 ^ 32)
    (ex : List Val) (hex : SelfExtras ex) (hlen : ex.length + 3 < 2 ^ 32) (r : Bytes) :
    decSigBlockV2 (encode (.arr ([.bool f, .bin sg, .bin ch] ++ ex)) ++ r) = .ok (⟨sg, ch, f⟩, r) :=
  decSigBlockV2_encode f sg ch hsg hch ex hex hlen r

/-- the outer header packet: the header bytes as a bin, then decoded again -/
theorem C09_codec_header_packet {η : Type} (dec : Dec η) (hb : Bytes) (hl : hb.length < 2 ^ 32) (h : η) (r0 : Bytes)
    (hd : dec hb = .ok (h, r0)) (rest : Bytes) :
    decBytesTop (headerPacket hb ++ rest) = .ok (hb, rest) ∧
    Codec.readHeader dec (headerPacket hb ++ rest) = .ok (.ok hb h, rest) :=
  ⟨decBytesTop_headerPacket hb hl rest, readHeader_headerPacket dec hb hl h r0 hd rest⟩

/-! ## the bridge: both readers agree on canonical messages -/

theorem C09_bridge_enc (h : EncHeader) (s : EncHeaderSized h) (hv : h.version = v1 ∨ h.version = v2)
    (blks : List EncBlock)
    (hsz : ∀ b ∈ blks, b.auths ≠ [] ∧ b.auths.length < 2 ^ 32 ∧ (∀ a ∈ b.auths, a.length = 32) ∧ b.ct.length < 2 ^ 32)
    (body : Bytes) (he : Encrypt.encodeBlocks h.version blks = .ok body) :
    Wire.splitEnc (headerPacket (encode h.toVal) ++ body) =
      .ok (.ok (encode h.toVal) h, ⟨(blks.map (encAsRead h.version)).map some, .eof⟩) ∧
    Codec.splitEnc (headerPacket (encode h.toVal) ++ body) =
      .ok (.ok (encode h.toVal) h, ⟨(blks.map (encAsRead h.version)).map some, .eof⟩) :=
  bridge_enc h s hv blks hsz body he

theorem C09_bridge_signcrypt (h : EncHeader) (s : EncHeaderSized h) (blks : List SigncryptBlock)
    (hct : ∀ b ∈ blks, b.ct.length < 2 ^ 32) :
    Wire.splitSigncrypt (headerPacket (encode h.toVal) ++ Signcrypt.encodeBlocks blks) =
      .ok (.ok (encode h.toVal) h, ⟨blks.map some, .eof⟩) ∧
    Codec.splitSigncrypt (headerPacket (encode h.toVal) ++ Signcrypt.encodeBlocks blks) =
      .ok (.ok (encode h.toVal) h, ⟨blks.map some, .eof⟩) :=
  bridge_signcrypt h s blks hct

theorem C09_bridge_sig (h : SigHeader) (s : SigHeaderSized h) (hv : h.version = v1 ∨ h.version = v2)
    (blks : List SigBlock) (hsz : ∀ b ∈ blks, b.sig.length < 2 ^ 32 ∧ b.chunk.length < 2 ^ 32)
    (body : Bytes) (he : Sign.encodeBlocks h.version blks = .ok body) :
    Wire.splitSig (headerPacket (encode h.toVal) ++ body) =
      .ok (.ok (encode h.toVal) h, ⟨(blks.map (sigAsRead h.version)).map some, .eof⟩) ∧
    Codec.splitSig (headerPacket (encode h.toVal) ++ body) =
      .ok (.ok (encode h.toVal) h, ⟨(blks.map (sigAsRead h.version)).map some, .eof⟩) :=
  bridge_sig h s hv blks hsz body he

theorem C09_bridge_detached (h : SigHeader) (s : SigHeaderSized h) (sg : Bytes) (hsg : sg.length < 2 ^ 32) :
    Wire.splitDetached (headerPacket (encode h.toVal) ++ encBin sg) = .ok (.ok (encode h.toVal) h, .sig sg) ∧
    Codec.splitDetached (headerPacket (encode h.toVal) ++ encBin sg) = .ok (.ok (encode h.toVal) h, .sig sg) :=
  bridge_detached h s sg hsg

/-- **Bridge WITH reserved extras, signcryption** (audit finding #10).  The header
    array carries extra trailing elements `exH`, every packet `[ctext, final]` its
    own extras — all encodable and nested at most 99 deep (go-codec's budget; one
    level deeper go-codec refuses the message).  The spec-shaped reader, go-codec's
    typed reader and the front end give the same header read (header bytes = the
    bytes WITH extras) and exactly the packets, clean end. -/
theorem C09_bridge_signcrypt_extras (h : EncHeader) (s : EncHeaderSized h) (exH : List Val) (hexH : TopExtras exH)
    (hlenH : exH.length + 6 < 2 ^ 32) (hbytes : (encode (encHeaderValEx h exH)).length < 2 ^ 32)
    (pk : List (SigncryptBlock × List Val))
    (hpk : ∀ p ∈ pk, p.1.ct.length < 2 ^ 32 ∧ TopExtras p.2 ∧ p.2.length + 2 < 2 ^ 32) :
    Wire.splitSigncrypt (headerPacket (encode (encHeaderValEx h exH)) ++ (pk.map scPacketValEx).flatMap encode) =
      .ok (.ok (encode (encHeaderValEx h exH)) h, ⟨(pk.map (·.1)).map some, .eof⟩) ∧
    Codec.splitSigncrypt (headerPacket (encode (encHeaderValEx h exH)) ++ (pk.map scPacketValEx).flatMap encode) =
      .ok (.ok (encode (encHeaderValEx h exH)) h, ⟨(pk.map (·.1)).map some, .eof⟩) ∧
    Front.readSigncrypt (headerPacket (encode (encHeaderValEx h exH)) ++ (pk.map scPacketValEx).flatMap encode) =
      .ok (.ok (encode (encHeaderValEx h exH)) h, ⟨(pk.map (·.1)).map some, .eof⟩) :=
  bridge_signcrypt_extras h s exH hexH hlenH hbytes pk hpk

/-- `encHeaderValEx`, `scPacketValEx` spelled out -/
theorem C09_extras_vals_def (h : EncHeader) (ex : List Val) (p : SigncryptBlock × List Val) :
    encHeaderValEx h ex = .arr ([.str h.formatName, h.version.toVal, .int h.typ, .bin h.ephemeral, .bin h.senderSecretbox,
      .arr (h.receivers.map RecvKeys.toVal)] ++ ex) ∧
    scPacketValEx p = .arr ([.bin p.1.ct, .bool p.1.final] ++ p.2) :=
  ⟨rfl, rfl⟩

/-- **Genuine sender output, encryption**: what `Encrypt.sealWith` emits (any
    primitives with the wire sizes, any recipients, chunk size, plaintext) is read
    identically by both readers -/
theorem C09_bridge_seal_enc (P : Prims) (hS : WireSizes P) (bs : Nat) (hbs : 0 < bs) (hbs32 : bs + 16 < 2 ^ 32)
    (v : Version) (sender : Option Bytes) (rs : List Encrypt.Recipient) (eph pk pt : Bytes)
    (hpk : pk.length + 16 < 2 ^ 32) (hpub : ∀ r ∈ rs, r.pub.length < 2 ^ 32)
    (h : EncHeader) (hb : Bytes) (blks : List EncBlock) (body : Bytes)
    (hs : Encrypt.sealPackets P bs v sender rs eph pk pt = .ok (h, hb, blks))
    (he : Encrypt.encodeBlocks v blks = .ok body) (hhb : hb.length < 2 ^ 32) :
    Wire.splitEnc (headerPacket hb ++ body) = .ok (.ok hb h, ⟨(blks.map (encAsRead v)).map some, .eof⟩) ∧
    Codec.splitEnc (headerPacket hb ++ body) = .ok (.ok hb h, ⟨(blks.map (encAsRead v)).map some, .eof⟩) :=
  bridge_seal_enc P hS bs hbs hbs32 v sender rs eph pk pt hpk hpub h hb blks body hs he hhb

theorem C09_bridge_seal_signcrypt (P : Prims) (hS : WireSizes P) (bs : Nat) (hbs : 0 < bs) (hbs32 : bs + 80 < 2 ^ 32)
    (sender : Option Bytes) (rs : List Signcrypt.Recipient) (eph pk pt : Bytes)
    (hpk : pk.length + 16 < 2 ^ 32)
    (hid : ∀ key ident, Signcrypt.Recipient.sym key ident ∈ rs → ident.length < 2 ^ 32)
    (h : EncHeader) (hb : Bytes) (blks : List SigncryptBlock)
    (hs : Signcrypt.sealPackets P bs sender rs eph pk pt = .ok (h, hb, blks)) (hhb : hb.length < 2 ^ 32) :
    Wire.splitSigncrypt (headerPacket hb ++ Signcrypt.encodeBlocks blks) = .ok (.ok hb h, ⟨blks.map some, .eof⟩) ∧
    Codec.splitSigncrypt (headerPacket hb ++ Signcrypt.encodeBlocks blks) = .ok (.ok hb h, ⟨blks.map some, .eof⟩) :=
  bridge_seal_signcrypt P hS bs hbs hbs32 sender rs eph pk pt hpk hid h hb blks hs hhb

theorem C09_bridge_seal_sig (P : Prims) (hS : WireSizes P) (bs : Nat) (hbs : 0 < bs) (hbs32 : bs < 2 ^ 32)
    (v : Version) (signer nonce msg : Bytes) (hn : nonce.length + 92 < 2 ^ 32)
    (h : SigHeader) (hb : Bytes) (blks : List SigBlock) (body : Bytes)
    (hs : Sign.attachedPackets P bs v signer nonce msg = .ok (h, hb, blks))
    (he : Sign.encodeBlocks v blks = .ok body) :
    Wire.splitSig (headerPacket hb ++ body) = .ok (.ok hb h, ⟨(blks.map (sigAsRead v)).map some, .eof⟩) ∧
    Codec.splitSig (headerPacket hb ++ body) = .ok (.ok hb h, ⟨(blks.map (sigAsRead v)).map some, .eof⟩) :=
  bridge_seal_sig P hS bs hbs hbs32 v signer nonce msg hn h hb blks body hs he

theorem C09_bridge_seal_detached (P : Prims) (hS : WireSizes P) (v : Version) (signer nonce msg out : Bytes)
    (hn : nonce.length + 92 < 2 ^ 32) (hout : Sign.detachedWith P v signer nonce msg = .ok out) :
    ∃ hb h sg, Wire.splitDetached out = .ok (.ok hb h, .sig sg) ∧ Codec.splitDetached out = .ok (.ok hb h, .sig sg) :=
  bridge_seal_detached P hS v signer nonce msg out hn hout

/-- so on a sealed encryption message the byte-level front end (Codec first) IS that common answer
    (all four modes: `C15_front_reads_sealed_*`; the receivers' results: `C01/C03/C05/C07_roundtrip_bytes_front`) -/
theorem C09_front_on_sealed_enc (P : Prims) (hS : WireSizes P) (bs : Nat) (hbs : 0 < bs) (hbs32 : bs + 16 < 2 ^ 32)
    (v : Version) (sender : Option Bytes) (rs : List Encrypt.Recipient) (eph pk pt : Bytes)
    (hpk : pk.length + 16 < 2 ^ 32) (hpub : ∀ r ∈ rs, r.pub.length < 2 ^ 32)
    (h : EncHeader) (hb : Bytes) (blks : List EncBlock) (body : Bytes)
    (hs : Encrypt.sealPackets P bs v sender rs eph pk pt = .ok (h, hb, blks))
    (he : Encrypt.encodeBlocks v blks = .ok body) (hhb : hb.length < 2 ^ 32) :
    Front.readEnc (headerPacket hb ++ body) = .ok (.ok hb h, ⟨(blks.map (encAsRead v)).map some, .eof⟩) :=
  readEnc_of_codec_eof (bridge_seal_enc P hS bs hbs hbs32 v sender rs eph pk pt hpk hpub h hb blks body hs he hhb).2

/-! ## non-vacuity (kernel-evaluated) -/

example : WireSizes Toy.prims := WireSizes.of_lawful Toy.lawful

/-- a V2 encryption packet with two authenticators and one reserved extra element -/
example : decEncBlockV2 (encode (.arr ([.bool true, authsVal [List.replicate 32 1, List.replicate 32 2], .bin [7]] ++ [.int 5])) ++ [9])
    = .ok (⟨[List.replicate 32 1, List.replicate 32 2], [7], true⟩, [9]) := by decide

/-- a signature header with an extra element -/
example : decSigHeader (encode (.arr ([.str Gen.c_sp_FormatName, v2.toVal, .int mtAttached, .bin [1], .bin [2]] ++ [.str [120]])))
    = .ok (Sign.header v2 [1] mtAttached [2], []) := by decide

/-- a signcryption message with an extra in the header and a nested extra in its packet: the front end reads it -/
example : (Front.readSigncrypt (headerPacket (encode (encHeaderValEx ⟨Gen.c_sp_FormatName, v2, mtSigncryption, [1], [2], []⟩ [.int 7])) ++
      encode (scPacketValEx (⟨[9], true⟩, [.arr [.arr [.str [120]]]])))).toOption.map (fun x => (x.2.items, x.2.tail)) =
    some ([some ⟨[9], true⟩], .eof) := by decide

/-- the hypothesis "32-byte authenticators" cannot go: a 3-byte authenticator is
    zero-padded by go-codec, so the decoder does NOT return the sender's field -/
example : (decEncBlockV2 (encode (.arr [.bool true, .arr [.bin [1, 2, 3]], .bin [7]]))).toOption.map (·.1.auths)
    = some [[1, 2, 3] ++ List.replicate 29 0] := by decide

end Saltpack.Props.C09
