/-
  Property C18 for the library's OWN key generation (package `basic`, model
  Saltpack/Model/Basic.lean): `basic.EphemeralKeyCreator.CreateEphemeralKey`
  (= `generateBoxKey`, used by `Keyring.GenerateBoxKey` too) consumes exactly 32
  bytes of the randomness source — they ARE the secret key — and fails closed.
  Statements only; proofs in Proofs/BasicRT.lean.

  Audit finding 11: the theorems suffixed `_def` restate the definition
  (`createEphemeralKey := match Rand.readFull 32 … with …`) in iff form — kept as
  the readable specification, not counted as results.  The results are
  `C18_basic_creator_is_source`, `C18_basic_creator_fault`,
  `C18_basic_generateBoxKey` and `C18_basic_seal_with_creator` (the ephemeral key
  of `Seal` with `basic.EphemeralKeyCreator` IS the next 32 source bytes after
  the shuffle draws; a failing read there fails `Seal`).

  Model boundary of `Rand.readFull` (Model/Rand.lean), declared here because the
  harness never scripts it: a `(0, nil)` read is modelled as a FAILURE whereas
  `io.ReadFull` simply reads again, and a read that offers more than asked is
  truncated with the surplus dropped; "consecutive calls draw disjoint
  consecutive segments" is a statement about sources that do neither.
-/
import Saltpack.Proofs.BasicRT
import Saltpack.Toy

namespace Saltpack.Props.C18
open Saltpack Saltpack.Basic Saltpack.Proofs Saltpack.Proofs.BasicRing

/-- **Exactly 32 bytes, and the key is those bytes.**  The call succeeds iff the
    32-byte full read (`io.ReadFull` inside `box.GenerateKey`) succeeds; the
    secret is what the source delivered, the public key is computed from it,
    and what is left of the source is what that read left. -/
theorem C18_basic_creator_draws_def (P : Prims) (src : Rand.Source) (sk : SecretKey) (rest : Rand.Source) :
    createEphemeralKey P src = .ok (sk, rest) ↔
      ∃ s, Rand.readFull 32 src = some (s, rest) ∧ sk = ⟨P.boxPub s, s⟩ :=
  createEphemeralKey_ok_iff P src sk rest

/-- the 32 bytes are a prefix of the concatenated deliveries; the rest of the
    source is a suffix (consecutive calls draw disjoint consecutive segments) -/
theorem C18_basic_creator_is_source (P : Prims) (src : Rand.Source) (sk : SecretKey) (rest : Rand.Source)
    (h : createEphemeralKey P src = .ok (sk, rest)) :
    sk.sec.length = 32 ∧ sk.pub = P.boxPub sk.sec ∧
    ∃ n, n ≤ src.length ∧ rest = src.drop n ∧ sk.sec = (((src.take n).map (·.data)).flatten).take 32 :=
  createEphemeralKey_spec P src sk rest h

/-- **Fail closed**: the only error is the source's, it arises exactly when the
    32-byte read fails, and then there is no key (the result is `.error`) -/
theorem C18_basic_creator_fail_closed_def (P : Prims) (src : Rand.Source) :
    (Rand.readFull 32 src = none ↔ createEphemeralKey P src = .error .ioError) ∧
    (∀ e, createEphemeralKey P src = .error e → e = .ioError ∧ Rand.readFull 32 src = none) :=
  ⟨createEphemeralKey_fail_iff P src, createEphemeralKey_error_is_io P src⟩

/-- an error of the source before 32 bytes are in — alone or with a short slice —
    and a source that ends early: error, no key -/
theorem C18_basic_creator_fault (P : Prims) (src : Rand.Source) :
    (∀ n (hn : n < src.length), (src[n]'hn).err = true →
        ((src.take (n + 1)).map (·.data.length)).sum < 32 → createEphemeralKey P src = .error .ioError) ∧
    ((src.map (·.data.length)).sum < 32 → createEphemeralKey P src = .error .ioError) :=
  ⟨fun n hn herr hshort => createEphemeralKey_fail_closed P src n hn herr hshort, createEphemeralKey_short P src⟩

/-- `Keyring.GenerateBoxKey` = the creator + the map assignment: the new key is
    in the keyring, and well-formedness / honesty are preserved -/
theorem C18_basic_generateBoxKey (P : Prims) (k : Basic.Keyring) (src : Rand.Source) (sk : SecretKey)
    (k' : Basic.Keyring) (rest : Rand.Source) (h : k.generateBoxKey P src = .ok (sk, k', rest)) :
    createEphemeralKey P src = .ok (sk, rest) ∧ mapGet k'.encKeys sk.pub = some sk ∧
    (WF k → WF k') ∧ (Honest P k → Honest P k') :=
  generateBoxKey_imports P k src sk k' rest h

/-- `Keyring.GenerateSigningKey`: 32 bytes of seed, fail closed, and the keyring
    is returned unchanged (the key is not stored) -/
theorem C18_basic_generateSigningKey_def (P : Prims) (k : Basic.Keyring) (src : Rand.Source) :
    (Rand.readFull 32 src = none → k.generateSigningKey P src = .error .ioError) ∧
    (∀ seed rest, Rand.readFull 32 src = some (seed, rest) →
      k.generateSigningKey P src = .ok (⟨P.sigPub seed, seed ++ P.sigPub seed⟩, k, rest)) := by
  unfold Basic.Keyring.generateSigningKey
  constructor
  · intro h; rw [h]
  · intro seed rest h; rw [h]; rfl

/-- the ephemeral-key step of `Seal` / `SigncryptSeal` in the sender models
    (`EphSource.fromRand`, the case the existing C18 theorems cover) IS the basic
    creator: so `C18_seal_draws`, `C18_seal_fail_closed`, … are statements about
    sealing with `basic.EphemeralKeyCreator` -/
theorem C18_basic_creator_is_fromRand_def (P : Prims) (src : Rand.Source) :
    (match Rand.readFull 32 src with
      | none => (Except.error Err.ioError : Except Err (Bytes × Rand.Source))
      | some (s, src2) => .ok (s, src2)) =
    (match createEphemeralKey P src with
      | .error e => .error e
      | .ok (sk, src2) => .ok (sk.sec, src2)) :=
  fromRand_is_basic_creator P src

/-- **`Seal` with `basic.EphemeralKeyCreator`**: after the version / receiver
    checks and the shuffle draws (which leave the source `src1`), the ephemeral
    key of `Seal` is what the basic creator makes of `src1` — the NEXT 32 source
    bytes —; if the creator fails (a failing or short read there) `Seal` fails
    with the source's error and emits nothing; otherwise `Seal` continues with
    that secret and the payload key drawn from what the creator left. -/
theorem C18_basic_seal_with_creator (P : Prims) (bs : Nat) (v : Version) (hv : knownVersion v = true)
    (sender : Option Bytes) (rs : List Encrypt.Recipient) (hrs : Encrypt.checkReceivers rs = .ok ())
    (src : Rand.Source) (pt : Bytes) (js : List Nat) (src1 : Rand.Source)
    (hsh : Encrypt.shuffleDraws (rs.length - 1) src (src.length + 1) = .ok (js, src1)) :
    (∀ e, createEphemeralKey P src1 = .error e →
      Encrypt.sealRand P bs v sender rs .fromRand src pt = .error .ioError) ∧
    (∀ sk src2, createEphemeralKey P src1 = .ok (sk, src2) →
      (∃ n, n ≤ src1.length ∧ src2 = src1.drop n ∧ sk.sec = (((src1.take n).map (·.data)).flatten).take 32) ∧
      Encrypt.sealRand P bs v sender rs .fromRand src pt =
        (match Rand.readFull 32 src2 with
          | none => .error .ioError
          | some (pk, src3) =>
            match Encrypt.sealWith P bs v sender (Rand.shuffle js rs) sk.sec pk pt with
            | .error e => .error e
            | .ok m => .ok (m, src3))) := by
  constructor
  · intro e he
    have hn := (createEphemeralKey_error_is_io P src1 e he).2
    unfold Encrypt.sealRand
    simp only [hv, Bool.not_true, Bool.false_eq_true, if_false, hrs, hsh, hn]
  · intro sk src2 hok
    refine ⟨(createEphemeralKey_spec P src1 sk src2 hok).2.2, ?_⟩
    obtain ⟨s0, hr, rfl⟩ := (createEphemeralKey_ok_iff P src1 sk src2).1 hok
    unfold Encrypt.sealRand
    simp only [hv, Bool.not_true, Bool.false_eq_true, if_false, hrs, hsh, hr]
    cases Rand.readFull 32 src2 with
    | none => rfl
    | some p => rfl

/-! ## non-vacuity (kernel evaluation) -/

/-- 4 + 28 bytes in two reads, more data behind: the key is the first 32 bytes,
    one read is left -/
example : createEphemeralKey Toy.prims [⟨[1, 2, 3, 4], false⟩, ⟨List.replicate 28 7, false⟩, ⟨[9], false⟩] =
    .ok (⟨Toy.prims.boxPub ([1, 2, 3, 4] ++ List.replicate 28 7), [1, 2, 3, 4] ++ List.replicate 28 7⟩, [⟨[9], false⟩]) := by
  decide

/-- the read that completes the 32 bytes carries an error: `io.ReadFull` drops it -/
example : (createEphemeralKey Toy.prims [⟨List.replicate 32 7, true⟩]).toOption.map (·.1.sec) =
    some (List.replicate 32 7) := by decide

/-- error after 31 bytes; transient error first; source ends: all fail closed -/
example : createEphemeralKey Toy.prims [⟨List.replicate 31 7, true⟩, ⟨[1], false⟩] = .error .ioError := by decide
example : createEphemeralKey Toy.prims [⟨[], true⟩, ⟨List.replicate 32 7, false⟩] = .error .ioError := by decide
example : createEphemeralKey Toy.prims [⟨List.replicate 31 7, false⟩] = .error .ioError := by decide
example : createEphemeralKey Toy.prims [] = .error .ioError := by decide

end Saltpack.Props.C18
