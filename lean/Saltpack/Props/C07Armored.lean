/-
  Property C07 — ARMORED detached-signature round trip (model level):
  `SignDetachedArmor62` ∘ `Dearmor62VerifyDetached`.

  armor62_sign.go / armor62_verify.go: the sender armors the binary detached
  signature with the frame type `MessageTypeDetachedSignature`; the receiver
  dearmors with frame validation for that type (`Armor.open62 (some mtDetached)`)
  and runs `VerifyDetached` on the payload and the message.  Composition of
  `C11_roundtrip` with `C07_roundtrip_bytes` (Proofs/ArmoredRT.lean), the method
  of `C01_roundtrip_armored` / `C05_roundtrip_armored`.
-/
import Saltpack.Props.C07
import Saltpack.Proofs.ArmoredRT
import Saltpack.Model.Armored

namespace Saltpack.Props.C07
open Saltpack Saltpack.Armor

/-- **Armored round trip**: the armored detached signature dearmors — with
    validated `BEGIN/END [brand] SALTPACK DETACHED SIGNATURE` frames — to exactly
    the binary signature and the brand, and that payload, split into header and
    signature object, verifies against the message to the signer's key. -/
theorem C07_roundtrip_armored (P : Prims) (hP : P.Lawful)
    (v : Version) (signer nonce msg : Bytes) (hn : nonce.length + 92 < 2 ^ 32)
    (kr : Keyring) (hk : kr.lookupSigningPublicKey (P.sigPub signer) = some (P.sigPub signer))
    (brand : Bytes) (hbr : Proofs.BrandOK brand)
    (out : Bytes) (hout : Sign.detachedWith P v signer nonce msg = .ok out) :
    ∃ r hr sr, open62 (some mtDetached) (seal62 mtDetached brand out) = .ok r ∧
      r.payload = out ∧ r.brand = brand ∧
      Wire.splitDetached r.payload = .ok (hr, sr) ∧
      Sign.verifyDetached P knownMajor kr hr sr msg = .ok (P.sigPub signer) :=
  Proofs.detached_armored_roundtrip P hP v signer nonce msg hn kr hk brand hbr out hout

/-- …and with the message given as a reader (`Dearmor62VerifyDetachedReader`):
    the message delivered in any fragments, EOF alone or together with a last
    fragment (`C07_reader_any_fragmentation` after the dearmoring). -/
theorem C07_roundtrip_armored_reader (P : Prims) (hP : P.Lawful)
    (v : Version) (signer nonce msg : Bytes) (hn : nonce.length + 92 < 2 ^ 32)
    (kr : Keyring) (hk : kr.lookupSigningPublicKey (P.sigPub signer) = some (P.sigPub signer))
    (brand : Bytes) (hbr : Proofs.BrandOK brand)
    (out : Bytes) (hout : Sign.detachedWith P v signer nonce msg = .ok out)
    (frags : List Bytes) (last : Option Bytes) (hfr : frags.flatten ++ last.getD [] = msg) :
    ∃ r hr sr, open62 (some mtDetached) (seal62 mtDetached brand out) = .ok r ∧
      Wire.splitDetached r.payload = .ok (hr, sr) ∧
      Sign.verifyDetachedReader P knownMajor kr hr sr (Proofs.fragSource frags last) = .ok (P.sigPub signer) := by
  obtain ⟨r, hr, sr, ho, _, _, hs, hv⟩ :=
    Proofs.detached_armored_roundtrip P hP v signer nonce msg hn kr hk brand hbr out hout
  exact ⟨r, hr, sr, ho, hs, by rw [C07_reader_any_fragmentation, hfr]; exact hv⟩

/-! ## the model's armored entry points (Model/Armored.lean: the frame type
     `Sign.detachedArmorType` is part of the model) -/

/-- **`SignDetachedArmor62` ∘ `Dearmor62VerifyDetached`** on the model's entry
    points: the signer's key and the brand come back -/
theorem C07_detached_armored_entry_roundtrip (P : Prims) (hP : P.Lawful)
    (v : Version) (signer nonce msg : Bytes) (hn : nonce.length + 92 < 2 ^ 32)
    (kr : Keyring) (hk : kr.lookupSigningPublicKey (P.sigPub signer) = some (P.sigPub signer))
    (brand : Bytes) (hbr : Proofs.BrandOK brand)
    (text : Bytes) (htext : Sign.detachedArmor62 P v signer nonce msg brand = .ok text) :
    Sign.dearmor62VerifyDetached P knownMajor kr text msg = .ok (.ok (P.sigPub signer, brand)) := by
  unfold Sign.detachedArmor62 armorResult at htext
  cases hm : Sign.detachedWith P v signer nonce msg with
  | error e => rw [hm] at htext; cases htext
  | ok out =>
    rw [hm] at htext
    injection htext with htext
    subst htext
    obtain ⟨r, hr, sr, ho, hp, hb, hs, hv⟩ :=
      Proofs.detached_armored_roundtrip P hP v signer nonce msg hn kr hk brand hbr out hm
    unfold Sign.dearmor62VerifyDetached
    rw [show Sign.detachedArmorType = mtDetached from rfl, ho]
    simp only [hs, hv, hb]

/-- **wrong frame type refused**: a text with the frames of an ENCRYPTED or
    SIGNED message is refused by `Dearmor62VerifyDetached` at the frame check,
    whatever the keyring and the message -/
theorem C07_detached_armored_wrong_frame_refused (P : Prims) (valid : Validator) (kr : Keyring)
    (typ : Int) (ht : Proofs.Armorable typ) (hne : typ ≠ mtDetached) (brand : Bytes) (hbr : Proofs.BrandOK brand)
    (payload msg : Bytes) :
    ∃ e, Sign.dearmor62VerifyDetached P valid kr (seal62 typ brand payload) msg = .ok (.error e) := by
  obtain ⟨e, he⟩ := Proofs.open_seal_wrong_type typ mtDetached ht (Or.inr (Or.inr rfl)) hne brand hbr payload
  refine ⟨e, ?_⟩
  unfold Sign.dearmor62VerifyDetached
  rw [show Sign.detachedArmorType = mtDetached from rfl, he]

/-! ## non-vacuity -/

private def isOk {α : Type} : Except Err α → Bool
  | .ok _ => true
  | .error _ => false

example : isOk (Sign.detachedWith Toy.prims v2 [1] [7, 7] [1, 2, 3]) = true := by decide

end Saltpack.Props.C07
