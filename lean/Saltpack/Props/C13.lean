/-
  Property C13 — results never depend on how input or output streams are
  fragmented; bounded buffering.  Statements only; proofs in
  Saltpack/Proofs/StreamLemmas.lean.

  What is proved here: the write side completely (the plaintext bufferer shared
  by the three encoder streams, the BaseX encoder stream); on the read side the
  two outer layers as whole-stream theorems — the chunk reader (the `Read` side
  of all three receivers: any buffer sizes ⇒ the concatenation of the chunks,
  then the condition, sticky) and the punctuated reader (any fragmentation of
  the underlying reader and any buffer sizes ⇒ the text up to the next period,
  then `ErrPunctuated`, then on from behind the period) — and the source model.
  The two inner layers of the armor reader stack (filteringReader → BaseX
  decoder, and the frame checks of framedDecoderStream around them) are modelled
  call by call in Model/Stream.lean and compared with the implementation per
  `Read` under eight fragmentations × ten buffer-size schedules on genuine,
  re-flowed and malformed texts on every run; their whole-text meaning is
  `Armor.openPure` (C11).  A machine-checked layer theorem for those two layers
  is not in place — MANIFEST labels that part `correspondence only`.
-/
import Saltpack.Proofs.StreamLemmas
import Saltpack.Proofs.ChunkReaderAll
import Saltpack.Proofs.PunctAll

namespace Saltpack.Props.C13
open Saltpack Saltpack.Stream Saltpack.Proofs

/-- **Write-split independence** of `NewEncryptStream`, `NewSignStream`,
    `NewSigncryptSealStream`: however the plaintext is split over `Write` calls
    (empty writes included), `Close` yields exactly the chunk plan of the
    all-at-once form — hence the same packets. -/
theorem C13_write_independent (bs : Nat) (hb : 0 < bs) (v : Version) (ws : List Bytes) :
    (ws.foldl Chunker.write ({ bs := bs } : Chunker)).close v = Encrypt.chunkPlan v bs ws.flatten :=
  chunker_any_split bs hb v ws

/-- two splits of the same plaintext give the same plan -/
theorem C13_two_splits_agree (bs : Nat) (hb : 0 < bs) (v : Version) (ws ws' : List Bytes)
    (h : ws.flatten = ws'.flatten) :
    (ws.foldl Chunker.write ({ bs := bs } : Chunker)).close v =
    (ws'.foldl Chunker.write ({ bs := bs } : Chunker)).close v := by
  rw [chunker_any_split bs hb, chunker_any_split bs hb, h]

/-- **Bounded buffering (writers)**: after every `Write` at most one block is
    buffered, whatever the total length of the message… -/
theorem C13_writer_buffer_bounded (c : Chunker) (hb : 0 < c.bs) (p : Bytes) : (c.write p).buf.length ≤ c.bs :=
  chunker_bounded c hb p

/-- …and no byte is lost or reordered on the way -/
theorem C13_writer_conserves (c : Chunker) (hb : 0 < c.bs) (p : Bytes) :
    (c.write p).emitted.flatten ++ (c.write p).buf = c.emitted.flatten ++ c.buf ++ p ∧ (c.write p).bs = c.bs :=
  chunker_conserves c hb p

/-- **BaseX encoder stream = one-shot encoding**, whatever the write split -/
theorem C13_basex_encoder_independent (enc : Basex.Enc) (he : enc.WF) (ws : List Bytes) :
    let s1 := ws.foldl (fun (s : EncState) w => (s.write w).2.2) ({ enc := enc } : EncState)
    let r := s1.close
    r.1 = true ∧ r.2.written.flatten = Basex.encode enc ws.flatten :=
  encStream_any_split enc he ws

theorem C13_basex_encoder_bounded (s : EncState) (hb : 0 < s.enc.blockLen) (hs : s.buf.length < s.enc.blockLen) (p : Bytes) :
    (s.write p).2.2.buf.length < s.enc.blockLen :=
  encStream_bounded s hb hs p

/-- **Chunk reader**: every `Read` hands out a prefix of what is pending, never
    more than the caller's buffer, and leaves the rest: whatever buffer sizes the
    caller uses, the plaintext chunks are delivered exactly once, in order… -/
theorem C13_chunk_reader_prefix (cap : Nat) (s : CRState Source)
    (hwf : ∀ p ∈ s.chunker, p.1 = [] → p.2 ≠ none) (d : Bytes) (e : Option RErr) (s' : CRState Source)
    (h : crRead Proofs.scriptNext cap (s.chunker.length + 3) s [] = (d, e, s')) :
    d.length ≤ cap ∧ crPending s = d ++ crPending s' ∧ (∀ p ∈ s'.chunker, p.1 = [] → p.2 ≠ none) :=
  crRead_prefix cap s hwf d e s' h

/-- …and the end-of-message or error condition is reported only after
    everything pending was delivered, and then again on every call -/
theorem C13_chunk_reader_terminal (cap : Nat) (s : CRState Source)
    (hwf : ∀ p ∈ s.chunker, p.1 = [] → p.2 ≠ none) (d : Bytes) (x : RErr) (s' : CRState Source)
    (h : crRead Proofs.scriptNext cap (s.chunker.length + 3) s [] = (d, some x, s')) :
    crPending s' = [] ∧ crRead Proofs.scriptNext cap (s'.chunker.length + 3) s' [] = ([], some x, s') :=
  crRead_terminal cap s hwf d x s' h

/-- **Reading to the end with any buffer sizes** (chunkReader, generic in the
    chunker — decrypt, verify and signcrypt-open all sit behind it): if the
    chunker hands out the chunks `cs` and then the condition `e` (no chunk
    before the last is empty — an empty chunk without a condition is the
    panic case C15 excludes), then for every schedule of positive buffer sizes
    the bytes returned by the successive `Read`s are exactly `cs.flatten`, the
    first condition reported is `e`, and the reader is left in its terminal
    state. -/
theorem C13_chunk_reader_all {σ : Type} (next : σ → Bytes × Option RErr × σ)
    (σ0 : σ) (n : Nat) (cs : List Bytes) (e : RErr)
    (htr : chunkTrace next n σ0 = (cs, some e)) (hne : ∀ c ∈ cs.dropLast, c ≠ [])
    (caps : List Nat) (hcaps : ∀ c ∈ caps, 0 < c)
    (inner : Nat) (hi : n + 1 ≤ inner) (fuel : Nat) (hf : cs.flatten.length + 1 ≤ fuel) :
    (crReadAll next caps inner fuel 0 { chunker := σ0 } []).1 = cs.flatten ∧
    (crReadAll next caps inner fuel 0 { chunker := σ0 } []).2.1 = some e ∧
    (crReadAll next caps inner fuel 0 { chunker := σ0 } []).2.2.prevChunk = [] ∧
    (crReadAll next caps inner fuel 0 { chunker := σ0 } []).2.2.prevErr = some e :=
  crReadAll_eq next σ0 n cs e htr hne caps hcaps inner hi fuel hf

/-- two buffer-size schedules give the same bytes and the same condition -/
theorem C13_chunk_reader_caps_independent {σ : Type} (next : σ → Bytes × Option RErr × σ)
    (σ0 : σ) (n : Nat) (cs : List Bytes) (e : RErr)
    (htr : chunkTrace next n σ0 = (cs, some e)) (hne : ∀ c ∈ cs.dropLast, c ≠ [])
    (caps caps' : List Nat) (hcaps : ∀ c ∈ caps, 0 < c) (hcaps' : ∀ c ∈ caps', 0 < c)
    (inner inner' : Nat) (hi : n + 1 ≤ inner) (hi' : n + 1 ≤ inner')
    (fuel fuel' : Nat) (hf : cs.flatten.length + 1 ≤ fuel) (hf' : cs.flatten.length + 1 ≤ fuel') :
    (crReadAll next caps inner fuel 0 { chunker := σ0 } []).1 =
      (crReadAll next caps' inner' fuel' 0 { chunker := σ0 } []).1 ∧
    (crReadAll next caps inner fuel 0 { chunker := σ0 } []).2.1 =
      (crReadAll next caps' inner' fuel' 0 { chunker := σ0 } []).2.1 :=
  crReadAll_caps_independent next σ0 n cs e htr hne caps caps' hcaps hcaps' inner inner' hi hi' fuel fuel' hf hf'

/-- a reported condition (other than the model's marker for the Go panic) is
    reported again, with no data, by every later `Read` of any size -/
theorem C13_chunk_reader_sticky {σ : Type} (next : σ → Bytes × Option RErr × σ)
    (cap inner : Nat) (s : CRState σ) (d : Bytes) (x : RErr) (s1 : CRState σ)
    (h : crRead next cap inner s [] = (d, some x, s1)) (hx : x ≠ crPanic)
    (cap' inner' : Nat) (hi : 1 ≤ inner') :
    crRead next cap' inner' s1 [] = ([], some x, s1) :=
  crRead_sticky next cap inner s d x s1 h hx cap' inner' hi

/-- **punctuatedReader, whole segments**: from any reachable (`WF`) state whose
    logical remaining input is `(t, c)` — buffered bytes, then what the
    underlying reader still delivers, ending in condition `c` — reading with
    any schedule of positive buffer sizes until a condition is reported yields:
    the text before the first period and `ErrPunctuated`, leaving exactly the
    text behind the period; or, without a period, all of `t` and then `c`.
    Nothing here depends on how the underlying reader fragments its deliveries
    (`s.text` is all that matters) or on the caller's buffer sizes. -/
theorem C13_punct_segment (caps : List Nat) (hpos : ∀ c ∈ caps, 0 < c) (s : PState) (hwf : s.WF)
    (fuel : Nat) (hfuel : s.cost < fuel) (k : Nat) (t : Bytes) (c : RErr) (ht : s.text = (t, c)) :
    (∀ a rest, t = a ++ Armor.period :: rest → Armor.period ∉ a →
      ∃ s1, pReadSeg caps fuel k s [] = (a, some punctErr, s1) ∧ s1.WF ∧ s1.text = (rest, c) ∧ s1.cost < s.cost) ∧
    (Armor.period ∉ t → ∃ s1, pReadSeg caps fuel k s [] = (t, some c, s1) ∧ s1.WF ∧ s1.buf = []) :=
  pReadSeg_eq caps hpos s hwf fuel hfuel k t c ht

/-- every state reached from a fresh reader is `WF`, a fresh reader's logical
    input is the script's text, and the model's own fuel suffices -/
theorem C13_punct_reachable (src : Source) (cap : Nat) (hcap : 0 < cap) (s : PState) (hwf : s.WF) :
    ({ src := src } : PState).WF ∧ ({ src := src } : PState).text = srcText src ∧
    (pRead cap s).2.2.WF ∧ s.cost < fuelOf s :=
  ⟨pWF_init src, ptext_init src, pWF_pRead cap hcap s hwf, cost_lt_fuelOf s⟩

/-- **fragmentation independence of the punctuated reader**: two scripts that
    deliver the same text with the same final condition, read with two
    schedules of buffer sizes, give the same segment and the same condition (and,
    when the segment ended at a period, states with the same remaining text) -/
theorem C13_punct_independent (src src' : Source) (h : srcText src = srcText src')
    (caps caps' : List Nat) (hpos : ∀ c ∈ caps, 0 < c) (hpos' : ∀ c ∈ caps', 0 < c)
    (fuel fuel' : Nat) (hfuel : srcCost src < fuel) (hfuel' : srcCost src' < fuel') :
    (pReadSeg caps fuel 0 { src := src } []).1 = (pReadSeg caps' fuel' 0 { src := src' } []).1 ∧
    (pReadSeg caps fuel 0 { src := src } []).2.1 = (pReadSeg caps' fuel' 0 { src := src' } []).2.1 :=
  let r := pReadSeg_independent src src' h caps caps' hpos hpos' fuel fuel' hfuel hfuel'
  ⟨r.1, r.2.1⟩

/-- **Source model**: a `Read` takes a prefix of the data, at most the buffer
    size, and leaves the rest — fragmentations of the same bytes differ only in
    where the cuts fall -/
theorem C13_source_prefix (cap : Nat) (src : Source) :
    let r := srcRead cap src
    r.1.length ≤ cap ∧ srcData src = r.1 ++ (match r.2.1 with | some _ => [] | none => srcData r.2.2) :=
  srcRead_prefix cap src

/-- **Bounded buffering (readers)**: the BaseX decoder holds at most its input
    buffer and one scratch buffer, the punctuated reader one 4096-byte buffer,
    frames are collected up to 8192 bytes (generated constants) -/
theorem C13_reader_bounds : Armor.frameLim = 8192 ∧ dBufSize Gen.base62Std = 8192 * 32 := by decide

/-! ## non-vacuity -/
example :
    let r := crReadAll Proofs.scriptNext [2] 5 7 0 { chunker := [([1, 2, 3], none), ([4], none), ([5, 6], none)] } []
    (r.1, r.2.1) = ([1, 2, 3, 4, 5, 6], some .eof) := by decide
example : (([[1, 2, 3], [], [4]] : List Bytes).foldl Chunker.write ({ bs := 2 } : Chunker)).close v2 =
    [([1, 2], false), ([3, 4], true)] := by decide

end Saltpack.Props.C13
