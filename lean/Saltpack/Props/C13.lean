/-
  Property C13 — results never depend on how input or output streams are
  fragmented; bounded buffering.  Statements only; proofs in
  Saltpack/Proofs/StreamLemmas.lean, ChunkReaderAll.lean, ReceiverChunks.lean,
  StateBounds.lean, ArmorWriter.lean, PunctAll.lean, ArmorStack*.lean.

  What is proved here: the write side — the plaintext bufferer shared by the
  three encoder streams (`C13_write_independent`), the BaseX encoder stream
  (`C13_basex_encoder_independent`) and the armor encoder stream on top of it
  (`armorEncoderStream`: BaseX encoder → spacer; `C13_armor_writer_independent`;
  the state machine `ArmState` lives in Proofs/ArmorWriter.lean because
  Model/Stream.lean has none, and is not driven by the correspondence — its
  whole-text function `Armor.sealText` is); the read side as whole-stream
  theorems — the chunk reader, INSTANTIATED for the three receivers
  (`C13_decrypt_reads_any_size`, `C13_signcrypt_reads_any_size`,
  `C13_verify_reads_any_size`: `getNextChunk` of each receiver as a function
  `next`, and reading it through `chunkReader.Read` with any buffer schedule
  gives exactly what the read-to-end functions `Decrypt.run` / `Signcrypt.run`
  / `Sign.run` give), the punctuated reader, and the COMPLETE armor reader stack
  (punctuatedReader → framedDecoderStream → filteringReader → BaseX decoder):
  `C13_armor_stream_is_whole_text`: for every script that delivers a text `T` in
  any fragments (also the last one together with EOF) and every schedule of
  positive caller buffer sizes, reading the stack to its end and asking for
  header/footer/brand (Go's `armorOpen`) succeeds exactly when the whole-text
  function `Armor.openPure T` (C11) does, with the same payload, brand, header
  and footer; `C13_armor_stream_independent`: hence two fragmentations and two
  buffer schedules agree; `C13_armor_released_comparable`: on failure too, the
  bytes released under different fragmentations are prefixes of one another
  (all are prefixes of `maxRelease T`).  Excluded scripts (`SrcOK`), each with a
  machine-checked counterexample in Proofs/Stack*.lean: empty non-terminal
  reads `(0, nil)` (Go's `ReadUntilPunctuation` turns one into
  `ErrUnexpectedEOF`; the property's quantifier excludes readers that return
  them forever, io.Reader discourages them), and data after the first reported
  condition.  WHICH error is reported for a malformed text can depend on the
  fragmentation (counterexample: `"h..f.!."` gives `punctuated` in one delivery
  and `trailingGarbage` byte by byte) — the property asks for the same *result*,
  and an error either way, which is what is proved.
  Bounded buffering is stated as invariants of the reader and writer STATES,
  true initially and preserved by every call on any input
  (`C13_decoder_state_bounded` — the whole reader stack —,
  `C13_punct_state_bounded`, `C13_framed_state_bounded`,
  `C13_chunk_reader_one_chunk`; writers: `C13_writer_buffer_bounded`,
  `C13_basex_encoder_bounded`, `C13_armor_writer_bounded`).
-/
import Saltpack.Proofs.StreamLemmas
import Saltpack.Proofs.ChunkReaderAll
import Saltpack.Proofs.ReceiverChunks
import Saltpack.Proofs.StateBounds
import Saltpack.Proofs.ArmorWriter
import Saltpack.Proofs.PunctAll
import Saltpack.Proofs.ArmorStack
import Saltpack.Proofs.ArmorStackFaults

namespace Saltpack.Props.C13
open Saltpack Saltpack.Stream Saltpack.Proofs

/-- **Write-split independence** of `NewEncryptStream`, `NewSignStream`,
    `NewSigncryptSealStream`: however the plaintext is split over `Write` calls
    (empty writes included), `Close` yields exactly the chunk plan of the
    all-at-once form — hence the same packets. -/
theorem C13_write_independent (bs : Nat) (hb : 0 < bs) (v : Version) (ws : List Bytes) :
    (ws.foldl Chunker.write ({ bs := bs } : Chunker)).close v = Encrypt.chunkPlan v bs ws.flatten :=
  chunker_any_split bs hb v ws

/-- two splits of the same plaintext give the same plan -/
theorem C13_two_splits_agree (bs : Nat) (hb : 0 < bs) (v : Version) (ws ws' : List Bytes)
    (h : ws.flatten = ws'.flatten) :
    (ws.foldl Chunker.write ({ bs := bs } : Chunker)).close v =
    (ws'.foldl Chunker.write ({ bs := bs } : Chunker)).close v := by
  rw [chunker_any_split bs hb, chunker_any_split bs hb, h]

/-- **Bounded buffering (writers)**: after every `Write` at most one block is
    buffered, whatever the total length of the message… -/
theorem C13_writer_buffer_bounded (c : Chunker) (hb : 0 < c.bs) (p : Bytes) : (c.write p).buf.length ≤ c.bs :=
  chunker_bounded c hb p

/-- …and no byte is lost or reordered on the way -/
theorem C13_writer_conserves (c : Chunker) (hb : 0 < c.bs) (p : Bytes) :
    (c.write p).emitted.flatten ++ (c.write p).buf = c.emitted.flatten ++ c.buf ++ p ∧ (c.write p).bs = c.bs :=
  chunker_conserves c hb p

/-- **BaseX encoder stream = one-shot encoding**, whatever the write split -/
theorem C13_basex_encoder_independent (enc : Basex.Enc) (he : enc.WF) (ws : List Bytes) :
    let s1 := ws.foldl (fun (s : EncState) w => (s.write w).2.2) ({ enc := enc } : EncState)
    let r := s1.close
    r.1 = true ∧ r.2.written.flatten = Basex.encode enc ws.flatten :=
  encStream_any_split enc he ws

theorem C13_basex_encoder_bounded (s : EncState) (hb : 0 < s.enc.blockLen) (hs : s.buf.length < s.enc.blockLen) (p : Bytes) :
    (s.write p).2.2.buf.length < s.enc.blockLen :=
  encStream_bounded s hb hs p

/-- **Armor encoder stream = whole-text armoring, whatever the write split**:
    `armorEncoderStream` (armor.go) as the state machine `ArmState`
    (Proofs/ArmorWriter.lean: `Write` = BaseX `encoder.Write` into a
    `bytes.Buffer`, then `spaceAndOutputBuffer` — a space after every
    `bytesPerWord` characters, a newline after every `wordsPerLine` words;
    `Close` = `encoder.Close`, spacing, last word, pad, `". " ‖ footer ‖ ".\n"`).
    For every split `ws` of the payload over `Write` calls (empty writes
    included) the text left in the output after `Close` is `Armor.sealText` of
    the concatenation — the function C11 opens again. -/
theorem C13_armor_writer_independent (par : Armor.Params) (he : par.enc.WF) (hw : 0 < par.bytesPerWord)
    (hdr ftr : Bytes) (ws : List Bytes) :
    ((ws.foldl ArmState.write (ArmState.init par hdr ftr)).close).out = Armor.sealText par hdr ftr ws.flatten :=
  armorWriter_any_split par he hw hdr ftr ws

/-- …for the shipped `Armor62Params` and the frames of a message type -/
theorem C13_armor62_writer_independent (typ : Int) (brand : Bytes) (ws : List Bytes) :
    ((ws.foldl ArmState.write
        (ArmState.init Armor.params62 (Armor.header typ brand) (Armor.footer typ brand))).close).out =
      Armor.seal62 typ brand ws.flatten :=
  armorWriter62_any_split typ brand ws

/-- bounded buffering of the armor encoder stream: after every `Write` at most
    one word (`bytesPerWord` characters) is held back, in ANY state -/
theorem C13_armor_writer_bounded (s : ArmState) (hw : 0 < s.par.bytesPerWord) (b : Bytes) :
    (s.write b).buf.length ≤ s.par.bytesPerWord :=
  armorWriter_bounded s hw b

/-- **Chunk reader**: every `Read` hands out a prefix of what is pending, never
    more than the caller's buffer, and leaves the rest: whatever buffer sizes the
    caller uses, the plaintext chunks are delivered exactly once, in order… -/
theorem C13_chunk_reader_prefix (cap : Nat) (s : CRState Source)
    (hwf : ∀ p ∈ s.chunker, p.1 = [] → p.2 ≠ none) (d : Bytes) (e : Option RErr) (s' : CRState Source)
    (h : crRead Proofs.scriptNext cap (s.chunker.length + 3) s [] = (d, e, s')) :
    d.length ≤ cap ∧ crPending s = d ++ crPending s' ∧ (∀ p ∈ s'.chunker, p.1 = [] → p.2 ≠ none) :=
  crRead_prefix cap s hwf d e s' h

/-- …and the end-of-message or error condition is reported only after
    everything pending was delivered, and then again on every call -/
theorem C13_chunk_reader_terminal (cap : Nat) (s : CRState Source)
    (hwf : ∀ p ∈ s.chunker, p.1 = [] → p.2 ≠ none) (d : Bytes) (x : RErr) (s' : CRState Source)
    (h : crRead Proofs.scriptNext cap (s.chunker.length + 3) s [] = (d, some x, s')) :
    crPending s' = [] ∧ crRead Proofs.scriptNext cap (s'.chunker.length + 3) s' [] = ([], some x, s') :=
  crRead_terminal cap s hwf d x s' h

/-- **Reading to the end with any buffer sizes** (chunkReader, generic in the
    chunker; instantiated for decrypt, verify and signcrypt-open below): if the
    chunker hands out the chunks `cs` and then the condition `e` (no chunk
    before the last is empty — an empty chunk without a condition is the
    panic case C15 excludes), then for every schedule of positive buffer sizes
    the bytes returned by the successive `Read`s are exactly `cs.flatten`, the
    first condition reported is `e`, and the reader is left in its terminal
    state. -/
theorem C13_chunk_reader_all {σ : Type} (next : σ → Bytes × Option RErr × σ)
    (σ0 : σ) (n : Nat) (cs : List Bytes) (e : RErr)
    (htr : chunkTrace next n σ0 = (cs, some e)) (hne : ∀ c ∈ cs.dropLast, c ≠ [])
    (caps : List Nat) (hcaps : ∀ c ∈ caps, 0 < c)
    (inner : Nat) (hi : n + 1 ≤ inner) (fuel : Nat) (hf : cs.flatten.length + 1 ≤ fuel) :
    (crReadAll next caps inner fuel 0 { chunker := σ0 } []).1 = cs.flatten ∧
    (crReadAll next caps inner fuel 0 { chunker := σ0 } []).2.1 = some e ∧
    (crReadAll next caps inner fuel 0 { chunker := σ0 } []).2.2.prevChunk = [] ∧
    (crReadAll next caps inner fuel 0 { chunker := σ0 } []).2.2.prevErr = some e :=
  crReadAll_eq next σ0 n cs e htr hne caps hcaps inner hi fuel hf

/-- two buffer-size schedules give the same bytes and the same condition -/
theorem C13_chunk_reader_caps_independent {σ : Type} (next : σ → Bytes × Option RErr × σ)
    (σ0 : σ) (n : Nat) (cs : List Bytes) (e : RErr)
    (htr : chunkTrace next n σ0 = (cs, some e)) (hne : ∀ c ∈ cs.dropLast, c ≠ [])
    (caps caps' : List Nat) (hcaps : ∀ c ∈ caps, 0 < c) (hcaps' : ∀ c ∈ caps', 0 < c)
    (inner inner' : Nat) (hi : n + 1 ≤ inner) (hi' : n + 1 ≤ inner')
    (fuel fuel' : Nat) (hf : cs.flatten.length + 1 ≤ fuel) (hf' : cs.flatten.length + 1 ≤ fuel') :
    (crReadAll next caps inner fuel 0 { chunker := σ0 } []).1 =
      (crReadAll next caps' inner' fuel' 0 { chunker := σ0 } []).1 ∧
    (crReadAll next caps inner fuel 0 { chunker := σ0 } []).2.1 =
      (crReadAll next caps' inner' fuel' 0 { chunker := σ0 } []).2.1 :=
  crReadAll_caps_independent next σ0 n cs e htr hne caps caps' hcaps hcaps' inner inner' hi hi' fuel fuel' hf hf'

/-- **The three receivers behind the chunk reader.**  `decNext P s` is
    `decryptStream.getNextChunk` as a function on the state (remaining decoded
    objects, what the decoder reports after them, sequence number, condition
    already returned): `(nil, err)` for a read / authentication / chunk-state
    error, `(chunk, assertEndOfStream)` for the final block, `(chunk, nil)`
    otherwise.  Reading it through `chunkReader.Read` with ANY schedule of
    positive buffer sizes releases exactly the bytes of the read-to-end
    function `Decrypt.run` and then its condition (`none` ↔ `io.EOF`), and
    leaves the reader terminal.  The hypothesis of `C13_chunk_reader_all` —
    no empty chunk before the last — is DISCHARGED from `checkChunkState`
    (V2 refuses empty non-final chunks, V1: empty ⇔ final; errors and the V1
    panic branch are `(nil, err)` returns, not the reader's panic case). -/
theorem C13_decrypt_reads_any_size (P : Prims) (s : Decrypt.State) (items : List (Option EncBlock)) (tail : Tail)
    (seqno : Nat) (caps : List Nat) (hcaps : ∀ c ∈ caps, 0 < c) (inner : Nat) (hi : items.length + 2 ≤ inner)
    (fuel : Nat) (hf : (Decrypt.run P s items tail seqno).bytes.length + 1 ≤ fuel) :
    let r := crReadAll (decNext P s) caps inner fuel 0 { chunker := ⟨items, tail, seqno, none⟩ } []
    r.1 = (Decrypt.run P s items tail seqno).bytes ∧
    r.2.1 = some (toRErr (Decrypt.run P s items tail seqno).err) ∧
    r.2.2.prevChunk = [] ∧
    r.2.2.prevErr = some (toRErr (Decrypt.run P s items tail seqno).err) :=
  decrypt_reads_any_size P s items tail seqno caps hcaps inner hi fuel hf

theorem C13_signcrypt_reads_any_size (P : Prims) (s : Signcrypt.State) (items : List (Option SigncryptBlock))
    (tail : Tail) (seqno : Nat) (caps : List Nat) (hcaps : ∀ c ∈ caps, 0 < c) (inner : Nat)
    (hi : items.length + 2 ≤ inner)
    (fuel : Nat) (hf : (Signcrypt.run P s items tail seqno).bytes.length + 1 ≤ fuel) :
    let r := crReadAll (scNext P s) caps inner fuel 0 { chunker := ⟨items, tail, seqno, none⟩ } []
    r.1 = (Signcrypt.run P s items tail seqno).bytes ∧
    r.2.1 = some (toRErr (Signcrypt.run P s items tail seqno).err) ∧
    r.2.2.prevChunk = [] ∧
    r.2.2.prevErr = some (toRErr (Signcrypt.run P s items tail seqno).err) :=
  signcrypt_reads_any_size P s items tail seqno caps hcaps inner hi fuel hf

theorem C13_verify_reads_any_size (P : Prims) (s : Sign.State) (items : List (Option SigBlock)) (tail : Tail)
    (seqno : Nat) (caps : List Nat) (hcaps : ∀ c ∈ caps, 0 < c) (inner : Nat) (hi : items.length + 2 ≤ inner)
    (fuel : Nat) (hf : (Sign.run P s items tail seqno).bytes.length + 1 ≤ fuel) :
    let r := crReadAll (verNext P s) caps inner fuel 0 { chunker := ⟨items, tail, seqno, none⟩ } []
    r.1 = (Sign.run P s items tail seqno).bytes ∧
    r.2.1 = some (toRErr (Sign.run P s items tail seqno).err) ∧
    r.2.2.prevChunk = [] ∧
    r.2.2.prevErr = some (toRErr (Sign.run P s items tail seqno).err) :=
  verify_reads_any_size P s items tail seqno caps hcaps inner hi fuel hf

/-- …at the level of the entry points: what `NewDecryptStream` + `Read`s with
    any buffer sizes release is `openStream`'s `released`, then its `err` -/
theorem C13_decrypt_open_reads_any_size (P : Prims) (valid : Validator) (kr : Keyring) (hb : Bytes) (h : EncHeader)
    (ps : PStream EncBlock) (log : List KeyCall) (st : Decrypt.State)
    (hh : Decrypt.processHeader P valid kr (P.hash hb) h = (log, .ok st))
    (caps : List Nat) (hcaps : ∀ c ∈ caps, 0 < c) (inner : Nat) (hi : ps.items.length + 2 ≤ inner)
    (fuel : Nat) (hf : (Decrypt.openStream P valid kr (.ok hb h) ps).released.length + 1 ≤ fuel) :
    let R := Decrypt.openStream P valid kr (.ok hb h) ps
    let r := crReadAll (decNext P st) caps inner fuel 0 { chunker := ⟨ps.items, ps.tail, 1, none⟩ } []
    r.1 = R.released ∧ r.2.1 = some (toRErr R.err) ∧
    r.2.2.prevChunk = [] ∧ r.2.2.prevErr = some (toRErr R.err) :=
  decrypt_open_reads_any_size P valid kr hb h ps log st hh caps hcaps inner hi fuel hf

theorem C13_signcrypt_open_reads_any_size (P : Prims) (kr : Keyring) (res : Signcrypt.Resolver) (hb : Bytes)
    (h : EncHeader) (ps : PStream SigncryptBlock) (log : List KeyCall) (st : Signcrypt.State)
    (hh : Signcrypt.processHeader P kr res (P.hash hb) h = (log, .ok st))
    (caps : List Nat) (hcaps : ∀ c ∈ caps, 0 < c) (inner : Nat) (hi : ps.items.length + 2 ≤ inner)
    (fuel : Nat) (hf : (Signcrypt.openStream P kr res (.ok hb h) ps).released.length + 1 ≤ fuel) :
    let R := Signcrypt.openStream P kr res (.ok hb h) ps
    let r := crReadAll (scNext P st) caps inner fuel 0 { chunker := ⟨ps.items, ps.tail, 1, none⟩ } []
    r.1 = R.released ∧ r.2.1 = some (toRErr R.err) ∧
    r.2.2.prevChunk = [] ∧ r.2.2.prevErr = some (toRErr R.err) :=
  signcrypt_open_reads_any_size P kr res hb h ps log st hh caps hcaps inner hi fuel hf

theorem C13_verify_stream_reads_any_size (P : Prims) (valid : Validator) (kr : Keyring) (hb : Bytes) (h : SigHeader)
    (ps : PStream SigBlock) (pk : Bytes)
    (hval : Sign.validate valid h mtAttached = .ok ())
    (hpk : kr.lookupSigningPublicKey h.senderPublic = some pk)
    (hv : h.version.major = 1 ∨ h.version.major = 2)
    (caps : List Nat) (hcaps : ∀ c ∈ caps, 0 < c) (inner : Nat) (hi : ps.items.length + 2 ≤ inner)
    (fuel : Nat) (hf : (Sign.verifyStream P valid kr (.ok hb h) ps).released.length + 1 ≤ fuel) :
    let R := Sign.verifyStream P valid kr (.ok hb h) ps
    let r := crReadAll (verNext P ⟨h.version, P.hash hb, pk⟩) caps inner fuel 0
      { chunker := ⟨ps.items, ps.tail, 1, none⟩ } []
    r.1 = R.released ∧ r.2.1 = some (toRErr R.err) ∧
    r.2.2.prevChunk = [] ∧ r.2.2.prevErr = some (toRErr R.err) :=
  verify_stream_reads_any_size P valid kr hb h ps pk hval hpk hv caps hcaps inner hi fuel hf

/-- none of the three `getNextChunk`s ever returns the chunk reader's panic
    case (empty chunk, nil error) -/
theorem C13_receivers_never_panic_reader (P : Prims) :
    (∀ (s : Decrypt.State) σ, (decNext P s σ).1 ≠ [] ∨ (decNext P s σ).2.1 ≠ none) ∧
    (∀ (s : Signcrypt.State) σ, (scNext P s σ).1 ≠ [] ∨ (scNext P s σ).2.1 ≠ none) ∧
    (∀ (s : Sign.State) σ, (verNext P s σ).1 ≠ [] ∨ (verNext P s σ).2.1 ≠ none) :=
  ⟨fun s σ => rxNext_no_panic _ (decStep_nonfinal P s) σ, fun s σ => rxNext_no_panic _ (scStep_nonfinal P s) σ,
   fun s σ => rxNext_no_panic _ (verStep_nonfinal P s) σ⟩

/-- a reported condition (other than the model's marker for the Go panic) is
    reported again, with no data, by every later `Read` of any size -/
theorem C13_chunk_reader_sticky {σ : Type} (next : σ → Bytes × Option RErr × σ)
    (cap inner : Nat) (s : CRState σ) (d : Bytes) (x : RErr) (s1 : CRState σ)
    (h : crRead next cap inner s [] = (d, some x, s1)) (hx : x ≠ crPanic)
    (cap' inner' : Nat) (hi : 1 ≤ inner') :
    crRead next cap' inner' s1 [] = ([], some x, s1) :=
  crRead_sticky next cap inner s d x s1 h hx cap' inner' hi

/-- **punctuatedReader, whole segments**: from any reachable (`WF`) state whose
    logical remaining input is `(t, c)` — buffered bytes, then what the
    underlying reader still delivers, ending in condition `c` — reading with
    any schedule of positive buffer sizes until a condition is reported yields:
    the text before the first period and `ErrPunctuated`, leaving exactly the
    text behind the period; or, without a period, all of `t` and then `c`.
    Nothing here depends on how the underlying reader fragments its deliveries
    (`s.text` is all that matters) or on the caller's buffer sizes. -/
theorem C13_punct_segment (caps : List Nat) (hpos : ∀ c ∈ caps, 0 < c) (s : PState) (hwf : s.WF)
    (fuel : Nat) (hfuel : s.cost < fuel) (k : Nat) (t : Bytes) (c : RErr) (ht : s.text = (t, c)) :
    (∀ a rest, t = a ++ Armor.period :: rest → Armor.period ∉ a →
      ∃ s1, pReadSeg caps fuel k s [] = (a, some punctErr, s1) ∧ s1.WF ∧ s1.text = (rest, c) ∧ s1.cost < s.cost) ∧
    (Armor.period ∉ t → ∃ s1, pReadSeg caps fuel k s [] = (t, some c, s1) ∧ s1.WF ∧ s1.buf = []) :=
  pReadSeg_eq caps hpos s hwf fuel hfuel k t c ht

/-- every state reached from a fresh reader is `WF`, a fresh reader's logical
    input is the script's text, and the model's own fuel suffices -/
theorem C13_punct_reachable (src : Source) (cap : Nat) (hcap : 0 < cap) (s : PState) (hwf : s.WF) :
    ({ src := src } : PState).WF ∧ ({ src := src } : PState).text = srcText src ∧
    (pRead cap s).2.2.WF ∧ s.cost < fuelOf s :=
  ⟨pWF_init src, ptext_init src, pWF_pRead cap hcap s hwf, cost_lt_fuelOf s⟩

/-- **fragmentation independence of the punctuated reader**: two scripts that
    deliver the same text with the same final condition, read with two
    schedules of buffer sizes, give the same segment and the same condition (and,
    when the segment ended at a period, states with the same remaining text) -/
theorem C13_punct_independent (src src' : Source) (h : srcText src = srcText src')
    (caps caps' : List Nat) (hpos : ∀ c ∈ caps, 0 < c) (hpos' : ∀ c ∈ caps', 0 < c)
    (fuel fuel' : Nat) (hfuel : srcCost src < fuel) (hfuel' : srcCost src' < fuel') :
    (pReadSeg caps fuel 0 { src := src } []).1 = (pReadSeg caps' fuel' 0 { src := src' } []).1 ∧
    (pReadSeg caps fuel 0 { src := src } []).2.1 = (pReadSeg caps' fuel' 0 { src := src' } []).2.1 :=
  let r := pReadSeg_independent src src' h caps caps' hpos hpos' fuel fuel' hfuel hfuel'
  ⟨r.1, r.2.1⟩

/-- **The armor reader stack computes the whole-text function**, whatever the
    fragmentation of the input and the caller's buffer sizes: `armorOpenStream`
    (read the decoder stack to its end with buffer schedule `caps`, then
    `GetHeader`/`GetFooter`/`GetBrand`) returns `o` exactly when
    `Armor.openPure` returns `o` on the text the script delivers. -/
theorem C13_armor_stream_is_whole_text (par : Armor.Params) (hpar : par.enc.WF) (expect : Armor.Expect)
    (src : Source) (T : Bytes) (hok : SrcOK src) (hsrc : srcText src = (T, .eof))
    (caps : List Nat) (hcaps : ∀ c ∈ caps, 0 < c) (fuel : Nat) (hfuel : T.length + 1 ≤ fuel) (o : Armor.Opened) :
    armorOpenStream par expect caps fuel src = .ok o ↔ Armor.openPure par expect T = .ok o :=
  armorOpenStream_ok_iff par hpar expect src T hok hsrc caps hcaps fuel hfuel o

/-- …for the shipped base62 armor -/
theorem C13_armor62_stream_is_whole_text (expect : Armor.Expect) (src : Source) (T : Bytes) (hok : SrcOK src)
    (hsrc : srcText src = (T, .eof)) (caps : List Nat) (hcaps : ∀ c ∈ caps, 0 < c) (fuel : Nat)
    (hfuel : T.length + 1 ≤ fuel) (o : Armor.Opened) :
    armorOpenStream Armor.params62 expect caps fuel src = .ok o ↔ Armor.open62 expect T = .ok o :=
  readAll_eq_open62 expect src T hok hsrc caps hcaps fuel hfuel o

/-- the bytes released by the `Read` calls themselves: exactly the payload and a
    clean end when the text is well-formed; an error is reported when the entry
    point checks frames (`expect = some typ`) and the text is not -/
theorem C13_armor_reads (par : Armor.Params) (hpar : par.enc.WF) (expect : Armor.Expect)
    (src : Source) (T : Bytes) (hok : SrcOK src) (hsrc : srcText src = (T, .eof))
    (caps : List Nat) (hcaps : ∀ c ∈ caps, 0 < c) (fuel : Nat) (hfuel : T.length + 1 ≤ fuel) :
    (∀ o, Armor.openPure par expect T = .ok o →
      (readAll par expect caps fuel 0 (newDecoder src) []).1 = o.payload ∧
      (readAll par expect caps fuel 0 (newDecoder src) []).2.1 = none) ∧
    (∀ typ e, expect = some typ → Armor.openPure par expect T = .error e →
      ∃ released e' d, readAll par expect caps fuel 0 (newDecoder src) [] = (released, some e', d)) := by
  refine ⟨fun o ho => ?_, fun typ e ht he => ?_⟩
  · have := readAll_independent par hpar expect src src T hok hok hsrc hsrc caps caps hcaps hcaps fuel fuel hfuel hfuel o ho
    exact ⟨this.1, this.2.2.1⟩
  · subst ht
    exact readAll_error_checked par hpar typ src T hok hsrc caps hcaps fuel hfuel e he

/-- **Fragmentation independence of dearmoring**: two scripts of the same text
    and two buffer schedules give the same result (`.toOption`: the same opened
    message, or an error in both) -/
theorem C13_armor_stream_independent (par : Armor.Params) (hpar : par.enc.WF) (expect : Armor.Expect)
    (src src' : Source) (T : Bytes) (hok : SrcOK src) (hok' : SrcOK src')
    (hsrc : srcText src = (T, .eof)) (hsrc' : srcText src' = (T, .eof))
    (caps caps' : List Nat) (hcaps : ∀ c ∈ caps, 0 < c) (hcaps' : ∀ c ∈ caps', 0 < c)
    (fuel fuel' : Nat) (hfuel : T.length + 1 ≤ fuel) (hfuel' : T.length + 1 ≤ fuel') :
    (armorOpenStream par expect caps fuel src).toOption = (armorOpenStream par expect caps' fuel' src').toOption :=
  armorOpenStream_independent par hpar expect src src' T hok hok' hsrc hsrc' caps caps' hcaps hcaps' fuel fuel' hfuel hfuel'

/-- **On failure, released bytes are prefixes of one another**: whatever the
    text (malformed or not), the bytes released under two fragmentations and two
    buffer schedules are comparable — both are prefixes of `maxRelease T`, a
    function of the text alone (and equal to it when the run ends cleanly) -/
theorem C13_armor_released_bounded (par : Armor.Params) (hpar : par.enc.WF) (expect : Armor.Expect)
    (src : Source) (T : Bytes) (hok : SrcOK src) (hsrc : srcText src = (T, .eof))
    (caps : List Nat) (hcaps : ∀ c ∈ caps, 0 < c) (fuel : Nat) (hfuel : T.length + 1 ≤ fuel) :
    (readAll par expect caps fuel 0 (newDecoder src) []).1 <+: maxRelease par expect T ∧
    ((readAll par expect caps fuel 0 (newDecoder src) []).2.1 = none →
      (readAll par expect caps fuel 0 (newDecoder src) []).1 = maxRelease par expect T) :=
  released_prefix_maxRelease par hpar expect src T hok hsrc caps hcaps fuel hfuel

theorem C13_armor_released_comparable (par : Armor.Params) (hpar : par.enc.WF) (expect : Armor.Expect)
    (src src' : Source) (T : Bytes) (hok : SrcOK src) (hok' : SrcOK src')
    (hsrc : srcText src = (T, .eof)) (hsrc' : srcText src' = (T, .eof))
    (caps caps' : List Nat) (hcaps : ∀ c ∈ caps, 0 < c) (hcaps' : ∀ c ∈ caps', 0 < c)
    (fuel fuel' : Nat) (hfuel : T.length + 1 ≤ fuel) (hfuel' : T.length + 1 ≤ fuel') :
    (readAll par expect caps fuel 0 (newDecoder src) []).1 <+: (readAll par expect caps' fuel' 0 (newDecoder src') []).1 ∨
    (readAll par expect caps' fuel' 0 (newDecoder src') []).1 <+: (readAll par expect caps fuel 0 (newDecoder src) []).1 :=
  released_prefix_comparable par hpar expect src src' T hok hok' hsrc hsrc' caps caps' hcaps hcaps' fuel fuel' hfuel hfuel'

/-- **Source model**: a `Read` takes a prefix of the data, at most the buffer
    size, and leaves the rest — fragmentations of the same bytes differ only in
    where the cuts fall -/
theorem C13_source_prefix (cap : Nat) (src : Source) :
    let r := srcRead cap src
    r.1.length ≤ cap ∧ srcData src = r.1 ++ (match r.2.1 with | some _ => [] | none => srcData r.2.2) :=
  srcRead_prefix cap src

/-! ## Bounded buffering (readers): invariants of the reader STATES, true of
    the initial state and preserved by every `Read` call, whatever the input -/

/-- **BaseX decoder stream** (and, inside `DBounded`, every layer below it):
    a fresh decoder satisfies, and every `Read(p)` of any size preserves:
    input buffer `buf` ≤ `dBufSize` = 8192 blocks of characters; decoded
    leftover `out` ≤ the decoding of one such buffer; the framed decoder's
    header and footer < 8192 bytes; the punctuated reader's two stashed
    segments together ≤ max 4096 `dBufSize`.  And a `Read` never returns more
    than the caller's buffer. -/
theorem C13_decoder_state_bounded (par : Armor.Params) (he : par.enc.WF) (expect : Armor.Expect) :
    (∀ src, DBounded par (newDecoder src)) ∧
    (∀ (cap : Nat) (d : DState), DBounded par d →
      DBounded par (dRead par expect cap d).2.2 ∧ (dRead par expect cap d).1.length ≤ cap) :=
  ⟨dBounded_init par, fun cap d h => dRead_bounded par he expect cap d h⟩

/-- `DBounded` spelled out -/
theorem C13_decoder_bound_unfolds (par : Armor.Params) (d : DState) :
    DBounded par d ↔
      ((d.fil.f.p.nextSegment.length + d.fil.f.p.thisSegment.length ≤ max 4096 (dBufSize par.enc) ∧
        d.fil.f.hdr.length < Armor.frameLim ∧ d.fil.f.ftr.length < Armor.frameLim) ∧
       d.buf.length ≤ dBufSize par.enc ∧
       d.out.length ≤ par.enc.decLen (dBufSize par.enc)) :=
  Iff.rfl

/-- **punctuatedReader**: with `B` any bound ≥ the caller's buffer (`max 4096
    cap` for the reader's own 4096-byte reads and the caller's `cap`), one
    `Read(p)` keeps `nextSegment` and `thisSegment` together within `B` bytes
    and returns at most `cap` bytes; a fresh reader holds nothing.  (Data read
    with the caller's `cap` may be stashed, hence `B ≥ cap`, not 4096.) -/
theorem C13_punct_state_bounded (cap : Nat) (s : PState)
    (h : s.nextSegment.length + s.thisSegment.length ≤ max 4096 cap) :
    (pRead cap s).2.2.nextSegment.length + (pRead cap s).2.2.thisSegment.length ≤ max 4096 cap ∧
    (pRead cap s).1.length ≤ cap ∧
    (∀ src, ({ src := src } : PState).nextSegment.length + ({ src := src } : PState).thisSegment.length = 0) :=
  let r := pRead_bounded (max 4096 cap) cap s h (Nat.le_max_right _ _)
  ⟨r.1, r.2, fun _ => rfl⟩

/-- the same for any bound `B ≥ cap` — the form that composes over calls with
    different buffer sizes (all ≤ `B`) -/
theorem C13_punct_state_bounded_any (B cap : Nat) (hc : cap ≤ B) (s : PState)
    (h : s.nextSegment.length + s.thisSegment.length ≤ B) :
    (pRead cap s).2.2.nextSegment.length + (pRead cap s).2.2.thisSegment.length ≤ B ∧ (pRead cap s).1.length ≤ cap :=
  pRead_bounded B cap s h hc

/-- **framedDecoderStream**: header and footer are collected up to, not
    including, `frameLim` = 8192 bytes: a fresh stream satisfies, and every
    `Read(p)` preserves, `hdr.length < frameLim ∧ ftr.length < frameLim`
    (together with the bound of its punctuated reader, for any `B ≥ 4096, cap`) -/
theorem C13_framed_state_bounded (par : Armor.Params) (expect : Armor.Expect) (B cap : Nat)
    (h4 : 4096 ≤ B) (hc : cap ≤ B) (f : FState)
    (hp : f.p.nextSegment.length + f.p.thisSegment.length ≤ B)
    (hh : f.hdr.length < Armor.frameLim) (hf : f.ftr.length < Armor.frameLim) :
    let f' := (fRead par expect cap f).2.2
    (f'.p.nextSegment.length + f'.p.thisSegment.length ≤ B ∧
     f'.hdr.length < Armor.frameLim ∧ f'.ftr.length < Armor.frameLim) ∧
    (fRead par expect cap f).1.length ≤ cap ∧
    (∀ src, ({ p := { src := src } } : FState).hdr.length < Armor.frameLim ∧
            ({ p := { src := src } } : FState).ftr.length < Armor.frameLim) :=
  let r := fRead_bounded par expect B cap h4 hc f ⟨hp, hh, hf⟩
  ⟨r.1, r.2, fun src => (fBounded_init B src).2⟩

/-- **chunkReader holds at most one chunk**: its only buffer is `prevChunk`
    (empty in a fresh reader); after a `Read` — any chunker, any buffer size —
    what is left pending is a suffix of what was pending before or of ONE chunk
    that `getNextChunk` returned during the call; hence never longer than the
    longest chunk the chunker hands out. -/
theorem C13_chunk_reader_one_chunk {σ : Type} (next : σ → Bytes × Option RErr × σ) (cap fuel : Nat)
    (s : CRState σ) (acc : Bytes) :
    ((crRead next cap fuel s acc).2.2.prevChunk <:+ s.prevChunk ∨
      ∃ σ1, (crRead next cap fuel s acc).2.2.prevChunk <:+ (next σ1).1) ∧
    (∀ B, (∀ σ1, (next σ1).1.length ≤ B) → s.prevChunk.length ≤ B →
      (crRead next cap fuel s acc).2.2.prevChunk.length ≤ B) ∧
    (∀ σ0 : σ, ({ chunker := σ0 } : CRState σ).prevChunk = []) :=
  ⟨crRead_one_chunk next cap fuel s acc, fun B hB hs => crRead_pending_le next B hB cap fuel s acc hs, fun _ => rfl⟩

/-- the constants behind the bounds above, for the shipped base62 armor
    (generated constants; this is a fact about two numbers, not about any
    state — the state invariants are the four theorems above) -/
theorem C13_reader_constants : Armor.frameLim = 8192 ∧ dBufSize Gen.base62Std = 8192 * 32 := by decide

/-! ## non-vacuity -/
-- "h.00.f." delivered in two fragments, the second one together with EOF, read
-- with buffers of 3 and 1 bytes: the hypotheses are met and both sides are `ok`
example : armorOpenStream Armor.params62 none [3, 1] 8 [([104, 46, 48], none), ([48, 46, 102, 46], some .eof)]
    = .ok ⟨[0], [], [104], [102]⟩ :=
  (C13_armor62_stream_is_whole_text none _ Proofs.exTiny (by simp [SrcOK]) (by decide) [3, 1] (by decide) 8
    (by decide) _).mpr (by decide)
example :
    let r := crReadAll Proofs.scriptNext [2] 5 7 0 { chunker := [([1, 2, 3], none), ([4], none), ([5, 6], none)] } []
    (r.1, r.2.1) = ([1, 2, 3, 4, 5, 6], some .eof) := by decide
example : (([[1, 2, 3], [], [4]] : List Bytes).foldl Chunker.write ({ bs := 2 } : Chunker)).close v2 =
    [([1, 2], false), ([3, 4], true)] := by decide

-- the state invariant holds initially and after a step, on a concrete decoder
example : DBounded Armor.params62 (dRead Armor.params62 none 3 (newDecoder [([104, 46, 48], none)])).2.2 :=
  ((C13_decoder_state_bounded Armor.params62 (Basex.Enc.wf_of_check _ (by decide)) none).2 3 _
    ((C13_decoder_state_bounded Armor.params62 (Basex.Enc.wf_of_check _ (by decide)) none).1 _)).1
-- the armor writer: three writes (one empty) of a 3-byte payload give the one-shot text
example : (([[1], [], [2, 3]].foldl ArmState.write (ArmState.init Proofs.toyArm [72] [70])).close).out
    = Armor.sealText Proofs.toyArm [72] [70] [1, 2, 3] :=
  C13_armor_writer_independent Proofs.toyArm (Basex.Enc.wf_of_check _ (by decide)) (by decide) _ _ _

end Saltpack.Props.C13
