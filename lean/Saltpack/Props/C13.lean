/-
  Property C13 — results never depend on how input or output streams are
  fragmented; bounded buffering.  Statements only; proofs in
  Saltpack/Proofs/StreamLemmas.lean.

  What is proved here: the write side completely (the plaintext bufferer shared
  by the three encoder streams, the BaseX encoder stream); the read side as
  whole-stream theorems — the chunk reader (the `Read` side of all three
  receivers), the punctuated reader, and the COMPLETE armor reader stack
  (punctuatedReader → framedDecoderStream → filteringReader → BaseX decoder):
  `C13_armor_stream_is_whole_text`: for every script that delivers a text `T` in
  any fragments (also the last one together with EOF) and every schedule of
  positive caller buffer sizes, reading the stack to its end and asking for
  header/footer/brand (Go's `armorOpen`) succeeds exactly when the whole-text
  function `Armor.openPure T` (C11) does, with the same payload, brand, header
  and footer; `C13_armor_stream_independent`: hence two fragmentations and two
  buffer schedules agree; `C13_armor_released_comparable`: on failure too, the
  bytes released under different fragmentations are prefixes of one another
  (all are prefixes of `maxRelease T`).  Excluded scripts (`SrcOK`), each with a
  machine-checked counterexample in Proofs/Stack*.lean: empty non-terminal
  reads `(0, nil)` (Go's `ReadUntilPunctuation` turns one into
  `ErrUnexpectedEOF`; the property's quantifier excludes readers that return
  them forever, io.Reader discourages them), and data after the first reported
  condition.  WHICH error is reported for a malformed text can depend on the
  fragmentation (counterexample: `"h..f.!."` gives `punctuated` in one delivery
  and `trailingGarbage` byte by byte) — the property asks for the same *result*,
  and an error either way, which is what is proved.
-/
import Saltpack.Proofs.StreamLemmas
import Saltpack.Proofs.ChunkReaderAll
import Saltpack.Proofs.PunctAll
import Saltpack.Proofs.ArmorStack
import Saltpack.Proofs.ArmorStackFaults

namespace Saltpack.Props.C13
open Saltpack Saltpack.Stream Saltpack.Proofs

/-- **Write-split independence** of `NewEncryptStream`, `NewSignStream`,
    `NewSigncryptSealStream`: however the plaintext is split over `Write` calls
    (empty writes included), `Close` yields exactly the chunk plan of the
    all-at-once form — hence the same packets. -/
theorem C13_write_independent (bs : Nat) (hb : 0 < bs) (v : Version) (ws : List Bytes) :
    (ws.foldl Chunker.write ({ bs := bs } : Chunker)).close v = Encrypt.chunkPlan v bs ws.flatten :=
  chunker_any_split bs hb v ws

/-- two splits of the same plaintext give the same plan -/
theorem C13_two_splits_agree (bs : Nat) (hb : 0 < bs) (v : Version) (ws ws' : List Bytes)
    (h : ws.flatten = ws'.flatten) :
    (ws.foldl Chunker.write ({ bs := bs } : Chunker)).close v =
    (ws'.foldl Chunker.write ({ bs := bs } : Chunker)).close v := by
  rw [chunker_any_split bs hb, chunker_any_split bs hb, h]

/-- **Bounded buffering (writers)**: after every `Write` at most one block is
    buffered, whatever the total length of the message… -/
theorem C13_writer_buffer_bounded (c : Chunker) (hb : 0 < c.bs) (p : Bytes) : (c.write p).buf.length ≤ c.bs :=
  chunker_bounded c hb p

/-- …and no byte is lost or reordered on the way -/
theorem C13_writer_conserves (c : Chunker) (hb : 0 < c.bs) (p : Bytes) :
    (c.write p).emitted.flatten ++ (c.write p).buf = c.emitted.flatten ++ c.buf ++ p ∧ (c.write p).bs = c.bs :=
  chunker_conserves c hb p

/-- **BaseX encoder stream = one-shot encoding**, whatever the write split -/
theorem C13_basex_encoder_independent (enc : Basex.Enc) (he : enc.WF) (ws : List Bytes) :
    let s1 := ws.foldl (fun (s : EncState) w => (s.write w).2.2) ({ enc := enc } : EncState)
    let r := s1.close
    r.1 = true ∧ r.2.written.flatten = Basex.encode enc ws.flatten :=
  encStream_any_split enc he ws

theorem C13_basex_encoder_bounded (s : EncState) (hb : 0 < s.enc.blockLen) (hs : s.buf.length < s.enc.blockLen) (p : Bytes) :
    (s.write p).2.2.buf.length < s.enc.blockLen :=
  encStream_bounded s hb hs p

/-- **Chunk reader**: every `Read` hands out a prefix of what is pending, never
    more than the caller's buffer, and leaves the rest: whatever buffer sizes the
    caller uses, the plaintext chunks are delivered exactly once, in order… -/
theorem C13_chunk_reader_prefix (cap : Nat) (s : CRState Source)
    (hwf : ∀ p ∈ s.chunker, p.1 = [] → p.2 ≠ none) (d : Bytes) (e : Option RErr) (s' : CRState Source)
    (h : crRead Proofs.scriptNext cap (s.chunker.length + 3) s [] = (d, e, s')) :
    d.length ≤ cap ∧ crPending s = d ++ crPending s' ∧ (∀ p ∈ s'.chunker, p.1 = [] → p.2 ≠ none) :=
  crRead_prefix cap s hwf d e s' h

/-- …and the end-of-message or error condition is reported only after
    everything pending was delivered, and then again on every call -/
theorem C13_chunk_reader_terminal (cap : Nat) (s : CRState Source)
    (hwf : ∀ p ∈ s.chunker, p.1 = [] → p.2 ≠ none) (d : Bytes) (x : RErr) (s' : CRState Source)
    (h : crRead Proofs.scriptNext cap (s.chunker.length + 3) s [] = (d, some x, s')) :
    crPending s' = [] ∧ crRead Proofs.scriptNext cap (s'.chunker.length + 3) s' [] = ([], some x, s') :=
  crRead_terminal cap s hwf d x s' h

/-- **Reading to the end with any buffer sizes** (chunkReader, generic in the
    chunker — decrypt, verify and signcrypt-open all sit behind it): if the
    chunker hands out the chunks `cs` and then the condition `e` (no chunk
    before the last is empty — an empty chunk without a condition is the
    panic case C15 excludes), then for every schedule of positive buffer sizes
    the bytes returned by the successive `Read`s are exactly `cs.flatten`, the
    first condition reported is `e`, and the reader is left in its terminal
    state. -/
theorem C13_chunk_reader_all {σ : Type} (next : σ → Bytes × Option RErr × σ)
    (σ0 : σ) (n : Nat) (cs : List Bytes) (e : RErr)
    (htr : chunkTrace next n σ0 = (cs, some e)) (hne : ∀ c ∈ cs.dropLast, c ≠ [])
    (caps : List Nat) (hcaps : ∀ c ∈ caps, 0 < c)
    (inner : Nat) (hi : n + 1 ≤ inner) (fuel : Nat) (hf : cs.flatten.length + 1 ≤ fuel) :
    (crReadAll next caps inner fuel 0 { chunker := σ0 } []).1 = cs.flatten ∧
    (crReadAll next caps inner fuel 0 { chunker := σ0 } []).2.1 = some e ∧
    (crReadAll next caps inner fuel 0 { chunker := σ0 } []).2.2.prevChunk = [] ∧
    (crReadAll next caps inner fuel 0 { chunker := σ0 } []).2.2.prevErr = some e :=
  crReadAll_eq next σ0 n cs e htr hne caps hcaps inner hi fuel hf

/-- two buffer-size schedules give the same bytes and the same condition -/
theorem C13_chunk_reader_caps_independent {σ : Type} (next : σ → Bytes × Option RErr × σ)
    (σ0 : σ) (n : Nat) (cs : List Bytes) (e : RErr)
    (htr : chunkTrace next n σ0 = (cs, some e)) (hne : ∀ c ∈ cs.dropLast, c ≠ [])
    (caps caps' : List Nat) (hcaps : ∀ c ∈ caps, 0 < c) (hcaps' : ∀ c ∈ caps', 0 < c)
    (inner inner' : Nat) (hi : n + 1 ≤ inner) (hi' : n + 1 ≤ inner')
    (fuel fuel' : Nat) (hf : cs.flatten.length + 1 ≤ fuel) (hf' : cs.flatten.length + 1 ≤ fuel') :
    (crReadAll next caps inner fuel 0 { chunker := σ0 } []).1 =
      (crReadAll next caps' inner' fuel' 0 { chunker := σ0 } []).1 ∧
    (crReadAll next caps inner fuel 0 { chunker := σ0 } []).2.1 =
      (crReadAll next caps' inner' fuel' 0 { chunker := σ0 } []).2.1 :=
  crReadAll_caps_independent next σ0 n cs e htr hne caps caps' hcaps hcaps' inner inner' hi hi' fuel fuel' hf hf'

/-- a reported condition (other than the model's marker for the Go panic) is
    reported again, with no data, by every later `Read` of any size -/
theorem C13_chunk_reader_sticky {σ : Type} (next : σ → Bytes × Option RErr × σ)
    (cap inner : Nat) (s : CRState σ) (d : Bytes) (x : RErr) (s1 : CRState σ)
    (h : crRead next cap inner s [] = (d, some x, s1)) (hx : x ≠ crPanic)
    (cap' inner' : Nat) (hi : 1 ≤ inner') :
    crRead next cap' inner' s1 [] = ([], some x, s1) :=
  crRead_sticky next cap inner s d x s1 h hx cap' inner' hi

/-- **punctuatedReader, whole segments**: from any reachable (`WF`) state whose
    logical remaining input is `(t, c)` — buffered bytes, then what the
    underlying reader still delivers, ending in condition `c` — reading with
    any schedule of positive buffer sizes until a condition is reported yields:
    the text before the first period and `ErrPunctuated`, leaving exactly the
    text behind the period; or, without a period, all of `t` and then `c`.
    Nothing here depends on how the underlying reader fragments its deliveries
    (`s.text` is all that matters) or on the caller's buffer sizes. -/
theorem C13_punct_segment (caps : List Nat) (hpos : ∀ c ∈ caps, 0 < c) (s : PState) (hwf : s.WF)
    (fuel : Nat) (hfuel : s.cost < fuel) (k : Nat) (t : Bytes) (c : RErr) (ht : s.text = (t, c)) :
    (∀ a rest, t = a ++ Armor.period :: rest → Armor.period ∉ a →
      ∃ s1, pReadSeg caps fuel k s [] = (a, some punctErr, s1) ∧ s1.WF ∧ s1.text = (rest, c) ∧ s1.cost < s.cost) ∧
    (Armor.period ∉ t → ∃ s1, pReadSeg caps fuel k s [] = (t, some c, s1) ∧ s1.WF ∧ s1.buf = []) :=
  pReadSeg_eq caps hpos s hwf fuel hfuel k t c ht

/-- every state reached from a fresh reader is `WF`, a fresh reader's logical
    input is the script's text, and the model's own fuel suffices -/
theorem C13_punct_reachable (src : Source) (cap : Nat) (hcap : 0 < cap) (s : PState) (hwf : s.WF) :
    ({ src := src } : PState).WF ∧ ({ src := src } : PState).text = srcText src ∧
    (pRead cap s).2.2.WF ∧ s.cost < fuelOf s :=
  ⟨pWF_init src, ptext_init src, pWF_pRead cap hcap s hwf, cost_lt_fuelOf s⟩

/-- **fragmentation independence of the punctuated reader**: two scripts that
    deliver the same text with the same final condition, read with two
    schedules of buffer sizes, give the same segment and the same condition (and,
    when the segment ended at a period, states with the same remaining text) -/
theorem C13_punct_independent (src src' : Source) (h : srcText src = srcText src')
    (caps caps' : List Nat) (hpos : ∀ c ∈ caps, 0 < c) (hpos' : ∀ c ∈ caps', 0 < c)
    (fuel fuel' : Nat) (hfuel : srcCost src < fuel) (hfuel' : srcCost src' < fuel') :
    (pReadSeg caps fuel 0 { src := src } []).1 = (pReadSeg caps' fuel' 0 { src := src' } []).1 ∧
    (pReadSeg caps fuel 0 { src := src } []).2.1 = (pReadSeg caps' fuel' 0 { src := src' } []).2.1 :=
  let r := pReadSeg_independent src src' h caps caps' hpos hpos' fuel fuel' hfuel hfuel'
  ⟨r.1, r.2.1⟩

/-- **The armor reader stack computes the whole-text function**, whatever the
    fragmentation of the input and the caller's buffer sizes: `armorOpenStream`
    (read the decoder stack to its end with buffer schedule `caps`, then
    `GetHeader`/`GetFooter`/`GetBrand`) returns `o` exactly when
    `Armor.openPure` returns `o` on the text the script delivers. -/
theorem C13_armor_stream_is_whole_text (par : Armor.Params) (hpar : par.enc.WF) (expect : Armor.Expect)
    (src : Source) (T : Bytes) (hok : SrcOK src) (hsrc : srcText src = (T, .eof))
    (caps : List Nat) (hcaps : ∀ c ∈ caps, 0 < c) (fuel : Nat) (hfuel : T.length + 1 ≤ fuel) (o : Armor.Opened) :
    armorOpenStream par expect caps fuel src = .ok o ↔ Armor.openPure par expect T = .ok o :=
  armorOpenStream_ok_iff par hpar expect src T hok hsrc caps hcaps fuel hfuel o

/-- …for the shipped base62 armor -/
theorem C13_armor62_stream_is_whole_text (expect : Armor.Expect) (src : Source) (T : Bytes) (hok : SrcOK src)
    (hsrc : srcText src = (T, .eof)) (caps : List Nat) (hcaps : ∀ c ∈ caps, 0 < c) (fuel : Nat)
    (hfuel : T.length + 1 ≤ fuel) (o : Armor.Opened) :
    armorOpenStream Armor.params62 expect caps fuel src = .ok o ↔ Armor.open62 expect T = .ok o :=
  readAll_eq_open62 expect src T hok hsrc caps hcaps fuel hfuel o

/-- the bytes released by the `Read` calls themselves: exactly the payload and a
    clean end when the text is well-formed; an error is reported when the entry
    point checks frames (`expect = some typ`) and the text is not -/
theorem C13_armor_reads (par : Armor.Params) (hpar : par.enc.WF) (expect : Armor.Expect)
    (src : Source) (T : Bytes) (hok : SrcOK src) (hsrc : srcText src = (T, .eof))
    (caps : List Nat) (hcaps : ∀ c ∈ caps, 0 < c) (fuel : Nat) (hfuel : T.length + 1 ≤ fuel) :
    (∀ o, Armor.openPure par expect T = .ok o →
      (readAll par expect caps fuel 0 (newDecoder src) []).1 = o.payload ∧
      (readAll par expect caps fuel 0 (newDecoder src) []).2.1 = none) ∧
    (∀ typ e, expect = some typ → Armor.openPure par expect T = .error e →
      ∃ released e' d, readAll par expect caps fuel 0 (newDecoder src) [] = (released, some e', d)) := by
  refine ⟨fun o ho => ?_, fun typ e ht he => ?_⟩
  · have := readAll_independent par hpar expect src src T hok hok hsrc hsrc caps caps hcaps hcaps fuel fuel hfuel hfuel o ho
    exact ⟨this.1, this.2.2.1⟩
  · subst ht
    exact readAll_error_checked par hpar typ src T hok hsrc caps hcaps fuel hfuel e he

/-- **Fragmentation independence of dearmoring**: two scripts of the same text
    and two buffer schedules give the same result (`.toOption`: the same opened
    message, or an error in both) -/
theorem C13_armor_stream_independent (par : Armor.Params) (hpar : par.enc.WF) (expect : Armor.Expect)
    (src src' : Source) (T : Bytes) (hok : SrcOK src) (hok' : SrcOK src')
    (hsrc : srcText src = (T, .eof)) (hsrc' : srcText src' = (T, .eof))
    (caps caps' : List Nat) (hcaps : ∀ c ∈ caps, 0 < c) (hcaps' : ∀ c ∈ caps', 0 < c)
    (fuel fuel' : Nat) (hfuel : T.length + 1 ≤ fuel) (hfuel' : T.length + 1 ≤ fuel') :
    (armorOpenStream par expect caps fuel src).toOption = (armorOpenStream par expect caps' fuel' src').toOption :=
  armorOpenStream_independent par hpar expect src src' T hok hok' hsrc hsrc' caps caps' hcaps hcaps' fuel fuel' hfuel hfuel'

/-- **On failure, released bytes are prefixes of one another**: whatever the
    text (malformed or not), the bytes released under two fragmentations and two
    buffer schedules are comparable — both are prefixes of `maxRelease T`, a
    function of the text alone (and equal to it when the run ends cleanly) -/
theorem C13_armor_released_bounded (par : Armor.Params) (hpar : par.enc.WF) (expect : Armor.Expect)
    (src : Source) (T : Bytes) (hok : SrcOK src) (hsrc : srcText src = (T, .eof))
    (caps : List Nat) (hcaps : ∀ c ∈ caps, 0 < c) (fuel : Nat) (hfuel : T.length + 1 ≤ fuel) :
    (readAll par expect caps fuel 0 (newDecoder src) []).1 <+: maxRelease par expect T ∧
    ((readAll par expect caps fuel 0 (newDecoder src) []).2.1 = none →
      (readAll par expect caps fuel 0 (newDecoder src) []).1 = maxRelease par expect T) :=
  released_prefix_maxRelease par hpar expect src T hok hsrc caps hcaps fuel hfuel

theorem C13_armor_released_comparable (par : Armor.Params) (hpar : par.enc.WF) (expect : Armor.Expect)
    (src src' : Source) (T : Bytes) (hok : SrcOK src) (hok' : SrcOK src')
    (hsrc : srcText src = (T, .eof)) (hsrc' : srcText src' = (T, .eof))
    (caps caps' : List Nat) (hcaps : ∀ c ∈ caps, 0 < c) (hcaps' : ∀ c ∈ caps', 0 < c)
    (fuel fuel' : Nat) (hfuel : T.length + 1 ≤ fuel) (hfuel' : T.length + 1 ≤ fuel') :
    (readAll par expect caps fuel 0 (newDecoder src) []).1 <+: (readAll par expect caps' fuel' 0 (newDecoder src') []).1 ∨
    (readAll par expect caps' fuel' 0 (newDecoder src') []).1 <+: (readAll par expect caps fuel 0 (newDecoder src) []).1 :=
  released_prefix_comparable par hpar expect src src' T hok hok' hsrc hsrc' caps caps' hcaps hcaps' fuel fuel' hfuel hfuel'

/-- **Source model**: a `Read` takes a prefix of the data, at most the buffer
    size, and leaves the rest — fragmentations of the same bytes differ only in
    where the cuts fall -/
theorem C13_source_prefix (cap : Nat) (src : Source) :
    let r := srcRead cap src
    r.1.length ≤ cap ∧ srcData src = r.1 ++ (match r.2.1 with | some _ => [] | none => srcData r.2.2) :=
  srcRead_prefix cap src

/-- **Bounded buffering (readers)**: the BaseX decoder holds at most its input
    buffer and one scratch buffer, the punctuated reader one 4096-byte buffer,
    frames are collected up to 8192 bytes (generated constants) -/
theorem C13_reader_bounds : Armor.frameLim = 8192 ∧ dBufSize Gen.base62Std = 8192 * 32 := by decide

/-! ## non-vacuity -/
-- "h.00.f." delivered in two fragments, the second one together with EOF, read
-- with buffers of 3 and 1 bytes: the hypotheses are met and both sides are `ok`
example : armorOpenStream Armor.params62 none [3, 1] 8 [([104, 46, 48], none), ([48, 46, 102, 46], some .eof)]
    = .ok ⟨[0], [], [104], [102]⟩ :=
  (C13_armor62_stream_is_whole_text none _ Proofs.exTiny (by simp [SrcOK]) (by decide) [3, 1] (by decide) 8
    (by decide) _).mpr (by decide)
example :
    let r := crReadAll Proofs.scriptNext [2] 5 7 0 { chunker := [([1, 2, 3], none), ([4], none), ([5, 6], none)] } []
    (r.1, r.2.1) = ([1, 2, 3, 4, 5, 6], some .eof) := by decide
example : (([[1, 2, 3], [], [4]] : List Bytes).foldl Chunker.write ({ bs := 2 } : Chunker)).close v2 =
    [([1, 2], false), ([3, 4], true)] := by decide

end Saltpack.Props.C13
