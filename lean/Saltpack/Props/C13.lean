/-
  Property C13 — results never depend on how input or output streams are
  fragmented; bounded buffering.  Statements only; proofs in
  Saltpack/Proofs/StreamLemmas.lean.

  What is proved here: the write side completely (the plaintext bufferer shared
  by the three encoder streams, the BaseX encoder stream), the chunk reader, and
  the source model.  The armor *reader* stack (punctuatedReader →
  framedDecoderStream → filteringReader → BaseX decoder) is modelled call by
  call in Model/Stream.lean and compared with the implementation per `Read`
  under eight fragmentations × ten buffer-size schedules on genuine, re-flowed
  and malformed texts on every run; its whole-text meaning is `Armor.openPure`
  (C11).  A machine-checked layer theorem for that stack is not yet in place —
  MANIFEST labels this part `correspondence only`.
-/
import Saltpack.Proofs.StreamLemmas

namespace Saltpack.Props.C13
open Saltpack Saltpack.Stream Saltpack.Proofs

/-- **Write-split independence** of `NewEncryptStream`, `NewSignStream`,
    `NewSigncryptSealStream`: however the plaintext is split over `Write` calls
    (empty writes included), `Close` yields exactly the chunk plan of the
    all-at-once form — hence the same packets. -/
theorem C13_write_independent (bs : Nat) (hb : 0 < bs) (v : Version) (ws : List Bytes) :
    (ws.foldl Chunker.write ({ bs := bs } : Chunker)).close v = Encrypt.chunkPlan v bs ws.flatten :=
  chunker_any_split bs hb v ws

/-- two splits of the same plaintext give the same plan -/
theorem C13_two_splits_agree (bs : Nat) (hb : 0 < bs) (v : Version) (ws ws' : List Bytes)
    (h : ws.flatten = ws'.flatten) :
    (ws.foldl Chunker.write ({ bs := bs } : Chunker)).close v =
    (ws'.foldl Chunker.write ({ bs := bs } : Chunker)).close v := by
  rw [chunker_any_split bs hb, chunker_any_split bs hb, h]

/-- **Bounded buffering (writers)**: after every `Write` at most one block is
    buffered, whatever the total length of the message… -/
theorem C13_writer_buffer_bounded (c : Chunker) (hb : 0 < c.bs) (p : Bytes) : (c.write p).buf.length ≤ c.bs :=
  chunker_bounded c hb p

/-- …and no byte is lost or reordered on the way -/
theorem C13_writer_conserves (c : Chunker) (hb : 0 < c.bs) (p : Bytes) :
    (c.write p).emitted.flatten ++ (c.write p).buf = c.emitted.flatten ++ c.buf ++ p ∧ (c.write p).bs = c.bs :=
  chunker_conserves c hb p

/-- **BaseX encoder stream = one-shot encoding**, whatever the write split -/
theorem C13_basex_encoder_independent (enc : Basex.Enc) (he : enc.WF) (ws : List Bytes) :
    let s1 := ws.foldl (fun (s : EncState) w => (s.write w).2.2) ({ enc := enc } : EncState)
    let r := s1.close
    r.1 = true ∧ r.2.written.flatten = Basex.encode enc ws.flatten :=
  encStream_any_split enc he ws

theorem C13_basex_encoder_bounded (s : EncState) (hb : 0 < s.enc.blockLen) (hs : s.buf.length < s.enc.blockLen) (p : Bytes) :
    (s.write p).2.2.buf.length < s.enc.blockLen :=
  encStream_bounded s hb hs p

/-- **Chunk reader**: every `Read` hands out a prefix of what is pending, never
    more than the caller's buffer, and leaves the rest: whatever buffer sizes the
    caller uses, the plaintext chunks are delivered exactly once, in order… -/
theorem C13_chunk_reader_prefix (cap : Nat) (s : CRState Source)
    (hwf : ∀ p ∈ s.chunker, p.1 = [] → p.2 ≠ none) (d : Bytes) (e : Option RErr) (s' : CRState Source)
    (h : crRead Proofs.scriptNext cap (s.chunker.length + 3) s [] = (d, e, s')) :
    d.length ≤ cap ∧ crPending s = d ++ crPending s' ∧ (∀ p ∈ s'.chunker, p.1 = [] → p.2 ≠ none) :=
  crRead_prefix cap s hwf d e s' h

/-- …and the end-of-message or error condition is reported only after
    everything pending was delivered, and then again on every call -/
theorem C13_chunk_reader_terminal (cap : Nat) (s : CRState Source)
    (hwf : ∀ p ∈ s.chunker, p.1 = [] → p.2 ≠ none) (d : Bytes) (x : RErr) (s' : CRState Source)
    (h : crRead Proofs.scriptNext cap (s.chunker.length + 3) s [] = (d, some x, s')) :
    crPending s' = [] ∧ crRead Proofs.scriptNext cap (s'.chunker.length + 3) s' [] = ([], some x, s') :=
  crRead_terminal cap s hwf d x s' h

/-- **Source model**: a `Read` takes a prefix of the data, at most the buffer
    size, and leaves the rest — fragmentations of the same bytes differ only in
    where the cuts fall -/
theorem C13_source_prefix (cap : Nat) (src : Source) :
    let r := srcRead cap src
    r.1.length ≤ cap ∧ srcData src = r.1 ++ (match r.2.1 with | some _ => [] | none => srcData r.2.2) :=
  srcRead_prefix cap src

/-- **Bounded buffering (readers)**: the BaseX decoder holds at most its input
    buffer and one scratch buffer, the punctuated reader one 4096-byte buffer,
    frames are collected up to 8192 bytes (generated constants) -/
theorem C13_reader_bounds : Armor.frameLim = 8192 ∧ dBufSize Gen.base62Std = 8192 * 32 := by decide

/-! ## non-vacuity -/
example : (([[1, 2, 3], [], [4]] : List Bytes).foldl Chunker.write ({ bs := 2 } : Chunker)).close v2 =
    [([1, 2], false), ([3, 4], true)] := by decide

end Saltpack.Props.C13
