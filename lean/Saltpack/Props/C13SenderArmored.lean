/-
  Property C13 — write-split independence of the ARMORED sender streams
  (`NewEncryptArmor62Stream`, `NewSignArmor62Stream`,
  `NewSignDetachedArmor62Stream`, `NewSigncryptArmor62SealStream`: packet stream
  → go-codec → armor encoder stream → writer, `closeForwarder`), at byte level,
  UNCONDITIONALLY — the armored counterpart of Props/C13SenderFull.lean, which
  had this only for the four BINARY streams (audit finding 4; for the armored
  ones there was only `C14_*_armored_success_means_written`, i.e. under "every
  call reported success").

  The armor encoder stream `FArm` over a scripted writer with an exhausted
  fault script (`({} : Wr)`, every underlying `Write` succeeds) is itself a
  never-failing writer (`GoodWriter FArm.write GoodA`): every `Write` AND its
  `Close` succeed.  Hence, for EVERY plaintext and EVERY split into `Write`s:

    * both constructors succeed;
    * when the all-at-once binary message `M` exists every `Write` returns
      `(len p, nil)`, `Close` returns nil and the writer holds exactly
      `Armor.seal62 typ brand M`;
    * when it does not exist (a packet number is refused: `ErrPacketOverflow`)
      `Close` returns the error, the armor stream is not closed, and the writer
      holds the unclosed armor text of the packets before the refused one;
    * in both cases the bytes depend on the concatenation only: two splits of
      the same plaintext leave the SAME bytes, no hypothesis on what the calls
      returned.

  Proofs: Proofs/ArmoredSenderTotal.lean.  Checked against the real
  constructors by the correspondence streams `sender.split.*` (armored modes).
-/
import Saltpack.Proofs.ArmoredSenderTotal

namespace Saltpack.Props.C13
open Saltpack Saltpack.Sender Saltpack.Proofs Saltpack.Proofs.SenderP

/-- **the armor encoder stream over a never-failing writer never fails**: the
    `GoodWriter` instance for `FArm` (invariant `GoodA`: fault script below
    exhausted, `s.err` unset, BaseX encoder healthy), its `Close` succeeds too,
    and the constructor over `({} : Wr)` succeeds in such a state -/
theorem C13_armor_stream_never_fails :
    GoodWriter FArm.write GoodA ∧ (∀ a, GoodA a → a.close.1 = true) ∧
    (∀ par hdr ftr, (FArm.init par hdr ftr ({} : Wr)).1 = true ∧ GoodA (FArm.init par hdr ftr ({} : Wr)).2) :=
  ⟨farm_good, farm_close_good, farm_init_good⟩

/-- **Totality and the bytes of every armored run over a never-failing
    writer**, any packet-stream configuration meeting the side conditions the
    three instances meet, the shipped Armor62 parameters -/
theorem C13_armored_sender_stream_total (cfg : Cfg) (hp : ∀ b, (cfg.pieces b).flatten = b) (hb : 0 < cfg.bs)
    (hif : IndexFail cfg.pkt) (v : Version) (hv : cfg.v1shape = (v == v1)) (typ : Int) (brand : Bytes)
    (headerBytes : Bytes) (ws : List Bytes) :
    let a := FArm.init62 typ brand ({} : Wr)
    let i := PSt.init FArm.write cfg.pieces a.2 headerBytes
    let r := PSt.writes FArm.write cfg i.2 ws
    let c := armoredClose cfg r.2
    a.1 = true ∧ i.1 = true ∧
    (∀ B, planBytes cfg.pkt (Encrypt.chunkPlan v cfg.bs ws.flatten) 0 = .ok B →
      r.1 = ws.map (fun p => (p.length, none)) ∧ c.1 = none ∧
      c.2.codec.w.w.bytes = Armor.seal62 typ brand (headerPacket headerBytes ++ B)) ∧
    ((∀ B, planBytes cfg.pkt (Encrypt.chunkPlan v cfg.bs ws.flatten) 0 ≠ .ok B) →
      c.1 ≠ none ∧
      c.2.codec.w.w.bytes = armorUnclosed Armor.params62 (Armor.header typ brand) (Armor.footer typ brand)
        (headerPacket headerBytes ++ planOkBytes cfg.pkt (Encrypt.chunkPlan v cfg.bs ws.flatten) 0)) :=
  armored_run_good cfg hp hb hif v hv Armor.params62 (Basex.Enc.wf_of_check _ (by decide)) (by decide)
    (Armor.header typ brand) (Armor.footer typ brand) headerBytes ws

/-- **Two splits of the same plaintext, same armored bytes — unconditionally**:
    no hypothesis on what the calls returned, and also when a packet number is
    refused on the way. -/
theorem C13_armored_sender_stream_independent (cfg : Cfg) (hp : ∀ b, (cfg.pieces b).flatten = b) (hb : 0 < cfg.bs)
    (hif : IndexFail cfg.pkt) (v : Version) (hv : cfg.v1shape = (v == v1)) (typ : Int) (brand : Bytes)
    (headerBytes : Bytes) (ws ws' : List Bytes) (hsame : ws.flatten = ws'.flatten) :
    let a := FArm.init62 typ brand ({} : Wr)
    let i := PSt.init FArm.write cfg.pieces a.2 headerBytes
    (armoredClose cfg (PSt.writes FArm.write cfg i.2 ws).2).2.codec.w.w.bytes =
      (armoredClose cfg (PSt.writes FArm.write cfg i.2 ws').2).2.codec.w.w.bytes := by
  intro a i
  obtain ⟨_, _, h3, h4⟩ := C13_armored_sender_stream_total cfg hp hb hif v hv typ brand headerBytes ws
  obtain ⟨_, _, h3', h4'⟩ := C13_armored_sender_stream_total cfg hp hb hif v hv typ brand headerBytes ws'
  cases hB : planBytes cfg.pkt (Encrypt.chunkPlan v cfg.bs ws.flatten) 0 with
  | ok B =>
    rw [(h3 B hB).2.2, (h3' B (by rw [← hsame]; exact hB)).2.2]
  | error e =>
    have hno : ∀ B, planBytes cfg.pkt (Encrypt.chunkPlan v cfg.bs ws.flatten) 0 ≠ .ok B := by
      intro B h; rw [hB] at h; cases h
    rw [(h4 hno).2, (h4' (by rw [← hsame]; exact hno)).2, hsame]

/-- when the all-at-once binary form `M` exists: every call of every split
    reports success and the writer holds exactly `Armor.seal62 typ brand M` -/
theorem C13_armored_sender_stream_is_armor_of_oneShot (cfg : Cfg) (hp : ∀ b, (cfg.pieces b).flatten = b) (hb : 0 < cfg.bs)
    (hif : IndexFail cfg.pkt) (v : Version) (hv : cfg.v1shape = (v == v1)) (typ : Int) (brand : Bytes)
    (headerBytes : Bytes) (ws : List Bytes) (M : Bytes) (hM : oneShot cfg v headerBytes ws.flatten = .ok M) :
    let a := FArm.init62 typ brand ({} : Wr)
    let i := PSt.init FArm.write cfg.pieces a.2 headerBytes
    let r := PSt.writes FArm.write cfg i.2 ws
    let c := armoredClose cfg r.2
    a.1 = true ∧ i.1 = true ∧ r.1 = ws.map (fun p => (p.length, none)) ∧ c.1 = none ∧
      c.2.codec.w.w.bytes = Armor.seal62 typ brand M := by
  intro a i r c
  obtain ⟨B, hB, rfl⟩ := oneShot_ok cfg v headerBytes _ M hM
  obtain ⟨h1, h2, h3, _⟩ := C13_armored_sender_stream_total cfg hp hb hif v hv typ brand headerBytes ws
  obtain ⟨g1, g2, g3⟩ := h3 B hB
  exact ⟨h1, h2, g1, g2, g3⟩

/-! ## the four armored senders -/

/-- **`NewEncryptArmor62Stream` = armor of `Seal`, for every split**: the writer
    holds `Armor.seal62 typ brand (Encrypt.sealWith … (concatenated plaintext))`
    and every call reports success -/
theorem C13_encrypt_armored_is_armor_of_seal (P : Prims) (bs : Nat) (hb : 0 < bs) (pieces : Bytes → List Bytes)
    (hp : ∀ b, (pieces b).flatten = b) (v : Version) (sender : Option Bytes) (rs : List Encrypt.Recipient)
    (eph pk : Bytes) (hbytes : Bytes) (cfg : Cfg) (hs : encryptSetup P bs pieces v sender rs eph pk = .ok (hbytes, cfg))
    (typ : Int) (brand : Bytes) (ws : List Bytes) (M : Bytes)
    (hM : Encrypt.sealWith P bs v sender rs eph pk ws.flatten = .ok M) :
    let a := FArm.init62 typ brand ({} : Wr)
    let i := PSt.init FArm.write cfg.pieces a.2 hbytes
    let r := PSt.writes FArm.write cfg i.2 ws
    let c := armoredClose cfg r.2
    a.1 = true ∧ i.1 = true ∧ r.1 = ws.map (fun p => (p.length, none)) ∧ c.1 = none ∧
      c.2.codec.w.w.bytes = Armor.seal62 typ brand M := by
  have hcfg := encryptSetup_cfg P bs pieces v sender rs eph pk hbytes cfg hs
  obtain ⟨hb', cfg', hs', hone⟩ := (sealWith_iff_oneShot P bs pieces v sender rs eph pk ws.flatten M).1 hM
  rw [hs] at hs'
  injection hs' with hs'
  obtain ⟨rfl, rfl⟩ := Prod.mk.inj hs'
  exact C13_armored_sender_stream_is_armor_of_oneShot cfg (by rw [hcfg.2.1]; exact hp) (by rw [hcfg.1]; exact hb)
    hcfg.2.2.2 v hcfg.2.2.1 typ brand hbytes ws M hone

/-- `NewEncryptArmor62Stream`, two splits, same bytes — unconditionally -/
theorem C13_encrypt_armored_independent (P : Prims) (bs : Nat) (hb : 0 < bs) (pieces : Bytes → List Bytes)
    (hp : ∀ b, (pieces b).flatten = b) (v : Version) (sender : Option Bytes) (rs : List Encrypt.Recipient)
    (eph pk : Bytes) (hbytes : Bytes) (cfg : Cfg) (hs : encryptSetup P bs pieces v sender rs eph pk = .ok (hbytes, cfg))
    (typ : Int) (brand : Bytes) (ws ws' : List Bytes) (hsame : ws.flatten = ws'.flatten) :
    let a := FArm.init62 typ brand ({} : Wr)
    let i := PSt.init FArm.write cfg.pieces a.2 hbytes
    (armoredClose cfg (PSt.writes FArm.write cfg i.2 ws).2).2.codec.w.w.bytes =
      (armoredClose cfg (PSt.writes FArm.write cfg i.2 ws').2).2.codec.w.w.bytes := by
  have hcfg := encryptSetup_cfg P bs pieces v sender rs eph pk hbytes cfg hs
  exact C13_armored_sender_stream_independent cfg (by rw [hcfg.2.1]; exact hp) (by rw [hcfg.1]; exact hb)
    hcfg.2.2.2 v hcfg.2.2.1 typ brand hbytes ws ws' hsame

/-- **`NewSignArmor62Stream` = armor of `Sign` (attached), for every split** -/
theorem C13_sign_armored_is_armor_of_attached (P : Prims) (bs : Nat) (hb : 0 < bs) (pieces : Bytes → List Bytes)
    (hp : ∀ b, (pieces b).flatten = b) (v : Version) (signer nonce : Bytes) (hbytes : Bytes) (cfg : Cfg)
    (hs : signSetup P bs pieces v signer nonce = .ok (hbytes, cfg))
    (typ : Int) (brand : Bytes) (ws : List Bytes) (M : Bytes)
    (hM : Sign.attachedWith P bs v signer nonce ws.flatten = .ok M) :
    let a := FArm.init62 typ brand ({} : Wr)
    let i := PSt.init FArm.write cfg.pieces a.2 hbytes
    let r := PSt.writes FArm.write cfg i.2 ws
    let c := armoredClose cfg r.2
    a.1 = true ∧ i.1 = true ∧ r.1 = ws.map (fun p => (p.length, none)) ∧ c.1 = none ∧
      c.2.codec.w.w.bytes = Armor.seal62 typ brand M := by
  have hcfg := signSetup_cfg P bs pieces v signer nonce hbytes cfg hs
  obtain ⟨hb', cfg', hs', hone⟩ := (attachedWith_iff_oneShot P bs pieces v signer nonce ws.flatten M).1 hM
  rw [hs] at hs'
  injection hs' with hs'
  obtain ⟨rfl, rfl⟩ := Prod.mk.inj hs'
  exact C13_armored_sender_stream_is_armor_of_oneShot cfg (by rw [hcfg.2.1]; exact hp) (by rw [hcfg.1]; exact hb)
    hcfg.2.2.2 v hcfg.2.2.1 typ brand hbytes ws M hone

theorem C13_sign_armored_independent (P : Prims) (bs : Nat) (hb : 0 < bs) (pieces : Bytes → List Bytes)
    (hp : ∀ b, (pieces b).flatten = b) (v : Version) (signer nonce : Bytes) (hbytes : Bytes) (cfg : Cfg)
    (hs : signSetup P bs pieces v signer nonce = .ok (hbytes, cfg))
    (typ : Int) (brand : Bytes) (ws ws' : List Bytes) (hsame : ws.flatten = ws'.flatten) :
    let a := FArm.init62 typ brand ({} : Wr)
    let i := PSt.init FArm.write cfg.pieces a.2 hbytes
    (armoredClose cfg (PSt.writes FArm.write cfg i.2 ws).2).2.codec.w.w.bytes =
      (armoredClose cfg (PSt.writes FArm.write cfg i.2 ws').2).2.codec.w.w.bytes := by
  have hcfg := signSetup_cfg P bs pieces v signer nonce hbytes cfg hs
  exact C13_armored_sender_stream_independent cfg (by rw [hcfg.2.1]; exact hp) (by rw [hcfg.1]; exact hb)
    hcfg.2.2.2 v hcfg.2.2.1 typ brand hbytes ws ws' hsame

/-- **`NewSigncryptArmor62SealStream` = armor of `SigncryptSeal`, for every
    split** (the Go constructor passes `typ = MessageTypeEncryption`: see
    `Signcrypt.sealArmor62` / Props/C03Armored.lean) -/
theorem C13_signcrypt_armored_is_armor_of_seal (P : Prims) (bs : Nat) (hb : 0 < bs) (pieces : Bytes → List Bytes)
    (hp : ∀ b, (pieces b).flatten = b) (sender : Option Bytes) (rs : List Signcrypt.Recipient) (eph pk : Bytes)
    (hbytes : Bytes) (cfg : Cfg) (hs : signcryptSetup P bs pieces sender rs eph pk = .ok (hbytes, cfg))
    (typ : Int) (brand : Bytes) (ws : List Bytes) (M : Bytes)
    (hM : Signcrypt.sealWith P bs sender rs eph pk ws.flatten = .ok M) :
    let a := FArm.init62 typ brand ({} : Wr)
    let i := PSt.init FArm.write cfg.pieces a.2 hbytes
    let r := PSt.writes FArm.write cfg i.2 ws
    let c := armoredClose cfg r.2
    a.1 = true ∧ i.1 = true ∧ r.1 = ws.map (fun p => (p.length, none)) ∧ c.1 = none ∧
      c.2.codec.w.w.bytes = Armor.seal62 typ brand M := by
  have hcfg := signcryptSetup_cfg P bs pieces sender rs eph pk hbytes cfg hs
  obtain ⟨hb', cfg', hs', hone⟩ := (scSealWith_iff_oneShot P bs pieces sender rs eph pk ws.flatten M).1 hM
  rw [hs] at hs'
  injection hs' with hs'
  obtain ⟨rfl, rfl⟩ := Prod.mk.inj hs'
  exact C13_armored_sender_stream_is_armor_of_oneShot cfg (by rw [hcfg.2.1]; exact hp) (by rw [hcfg.1]; exact hb)
    hcfg.2.2.2 v2 hcfg.2.2.1 typ brand hbytes ws M hone

theorem C13_signcrypt_armored_independent (P : Prims) (bs : Nat) (hb : 0 < bs) (pieces : Bytes → List Bytes)
    (hp : ∀ b, (pieces b).flatten = b) (sender : Option Bytes) (rs : List Signcrypt.Recipient) (eph pk : Bytes)
    (hbytes : Bytes) (cfg : Cfg) (hs : signcryptSetup P bs pieces sender rs eph pk = .ok (hbytes, cfg))
    (typ : Int) (brand : Bytes) (ws ws' : List Bytes) (hsame : ws.flatten = ws'.flatten) :
    let a := FArm.init62 typ brand ({} : Wr)
    let i := PSt.init FArm.write cfg.pieces a.2 hbytes
    (armoredClose cfg (PSt.writes FArm.write cfg i.2 ws).2).2.codec.w.w.bytes =
      (armoredClose cfg (PSt.writes FArm.write cfg i.2 ws').2).2.codec.w.w.bytes := by
  have hcfg := signcryptSetup_cfg P bs pieces sender rs eph pk hbytes cfg hs
  exact C13_armored_sender_stream_independent cfg (by rw [hcfg.2.1]; exact hp) (by rw [hcfg.1]; exact hb)
    hcfg.2.2.2 v2 hcfg.2.2.1 typ brand hbytes ws ws' hsame

/-- **`NewSignDetachedArmor62Stream` = armor of `SignDetached`, for every
    split**: everything reports success and the writer holds the armor text of
    `Sign.detachedWith` of the concatenation (so two splits leave the same bytes) -/
theorem C13_detached_armored_is_armor_of_detached (P : Prims) (pieces : Bytes → List Bytes)
    (hp : ∀ b, (pieces b).flatten = b) (v : Version) (signer nonce : Bytes) (hbytes : Bytes) (sp : Bytes → Bytes)
    (hs : detachedSetup P v signer nonce = .ok (hbytes, sp)) (typ : Int) (brand : Bytes) (ws : List Bytes) :
    let a := FArm.init62 typ brand ({} : Wr)
    let i := DSt.init FArm.write pieces a.2 hbytes
    let r := DSt.writes i.2 ws
    let c := armoredCloseD pieces sp r.2
    a.1 = true ∧ i.1 = true ∧ r.1 = ws.map (fun p => (p.length, none)) ∧ c.1 = none ∧
      ∃ M, Sign.detachedWith P v signer nonce ws.flatten = .ok M ∧
        c.2.codec.w.w.bytes = Armor.seal62 typ brand M := by
  intro a i r c
  obtain ⟨h1, h2, h3, h4, h5⟩ := armored_det_good pieces hp sp Armor.params62 (Basex.Enc.wf_of_check _ (by decide))
    (by decide) (Armor.header typ brand) (Armor.footer typ brand) hbytes ws
  exact ⟨h1, h2, h3, h4, _, (detachedWith_iff P v signer nonce ws.flatten _).2 ⟨hbytes, sp, hs, rfl⟩, h5⟩

/-! ## non-vacuity (toy packet stream: blocks of 2 bytes, packet = number ‖ final flag ‖ chunk, one
     armor-stream `Write` per byte; the shipped Armor62 parameters; kernel-evaluated) -/

private def toyA : Cfg :=
  { bs := 2, v1shape := false, hasErr := true,
    pkt := fun i c f => .ok ([UInt8.ofNat i, if f then 1 else 0] ++ c), pieces := fun b => b.map ([·]) }

/-- refuses packet numbers ≥ 2 (stands for `ErrPacketOverflow`) -/
private def toyAOverflow : Cfg :=
  { toyA with pkt := fun i c f => if i < 2 then .ok ([UInt8.ofNat i, if f then 1 else 0] ++ c) else .error .packetOverflow }

private def runA (cfg : Cfg) (ws : List Bytes) : Bool × Bool × List (Nat × Option Err) × Option Err × Bytes :=
  let a := FArm.init62 0 [] ({} : Wr)
  let i := PSt.init FArm.write cfg.pieces a.2 [7]
  let r := PSt.writes FArm.write cfg i.2 ws
  let c := armoredClose cfg r.2
  (a.1, i.1, r.1, c.1, c.2.codec.w.w.bytes)

example : runA toyA [[1], [], [2, 3], [4], [], [5], []] =
    (true, true, [(1, none), (0, none), (2, none), (1, none), (0, none), (1, none), (0, none)], none,
      Armor.seal62 0 [] [0xc4, 1, 7, 0, 0, 1, 2, 1, 0, 3, 4, 2, 1, 5]) := by decide
example : oneShot toyA v2 [7] [1, 2, 3, 4, 5] = .ok [0xc4, 1, 7, 0, 0, 1, 2, 1, 0, 3, 4, 2, 1, 5] := by decide
/-- with a refused packet number: the calls fail (differently per split), `Close` reports the
    error, the BYTES agree and are the unclosed armor text of the packets before the refused one -/
example : (runA toyAOverflow [[1, 2, 3, 4, 5, 6, 7]]).2.2.2 =
    (some .packetOverflow, armorUnclosed Armor.params62 (Armor.header 0 []) (Armor.footer 0 [])
      [0xc4, 1, 7, 0, 0, 1, 2, 1, 0, 3, 4]) := by decide
example : (runA toyAOverflow [[1, 2, 3], [4, 5], [6], [7]]).2.2.2 =
    (some .packetOverflow, armorUnclosed Armor.params62 (Armor.header 0 []) (Armor.footer 0 [])
      [0xc4, 1, 7, 0, 0, 1, 2, 1, 0, 3, 4]) := by decide

end Saltpack.Props.C13
