/-
  C05 (attached-signature round trip) on the emitted BYTES through the byte-level
  verifier `Sign.verifyBytes` (Model/Front.lean) — the transfer of
  `C05_roundtrip_bytes` (stated for the spec-shaped split `Wire.splitSig`) to the
  Codec-first front end (repair R1): on what `Sign.attachedWith` emits go-codec's
  typed reader gives the same header read and packets as the spec-shaped one
  (`C09_bridge_seal_sig`).

  Statements only; proofs in Saltpack/Proofs/CodecBytesFront.lean, WireRT.lean.
-/
import Saltpack.Props.C05
import Saltpack.Proofs.CodecBytesFront

namespace Saltpack.Props.C05
open Saltpack Saltpack.Encrypt Saltpack.Proofs

/-- **The transfer**: a `Wire`-split all-at-once verification of a signed message
    is the byte-level verifier's result on these bytes -/
theorem C05_bytes_front_of_wire (P : Prims) (hP : P.Lawful) (bs : Nat) (hbs : 0 < bs) (hbs32 : bs < 2 ^ 32)
    (v : Version) (signer nonce msg : Bytes) (hn : nonce.length + 92 < 2 ^ 32)
    (out : Bytes) (hout : Sign.attachedWith P bs v signer nonce msg = .ok out)
    (valid : Validator) (kr : Keyring) (k m : Bytes)
    (hw : ∃ hr ps, Wire.splitSig out = .ok (hr, ps) ∧ Sign.verifyAll P valid kr hr ps = .ok (k, m)) :
    ∃ r, Sign.verifyBytes P valid kr out = .ok r ∧ r.err = none ∧ r.released = m ∧ r.signer = some k :=
  sig_bytes_front_of_wire P hP bs hbs hbs32 v signer nonce msg hn out hout valid kr k m hw

/-- on a signed message the front end reads exactly what the spec-shaped reader reads -/
theorem C05_front_is_wire_on_signed (P : Prims) (hP : P.Lawful) (bs : Nat) (hbs : 0 < bs) (hbs32 : bs < 2 ^ 32)
    (v : Version) (signer nonce msg : Bytes) (hn : nonce.length + 92 < 2 ^ 32)
    (out : Bytes) (hout : Sign.attachedWith P bs v signer nonce msg = .ok out)
    (x : HeaderRead SigHeader × PStream SigBlock) (hw : Wire.splitSig out = .ok x) :
    Codec.splitSig out = .ok x ∧ Front.readSig out = .ok x :=
  front_of_wire_sealed_sig P hP bs hbs hbs32 v signer nonce msg hn out hout x hw

/-- **Round trip on the emitted bytes through the front end**: what `Sign` emits
    verifies through `Sign.verifyBytes` — clean end, exactly the message, the signer's key -/
theorem C05_roundtrip_bytes_front (P : Prims) (hP : P.Lawful) (bs : Nat) (hbs : 0 < bs) (hbs32 : bs < 2 ^ 32)
    (v : Version) (hv : v = v1 ∨ v = v2) (signer nonce msg : Bytes) (hn : nonce.length + 92 < 2 ^ 32)
    (kr : Keyring) (hk : kr.lookupSigningPublicKey (P.sigPub signer) = some (P.sigPub signer))
    (out : Bytes) (hout : Sign.attachedWith P bs v signer nonce msg = .ok out) :
    ∃ r, Sign.verifyBytes P knownMajor kr out = .ok r ∧ r.err = none ∧ r.released = msg ∧
      r.signer = some (P.sigPub signer) :=
  sig_bytes_front_of_wire P hP bs hbs hbs32 v signer nonce msg hn out hout knownMajor kr _ _
    (C05_roundtrip_bytes P hP bs hbs hbs32 v hv signer nonce msg hn kr hk out hout)

/-! ## non-vacuity (kernel-evaluated): a toy-signed two-chunk message through the byte-level verifier -/

example : (match Sign.attachedWith Toy.prims 2 v2 [1] [2] [0x41, 0x42, 0x43] with
    | .ok out => (Sign.verifyBytes Toy.prims knownMajor ⟨fun _ => (-1, none), fun _ => none, [], fun _ => none, fun k => some k⟩
        out).toOption.map (fun r => (r.released, r.err, r.signer))
    | .error _ => none) = some ([0x41, 0x42, 0x43], none, some (Toy.prims.sigPub [1])) := by decide +kernel

end Saltpack.Props.C05
