/-
  C15 (byte-level front end) — WHEN does the typed-decoding model `Model/Codec.lean`
  give up?  `Codec.split*` (and with it `Front.read*`, the driver's `unmodelled`
  answer) returns `.error w` in documented cases only; this file bounds that set
  at the level of the REASON `w`, for every byte string:

  * `C15_front_fuel_sufficient` — fuel is never the reason: neither the packet loop's
    fuel `rest.length + 1` nor the inner fuel `fuelFor b = 2·|b| + 256` of the generic
    reader / `swallow` is ever exhausted (no `Codec.split*`, no `Front.read*`, no packet
    or header decoder ever answers `"fuel"`).  Behind it: every decoder of the model
    returns a suffix of its input, every packet decoder a STRICT suffix
    (`C15_front_packet_decode_progress` — the hypothesis `hprog` of
    `C15_blocks_unmodelled_partial`, now proved, see `C15_front_blocks_unmodelled`).
  * `C15_front_unmodelled_documented` — error provenance: `w` is one of the three
    documented reasons (`Documented w`): a container-typed struct field given twice in
    map form; a generic map with a repeated key whose first value is not a scalar; a
    generic map with two timestamp keys.  Each reason is the guard of exactly one
    branch of the model (`structMap`, `genMap`), and each is inhabited (examples).

  NOT proved: a characterisation by the SHAPE of the input ("every map has pairwise
  distinct keys ⇒ never unmodelled"); the reasons are tied to the shapes only through
  the guards of the two branches that emit them.

  Statements only; proofs in Saltpack/Proofs/CodecTotal*.lean.
-/
import Saltpack.Proofs.CodecTotalSplit
import Saltpack.Proofs.FrontSettle

namespace Saltpack.Props.C15
open Saltpack Saltpack.Proofs Saltpack.Proofs.CodecP

/-- the documented reasons for `unmodelled` (header of Model/Codec.lean); `"fuel"` is not one -/
abbrev Documented : String → Prop := CodecP.Doc

/-- **Every packet / header decode consumes at least one byte** (and the generic read of
    `assertEndOfStream` too): the progress hypothesis of `C15_blocks_unmodelled_partial`. -/
theorem C15_front_packet_decode_progress (b r : Bytes) :
    (∀ m x, Codec.decEncBlock m b = .ok (x, r) → r.length < b.length) ∧
    (∀ x, Codec.decSigncryptBlock b = .ok (x, r) → r.length < b.length) ∧
    (∀ m x, Codec.decSigBlock m b = .ok (x, r) → r.length < b.length) ∧
    (∀ x, Codec.decEncHeader b = .ok (x, r) → r.length < b.length) ∧
    (∀ x, Codec.decSigHeader b = .ok (x, r) → r.length < b.length) ∧
    (∀ x, Codec.decBytesTop b = .ok (x, r) → r.length < b.length) ∧
    (∀ x, Codec.generic b = .ok (x, r) → r.length < b.length) :=
  ⟨fun m x => Sp.progress (decEncBlock_sp m) b x r, fun x => Sp.progress decSigncryptBlock_sp b x r,
   fun m x => Sp.progress (decSigBlock_sp m) b x r, fun x => Sp.progress decEncHeader_sp b x r,
   fun x => Sp.progress decSigHeader_sp b x r, fun x => Sp.progress decBytesTop_sp b x r,
   fun x => Sp.progress generic_sp b x r⟩

/-- **Fuel is sufficient, for every byte string**: no decoder the stream level starts
    (with `fuelFor` of its own input) answers the fuel-exhaustion marker, the packet loop
    started with `rest.length + 1` does not, and so neither `Codec.split*` nor
    `Front.read*` ever answers `"fuel"`. -/
theorem C15_front_fuel_sufficient (msg : Bytes) :
    (∀ m, Codec.decEncBlock m msg ≠ .error (.unmodelled "fuel")) ∧
    Codec.decSigncryptBlock msg ≠ .error (.unmodelled "fuel") ∧
    (∀ m, Codec.decSigBlock m msg ≠ .error (.unmodelled "fuel")) ∧
    Codec.decEncHeader msg ≠ .error (.unmodelled "fuel") ∧
    Codec.decSigHeader msg ≠ .error (.unmodelled "fuel") ∧
    Codec.generic msg ≠ .error (.unmodelled "fuel") ∧
    (∀ m, Codec.blocks (Codec.decEncBlock m) (msg.length + 1) msg ≠ .error "fuel") ∧
    Codec.blocks Codec.decSigncryptBlock (msg.length + 1) msg ≠ .error "fuel" ∧
    (∀ m, Codec.blocks (Codec.decSigBlock m) (msg.length + 1) msg ≠ .error "fuel") ∧
    Codec.splitEnc msg ≠ .error "fuel" ∧ Codec.splitSigncrypt msg ≠ .error "fuel" ∧
    Codec.splitSig msg ≠ .error "fuel" ∧ Codec.splitDetached msg ≠ .error "fuel" ∧
    Front.readEnc msg ≠ .error "fuel" ∧ Front.readSigncrypt msg ≠ .error "fuel" ∧
    Front.readSig msg ≠ .error "fuel" ∧ Front.readDetached msg ≠ .error "fuel" :=
  ⟨fun m h => (Sp.doc (decEncBlock_sp m) _ _ h).ne_fuel rfl,
   fun h => (Sp.doc decSigncryptBlock_sp _ _ h).ne_fuel rfl,
   fun m h => (Sp.doc (decSigBlock_sp m) _ _ h).ne_fuel rfl,
   fun h => (Sp.doc decEncHeader_sp _ _ h).ne_fuel rfl,
   fun h => (Sp.doc decSigHeader_sp _ _ h).ne_fuel rfl,
   fun h => (Sp.doc generic_sp _ _ h).ne_fuel rfl,
   fun m => blocks_fuel_sufficient _ (decEncBlock_sp m) msg,
   blocks_fuel_sufficient _ decSigncryptBlock_sp msg,
   fun m => blocks_fuel_sufficient _ (decSigBlock_sp m) msg,
   fun h => (splitEnc_doc _ _ h).ne_fuel rfl, fun h => (splitSigncrypt_doc _ _ h).ne_fuel rfl,
   fun h => (splitSig_doc _ _ h).ne_fuel rfl, fun h => (splitDetached_doc _ _ h).ne_fuel rfl,
   fun h => (readEnc_doc _ _ h).ne_fuel rfl, fun h => (readSigncrypt_doc _ _ h).ne_fuel rfl,
   fun h => (readSig_doc _ _ h).ne_fuel rfl, fun h => (readDetached_doc _ _ h).ne_fuel rfl⟩

/-- **Error provenance, for every byte string and all four front ends**: when the typed
    reader (hence the front end) answers `unmodelled w`, `w` is a documented reason. -/
theorem C15_front_unmodelled_documented (msg : Bytes) (w : String) :
    (Codec.splitEnc msg = .error w → Documented w) ∧ (Codec.splitSigncrypt msg = .error w → Documented w) ∧
    (Codec.splitSig msg = .error w → Documented w) ∧ (Codec.splitDetached msg = .error w → Documented w) ∧
    (Front.readEnc msg = .error w → Documented w) ∧ (Front.readSigncrypt msg = .error w → Documented w) ∧
    (Front.readSig msg = .error w → Documented w) ∧ (Front.readDetached msg = .error w → Documented w) :=
  ⟨splitEnc_doc msg w, splitSigncrypt_doc msg w, splitSig_doc msg w, splitDetached_doc msg w,
   readEnc_doc msg w, readSigncrypt_doc msg w, readSig_doc msg w, readDetached_doc msg w⟩

/-- `Documented` is exactly the three reasons (so the statement above is not vacuous in `w`) -/
theorem C15_front_documented_iff (w : String) :
    Documented w ↔ w = "container field repeated in map form" ∨
      w = "generic map: a repeated key whose first value is not a scalar" ∨ w = "generic map with two timestamp keys" := by
  constructor
  · intro h; cases h <;> simp
  · rintro (rfl | rfl | rfl) <;> constructor

/-- `C15_blocks_unmodelled_partial` without its hypothesis, for the model's packet decoders:
    the packet loop answers `unmodelled w` only because one packet decode (typed, or generic
    after a typed decode error) did, with a documented reason. -/
theorem C15_front_blocks_unmodelled (rest : Bytes) (w : String) :
    (∀ m, Codec.blocks (Codec.decEncBlock m) (rest.length + 1) rest = .error w → Documented w) ∧
    (Codec.blocks Codec.decSigncryptBlock (rest.length + 1) rest = .error w → Documented w) ∧
    (∀ m, Codec.blocks (Codec.decSigBlock m) (rest.length + 1) rest = .error w → Documented w) :=
  ⟨fun m => blocks_doc _ (decEncBlock_sp m) _ rest w (Nat.lt_succ_self _),
   blocks_doc _ decSigncryptBlock_sp _ rest w (Nat.lt_succ_self _),
   fun m => blocks_doc _ (decSigBlock_sp m) _ rest w (Nat.lt_succ_self _)⟩

/-! ### each documented shape does produce `unmodelled` (kernel-evaluated) -/

/-- header packet = a map giving the container-typed field `vers` twice -/
def versTwice : Bytes :=
  [0xc4, 17, 0x82, 0xa4, 0x76, 0x65, 0x72, 0x73, 0x92, 0x01, 0x00, 0xa4, 0x76, 0x65, 0x72, 0x73, 0x92, 0x01, 0x00]

example : (match Codec.splitEnc versTwice with
    | .error w => w == "container field repeated in map form" | .ok _ => false) = true := by decide +kernel

/-- header `c0` (zero header), then a packet the typed decoder refuses (third key an int) whose
    generic read meets the key `"a"` twice, first value an array -/
def repeatedKey : Bytes := [0xc4, 1, 0xc0, 0x83, 0xa1, 0x61, 0x90, 0xa1, 0x61, 0x01, 0x01, 0x01]

example : (match Codec.splitSigncrypt repeatedKey with
    | .error w => w == "generic map: a repeated key whose first value is not a scalar" | .ok _ => false) = true := by
  decide +kernel

/-- … whose generic read meets two timestamp keys -/
def twoTimes : Bytes :=
  [0xc4, 1, 0xc0, 0x82, 0xd6, 0xff, 0, 0, 0, 0, 0x01, 0xd6, 0xff, 0, 0, 0, 0, 0x01]

example : (match Codec.splitSigncrypt twoTimes with
    | .error w => w == "generic map with two timestamp keys" | .ok _ => false) = true := by decide +kernel

end Saltpack.Props.C15
