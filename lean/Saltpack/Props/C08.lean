/-
  Property C08 — everything the library emits is the wire format the
  specification defines.  Statements only; proofs in Saltpack/Proofs/SpecEq.lean,
  MsgpackRT.lean, MsgpackMin.lean, ChunkPlan.lean.

  The chain: (1) `Seal`, `Sign`, `SignDetached`, `SigncryptSeal` and their
  streaming / armored forms are byte-identical to the code model's encoders
  (correspondence, scripted randomness; every run); (2) the code model's
  encoders are byte-identical, for ALL inputs, to the independent reference
  sender written from specs/*.md with its own constants (theorems below);
  (3) the bytes the implementation emits are parsed, fully authenticated — every
  recipient's authenticator on every packet — and decoded by the independent
  strict reference decoder `SpecDecode` (every run).
  KNOWN FINDING (D10): the random header nonce of signatures is 16 bytes where
  the signing specifications say 32 — `C08_sig_nonce_len_known_finding`; the
  conformance theorems for signatures therefore hold for whatever nonce is
  drawn (`_partial`: nonce length not as specified).
-/
import Saltpack.Proofs.SpecEq
import Saltpack.Proofs.MsgpackRT
import Saltpack.Proofs.MsgpackMin

namespace Saltpack.Props.C08
open Saltpack Saltpack.Spec Saltpack.Proofs

/-- the constants the code uses (generated from /repo) are the specification's -/
theorem C08_constants :
    Gen.c_sp_FormatName = sFormatName ∧
    mtEncryption = sModeEncryption ∧ mtAttached = sModeAttached ∧ mtDetached = sModeDetached ∧
    mtSigncryption = sModeSigncryption ∧
    Nonce.senderKeySecretBox = sNonceSenderKey ∧ Nonce.payloadKeyBoxV1 = sNoncePayloadKeyV1 ∧
    Nonce.derivedSharedKey = sNonceDerived ∧
    Gen.c_sp_signatureAttachedString = sSigAttached ∧ Gen.c_sp_signatureDetachedString = sSigDetached ∧
    Gen.c_sp_signatureEncryptedString = sSigEncrypted ∧
    Gen.c_sp_signcryptionBoxKeyIdentifierContext = sCtxBoxKeyIdentifier ∧
    Gen.c_sp_signcryptionSymmetricKeyContext = sCtxSymmetricKey ∧
    blockSize = 1048576 ∧ sigBlockSize = 1048576 :=
  spec_constants

theorem C08_nonces (i : Nat) (hh : Bytes) (f : Bool) :
    Nonce.payloadKeyBoxV2 i = sNonceRecip i ∧ Nonce.chunkSecretBox i = sNonceChunk i ∧
    Nonce.hashFlagCounter hh f i = sHashNonce hh f i ∧ finalByte f = sFinal f :=
  spec_nonces i hh f

/-- **Encryption V1/V2**: for every input, what the code model emits is exactly
    what the reference sender emits (twice-encoded header, specified nonces, key
    boxes, recipient identifiers, MAC inputs, packet field order, final flag). -/
theorem C08_conforms_encryption (P : Prims) (bs : Nat) (v : Version) (hv : v = v1 ∨ v = v2)
    (sender : Option Bytes) (rs : List Encrypt.Recipient) (eph pk pt out : Bytes)
    (h : Encrypt.sealWith P bs v sender rs eph pk pt = .ok out) :
    out = Spec.encodePlan P (layoutOf v) {} sender rs eph pk (Encrypt.chunkPlan v bs pt) :=
  spec_eq_encryption P bs v hv sender rs eph pk pt out h

/-- **Signcryption** -/
theorem C08_conforms_signcryption (P : Prims) (bs : Nat) (sender : Option Bytes) (rs : List Signcrypt.Recipient)
    (eph pk pt out : Bytes)
    (h : Signcrypt.sealWith P bs sender rs eph pk pt = .ok out) :
    out = Spec.signcryptPlan P {} sender rs eph pk (Encrypt.chunkPlan v2 bs pt) :=
  spec_eq_signcryption P bs sender rs eph pk pt out h

/-- **Attached signatures V1/V2** — partial: for whatever header nonce is drawn
    (its length is the known finding below) -/
theorem C08_conforms_attached_partial (P : Prims) (bs : Nat) (v : Version) (hv : v = v1 ∨ v = v2)
    (signer nonce msg out : Bytes)
    (h : Sign.attachedWith P bs v signer nonce msg = .ok out) :
    out = Spec.attachedPlan P (layoutOf v) {} signer nonce (Encrypt.chunkPlan v bs msg) :=
  spec_eq_attached P bs v hv signer nonce msg out h

/-- **Detached signatures V1/V2** — partial, as above -/
theorem C08_conforms_detached_partial (P : Prims) (v : Version) (hv : v = v1 ∨ v = v2) (signer nonce msg out : Bytes)
    (h : Sign.detachedWith P v signer nonce msg = .ok out) :
    out = Spec.detached P (layoutOf v) {} signer nonce msg :=
  spec_eq_detached P v hv signer nonce msg out h

/-- the full statement for signatures ("nonce is 32 random bytes") is FALSE of
    the code: it draws 16.  Recorded as a known finding, not repaired. -/
theorem C08_sig_nonce_len_known_finding :
    Sign.sigNonceLen = 16 ∧ Spec.sSigNonceLen = 32 ∧ Sign.sigNonceLen ≠ Spec.sSigNonceLen :=
  sig_nonce_len_differs

/-- **Chunks**: at most 1 MiB, the final marker on the last packet only, and
    they concatenate to the plaintext -/
theorem C08_chunks (v : Version) (pt : Bytes) :
    (∀ p ∈ Encrypt.chunkPlan v blockSize pt, p.1.length ≤ 1048576) ∧
    (∃ pre c, Encrypt.chunkPlan v blockSize pt = pre ++ [(c, true)] ∧ ∀ p ∈ pre, p.2 = false) ∧
    ((Encrypt.chunkPlan v blockSize pt).map (·.1)).flatten = pt :=
  go_plan_legal v pt

/-- **MessagePack round trip** (the name is historical): what is written parses
    back to exactly the value written, also when more bytes follow.  This is a
    round-trip statement ONLY: the parser is lenient (it accepts every
    MessagePack form, also non-minimal ones), so this theorem does not by itself
    say that the encoder picks the shortest form, nor anything about nil.
    Minimality is `C08_encode_is_shortest` (+ `C08_encode_is_shortest_prefix`,
    `C08_shortest_is_unique`); "byte strings are `bin`, the only nil ever written
    is the key id of a hidden recipient" is the family `C08_no_nil_bins_*`. -/
theorem C08_minimal_msgpack (v : Msgpack.Val) (hv : ValWF v) (rest : Bytes) :
    Msgpack.parse1 (Msgpack.encode v ++ rest) = .ok (v, rest) :=
  parse1_encode v hv rest

theorem C08_header_is_wf (h : EncHeader)
    (h1 : h.formatName.length < 2 ^ 32) (h2 : h.ephemeral.length < 2 ^ 32)
    (h3 : h.senderSecretbox.length < 2 ^ 32) (h4 : h.receivers.length < 2 ^ 32)
    (h5 : ∀ r ∈ h.receivers, r.box.length < 2 ^ 32 ∧ ∀ k, r.kid = some k → k.length < 2 ^ 32)
    (h6 : -(2 ^ 63 : Int) ≤ h.version.major ∧ h.version.major < 2 ^ 64)
    (h7 : -(2 ^ 63 : Int) ≤ h.version.minor ∧ h.version.minor < 2 ^ 64)
    (h8 : -(2 ^ 63 : Int) ≤ h.typ ∧ h.typ < 2 ^ 64) : ValWF h.toVal :=
  encHeader_wf h h1 h2 h3 h4 h5 h6 h7 h8

/-! ### minimal MessagePack encodings

  `Msgpack.parse1` accepts ALL MessagePack forms of a value (a 1-byte string may
  arrive as fixstr, str8, str16 or str32; 5 as a fixint or as `cc 05`, `cd 00 05`,
  `d0 05`, …).  `Msgpack.encode` — the encoder the sender models use for every
  packet — always produces a shortest one. -/

/-- **Minimal encodings**: among all byte strings that the (lenient) parser
    reads as the value `v`, the encoding the library emits is a shortest one. -/
theorem C08_encode_is_shortest :
    ∀ (b : Bytes) (v : Msgpack.Val), Msgpack.parse1 b = .ok (v, []) → ValWF v →
      (Msgpack.encode v).length ≤ b.length :=
  fun b v h hv => MsgpackMin.encode_is_shortest b v h hv

/-- the same inside a stream of objects: whatever prefix of `b` the parser
    consumes for `v`, it is at least as long as `encode v` -/
theorem C08_encode_is_shortest_prefix (b : Bytes) (v : Msgpack.Val) (rest : Bytes)
    (h : Msgpack.parse1 b = .ok (v, rest)) (hv : ValWF v) :
    (Msgpack.encode v).length + rest.length ≤ b.length :=
  MsgpackMin.parse_shortest _ b v rest h hv

/-- non-vacuity: a non-minimal form (str8 of "a", 3 bytes) is accepted by the
    parser as the same value that the encoder writes in 2 bytes (fixstr) -/
example : Msgpack.parse1 [0xd9, 0x01, 0x61] = .ok (.str [0x61], []) ∧
    Msgpack.encode (.str [0x61]) = [0xa1, 0x61] ∧ ValWF (.str [0x61]) :=
  ⟨by rfl, by rfl, ValWF.str _ (by simp)⟩

set_option maxRecDepth 4096 in
/-- non-minimal integer and bin forms are accepted too, the encoder writes the short ones -/
example : Msgpack.parse1 [0xcd, 0x00, 0x05] = .ok (.int 5, []) ∧ Msgpack.encode (.int 5) = [0x05] ∧
    Msgpack.parse1 [0xc5, 0x00, 0x01, 0x07] = .ok (.bin [0x07], []) ∧
    Msgpack.encode (.bin [0x07]) = [0xc4, 0x01, 0x07] :=
  ⟨by rfl, by rfl, by rfl, by rfl⟩

/-- **The shortest accepted encoding is unique** (= the canonical one), for
    trees whose integers are all below 256 (`smallInts`; negative integers are
    unrestricted).  All integers saltpack writes are version numbers and the
    message type (`C08_packets_have_small_ints`).
    The restriction is needed — see `C08_shortest_not_unique_for_wide_ints`. -/
theorem C08_shortest_is_unique (b : Bytes) (v : Msgpack.Val)
    (h : Msgpack.parse1 b = .ok (v, [])) (hv : ValWF v) (hsm : smallInts v = true)
    (hlen : b.length = (Msgpack.encode v).length) : b = Msgpack.encode v :=
  MsgpackMin.shortest_is_unique b v h hv hsm hlen

/-- without the restriction uniqueness is FALSE in MessagePack itself: a
    non-negative integer from 256 up has a signed form of the same length as the
    unsigned form the encoder (like go-codec) picks. -/
theorem C08_shortest_not_unique_for_wide_ints :
    Msgpack.parse1 [0xd1, 0x01, 0x00] = .ok (.int 256, []) ∧
    Msgpack.encode (.int 256) = [0xcd, 0x01, 0x00] ∧ ValWF (.int 256) :=
  MsgpackMin.shortest_not_unique_wide_int

theorem C08_packets_have_small_ints :
    (∀ h : EncHeader, h.version.major < 256 → h.version.minor < 256 → h.typ < 256 →
      smallInts h.toVal = true) ∧
    (∀ h : SigHeader, h.version.major < 256 → h.version.minor < 256 → h.typ < 256 →
      smallInts h.toVal = true) :=
  ⟨MsgpackMin.smallInts_encHeader, MsgpackMin.smallInts_sigHeader⟩

/-! ### byte strings are `bin`; the only nil is the key id of a hidden recipient

  Stated on the trees (`toVal`) that the sender models hand to `encode`:
  `nilFree t` = there is no `nil` anywhere in `t`.  Every byte-string field is a
  `.bin` node by construction of `toVal`; the only `toVal` that can produce
  `.nil` is `optBin none` — the key id of a receiver pair — and `encBlockVal` for
  an EMPTY authenticator list (Go's nil slice), which the receiver check rules
  out (`C08_no_nil_bins_enc_payload_sealed`). -/

/-- signature headers (attached and detached): never a nil -/
theorem C08_no_nil_bins_sig_header (h : SigHeader) : nilFree h.toVal = true :=
  MsgpackMin.nilFree_sigHeader h

/-- encryption / signcryption headers: the five leading fields are never nil;
    each receiver is the pair `[key id or nil, box]`, with nil exactly for
    `kid = none` -/
theorem C08_no_nil_bins_enc_header_shape (h : EncHeader) :
    ∃ f0 f1 f2 f3 f4,
      h.toVal = .arr [f0, f1, f2, f3, f4, .arr (h.receivers.map RecvKeys.toVal)] ∧
      nilFree f0 = true ∧ nilFree f1 = true ∧ nilFree f2 = true ∧ nilFree f3 = true ∧
      nilFree f4 = true ∧
      ∀ r ∈ h.receivers, r.toVal = .arr [optBin r.kid, .bin r.box] ∧
        (optBin r.kid = .nil ↔ r.kid = none) :=
  MsgpackMin.encHeader_shape h

/-- … hence the header tree is nil-free iff no receiver has a nil key id -/
theorem C08_no_nil_bins_enc_header_iff (h : EncHeader) :
    nilFree h.toVal = true ↔ ∀ r ∈ h.receivers, r.kid ≠ none :=
  MsgpackMin.nilFree_encHeader_iff h

/-- encryption V1/V2, the header the sender model builds: the key id at position
    `j` is nil exactly when the `j`-th recipient is a hidden one -/
theorem C08_no_nil_bins_enc_header_sender (P : Prims) (v : Version) (sender : Option Bytes)
    (eph pk : Bytes) (rs : List Encrypt.Recipient) (h : EncHeader) :
    Encrypt.header P v sender eph pk rs = .ok h → (v = v1 ∨ v = v2) →
    ∀ (j : Nat) (r : RecvKeys), h.receivers[j]? = some r →
      (r.kid = none ↔ (rs.getD j default).hidden = true) :=
  MsgpackMin.enc_header_kid_nil_iff P v sender eph pk rs h

/-- … so it contains a nil iff some recipient is hidden -/
theorem C08_no_nil_bins_enc_header_sender_iff (P : Prims) (v : Version) (sender : Option Bytes)
    (eph pk : Bytes) (rs : List Encrypt.Recipient) (h : EncHeader)
    (hh : Encrypt.header P v sender eph pk rs = .ok h) (hv : v = v1 ∨ v = v2) :
    nilFree h.toVal = true ↔ ∀ r ∈ rs, r.hidden = false :=
  MsgpackMin.enc_header_nilFree_iff P v sender eph pk rs h hh hv

/-- signcryption: every receiver carries an identifier, the header has no nil -/
theorem C08_no_nil_bins_signcrypt_header (P : Prims) (sender : Option Bytes) (eph pk : Bytes)
    (rs : List Signcrypt.Recipient) :
    (∀ r ∈ (Signcrypt.header P sender eph pk rs).receivers, r.kid ≠ none) ∧
    nilFree (Signcrypt.header P sender eph pk rs).toVal = true :=
  ⟨MsgpackMin.sc_header_kid_ne_none P sender eph pk rs, MsgpackMin.sc_header_nilFree P sender eph pk rs⟩

/-- encryption payload packets: nil-free as soon as there is an authenticator.
    (`encBlockVal` writes nil for an EMPTY authenticator list — second clause —
    which cannot happen after `checkReceivers`: next theorem.) -/
theorem C08_no_nil_bins_enc_payload (v : Version) (auths : List Bytes) (ct : Bytes) (f : Bool)
    (val : Msgpack.Val) :
    (encBlockVal v auths ct f = .ok val → auths ≠ [] → nilFree val = true) ∧
    (encBlockVal v2 [] ct f = .ok (.arr [.bool f, .nil, .bin ct]) ∧
      nilFree (.arr [.bool f, .nil, .bin ct]) = false) :=
  ⟨MsgpackMin.encBlockVal_nilFree v auths ct f val, MsgpackMin.encBlockVal_empty_has_nil ct f⟩

/-- packets built by `Encrypt.blockStructs` from a non-empty MAC-key list have a
    non-empty authenticator list -/
theorem C08_no_nil_bins_enc_blocks (P : Prims) (v : Version) (pk hh : Bytes) (mks : List Bytes)
    (hm : mks ≠ []) (plan : List (Bytes × Bool)) (k : Nat) (blks : List EncBlock)
    (h : Encrypt.blockStructs P v pk hh mks plan k = .ok blks) :
    ∀ b ∈ blks, b.auths ≠ [] :=
  MsgpackMin.enc_blockStructs_auths_ne_nil P v pk hh mks hm plan k blks h

/-- every payload packet of a sealed encryption message is nil-free -/
theorem C08_no_nil_bins_enc_payload_sealed (P : Prims) (bs : Nat) (v : Version)
    (sender : Option Bytes) (rs : List Encrypt.Recipient) (eph pk pt : Bytes)
    (h : EncHeader) (hb : Bytes) (blks : List EncBlock)
    (hseal : Encrypt.sealPackets P bs v sender rs eph pk pt = .ok (h, hb, blks)) :
    ∀ b ∈ blks, b.auths ≠ [] ∧
      ∀ val, encBlockVal v b.auths b.ct b.final = .ok val → nilFree val = true :=
  MsgpackMin.enc_sealPackets_nilFree P bs v sender rs eph pk pt h hb blks hseal

theorem C08_no_nil_bins_signcrypt_payload (ct : Bytes) (f : Bool) :
    nilFree (signcryptBlockVal ct f) = true :=
  MsgpackMin.signcryptBlockVal_nilFree ct f

theorem C08_no_nil_bins_sig_payload (v : Version) (sig chunk : Bytes) (f : Bool) (val : Msgpack.Val)
    (h : sigBlockVal v sig chunk f = .ok val) : nilFree val = true :=
  MsgpackMin.sigBlockVal_nilFree v sig chunk f val h

/-- non-vacuity: a header with one hidden recipient does contain a nil, one with
    a named recipient does not -/
example :
    nilFree (EncHeader.toVal ⟨[0x73], v2, 0, [1], [2], [⟨none, [3]⟩]⟩) = false ∧
    nilFree (EncHeader.toVal ⟨[0x73], v2, 0, [1], [2], [⟨some [9], [3]⟩]⟩) = true :=
  ⟨by decide, by decide⟩

end Saltpack.Props.C08
