/-
  Property C08 — everything the library emits is the wire format the
  specification defines.  Statements only; proofs in Saltpack/Proofs/SpecEq.lean,
  MsgpackRT.lean, ChunkPlan.lean.

  The chain: (1) `Seal`, `Sign`, `SignDetached`, `SigncryptSeal` and their
  streaming / armored forms are byte-identical to the code model's encoders
  (correspondence, scripted randomness; every run); (2) the code model's
  encoders are byte-identical, for ALL inputs, to the independent reference
  sender written from specs/*.md with its own constants (theorems below);
  (3) the bytes the implementation emits are parsed, fully authenticated — every
  recipient's authenticator on every packet — and decoded by the independent
  strict reference decoder `SpecDecode` (every run).
  KNOWN FINDING (D10): the random header nonce of signatures is 16 bytes where
  the signing specifications say 32 — `C08_sig_nonce_len_known_finding`; the
  conformance theorems for signatures therefore hold for whatever nonce is
  drawn (`_partial`: nonce length not as specified).
-/
import Saltpack.Proofs.SpecEq
import Saltpack.Proofs.MsgpackRT

namespace Saltpack.Props.C08
open Saltpack Saltpack.Spec Saltpack.Proofs

/-- the constants the code uses (generated from /repo) are the specification's -/
theorem C08_constants :
    Gen.c_sp_FormatName = sFormatName ∧
    mtEncryption = sModeEncryption ∧ mtAttached = sModeAttached ∧ mtDetached = sModeDetached ∧
    mtSigncryption = sModeSigncryption ∧
    Nonce.senderKeySecretBox = sNonceSenderKey ∧ Nonce.payloadKeyBoxV1 = sNoncePayloadKeyV1 ∧
    Nonce.derivedSharedKey = sNonceDerived ∧
    Gen.c_sp_signatureAttachedString = sSigAttached ∧ Gen.c_sp_signatureDetachedString = sSigDetached ∧
    Gen.c_sp_signatureEncryptedString = sSigEncrypted ∧
    Gen.c_sp_signcryptionBoxKeyIdentifierContext = sCtxBoxKeyIdentifier ∧
    Gen.c_sp_signcryptionSymmetricKeyContext = sCtxSymmetricKey ∧
    blockSize = 1048576 ∧ sigBlockSize = 1048576 :=
  spec_constants

theorem C08_nonces (i : Nat) (hh : Bytes) (f : Bool) :
    Nonce.payloadKeyBoxV2 i = sNonceRecip i ∧ Nonce.chunkSecretBox i = sNonceChunk i ∧
    Nonce.hashFlagCounter hh f i = sHashNonce hh f i ∧ finalByte f = sFinal f :=
  spec_nonces i hh f

/-- **Encryption V1/V2**: for every input, what the code model emits is exactly
    what the reference sender emits (twice-encoded header, specified nonces, key
    boxes, recipient identifiers, MAC inputs, packet field order, final flag). -/
theorem C08_conforms_encryption (P : Prims) (bs : Nat) (v : Version) (hv : v = v1 ∨ v = v2)
    (sender : Option Bytes) (rs : List Encrypt.Recipient) (eph pk pt out : Bytes)
    (h : Encrypt.sealWith P bs v sender rs eph pk pt = .ok out) :
    out = Spec.encodePlan P (layoutOf v) {} sender rs eph pk (Encrypt.chunkPlan v bs pt) :=
  spec_eq_encryption P bs v hv sender rs eph pk pt out h

/-- **Signcryption** -/
theorem C08_conforms_signcryption (P : Prims) (bs : Nat) (sender : Option Bytes) (rs : List Signcrypt.Recipient)
    (eph pk pt out : Bytes)
    (h : Signcrypt.sealWith P bs sender rs eph pk pt = .ok out) :
    out = Spec.signcryptPlan P {} sender rs eph pk (Encrypt.chunkPlan v2 bs pt) :=
  spec_eq_signcryption P bs sender rs eph pk pt out h

/-- **Attached signatures V1/V2** — partial: for whatever header nonce is drawn
    (its length is the known finding below) -/
theorem C08_conforms_attached_partial (P : Prims) (bs : Nat) (v : Version) (hv : v = v1 ∨ v = v2)
    (signer nonce msg out : Bytes)
    (h : Sign.attachedWith P bs v signer nonce msg = .ok out) :
    out = Spec.attachedPlan P (layoutOf v) {} signer nonce (Encrypt.chunkPlan v bs msg) :=
  spec_eq_attached P bs v hv signer nonce msg out h

/-- **Detached signatures V1/V2** — partial, as above -/
theorem C08_conforms_detached_partial (P : Prims) (v : Version) (hv : v = v1 ∨ v = v2) (signer nonce msg out : Bytes)
    (h : Sign.detachedWith P v signer nonce msg = .ok out) :
    out = Spec.detached P (layoutOf v) {} signer nonce msg :=
  spec_eq_detached P v hv signer nonce msg out h

/-- the full statement for signatures ("nonce is 32 random bytes") is FALSE of
    the code: it draws 16.  Recorded as a known finding, not repaired. -/
theorem C08_sig_nonce_len_known_finding :
    Sign.sigNonceLen = 16 ∧ Spec.sSigNonceLen = 32 ∧ Sign.sigNonceLen ≠ Spec.sSigNonceLen :=
  sig_nonce_len_differs

/-- **Chunks**: at most 1 MiB, the final marker on the last packet only, and
    they concatenate to the plaintext -/
theorem C08_chunks (v : Version) (pt : Bytes) :
    (∀ p ∈ Encrypt.chunkPlan v blockSize pt, p.1.length ≤ 1048576) ∧
    (∃ pre c, Encrypt.chunkPlan v blockSize pt = pre ++ [(c, true)] ∧ ∀ p ∈ pre, p.2 = false) ∧
    ((Encrypt.chunkPlan v blockSize pt).map (·.1)).flatten = pt :=
  go_plan_legal v pt

/-- **Minimal MessagePack**: what is written parses back to exactly the value
    written — the encoder is the canonical (shortest-form) one, byte strings are
    `bin` (the only nil ever written is the key id of a hidden recipient) -/
theorem C08_minimal_msgpack (v : Msgpack.Val) (hv : ValWF v) (rest : Bytes) :
    Msgpack.parse1 (Msgpack.encode v ++ rest) = .ok (v, rest) :=
  parse1_encode v hv rest

theorem C08_header_is_wf (h : EncHeader)
    (h1 : h.formatName.length < 2 ^ 32) (h2 : h.ephemeral.length < 2 ^ 32)
    (h3 : h.senderSecretbox.length < 2 ^ 32) (h4 : h.receivers.length < 2 ^ 32)
    (h5 : ∀ r ∈ h.receivers, r.box.length < 2 ^ 32 ∧ ∀ k, r.kid = some k → k.length < 2 ^ 32)
    (h6 : -(2 ^ 63 : Int) ≤ h.version.major ∧ h.version.major < 2 ^ 64)
    (h7 : -(2 ^ 63 : Int) ≤ h.version.minor ∧ h.version.minor < 2 ^ 64)
    (h8 : -(2 ^ 63 : Int) ≤ h.typ ∧ h.typ < 2 ^ 64) : ValWF h.toVal :=
  encHeader_wf h h1 h2 h3 h4 h5 h6 h7 h8

end Saltpack.Props.C08
