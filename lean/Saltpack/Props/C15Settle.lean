/-
  C15 (byte-level front end) — `Front.settle` NEVER changes what a receiver observes.

  `Codec.blocks` stops at the first position where a TYPED packet read fails and reports that
  read's condition as the tail.  A receiver consults that position in one of two ways: it still
  expects a packet (typed read: `Codec`'s tail), or it has accepted a final packet and
  `assertEndOfStream` makes a GENERIC read there.  `Front.settle` picks the tail by looking at
  the last decoded packet only.  The REFERENCE composition (`Settle.refOpenEnc`, `refOpenSc`,
  `refVerify`, built on `Settle.runEnc2 / runSc2 / runSig2`: the receivers' own `run` with TWO
  tails, the typed one in the `[]` case and the generic one — `Settle.genericTailOf`, the same walk
  as `Codec.blocks`, asking `Codec.generic` at the stop — inside `endOfStream` after a final packet)
  makes no such choice: each read finds its own condition.

  Theorems (for EVERY byte string `Codec` answers on, every primitive record, keyring, validator,
  resolver): the receiver's whole result on the settled stream (released bytes, error, key calls,
  sender / signer / key info) IS the result of the reference composition:

    `C15_settle_transparent_decrypt`, `C15_settle_transparent_signcrypt`, `C15_settle_transparent_verify`

  They cover all three situations at once; the case lemmas behind them are restated as
    `C15_settle_case1_identity`        no final packet at the end of the decoded ones: `settle` is the identity
    `C15_settle_case2_last_final`      last decoded packet final: the typed tail is never consulted
    `C15_settle_case13_tail_independent`  last decoded item not a final packet (none at all, or a final one
                                       followed by more items): the generic tail is never consulted — a final
                                       packet further left answers trailing garbage whatever the tail
    `C15_settle_tails_at_stop`         both tails read off `dec` / `Codec.generic` AT the stop position (no walk)
    `C15_settle_generic_tail`          bridge: `truncatedStop` ⇔ the two tails differ (typed: decode error, generic: clean end)

  When `Codec` answers `unmodelled`, `settle` passes the error through (`Front.settle … (.error w) = .error w`,
  by definition) and `Wire` is consulted: `Wire`'s answers are not settled and are outside these statements.
  Statements only; proofs in Saltpack/Proofs/FrontSettle.lean.
-/
import Saltpack.Proofs.FrontSettle
import Saltpack.Proofs.CodecBytesAuth
import Saltpack.Toy

namespace Saltpack.Props.C15
open Saltpack Saltpack.Proofs Saltpack.Proofs.Settle

/-- the packet decoders `Codec.splitEnc` / `Codec.splitSig` choose from the header -/
abbrev encDecB : EncHeader → Option (Codec.Dec EncBlock) :=
  fun h => if Codec.majorOK h.version.major then some (Codec.decEncBlock h.version.major) else none
abbrev sigDecB : SigHeader → Option (Codec.Dec SigBlock) :=
  fun h => if Codec.majorOK h.version.major then some (Codec.decSigBlock h.version.major) else none

/-- **Decryption: the result on the settled stream is the reference composition's.** -/
theorem C15_settle_transparent_decrypt (P : Prims) (valid : Validator) (kr : Keyring) (msg : Bytes)
    (hr : HeaderRead EncHeader) (ps : PStream EncBlock) (h : Codec.splitEnc msg = .ok (hr, ps)) :
    Decrypt.openBytes P valid kr msg =
      .ok (refOpenEnc P valid kr hr ps.items ps.tail (genericTailOf Codec.decEncHeader encDecB msg)) :=
  settle_transparent_enc P valid kr msg hr ps h

/-- **Signcryption: the result on the settled stream is the reference composition's.** -/
theorem C15_settle_transparent_signcrypt (P : Prims) (kr : Keyring) (res : Signcrypt.Resolver) (msg : Bytes)
    (hr : HeaderRead EncHeader) (ps : PStream SigncryptBlock) (h : Codec.splitSigncrypt msg = .ok (hr, ps)) :
    Signcrypt.openBytes P kr res msg =
      .ok (refOpenSc P kr res hr ps.items ps.tail
            (genericTailOf Codec.decEncHeader (fun _ => some Codec.decSigncryptBlock) msg)) :=
  settle_transparent_sc P kr res msg hr ps h

/-- **Attached signatures: the result on the settled stream is the reference composition's.** -/
theorem C15_settle_transparent_verify (P : Prims) (valid : Validator) (kr : Keyring) (msg : Bytes)
    (hr : HeaderRead SigHeader) (ps : PStream SigBlock) (h : Codec.splitSig msg = .ok (hr, ps)) :
    Sign.verifyBytes P valid kr msg =
      .ok (refVerify P valid kr hr ps.items ps.tail (genericTailOf Codec.decSigHeader sigDecB msg)) :=
  settle_transparent_sig P valid kr msg hr ps h

/-- case 1 — the last decoded item is not a final packet (in particular: no final packet among
    the decoded ones, or no packet at all): `settle` hands `Codec`'s answer over unchanged -/
theorem C15_settle_case1_identity {η β : Type} (decH : Codec.Dec η) (decB : η → Option (Codec.Dec β)) (fin : η → β → Bool)
    (msg hb : Bytes) (h : η) (ps : PStream β) (hl : Front.lastFinal (fin h) ps.items = false) :
    Front.settle decH decB fin msg (.ok (.ok hb h, ps)) = .ok (.ok hb h, ps) :=
  settle_of_not_lastFinal decH decB fin msg hb h ps hl

/-- case 2 — the last decoded packet is final: the reference run never consults the typed tail;
    it is the receiver's run with the generic tail in its place (three receivers) -/
theorem C15_settle_case2_last_final (P : Prims) (typed generic : Tail) (n : Nat) :
    (∀ (s : Decrypt.State) items, Front.lastFinal (Decrypt.blockFinal s.version) items = true →
      runEnc2 P s items typed generic n = Decrypt.run P s items generic n) ∧
    (∀ (s : Signcrypt.State) items, Front.lastFinal (fun b : SigncryptBlock => b.final) items = true →
      runSc2 P s items typed generic n = Signcrypt.run P s items generic n) ∧
    (∀ (s : Sign.State) items, Front.lastFinal (Sign.blockFinal s.version) items = true →
      runSig2 P s items typed generic n = Sign.run P s items generic n) :=
  ⟨fun s items hl => runEnc2_lastFinal P s items typed generic n hl,
   fun s items hl => runSc2_lastFinal P s items typed generic n hl,
   fun s items hl => runSig2_lastFinal P s items typed generic n hl⟩

/-- cases 1 and 3 — the last decoded item is not a final packet: the reference run never consults
    the generic tail (a final packet followed by further items answers trailing garbage from the
    items; otherwise the run ends at a typed read) -/
theorem C15_settle_case13_tail_independent (P : Prims) (typed generic : Tail) (n : Nat) :
    (∀ (s : Decrypt.State) items, Front.lastFinal (Decrypt.blockFinal s.version) items = false →
      runEnc2 P s items typed generic n = Decrypt.run P s items typed n) ∧
    (∀ (s : Signcrypt.State) items, Front.lastFinal (fun b : SigncryptBlock => b.final) items = false →
      runSc2 P s items typed generic n = Signcrypt.run P s items typed n) ∧
    (∀ (s : Sign.State) items, Front.lastFinal (Sign.blockFinal s.version) items = false →
      runSig2 P s items typed generic n = Sign.run P s items typed n) :=
  ⟨fun s items hl => runEnc2_not_lastFinal P s items typed generic n hl,
   fun s items hl => runSc2_not_lastFinal P s items typed generic n hl,
   fun s items hl => runSig2_not_lastFinal P s items typed generic n hl⟩

/-- the reference run with ONE tail in both places is the receiver's own run -/
theorem C15_settle_reference_same (P : Prims) (t : Tail) (n : Nat) :
    (∀ (s : Decrypt.State) items, runEnc2 P s items t t n = Decrypt.run P s items t n) ∧
    (∀ (s : Signcrypt.State) items, runSc2 P s items t t n = Signcrypt.run P s items t n) ∧
    (∀ (s : Sign.State) items, runSig2 P s items t t n = Sign.run P s items t n) :=
  ⟨fun s items => runEnc2_same P s items t n, fun s items => runSc2_same P s items t n,
   fun s items => runSig2_same P s items t n⟩

/-- bridge between `settle`'s test and the generic tail, along `Codec.blocks`' own walk: where
    `truncatedStop` holds the typed tail is a decode error and the generic one a clean end;
    everywhere else the two tails are the same -/
theorem C15_settle_generic_tail {β : Type} (d : Codec.Dec β) (fuel : Nat) (b : Bytes) (ps : PStream β)
    (h : Codec.blocks d fuel b = .ok ps) :
    (Front.truncatedStop d fuel b = true → ps.tail = .err .decodeError ∧ genericTail d fuel b = .eof) ∧
    (Front.truncatedStop d fuel b = false → genericTail d fuel b = ps.tail) :=
  genericTail_blocks d fuel b ps h

/-- both tails described AT the stop position `s = stopAt d fuel b` (the input left when the typed
    read fails for the first time), without the walk: typed read `eof` — both tails `eof`; otherwise
    `Codec.generic s` decides — an object: it is the last item (`none`: trailing garbage for whoever
    gets there; never a final packet) and nothing is read behind it; end of input: typed tail decode
    error, generic tail clean end (THE case where the two differ); failure: both a decode error -/
theorem C15_settle_tails_at_stop {β : Type} (d : Codec.Dec β) (fuel : Nat) (b : Bytes) (ps : PStream β)
    (h : Codec.blocks d fuel b = .ok ps) :
    (d (stopAt d fuel b) = .error .eof ∧ ps.tail = .eof ∧ genericTail d fuel b = .eof) ∨
    (∃ w, d (stopAt d fuel b) = .error (.err w) ∧
      ((∃ y pre, Codec.generic (stopAt d fuel b) = .ok y ∧ ps.items = pre ++ [none] ∧ ps.tail = .eof) ∨
       (Codec.generic (stopAt d fuel b) = .error .eof ∧ ps.tail = .err .decodeError ∧ genericTail d fuel b = .eof) ∨
       (∃ w', Codec.generic (stopAt d fuel b) = .error (.err w') ∧ ps.tail = .err .decodeError ∧
          genericTail d fuel b = .err .decodeError))) :=
  tails_at_stop d fuel b ps h

/-! ## kernel-evaluated instances (toy primitives) -/

def anyRingS : Keyring := ⟨fun _ => (-1, none), fun _ => none, [], fun _ => none, fun k => some k⟩

def sigHeader : Bytes := Msgpack.encode (Sign.header v2 (Toy.prims.sigPub [1]) mtAttached [2]).toVal

/-- the one (final) packet of a genuine toy-signed V2 message with payload "A" -/
def sigPacket : Bytes :=
  [0x93, 0xc3] ++
    Msgpack.encBin (Toy.prims.sign [1]
      ((attachedSignatureInput Toy.prims v2 (Toy.prims.hash sigHeader) [0x41] 0 true).toOption.getD [])) ++
    [0xc4, 0x01, 0x41]

def sigMsg : Bytes := headerPacket sigHeader ++ sigPacket

/-- case 2, the case `settle` exists for: a genuine message followed by `c4 05 01` (a truncated
    byte string the typed block decoder refuses): typed tail = decode error, generic tail = clean
    end; the reference composition and the model on the settled stream both accept -/
example : (Codec.splitSig (sigMsg ++ [0xc4, 0x05, 0x01])).toOption.map (fun x => (x.2.items.length, x.2.tail)) =
    some (1, .err .decodeError) := by decide +kernel
example : genericTailOf Codec.decSigHeader sigDecB (sigMsg ++ [0xc4, 0x05, 0x01]) = .eof := by decide +kernel
example : (Sign.verifyBytes Toy.prims knownMajor anyRingS (sigMsg ++ [0xc4, 0x05, 0x01])).toOption.map
    (fun r => (r.released, r.err)) = some ([0x41], none) := by decide +kernel
example : (Codec.splitSig (sigMsg ++ [0xc4, 0x05, 0x01])).toOption.map
    (fun x => let r := refVerify Toy.prims knownMajor anyRingS x.1 x.2.items x.2.tail
                (genericTailOf Codec.decSigHeader sigDecB (sigMsg ++ [0xc4, 0x05, 0x01])); (r.released, r.err)) =
    some ([0x41], none) := by decide +kernel

/-- the stop position of that input is the appended object -/
example : stopAt (Codec.decSigBlock 2) 100 (sigPacket ++ [0xc4, 0x05, 0x01]) = [0xc4, 0x05, 0x01] := by decide +kernel

/-- case 3: the genuine message followed by a whole second (final) packet — the LAST decoded packet
    is final, yet the receiver never gets there: trailing garbage after the first final packet -/
example : (Codec.splitSig (sigMsg ++ sigPacket)).toOption.map (fun x => (x.2.items.length, x.2.tail)) =
    some (2, .eof) := by decide +kernel
example : (Sign.verifyBytes Toy.prims knownMajor anyRingS (sigMsg ++ sigPacket)).toOption.map
    (fun r => (r.released, r.err)) = some ([0x41], some .trailingGarbage) := by decide +kernel

/-- case 3 with the truncated object at the very end: second packet AND `c4 05 01`: `settle` does
    turn the tail into a clean end (last decoded packet final), nobody reads it -/
example : (Sign.verifyBytes Toy.prims knownMajor anyRingS (sigMsg ++ sigPacket ++ [0xc4, 0x05, 0x01])).toOption.map
    (fun r => (r.released, r.err)) = some ([0x41], some .trailingGarbage) := by decide +kernel
example : (Codec.splitSig (sigMsg ++ sigPacket ++ [0xc4, 0x05, 0x01])).toOption.map
    (fun x => let r := refVerify Toy.prims knownMajor anyRingS x.1 x.2.items x.2.tail
                (genericTailOf Codec.decSigHeader sigDecB (sigMsg ++ sigPacket ++ [0xc4, 0x05, 0x01])); (r.released, r.err)) =
    some ([0x41], some .trailingGarbage) := by decide +kernel

/-- case 1: only the header and `c4 05 01`: the receiver's typed read fails — decode error, both ways -/
example : (Sign.verifyBytes Toy.prims knownMajor anyRingS (headerPacket sigHeader ++ [0xc4, 0x05, 0x01])).toOption.map
    (fun r => (r.released, r.err)) = some ([], some .decodeError) := by decide +kernel

/-- the hypothesis of the three theorems is met by these inputs (`Codec` answers) -/
example : (Codec.splitSig (sigMsg ++ [0xc4, 0x05, 0x01])).toOption.isSome = true := by decide +kernel

/-! ### encryption: a genuine toy V2 message (named sender `[1]`, recipient `[3]`, payload `01 02 03`) -/

def encRs : List Encrypt.Recipient := [⟨Toy.prims.boxPub [3], false⟩]

/-- header packet and body (the payload packets) of the sealed message -/
def encParts : Bytes × Bytes :=
  match Encrypt.sealPackets Toy.prims 4 v2 (some [1]) encRs [2] (Toy.pad 32 [9]) [1, 2, 3] with
  | .ok (_, hb, blks) => (headerPacket hb, (Encrypt.encodeBlocks v2 blks).toOption.getD [])
  | .error _ => ([], [])

def encMsg : Bytes := encParts.1 ++ encParts.2

def encRing : Keyring := faithfulKeyring Toy.prims [[3]]

example : (Decrypt.openBytes Toy.prims knownMajor encRing encMsg).toOption.map (fun r => (r.released, r.err)) =
    some ([1, 2, 3], none) := by decide +kernel

/-- case 2: followed by `c4 05 01`: typed tail decode error, generic tail clean end, accepted -/
example : (Codec.splitEnc (encMsg ++ [0xc4, 0x05, 0x01])).toOption.map (fun x => (x.2.items.length, x.2.tail)) =
    some (1, .err .decodeError) := by decide +kernel
example : genericTailOf Codec.decEncHeader encDecB (encMsg ++ [0xc4, 0x05, 0x01]) = .eof := by decide +kernel
example : (Decrypt.openBytes Toy.prims knownMajor encRing (encMsg ++ [0xc4, 0x05, 0x01])).toOption.map
    (fun r => (r.released, r.err)) = some ([1, 2, 3], none) := by decide +kernel
example : (Codec.splitEnc (encMsg ++ [0xc4, 0x05, 0x01])).toOption.map
    (fun x => let r := refOpenEnc Toy.prims knownMajor encRing x.1 x.2.items x.2.tail
                (genericTailOf Codec.decEncHeader encDecB (encMsg ++ [0xc4, 0x05, 0x01])); (r.released, r.err)) =
    some ([1, 2, 3], none) := by decide +kernel

/-- case 3: followed by a whole second copy of its payload packets: trailing garbage -/
example : (Decrypt.openBytes Toy.prims knownMajor encRing (encMsg ++ encParts.2)).toOption.map
    (fun r => (r.released, r.err)) = some ([1, 2, 3], some .trailingGarbage) := by decide +kernel
example : (Decrypt.openBytes Toy.prims knownMajor encRing (encMsg ++ encParts.2 ++ [0xc4, 0x05, 0x01])).toOption.map
    (fun r => (r.released, r.err)) = some ([1, 2, 3], some .trailingGarbage) := by decide +kernel

/-- case 1: header, then `c4 05 01`: the typed read's decode error -/
example : (Decrypt.openBytes Toy.prims knownMajor encRing (encParts.1 ++ [0xc4, 0x05, 0x01])).toOption.map
    (fun r => (r.released, r.err)) = some ([], some .decodeError) := by decide +kernel

/-! ### signcryption: a genuine toy message (sender `[1]`, box recipient `[4]`, payload `01 02 03`) -/

def scRs : List Signcrypt.Recipient := [.box (Toy.prims.boxPub [4])]

def scParts : Bytes × Bytes :=
  match Signcrypt.sealPackets Toy.prims 4 (some [1]) scRs [2] (Toy.pad 32 [9]) [1, 2, 3] with
  | .ok (_, hb, blks) => (headerPacket hb, Signcrypt.encodeBlocks blks)
  | .error _ => ([], [])

def scMsg : Bytes := scParts.1 ++ scParts.2

def scRing : Keyring := faithfulKeyring Toy.prims [[4]]

example : (Signcrypt.openBytes Toy.prims scRing none scMsg).toOption.map (fun r => (r.released, r.err)) =
    some ([1, 2, 3], none) := by decide +kernel

/-- case 2 -/
example : (Codec.splitSigncrypt (scMsg ++ [0xc4, 0x05, 0x01])).toOption.map (fun x => (x.2.items.length, x.2.tail)) =
    some (1, .err .decodeError) := by decide +kernel
example : genericTailOf Codec.decEncHeader (fun _ => some Codec.decSigncryptBlock) (scMsg ++ [0xc4, 0x05, 0x01]) = .eof := by
  decide +kernel
example : (Signcrypt.openBytes Toy.prims scRing none (scMsg ++ [0xc4, 0x05, 0x01])).toOption.map
    (fun r => (r.released, r.err)) = some ([1, 2, 3], none) := by decide +kernel
example : (Codec.splitSigncrypt (scMsg ++ [0xc4, 0x05, 0x01])).toOption.map
    (fun x => let r := refOpenSc Toy.prims scRing none x.1 x.2.items x.2.tail
                (genericTailOf Codec.decEncHeader (fun _ => some Codec.decSigncryptBlock) (scMsg ++ [0xc4, 0x05, 0x01]));
              (r.released, r.err)) =
    some ([1, 2, 3], none) := by decide +kernel

/-- case 3 -/
example : (Signcrypt.openBytes Toy.prims scRing none (scMsg ++ scParts.2)).toOption.map
    (fun r => (r.released, r.err)) = some ([1, 2, 3], some .trailingGarbage) := by decide +kernel
example : (Signcrypt.openBytes Toy.prims scRing none (scMsg ++ scParts.2 ++ [0xc4, 0x05, 0x01])).toOption.map
    (fun r => (r.released, r.err)) = some ([1, 2, 3], some .trailingGarbage) := by decide +kernel

/-- case 1 -/
example : (Signcrypt.openBytes Toy.prims scRing none (scParts.1 ++ [0xc4, 0x05, 0x01])).toOption.map
    (fun r => (r.released, r.err)) = some ([], some .decodeError) := by decide +kernel

end Saltpack.Props.C15
