/-
  Property C06 — attached signatures: only bytes signed by the looked-up key are
  released.  Statements only; proofs in Saltpack/Proofs/Receiver.lean, Authentic.lean.
-/
import Saltpack.Proofs.Receiver
import Saltpack.Proofs.Authentic
import Saltpack.Toy

namespace Saltpack.Props.C06
open Saltpack Saltpack.Proofs

theorem C06_released_is_accepted_prefix (P : Prims) (s : Sign.State)
    (items : List (Option SigBlock)) (tail : Tail) (n : Nat) :
    ∃ bs : List SigBlock, (bs.map some) <+: items ∧
      Chain (Ver.accept P s) (Sign.blockFinal s.version) n bs (Sign.run P s items tail n).bytes :=
  Ver.run_prefix P s items tail n

theorem C06_clean_end_iff_complete (P : Prims) (s : Sign.State)
    (items : List (Option SigBlock)) (tail : Tail) (n : Nat) :
    (Sign.run P s items tail n).err = none ↔
      ∃ bs : List SigBlock, items = bs.map some ∧ tail = .eof ∧
        Complete (Ver.accept P s) (Sign.blockFinal s.version) n bs (Sign.run P s items tail n).bytes :=
  Ver.run_ok_iff P s items tail n

theorem C06_all_at_once_only_if_clean (P : Prims) (valid : Validator) (kr : Keyring)
    (hr : HeaderRead SigHeader) (ps : PStream SigBlock) (k m : Bytes)
    (h : Sign.verifyAll P valid kr hr ps = .ok (k, m)) :
    (Sign.verifyStream P valid kr hr ps).err = none ∧ (Sign.verifyStream P valid kr hr ps).released = m := by
  unfold Sign.verifyAll at h
  generalize Sign.verifyStream P valid kr hr ps = r at h
  obtain ⟨sg, rel, err⟩ := r
  cases err <;> cases sg <;> simp_all

/-- an accepted packet's signature verifies, under the looked-up key, on
    domain ‖ SHA-512(header hash ‖ packet number ‖ [final byte] ‖ chunk), and the
    released chunk is the packet's chunk -/
theorem C06_accept_binds (P : Prims) (s : Sign.State) (b : SigBlock) (seqno : Nat) (c : Bytes)
    (h : Ver.accept P s b seqno = some c) :
    c = b.chunk ∧
    ∃ inp, attachedSignatureInput P s.version s.headerHash b.chunk (seqno - 1)
              (Sign.blockFinal s.version b) = .ok inp ∧
      P.verify s.publicKey inp b.sig = true :=
  Ver.accept_binds P s b seqno c h

/-- the signed hash input determines header hash, packet number, final flag and
    chunk uniquely -/
theorem C06_signed_input_unique (hh hh' c c' : Bytes) (i j : Nat) (f f' : Bool)
    (h1 : hh.length = 64) (h2 : hh'.length = 64) (hi : i < 2 ^ 64) (hj : j < 2 ^ 64)
    (h : hh ++ be64 i ++ finalByte f ++ c = hh' ++ be64 j ++ finalByte f' ++ c') :
    hh = hh' ∧ i = j ∧ f = f' ∧ c = c' :=
  attachedInput_inj_v2 hh hh' c c' i j f f' h1 h2 hi hj h

/-- **What `AuthSig.BreakIn P s H items` is** (definitional unfolding).  It is
    ANCHORED to the verifier state `s` and the packets `items` of the run
    (`Reaches`: see `C02_reaches_def` — every earlier item was a packet accepted
    at its position and not final):

    * *signature forgery in this run*: the run reaches its `i`-th packet `b` and
      accepts it as packet number `i + 1`; `b.sig` verifies, under the looked-up
      key, on domain ‖ hash(`recvHashed s b i`), where `recvHashed s b i` =
      header hash ‖ be64 `i` ‖ [final byte] ‖ `b.chunk` — an input the owner of
      that key never signed (no chunk of a message in `H`); or
    * *hash collision in this run*: for such a reached and accepted packet,
      `recvHashed s b i` and the string `honestHashed …` the honest signer hashed
      for chunk `k` of a message of `H` are DIFFERENT strings with the SAME hash. -/
theorem C06_break_def (P : Prims) (s : Sign.State) (H : List AuthSig.Event)
    (items : List (Option SigBlock)) :
    AuthSig.BreakIn P s H items ↔
      (∃ (i : Nat) (b : SigBlock),
        Reaches (Ver.accept P s) (Sign.blockFinal s.version) items i b ∧
        Ver.accept P s b (i + 1) = some b.chunk ∧
        P.verify s.publicKey
          (Gen.c_sp_signatureAttachedString ++ P.hash (AuthSig.recvHashed s b i)) b.sig = true ∧
        ¬ ∃ e ∈ H, ∃ k c' f', e.plan[k]? = some (c', f') ∧
            Gen.c_sp_signatureAttachedString ++ P.hash (AuthSig.recvHashed s b i) =
              Gen.c_sp_signatureAttachedString ++ P.hash (AuthSig.honestHashed s.version e k c' f')) ∨
      (∃ (i : Nat) (b : SigBlock),
        Reaches (Ver.accept P s) (Sign.blockFinal s.version) items i b ∧
        Ver.accept P s b (i + 1) = some b.chunk ∧
        ∃ e ∈ H, ∃ k c' f', e.plan[k]? = some (c', f') ∧
          AuthSig.recvHashed s b i ≠ AuthSig.honestHashed s.version e k c' f' ∧
          P.hash (AuthSig.recvHashed s b i) = P.hash (AuthSig.honestHashed s.version e k c' f')) :=
  Iff.rfl

/-- the two hashed strings, spelled out (V2; V1 has no final byte) -/
theorem C06_inputs_def (s : Sign.State) (hv : s.version.major = 2) (b : SigBlock) (i : Nat)
    (e : AuthSig.Event) (k : Nat) (c : Bytes) (f : Bool) :
    AuthSig.recvHashed s b i = s.headerHash ++ be64 i ++ finalByte b.final ++ b.chunk ∧
    AuthSig.honestHashed s.version e k c f = e.headerHash ++ be64 k ++ finalByte f ++ c := by
  have h21 : ¬ ((2 : Int) = 1) := by decide
  simp [AuthSig.recvHashed, AuthSig.honestHashed, Sign.blockFinal, hv, h21]

/-- **The reduction** (`H`: all attached messages the owner of the looked-up key
    ever signed): released bytes are the first `m` chunks of ONE of them, with
    this very header hash (which covers mode, version, key and the random nonce)
    — all of it iff the run ends cleanly — or nothing is released and the run
    fails, or `AuthSig.BreakIn P s H items` (see `C06_break_def`): a signature
    forgery or a hash collision exhibited by a packet THIS run reached and
    accepted.

    `BreakIn` is not always true: `C06_break_not_trivial`, `C06_tampered_runs_fail`.

    `hlen`: honest header hashes are 64 bytes.  `hplan`, `hv1` are asked ONLY of
    the messages with this header hash (the history may mix V1 and V2).
    ASSUMPTION `hone` (explicit hypothesis): at most one of the signer's messages
    has this header hash — freshness of the 16-byte random header nonce plus
    collision resistance of the header hash. -/
theorem C06_authentic_or_break (P : Prims) (hP : P.Lawful) (s : Sign.State)
    (hv : s.version.major = 1 ∨ s.version.major = 2) (hhl : s.headerHash.length = 64)
    (H : List AuthSig.Event)
    (hlen : ∀ e ∈ H, e.headerHash.length = 64)
    (hplan : ∀ e ∈ H, e.headerHash = s.headerHash → PlanOK e.plan ∧ e.plan.length < 2 ^ 64)
    (hv1 : s.version.major = 1 → ∀ e ∈ H, e.headerHash = s.headerHash → ∀ p ∈ e.plan, (p.1 = [] ↔ p.2 = true))
    (hone : ∀ e ∈ H, ∀ e' ∈ H, e.headerHash = s.headerHash → e'.headerHash = s.headerHash → e = e')
    (items : List (Option SigBlock)) (hitems : items.length < 2 ^ 64) (tail : Tail) :
    let r := Sign.run P s items tail 1
    r.bytes = [] ∧ r.err ≠ none ∨
    (∃ e ∈ H, e.headerHash = s.headerHash ∧ ∃ m, m ≤ e.plan.length ∧ r.bytes = planPrefix e.plan m ∧
        (r.err = none → m = e.plan.length)) ∨
    AuthSig.BreakIn P s H items :=
  AuthSig.authentic_or_break P hP s hv hhl H hlen hplan hv1 hone items hitems tail

/-- a packet that figures in a break is a packet OF THIS RUN, at its index -/
theorem C06_break_in_items (P : Prims) (s : Sign.State) (H : List AuthSig.Event)
    (items : List (Option SigBlock)) (h : AuthSig.BreakIn P s H items) :
    ∃ i b, items[i]? = some (some b) ∧ some b ∈ items ∧ i < items.length ∧
      Ver.accept P s b (i + 1) = some b.chunk := by
  rcases h with ⟨i, b, hr, ha, _⟩ | ⟨i, b, hr, ha, _⟩ <;>
    exact ⟨i, b, hr.1, hr.mem, hr.lt, ha⟩

/-- a detached signature (or any other mode) presented as attached is refused at
    the header: verification releases something only for attached-mode headers -/
theorem C06_other_modes_refused (P : Prims) (valid : Validator) (kr : Keyring) (hb : Bytes) (h : SigHeader)
    (ps : PStream SigBlock) (ht : h.typ ≠ mtAttached) :
    (Sign.verifyStream P valid kr (.ok hb h) ps).released = [] ∧
    (Sign.verifyStream P valid kr (.ok hb h) ps).err ≠ none := by
  unfold Sign.verifyStream Sign.validate
  by_cases h1 : (h.formatName != Gen.c_sp_FormatName) = true
  · simp [h1]
  · by_cases h2 : (!valid h.version) = true
    · simp [h1, h2]
    · have h3 : (h.typ != mtAttached) = true := by simpa using ht
      simp [h1, h2, h3]

/-! ## non-vacuity, and non-triviality of the reduction's third disjunct -/
example : Toy.prims.Lawful := Toy.lawful
example : Demo.prims.Lawful := Demo.lawful

/-- the honest two-packet run (V2, chunks "A", "B") of the demonstration
    primitives ends cleanly and releases the message … -/
theorem C06_honest_run :
    Sign.run Demo.prims Demo.Sig.s [some Demo.Sig.b0, some Demo.Sig.b1] .eof 1 = ⟨[65, 66], none⟩ :=
  Demo.Sig.honest_run

/-- … and for it the anchored break is FALSE: the third disjunct of
    `C06_authentic_or_break` is not always true. -/
theorem C06_break_not_trivial :
    ¬ AuthSig.BreakIn Demo.prims Demo.Sig.s [Demo.Sig.e0] [some Demo.Sig.b0, some Demo.Sig.b1] :=
  Demo.Sig.honest_not_break

/-- tampered runs — packets swapped; a chunk changed — land in the FIRST disjunct -/
theorem C06_tampered_runs_fail :
    (let r := Sign.run Demo.prims Demo.Sig.s [some Demo.Sig.b1, some Demo.Sig.b0] .eof 1
     r.bytes = [] ∧ r.err ≠ none) ∧
    (let r := Sign.run Demo.prims Demo.Sig.s
        [some { Demo.Sig.b0 with chunk := [67] }, some Demo.Sig.b1] .eof 1
     r.bytes = [] ∧ r.err ≠ none) := by
  refine ⟨?_, ?_⟩
  · show (Sign.run Demo.prims Demo.Sig.s [some Demo.Sig.b1, some Demo.Sig.b0] .eof 1).bytes = [] ∧ _
    rw [Demo.Sig.swapped_run]; exact ⟨rfl, by simp⟩
  · show (Sign.run Demo.prims Demo.Sig.s _ .eof 1).bytes = [] ∧ _
    rw [Demo.Sig.altered_run]; exact ⟨rfl, by simp⟩

/-- a truncated run lands in the SECOND disjunct with `m = 1 < 2` and an error -/
theorem C06_truncated_run :
    Sign.run Demo.prims Demo.Sig.s [some Demo.Sig.b0] .eof 1 = ⟨[65], some .unexpectedEOF⟩ :=
  Demo.Sig.truncated_run

end Saltpack.Props.C06
