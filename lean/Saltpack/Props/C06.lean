/-
  Property C06 — attached signatures: only bytes signed by the looked-up key are
  released.  Statements only; proofs in Saltpack/Proofs/Receiver.lean, Authentic.lean.
-/
import Saltpack.Proofs.Receiver
import Saltpack.Proofs.Authentic
import Saltpack.Toy

namespace Saltpack.Props.C06
open Saltpack Saltpack.Proofs

theorem C06_released_is_accepted_prefix (P : Prims) (s : Sign.State)
    (items : List (Option SigBlock)) (tail : Tail) (n : Nat) :
    ∃ bs : List SigBlock, (bs.map some) <+: items ∧
      Chain (Ver.accept P s) (Sign.blockFinal s.version) n bs (Sign.run P s items tail n).bytes :=
  Ver.run_prefix P s items tail n

theorem C06_clean_end_iff_complete (P : Prims) (s : Sign.State)
    (items : List (Option SigBlock)) (tail : Tail) (n : Nat) :
    (Sign.run P s items tail n).err = none ↔
      ∃ bs : List SigBlock, items = bs.map some ∧ tail = .eof ∧
        Complete (Ver.accept P s) (Sign.blockFinal s.version) n bs (Sign.run P s items tail n).bytes :=
  Ver.run_ok_iff P s items tail n

theorem C06_all_at_once_only_if_clean (P : Prims) (valid : Validator) (kr : Keyring)
    (hr : HeaderRead SigHeader) (ps : PStream SigBlock) (k m : Bytes)
    (h : Sign.verifyAll P valid kr hr ps = .ok (k, m)) :
    (Sign.verifyStream P valid kr hr ps).err = none ∧ (Sign.verifyStream P valid kr hr ps).released = m := by
  unfold Sign.verifyAll at h
  generalize Sign.verifyStream P valid kr hr ps = r at h
  obtain ⟨sg, rel, err⟩ := r
  cases err <;> cases sg <;> simp_all

/-- an accepted packet's signature verifies, under the looked-up key, on
    domain ‖ SHA-512(header hash ‖ packet number ‖ [final byte] ‖ chunk), and the
    released chunk is the packet's chunk -/
theorem C06_accept_binds (P : Prims) (s : Sign.State) (b : SigBlock) (seqno : Nat) (c : Bytes)
    (h : Ver.accept P s b seqno = some c) :
    c = b.chunk ∧
    ∃ inp, attachedSignatureInput P s.version s.headerHash b.chunk (seqno - 1)
              (Sign.blockFinal s.version b) = .ok inp ∧
      P.verify s.publicKey inp b.sig = true :=
  Ver.accept_binds P s b seqno c h

/-- the signed hash input determines header hash, packet number, final flag and
    chunk uniquely -/
theorem C06_signed_input_unique (hh hh' c c' : Bytes) (i j : Nat) (f f' : Bool)
    (h1 : hh.length = 64) (h2 : hh'.length = 64) (hi : i < 2 ^ 64) (hj : j < 2 ^ 64)
    (h : hh ++ be64 i ++ finalByte f ++ c = hh' ++ be64 j ++ finalByte f' ++ c') :
    hh = hh' ∧ i = j ∧ f = f' ∧ c = c' :=
  attachedInput_inj_v2 hh hh' c c' i j f f' h1 h2 hi hj h

/-- **The reduction** (`H`: all attached messages the owner of the looked-up key
    ever signed): released bytes are the first `m` chunks of ONE of them, with
    this very header hash (which covers mode, version, key and the random nonce)
    — all of it iff the run ends cleanly — or nothing is released and the run
    fails, or a signature forgery / hash collision is exhibited. -/
theorem C06_authentic_or_break (P : Prims) (hP : P.Lawful) (s : Sign.State)
    (hv : s.version.major = 1 ∨ s.version.major = 2) (hhl : s.headerHash.length = 64)
    (H : List AuthSig.Event)
    (hplan : ∀ e ∈ H, PlanOK e.plan ∧ e.plan.length < 2 ^ 64 ∧ e.headerHash.length = 64)
    (hv1 : s.version.major = 1 → ∀ e ∈ H, ∀ p ∈ e.plan, (p.1 = [] ↔ p.2 = true))
    (hone : ∀ e ∈ H, ∀ e' ∈ H, e.headerHash = e'.headerHash → e = e')
    (items : List (Option SigBlock)) (hitems : items.length < 2 ^ 64) (tail : Tail) :
    let r := Sign.run P s items tail 1
    r.bytes = [] ∧ r.err ≠ none ∨
    (∃ e ∈ H, e.headerHash = s.headerHash ∧ ∃ m, m ≤ e.plan.length ∧ r.bytes = planPrefix e.plan m ∧
        (r.err = none → m = e.plan.length)) ∨
    AuthSig.Break P s H :=
  AuthSig.authentic_or_break P hP s hv hhl H hplan hv1 hone items hitems tail

/-- a detached signature (or any other mode) presented as attached is refused at
    the header: verification releases something only for attached-mode headers -/
theorem C06_other_modes_refused (P : Prims) (valid : Validator) (kr : Keyring) (hb : Bytes) (h : SigHeader)
    (ps : PStream SigBlock) (ht : h.typ ≠ mtAttached) :
    (Sign.verifyStream P valid kr (.ok hb h) ps).released = [] ∧
    (Sign.verifyStream P valid kr (.ok hb h) ps).err ≠ none := by
  unfold Sign.verifyStream Sign.validate
  by_cases h1 : (h.formatName != Gen.c_sp_FormatName) = true
  · simp [h1]
  · by_cases h2 : (!valid h.version) = true
    · simp [h1, h2]
    · have h3 : (h.typ != mtAttached) = true := by simpa using ht
      simp [h1, h2, h3]

example : Toy.prims.Lawful := Toy.lawful

end Saltpack.Props.C06
