/-
  Property C03 — ARMORED signcryption round trips (model level):
  `SigncryptArmor62Seal` ∘ `Dearmor62SigncryptOpen`.

  The armored entry points are compositions (armor62_signcrypt.go): the sender
  armors the binary message with the ENCRYPTION frame type
  (`NewArmor62EncoderStream(ciphertext, MessageTypeEncryption, brand)`,
  `armor62SigncryptionHeaderChecker = armor62EncryptionHeaderChecker`), the
  receiver dearmors with frame validation for that type
  (`Armor.open62 (some mtEncryption)`) and runs `SigncryptOpen` on the payload.
  So the theorems compose `C11_roundtrip` (`open62 ∘ seal62 = id` on payload and
  brand) with the byte-level round trips `C03_roundtrip_box_bytes_ring` /
  `C03_roundtrip_sym_bytes_ring` — the method of `C01_roundtrip_armored`,
  `C05_roundtrip_armored` (Proofs/ArmoredRT.lean).

  Audit finding 8: the first three theorems below speak about `seal62
  mtEncryption brand msg` for a message `msg` — the frame type is chosen in the
  STATEMENT.  The second half of the file states the same about the MODEL's
  armored entry points (Model/Armored.lean: `Signcrypt.sealArmor62`,
  `Signcrypt.dearmor62Open`, whose frame type `Signcrypt.armorType` is the one
  the driver's `st.sender sc.a` / `arm.sc.seal` ops run against the real
  `NewSigncryptArmor62SealStream` / `SigncryptArmor62Seal`), adds the armored
  refusals (no key ⇒ `ErrNoDecryptionKey` through the armored opener; a text
  with the frames of another message type is refused), and assumes `BrandOK`
  (the Go sender never validates the brand: `SigncryptArmor62Seal(…, "a b")`
  emits a text nobody can open — outside these theorems).
-/
import Saltpack.Props.C03
import Saltpack.Props.C11
import Saltpack.Model.Armored
import Saltpack.Proofs.ArmoredRT

namespace Saltpack.Props.C03
open Saltpack Saltpack.Armor

/-- **Armored round trip, box-key recipients** (any keyring holding the key,
    with or without a resolver): the armored text dearmors — with validated
    `BEGIN/END [brand] SALTPACK ENCRYPTED MESSAGE` frames — to exactly the binary
    message and the brand, and that payload splits and opens to the plaintext
    and the sender's public signing key. -/
theorem C03_roundtrip_box_armored (P : Prims) (hP : P.Lawful) (bs : Nat) (hbs : 0 < bs) (hbs32 : bs + 80 < 2 ^ 32)
    (sender : Option Bytes) (rs : List Signcrypt.Recipient) (eph payloadKey pt : Bytes)
    (hpk : payloadKey.length = 32)
    (hsender : ∀ s, sender = some s → ¬ ((P.sigPub s).all (· == 0)))
    (hblocks : (Encrypt.chunkPlan v2 bs pt).length < 2 ^ 64 - 1)
    (sks : List Bytes) (res : Signcrypt.Resolver)
    (i : Nat) (hi : i < rs.length) (sk : Bytes) (hmem : sk ∈ sks) (hsk : rs.getD i default = .box (P.boxPub sk))
    (hnc : ∀ s ∈ sks, ∀ j, j ≤ i → j < rs.length →
      Signcrypt.keyIdentifier P (Signcrypt.derivedKeyFromBoxKeys P (P.boxPub eph) s) j =
        Decrypt.kidOf ((Signcrypt.header P sender eph payloadKey rs).receivers.getD j default) →
      rs.getD j default = .box (P.boxPub s))
    (L : Nat) (hL32 : 32 ≤ L)
    (hid : ∀ key ident, Signcrypt.Recipient.sym key ident ∈ rs → ident.length ≤ L)
    (hsmall : 145 + rs.length * (L + 63) < 2 ^ 32)
    (brand : Bytes) (hbr : Proofs.BrandOK brand)
    (msg : Bytes) (hmsg : Signcrypt.sealWith P bs sender rs eph payloadKey pt = .ok msg) :
    ∃ r hr ps, open62 (some mtEncryption) (seal62 mtEncryption brand msg) = .ok r ∧
      r.payload = msg ∧ r.brand = brand ∧
      Wire.splitSigncrypt r.payload = .ok (hr, ps) ∧
      Signcrypt.openAll P (Proofs.faithfulKeyring P sks) res hr ps = .ok (sender.map P.sigPub, pt) := by
  obtain ⟨hr, ps, hsplit, hopen⟩ := C03_roundtrip_box_bytes_ring P hP bs hbs hbs32 sender rs eph payloadKey pt hpk
    hsender hblocks sks res i hi sk hmem hsk hnc L hL32 hid hsmall msg hmsg
  exact ⟨_, hr, ps, C11.C11_roundtrip mtEncryption (Or.inl rfl) brand hbr msg, rfl, rfl, hsplit, hopen⟩

/-- **Armored round trip, symmetric-key recipients** (a keyring of foreign box
    keys and any resolver resolving a non-empty subset to the true keys) -/
theorem C03_roundtrip_sym_armored (P : Prims) (hP : P.Lawful) (bs : Nat) (hbs : 0 < bs) (hbs32 : bs + 80 < 2 ^ 32)
    (sender : Option Bytes) (rs : List Signcrypt.Recipient) (eph payloadKey pt : Bytes)
    (hpk : payloadKey.length = 32)
    (hsender : ∀ s, sender = some s → ¬ ((P.sigPub s).all (· == 0)))
    (hblocks : (Encrypt.chunkPlan v2 bs pt).length < 2 ^ 64 - 1)
    (sks : List Bytes)
    (hfor : ∀ s ∈ sks, ∀ j, j < (Signcrypt.header P sender eph payloadKey rs).receivers.length →
      Signcrypt.keyIdentifier P (Signcrypt.derivedKeyFromBoxKeys P (P.boxPub eph) s) j ≠
        Decrypt.kidOf ((Signcrypt.header P sender eph payloadKey rs).receivers.getD j default))
    (f : List Bytes → Except Err (List (Option Bytes))) (keys : List (Option Bytes))
    (hf : f ((Signcrypt.header P sender eph payloadKey rs).receivers.map Decrypt.kidOf) = .ok keys)
    (hlen : keys.length = rs.length)
    (htrue : ∀ (j : Nat) (k : Bytes), keys[j]? = some (some k) → ∃ ident, rs[j]? = some (Signcrypt.Recipient.sym k ident))
    (hsome : ∃ (j : Nat) (k : Bytes), keys[j]? = some (some k))
    (L : Nat) (hL32 : 32 ≤ L)
    (hid : ∀ key ident, Signcrypt.Recipient.sym key ident ∈ rs → ident.length ≤ L)
    (hsmall : 145 + rs.length * (L + 63) < 2 ^ 32)
    (brand : Bytes) (hbr : Proofs.BrandOK brand)
    (msg : Bytes) (hmsg : Signcrypt.sealWith P bs sender rs eph payloadKey pt = .ok msg) :
    ∃ r hr ps, open62 (some mtEncryption) (seal62 mtEncryption brand msg) = .ok r ∧
      r.payload = msg ∧ r.brand = brand ∧
      Wire.splitSigncrypt r.payload = .ok (hr, ps) ∧
      Signcrypt.openAll P (Proofs.faithfulKeyring P sks) (some f) hr ps = .ok (sender.map P.sigPub, pt) := by
  obtain ⟨hr, ps, hsplit, hopen⟩ := C03_roundtrip_sym_bytes_ring P hP bs hbs hbs32 sender rs eph payloadKey pt hpk
    hsender hblocks sks hfor f keys hf hlen htrue hsome L hL32 hid hsmall msg hmsg
  exact ⟨_, hr, ps, C11.C11_roundtrip mtEncryption (Or.inl rfl) brand hbr msg, rfl, rfl, hsplit, hopen⟩

/-- the armored text carries the ENCRYPTION frames (signcryption has no frame
    type of its own: armor62_signcrypt.go) -/
theorem C03_armored_frames (brand msg : Bytes) (hbr : Proofs.BrandOK brand) :
    ∃ r, open62 (some mtEncryption) (seal62 mtEncryption brand msg) = .ok r ∧
      r.header = header mtEncryption brand ∧ r.footer = footer mtEncryption brand :=
  ⟨_, C11.C11_roundtrip mtEncryption (Or.inl rfl) brand hbr msg, rfl, rfl⟩

/-! ## the model's armored entry points (`Signcrypt.sealArmor62` ∘ `Signcrypt.dearmor62Open`) -/

/-- what `SigncryptArmor62Seal` emits: the Armor62 text of `SigncryptSeal`'s
    message under the ENCRYPTION frame type — it carries the frames
    `BEGIN/END [brand] SALTPACK ENCRYPTED MESSAGE`, dearmors with their
    validation, and is REFUSED by the frame check of the two other armorable
    types (a signcrypted text is not a signed message) -/
theorem C03_sealArmor62_frames (P : Prims) (bs : Nat) (sender : Option Bytes) (rs : List Signcrypt.Recipient)
    (eph payloadKey pt brand : Bytes) (hbr : Proofs.BrandOK brand) (text : Bytes)
    (h : Signcrypt.sealArmor62 P bs sender rs eph payloadKey pt brand = .ok text) :
    ∃ msg, Signcrypt.sealWith P bs sender rs eph payloadKey pt = .ok msg ∧
      text = seal62 mtEncryption brand msg ∧
      open62 (some mtEncryption) text = .ok ⟨msg, brand, header mtEncryption brand, footer mtEncryption brand⟩ ∧
      (∃ e, open62 (some mtAttached) text = .error e) ∧ (∃ e, open62 (some mtDetached) text = .error e) := by
  unfold Signcrypt.sealArmor62 armorResult at h
  cases hm : Signcrypt.sealWith P bs sender rs eph payloadKey pt with
  | error e => rw [hm] at h; cases h
  | ok msg =>
    rw [hm] at h
    injection h with h
    subst h
    exact ⟨msg, rfl, rfl, Proofs.open_seal mtEncryption (Or.inl rfl) brand hbr msg,
      Proofs.open_seal_wrong_type mtEncryption mtAttached (Or.inl rfl) (Or.inr (Or.inl rfl)) (by decide) brand hbr msg,
      Proofs.open_seal_wrong_type mtEncryption mtDetached (Or.inl rfl) (Or.inr (Or.inr rfl)) (by decide) brand hbr msg⟩

/-- **`SigncryptArmor62Seal` ∘ `Dearmor62SigncryptOpen`, box-key recipients**
    (any keyring holding the key, with or without a resolver): sender key,
    plaintext and brand come back -/
theorem C03_signcrypt_armored_roundtrip_box (P : Prims) (hP : P.Lawful) (bs : Nat) (hbs : 0 < bs) (hbs32 : bs + 80 < 2 ^ 32)
    (sender : Option Bytes) (rs : List Signcrypt.Recipient) (eph payloadKey pt : Bytes)
    (hpk : payloadKey.length = 32)
    (hsender : ∀ s, sender = some s → ¬ ((P.sigPub s).all (· == 0)))
    (hblocks : (Encrypt.chunkPlan v2 bs pt).length < 2 ^ 64 - 1)
    (sks : List Bytes) (res : Signcrypt.Resolver)
    (i : Nat) (hi : i < rs.length) (sk : Bytes) (hmem : sk ∈ sks) (hsk : rs.getD i default = .box (P.boxPub sk))
    (hnc : ∀ s ∈ sks, ∀ j, j ≤ i → j < rs.length →
      Signcrypt.keyIdentifier P (Signcrypt.derivedKeyFromBoxKeys P (P.boxPub eph) s) j =
        Decrypt.kidOf ((Signcrypt.header P sender eph payloadKey rs).receivers.getD j default) →
      rs.getD j default = .box (P.boxPub s))
    (L : Nat) (hL32 : 32 ≤ L)
    (hid : ∀ key ident, Signcrypt.Recipient.sym key ident ∈ rs → ident.length ≤ L)
    (hsmall : 145 + rs.length * (L + 63) < 2 ^ 32)
    (brand : Bytes) (hbr : Proofs.BrandOK brand)
    (text : Bytes) (htext : Signcrypt.sealArmor62 P bs sender rs eph payloadKey pt brand = .ok text) :
    Signcrypt.dearmor62Open P (Proofs.faithfulKeyring P sks) res text = .ok (.ok (sender.map P.sigPub, pt, brand)) := by
  obtain ⟨msg, hmsg, _, hopen, _⟩ := C03_sealArmor62_frames P bs sender rs eph payloadKey pt brand hbr text htext
  obtain ⟨hr, ps, hsplit, hres⟩ := C03_roundtrip_box_bytes_ring P hP bs hbs hbs32 sender rs eph payloadKey pt hpk
    hsender hblocks sks res i hi sk hmem hsk hnc L hL32 hid hsmall msg hmsg
  unfold Signcrypt.dearmor62Open
  rw [show Signcrypt.armorType = mtEncryption from rfl, hopen]
  simp only [hsplit, hres]

/-- …symmetric-key recipients (a keyring of foreign box keys and any resolver
    resolving a non-empty subset to the true keys) -/
theorem C03_signcrypt_armored_roundtrip_sym (P : Prims) (hP : P.Lawful) (bs : Nat) (hbs : 0 < bs) (hbs32 : bs + 80 < 2 ^ 32)
    (sender : Option Bytes) (rs : List Signcrypt.Recipient) (eph payloadKey pt : Bytes)
    (hpk : payloadKey.length = 32)
    (hsender : ∀ s, sender = some s → ¬ ((P.sigPub s).all (· == 0)))
    (hblocks : (Encrypt.chunkPlan v2 bs pt).length < 2 ^ 64 - 1)
    (sks : List Bytes)
    (hfor : ∀ s ∈ sks, ∀ j, j < (Signcrypt.header P sender eph payloadKey rs).receivers.length →
      Signcrypt.keyIdentifier P (Signcrypt.derivedKeyFromBoxKeys P (P.boxPub eph) s) j ≠
        Decrypt.kidOf ((Signcrypt.header P sender eph payloadKey rs).receivers.getD j default))
    (f : List Bytes → Except Err (List (Option Bytes))) (keys : List (Option Bytes))
    (hf : f ((Signcrypt.header P sender eph payloadKey rs).receivers.map Decrypt.kidOf) = .ok keys)
    (hlen : keys.length = rs.length)
    (htrue : ∀ (j : Nat) (k : Bytes), keys[j]? = some (some k) → ∃ ident, rs[j]? = some (Signcrypt.Recipient.sym k ident))
    (hsome : ∃ (j : Nat) (k : Bytes), keys[j]? = some (some k))
    (L : Nat) (hL32 : 32 ≤ L)
    (hid : ∀ key ident, Signcrypt.Recipient.sym key ident ∈ rs → ident.length ≤ L)
    (hsmall : 145 + rs.length * (L + 63) < 2 ^ 32)
    (brand : Bytes) (hbr : Proofs.BrandOK brand)
    (text : Bytes) (htext : Signcrypt.sealArmor62 P bs sender rs eph payloadKey pt brand = .ok text) :
    Signcrypt.dearmor62Open P (Proofs.faithfulKeyring P sks) (some f) text =
      .ok (.ok (sender.map P.sigPub, pt, brand)) := by
  obtain ⟨msg, hmsg, _, hopen, _⟩ := C03_sealArmor62_frames P bs sender rs eph payloadKey pt brand hbr text htext
  obtain ⟨hr, ps, hsplit, hres⟩ := C03_roundtrip_sym_bytes_ring P hP bs hbs hbs32 sender rs eph payloadKey pt hpk
    hsender hblocks sks hfor f keys hf hlen htrue hsome L hL32 hid hsmall msg hmsg
  unfold Signcrypt.dearmor62Open
  rw [show Signcrypt.armorType = mtEncryption from rfl, hopen]
  simp only [hsplit, hres]

/-- **no key ⇒ `ErrNoDecryptionKey` through the armored opener**: a keyring
    none of whose keys derives a recipient identifier of the message, and a
    resolver (if any) that resolves nothing, make `Dearmor62SigncryptOpen` of
    the armored text fail with `ErrNoDecryptionKey` (the armor is accepted, the
    refusal is the signcryption receiver's) -/
theorem C03_signcrypt_armored_no_key (P : Prims) (hP : P.Lawful) (bs : Nat) (hbs : 0 < bs) (hbs32 : bs + 80 < 2 ^ 32)
    (sender : Option Bytes) (rs : List Signcrypt.Recipient) (eph payloadKey pt : Bytes)
    (hpk : payloadKey.length = 32)
    (sks : List Bytes)
    (hfor : ∀ s ∈ sks, ∀ j, j < (Signcrypt.header P sender eph payloadKey rs).receivers.length →
      Signcrypt.keyIdentifier P (Signcrypt.derivedKeyFromBoxKeys P (P.boxPub eph) s) j ≠
        Decrypt.kidOf ((Signcrypt.header P sender eph payloadKey rs).receivers.getD j default))
    (res : Signcrypt.Resolver)
    (hres : ∀ f, res = some f → ∃ keys,
      f ((Signcrypt.header P sender eph payloadKey rs).receivers.map Decrypt.kidOf) = .ok keys ∧
      keys.length = rs.length ∧ ∀ k ∈ keys, k = none)
    (L : Nat) (hL32 : 32 ≤ L)
    (hid : ∀ key ident, Signcrypt.Recipient.sym key ident ∈ rs → ident.length ≤ L)
    (hsmall : 145 + rs.length * (L + 63) < 2 ^ 32)
    (brand : Bytes) (hbr : Proofs.BrandOK brand)
    (text : Bytes) (htext : Signcrypt.sealArmor62 P bs sender rs eph payloadKey pt brand = .ok text) :
    Signcrypt.dearmor62Open P (Proofs.faithfulKeyring P sks) res text = .ok (.error .noDecryptionKey) := by
  obtain ⟨msg, hmsg, _, hopen, _⟩ := C03_sealArmor62_frames P bs sender rs eph payloadKey pt brand hbr text htext
  obtain ⟨hb, blks, hs, hsplit⟩ := Proofs.WireRT.sc_bytes_split P hP bs hbs hbs32 sender rs eph payloadKey pt hpk L hL32 hid
    hsmall msg hmsg
  have hno := (C03_no_key P bs sender rs eph payloadKey pt _ hb blks hs sks hfor res hres).1
  unfold Signcrypt.dearmor62Open
  rw [show Signcrypt.armorType = mtEncryption from rfl, hopen]
  simp only [hsplit, hno]

/-- **wrong frame type refused**: the armored text of an ATTACHED or DETACHED
    signature (or any text `seal62 typ …` of another armorable type) is refused
    by `Dearmor62SigncryptOpen` at the frame check, whatever the keyring -/
theorem C03_signcrypt_armored_wrong_frame_refused (P : Prims) (kr : Keyring) (res : Signcrypt.Resolver)
    (typ : Int) (ht : Proofs.Armorable typ) (hne : typ ≠ mtEncryption) (brand : Bytes) (hbr : Proofs.BrandOK brand)
    (msg : Bytes) :
    ∃ e, Signcrypt.dearmor62Open P kr res (seal62 typ brand msg) = .ok (.error e) := by
  obtain ⟨e, he⟩ := Proofs.open_seal_wrong_type typ mtEncryption ht (Or.inl rfl) hne brand hbr msg
  refine ⟨e, ?_⟩
  unfold Signcrypt.dearmor62Open
  rw [show Signcrypt.armorType = mtEncryption from rfl, he]

/-! ## non-vacuity: the symmetric-key toy message of Props/C03.lean, armored with brand "KB" -/

private def isOk {α : Type} : Except Err α → Bool
  | .ok _ => true
  | .error _ => false

example : Proofs.BrandOK [75, 66] := ⟨by decide, by decide⟩

example : isOk (Signcrypt.sealWith Toy.prims 4 none toySyms [2] (Toy.pad 32 [9]) [1, 2, 3, 4, 5]) = true := by decide

/-- the model's armored sender on the same toy message: it emits a text -/
example : isOk (Signcrypt.sealArmor62 Toy.prims 4 none toySyms [2] (Toy.pad 32 [9]) [1, 2, 3, 4, 5] [75, 66]) = true := by
  decide

/-- `C03_roundtrip_sym_armored` instantiated (empty keyring, a resolver that
    knows the second symmetric key only) -/
example (msg : Bytes) (hmsg : Signcrypt.sealWith Toy.prims 4 none toySyms [2] (Toy.pad 32 [9]) [1, 2, 3, 4, 5] = .ok msg) :
    ∃ r hr ps, open62 (some mtEncryption) (seal62 mtEncryption [75, 66] msg) = .ok r ∧
      r.payload = msg ∧ r.brand = [75, 66] ∧ Wire.splitSigncrypt r.payload = .ok (hr, ps) ∧
      Signcrypt.openAll Toy.prims (Proofs.faithfulKeyring Toy.prims [])
        (some (fun _ => .ok [none, some (Toy.pad 32 [1])])) hr ps = .ok (none, [1, 2, 3, 4, 5]) := by
  refine C03_roundtrip_sym_armored Toy.prims Toy.lawful 4 (by decide) (by decide) none toySyms [2] (Toy.pad 32 [9])
    [1, 2, 3, 4, 5] (by decide) (by intro s hs; cases hs) (by decide) [] (fun s hs => by cases hs) _
    [none, some (Toy.pad 32 [1])] rfl rfl ?_ ⟨1, Toy.pad 32 [1], rfl⟩ 32 (by decide) ?_ (by decide) [75, 66]
    ⟨by decide, by decide⟩ msg hmsg
  · intro j k hk
    match j with
    | 0 => simp at hk
    | 1 =>
      simp only [List.getElem?_cons_succ, List.getElem?_cons_zero, Option.some.injEq] at hk
      subst hk
      exact ⟨[6, 6], rfl⟩
    | j + 2 => simp at hk
  · intro key ident hmem
    have : (ident = [5, 5]) ∨ (ident = [6, 6]) := by
      simp only [toySyms, List.mem_cons, Signcrypt.Recipient.sym.injEq, List.not_mem_nil, or_false] at hmem
      rcases hmem with ⟨_, h⟩ | ⟨_, h⟩
      · exact Or.inl h
      · exact Or.inr h
    rcases this with rfl | rfl <;> decide

end Saltpack.Props.C03
