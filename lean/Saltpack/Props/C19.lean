/-
  Property C19 (second half) — the order of recipient entries is a uniformly
  distributed permutation, independent of the caller's order.

  * the bounded draw `csprngUint32n` is *exactly* uniform over the accepted
    source values: every result `r < n` is produced by exactly `⌊2^32/n⌋`
    of the `2^32` source values, and those form one interval; rejected values
    cause a redraw;
  * Fisher–Yates maps legal draw vectors bijectively onto the arrangements.

  (The hidden-identity half of C19 is in Props/C19Fields.lean.)
  Statements only; proofs in Saltpack/Proofs/Rand.lean.
-/
import Saltpack.Proofs.Rand

namespace Saltpack.Props.C19
open Saltpack Saltpack.Rand

/-! ## bounded draw -/

/-- The code's two-level test (`low < n`, then `low < -n % n`) rejects exactly
    the source values whose low product word is below `2^32 mod n`. -/
theorem C19_reject_iff (n v : Nat) (hn : 0 < n) (hn' : n < 2 ^ 32) :
    u32nStep n v = none ↔ (v * n) % 2 ^ 32 < 2 ^ 32 % n :=
  Proofs.step_reject_iff n v hn hn'

theorem C19_result_in_range (n v r : Nat) (hn : 0 < n) (hv : v < 2 ^ 32) :
    u32nStep n v = some r → r < n :=
  Proofs.step_range n v r hn hv

/-- **Exact uniformity.** For every bound `0 < n < 2^32` and every result
    `r < n`, the accepted source values that yield `r` are exactly the
    `⌊2^32/n⌋` consecutive values starting at some `lo`. -/
theorem C19_uint32n_uniform (n r : Nat) (hn : 0 < n) (hn' : n < 2 ^ 32) (hr : r < n) :
    ∃ lo, lo + 2 ^ 32 / n ≤ 2 ^ 32 ∧
      ∀ v, v < 2 ^ 32 → (u32nStep n v = some r ↔ lo ≤ v ∧ v < lo + 2 ^ 32 / n) :=
  Proofs.step_interval n r hn hn' hr

/-- the same as a count over all `2^32` source values -/
theorem C19_uint32n_count (n r : Nat) (hn : 0 < n) (hn' : n < 2 ^ 32) (hr : r < n) :
    ((List.range (2 ^ 32)).filter (fun v => u32nStep n v = some r)).length = 2 ^ 32 / n :=
  Proofs.step_count n r hn hn' hr

/-- a rejected value is skipped and the next one is drawn; an accepted one ends
    the draw and leaves the rest of the source untouched -/
theorem C19_redraw (n v : Nat) (vs : List Nat) :
    u32n n (v :: vs) = (match u32nStep n v with | some r => some (r, vs) | none => u32n n vs) := by
  rfl

/-! ## Fisher–Yates -/

/-- the output is a rearrangement of the input -/
theorem C19_shuffle_perm {α : Type} (js : List Nat) (l : List α) : (shuffle js l).Perm l :=
  Proofs.shuffle_perm js l

/-- different legal draw vectors give different arrangements (distinct items) -/
theorem C19_shuffle_injective {α : Type} (l : List α) (hl : l.Nodup) (js js' : List Nat)
    (h : ValidDraws (l.length - 1) js) (h' : ValidDraws (l.length - 1) js') :
    shuffle js l = shuffle js' l → js = js' :=
  Proofs.shuffle_injective l hl js js' h h'

/-- every arrangement arises from a legal draw vector -/
theorem C19_shuffle_surjective {α : Type} (l l' : List α) (hp : l'.Perm l) :
    ∃ js, ValidDraws (l.length - 1) js ∧ shuffle js l = l' :=
  Proofs.shuffle_surjective l l' hp

/-- **Bijection, hence independence of the caller's order**: whatever order the
    caller supplied the (distinct) recipients in, each target arrangement is
    reached by exactly one legal draw vector. -/
theorem C19_shuffle_bijection {α : Type} (l target : List α) (hl : l.Nodup) (hp : target.Perm l) :
    ∃ js, (ValidDraws (l.length - 1) js ∧ shuffle js l = target) ∧
      ∀ js', ValidDraws (l.length - 1) js' ∧ shuffle js' l = target → js' = js := by
  obtain ⟨js, hv, hs⟩ := C19_shuffle_surjective l target hp
  exact ⟨js, ⟨hv, hs⟩, fun js' h => C19_shuffle_injective l hl js' js h.1 hv (h.2.trans hs.symm)⟩

/-- the draws `csprngShuffle` extracts from source words are legal -/
theorem C19_drawsFrom_valid (k : Nat) (hk : k + 1 < 2 ^ 32) (vs js rest : List Nat)
    (hv : ∀ v ∈ vs, v < 2 ^ 32) :
    drawsFrom k vs = some (js, rest) → ValidDraws k js :=
  Proofs.drawsFrom_valid k hk vs js rest hv

/-! ## non-vacuity -/

example : u32nStep 3 0 = none ∧ u32nStep 3 1 = some 0 ∧ u32nStep 3 (2 ^ 32 - 1) = some 2 := by decide
example : shuffle [0, 1] [10, 20, 30] = [30, 20, 10] := by decide
example : ValidDraws 2 [0, 1] := by simp [ValidDraws]

end Saltpack.Props.C19
