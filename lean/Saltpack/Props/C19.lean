/-
  Property C19 (second half) — the order of recipient entries is a uniformly
  distributed permutation, independent of the caller's order.

  * the bounded draw `csprngUint32n` is *exactly* uniform over the accepted
    source values: every result `r < n` is produced by exactly `⌊2^32/n⌋`
    of the `2^32` source values, and those form one interval; rejected values
    cause a redraw;
  * Fisher–Yates maps legal draw vectors bijectively onto the arrangements.

  (The hidden-identity half of C19 is in Props/C19Fields.lean.)
  Statements only; proofs in Saltpack/Proofs/Rand.lean and (the link between
  the byte-level shuffle of the sender models and these word-level facts)
  Saltpack/Proofs/RandBytes.lean.
-/
import Saltpack.Proofs.Rand
import Saltpack.Proofs.RandBytes

namespace Saltpack.Props.C19
open Saltpack Saltpack.Rand

/-! ## bounded draw -/

/-- The code's two-level test (`low < n`, then `low < -n % n`) rejects exactly
    the source values whose low product word is below `2^32 mod n`. -/
theorem C19_reject_iff (n v : Nat) (hn : 0 < n) (hn' : n < 2 ^ 32) :
    u32nStep n v = none ↔ (v * n) % 2 ^ 32 < 2 ^ 32 % n :=
  Proofs.step_reject_iff n v hn hn'

theorem C19_result_in_range (n v r : Nat) (hn : 0 < n) (hv : v < 2 ^ 32) :
    u32nStep n v = some r → r < n :=
  Proofs.step_range n v r hn hv

/-- **Exact uniformity.** For every bound `0 < n < 2^32` and every result
    `r < n`, the accepted source values that yield `r` are exactly the
    `⌊2^32/n⌋` consecutive values starting at some `lo`. -/
theorem C19_uint32n_uniform (n r : Nat) (hn : 0 < n) (hn' : n < 2 ^ 32) (hr : r < n) :
    ∃ lo, lo + 2 ^ 32 / n ≤ 2 ^ 32 ∧
      ∀ v, v < 2 ^ 32 → (u32nStep n v = some r ↔ lo ≤ v ∧ v < lo + 2 ^ 32 / n) :=
  Proofs.step_interval n r hn hn' hr

/-- the same as a count over all `2^32` source values -/
theorem C19_uint32n_count (n r : Nat) (hn : 0 < n) (hn' : n < 2 ^ 32) (hr : r < n) :
    ((List.range (2 ^ 32)).filter (fun v => u32nStep n v = some r)).length = 2 ^ 32 / n :=
  Proofs.step_count n r hn hn' hr

/-- a rejected value is skipped and the next one is drawn; an accepted one ends
    the draw and leaves the rest of the source untouched -/
theorem C19_redraw (n v : Nat) (vs : List Nat) :
    u32n n (v :: vs) = (match u32nStep n v with | some r => some (r, vs) | none => u32n n vs) := by
  rfl

/-! ## Fisher–Yates -/

/-- the output is a rearrangement of the input -/
theorem C19_shuffle_perm {α : Type} (js : List Nat) (l : List α) : (shuffle js l).Perm l :=
  Proofs.shuffle_perm js l

/-- different legal draw vectors give different arrangements (distinct items) -/
theorem C19_shuffle_injective {α : Type} (l : List α) (hl : l.Nodup) (js js' : List Nat)
    (h : ValidDraws (l.length - 1) js) (h' : ValidDraws (l.length - 1) js') :
    shuffle js l = shuffle js' l → js = js' :=
  Proofs.shuffle_injective l hl js js' h h'

/-- every arrangement arises from a legal draw vector -/
theorem C19_shuffle_surjective {α : Type} (l l' : List α) (hp : l'.Perm l) :
    ∃ js, ValidDraws (l.length - 1) js ∧ shuffle js l = l' :=
  Proofs.shuffle_surjective l l' hp

/-- **Bijection, hence independence of the caller's order**: whatever order the
    caller supplied the (distinct) recipients in, each target arrangement is
    reached by exactly one legal draw vector. -/
theorem C19_shuffle_bijection {α : Type} (l target : List α) (hl : l.Nodup) (hp : target.Perm l) :
    ∃ js, (ValidDraws (l.length - 1) js ∧ shuffle js l = target) ∧
      ∀ js', ValidDraws (l.length - 1) js' ∧ shuffle js' l = target → js' = js := by
  obtain ⟨js, hv, hs⟩ := C19_shuffle_surjective l target hp
  exact ⟨js, ⟨hv, hs⟩, fun js' h => C19_shuffle_injective l hl js' js h.1 hv (h.2.trans hs.symm)⟩

/-- the draws `csprngShuffle` extracts from source words are legal -/
theorem C19_drawsFrom_valid (k : Nat) (hk : k + 1 < 2 ^ 32) (vs js rest : List Nat)
    (hv : ∀ v ∈ vs, v < 2 ^ 32) :
    drawsFrom k vs = some (js, rest) → ValidDraws k js :=
  Proofs.drawsFrom_valid k hk vs js rest hv

/-! ## the sender models: from source bytes to the header order

  `Encrypt.sealRand` / `Signcrypt.sealRand` do not call `Rand.u32n` /
  `Rand.drawsFrom`; they run `Encrypt.shuffleDraws` over the byte source.  These
  theorems close the gap: the byte-level draws *are* `drawsFrom` of the 32-bit
  big-endian words read from the source, they are legal, and the recipient
  order of the emitted header is `Rand.shuffle` of them — so
  `C19_uint32n_uniform` and `C19_shuffle_bijection` reach the header order. -/

/-- `readWords c`: `c` successive full reads of 4 bytes, each taken as a
    big-endian word (`csprngUint32`) -/
theorem C19_readWords_def (c : Nat) (src : Source) :
    Proofs.readWords 0 src = some ([], src) ∧
    Proofs.readWords (c + 1) src =
      (match readFull 4 src with
       | none => none
       | some (b, src') =>
         match Proofs.readWords c src' with
         | none => none
         | some (ws, rest) => some (natOfBytes b :: ws, rest)) :=
  ⟨rfl, rfl⟩

/-- the draws of the byte-level shuffle are legal Fisher–Yates draws -/
theorem C19_shuffleDraws_valid (k : Nat) (src : Source) (fuel : Nat) (js : List Nat) (rest : Source)
    (h : Encrypt.shuffleDraws k src fuel = .ok (js, rest)) : ValidDraws k js :=
  Proofs.shuffleDraws_valid k src fuel js rest h

/-- **the byte-level draws are the word-level draws**: a successful
    `shuffleDraws k` read some number `c` of 32-bit words `ws` (each `< 2^32`)
    from the source, up to the returned rest, and its draw vector is
    `drawsFrom k ws` with every word consumed -/
theorem C19_shuffleDraws_are_drawsFrom (k : Nat) (src : Source) (fuel : Nat) (js : List Nat) (rest : Source)
    (h : Encrypt.shuffleDraws k src fuel = .ok (js, rest)) :
    ∃ c ws, Proofs.readWords c src = some (ws, rest) ∧ (∀ w ∈ ws, w < 2 ^ 32) ∧
      drawsFrom k ws = some (js, []) :=
  Proofs.shuffleDraws_words k src fuel js rest h

/-- **`Seal`: the header order is the shuffle.**  The message `sealRand` emits
    consists of the header packet of a header `hd` and the payload packets, where
    `hd.receivers` are the entries built for `Rand.shuffle js rs` in this order
    (key-id column spelled out), `js` being legal draws that are `drawsFrom` of
    the words `ws` read first from the source. -/
theorem C19_header_order_is_shuffle (P : Prims) (bs : Nat) (v : Version) (sender : Option Bytes)
    (rs : List Encrypt.Recipient) (eph : Encrypt.EphSource) (src : Source) (pt m : Bytes) (rest : Source)
    (h : Encrypt.sealRand P bs v sender rs eph src pt = .ok (m, rest)) :
    ∃ js src1 c ws ephSec pk hd hb blks body,
      Proofs.readWords c src = some (ws, src1) ∧ (∀ w ∈ ws, w < 2 ^ 32) ∧
      drawsFrom (rs.length - 1) ws = some (js, []) ∧
      ValidDraws (rs.length - 1) js ∧
      Encrypt.sealPackets P bs v sender (shuffle js rs) ephSec pk pt = .ok (hd, hb, blks) ∧
      Encrypt.encodeBlocks v blks = .ok body ∧
      m = headerPacket hb ++ body ∧ hb = Msgpack.encode hd.toVal ∧
      Encrypt.receiverEntries P v ephSec pk (shuffle js rs) 0 = .ok hd.receivers ∧
      hd.receivers.map (·.kid) = (shuffle js rs).map (fun r => if r.hidden then none else some r.pub) :=
  Proofs.sealRand_header_order P bs v sender rs eph src pt m rest h

/-- the same for `SigncryptSeal` (box keys followed by symmetric keys, shuffled
    together) -/
theorem C19_signcrypt_header_order_is_shuffle (P : Prims) (bs : Nat) (sender : Option Bytes)
    (boxes syms : List Signcrypt.Recipient) (eph : Encrypt.EphSource) (src : Source) (pt m : Bytes) (rest : Source)
    (h : Signcrypt.sealRand P bs sender boxes syms eph src pt = .ok (m, rest)) :
    ∃ js src1 c ws ephSec pk hd hb blks,
      Proofs.readWords c src = some (ws, src1) ∧ (∀ w ∈ ws, w < 2 ^ 32) ∧
      drawsFrom ((boxes ++ syms).length - 1) ws = some (js, []) ∧
      ValidDraws ((boxes ++ syms).length - 1) js ∧
      Signcrypt.sealPackets P bs sender (shuffle js (boxes ++ syms)) ephSec pk pt = .ok (hd, hb, blks) ∧
      m = headerPacket hb ++ Signcrypt.encodeBlocks blks ∧ hb = Msgpack.encode hd.toVal ∧
      hd.receivers = Signcrypt.receiverEntries P ephSec pk (shuffle js (boxes ++ syms)) 0 :=
  Proofs.sc_sealRand_header_order P bs sender boxes syms eph src pt m rest h

/-- composed with the bijection: for distinct recipients, every arrangement
    `target` of the caller's list is the header order for exactly one legal draw
    vector — whatever order the caller used -/
theorem C19_header_order_reaches_all (rs target : List Encrypt.Recipient) (hl : rs.Nodup) (hp : target.Perm rs) :
    ∃ js, (ValidDraws (rs.length - 1) js ∧ shuffle js rs = target) ∧
      ∀ js', ValidDraws (rs.length - 1) js' ∧ shuffle js' rs = target → js' = js :=
  C19_shuffle_bijection rs target hl hp

/-! ## non-vacuity -/

example : u32nStep 3 0 = none ∧ u32nStep 3 1 = some 0 ∧ u32nStep 3 (2 ^ 32 - 1) = some 2 := by decide
example : shuffle [0, 1] [10, 20, 30] = [30, 20, 10] := by decide
example : ValidDraws 2 [0, 1] := by simp [ValidDraws]
/-- byte level: word 0 is rejected for bound 3 and redrawn; word 1 gives 0;
    word `2^32-1` gives 1 for bound 2 -/
example : Encrypt.shuffleDraws 2 [⟨[0, 0, 0, 0], false⟩, ⟨[0, 0, 0, 1], false⟩, ⟨[255, 255, 255, 255], false⟩] 4
    = .ok ([0, 1], []) := by decide
example : Proofs.readWords 3 [⟨[0, 0, 0, 0], false⟩, ⟨[0, 0, 0, 1], false⟩, ⟨[255, 255, 255, 255], false⟩]
    = some ([0, 1, 2 ^ 32 - 1], []) := by decide
example : drawsFrom 2 [0, 1, 2 ^ 32 - 1] = some ([0, 1], []) := by decide

end Saltpack.Props.C19
