/-
  C12 (long-term keys only touch saltpack-specific inputs) at the BYTE level:
  for EVERY byte string handed to the receivers.

  `Props/C12.lean` fixes the form of every call on a long-term key object for a
  decoded header `.ok hb h`.  Here: whatever bytes arrive, every call that
  `Decrypt.openBytes` / `Signcrypt.openBytes` (Model/Front.lean: front end +
  receiver) makes has that form with respect to the header the front end decoded
  from THESE bytes — `Wire`'s view or go-codec's typed decode (map-shaped headers,
  recipient lists given as maps, boxes given as arrays of integers, … included) —
  and without a decodable header no key object is touched at all.
  (Verification uses no long-term SECRET key; `Sign.verifyBytes` has no call log.)

  Statements only; proofs in Saltpack/Proofs/Calls.lean, CallsExact.lean, CodecBytes.lean.
-/
import Saltpack.Proofs.Calls
import Saltpack.Proofs.CallsExact
import Saltpack.Proofs.CodecBytes
import Saltpack.Toy

namespace Saltpack.Props.C12
open Saltpack Saltpack.Proofs

/-- **Decryption, every byte string.**  Every call on a long-term key object is
    made for a header `h` (bytes `hb`) that the front end decoded from `msg`, and is

    * `Unbox` / shared `Unbox` with the nonce `Nonce.payloadKeyBox h.version j` of a
      recipient INDEX `j` below the header's recipient count, on the box of the
      header's `j`-th entry, against the header's ephemeral key as imported;
    * `Box` of 32 zero bytes under a MAC-key nonce of the header hash `P.hash hb`;
    * `Precompute` of a keyring secret key with the imported ephemeral key;

    never a shared `Box`, never a `Sign`. -/
theorem C12_decrypt_calls_bytes (P : Prims) (valid : Validator) (kr : Keyring) (msg : Bytes) (r : Decrypt.Result)
    (hopen : Decrypt.openBytes P valid kr msg = .ok r) :
    ∀ c ∈ r.calls, ∃ hb h ps, Front.readEnc msg = .ok (.ok hb h, ps) ∧
      match c with
      | .unbox _ pk n ct =>
        kr.importBoxEphemeralKey h.ephemeral = some pk ∧
        ∃ j, j < h.receivers.length ∧ Nonce.payloadKeyBox h.version j = .ok n ∧
          ct = (h.receivers.getD j default).box
      | .sharedUnbox sk pk n ct =>
        sk ∈ kr.getAllBoxSecretKeys ∧ kr.importBoxEphemeralKey h.ephemeral = some pk ∧
        ∃ j, j < h.receivers.length ∧ Nonce.payloadKeyBox h.version j = .ok n ∧
          ct = (h.receivers.getD j default).box
      | .box _ _ n m =>
        m = zeros 32 ∧ ∃ j, j < h.receivers.length ∧
          ((h.version.major = 1 ∧ n = Nonce.macKeyBoxV1 (P.hash hb)) ∨
           (h.version.major = 2 ∧ ∃ e : Bool, n = Nonce.macKeyBoxV2 (P.hash hb) e j))
      | .precompute sk pk =>
        sk ∈ kr.getAllBoxSecretKeys ∧ kr.importBoxEphemeralKey h.ephemeral = some pk
      | .sharedBox _ _ _ _ => False
      | .sign _ _ => False := by
  intro c hc
  obtain ⟨hr, ps, hrd, rfl⟩ := dec_openBytes_ok hopen
  cases hr with
  | ok hb h =>
    refine ⟨hb, h, ps, hrd, ?_⟩
    have := dec_calls_exact P valid kr hb h ps c hc
    cases c <;> exact this
  | unreadable => rw [dec_calls_no_header P valid kr _ ps (by intro _ _ h; cases h)] at hc; cases hc
  | undecodable _ => rw [dec_calls_no_header P valid kr _ ps (by intro _ _ h; cases h)] at hc; cases hc

/-- a byte string without a decodable header touches no key object -/
theorem C12_decrypt_no_header_no_calls_bytes (P : Prims) (valid : Validator) (kr : Keyring) (msg : Bytes)
    (r : Decrypt.Result) (hopen : Decrypt.openBytes P valid kr msg = .ok r)
    (hno : ∀ hb h ps, Front.readEnc msg ≠ .ok (.ok hb h, ps)) : r.calls = [] := by
  obtain ⟨hr, ps, hrd, rfl⟩ := dec_openBytes_ok hopen
  exact dec_calls_no_header P valid kr hr ps (fun hb h e => hno hb h ps (e ▸ hrd))

/-- **Signcryption, every byte string.**  The box secret keys only ever box 32
    zero bytes under the fixed `saltpack_derived_sboxkey` nonce. -/
theorem C12_signcrypt_open_calls_bytes (P : Prims) (kr : Keyring) (res : Signcrypt.Resolver) (msg : Bytes)
    (r : Signcrypt.Result) (hopen : Signcrypt.openBytes P kr res msg = .ok r) :
    ∀ c ∈ r.calls, ∃ sk pk, c = .box sk pk Nonce.derivedSharedKey (zeros 32) := by
  obtain ⟨hr, ps, _, rfl⟩ := sc_openBytes_ok hopen
  exact sc_calls_ok P kr res hr ps

/-- exact form: no call at all, or — for a header `h` the front end decoded from
    `msg` — exactly one such `Box` per box secret key of the keyring, in keyring
    order, against `h`'s ephemeral key as imported -/
theorem C12_signcrypt_open_calls_exact_bytes (P : Prims) (kr : Keyring) (res : Signcrypt.Resolver) (msg : Bytes)
    (r : Signcrypt.Result) (hopen : Signcrypt.openBytes P kr res msg = .ok r) :
    r.calls = [] ∨
    ∃ hb h ps eph, Front.readSigncrypt msg = .ok (.ok hb h, ps) ∧ kr.importBoxEphemeralKey h.ephemeral = some eph ∧
      r.calls = kr.getAllBoxSecretKeys.map (fun sk => KeyCall.box sk eph Nonce.derivedSharedKey (zeros 32)) := by
  obtain ⟨hr, ps, hrd, rfl⟩ := sc_openBytes_ok hopen
  cases hr with
  | ok hb h =>
    rcases sc_calls_exact P kr res hb h ps with h0 | ⟨eph, h1, h2⟩
    · exact Or.inl h0
    · exact Or.inr ⟨hb, h, ps, eph, hrd, h1, h2⟩
  | unreadable => exact Or.inl rfl
  | undecodable _ => exact Or.inl rfl

/-! ## a concrete hostile byte string (kernel-evaluated)

  An encryption header (array form, V2) whose recipient LIST is a fixmap of one
  pair — read by go-codec as two flat elements — the first entry hidden (`kid`
  nil) with its payload-key box given as an ARRAY OF INTEGERS `[1, 2, 3]`, the
  second named.  The spec-shaped reader calls it unmodelled.  The keyring has one
  secret key and no named key: the log is `Precompute`, then one shared `Unbox`
  with the fixed V2 nonce of index 0 on exactly the box of entry 0 — nothing
  else of the attacker's bytes reaches the key. -/

def hostileHeader : Bytes :=
  [0x96] ++ Msgpack.encStr Gen.c_sp_FormatName ++ [0x92, 0x02, 0x00, 0x00] ++
  Msgpack.encBin (List.replicate 32 5) ++ Msgpack.encBin [9] ++
  [0x81, 0x92, 0xc0, 0x93, 0x01, 0x02, 0x03, 0x92, 0xc4, 0x01, 0x07, 0xc4, 0x01, 0x08]

def hostileMsg : Bytes := headerPacket hostileHeader

def oneKeyRing : Keyring := ⟨fun _ => (-1, none), fun _ => none, [[42]], fun k => some k, fun _ => none⟩

example : (match Wire.splitEnc hostileMsg with | .unmodelled _ => true | .ok _ => false) = true := by decide

example : (Front.readEnc hostileMsg).toOption.map (fun x => match x.1 with
      | .ok _ h => some h.receivers
      | _ => none) = some (some [⟨none, [1, 2, 3]⟩, ⟨some [7], [8]⟩]) := by decide

example : (Decrypt.openBytes Toy.prims knownMajor oneKeyRing hostileMsg).toOption.map (fun r => (r.err, r.calls)) =
    some (some .noDecryptionKey,
      [.precompute [42] (List.replicate 32 5),
       .sharedUnbox [42] (List.replicate 32 5) (Nonce.payloadKeyBoxV2 0) [1, 2, 3]]) := by decide

end Saltpack.Props.C12
