/-
  C07 (detached signatures) at the BYTE level: for EVERY signature byte string
  handed to `VerifyDetached` / `VerifyDetachedReader`.

  `Props/C07.lean` states soundness for a decoded header read and signature read.
  Here both are what the front end (`Front.readDetached`: go-codec's typed
  decoding `Codec` — map-shaped headers, a signature given as an array of
  integers, … included; the spec-shaped reader `Wire` only where `Codec` says
  unmodelled) makes of the bytes.

  Statements only; proofs in Saltpack/Proofs/CodecBytes.lean, CodecBytesBridge.lean, RoundTripSig.lean, WireRT.lean.
-/
import Saltpack.Props.C07
import Saltpack.Proofs.CodecBytes
import Saltpack.Proofs.CodecBytesBridge

namespace Saltpack.Props.C07
open Saltpack Saltpack.Proofs

/-- **Soundness, every byte string.**  Verification of `(msg, sigMsg)` succeeds
    only if the front end decoded from `sigMsg` a header `h` (bytes `hb`) naming
    saltpack, an admitted version and the detached mode, and a signature object
    `sg` that verifies, under the key the keyring returned for `h.senderPublic`, on
    exactly `"saltpack detached signature\0" ‖ hash(hash(hb) ‖ msg)`. -/
theorem C07_sound_bytes (P : Prims) (valid : Validator) (kr : Keyring) (sigMsg msg k : Bytes)
    (hok : Sign.verifyDetachedBytes P valid kr sigMsg msg = .ok (.ok k)) :
    ∃ hb h sg, Front.readDetached sigMsg = .ok (.ok hb h, .sig sg) ∧
      h.formatName = Gen.c_sp_FormatName ∧ valid h.version = true ∧ h.typ = mtDetached ∧
      kr.lookupSigningPublicKey h.senderPublic = some k ∧
      P.verify k (Gen.c_sp_signatureDetachedString ++ P.hash (P.hash hb ++ msg)) sg = true := by
  obtain ⟨hr, sr, hrd, he⟩ := sig_verifyDetachedBytes_ok hok
  obtain ⟨hb, h, sg, rfl, rfl, rest⟩ := detached_sound P valid kr hr sr msg k he.symm
  exact ⟨hb, h, sg, hrd, rest⟩

/-- **Soundness as a reduction, every byte string**: the accepted pair is one the
    owner of the key signed (same header hash, same message), or the anchored
    break of `C07_sound_or_break` holds for the header bytes and signature decoded
    from `sigMsg`. -/
theorem C07_sound_or_break_bytes (P : Prims) (hP : P.Lawful) (valid : Validator) (kr : Keyring)
    (sigMsg msg k : Bytes) (H : List DetachedEvent) (hlen : ∀ e ∈ H, e.headerHash.length = 64)
    (hok : Sign.verifyDetachedBytes P valid kr sigMsg msg = .ok (.ok k)) :
    ∃ hb h sg, Front.readDetached sigMsg = .ok (.ok hb h, .sig sg) ∧
      kr.lookupSigningPublicKey h.senderPublic = some k ∧
      ((∃ e ∈ H, e.headerHash = P.hash hb ∧ e.msg = msg) ∨ DetachedBreakIn P k H hb msg sg) := by
  obtain ⟨hr, sr, hrd, he⟩ := sig_verifyDetachedBytes_ok hok
  obtain ⟨hb, h, sg, rfl, rfl, hk, hb2⟩ := C07_sound_or_break P hP valid kr hr sr msg k H hlen he.symm
  exact ⟨hb, h, sg, hrd, hk, hb2⟩

/-- failure is an error value: whatever the bytes, the verifier answers `ok k`
    or one of the model's error classes, and a missing / undecodable signature
    object is "the input ended" or a decode error.  (`Err.unexpectedEOF` is the
    model's one class for an ended input: `VerifyDetachedReader` returns the
    decoder's RAW `io.EOF` for a missing signature object — it does not convert it
    to `io.ErrUnexpectedEOF` as `getNextChunk` does; the two Go values are one
    class in the model and are not told apart by the correspondence's comparison,
    see `Front.detSig`.) -/
theorem C07_sigread_plain_bytes (sigMsg : Bytes) (hr : HeaderRead SigHeader) (sr : Sign.SigRead)
    (h : Front.readDetached sigMsg = .ok (hr, sr)) : ∀ e, sr = .none e → e = .unexpectedEOF ∨ e = .decodeError :=
  readDetached_plain sigMsg hr sr h

/-- **Round trip on the emitted bytes through the front end**: what `SignDetached`
    emits is read by the byte-level verifier and verifies against the message -/
theorem C07_roundtrip_bytes_front (P : Prims) (hP : P.Lawful)
    (v : Version) (signer nonce msg : Bytes) (hn : nonce.length + 92 < 2 ^ 32)
    (kr : Keyring) (hk : kr.lookupSigningPublicKey (P.sigPub signer) = some (P.sigPub signer))
    (out : Bytes) (hout : Sign.detachedWith P v signer nonce msg = .ok out) :
    Sign.verifyDetachedBytes P knownMajor kr out msg = .ok (.ok (P.sigPub signer)) := by
  obtain ⟨hr, sr, hs, hv⟩ := C07_roundtrip_bytes P hP v signer nonce msg hn kr hk out hout
  -- the bridge: on what `SignDetached` emits go-codec's typed reader gives the same read as the spec-shaped one
  obtain ⟨hb, h, sg, hw, hc⟩ := CodecP.bridge_seal_detached P (WireSizes.of_lawful hP) v signer nonce msg out hn hout
  rw [hs] at hw
  injection hw with hw
  injection hw with e1 e2
  subst e1 e2
  have hrd : Front.readDetached out = .ok (.ok hb h, .sig sg) := orWire_of_codec (codecDetached_of_ok hc)
  rw [sig_verifyDetachedBytes_of_read hrd, hv]

/-! ## a concrete hostile byte string (kernel-evaluated)

  A detached signature whose signature object is an ARRAY OF INTEGERS
  (`93 01 02 03`) instead of a bin: the spec-shaped reader calls it unmodelled,
  go-codec's `DecodeBytes` reads the bytes `[1, 2, 3]`; they do not verify. -/

def hostileDetached : Bytes :=
  headerPacket (Msgpack.encode (Sign.header v2 [1] mtDetached [2]).toVal) ++ [0x93, 0x01, 0x02, 0x03]

def anyRing : Keyring := ⟨fun _ => (-1, none), fun _ => none, [], fun _ => none, fun k => some k⟩

example : (match Wire.splitDetached hostileDetached with | .unmodelled _ => true | .ok _ => false) = true := by decide

example : (Front.readDetached hostileDetached).toOption.map (fun x => match x.2 with | .sig s => some s | _ => none) =
    some (some [1, 2, 3]) := by decide

example : Sign.verifyDetachedBytes Toy.prims knownMajor anyRing hostileDetached [0x41] = .ok (.error .badSignature) := by
  decide

/-- the same signature object carrying the genuine (toy) signature, still as an
    array of integers, verifies: leniently decoded input is covered by `C07_sound_bytes` -/
def goodHeader : Bytes := Msgpack.encode (Sign.header v2 (Toy.prims.sigPub [1]) mtDetached [2]).toVal

def goodArrayDetached : Bytes :=
  headerPacket goodHeader ++ [0xdc, 0x00, 0x40] ++
    ((Toy.prims.sign [1] (detachedSignatureInput Toy.prims (Toy.prims.hash goodHeader) [0x41])).map
      (fun x => if x < 128 then [x] else [0xcc, x])).flatten

example : Sign.verifyDetachedBytes Toy.prims knownMajor anyRing goodArrayDetached [0x41] =
    .ok (.ok (Toy.prims.sigPub [1])) := by decide +kernel

end Saltpack.Props.C07
