/-
  Property C16 — stream classification is correct, prefix-stable and
  side-effect free.  Statements only; proofs in Saltpack/Proofs/ClassifyLemmas.lean
  (+ ClassifyAux).

  `Classify.binarySlice`, `armoredPrefix`, `classifyStream` model
  `IsSaltpackBinarySlice`, `IsSaltpackArmoredPrefix` (its three regular
  expressions re-implemented as recognisers) and `ClassifyStream`; they are
  compared with the implementation on every prefix length of genuine messages
  of all modes × versions × brands × re-flows, on bufio readers of sizes from
  the documented minimum upward, and on ~2 000 non-saltpack and near-miss
  strings per quick run.  The dispatch of `ClassifyEncryptedStreamAndMakeDecoder`
  is checked by the implementation-side predicate (same plaintext and identities
  as the direct entry point).
  Partial: prefix stability of the armored classifier is proved for every prefix
  of the frame line — canonical or re-flowed —, for the frame with its period, and
  for texts that do not yet show a full first block; beyond that (first block
  present) it is the binary classifier on the bytes decoded from this very prefix
  (`C16_armored_sound`), covered for genuine messages by the every-prefix
  correspondence.  Non-consumption itself (the reader still delivers every byte
  afterwards) is observed by the correspondence (remaining-bytes check); the
  model side is `C16_peeks_only`.
-/
import Saltpack.Proofs.ClassifyLemmas

namespace Saltpack.Props.C16
open Saltpack Saltpack.Classify Saltpack.Msgpack Saltpack.Proofs

/-- fewer than 23 bytes: "more data is needed" — never "not saltpack" -/
theorem C16_binary_short (b : Bytes) (h : b.length < 23) : binarySlice b = .short :=
  bin_short b h

/-- **Binary classification is correct** for every header start a
    spec-following sender can write — any bin tag width, any array tag width, the
    format name, `[major, minor]` (also unknown minors), the mode: these fit in
    23 bytes even with bin32 and array32 tags — whatever follows… -/
theorem C16_binary_correct (btag atag tail : Bytes) (hb : IsBinTag btag) (ha : IsArrTag atag)
    (ma mi t : Nat) (hma : ma < 128) (hmi : mi < 128) (ht : isMode (t : Int) = true)
    (hlen : 23 ≤ (btag ++ atag ++ encode (.str Gen.c_sp_FormatName) ++ encode (.arr [.int ma, .int mi]) ++ encode (.int t) ++ tail).length) :
    binarySlice (btag ++ atag ++ encode (.str Gen.c_sp_FormatName) ++ encode (.arr [.int ma, .int mi]) ++ encode (.int t) ++ tail) =
      .ok ((t : Int), ⟨ma, mi⟩) :=
  bin_correct btag atag tail hb ha ma mi t hma hmi ht hlen

/-- …and **prefix-stable**: every prefix of at least 23 bytes gets the same answer -/
theorem C16_binary_prefix_stable (btag atag tail : Bytes) (hb : IsBinTag btag) (ha : IsArrTag atag)
    (ma mi t : Nat) (hma : ma < 128) (hmi : mi < 128) (ht : isMode (t : Int) = true) (k : Nat) (hk : 23 ≤ k)
    (hlen : 23 ≤ (btag ++ atag ++ encode (.str Gen.c_sp_FormatName) ++ encode (.arr [.int ma, .int mi]) ++ encode (.int t) ++ tail).length) :
    binarySlice ((btag ++ atag ++ encode (.str Gen.c_sp_FormatName) ++ encode (.arr [.int ma, .int mi]) ++ encode (.int t) ++ tail).take k) =
      .ok ((t : Int), ⟨ma, mi⟩) :=
  bin_correct_prefix btag atag tail hb ha ma mi t hma hmi ht k hk hlen

/-- **Soundness**: whatever is classified really carries, in this order, a bin
    tag, an array tag, and — as go-codec's typed decoders (`Model/Codec.lean`) read
    them from the bytes that follow — the saltpack format name (`Decode(&string)`:
    bin, str or an array of small ints), that version (`Decode(&Version)`) and that
    mode (`Decode(&MessageType)`) -/
theorem C16_binary_sound (b : Bytes) (t : Int) (v : Version) (h : binarySlice b = .ok (t, v)) :
    isMode t = true ∧ 23 ≤ b.length ∧
    ∃ skip askip r1 r2 r3,
      (skip = 2 ∨ skip = 3 ∨ skip = 5) ∧ (askip = 1 ∨ askip = 3 ∨ askip = 5) ∧
      decName (b.drop (skip + askip)) = .ok (Gen.c_sp_FormatName, r1) ∧
      decVersionTop r1 = .ok (v, r2) ∧
      decMode r2 = .ok (t, r3) :=
  bin_sound b t v h

theorem C16_only_four_modes (b : Bytes) (t : Int) (v : Version) (h : binarySlice b = .ok (t, v)) :
    t = mtEncryption ∨ t = mtAttached ∨ t = mtDetached ∨ t = mtSigncryption :=
  bin_modes b t v h

/-- **Armored, prefix stability (frame)**: every prefix of a genuine frame line —
    any armorable type, any alphanumeric brand — is "short", never "not saltpack" -/
theorem C16_armored_frame_prefix (typ : Int) (ht : Armorable typ) (brand : Bytes) (hb : BrandOK brand) (k : Nat) :
    armoredPrefix ((Armor.header typ brand).take k) = .short :=
  arm_frame_prefix_short typ ht brand hb k

/-- **Armored, prefix stability (before the first block)**: the frame with its
    period but fewer than 43 payload characters is "short" -/
theorem C16_armored_needs_block (typ : Int) (ht : Armorable typ) (brand : Bytes) (hb : BrandOK brand) (body : Bytes)
    (hbody : ∀ c ∈ body, isAlnum c = true ∨ c = Armor.space)
    (hfew : (body.filter (· != Armor.space)).length < 43) :
    armoredPrefix (Armor.header typ brand ++ [Armor.period, Armor.space] ++ body) = .short :=
  arm_needs_block typ ht brand hb body hbody hfew

/-- **Armored, prefix stability (re-flowed frame)**: every prefix of every
    *variant* of a genuine frame line (separating spaces replaced by arbitrary
    non-empty runs of space / tab / CR / LF / '>', such runs added around — the
    notion of C11) is "short", never "not saltpack" -/
theorem C16_armored_reflowed_prefix (typ : Int) (ht : Armorable typ) (brand : Bytes) (hb : BrandOK brand)
    (f' : Bytes) (hv : FrameVariant (Armor.header typ brand) f') (k : Nat) :
    armoredPrefix (f'.take k) = .short :=
  arm_variant_prefix_short typ ht brand hb f' hv k

/-- **Armored, prefix stability (the period)**: the frame line with just its period -/
theorem C16_armored_frame_period (typ : Int) (ht : Armorable typ) (brand : Bytes) (hb : BrandOK brand) :
    armoredPrefix (Armor.header typ brand ++ [Armor.period]) = .short :=
  arm_frame_period typ ht brand hb

/-- …and with anything alphanumeric-or-space after the period that has fewer than
    43 payload characters (generalises `C16_armored_needs_block`) -/
theorem C16_armored_needs_block_gen (typ : Int) (ht : Armorable typ) (brand : Bytes) (hb : BrandOK brand) (w : Bytes)
    (hw : ∀ c ∈ w, isAlnum c = true ∨ c = Armor.space)
    (hfew : (w.filter (· != Armor.space)).length < 43) :
    armoredPrefix (Armor.header typ brand ++ [Armor.period] ++ w) = .short :=
  arm_needs_block_gen typ ht brand hb w hw hfew

/-- **Armored, soundness**: an answer is the binary classifier's answer on the
    bytes `dec` obtained by base62-decoding, block by block, the payload
    characters that *this very prefix* shows after its frame (`payload` is the
    regular expression's capture on the normalised prefix, `chars` its non-space
    characters; at least one full block, i.e. 32 bytes, was decoded), under the
    frame label of that very mode -/
theorem C16_armored_sound (pref brand : Bytes) (t : Int) (v : Version) (h : armoredPrefix pref = .ok (brand, t, v)) :
    ∃ typStr payload chars dec,
      matchHeader (Armor.trimSpace (Armor.collapse pref)) = some (brand, typStr, payload) ∧
      chars = payload.filter (· != Armor.space) ∧
      dec = (Basex.decodePrefix Gen.base62Std (chars.length + 1) chars).1 ∧
      32 ≤ dec.length ∧
      binarySlice dec = .ok (t, v) ∧
      (typStr = Gen.c_sp_EncryptionArmorString ∨ typStr = Gen.c_sp_SignedArmorString ∨
        typStr = Gen.c_sp_DetachedSignatureArmorString) ∧
      ((t = mtEncryption ∨ t = mtSigncryption) → typStr = Gen.c_sp_EncryptionArmorString) ∧
      (t = mtAttached → typStr = Gen.c_sp_SignedArmorString) ∧
      (t = mtDetached → typStr = Gen.c_sp_DetachedSignatureArmorString) :=
  arm_sound pref brand t v h

/-! ## the stream classifier -/

/-- **Peeks only**: the answer of `ClassifyStream` on a reader with buffer `size`
    depends on nothing but the first `size` bytes of the stream — exactly what
    `Peek(size)` returns without consuming.  (That the reader afterwards still
    delivers every byte is observed by the correspondence: remaining-bytes check.) -/
theorem C16_peeks_only (size : Nat) (a b : Bytes) (h : a.take size = b.take size) :
    classifyStream size a = classifyStream size b :=
  stream_peeks_only size a b h

/-- **The stream classifier on a genuine binary message** (header start as in
    `C16_binary_correct`), for every reader buffer of at least 23 bytes: not
    armored, no brand, the mode and version of the header -/
theorem C16_stream_binary_correct (btag atag tail : Bytes) (hb : IsBinTag btag) (ha : IsArrTag atag)
    (ma mi t : Nat) (hma : ma < 128) (hmi : mi < 128) (ht : isMode (t : Int) = true) (size : Nat) (hs : 23 ≤ size)
    (hlen : 23 ≤ (btag ++ atag ++ encode (.str Gen.c_sp_FormatName) ++ encode (.arr [.int ma, .int mi]) ++ encode (.int t) ++ tail).length) :
    classifyStream size (btag ++ atag ++ encode (.str Gen.c_sp_FormatName) ++ encode (.arr [.int ma, .int mi]) ++ encode (.int t) ++ tail) =
      .ok (false, [], (t : Int), ⟨ma, mi⟩) :=
  stream_binary_correct btag atag tail hb ha ma mi t hma hmi ht size hs hlen

/-- a text that starts with a bin8/bin16/bin32 tag byte is never taken for armor -/
theorem C16_binary_not_armored (k : UInt8) (hk : k = 0xc4 ∨ k = 0xc5 ∨ k = 0xc6) (y : Bytes) :
    armoredPrefix (k :: y) = .notSaltpack :=
  arm_binlead k hk y

/-- **The stream classifier on armored input**: whatever the armored classifier
    answers on the peeked bytes is the stream's answer, flagged as armored -/
theorem C16_stream_armored_correct (size : Nat) (m brand : Bytes) (t : Int) (v : Version)
    (h : armoredPrefix (m.take size) = .ok (brand, t, v)) :
    classifyStream size m = .ok (true, brand, t, v) :=
  stream_armored_correct size m brand t v h

/-! ## non-vacuity -/
example : IsBinTag [0xc4, 0x97] ∧ IsArrTag [0x96] := ⟨Or.inl ⟨_, rfl⟩, Or.inl ⟨0x96, by decide, by decide, rfl⟩⟩
example : isMode (3 : Int) = true := by decide

end Saltpack.Props.C16
