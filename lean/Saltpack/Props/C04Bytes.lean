/-
  C04 (signcryption: only authenticated plaintext is released) at the BYTE level:
  for EVERY byte string handed to `NewSigncryptOpenStream`.

  The packets are those the front end produced from the bytes
  (`Front.readSigncrypt`: go-codec's typed decoding `Codec`; `Wire` only where `Codec` says unmodelled), the
  state is the one `processHeader` returned for the header decoded from them.

  Statements only; proofs in Saltpack/Proofs/CodecBytesAuth.lean, Receiver.lean, Authentic.lean.
-/
import Saltpack.Proofs.CodecBytesAuth
import Saltpack.Toy

namespace Saltpack.Props.C04
open Saltpack Saltpack.Proofs

/-- **Every byte string: refusal, or a packet-level run.** -/
theorem C04_bytes_cases (P : Prims) (kr : Keyring) (res : Signcrypt.Resolver) (msg : Bytes) (r : Signcrypt.Result)
    (hopen : Signcrypt.openBytes P kr res msg = .ok r) :
    (r.released = [] ∧ r.err ≠ none ∧ r.sender = none) ∨
    ∃ hb h ps log st, Front.readSigncrypt msg = .ok (.ok hb h, ps) ∧
      Signcrypt.processHeader P kr res (P.hash hb) h = (log, .ok st) ∧
      r = ⟨st.sender, (Signcrypt.run P st ps.items ps.tail 1).bytes, (Signcrypt.run P st ps.items ps.tail 1).err, log⟩ :=
  sc_bytes_cases P kr res msg r hopen

/-- **Level A (in order, no gaps), every byte string.** -/
theorem C04_released_is_accepted_prefix_bytes (P : Prims) (kr : Keyring) (res : Signcrypt.Resolver) (msg : Bytes)
    (r : Signcrypt.Result) (hopen : Signcrypt.openBytes P kr res msg = .ok r) :
    (r.released = [] ∧ r.err ≠ none) ∨
    ∃ hb h ps log st, Front.readSigncrypt msg = .ok (.ok hb h, ps) ∧
      Signcrypt.processHeader P kr res (P.hash hb) h = (log, .ok st) ∧
      ∃ bs : List SigncryptBlock, (bs.map some) <+: ps.items ∧
        Chain (Sc.accept P st) (·.final) 1 bs r.released := by
  rcases sc_bytes_cases P kr res msg r hopen with ⟨a, b, _⟩ | ⟨hb, h, ps, log, st, h1, h2, rfl⟩
  · exact Or.inl ⟨a, b⟩
  · exact Or.inr ⟨hb, h, ps, log, st, h1, h2, Sc.run_prefix P st ps.items ps.tail 1⟩

/-- **Level A (complete iff clean), every byte string.** -/
theorem C04_clean_end_iff_complete_bytes (P : Prims) (kr : Keyring) (res : Signcrypt.Resolver) (msg : Bytes)
    (r : Signcrypt.Result) (hopen : Signcrypt.openBytes P kr res msg = .ok r) :
    r.err = none ↔
      ∃ hb h ps log st, Front.readSigncrypt msg = .ok (.ok hb h, ps) ∧
        Signcrypt.processHeader P kr res (P.hash hb) h = (log, .ok st) ∧
        ∃ bs : List SigncryptBlock, ps.items = bs.map some ∧ ps.tail = .eof ∧
          Complete (Sc.accept P st) (·.final) 1 bs r.released := by
  constructor
  · intro he
    rcases sc_bytes_cases P kr res msg r hopen with ⟨_, b, _⟩ | ⟨hb, h, ps, log, st, h1, h2, rfl⟩
    · exact (b he).elim
    · exact ⟨hb, h, ps, log, st, h1, h2, (Sc.run_ok_iff P st ps.items ps.tail 1).mp he⟩
  · rintro ⟨hb, h, ps, log, st, h1, h2, hc⟩
    have := sc_bytes_run P kr res msg hb h ps h1 log st h2
    rw [hopen] at this
    injection this with this
    subst this
    exact (Sc.run_ok_iff P st ps.items ps.tail 1).mpr hc

/-- the all-at-once form (`SigncryptOpen`) on what the front end read returns
    plaintext only if the streaming form on the same bytes ended cleanly, and then
    what the streaming form released, attributed to the sender it reports -/
theorem C04_all_at_once_only_if_clean_bytes (P : Prims) (kr : Keyring) (res : Signcrypt.Resolver) (msg : Bytes)
    (hr : HeaderRead EncHeader) (ps : PStream SigncryptBlock) (hread : Front.readSigncrypt msg = .ok (hr, ps))
    (snd : Option Bytes) (pt : Bytes) (h : Signcrypt.openAll P kr res hr ps = .ok (snd, pt)) :
    ∃ r, Signcrypt.openBytes P kr res msg = .ok r ∧ r.err = none ∧ r.released = pt ∧ r.sender = snd := by
  refine ⟨_, sc_openBytes_of_read hread, ?_⟩
  unfold Signcrypt.openAll at h
  generalize Signcrypt.openStream P kr res hr ps = r at h
  obtain ⟨sg, rel, err, calls⟩ := r
  cases err <;> simp_all

/-- **The reduction (named sender), every byte string.**  The front end read
    `msg` into header bytes `hb`, header `h`, packets `ps`; the receiver accepted
    the header with the named sender `spk`.  Released bytes are the first `m`
    chunks of ONE message the owner of `spk` signcrypted under the hash of THESE
    header bytes, all iff clean; or nothing and an error; or
    `AuthSc.BreakIn P st spk H ps.items` (`C04_break_def`) on the packets decoded
    from `msg`.  `hhl` of `C04_authentic_or_break` is discharged (lawful hash). -/
theorem C04_authentic_or_break_bytes (P : Prims) (hP : P.Lawful) (kr : Keyring) (res : Signcrypt.Resolver)
    (msg hb : Bytes) (h : EncHeader) (ps : PStream SigncryptBlock)
    (hread : Front.readSigncrypt msg = .ok (.ok hb h, ps))
    (log : List KeyCall) (st : Signcrypt.State)
    (hhdr : Signcrypt.processHeader P kr res (P.hash hb) h = (log, .ok st))
    (spk : Bytes) (hs : st.sender = some spk)
    (H : List AuthSc.Event)
    (hlen : ∀ e ∈ H, e.headerHash.length = 64)
    (hplan : ∀ e ∈ H, e.headerHash = P.hash hb → PlanOK e.plan ∧ e.plan.length < 2 ^ 64)
    (hone : ∀ e ∈ H, ∀ e' ∈ H, e.headerHash = P.hash hb → e'.headerHash = P.hash hb → e = e') :
    ∃ r, Signcrypt.openBytes P kr res msg = .ok r ∧ r.sender = some spk ∧
      (r.released = [] ∧ r.err ≠ none ∨
       (∃ e ∈ H, e.headerHash = P.hash hb ∧ ∃ m, m ≤ e.plan.length ∧ r.released = planPrefix e.plan m ∧
          (r.err = none → m = e.plan.length)) ∨
       AuthSc.BreakIn P st spk H ps.items) := by
  obtain ⟨hh, hhl⟩ := sc_state_ok P hP kr res hb h log st hhdr
  refine ⟨_, sc_bytes_run P kr res msg hb h ps hread log st hhdr, hs, ?_⟩
  have := AuthSc.authentic_or_break P hP st spk hs hhl H hlen (by rw [hh]; exact hplan) (by rw [hh]; exact hone)
    ps.items ps.tail
  rw [hh] at this
  exact this

/-! ## a concrete hostile byte string (kernel-evaluated)

  A signcryption message whose payload packet is a fixmap keyed by go-codec's
  FIELD NAMES in reverse order: `{"final": true, "ctext": [1, 2, 3]}` with the
  ciphertext an array of integers.  `Wire` calls it unmodelled; the front end
  decodes the block `⟨[1, 2, 3], true⟩`. -/

def hostileScMsg : Bytes :=
  headerPacket (Msgpack.encode (⟨Gen.c_sp_FormatName, v2, mtSigncryption, List.replicate 32 5, [9],
      [⟨some [7], [1, 2, 3]⟩]⟩ : EncHeader).toVal) ++
    [0x82, 0xa5, 0x66, 0x69, 0x6e, 0x61, 0x6c, 0xc3, 0xa5, 0x63, 0x74, 0x65, 0x78, 0x74, 0x93, 0x01, 0x02, 0x03]

def emptyRing : Keyring := ⟨fun _ => (-1, none), fun _ => none, [], fun k => some k, fun _ => none⟩

example : (match Wire.splitSigncrypt hostileScMsg with | .unmodelled _ => true | .ok _ => false) = true := by decide

example : (Front.readSigncrypt hostileScMsg).toOption.map (fun x => (x.2.items, x.2.tail)) =
    some ([some ⟨[1, 2, 3], true⟩], .eof) := by decide +kernel

example : (Signcrypt.openBytes Toy.prims emptyRing none hostileScMsg).toOption.map
    (fun r => (r.released, r.err)) = some ([], some .noDecryptionKey) := by decide +kernel

example : Toy.prims.Lawful := Toy.lawful

end Saltpack.Props.C04
