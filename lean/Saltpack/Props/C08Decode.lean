/-
  Property C08, the ORACLE side — the strict reference decoder `SpecDecode`
  (run on every byte string the implementation emits, harness streams `wire.*`)
  is itself verified against the reference sender `Spec` both ways.
  Statements only; proofs in Saltpack/Proofs/SpecDecode{Wire,Msg,Enc,Sig,Oracle,Sc,Model}.lean.

  Layers (Model/SpecDecode.lean):  bytes → strict MessagePack objects → typed
  wire fields `XMsg` (layer W, `parse`, inverse `render`) → cryptographic check
  (layer S, `check`).  For each mode:

    completeness   the oracle accepts every message the reference sender can
                   emit with `Opts = {}` on a plan obeying the chunk rules
                   `PlanOK` (specification + the receivers' empty-chunk
                   convention, see Model/SpecDecode.lean header; the Go sender's
                   plans obey them) and decodes exactly what went in;
    soundness      whatever the oracle accepts IS the reference encoding of the
                   decoded fields (no non-minimal MessagePack, no str-for-bin,
                   no nil-for-empty, no extra element, no trailing byte), every
                   recomputed nonce / key box / MAC / signature input is the
                   specified one — hence, for encryption (under `OpenCanonical`),
                   the accepted bytes are the reference sender's output for the
                   decoded inputs.  For signatures (and a named signcryption
                   sender) that last step needs `SigCanonical`, an IDEALISATION
                   that real Ed25519 does not satisfy for a key holder: with the
                   real primitives only the field-level conjuncts apply there.

  What the run-time check then establishes (`C08_oracle_sound`,
  `C08_oracle_sound_model`): the implementation's bytes, once accepted, are
  `Spec.encodePlan` of the decoded payload key / sender / recipients / chunks;
  the harness compares the decoded plaintext, sender and recipients with the
  inputs of `Seal`.
-/
import Saltpack.Proofs.SpecDecodeModel

namespace Saltpack.Props.C08
open Saltpack Saltpack.Spec Saltpack.SpecDecode Saltpack.Proofs Saltpack.Proofs.SDW

/-! ### MessagePack layer -/

/-- **soundness of the strict object reader**: an accepted byte string is the
    concatenation of the canonical (minimal) encodings of the objects returned —
    nothing else is ever accepted -/
theorem C08_strict_msgpack_sound (b : Bytes) (vs : List Msgpack.Val) (h : strictObjects b = .ok vs) :
    vs.flatMap Msgpack.encode = b :=
  strictObjects_sound h

/-- **completeness**: canonical encodings of well-formed objects are accepted -/
theorem C08_strict_msgpack_complete (vs : List Msgpack.Val) (hv : ∀ v ∈ vs, ValWF v) :
    strictObjects (vs.flatMap Msgpack.encode) = .ok vs :=
  strictObjects_complete vs hv

/-- canonicity: the strict reader is injective on what it accepts -/
theorem C08_strict_msgpack_injective (b b' : Bytes) (vs : List Msgpack.Val)
    (h : strictObjects b = .ok vs) (h' : strictObjects b' = .ok vs) : b = b' :=
  strictObjects_injective h h'

/-- a byte string that the LENIENT parser reads as `vs` without being the
    canonical encoding of `vs` is refused -/
theorem C08_strict_msgpack_rejects_noncanonical (b : Bytes) (vs : List Msgpack.Val)
    (hne : b ≠ vs.flatMap Msgpack.encode) : strictObjects b ≠ .ok vs :=
  strictObjects_rejects_noncanonical b vs hne

/-- non-vacuity: bin16 / str8 / wide-integer / fixarray-as-array16 forms and a
    trailing byte are refused; the canonical forms are accepted -/
example :
    (strictObjects [0xc4, 0x01, 0x07]).toBool = true ∧
    (strictObjects [0xc5, 0x00, 0x01, 0x07]).toBool = false ∧
    (strictObjects [0xd9, 0x01, 0x61]).toBool = false ∧
    (strictObjects [0xcd, 0x00, 0x05]).toBool = false ∧
    (strictObjects [0xdc, 0x00, 0x01, 0xc0]).toBool = false ∧
    (strictObjects [0xc4, 0x01, 0x07, 0xc1]).toBool = false ∧
    (strictObjects [0xc4, 0x01]).toBool = false := by
  decide +kernel

/-! ### layer W: typed wire fields, every mode -/

/-- **soundness / canonicity, encryption V1/V2**: `decode b = ok m → b = encode m` -/
theorem C08_decode_sound_encryption (b : Bytes) (m : EncMsg) (h : EncMsg.parse b = .ok m) : m.render = b :=
  EncMsg.parse_sound h

theorem C08_decode_sound_attached (b : Bytes) (m : AttMsg) (h : AttMsg.parse b = .ok m) : m.render = b :=
  AttMsg.parse_sound h

theorem C08_decode_sound_detached (b : Bytes) (m : DetMsg) (h : DetMsg.parse b = .ok m) : m.render = b :=
  DetMsg.parse_sound h

theorem C08_decode_sound_signcryption (b : Bytes) (m : ScMsg) (h : ScMsg.parse b = .ok m) : m.render = b :=
  ScMsg.parse_sound h

/-- **completeness**: `decode (encode m) = ok m` for all wire fields with the
    lengths the specification fixes (32-byte keys, 48-byte boxes, 32-byte
    authenticators, 64-byte signatures) inside the MessagePack limits -/
theorem C08_decode_complete_encryption (m : EncMsg) (hm : EncMsgWF m) : EncMsg.parse m.render = .ok m :=
  EncMsg.parse_complete m hm

theorem C08_decode_complete_attached (m : AttMsg) (hm : AttMsgWF m) (hn : m.nonce.length < 2 ^ 31) :
    AttMsg.parse m.render = .ok m :=
  AttMsg.parse_complete m hm hn

theorem C08_decode_complete_detached (m : DetMsg) (hm : DetMsgWF m) (hn : m.nonce.length < 2 ^ 31) :
    DetMsg.parse m.render = .ok m :=
  DetMsg.parse_complete m hm hn

theorem C08_decode_complete_signcryption (m : ScMsg) (hm : ScMsgWF m) : ScMsg.parse m.render = .ok m :=
  ScMsg.parse_complete m hm

/-- the decoder is injective on what it accepts: two byte strings decoded to
    the same fields are the same byte string (all four modes) -/
theorem C08_decode_injective :
    (∀ b b' m, EncMsg.parse b = .ok m → EncMsg.parse b' = .ok m → b = b') ∧
    (∀ b b' m, AttMsg.parse b = .ok m → AttMsg.parse b' = .ok m → b = b') ∧
    (∀ b b' m, DetMsg.parse b = .ok m → DetMsg.parse b' = .ok m → b = b') ∧
    (∀ b b' m, ScMsg.parse b = .ok m → ScMsg.parse b' = .ok m → b = b') :=
  ⟨fun _ _ _ h h' => (EncMsg.parse_sound h).symm.trans (EncMsg.parse_sound h'),
   fun _ _ _ h h' => (AttMsg.parse_sound h).symm.trans (AttMsg.parse_sound h'),
   fun _ _ _ h h' => (DetMsg.parse_sound h).symm.trans (DetMsg.parse_sound h'),
   fun _ _ _ h h' => (ScMsg.parse_sound h).symm.trans (ScMsg.parse_sound h')⟩

/-- what acceptance by layer W alone already guarantees about the fields -/
theorem C08_decode_field_lengths (b : Bytes) (m : EncMsg) (h : EncMsg.parse b = .ok m) :
    (m.major = 1 ∨ m.major = 2) ∧ m.eph.length = 32 ∧ m.ssb.length = 48 ∧
      (∀ r ∈ m.recvs, EncRecvWF r) ∧
      (∀ p ∈ m.pkts, (m.major = 1 → p.final = false) ∧ ∀ x ∈ p.auths, x.length = 32) :=
  EncMsg.parse_fields h

/-! ### the reference sender factors through `render` -/

theorem C08_reference_sender_is_render_encryption (P : Prims) (layout : Nat) (hl : layout = 1 ∨ layout = 2)
    (sender : Option Bytes) (rs : List Encrypt.Recipient) (eph pk : Bytes) (pl : List (Bytes × Bool)) :
    Spec.encodePlan P layout {} sender rs eph pk pl = (specEncMsg P layout sender rs eph pk pl).render :=
  spec_encodePlan_render P layout hl sender rs eph pk pl

theorem C08_reference_sender_is_render_attached (P : Prims) (layout : Nat) (hl : layout = 1 ∨ layout = 2)
    (signer nonce : Bytes) (pl : List (Bytes × Bool)) :
    Spec.attachedPlan P layout {} signer nonce pl = (specAttMsg P layout signer nonce pl).render :=
  spec_attachedPlan_render P layout hl signer nonce pl

theorem C08_reference_sender_is_render_detached (P : Prims) (layout : Nat) (signer nonce msg : Bytes) :
    Spec.detached P layout {} signer nonce msg = (specDetMsg P layout signer nonce msg).render :=
  spec_detached_render P layout signer nonce msg

theorem C08_reference_sender_is_render_signcryption (P : Prims) (sender : Option Bytes)
    (rs : List Signcrypt.Recipient) (eph pk : Bytes) (pl : List (Bytes × Bool)) :
    Spec.signcryptPlan P {} sender rs eph pk pl = (specScMsg P sender rs eph pk pl).render :=
  spec_signcryptPlan_render P sender rs eph pk pl

/-! ### completeness of the whole oracle (syntax + cryptography) -/

/-- **Encryption V1/V2**: every message of the reference sender — named or
    anonymous sender, any non-empty recipient list given by secret keys and
    visibility, any 32-byte payload key, any chunk plan obeying the chunk rules —
    is accepted; the decoder opens EVERY key box, re-computes EVERY recipient's
    authenticator on EVERY packet, and returns exactly what went in. -/
theorem C08_oracle_complete_encryption (P : Prims) (hL : P.Lawful) (layout : Nat) (hl : layout = 1 ∨ layout = 2)
    (sender : Option Bytes) (recips : List (Bytes × Bool)) (hne : recips ≠ []) (eph pk : Bytes)
    (hpk : pk.length = 32) (pl : List (Bytes × Bool)) (hpl : PlanOK layout 0 pl) (hpl0 : pl ≠ [])
    (hn : recips.length < 2 ^ 32)
    (hh : (specEncHdr P layout sender (rsOf P recips) eph pk).headerBytes.length < 2 ^ 32) :
    ∃ m, EncMsg.parse (Spec.encodePlan P layout {} sender (rsOf P recips) eph pk pl) = .ok m ∧
      m.check P (recips.map (·.1)) = .ok ⟨pk, P.boxPub (sender.getD eph), pl.map (·.1)⟩ ∧
      m.recvs.map (·.kid) = recips.map (fun x => if x.2 then none else some (P.boxPub x.1)) ∧
      encryption P (Spec.encodePlan P layout {} sender (rsOf P recips) eph pk pl) (recips.map (·.1)) =
        .ok (encSummary m ⟨pk, P.boxPub (sender.getD eph), pl.map (·.1)⟩) :=
  oracle_complete_encryption P hL layout hl sender recips hne eph pk hpk pl hpl hpl0 hn hh

/-- the Go sender's own chunk plan obeys the chunk rules the oracle enforces
    (so the previous theorem applies to `Spec.encode`/`Encrypt.sealWith`) -/
theorem C08_go_plan_obeys_chunk_rules (v : Version) (hv : v = v1 ∨ v = v2) (pt : Bytes) :
    PlanOK (layoutOf v) 0 (Encrypt.chunkPlan v blockSize pt) ∧ Encrypt.chunkPlan v blockSize pt ≠ [] :=
  go_plan_ok v hv pt

theorem C08_oracle_complete_attached (P : Prims) (hL : P.Lawful) (layout : Nat) (hl : layout = 1 ∨ layout = 2)
    (signer nonce : Bytes) (pl : List (Bytes × Bool)) (hpl : PlanOK layout 0 pl) (hpl0 : pl ≠ [])
    (hn : nonce.length < 2 ^ 31) :
    SpecDecode.attached P nonce.length (Spec.attachedPlan P layout {} signer nonce pl) =
      .ok s!"plaintext={showB (pl.map (·.1)).flatten} signer={showB (P.sigPub signer)}" :=
  oracle_complete_attached P hL layout hl signer nonce pl hpl hpl0 hn

theorem C08_oracle_complete_detached (P : Prims) (hL : P.Lawful) (layout : Nat) (hl : layout = 1 ∨ layout = 2)
    (signer nonce msg : Bytes) (hn : nonce.length < 2 ^ 31) :
    SpecDecode.detached P nonce.length (Spec.detached P layout {} signer nonce msg) msg =
      .ok s!"signer={showB (P.sigPub signer)}" :=
  oracle_complete_detached P hL layout hl signer nonce msg hn

/-- **Signcryption**, opened by recipient `idx` with its key -/
theorem C08_oracle_complete_signcryption (P : Prims) (hL : P.Lawful) (sender : Option Bytes)
    (hs : ∀ s, sender = some s → P.sigPub s ≠ zeros 32)
    (rs : List Signcrypt.Recipient) (eph pk : Bytes) (pl : List (Bytes × Bool))
    (hpl : PlanOK 2 0 pl) (hpl0 : pl ≠ []) (idx : Nat) (key : ScKey) (hkey : ScKeyFor P key (rs[idx]?)) :
    (specScMsg P sender rs eph pk pl).check P idx key =
      .ok ⟨pk, (match sender with | none => zeros 32 | some s => P.sigPub s), pl.map (·.1)⟩ :=
  sc_check_complete P hL sender hs rs eph pk pl hpl hpl0 idx key hkey

/-! ### soundness of the whole oracle -/

/-- **`C08_oracle_sound`** (encryption).  Whenever the oracle accepts a byte
    string `b` — e.g. the bytes `Seal` emitted — with the recipients' secrets:
    `b` parses to wire fields `m` with `m.render = b`; the decoded chunk plan
    obeys the chunk rules; and `b` is EXACTLY the reference sender's output
    `Spec.encodePlan` for the decoded payload key, sender, recipients (hidden iff
    the key id is nil) and chunk plan.  `OpenCanonical`: `open` accepts only
    what `seal` produces (functional fact of NaCl secretbox; holds for
    `Toy.prims`, `C08_oracle_hypotheses_nonvacuous`).  `ephSec`/`senderSec` are
    the secrets behind the two public keys in the message, which the oracle
    never sees (anonymous sender: `senderSec = ephSec`). -/
theorem C08_oracle_sound (P : Prims) (hL : P.Lawful) (hC : OpenCanonical P) (b : Bytes) (secrets : List Bytes)
    (s : String) (h : encryption P b secrets = .ok s) :
    ∃ (m : EncMsg) (o : EncOpened) (layout : Nat), (layout = 1 ∨ layout = 2) ∧ m.major = layout ∧
      EncMsg.parse b = .ok m ∧ m.check P secrets = .ok o ∧ s = encSummary m o ∧ m.render = b ∧
      PlanOK layout 0 (planOf o.chunks m.pkts) ∧ (planOf o.chunks m.pkts).map (·.1) = o.chunks ∧
      (recipsOf secrets m.recvs).map (·.1) = secrets ∧
      ∀ ephSec senderSec, m.eph = P.boxPub ephSec → o.senderPub = P.boxPub senderSec →
        b = Spec.encodePlan P layout {} (some senderSec) (rsOf P (recipsOf secrets m.recvs)) ephSec
              o.payloadKey (planOf o.chunks m.pkts) :=
  oracle_sound_encryption P hL hC b secrets s h

/-- the run-time check against the code model (V1 AND V2, named or anonymous
    sender): if the oracle accepts bytes `b` and decodes the payload key, sender,
    recipients and CHUNKS that the sender model `Encrypt.sealWith` was run with,
    then `b` is byte for byte what the model emits (which the correspondence
    shows `Seal` emits).  Only the chunks are compared: a layout-1 packet has no
    final flag on the wire (`EncPkt.ofVal 1` decodes `final := false`, so a
    comparison of the flagged plans would be unsatisfiable for V1 — the earlier
    form of this theorem was vacuous there); under layout 2 the chunk rules the
    oracle enforced determine the flags (`planOK2_flags`).  Anonymous sender:
    `sender = none`, the decoded sender key is the ephemeral one. -/
theorem C08_oracle_sound_model (P : Prims) (hL : P.Lawful) (hC : OpenCanonical P) (b : Bytes) (secrets : List Bytes)
    (s : String) (h : encryption P b secrets = .ok s)
    (bs : Nat) (v : Version) (hv : v = v1 ∨ v = v2) (sender : Option Bytes) (ephSec pk pt out : Bytes)
    (rs : List Encrypt.Recipient)
    (hseal : Encrypt.sealWith P bs v sender rs ephSec pk pt = .ok out) :
    ∃ (m : EncMsg) (o : EncOpened), EncMsg.parse b = .ok m ∧ m.check P secrets = .ok o ∧
      (m.major = layoutOf v → m.eph = P.boxPub ephSec → o.senderPub = P.boxPub (sender.getD ephSec) →
        o.payloadKey = pk → rsOf P (recipsOf secrets m.recvs) = rs →
        o.chunks = (Encrypt.chunkPlan v bs pt).map (·.1) → b = out) :=
  oracle_sound_model P hL hC b secrets s h bs v hv sender ephSec pk pt out rs hseal

/-- what makes the comparison by chunks sufficient: the layout-1 reference
    encoding does not depend on the flags; under the V2 chunk rules the flags
    are determined by the chunks -/
theorem C08_plan_flags_determined :
    (∀ (P : Prims) (o : Spec.Opts) (sender : Option Bytes) (rs : List Encrypt.Recipient) (eph pk : Bytes)
        (pl pl' : List (Bytes × Bool)), pl.map (·.1) = pl'.map (·.1) →
        Spec.encodePlan P 1 o sender rs eph pk pl = Spec.encodePlan P 1 o sender rs eph pk pl') ∧
    (∀ (pl : List (Bytes × Bool)) (k : Nat), PlanOK 2 k pl → ∀ (pre : List Bytes) (c : Bytes),
        pl.map (·.1) = pre ++ [c] → pl = pre.map (·, false) ++ [(c, true)]) :=
  ⟨encodePlan_layout1_flags, planOK2_flags⟩

set_option maxRecDepth 100000 in
/-- non-vacuity of `C08_oracle_sound_model`, **V1** (kernel-evaluated, toy
    primitives): the model's own V1 output — named sender, one visible and one
    hidden recipient, block size 4, five plaintext bytes, i.e. packets
    `[1,2,3,4]`, `[5]`, `[]` — is accepted by the oracle and EVERY antecedent of
    the theorem holds of the decoded values -/
example : ∃ (out : Bytes) (s : String) (m : EncMsg) (o : EncOpened),
    Encrypt.sealWith Toy.prims 4 v1 (some [7]) (rsOf Toy.prims [([1], false), ([2], true)]) [5]
      (List.replicate 32 3) [1, 2, 3, 4, 5] = .ok out ∧
    encryption Toy.prims out [[1], [2]] = .ok s ∧ EncMsg.parse out = .ok m ∧ m.check Toy.prims [[1], [2]] = .ok o ∧
    m.major = layoutOf v1 ∧ m.eph = Toy.prims.boxPub [5] ∧ o.senderPub = Toy.prims.boxPub ((some [7] : Option Bytes).getD [5]) ∧
    o.payloadKey = List.replicate 32 3 ∧
    rsOf Toy.prims (recipsOf [[1], [2]] m.recvs) = rsOf Toy.prims [([1], false), ([2], true)] ∧
    o.chunks = (Encrypt.chunkPlan v1 4 [1, 2, 3, 4, 5]).map (·.1) :=
  modelHyps_spec Toy.prims 4 v1 (some [7]) _ [5] _ [1, 2, 3, 4, 5] [[1], [2]] (by decide +kernel)

set_option maxRecDepth 100000 in
/-- the same for **V2**, and for an ANONYMOUS V1 sender -/
example :
    modelHyps Toy.prims 4 v2 (some [7]) (rsOf Toy.prims [([1], false), ([2], true)]) [5]
      (List.replicate 32 3) [1, 2, 3, 4, 5] [[1], [2]] = true ∧
    modelHyps Toy.prims 4 v1 none (rsOf Toy.prims [([1], true)]) [5]
      (List.replicate 32 3) [1, 2, 3, 4, 5] [[1]] = true ∧
    modelHyps Toy.prims 4 v2 none (rsOf Toy.prims [([1], true)]) [5] (List.replicate 32 3) [] [[1]] = true := by
  decide +kernel

/-- `modelHyps … = true` IS the conjunction of the antecedents (so the examples
    above instantiate them all) -/
theorem C08_oracle_sound_model_hyps (P : Prims) (bs : Nat) (v : Version) (sender : Option Bytes)
    (rs : List Encrypt.Recipient) (ephSec pk pt : Bytes) (secrets : List Bytes)
    (h : modelHyps P bs v sender rs ephSec pk pt secrets = true) :
    ∃ (out : Bytes) (s : String) (m : EncMsg) (o : EncOpened),
      Encrypt.sealWith P bs v sender rs ephSec pk pt = .ok out ∧ encryption P out secrets = .ok s ∧
      EncMsg.parse out = .ok m ∧ m.check P secrets = .ok o ∧
      m.major = layoutOf v ∧ m.eph = P.boxPub ephSec ∧ o.senderPub = P.boxPub (sender.getD ephSec) ∧
      o.payloadKey = pk ∧ rsOf P (recipsOf secrets m.recvs) = rs ∧
      o.chunks = (Encrypt.chunkPlan v bs pt).map (·.1) :=
  modelHyps_spec P bs v sender rs ephSec pk pt secrets h

/-- **attached signatures**: an accepted byte string is the reference encoding
    of the decoded fields, the nonce has the length asked for, every packet's
    signature verifies under the header's key on exactly the specified input,
    the chunk rules hold (all unconditional); under the idealisation
    `SigCanonical` (unique signatures — NOT true of real Ed25519 for a key
    holder) it is the reference sender's output -/
theorem C08_oracle_sound_attached (P : Prims) (nl : Nat) (b : Bytes) (s : String)
    (h : SpecDecode.attached P nl b = .ok s) :
    ∃ (m : AttMsg) (layout : Nat), (layout = 1 ∨ layout = 2) ∧ m.major = layout ∧ AttMsg.parse b = .ok m ∧
      m.render = b ∧ m.nonce.length = nl ∧ m.signer.length = 32 ∧ m.pkts ≠ [] ∧
      AttSigsVerify P m.major m.signer (P.hash m.headerBytes) 0 m.pkts ∧
      PlanOK layout 0 (attPlanOf m.pkts) ∧
      (SigCanonical P → ∀ signer, m.signer = P.sigPub signer →
        b = Spec.attachedPlan P layout {} signer m.nonce (attPlanOf m.pkts)) :=
  oracle_sound_attached P nl b s h

theorem C08_oracle_sound_detached (P : Prims) (nl : Nat) (b msg : Bytes) (s : String)
    (h : SpecDecode.detached P nl b msg = .ok s) :
    ∃ (m : DetMsg) (layout : Nat), (layout = 1 ∨ layout = 2) ∧ m.major = layout ∧ DetMsg.parse b = .ok m ∧
      m.render = b ∧ m.nonce.length = nl ∧ m.signer.length = 32 ∧ m.sig.length = 64 ∧
      P.verify m.signer (sSigDetached ++ P.hash (P.hash m.headerBytes ++ msg)) m.sig = true ∧
      (SigCanonical P → ∀ signer, m.signer = P.sigPub signer →
        b = Spec.detached P layout {} signer m.nonce msg) :=
  oracle_sound_detached P nl b msg s h

/-- **signcryption** — partial: the oracle is handed ONE recipient's key, so
    only that recipient's entry is tied to the reference sender (the others are
    shape-checked by layer W); sender secretbox and every payload packet are
    the reference sender's for the decoded payload key, sender key and chunks -/
theorem C08_oracle_sound_signcryption_partial (P : Prims) (hC : OpenCanonical P) (m : ScMsg) (idx : Nat)
    (key : ScKey) (o : ScOpened) (h : m.check P idx key = .ok o) :
    m.ssb = P.sbSeal o.payloadKey sNonceSenderKey o.senderPub ∧ o.senderPub.length = 32 ∧
      (∃ r, m.recvs[idx]? = some r ∧ ScRecvFor P m.eph idx r key o.payloadKey) ∧
      ScPktsOK P o.payloadKey (P.hash m.headerBytes) o.senderPub 0 m.pkts o.chunks ∧
      PlanOK 2 0 (List.zipWith (fun c (p : ScPkt) => (c, p.final)) o.chunks m.pkts) :=
  sc_check_sound P hC m idx key o h

/-! ### the hypotheses are satisfiable, the theorems not vacuous -/

theorem C08_oracle_hypotheses_nonvacuous :
    Toy.prims.Lawful ∧ OpenCanonical Toy.prims ∧ SigCanonical Toy.prims :=
  ⟨Toy.lawful, toy_openCanonical, toy_sigCanonical⟩

set_option maxRecDepth 100000 in
/-- non-vacuity, end to end (kernel-evaluated, toy primitives): a V2 message of
    the reference sender — anonymous sender, one visible and one hidden
    recipient, two chunks — is accepted by the whole oracle; the same bytes
    followed by one more MessagePack object (`c0`) are refused; so are the bytes
    of a V1 attached signature offered as an encryption message -/
example :
    (encryption Toy.prims
      (Spec.encodePlan Toy.prims 2 {} none (rsOf Toy.prims [([1], false), ([2], true)]) [5]
        (List.replicate 32 3) [([9, 8], false), ([7], true)]) [[1], [2]]).toBool = true ∧
    (encryption Toy.prims
      (Spec.encodePlan Toy.prims 2 {} none (rsOf Toy.prims [([1], false), ([2], true)]) [5]
        (List.replicate 32 3) [([9, 8], false), ([7], true)] ++ [0xc0]) [[1], [2]]).toBool = false ∧
    (SpecDecode.attached Toy.prims 32
      (Spec.attachedPlan Toy.prims 1 {} [4] (List.replicate 32 6) [([9, 8], false), ([], true)])).toBool = true ∧
    (encryption Toy.prims
      (Spec.attachedPlan Toy.prims 1 {} [4] (List.replicate 32 6) [([9, 8], false), ([], true)]) [[1]]).toBool = false := by
  decide +kernel

end Saltpack.Props.C08
