/-
  Property C08 — the strict reference decoder for SIGNCRYPTION handed ALL
  recipients' keys (Model/SpecDecodeAll.lean: `ScMsg.checkAll`,
  `signcryptionAll`): completeness and FULL soundness.  Closes
  `C08_oracle_sound_signcryption_partial` (Props/C08Decode.lean), where the
  oracle held one recipient's key and the other recipients' header entries were
  tied at the wire layer only.

  Proofs: Proofs/SpecDecodeScAll.lean.  Driven on every genuine
  `SigncryptSeal` output by the correspondence streams `oracle.sc.all.*`
  (Driver/ExtG.lean op `sd.scall`, harness/cmd/corr/ext_G.go).
-/
import Saltpack.Proofs.SpecDecodeScAll
import Saltpack.Toy

namespace Saltpack.Props.C08
open Saltpack Saltpack.SpecDecode Saltpack.Proofs.SDW

/-- **completeness**: every message of the reference sender — named or
    anonymous sender, any non-empty list of box-key and symmetric-key
    recipients, any plan obeying the chunk rules — is accepted with one key per
    recipient (each recipient's own), the decoded content being the sender's
    inputs -/
theorem C08_oracle_complete_signcryption_all (P : Prims) (hL : P.Lawful) (sender : Option Bytes)
    (hs : ∀ s, sender = some s → P.sigPub s ≠ zeros 32)
    (rs : List Signcrypt.Recipient) (hrs : rs ≠ []) (eph pk : Bytes) (pl : List (Bytes × Bool))
    (hpl : PlanOK 2 0 pl) (hpl0 : pl ≠ []) (keys : List ScKey) (hkeys : ScKeysFor P keys rs)
    (hwf : ScMsgWF (specScMsg P sender rs eph pk pl)) :
    ∃ m, ScMsg.parse (Spec.signcryptPlan P {} sender rs eph pk pl) = .ok m ∧
      m.checkAll P keys = .ok ⟨pk, specScSenderPub P sender, pl.map (·.1)⟩ ∧
      signcryptionAll P (Spec.signcryptPlan P {} sender rs eph pk pl) keys =
        .ok (scSummaryAll m ⟨pk, specScSenderPub P sender, pl.map (·.1)⟩) :=
  oracle_complete_signcryption P hL sender hs rs hrs eph pk pl hpl hpl0 keys hkeys hwf

/-- **`C08_oracle_sound_signcryption`** (full).  Whenever the oracle accepts a
    byte string `b` with one key per recipient entry: `b` parses to wire fields
    `m` with `m.render = b`, there is one key per entry and at least one entry,
    the decoded chunk plan obeys the chunk rules, and `b` is EXACTLY the
    reference sender's output `Spec.signcryptPlan` for the decoded payload key,
    sender, recipients — EVERY entry: a box recipient is the public key of the
    secret the oracle holds, a symmetric-key recipient that key with the
    identifier in the header — and chunk plan.  `ephSec` is the secret behind
    the ephemeral public key, which the oracle never sees.  Anonymous sender:
    unconditional; named sender: for a scheme with unique signatures
    (`SigCanonical`, as in `C08_oracle_sound_attached`). -/
theorem C08_oracle_sound_signcryption (P : Prims) (hL : P.Lawful) (hC : OpenCanonical P) (b : Bytes)
    (keys : List ScKey) (s : String) (h : signcryptionAll P b keys = .ok s) :
    ∃ (m : ScMsg) (o : ScOpened), ScMsg.parse b = .ok m ∧ m.checkAll P keys = .ok o ∧ s = scSummaryAll m o ∧
      m.render = b ∧ keys.length = m.recvs.length ∧ m.recvs ≠ [] ∧ o.senderPub.length = 32 ∧
      PlanOK 2 0 (scPlanOf o.chunks m.pkts) ∧ (scPlanOf o.chunks m.pkts).map (·.1) = o.chunks ∧
      ∀ ephSec, m.eph = P.boxPub ephSec →
        (o.senderPub = zeros 32 →
          b = Spec.signcryptPlan P {} none (scRsOf P keys m.recvs) ephSec o.payloadKey (scPlanOf o.chunks m.pkts)) ∧
        (SigCanonical P → ∀ senderSec, o.senderPub = P.sigPub senderSec → o.senderPub ≠ zeros 32 →
          b = Spec.signcryptPlan P {} (some senderSec) (scRsOf P keys m.recvs) ephSec o.payloadKey
                (scPlanOf o.chunks m.pkts)) :=
  oracle_sound_signcryption P hL hC b keys s h

/-- the same at the level of the decoded wire fields: the accepted message IS
    the reference sender's message, field for field (every recipient entry,
    the sender secretbox, every packet) -/
theorem C08_oracle_sound_signcryption_fields (P : Prims) (hL : P.Lawful) (hC : OpenCanonical P) (m : ScMsg)
    (keys : List ScKey) (o : ScOpened) (h : m.checkAll P keys = .ok o) :
    keys.length = m.recvs.length ∧ m.recvs ≠ [] ∧ o.senderPub.length = 32 ∧
    PlanOK 2 0 (scPlanOf o.chunks m.pkts) ∧ (scPlanOf o.chunks m.pkts).map (·.1) = o.chunks ∧
    ∀ ephSec, m.eph = P.boxPub ephSec →
      (o.senderPub = zeros 32 →
        m = specScMsg P none (scRsOf P keys m.recvs) ephSec o.payloadKey (scPlanOf o.chunks m.pkts)) ∧
      (SigCanonical P → ∀ senderSec, o.senderPub = P.sigPub senderSec → o.senderPub ≠ zeros 32 →
        m = specScMsg P (some senderSec) (scRsOf P keys m.recvs) ephSec o.payloadKey (scPlanOf o.chunks m.pkts)) :=
  sc_checkAll_sound P hL hC m keys o h

/-- the all-keys oracle refines the one-key oracle: what it accepts, the
    one-key oracle accepts at EVERY recipient index with that recipient's key,
    with the same decoded content -/
theorem C08_oracle_all_refines_each (P : Prims) (m : ScMsg) (keys : List ScKey) (o : ScOpened)
    (h : m.checkAll P keys = .ok o) (j : Nat) (r : ScRecv) (k : ScKey)
    (hr : m.recvs[j]? = some r) (hk : keys[j]? = some k) : m.check P j k = .ok o :=
  sc_checkAll_each P m keys o h j r k hr hk

/-! ## non-vacuity (kernel-evaluated, toy primitives) -/

def scAllToyRs : List Signcrypt.Recipient :=
  [.box (Toy.prims.boxPub [4]), .sym (zeros 32) [5, 5], .box (Toy.prims.boxPub [6])]

def scAllToyKeys : List ScKey := [.box [4], .sym (zeros 32), .box [6]]

def scAllToyPlan : List (Bytes × Bool) := [([9, 8], false), ([7], true)]

def scAllToyMsg (sender : Option Bytes) : Bytes :=
  Spec.signcryptPlan Toy.prims {} sender scAllToyRs [2] (List.replicate 32 3) scAllToyPlan

/-- a message whose SECOND recipient entry carries a payload key box sealed
    for a different payload key, everything else (header hash included)
    consistent: the first recipient opens it without noticing -/
def scAllToyForged : ScMsg :=
  let m0 := specScHdr Toy.prims (some [1]) scAllToyRs [2] (List.replicate 32 3)
  let bad := specScRecv Toy.prims [2] (List.replicate 32 4) 1 (.sym (zeros 32) [5, 5])
  let m1 : ScMsg := { m0 with recvs := m0.recvs.set 1 bad }
  { m1 with pkts := scAllToyPlan.zipIdx.map (fun (cf, i) =>
      specScPkt Toy.prims (some [1]) (List.replicate 32 3) (Toy.prims.hash m1.headerBytes) i cf.1 cf.2) }

set_option maxRecDepth 100000 in
example :
    -- genuine messages (named and anonymous sender) are accepted with all keys …
    (signcryptionAll Toy.prims (scAllToyMsg (some [1])) scAllToyKeys).toBool = true ∧
    (signcryptionAll Toy.prims (scAllToyMsg none) scAllToyKeys).toBool = true ∧
    -- … not with a key of the wrong kind for a recipient, nor with a key missing (the toy
    -- primitives are degenerate — their derived keys do not depend on the recipient's key —, so a
    -- wrong key of the right kind is not a usable example here; the forged message below is)
    (signcryptionAll Toy.prims (scAllToyMsg (some [1])) [.sym (zeros 32), .sym (zeros 32), .box [6]]).toBool = false ∧
    (signcryptionAll Toy.prims (scAllToyMsg (some [1])) [.box [4], .sym (zeros 32)]).toBool = false ∧
    -- the forged message: accepted by the one-key oracle at index 0, rejected with all keys
    (scAllToyForged.check Toy.prims 0 (.box [4])).toBool = true ∧
    (signcryptionAll Toy.prims scAllToyForged.render scAllToyKeys).toBool = false ∧
    (signcryption Toy.prims scAllToyForged.render 0 (some [4]) none).toBool = true := by
  decide +kernel

example : ScKeysFor Toy.prims scAllToyKeys scAllToyRs :=
  ⟨⟨[4], rfl, rfl⟩, rfl, ⟨[6], rfl, rfl⟩, trivial⟩

end Saltpack.Props.C08
