/-
  C01 (encryption round trip) on the emitted BYTES through the byte-level
  receiver `Decrypt.openBytes` (Model/Front.lean) — the transfer of
  `C01_roundtrip_bytes*` (stated for the spec-shaped split `Wire.splitEnc`) to
  the Codec-first front end (repair R1).

  `Front.readEnc` asks go-codec's typed reader `Codec.splitEnc` first.  On what
  `Encrypt.sealWith` emits both readers give the same header read and packets
  (`C09_bridge_seal_enc`), so the byte-level receiver — the model of
  `NewDecryptStream` on these bytes — ends cleanly with exactly the plaintext
  and the key information of `C01_roundtrip_bytes*`.

  Statements only; proofs in Saltpack/Proofs/CodecBytesFront.lean, WireRT.lean, RingRT.lean.
-/
import Saltpack.Props.C01
import Saltpack.Proofs.CodecBytesFront

namespace Saltpack.Props.C01
open Saltpack Saltpack.Encrypt Saltpack.Proofs

/-- **The transfer.**  Any statement "`Wire.splitEnc msg = ok (hr, ps)` and the
    all-at-once receiver on `(hr, ps)` returns `(m, pt')`" about a sealed message
    `msg` is a statement about the byte-level receiver on `msg`: it answers (the
    front end does not say unmodelled), ends cleanly, releases `pt'`, reports `m`. -/
theorem C01_bytes_front_of_wire (P : Prims) (hP : P.Lawful) (bs : Nat) (hbs : 0 < bs) (hbs32 : bs + 16 < 2 ^ 32)
    (v : Version) (hv : v = v1 ∨ v = v2) (sender : Option Bytes) (rs : List Encrypt.Recipient)
    (eph payloadKey pt : Bytes) (hpk : payloadKey.length = 32)
    (L : Nat) (hL : ∀ r ∈ rs, r.pub.length ≤ L) (hsmall : 145 + rs.length * (L + 63) < 2 ^ 32)
    (msg : Bytes) (hmsg : Encrypt.sealWith P bs v sender rs eph payloadKey pt = .ok msg)
    (valid : Validator) (kr : Keyring) (m : MKI) (pt' : Bytes)
    (hw : ∃ hr ps, Wire.splitEnc msg = .ok (hr, ps) ∧ Decrypt.openAll P valid kr hr ps = .ok (m, pt')) :
    ∃ r, Decrypt.openBytes P valid kr msg = .ok r ∧ r.err = none ∧ r.released = pt' ∧ r.mki = some m :=
  enc_bytes_front_of_wire P hP bs hbs hbs32 v hv sender rs eph payloadKey pt hpk L hL hsmall msg hmsg valid kr m pt' hw

/-- on a sealed message the front end reads exactly what the spec-shaped reader reads -/
theorem C01_front_is_wire_on_sealed (P : Prims) (hP : P.Lawful) (bs : Nat) (hbs : 0 < bs) (hbs32 : bs + 16 < 2 ^ 32)
    (v : Version) (hv : v = v1 ∨ v = v2) (sender : Option Bytes) (rs : List Encrypt.Recipient)
    (eph payloadKey pt : Bytes) (hpk : payloadKey.length = 32)
    (L : Nat) (hL : ∀ r ∈ rs, r.pub.length ≤ L) (hsmall : 145 + rs.length * (L + 63) < 2 ^ 32)
    (msg : Bytes) (hmsg : Encrypt.sealWith P bs v sender rs eph payloadKey pt = .ok msg)
    (x : HeaderRead EncHeader × PStream EncBlock) (hw : Wire.splitEnc msg = .ok x) :
    Codec.splitEnc msg = .ok x ∧ Front.readEnc msg = .ok x :=
  front_of_wire_sealed_enc P hP bs hbs hbs32 v hv sender rs eph payloadKey pt hpk L hL hsmall msg hmsg x hw

/-- **Round trip on the emitted bytes through the front end, any keyring holding
    a recipient's key** (`C01_roundtrip_bytes_ring` transferred). -/
theorem C01_roundtrip_bytes_ring_front (P : Prims) (hP : P.Lawful) (bs : Nat) (hbs : 0 < bs) (hbs32 : bs + 16 < 2 ^ 32)
    (v : Version) (hv : v = v1 ∨ v = v2)
    (sender : Option Bytes) (rs : List Encrypt.Recipient) (eph payloadKey pt : Bytes)
    (hpk : payloadKey.length = 32)
    (hnamed : ∀ s, sender = some s → P.boxPub s ≠ P.boxPub eph)
    (hpub : ∀ r ∈ rs, r.hidden = false → r.pub ≠ [])
    (sks : List Bytes) (i : Nat) (hi : i < rs.length) (sk : Bytes) (hmem : sk ∈ sks)
    (hsk : (rs.getD i default).pub = P.boxPub sk)
    (hns : RingNoSpuriousOpen P v eph payloadKey rs sks)
    (L : Nat) (hL : ∀ r ∈ rs, r.pub.length ≤ L) (hsmall : 145 + rs.length * (L + 63) < 2 ^ 32)
    (msg : Bytes) (hmsg : Encrypt.sealWith P bs v sender rs eph payloadKey pt = .ok msg) :
    ∃ i' sk', i' < rs.length ∧ sk' ∈ sks ∧ (rs.getD i' default).pub = P.boxPub sk' ∧
      ∃ r, Decrypt.openBytes P knownMajor (faithfulKeyring P sks) msg = .ok r ∧ r.err = none ∧ r.released = pt ∧
        r.mki = some { senderKey := P.boxPub (sender.getD eph), senderIsAnon := sender.isNone,
                       receiverKey := sk', receiverIsAnon := (rs.getD i' default).hidden,
                       namedReceivers := (rs.filter (fun r => !r.hidden)).map (·.pub),
                       numAnonReceivers := if (rs.getD i' default).hidden then (rs.filter (·.hidden)).length else 0 } := by
  obtain ⟨hr, ps, hsplit, i', sk', h1, h2, h3, hopen⟩ := C01_roundtrip_bytes_ring P hP bs hbs hbs32 v hv sender rs eph
    payloadKey pt hpk hnamed hpub sks i hi sk hmem hsk hns L hL hsmall msg hmsg
  exact ⟨i', sk', h1, h2, h3, enc_bytes_front_of_wire P hP bs hbs hbs32 v hv sender rs eph payloadKey pt hpk L hL hsmall
    msg hmsg _ _ _ _ ⟨hr, ps, hsplit, hopen⟩⟩

/-- … with the exact key information when the ring holds one recipient's key only -/
theorem C01_roundtrip_bytes_ring_unique_front (P : Prims) (hP : P.Lawful) (bs : Nat) (hbs : 0 < bs)
    (hbs32 : bs + 16 < 2 ^ 32) (v : Version) (hv : v = v1 ∨ v = v2)
    (sender : Option Bytes) (rs : List Encrypt.Recipient) (eph payloadKey pt : Bytes)
    (hpk : payloadKey.length = 32)
    (hnamed : ∀ s, sender = some s → P.boxPub s ≠ P.boxPub eph)
    (hpub : ∀ r ∈ rs, r.hidden = false → r.pub ≠ [])
    (sks : List Bytes) (i : Nat) (hi : i < rs.length) (sk : Bytes) (hmem : sk ∈ sks)
    (hsk : (rs.getD i default).pub = P.boxPub sk)
    (honly : ∀ s ∈ sks, ∀ j, j < rs.length → (rs.getD j default).pub = P.boxPub s → j = i ∧ s = sk)
    (hns : RingNoSpuriousOpen P v eph payloadKey rs sks)
    (L : Nat) (hL : ∀ r ∈ rs, r.pub.length ≤ L) (hsmall : 145 + rs.length * (L + 63) < 2 ^ 32)
    (msg : Bytes) (hmsg : Encrypt.sealWith P bs v sender rs eph payloadKey pt = .ok msg) :
    ∃ r, Decrypt.openBytes P knownMajor (faithfulKeyring P sks) msg = .ok r ∧ r.err = none ∧ r.released = pt ∧
      r.mki = some { senderKey := P.boxPub (sender.getD eph), senderIsAnon := sender.isNone,
                     receiverKey := sk, receiverIsAnon := (rs.getD i default).hidden,
                     namedReceivers := (rs.filter (fun r => !r.hidden)).map (·.pub),
                     numAnonReceivers := if (rs.getD i default).hidden then (rs.filter (·.hidden)).length else 0 } :=
  enc_bytes_front_of_wire P hP bs hbs hbs32 v hv sender rs eph payloadKey pt hpk L hL hsmall msg hmsg _ _ _ _
    (C01_roundtrip_bytes_ring_unique P hP bs hbs hbs32 v hv sender rs eph payloadKey pt hpk hnamed hpub sks i hi sk hmem
      hsk honly hns L hL hsmall msg hmsg)

/-- **Round trip on the emitted bytes through the front end, keyring = exactly the
    recipient's key** (`C01_roundtrip_bytes` transferred): what `Seal` emits opens
    through `Decrypt.openBytes` — clean end, the plaintext, the key information. -/
theorem C01_roundtrip_bytes_front (P : Prims) (hP : P.Lawful) (bs : Nat) (hbs : 0 < bs) (hbs32 : bs + 16 < 2 ^ 32)
    (v : Version) (hv : v = v1 ∨ v = v2)
    (sender : Option Bytes) (rs : List Encrypt.Recipient) (eph payloadKey pt : Bytes)
    (hpk : payloadKey.length = 32)
    (hnamed : ∀ s, sender = some s → P.boxPub s ≠ P.boxPub eph)
    (hpub : ∀ r ∈ rs, r.hidden = false → r.pub ≠ [])
    (hblocks : (Encrypt.chunkPlan v bs pt).length < 2 ^ 64 - 1)
    (i : Nat) (hi : i < rs.length) (sk : Bytes) (hsk : (rs.getD i default).pub = P.boxPub sk)
    (hns : NoSpuriousOpen P v eph payloadKey rs i sk)
    (L : Nat) (hL : ∀ r ∈ rs, r.pub.length ≤ L) (hsmall : 145 + rs.length * (L + 63) < 2 ^ 32)
    (msg : Bytes) (hmsg : Encrypt.sealWith P bs v sender rs eph payloadKey pt = .ok msg) :
    ∃ r, Decrypt.openBytes P knownMajor (faithfulKeyring P [sk]) msg = .ok r ∧ r.err = none ∧ r.released = pt ∧
      r.mki = some { senderKey := P.boxPub (sender.getD eph), senderIsAnon := sender.isNone,
                     receiverKey := sk, receiverIsAnon := (rs.getD i default).hidden,
                     namedReceivers := (rs.filter (fun r => !r.hidden)).map (·.pub),
                     numAnonReceivers := if (rs.getD i default).hidden then (rs.filter (·.hidden)).length else 0 } :=
  enc_bytes_front_of_wire P hP bs hbs hbs32 v hv sender rs eph payloadKey pt hpk L hL hsmall msg hmsg _ _ _ _
    (C01_roundtrip_bytes P hP bs hbs hbs32 v hv sender rs eph payloadKey pt hpk hnamed hpub hblocks i hi sk hsk hns
      L hL hsmall msg hmsg)

end Saltpack.Props.C01
