/-
  Property C16 — two items left partial by Props/C16Bufio.lean / C16Stable.lean.

  (a) The bufio machine on a stream SHORTER than the buffer that ends in EOF.
      `Peek(size)` returns all the bytes together with `io.EOF` and forgets the
      condition; `IsSaltpackBinary`'s `Peek(23)` and the later `Read`s ask the
      underlying reader again.  For every script without `(0, nil)` reads in
      which EOF is sticky (`EofSticky`: after a delivery that carried `io.EOF`
      every later read is `(0, io.EOF)` — what every reader that stays at its end
      does; an exhausted script answers so forever) the machine is the pure
      classifier and consumes nothing: `C16_stream_machine_pure_short`,
      `C16_classify_then_drain_eof` (ANY length now: shorter or longer than the
      buffer).  Without stickiness the statement is false
      (`C16_short_eof_needs_sticky`, kernel-evaluated).
      Correspondence: `bufio.classify` (modes one/bytes/rand/eofdata/empty), unchanged.

  (b) Stability of a "not saltpack" verdict of `IsSaltpackArmoredPrefix` given
      BEFORE the frame expression matches.  Proved for every text that does not
      begin like `BEGIN ` (`C16_armored_not_begin_stable`: ASCII `p` whose normal
      form is neither a prefix of `BEGIN ` nor starts with `BEGIN `: `p` AND every
      extension `p ++ q`, arbitrary bytes `q`, are "not saltpack" — the verdict a
      binary-looking or foreign text gets, e.g. a PGP armor) — PARTIAL: the other
      half (the normal form starts with `BEGIN ` but cannot be continued to a
      frame, e.g. `BEGIN KB KB SALTPACK`) needs the converse of
      `C16_header_extension` (a header match of `s ++ x` whose period lies inside
      `s` is a match of `s`) and the word-wise monotonicity of the six prefix
      tests; that half stays covered by the correspondence only (every prefix of
      genuine and re-flowed frames, near misses, random strings: `classify.armored.*`)
      and by the paper argument of notes/ext-d.md / notes/ext-g.md.

  Proofs: Proofs/BufioShort.lean.
-/
import Saltpack.Proofs.BufioShort
import Saltpack.Proofs.ClassifyNotBegin

namespace Saltpack.Props.C16
open Saltpack Saltpack.Classify Saltpack.Stream Saltpack.Bufio Saltpack.Proofs.BufioP

/-- a script that ends at its first EOF (the usual reader) is EOF-sticky, and so
    is one that goes on answering `(0, EOF)` -/
theorem C16_sticky_examples :
    EofSticky [([1, 2], none), ([3], some .eof)] ∧
    EofSticky [([1, 2], none), ([], some .eof), ([], some .eof)] ∧
    EofSticky [([1], some (.err .ioError)), ([2], some .eof)] ∧
    ¬ EofSticky [([1], some .eof), ([2], none)] := by
  refine ⟨?_, ?_, ?_, ?_⟩
  · intro p hp; cases hp
  · intro p hp
    simp only [List.mem_cons, List.not_mem_nil, or_false] at hp
    exact hp
  · intro p hp; cases hp
  · intro h
    have := h ([2], none) (by simp)
    cases this

/-- one underlying read keeps a script EOF-sticky, and after a read that
    reported EOF only `(0, EOF)` reads are left -/
theorem C16_sticky_preserved (cap : Nat) (src : Source) (hs : EofSticky src)
    (d : Bytes) (e : Option RErr) (src' : Source) (h : srcRead cap src = (d, e, src')) :
    EofSticky src' ∧ (e = some .eof → AllEof src') :=
  srcRead_sticky cap src hs d e src' h

/-- **`Peek` on a stream that ends in EOF before `n ≤ size` bytes**: all the
    bytes and `io.EOF` are returned, the condition is forgotten — and the reader
    will still deliver exactly what it would have delivered before -/
theorem C16_peek_short_eof (n : Nat) (s : BState) (hi : Inv s) (hs : StickyInv s) (all : Bytes)
    (hv : view s = (all, .src .eof)) (hshort : all.length < n) (hn : n ≤ s.size)
    (out : Bytes) (e : Option BErr) (s' : BState) (h : peek n s = (out, e, s')) :
    out = all ∧ e = some (.src .eof) ∧ Inv s' ∧ StickyInv s' ∧ s'.size = s.size ∧ view s' = view s :=
  peek_short_eof n s hi hs all hv hshort hn out e s' h

/-- **`ClassifyStream` on a short stream ending in EOF is the pure classifier
    and consumes nothing** (the complement of `C16_stream_machine_pure`, which
    needs a full buffer, and of `C16_stream_error_reported`, the short stream
    ending in an error) -/
theorem C16_stream_machine_pure_short (s : BState) (hi : Inv s) (hs : StickyInv s) (all : Bytes)
    (hv : view s = (all, .src .eof)) (hshort : all.length < s.size) :
    Inv (classifyStreamM s).2 ∧ StickyInv (classifyStreamM s).2 ∧ view (classifyStreamM s).2 = view s ∧
    (classifyStreamM s).1 = .v (classifyStream s.size all) :=
  classify_short_eof s hi hs all hv hshort

/-- **classification, then reading the stream to its end, for EVERY stream that
    ends in EOF** — shorter or longer than the buffer: fresh
    `NewReaderSize(src, size)`, any EOF-sticky script without `(0, nil)` reads
    (every fragmentation, data together with EOF, EOF alone, repeated EOFs), any
    read size: the verdict is the pure function of the source's bytes and
    draining afterwards yields EXACTLY those bytes and `io.EOF` -/
theorem C16_classify_then_drain_eof (src : Source) (size cap fuel : Nat) (hp : Progress src) (hst : EofSticky src)
    (heof : (total src).2 = .eof) (hcap : 0 < cap) (hfuel : (total src).1.length + 1 ≤ fuel) :
    let r := classifyStreamM (newReaderSize src size)
    r.1 = .v (classifyStream (max size minReadBufferSize) (total src).1) ∧
    (drain cap fuel r.2 []).1 = (total src).1 ∧
    (drain cap fuel r.2 []).2.1 = some (.src .eof) :=
  classify_then_drain_eof src size cap fuel hp hst heof hcap hfuel

/-- **the stickiness hypothesis is necessary**: a reader that delivers data
    AFTER having reported EOF (3 bytes with EOF, then 2 more) — `ClassifyStream`
    peeks `[1,2,3]`+EOF, forgets the EOF, peeks again and pulls the later bytes
    into the buffer; draining then yields 5 bytes although the stream "ended"
    after 3 -/
theorem C16_short_eof_needs_sticky :
    let src : Source := [([1, 2, 3], some .eof), ([4, 5], none)]
    Progress src ∧ (total src) = ([1, 2, 3], .eof) ∧
    (drain 4 10 (classifyStreamM (newReaderSize src 32)).2 []).1 = [1, 2, 3, 4, 5] := by
  refine ⟨?_, by decide, by decide⟩
  intro p hp
  simp only [List.mem_cons, List.not_mem_nil, or_false] at hp
  rcases hp with rfl | rfl <;> simp

/-! ## (b) "not saltpack" before the frame expression matches -/

/-- **a text that does not begin like `BEGIN ` is "not saltpack", and stays so
    under every extension**: ASCII `p`, normal form `s` (white-space runs
    collapsed, trimmed) neither a prefix of `BEGIN ` nor starting with `BEGIN `;
    `q` arbitrary bytes -/
theorem C16_armored_not_begin_stable (p q : Bytes) (hp : ∀ c ∈ p, c < 128)
    (h1 : ¬ Armor.trimSpace (Armor.collapse p) <+: Gen.c_sp_headerMarker ++ [Armor.space])
    (h2 : ¬ Gen.c_sp_headerMarker ++ [Armor.space] <+: Armor.trimSpace (Armor.collapse p)) :
    armoredPrefix p = .notSaltpack ∧ armoredPrefix (p ++ q) = .notSaltpack :=
  Saltpack.Proofs.ClsStable.arm_not_begin_stable p q hp h1 h2

/-- the same on normal forms, for any text `t` that starts with `s` and has no
    trailing space -/
theorem C16_norm_not_begin (s t : Bytes) (hst : s <+: t) (hlast : t.getLast? ≠ some Armor.space)
    (h1 : ¬ s <+: Gen.c_sp_headerMarker ++ [Armor.space]) (h2 : ¬ Gen.c_sp_headerMarker ++ [Armor.space] <+: s) :
    Saltpack.Proofs.ClsAux.classifyNorm t = .notSaltpack :=
  Saltpack.Proofs.ClsStable.classifyNorm_not_begin s t hst hlast h1 h2

/-- non-vacuity: `-----BEGIN PGP` (a PGP armor), `BEGINX`, `begin ` meet the hypotheses -/
example : (∀ c ∈ ([45, 45, 45, 45, 45, 66, 69, 71, 73, 78, 32, 80, 71, 80] : Bytes), c < 128) ∧
    ¬ Armor.trimSpace (Armor.collapse [45, 45, 45, 45, 45, 66, 69, 71, 73, 78, 32, 80, 71, 80]) <+:
        Gen.c_sp_headerMarker ++ [Armor.space] ∧
    ¬ Gen.c_sp_headerMarker ++ [Armor.space] <+:
        Armor.trimSpace (Armor.collapse [45, 45, 45, 45, 45, 66, 69, 71, 73, 78, 32, 80, 71, 80]) := by decide
example : armoredPrefix [66, 69, 71, 73, 78, 88] = .notSaltpack ∧
    ¬ Armor.trimSpace (Armor.collapse [66, 69, 71, 73, 78, 88]) <+: Gen.c_sp_headerMarker ++ [Armor.space] ∧
    ¬ Gen.c_sp_headerMarker ++ [Armor.space] <+: Armor.trimSpace (Armor.collapse [66, 69, 71, 73, 78, 88]) := by decide
/-- the half that is NOT covered: starts with `BEGIN `, can never become a frame, "not saltpack" -/
example : armoredPrefix [66, 69, 71, 73, 78, 32, 75, 32, 75, 32, 83] = .notSaltpack := by decide

/-! ## non-vacuity of (a) -/

/-- a 5-byte stream (`BEGIN`) in two deliveries, the second with EOF, behind a
    4096-byte reader: `short`, and all five bytes are still delivered -/
def shortSrc : Source := [([66, 69], none), ([71, 73, 78], some .eof)]

example : Progress shortSrc ∧ EofSticky shortSrc ∧ (total shortSrc) = ([66, 69, 71, 73, 78], .eof) := by
  refine ⟨?_, ?_, by decide⟩
  · intro p hp
    simp only [shortSrc, List.mem_cons, List.not_mem_nil, or_false] at hp
    rcases hp with rfl | rfl <;> simp
  · intro p hp; cases hp

example : (classifyStreamM (newReaderSize shortSrc 4096)).1 = .v .short ∧
    (drain 2 10 (classifyStreamM (newReaderSize shortSrc 4096)).2 []).1 = [66, 69, 71, 73, 78] ∧
    (drain 2 10 (classifyStreamM (newReaderSize shortSrc 4096)).2 []).2.1 = some (.src .eof) := by decide

/-- the empty stream: `io.EOF` -/
example : (classifyStreamM (newReaderSize [] 4096)).1 = .v .eof ∧
    classifyStream 4096 [] = .eof := by decide

end Saltpack.Props.C16
