/-
  Property C16 — the claim "prefix stability covers every spec-following header"
  (audit finding #11), now a theorem: for EVERY genuine armored message —
  `Armor.seal62` under the frame type of its mode, any brand of ≤ 128
  alphanumerics, of a binary message with a spec-following header start (any bin
  tag / array tag width, format name, `[major, minor]`, mode) and at least 32
  bytes — the shortest prefix that shows the first 43 payload characters meets
  the hypotheses of `C16_armored_ok_stable`, and EVERY prefix that contains it,
  extended by ARBITRARY bytes, is classified with the right brand, mode and
  version.  Proofs: Saltpack/Proofs/ClassifyGenuine.lean.

  Partial (re-flowing): `C16_armored_first_block` covers every text that begins
  with the canonical frame line, its period, and the first block's characters
  separated by any runs of SPACES; first blocks re-flowed with `\n`, `\r`, `\t`,
  `>` or a re-flowed frame line are covered by the correspondence only
  (`classify.armored.prefix` on re-flowed texts, every prefix).
-/
import Saltpack.Proofs.ClassifyGenuine

namespace Saltpack.Props.C16
open Saltpack Saltpack.Classify Saltpack.Msgpack Saltpack.Armor Saltpack.Proofs Saltpack.Proofs.ClsStable

/-- **how every genuine armored message begins**: the frame line, its period,
    then — separated by single spaces — exactly the 43 characters of the first
    base62 block (the encoding of the first 32 bytes), then the rest -/
theorem C16_armored_seal_begins (typ : Int) (brand M : Bytes) (h : 32 ≤ M.length) :
    ∃ w rest, Armor.seal62 typ brand M = Armor.header typ brand ++ [Armor.period] ++ w ++ rest ∧
      (∀ c ∈ w, isAlnum c = true ∨ c = Armor.space) ∧
      w.filter (· != Armor.space) = Basex.encode Gen.base62Std.strict (M.take 32) :=
  seal62_begins typ brand M h

/-- **frame, period, first block** (any spacing by spaces; `q` arbitrary bytes):
    if the binary classifier answers `r` on the 32 bytes the block encodes, the
    text and every extension are classified `r` under the genuine brand and
    frame label -/
theorem C16_armored_first_block (typ : Int) (ht : Armorable typ) (brand : Bytes) (hb : BrandOK brand) (w q : Bytes)
    (hw : ∀ c ∈ w, isAlnum c = true ∨ c = Armor.space)
    (M32 : Bytes) (hlen : M32.length = 32)
    (hchars : w.filter (· != Armor.space) = Basex.encode Gen.base62Std.strict M32)
    (r : Int × Version) (hok : binarySlice M32 = .ok r) :
    ∃ sffx, typeString typ = some sffx ∧
      armoredPrefix (Armor.header typ brand ++ [Armor.period] ++ w ++ q) = conclude brand sffx (.ok r) ∧
      armoredPrefix (Armor.header typ brand ++ [Armor.period] ++ w) = conclude brand sffx (.ok r) :=
  arm_genuine_block typ ht brand hb w q hw M32 hlen hchars r hok

/-- **Every genuine armored message, every prefix from the first block on, every
    extension.**  `M`: a binary message with a spec-following header start (as in
    `C16_binary_correct`) of at least 32 bytes; `text = Armor.seal62` of it under
    the frame type of its mode (`armorTypeOf`) and any brand.  Then `text` begins
    `header ++ "." ++ w` with `w` showing exactly the first 43 payload characters;
    that prefix satisfies the hypotheses of `C16_armored_ok_stable` (ASCII, the
    frame expression matches with the genuine brand and label, ≥ 32 bytes decoded,
    the first decoded block is classified `(t, major.minor)`); and every prefix
    `text.take k` that contains it, followed by ARBITRARY bytes `q` (`q = []`: the
    prefix itself; `q` = the rest of the message: the whole message), is
    classified `(brand, t, major.minor)`. -/
theorem C16_armored_genuine_prefix_stable (brand : Bytes) (hb : BrandOK brand)
    (btag atag tail : Bytes) (hbt : IsBinTag btag) (hat : IsArrTag atag)
    (ma mi t : Nat) (hma : ma < 128) (hmi : mi < 128) (ht : isMode (t : Int) = true)
    (hlen : 32 ≤ (btag ++ atag ++ encode (.str Gen.c_sp_FormatName) ++ encode (.arr [.int ma, .int mi]) ++ encode (.int t) ++ tail).length) :
    let M := btag ++ atag ++ encode (.str Gen.c_sp_FormatName) ++ encode (.arr [.int ma, .int mi]) ++ encode (.int t) ++ tail
    let text := Armor.seal62 (armorTypeOf t) brand M
    ∃ w rest sffx payload,
      text = Armor.header (armorTypeOf t) brand ++ [Armor.period] ++ w ++ rest ∧
      (w.filter (· != Armor.space)).length = 43 ∧
      (∀ c ∈ Armor.header (armorTypeOf t) brand ++ [Armor.period] ++ w, c < 128) ∧
      matchHeader (Armor.trimSpace (Armor.collapse (Armor.header (armorTypeOf t) brand ++ [Armor.period] ++ w))) =
        some (brand, sffx, payload) ∧
      32 ≤ (decOf payload).length ∧
      binarySlice (firstBlockOf payload) = .ok ((t : Int), ⟨ma, mi⟩) ∧
      (∀ k, (Armor.header (armorTypeOf t) brand ++ [Armor.period] ++ w).length ≤ k → ∀ q,
        armoredPrefix (text.take k ++ q) = .ok (brand, (t : Int), ⟨ma, mi⟩)) :=
  arm_genuine_prefix_stable brand hb btag atag tail hbt hat ma mi t hma hmi ht hlen

/-! ## non-vacuity -/

/-- a v2 encryption header start, 40 bytes, brand `KB`: the hypotheses hold -/
example : BrandOK [75, 66] ∧ IsBinTag [0xc4, 0x40] ∧ IsArrTag [0x96] ∧ isMode ((0 : Nat) : Int) = true ∧
    32 ≤ ([0xc4, 0x40] ++ [0x96] ++ encode (.str Gen.c_sp_FormatName) ++ encode (.arr [.int (2 : Nat), .int (0 : Nat)]) ++
      encode (.int (0 : Nat)) ++ List.replicate 26 7).length :=
  ⟨⟨by decide, by decide⟩, Or.inl ⟨_, rfl⟩, Or.inl ⟨0x96, by decide, by decide, rfl⟩, by decide, by decide⟩

/-- and the conclusion, evaluated on that message: frame line + period = 36 characters, `w` = 46
    (3 spaces + 43): the 82-character prefix is classified, one character less is "short";
    a longer prefix and the whole text are classified the same -/
example :
    let M : Bytes := [0xc4, 0x40] ++ [0x96] ++ encode (.str Gen.c_sp_FormatName) ++
      encode (.arr [.int (2 : Nat), .int (0 : Nat)]) ++ encode (.int (0 : Nat)) ++ List.replicate 26 7
    armoredPrefix ((Armor.seal62 mtEncryption [75, 66] M).take 82) = .ok ([75, 66], 0, ⟨2, 0⟩) ∧
    armoredPrefix ((Armor.seal62 mtEncryption [75, 66] M).take 81) = .short ∧
    armoredPrefix ((Armor.seal62 mtEncryption [75, 66] M).take 90) = .ok ([75, 66], 0, ⟨2, 0⟩) ∧
    armoredPrefix (Armor.seal62 mtEncryption [75, 66] M) = .ok ([75, 66], 0, ⟨2, 0⟩) := by decide +kernel

end Saltpack.Props.C16
