/-
  Property C14 — I/O faults are reported, never swallowed: the SENDER streams
  (`encryptStream`, `signcryptSealStream`, `signAttachedStream`,
  `signDetachedStream`) as per-call state machines over a faulting underlying
  writer (Model/SenderStream.lean; checked call by call against
  `NewEncryptStream` / `NewSignStream` / `NewSigncryptSealStream` /
  `NewSignDetachedStream` by the correspondence streams `sender.fault.*`).
  Statements only; proofs in Proofs/SenderStream*.lean.

  Every theorem holds for EVERY plaintext, every split into `Write`s, every
  segmentation of an `Encode` into underlying writes (`pieces`, any function with
  `(pieces b).flatten = b`; the real one is `codecPieces`) and every fault script.
  The generic theorems hold for every underlying writer `wr` observed through
  the bytes it accepted (`obs`, `ObsWriter`) and the number of its failed writes
  (`flt`, `FltWriter`); `Wr` (a script of write outcomes) is one such writer.

  What the code does NOT do (mirrored by the model, see the examples at the end):
  `signAttachedStream` has no sticky error of its own — after a fault a small
  `Write` that emits no block still returns `(n, nil)` (every block and `Close`
  fail, because go-codec's `Encoder` keeps its first error); `Close` of the
  Version-2 shapes PANICS (`checkEncryptBlockRead`: `isFinal && bufLen != 0`)
  when a failed `Write` left more than one block in the buffer.

  "Returns an error" vs "panics" (audit finding 9): the model marks the places
  where the real code panics by `some (.panic _)`; `≠ none` therefore reads
  "returns an error OR PANICS".  The run-level theorems say which: the call
  during which an underlying write fails RETURNS the writer's error
  (`.ioError`: `C14_sender_run_fault_returns_io_error`); a `Write` never panics
  (`C14_sender_write_error_kinds`); `Close` can panic only after an earlier call
  has already returned an error (`C14_sender_close_panics_only_after_error`) —
  the real code does so in exactly two situations: (1) `Close` of the Version-2
  shapes (V2 `encryptStream`, V2 `signAttachedStream`, `signcryptSealStream`)
  after a failed `Write` that left MORE than one block in the buffer
  (`checkEncryptBlockRead` / `checkSignBlockRead`: `isFinal && bufLen != 0`,
  reached before the dead encoder could return its error — notes/ext-b.md,
  observation 1); (2) a SECOND `Close` of V2 encryption / V2 signing
  (`assertEncodedChunkState`).  Version 1 returns the error in both.

  The writer: the scripted `Wr` obeys io.Writer's contract — a `Write` that
  takes fewer than `len(p)` bytes returns a non-nil error (a failing write may
  take any part of the slice, Model/SenderStream.lean); a short write WITHOUT
  error is excluded (go-codec and armor.go discard `n`: with such a writer
  "Close nil ⇒ completely written" is false for the real code).

  The GENERIC forms over `FltWriter wr flt` get their meaning from the
  instance: `FltWriter.fail` only says `flt` does not go down (a writer that
  remembers its error refuses later calls without any write below), so
  "`flt` unchanged" means "saw no failing write" only for instances whose `flt`
  counts the failed underlying writes — `Wr.faults` (`wr_write_faults`: +1 per
  failing write) and `FArm` over `Wr` (`C14_armor_writer_reports`).
-/
import Saltpack.Proofs.SenderStreamInst
import Saltpack.Proofs.SenderStreamArmor
import Saltpack.Proofs.SenderStreamWhole

namespace Saltpack.Props.C14
open Saltpack Saltpack.Sender Saltpack.Proofs.SenderP

/-! ## reported: the call in which an underlying write fails returns an error -/

/-- a `Write` that returns no error has seen no failing underlying write -/
theorem C14_sender_write_reports {ω : Type} (wr : ω → Bytes → Bool × ω) (flt : ω → Nat) (hw : FltWriter wr flt)
    (cfg : Cfg) (st : PSt ω) (p : Bytes) :
    (st.write wr cfg p).2.1 = none → flt (st.write wr cfg p).2.2.codec.w = flt st.codec.w :=
  (write_flt wr flt hw cfg st p).1

/-- a `Close` that returns no error has seen no failing underlying write -/
theorem C14_sender_close_reports {ω : Type} (wr : ω → Bytes → Bool × ω) (flt : ω → Nat) (hw : FltWriter wr flt)
    (cfg : Cfg) (st : PSt ω) :
    (st.close wr cfg).1 = none → flt (st.close wr cfg).2.codec.w = flt st.codec.w :=
  (close_flt wr flt hw cfg st).1

/-- a constructor that returns a stream has seen no failing underlying write -/
theorem C14_sender_ctor_reports {ω : Type} (wr : ω → Bytes → Bool × ω) (flt : ω → Nat) (hw : FltWriter wr flt)
    (pieces : Bytes → List Bytes) (w0 : ω) (headerBytes : Bytes) :
    (PSt.init wr pieces w0 headerBytes).1 = true → flt (PSt.init wr pieces w0 headerBytes).2.codec.w = flt w0 :=
  (faultSeen_init wr flt hw pieces w0 headerBytes).2

/-- …for the scripted writer: `faults` counts the failed underlying writes -/
theorem C14_sender_write_reports_scripted (cfg : Cfg) (st : PSt Wr) (p : Bytes) :
    (st.write Wr.write cfg p).2.2.codec.w.faults ≠ st.codec.w.faults → (st.write Wr.write cfg p).2.1 ≠ none :=
  fun h hn => h ((write_flt Wr.write Wr.faults wr_flt cfg st p).1 hn)

theorem C14_sender_close_reports_scripted (cfg : Cfg) (st : PSt Wr) :
    (st.close Wr.write cfg).2.codec.w.faults ≠ st.codec.w.faults → (st.close Wr.write cfg).1 ≠ none :=
  fun h hn => h ((close_flt Wr.write Wr.faults wr_flt cfg st).1 hn)

/-! ## sticky -/

/-- a failing underlying write leaves go-codec's encoder failed, and no `Write`
    or `Close` ever clears that -/
theorem C14_sender_fault_is_kept {ω : Type} (wr : ω → Bytes → Bool × ω) (flt : ω → Nat) (hw : FltWriter wr flt)
    (cfg : Cfg) (st : PSt ω) (p : Bytes) :
    (flt (st.write wr cfg p).2.2.codec.w ≠ flt st.codec.w → (st.write wr cfg p).2.2.codec.failed = true) ∧
    (flt (st.close wr cfg).2.codec.w ≠ flt st.codec.w → (st.close wr cfg).2.codec.failed = true) ∧
    (st.codec.failed = true → (st.write wr cfg p).2.2.codec.failed = true ∧ (st.close wr cfg).2.codec.failed = true) :=
  ⟨(write_flt wr flt hw cfg st p).2.1, (close_flt wr flt hw cfg st).2.1,
   fun h => ⟨(write_flt wr flt hw cfg st p).2.2.1 h, (close_flt wr flt hw cfg st).2.2.1 h⟩⟩

/-- **after a failed underlying write `Close` always reports an error** (or
    panics — never `nil`), and nothing more reaches the writer -/
theorem C14_sender_close_after_fault {ω : Type} (wr : ω → Bytes → Bool × ω) (obs : ω → Bytes) (hw : ObsWriter wr obs)
    (cfg : Cfg) (hp : ∀ b, (cfg.pieces b).flatten = b) (st : PSt ω) (hf : st.codec.failed = true) :
    (st.close wr cfg).1 ≠ none ∧ obs (st.close wr cfg).2.codec.w = obs st.codec.w :=
  let r := dead_close wr obs hw cfg hp st (Or.inl hf)
  ⟨r.1, r.2.1⟩

/-- after a failed underlying write no `Write` lets anything more reach the writer -/
theorem C14_sender_write_after_fault {ω : Type} (wr : ω → Bytes → Bool × ω) (obs : ω → Bytes) (hw : ObsWriter wr obs)
    (cfg : Cfg) (hp : ∀ b, (cfg.pieces b).flatten = b) (st : PSt ω) (p : Bytes) (hf : st.codec.failed = true) :
    obs (st.write wr cfg p).2.2.codec.w = obs st.codec.w :=
  (dead_write wr obs hw cfg hp st p (Or.inl hf)).1

/-- `encryptStream` / `signcryptSealStream` (`hasErr`): a `Write` on a stream
    whose `err` is set returns it and does nothing else.  (`_def`: this is the
    first line of `Write` — `if es.err != nil { return 0, es.err }` — unfolded;
    the substantive statements are the next two.) -/
theorem C14_sender_write_sticky_def {ω : Type} (wr : ω → Bytes → Bool × ω) (cfg : Cfg) (st : PSt ω) (p : Bytes) (e : Err)
    (hh : cfg.hasErr = true) (he : st.err = some e) : st.write wr cfg p = (0, some e, st) := by
  unfold PSt.write
  simp [hh, he]

/-- **a failed `Write` of such a stream returns `n = 0` and records its error —
    in EVERY state `st`**, reachable or not (no ghost invariant: `Write` stores
    whatever `encryptBlock` returned; a refused `Write` returns the stored error) -/
theorem C14_sender_write_error_recorded {ω : Type} (wr : ω → Bytes → Bool × ω) (cfg : Cfg) (hh : cfg.hasErr = true)
    (st : PSt ω) (p : Bytes) (e : Err) (he : (st.write wr cfg p).2.1 = some e) :
    (st.write wr cfg p).1 = 0 ∧ (st.write wr cfg p).2.2.err = some e :=
  write_err_recorded wr cfg hh st p e he

/-- **sticky, run level, every state**: once a `Write` of such a stream has
    returned an error `e`, every later `Write` — any number of them, any
    arguments — returns `(0, e)` and changes nothing (not the buffer, not the
    encoder, not the writer) -/
theorem C14_sender_write_error_sticky_run {ω : Type} (wr : ω → Bytes → Bool × ω) (cfg : Cfg) (hh : cfg.hasErr = true)
    (st : PSt ω) (p : Bytes) (e : Err) (he : (st.write wr cfg p).2.1 = some e) (ps : List Bytes) :
    PSt.writes wr cfg (st.write wr cfg p).2.2 ps = (ps.map (fun _ => (0, some e)), (st.write wr cfg p).2.2) :=
  write_error_sticky_run wr cfg hh st p e he ps

/-- **a `Write` never fails with one of the stream's own panics**: in every
    state whose stored error is nil, an error returned by `Write` is the
    writer's or one the packet function returned (`ErrPacketOverflow`) -/
theorem C14_sender_write_error_kinds {ω : Type} (wr : ω → Bytes → Bool × ω) (cfg : Cfg) (hb : 0 < cfg.bs)
    (st : PSt ω) (p : Bytes) (e : Err) (hs : cfg.hasErr = true → st.err = none)
    (he : (st.write wr cfg p).2.1 = some e) : e = .ioError ∨ ∃ i c f, cfg.pkt i c f = .error e :=
  write_error_kinds wr cfg hb st p e hs he

/-- **whole run, scripted writer: `Close` never reports success for a message
    that was not completely written** — if ANY underlying write failed, in the
    constructor, in any `Write` (whatever it returned, whether or not the caller
    looked) or in `Close`, then the constructor failed or `Close` does not
    return nil: it returns an error OR PANICS (`c.1 ≠ none` includes the model's
    `.panic` marker; see the file header for when the real `Close` panics, and
    the next theorem for the call that RETURNS the error) -/
theorem C14_sender_run_fault_reported (cfg : Cfg) (hp : ∀ b, (cfg.pieces b).flatten = b) (sink : Stream.Sink) (part : List Nat)
    (headerBytes : Bytes) (ws : List Bytes) :
    let i := PSt.init Wr.write cfg.pieces ({ sink := sink, part := part } : Wr) headerBytes
    let c := (PSt.writes Wr.write cfg i.2 ws).2.close Wr.write cfg
    c.2.codec.w.faults ≠ 0 → i.1 = false ∨ c.1 ≠ none := by
  intro i c hne
  by_cases hc : c.1 = none
  · left
    have hi := faultSeen_init Wr.write Wr.faults wr_flt cfg.pieces ({ sink := sink, part := part } : Wr) headerBytes
    have hw := faultSeen_writes Wr.write Wr.faults wr_flt cfg 0 ws _ hi.1
    have hcl := close_flt Wr.write Wr.faults wr_flt cfg (PSt.writes Wr.write cfg i.2 ws).2
    have hsame := hcl.1 hc
    have hfailed : (PSt.writes Wr.write cfg i.2 ws).2.codec.failed = true := hw (by rw [← hsame]; exact hne)
    have := (dead_close Wr.write Wr.bytes wr_obs cfg hp _ (Or.inl hfailed)).1
    exact absurd hc this
  · exact Or.inr hc

/-- **the fault is RETURNED as an error by the call in which it happens** (no
    panic marker involved): if any underlying write failed during the run, the
    constructor failed, or some `Write` returned the writer's error, or `Close`
    returned the writer's error -/
theorem C14_sender_run_fault_returns_io_error (cfg : Cfg) (sink : Stream.Sink) (part : List Nat) (headerBytes : Bytes) (ws : List Bytes) :
    let i := PSt.init Wr.write cfg.pieces ({ sink := sink, part := part } : Wr) headerBytes
    let r := PSt.writes Wr.write cfg i.2 ws
    let c := r.2.close Wr.write cfg
    c.2.codec.w.faults ≠ 0 → i.1 = false ∨ (∃ x ∈ r.1, x.2 = some .ioError) ∨ c.1 = some .ioError := by
  intro i r c hne
  exact run_fault_io Wr.write Wr.faults wr_flt cfg ({ sink := sink, part := part } : Wr) headerBytes ws hne

/-- …generic form (any fault-counting writer, see the header on `FltWriter`) -/
theorem C14_sender_run_fault_returns_io_error_gen {ω : Type} (wr : ω → Bytes → Bool × ω) (flt : ω → Nat)
    (hw : FltWriter wr flt) (cfg : Cfg) (w0 : ω) (headerBytes : Bytes) (ws : List Bytes) :
    let i := PSt.init wr cfg.pieces w0 headerBytes
    let r := PSt.writes wr cfg i.2 ws
    let c := r.2.close wr cfg
    flt c.2.codec.w ≠ flt w0 → i.1 = false ∨ (∃ x ∈ r.1, x.2 = some .ioError) ∨ c.1 = some .ioError := by
  intro i r c hne
  exact run_fault_io wr flt hw cfg w0 headerBytes ws hne

/-- **`Close` returns nil ⇒ the constructor succeeded and EVERY earlier `Write`
    returned nil** — whatever the caller did with the results -/
theorem C14_sender_close_ok_all_writes_ok {ω : Type} (wr : ω → Bytes → Bool × ω) (obs : ω → Bytes) (hw : ObsWriter wr obs)
    (cfg : Cfg) (hp : ∀ b, (cfg.pieces b).flatten = b) (hb : 0 < cfg.bs) (hif : IndexFail cfg.pkt)
    (w0 : ω) (headerBytes : Bytes) (ws : List Bytes) :
    let i := PSt.init wr cfg.pieces w0 headerBytes
    let r := PSt.writes wr cfg i.2 ws
    (r.2.close wr cfg).1 = none → i.1 = true ∧ ∀ x ∈ r.1, x.2 = none := by
  intro i r hc
  exact close_ok_all_ok wr obs hw cfg hp hb hif w0 headerBytes ws hc

/-- **`Close` panics only after an earlier call has returned an error**: if
    the packet function itself never answers with a panic marker (true of the
    three instances for a known version), a `Close` that panics was preceded by
    a failed constructor or a `Write` that returned an error -/
theorem C14_sender_close_panics_only_after_error {ω : Type} (wr : ω → Bytes → Bool × ω) (obs : ω → Bytes)
    (hw : ObsWriter wr obs) (cfg : Cfg) (hp : ∀ b, (cfg.pieces b).flatten = b) (hb : 0 < cfg.bs)
    (hif : IndexFail cfg.pkt) (v : Version) (hv : cfg.v1shape = (v == v1))
    (hnp : ∀ i c f s, cfg.pkt i c f ≠ .error (.panic s)) (w0 : ω) (headerBytes : Bytes) (ws : List Bytes) (s : String) :
    let i := PSt.init wr cfg.pieces w0 headerBytes
    let r := PSt.writes wr cfg i.2 ws
    (r.2.close wr cfg).1 = some (.panic s) → i.1 = false ∨ ∃ x ∈ r.1, x.2 ≠ none := by
  intro i r hc
  cases hi : i.1 with
  | false => exact Or.inl rfl
  | true =>
    right
    apply Classical.byContradiction
    intro hno
    have hws : ∀ x ∈ r.1, x.2 = none := by
      intro x hx
      cases hx2 : x.2 with
      | none => rfl
      | some e => exact absurd ⟨x, hx, by rw [hx2]; simp⟩ hno
    rcases init_inv wr obs hw cfg hp v w0 headerBytes with ⟨_, ha, hb0⟩ | ⟨hf, _, _⟩
    · obtain ⟨⟨E', ha', hbd', hne'⟩, _⟩ := alive_writes_ok wr obs hw cfg hp hb hif v _ ws [] [] _ ha
        (by rw [hb0]; simp) (fun _ => rfl) hws
      rcases alive_close wr obs hw cfg hp hb hif v hv _ _ E' _ ha' hbd' hne' with ⟨h, _⟩ | ⟨e', he, hk, _⟩
      · rw [hc] at h; cases h
      · rw [hc] at he; injection he with he; subst he
        rcases hk with hk | ⟨i', c', f', hk⟩
        · cases hk
        · exact hnp i' c' f' s hk
    · rw [hi] at hf; cases hf

/-! ## success means written; on failure a prefix -/

/-- **Success means written** (any writer): if the constructor, every `Write`
    and `Close` reported success, the writer has accepted exactly the
    all-at-once output for the concatenated plaintext — and every `Write`
    returned the length of its argument -/
theorem C14_sender_success_means_written {ω : Type} (wr : ω → Bytes → Bool × ω) (obs : ω → Bytes) (hw : ObsWriter wr obs)
    (cfg : Cfg) (hp : ∀ b, (cfg.pieces b).flatten = b) (hb : 0 < cfg.bs) (hif : IndexFail cfg.pkt)
    (v : Version) (hv : cfg.v1shape = (v == v1)) (w0 : ω) (headerBytes : Bytes) (ws : List Bytes)
    (hi : (PSt.init wr cfg.pieces w0 headerBytes).1 = true)
    (hws : ∀ x ∈ (PSt.writes wr cfg (PSt.init wr cfg.pieces w0 headerBytes).2 ws).1, x.2 = none)
    (hc : ((PSt.writes wr cfg (PSt.init wr cfg.pieces w0 headerBytes).2 ws).2.close wr cfg).1 = none) :
    ∃ M, oneShot cfg v headerBytes ws.flatten = .ok M ∧
      obs ((PSt.writes wr cfg (PSt.init wr cfg.pieces w0 headerBytes).2 ws).2.close wr cfg).2.codec.w = obs w0 ++ M ∧
      (PSt.writes wr cfg (PSt.init wr cfg.pieces w0 headerBytes).2 ws).1 = ws.map (fun p => (p.length, none)) := by
  obtain ⟨B, hB, ho, hr⟩ := run_success wr obs hw cfg hp hb hif v hv w0 headerBytes ws hi hws hc
  exact ⟨headerPacket headerBytes ++ B, by simp [oneShot, hB], by rw [ho, List.append_assoc], hr⟩

/-- **`Close` returns nil ⇒ completely written** (the property's second clause,
    with NO hypothesis on what the constructor and the `Write`s returned): the
    constructor succeeded, every `Write` returned `(len p, nil)` and the writer
    has accepted exactly the all-at-once output for the concatenated plaintext -/
theorem C14_sender_close_ok_means_written {ω : Type} (wr : ω → Bytes → Bool × ω) (obs : ω → Bytes) (hw : ObsWriter wr obs)
    (cfg : Cfg) (hp : ∀ b, (cfg.pieces b).flatten = b) (hb : 0 < cfg.bs) (hif : IndexFail cfg.pkt)
    (v : Version) (hv : cfg.v1shape = (v == v1)) (w0 : ω) (headerBytes : Bytes) (ws : List Bytes)
    (hc : ((PSt.writes wr cfg (PSt.init wr cfg.pieces w0 headerBytes).2 ws).2.close wr cfg).1 = none) :
    (PSt.init wr cfg.pieces w0 headerBytes).1 = true ∧
    ∃ M, oneShot cfg v headerBytes ws.flatten = .ok M ∧
      obs ((PSt.writes wr cfg (PSt.init wr cfg.pieces w0 headerBytes).2 ws).2.close wr cfg).2.codec.w = obs w0 ++ M ∧
      (PSt.writes wr cfg (PSt.init wr cfg.pieces w0 headerBytes).2 ws).1 = ws.map (fun p => (p.length, none)) := by
  obtain ⟨hi, B, hB, ho, hr⟩ := run_close_ok wr obs hw cfg hp hb hif v hv w0 headerBytes ws hc
  exact ⟨hi, headerPacket headerBytes ++ B, by simp [oneShot, hB], by rw [ho, List.append_assoc], hr⟩

/-- **On failure: a prefix, never a corrupted packet order** (any writer):
    after the constructor, any `Write`s and `Close` — whatever failed, whatever
    the calls returned — the writer has accepted a prefix of the all-at-once
    output for everything passed to `Write` -/
theorem C14_sender_failure_prefix {ω : Type} (wr : ω → Bytes → Bool × ω) (obs : ω → Bytes) (hw : ObsWriter wr obs)
    (cfg : Cfg) (hp : ∀ b, (cfg.pieces b).flatten = b) (hb : 0 < cfg.bs) (hif : IndexFail cfg.pkt)
    (v : Version) (hv : cfg.v1shape = (v == v1)) (w0 : ω) (headerBytes : Bytes) (ws : List Bytes) (M : Bytes)
    (hM : oneShot cfg v headerBytes ws.flatten = .ok M) :
    obs ((PSt.writes wr cfg (PSt.init wr cfg.pieces w0 headerBytes).2 ws).2.close wr cfg).2.codec.w <+: obs w0 ++ M := by
  unfold oneShot at hM
  cases hB : planBytes cfg.pkt (Encrypt.chunkPlan v cfg.bs ws.flatten) 0 with
  | error e => simp [hB] at hM
  | ok B =>
    simp only [hB] at hM
    injection hM with hM
    have := run_prefix wr obs hw cfg hp hb hif v hv w0 headerBytes ws B hB
    rw [← hM, ← List.append_assoc]
    exact this

/-- …and a `Close` of a run whose calls all succeeded so far fails only with
    the writer's error or the packet function's refusal (`ErrPacketOverflow`),
    never with one of the stream's own panics -/
theorem C14_sender_close_error_kinds {ω : Type} (wr : ω → Bytes → Bool × ω) (obs : ω → Bytes) (hw : ObsWriter wr obs)
    (cfg : Cfg) (hp : ∀ b, (cfg.pieces b).flatten = b) (hb : 0 < cfg.bs) (hif : IndexFail cfg.pkt)
    (v : Version) (hv : cfg.v1shape = (v == v1)) (w0 : ω) (headerBytes : Bytes) (ws : List Bytes)
    (hi : (PSt.init wr cfg.pieces w0 headerBytes).1 = true)
    (hws : ∀ x ∈ (PSt.writes wr cfg (PSt.init wr cfg.pieces w0 headerBytes).2 ws).1, x.2 = none) (e : Err)
    (hc : ((PSt.writes wr cfg (PSt.init wr cfg.pieces w0 headerBytes).2 ws).2.close wr cfg).1 = some e) :
    e = .ioError ∨ ∃ i c f, cfg.pkt i c f = .error e := by
  rcases init_inv wr obs hw cfg hp v w0 headerBytes with ⟨_, ha, hb0⟩ | ⟨hf, _, _⟩
  · obtain ⟨⟨E', ha', hbd', hne'⟩, _⟩ := alive_writes_ok wr obs hw cfg hp hb hif v _ ws [] [] _ ha
      (by rw [hb0]; simp) (fun _ => rfl) hws
    rcases alive_close wr obs hw cfg hp hb hif v hv _ _ E' _ ha' hbd' hne' with ⟨h, _⟩ | ⟨e', he, hk, _⟩
    · rw [hc] at h; cases h
    · rw [hc] at he; injection he with he; subst he; exact hk
  · rw [hi] at hf; cases hf

/-! ### the three modes over the scripted writer, linked to the all-at-once senders -/

/-- `NewEncryptStream` + `Write`* + `Close` over a writer that fails as `sink`
    says: every call reported success ⇒ the writer holds exactly
    `Encrypt.sealWith` of the concatenated plaintext (whose chunk plan is the
    one `C13_write_independent` is about) -/
theorem C14_encrypt_success_means_written (P : Prims) (bs : Nat) (hb : 0 < bs) (pieces : Bytes → List Bytes)
    (hp : ∀ b, (pieces b).flatten = b) (v : Version) (sender : Option Bytes) (rs : List Encrypt.Recipient)
    (eph pk : Bytes) (hbytes : Bytes) (cfg : Cfg) (hs : encryptSetup P bs pieces v sender rs eph pk = .ok (hbytes, cfg))
    (sink : Stream.Sink) (part : List Nat) (ws : List Bytes)
    (hi : (PSt.init Wr.write cfg.pieces ({ sink := sink, part := part } : Wr) hbytes).1 = true)
    (hws : ∀ x ∈ (PSt.writes Wr.write cfg (PSt.init Wr.write cfg.pieces ({ sink := sink, part := part } : Wr) hbytes).2 ws).1, x.2 = none)
    (hc : ((PSt.writes Wr.write cfg (PSt.init Wr.write cfg.pieces ({ sink := sink, part := part } : Wr) hbytes).2 ws).2.close Wr.write cfg).1 = none) :
    Encrypt.sealWith P bs v sender rs eph pk ws.flatten =
      .ok ((PSt.writes Wr.write cfg (PSt.init Wr.write cfg.pieces ({ sink := sink, part := part } : Wr) hbytes).2 ws).2.close Wr.write cfg).2.codec.w.bytes := by
  have hcfg := encryptSetup_cfg P bs pieces v sender rs eph pk hbytes cfg hs
  obtain ⟨M, hM, ho, _⟩ := C14_sender_success_means_written Wr.write Wr.bytes wr_obs cfg
    (by rw [hcfg.2.1]; exact hp) (by rw [hcfg.1]; exact hb) hcfg.2.2.2 v hcfg.2.2.1 _ hbytes ws hi hws hc
  rw [ho]
  exact (sealWith_iff_oneShot P bs pieces v sender rs eph pk ws.flatten _).2
    ⟨hbytes, cfg, hs, by simpa [Wr.bytes] using hM⟩

/-- …and on failure the writer holds a prefix of `Encrypt.sealWith` -/
theorem C14_encrypt_failure_prefix (P : Prims) (bs : Nat) (hb : 0 < bs) (pieces : Bytes → List Bytes)
    (hp : ∀ b, (pieces b).flatten = b) (v : Version) (sender : Option Bytes) (rs : List Encrypt.Recipient)
    (eph pk : Bytes) (hbytes : Bytes) (cfg : Cfg) (hs : encryptSetup P bs pieces v sender rs eph pk = .ok (hbytes, cfg))
    (sink : Stream.Sink) (part : List Nat) (ws : List Bytes) (M : Bytes) (hM : Encrypt.sealWith P bs v sender rs eph pk ws.flatten = .ok M) :
    ((PSt.writes Wr.write cfg (PSt.init Wr.write cfg.pieces ({ sink := sink, part := part } : Wr) hbytes).2 ws).2.close Wr.write cfg).2.codec.w.bytes <+: M := by
  have hcfg := encryptSetup_cfg P bs pieces v sender rs eph pk hbytes cfg hs
  obtain ⟨hb', cfg', hs', hone⟩ := (sealWith_iff_oneShot P bs pieces v sender rs eph pk ws.flatten M).1 hM
  rw [hs] at hs'
  injection hs' with hs'
  obtain ⟨rfl, rfl⟩ := Prod.mk.inj hs'
  have := C14_sender_failure_prefix Wr.write Wr.bytes wr_obs cfg (by rw [hcfg.2.1]; exact hp) (by rw [hcfg.1]; exact hb)
    hcfg.2.2.2 v hcfg.2.2.1 ({ sink := sink, part := part } : Wr) hbytes ws M hone
  simpa [Wr.bytes] using this

/-- `NewSignStream` likewise: success ⇒ exactly `Sign.attachedWith`; always a prefix of it -/
theorem C14_sign_written_or_prefix (P : Prims) (bs : Nat) (hb : 0 < bs) (pieces : Bytes → List Bytes)
    (hp : ∀ b, (pieces b).flatten = b) (v : Version) (signer nonce : Bytes) (hbytes : Bytes) (cfg : Cfg)
    (hs : signSetup P bs pieces v signer nonce = .ok (hbytes, cfg)) (sink : Stream.Sink) (part : List Nat) (ws : List Bytes) :
    let i := PSt.init Wr.write cfg.pieces ({ sink := sink, part := part } : Wr) hbytes
    let r := PSt.writes Wr.write cfg i.2 ws
    let c := r.2.close Wr.write cfg
    (i.1 = true → (∀ x ∈ r.1, x.2 = none) → c.1 = none →
      Sign.attachedWith P bs v signer nonce ws.flatten = .ok c.2.codec.w.bytes) ∧
    (∀ M, Sign.attachedWith P bs v signer nonce ws.flatten = .ok M → c.2.codec.w.bytes <+: M) := by
  intro i r c
  have hcfg := signSetup_cfg P bs pieces v signer nonce hbytes cfg hs
  refine ⟨fun hi hws hc => ?_, fun M hM => ?_⟩
  · obtain ⟨M, hM, ho, _⟩ := C14_sender_success_means_written Wr.write Wr.bytes wr_obs cfg
      (by rw [hcfg.2.1]; exact hp) (by rw [hcfg.1]; exact hb) hcfg.2.2.2 v hcfg.2.2.1 _ hbytes ws hi hws hc
    show _ = Except.ok (Wr.bytes _)
    rw [ho]
    exact (attachedWith_iff_oneShot P bs pieces v signer nonce ws.flatten _).2
      ⟨hbytes, cfg, hs, by simpa [Wr.bytes] using hM⟩
  · obtain ⟨hb', cfg', hs', hone⟩ := (attachedWith_iff_oneShot P bs pieces v signer nonce ws.flatten M).1 hM
    rw [hs] at hs'
    injection hs' with hs'
    obtain ⟨rfl, rfl⟩ := Prod.mk.inj hs'
    have := C14_sender_failure_prefix Wr.write Wr.bytes wr_obs cfg (by rw [hcfg.2.1]; exact hp) (by rw [hcfg.1]; exact hb)
      hcfg.2.2.2 v hcfg.2.2.1 ({ sink := sink, part := part } : Wr) hbytes ws M hone
    simpa [Wr.bytes] using this

/-- `NewSigncryptSealStream` likewise -/
theorem C14_signcrypt_written_or_prefix (P : Prims) (bs : Nat) (hb : 0 < bs) (pieces : Bytes → List Bytes)
    (hp : ∀ b, (pieces b).flatten = b) (sender : Option Bytes) (rs : List Signcrypt.Recipient) (eph pk : Bytes)
    (hbytes : Bytes) (cfg : Cfg) (hs : signcryptSetup P bs pieces sender rs eph pk = .ok (hbytes, cfg))
    (sink : Stream.Sink) (part : List Nat) (ws : List Bytes) :
    let i := PSt.init Wr.write cfg.pieces ({ sink := sink, part := part } : Wr) hbytes
    let r := PSt.writes Wr.write cfg i.2 ws
    let c := r.2.close Wr.write cfg
    (i.1 = true → (∀ x ∈ r.1, x.2 = none) → c.1 = none →
      Signcrypt.sealWith P bs sender rs eph pk ws.flatten = .ok c.2.codec.w.bytes) ∧
    (∀ M, Signcrypt.sealWith P bs sender rs eph pk ws.flatten = .ok M → c.2.codec.w.bytes <+: M) := by
  intro i r c
  have hcfg := signcryptSetup_cfg P bs pieces sender rs eph pk hbytes cfg hs
  refine ⟨fun hi hws hc => ?_, fun M hM => ?_⟩
  · obtain ⟨M, hM, ho, _⟩ := C14_sender_success_means_written Wr.write Wr.bytes wr_obs cfg
      (by rw [hcfg.2.1]; exact hp) (by rw [hcfg.1]; exact hb) hcfg.2.2.2 v2 hcfg.2.2.1 _ hbytes ws hi hws hc
    show _ = Except.ok (Wr.bytes _)
    rw [ho]
    exact (scSealWith_iff_oneShot P bs pieces sender rs eph pk ws.flatten _).2
      ⟨hbytes, cfg, hs, by simpa [Wr.bytes] using hM⟩
  · obtain ⟨hb', cfg', hs', hone⟩ := (scSealWith_iff_oneShot P bs pieces sender rs eph pk ws.flatten M).1 hM
    rw [hs] at hs'
    injection hs' with hs'
    obtain ⟨rfl, rfl⟩ := Prod.mk.inj hs'
    have := C14_sender_failure_prefix Wr.write Wr.bytes wr_obs cfg (by rw [hcfg.2.1]; exact hp) (by rw [hcfg.1]; exact hb)
      hcfg.2.2.2 v2 hcfg.2.2.1 ({ sink := sink, part := part } : Wr) hbytes ws M hone
    simpa [Wr.bytes] using this

/-- `NewSignDetachedStream`: `Write` only hashes; what reaches the writer is a
    prefix of `Sign.detachedWith` of everything written, all of it iff the
    constructor and `Close` report success; `Close` reports every failing
    underlying write and always fails after one -/
theorem C14_detached_written_or_prefix (P : Prims) (pieces : Bytes → List Bytes) (hp : ∀ b, (pieces b).flatten = b)
    (v : Version) (signer nonce : Bytes) (hbytes : Bytes) (sp : Bytes → Bytes)
    (hs : detachedSetup P v signer nonce = .ok (hbytes, sp)) (sink : Stream.Sink) (part : List Nat) (ws : List Bytes) :
    let i := DSt.init Wr.write pieces ({ sink := sink, part := part } : Wr) hbytes
    let r := DSt.writes i.2 ws
    let c := r.2.close Wr.write pieces sp
    r.1 = ws.map (fun p => (p.length, none)) ∧
    (∃ M, Sign.detachedWith P v signer nonce ws.flatten = .ok M ∧ c.2.codec.w.bytes <+: M ∧
      (i.1 = true → c.1 = none → c.2.codec.w.bytes = M)) ∧
    (c.1 = none → c.2.codec.w.faults = r.2.codec.w.faults) ∧
    (r.2.codec.failed = true → c.1 = some .ioError) := by
  intro i r c
  obtain ⟨h1, h2⟩ := det_run Wr.write Wr.bytes wr_obs pieces hp sp ({ sink := sink, part := part } : Wr) hbytes ws
  have hfl := det_close_flt Wr.write Wr.faults wr_flt pieces sp r.2
  refine ⟨(det_writes ws _).2, ⟨headerPacket hbytes ++ sp ws.flatten, ?_, ?_, ?_⟩, hfl.1, fun h => (hfl.2.1 h).1⟩
  · exact (detachedWith_iff P v signer nonce ws.flatten _).2 ⟨hbytes, sp, hs, rfl⟩
  · simpa [Wr.bytes, List.append_assoc] using h1
  · intro hi hc
    simpa [Wr.bytes, List.append_assoc] using h2 hi hc

/-- **the three packet streams: `Close` returned nil ⇒ the writer holds exactly
    the all-at-once message** (`Encrypt.sealWith` / `Sign.attachedWith` /
    `Signcrypt.sealWith` of the concatenated plaintext) — `Close` alone, no
    hypothesis on the other calls, any fault script -/
theorem C14_encrypt_close_ok_means_written (P : Prims) (bs : Nat) (hb : 0 < bs) (pieces : Bytes → List Bytes)
    (hp : ∀ b, (pieces b).flatten = b) (v : Version) (sender : Option Bytes) (rs : List Encrypt.Recipient)
    (eph pk : Bytes) (hbytes : Bytes) (cfg : Cfg) (hs : encryptSetup P bs pieces v sender rs eph pk = .ok (hbytes, cfg))
    (sink : Stream.Sink) (part : List Nat) (ws : List Bytes) :
    let i := PSt.init Wr.write cfg.pieces ({ sink := sink, part := part } : Wr) hbytes
    let r := PSt.writes Wr.write cfg i.2 ws
    let c := r.2.close Wr.write cfg
    c.1 = none → i.1 = true ∧ r.1 = ws.map (fun p => (p.length, none)) ∧
      Encrypt.sealWith P bs v sender rs eph pk ws.flatten = .ok c.2.codec.w.bytes := by
  intro i r c hc
  have hcfg := encryptSetup_cfg P bs pieces v sender rs eph pk hbytes cfg hs
  obtain ⟨hi, M, hM, ho, hr⟩ := C14_sender_close_ok_means_written Wr.write Wr.bytes wr_obs cfg
    (by rw [hcfg.2.1]; exact hp) (by rw [hcfg.1]; exact hb) hcfg.2.2.2 v hcfg.2.2.1 _ hbytes ws hc
  refine ⟨hi, hr, ?_⟩
  show _ = Except.ok (Wr.bytes _)
  rw [ho]
  exact (sealWith_iff_oneShot P bs pieces v sender rs eph pk ws.flatten _).2
    ⟨hbytes, cfg, hs, by simpa [Wr.bytes] using hM⟩

theorem C14_sign_close_ok_means_written (P : Prims) (bs : Nat) (hb : 0 < bs) (pieces : Bytes → List Bytes)
    (hp : ∀ b, (pieces b).flatten = b) (v : Version) (signer nonce : Bytes) (hbytes : Bytes) (cfg : Cfg)
    (hs : signSetup P bs pieces v signer nonce = .ok (hbytes, cfg)) (sink : Stream.Sink) (part : List Nat) (ws : List Bytes) :
    let i := PSt.init Wr.write cfg.pieces ({ sink := sink, part := part } : Wr) hbytes
    let r := PSt.writes Wr.write cfg i.2 ws
    let c := r.2.close Wr.write cfg
    c.1 = none → i.1 = true ∧ r.1 = ws.map (fun p => (p.length, none)) ∧
      Sign.attachedWith P bs v signer nonce ws.flatten = .ok c.2.codec.w.bytes := by
  intro i r c hc
  have hcfg := signSetup_cfg P bs pieces v signer nonce hbytes cfg hs
  obtain ⟨hi, M, hM, ho, hr⟩ := C14_sender_close_ok_means_written Wr.write Wr.bytes wr_obs cfg
    (by rw [hcfg.2.1]; exact hp) (by rw [hcfg.1]; exact hb) hcfg.2.2.2 v hcfg.2.2.1 _ hbytes ws hc
  refine ⟨hi, hr, ?_⟩
  show _ = Except.ok (Wr.bytes _)
  rw [ho]
  exact (attachedWith_iff_oneShot P bs pieces v signer nonce ws.flatten _).2
    ⟨hbytes, cfg, hs, by simpa [Wr.bytes] using hM⟩

theorem C14_signcrypt_close_ok_means_written (P : Prims) (bs : Nat) (hb : 0 < bs) (pieces : Bytes → List Bytes)
    (hp : ∀ b, (pieces b).flatten = b) (sender : Option Bytes) (rs : List Signcrypt.Recipient) (eph pk : Bytes)
    (hbytes : Bytes) (cfg : Cfg) (hs : signcryptSetup P bs pieces sender rs eph pk = .ok (hbytes, cfg))
    (sink : Stream.Sink) (part : List Nat) (ws : List Bytes) :
    let i := PSt.init Wr.write cfg.pieces ({ sink := sink, part := part } : Wr) hbytes
    let r := PSt.writes Wr.write cfg i.2 ws
    let c := r.2.close Wr.write cfg
    c.1 = none → i.1 = true ∧ r.1 = ws.map (fun p => (p.length, none)) ∧
      Signcrypt.sealWith P bs sender rs eph pk ws.flatten = .ok c.2.codec.w.bytes := by
  intro i r c hc
  have hcfg := signcryptSetup_cfg P bs pieces sender rs eph pk hbytes cfg hs
  obtain ⟨hi, M, hM, ho, hr⟩ := C14_sender_close_ok_means_written Wr.write Wr.bytes wr_obs cfg
    (by rw [hcfg.2.1]; exact hp) (by rw [hcfg.1]; exact hb) hcfg.2.2.2 v2 hcfg.2.2.1 _ hbytes ws hc
  refine ⟨hi, hr, ?_⟩
  show _ = Except.ok (Wr.bytes _)
  rw [ho]
  exact (scSealWith_iff_oneShot P bs pieces sender rs eph pk ws.flatten _).2
    ⟨hbytes, cfg, hs, by simpa [Wr.bytes] using hM⟩

/-- the constructor of the detached-signature stream that returns a stream has
    seen no failing underlying write (the `DSt.init` analogue of
    `C14_sender_ctor_reports`); one that fails leaves the encoder failed -/
theorem C14_detached_ctor_reports {ω : Type} (wr : ω → Bytes → Bool × ω) (flt : ω → Nat) (hw : FltWriter wr flt)
    (pieces : Bytes → List Bytes) (w0 : ω) (headerBytes : Bytes) :
    ((DSt.init wr pieces w0 headerBytes).1 = true → flt (DSt.init wr pieces w0 headerBytes).2.codec.w = flt w0) ∧
    ((DSt.init wr pieces w0 headerBytes).1 = false → (DSt.init wr pieces w0 headerBytes).2.codec.failed = true) :=
  det_init_flt wr flt hw pieces w0 headerBytes

/-- **whole run of the binary DETACHED stream** (`NewSignDetachedStream`,
    scripted writer): if ANY underlying write failed — in the constructor or in
    `Close`; `Write` only feeds the hash — then the constructor failed or `Close`
    RETURNED the writer's error (this stream has no panic); and `Close` = nil ⇒
    the constructor succeeded, no write failed, the writer holds exactly
    `Sign.detachedWith` of everything written -/
theorem C14_detached_run_fault_reported (P : Prims) (pieces : Bytes → List Bytes) (hp : ∀ b, (pieces b).flatten = b)
    (v : Version) (signer nonce : Bytes) (hbytes : Bytes) (sp : Bytes → Bytes)
    (hs : detachedSetup P v signer nonce = .ok (hbytes, sp)) (sink : Stream.Sink) (part : List Nat) (ws : List Bytes) :
    let i := DSt.init Wr.write pieces ({ sink := sink, part := part } : Wr) hbytes
    let c := (DSt.writes i.2 ws).2.close Wr.write pieces sp
    (c.2.codec.w.faults ≠ 0 → i.1 = false ∨ c.1 = some .ioError) ∧
    (c.1 = none → i.1 = true ∧ c.2.codec.w.faults = 0 ∧
      Sign.detachedWith P v signer nonce ws.flatten = .ok c.2.codec.w.bytes) := by
  intro i c
  obtain ⟨h1, h2⟩ := det_run_fault Wr.write Wr.faults wr_flt pieces sp ({ sink := sink, part := part } : Wr) hbytes ws
  refine ⟨h1, fun hc => ?_⟩
  have hi := h2 hc
  refine ⟨hi, ?_, ?_⟩
  · apply Classical.byContradiction
    intro hne
    rcases h1 hne with h | h
    · rw [hi] at h; cases h
    · rw [hc] at h; cases h
  · have := (det_run Wr.write Wr.bytes wr_obs pieces hp sp ({ sink := sink, part := part } : Wr) hbytes ws).2 hi hc
    show _ = Except.ok (Wr.bytes _)
    rw [this]
    exact (detachedWith_iff P v signer nonce ws.flatten _).2 ⟨hbytes, sp, hs, by simp [Wr.bytes]⟩

/-! ## the armored compositions (armor62_encrypt.go `closeForwarder`, armor62_sign.go,
     armor62_signcrypt.go; armor.go `armorEncoderStream.Write` / `spaceAndOutputBuffer` / `Close`):
     packet stream → go-codec → `FArm` (the armor encoder stream over the scripted writer).
     Checked call by call against `NewEncryptArmor62Stream`, `NewSignArmor62Stream`,
     `NewSignDetachedArmor62Stream`, `NewSigncryptArmor62SealStream` (streams `sender.fault.*.a`). -/

/-- the armor encoder stream is itself a reporting writer: its `Write` (and its
    `Close`) returns an error iff an underlying write failed during the call —
    exactly one, the first; no error of `spaceAndOutputBuffer` is dropped — or
    the call was refused because an EARLIER call failed (`a.failed`, `s.err` of
    fix 5ad1caa: then no underlying write happens at all).  `a.EncOk`: the BaseX
    encoder inside is healthy and writes into a buffer that never fails — true of
    `FArm.init` and kept by every call (second theorem), so this covers every
    state a program can reach. -/
theorem C14_armor_writer_reports (a : FArm) (b : Bytes) (he : a.EncOk) :
    (a.write b).2.w.faults = a.w.faults + (if (a.write b).1 || a.failed then 0 else 1) ∧
    a.close.2.w.faults = a.w.faults + (if a.close.1 || a.failed then 0 else 1) := by
  have h1 := farm_write_faults a b
  have h2 := farm_close_faults a
  rw [(farm_encOk_write a b he).1] at h1
  rw [(farm_encOk_close a he).1] at h2
  simpa using And.intro h1 h2

theorem C14_armor_writer_encoder_intact (par : Armor.Params) (hdr ftr : Bytes) (w : Wr) (a : FArm) (b : Bytes) :
    (FArm.init par hdr ftr w).2.EncOk ∧ (a.EncOk → (a.write b).2.EncOk ∧ a.close.2.EncOk) :=
  ⟨farm_encOk_init par hdr ftr w, fun h => ⟨(farm_encOk_write a b h).2, (farm_encOk_close a h).2⟩⟩

/-- in ANY state of the armor stream (no assumption on its encoder): a call that
    reports success has seen no failing underlying write, and the count of
    failed underlying writes never goes down -/
theorem C14_armor_writer_ok_means_no_fault (a : FArm) (b : Bytes) :
    ((a.write b).1 = true → (a.write b).2.w.faults = a.w.faults) ∧
    (a.close.1 = true → a.close.2.w.faults = a.w.faults) ∧
    a.w.faults ≤ (a.write b).2.w.faults ∧ a.w.faults ≤ a.close.2.w.faults := by
  have h1 := farm_write_faults a b
  have h2 := farm_close_faults a
  refine ⟨fun h => by rw [h1, h]; simp, fun h => by rw [h2, h]; simp, by omega, by omega⟩

/-- hence every armored packet stream reports: a `Write` (a `Close` through
    `closeForwarder`) that returns no error has seen no failing underlying write -/
theorem C14_armored_calls_report (cfg : Cfg) (st : PSt FArm) (p : Bytes) :
    ((st.write FArm.write cfg p).2.1 = none → (st.write FArm.write cfg p).2.2.codec.w.w.faults = st.codec.w.w.faults) ∧
    ((armoredClose cfg st).1 = none → (armoredClose cfg st).2.codec.w.w.faults = st.codec.w.w.faults) :=
  ⟨(write_flt FArm.write (fun a => a.w.faults) farm_flt cfg st p).1, (armoredClose_spec cfg st).1⟩

/-- **sticky through the armor**: a failing underlying write leaves go-codec's
    encoder failed; from then on no `Write` and no `Close` touches the armor
    stream or the writer below it, and `Close` reports an error (or panics) -/
theorem C14_armored_after_fault (cfg : Cfg) (st : PSt FArm) (p : Bytes) :
    ((st.write FArm.write cfg p).2.2.codec.w.w.faults ≠ st.codec.w.w.faults →
      (st.write FArm.write cfg p).2.2.codec.failed = true) ∧
    (st.codec.failed = true →
      (st.write FArm.write cfg p).2.2.codec = st.codec ∧
      (armoredClose cfg st).1 ≠ none ∧ (armoredClose cfg st).2.codec = st.codec) :=
  ⟨(write_flt FArm.write (fun a => a.w.faults) farm_flt cfg st p).2.1,
   fun hf => ⟨failed_write FArm.write cfg st p hf, (armoredClose_spec cfg st).2 hf⟩⟩

/-- **whole armored run: `Close` never reports success for a message that was
    not completely written** — if ANY underlying write failed (armor header,
    packet-stream constructor, any `Write`, `Close` of either layer), then a
    constructor failed or `Close` does not return nil (returns an error or
    PANICS, as for the binary streams; the next theorem names the call that
    RETURNS the error) -/
theorem C14_armored_run_fault_reported (cfg : Cfg) (typ : Int) (brand : Bytes) (sink : Stream.Sink) (part : List Nat)
    (headerBytes : Bytes) (ws : List Bytes) :
    let a := FArm.init62 typ brand ({ sink := sink, part := part } : Wr)
    let i := PSt.init FArm.write cfg.pieces a.2 headerBytes
    let c := armoredClose cfg (PSt.writes FArm.write cfg i.2 ws).2
    c.2.codec.w.w.faults ≠ 0 → a.1 = false ∨ c.1 ≠ none := by
  intro a i c hne
  by_cases hc : c.1 = none
  · left
    have hsame := (armoredClose_spec cfg (PSt.writes FArm.write cfg i.2 ws).2).1 hc
    have hi := faultSeen_init FArm.write (fun a => a.w.faults) farm_flt cfg.pieces a.2 headerBytes
    have hw := faultSeen_writes FArm.write (fun a => a.w.faults) farm_flt cfg (a.2.w.faults) ws _ hi.1
    have ha0 : a.2.w.faults = (if a.1 then 0 else 1) := by
      have := wr_write_faults ({ sink := sink, part := part } : Wr) (Armor.header typ brand ++ [Armor.period, Armor.space])
      simpa [a, FArm.init62, FArm.init] using this
    cases hA : a.1 with
    | false => rfl
    | true =>
      rw [hA] at ha0
      simp only [if_true] at ha0
      have hfailed := hw (by
        show (PSt.writes FArm.write cfg i.2 ws).2.codec.w.w.faults ≠ a.2.w.faults
        rw [ha0, ← hsame]; exact hne)
      exact absurd hc ((armoredClose_spec cfg _).2 hfailed).1
  · exact Or.inr hc

/-- **…and the fault is RETURNED by the call in which it happens**: the armor
    constructor failed, or the packet stream's constructor failed, or a `Write`
    returned the writer's error, or `closeForwarder.Close` returned it -/
theorem C14_armored_run_fault_returns_io_error (cfg : Cfg) (typ : Int) (brand : Bytes) (sink : Stream.Sink) (part : List Nat)
    (headerBytes : Bytes) (ws : List Bytes) :
    let a := FArm.init62 typ brand ({ sink := sink, part := part } : Wr)
    let i := PSt.init FArm.write cfg.pieces a.2 headerBytes
    let r := PSt.writes FArm.write cfg i.2 ws
    let c := armoredClose cfg r.2
    c.2.codec.w.w.faults ≠ 0 →
      a.1 = false ∨ i.1 = false ∨ (∃ x ∈ r.1, x.2 = some .ioError) ∨ c.1 = some .ioError := by
  intro a i r c hne
  have ha0 : a.2.w.faults = (if a.1 then 0 else 1) := by
    have := wr_write_faults ({ sink := sink, part := part } : Wr) (Armor.header typ brand ++ [Armor.period, Armor.space])
    simpa [a, FArm.init62, FArm.init] using this
  cases hA : a.1 with
  | false => exact Or.inl rfl
  | true =>
    right
    rw [hA] at ha0
    simp only [if_true] at ha0
    exact armored_run_fault_io cfg a.2 headerBytes ws (by rw [ha0]; exact hne)

/-! ## bounded buffering -/

/-- in EVERY state (also after faults): a `Write` adds at most its argument to
    the buffer, and one that reports success leaves at most one block buffered -/
theorem C14_sender_buffer_bounded {ω : Type} (wr : ω → Bytes → Bool × ω) (cfg : Cfg) (hb : 0 < cfg.bs)
    (st : PSt ω) (p : Bytes) :
    (st.write wr cfg p).2.2.buf.length ≤ st.buf.length + p.length ∧
    ((st.write wr cfg p).2.1 = none → (st.write wr cfg p).2.2.buf.length ≤ cfg.bs) :=
  write_buf wr cfg hb st p

/-! ## the real segmentation and packet functions meet the hypotheses -/

theorem C14_codec_pieces_segment (b : Bytes) : (codecPieces b).flatten = b ∧ ∀ p ∈ codecPieces b, p ≠ [] :=
  ⟨codecPieces_flatten b, codecPieces_nonempty b⟩

theorem C14_packet_functions_refuse_by_number (P : Prims) (v : Version) (sender : Option Bytes)
    (key hh : Bytes) (mks : List Bytes) :
    IndexFail (encPkt P v key hh mks) ∧ IndexFail (sigPkt P v key hh) ∧ IndexFail (scPkt P sender key hh) :=
  ⟨encPkt_indexFail P v key hh mks, sigPkt_indexFail P v key hh, scPkt_indexFail P sender key hh⟩

/-! ## non-vacuity and the behaviours that are NOT sticky (toy configuration: blocks of
     2 bytes, packet = number ‖ final flag ‖ chunk, one underlying write per byte) -/

def toyCfg (v1shape hasErr : Bool) : Cfg :=
  { bs := 2, v1shape := v1shape, hasErr := hasErr,
    pkt := fun i c f => .ok ([UInt8.ofNat i, if f then 1 else 0] ++ c), pieces := fun b => b.map ([·]) }

def toyRun (cfg : Cfg) (sink : Stream.Sink) (ws : List Bytes) : Bool × List (Nat × Option Err) × Option Err × Bytes :=
  let i := PSt.init Wr.write cfg.pieces ({ sink := sink } : Wr) [7]
  let r := PSt.writes Wr.write cfg i.2 ws
  let c := r.2.close Wr.write cfg
  (i.1, r.1, c.1, c.2.codec.w.bytes)

-- no fault: header packet (c4 01 07), two non-final packets, the final one
example : toyRun (toyCfg false true) [] [[1, 2, 3], [4, 5]] =
    (true, [(3, none), (2, none)], none, [0xc4, 1, 7, 0, 0, 1, 2, 1, 0, 3, 4, 2, 1, 5]) := by decide
-- the 6th underlying write fails (inside packet 0): the Write reports it, the next Write returns
-- the same error, Close too; a prefix has reached the writer
example : toyRun (toyCfg false true) [false, false, false, false, false, true] [[1, 2, 3], [4, 5]] =
    (true, [(0, some .ioError), (0, some .ioError)], some .ioError, [0xc4, 1, 7, 0, 0]) := by decide
-- NOT sticky (the model mirrors signAttachedStream, which has no `err` field): after the
-- fault a small Write that emits no block returns (n, nil); Close still fails
example : toyRun (toyCfg false false) [false, false, false, false, false, true] [[1, 2, 3], [4]] =
    (true, [(0, some .ioError), (1, none)], some .ioError, [0xc4, 1, 7, 0, 0]) := by decide
-- Close of a Version-2 shape PANICS after a failed Write that left more than one block buffered
example : (toyRun (toyCfg false true) [false, false, false, true] [[1, 2, 3, 4, 5, 6, 7]]).2.2.1 =
    some (.panic "blockRead") := by decide
-- …the Version-1 shape returns the error instead
example : (toyRun (toyCfg true true) [false, false, false, true] [[1, 2, 3, 4, 5, 6, 7]]).2.2.1 = some .ioError := by
  decide
-- a second Close after a successful one: Version-2 shapes panic (`assertEncodedChunkState`)
example :
    let i := PSt.init Wr.write (toyCfg false true).pieces ({} : Wr) [7]
    let c1 := i.2.close Wr.write (toyCfg false true)
    (c1.1, (c1.2.close Wr.write (toyCfg false true)).1) = (none, some (.panic "assertEncodedChunkState")) := by decide
-- what is NOT sticky (the code has it so; mirrored): `Close` neither looks at nor sets `err` — after a
-- FAILED `Close` (dead encoder, `err = nil`; here the 4th underlying write, in `Close`, fails) a small
-- `Write` that emits no block returns (n, nil); one that emits a block fails and records
example :
    let i := PSt.init Wr.write (toyCfg false true).pieces ({ sink := [false, false, false, true] } : Wr) [7]
    let c := i.2.close Wr.write (toyCfg false true)
    (c.1, (c.2.write Wr.write (toyCfg false true) [1]).2.1, (c.2.write Wr.write (toyCfg false true) [1, 2, 3]).2.1) =
      (some .ioError, none, some .ioError) := by decide
-- the hypotheses of `C14_sender_run_fault_returns_io_error` / `_close_panics_only_after_error` are met by
-- the panic run above: the Write returned the io error, then Close panicked
example : (toyRun (toyCfg false true) [false, false, false, true] [[1, 2, 3, 4, 5, 6, 7]]).2.1 = [(0, some .ioError)] := by
  decide
/-- one underlying write per PACKET (so that a failing write can take a part of it) -/
def toyCfgW (v1shape hasErr : Bool) : Cfg := { toyCfg v1shape hasErr with pieces := fun b => [b] }

def toyRunP (cfg : Cfg) (sink : Stream.Sink) (part : List Nat) (ws : List Bytes) :
    Bool × List (Nat × Option Err) × Option Err × Bytes :=
  let i := PSt.init Wr.write cfg.pieces ({ sink := sink, part := part } : Wr) [7]
  let r := PSt.writes Wr.write cfg i.2 ws
  let c := r.2.close Wr.write cfg
  (i.1, r.1, c.1, c.2.codec.w.bytes)

-- a FAILING write that ACCEPTED A PART of its slice (io.Writer: (n, err), 0 < n < len): the 2nd
-- underlying write (packet 0 = 00 00 01 02) takes 3 bytes and fails: the Write reports it, the
-- stream is dead, the writer holds header ‖ those 3 bytes — still a prefix of the fault-free output
example : toyRunP (toyCfgW false true) [false, true] [3] [[1, 2, 3], [4, 5]] =
    (true, [(0, some .ioError), (0, some .ioError)], some .ioError, [0xc4, 1, 7, 0, 0, 1]) := by decide
example : toyRunP (toyCfgW false true) [] [] [[1, 2, 3], [4, 5]] =
    (true, [(3, none), (2, none)], none, [0xc4, 1, 7, 0, 0, 1, 2, 1, 0, 3, 4, 2, 1, 5]) := by decide
-- it took the WHOLE slice and failed all the same (n = len, err): reported, dead, prefix
example : toyRunP (toyCfgW false true) [false, true] [1000] [[1, 2, 3], [4, 5]] =
    (true, [(0, some .ioError), (0, some .ioError)], some .ioError, [0xc4, 1, 7, 0, 0, 1, 2]) := by decide
-- go-codec's write pattern on a header-like value: bin8 = two 1-byte writes and the content
example : codecPieces [0xc4, 3, 9, 9, 9, 0x93, 0xc3, 0xc4, 0] = [[0xc4], [3], [9, 9, 9], [0x93], [0xc3], [0xc4], [0]] := by
  decide

end Saltpack.Props.C14
