/-
  C02 (encryption: only authenticated plaintext is released) at the BYTE level:
  for EVERY byte string handed to `NewDecryptStream`.

  `Props/C02.lean` states stream logic and the reduction for an arbitrary packet
  stream and an arbitrary receiver state.  Here the packets are THOSE THE FRONT
  END PRODUCED from the bytes (`Front.readEnc`: go-codec's typed decoding `Codec`,
  in go-codec's order and with its leniencies and limits — maps for arrays,
  authenticators of any length, byte strings as integer arrays, the depth budget
  for reserved extras, …; the spec-shaped reader `Wire` only where `Codec` calls
  the input unmodelled) and the state is the one `processHeader` returned for the
  header decoded from these bytes.

  Statements only; proofs in Saltpack/Proofs/CodecBytesAuth.lean, Receiver.lean, Authentic.lean.
-/
import Saltpack.Proofs.CodecBytesAuth
import Saltpack.Toy

namespace Saltpack.Props.C02
open Saltpack Saltpack.Proofs

/-- **Every byte string: refusal, or a packet-level run.**  Whatever `msg` is, if
    the front end reads it the result of `Decrypt.openBytes` is either a refusal
    (no decodable header, or the header check failed) that released nothing, or
    exactly `Decrypt.run` from the state of the accepted header over the packets
    decoded from `msg`. -/
theorem C02_bytes_cases (P : Prims) (valid : Validator) (kr : Keyring) (msg : Bytes) (r : Decrypt.Result)
    (hopen : Decrypt.openBytes P valid kr msg = .ok r) :
    (r.released = [] ∧ r.err ≠ none ∧ r.mki = none) ∨
    ∃ hb h ps log st, Front.readEnc msg = .ok (.ok hb h, ps) ∧
      Decrypt.processHeader P valid kr (P.hash hb) h = (log, .ok st) ∧
      r = ⟨some st.mki, (Decrypt.run P st ps.items ps.tail 1).bytes, (Decrypt.run P st ps.items ps.tail 1).err, log⟩ :=
  dec_bytes_cases P valid kr msg r hopen

/-- **Level A (in order, no gaps), every byte string.**  What is released is
    nothing (with an error), or the concatenation of the chunks of an accepted
    PREFIX of the packets the front end decoded from `msg`, numbered from 1. -/
theorem C02_released_is_accepted_prefix_bytes (P : Prims) (valid : Validator) (kr : Keyring) (msg : Bytes)
    (r : Decrypt.Result) (hopen : Decrypt.openBytes P valid kr msg = .ok r) :
    (r.released = [] ∧ r.err ≠ none) ∨
    ∃ hb h ps log st, Front.readEnc msg = .ok (.ok hb h, ps) ∧
      Decrypt.processHeader P valid kr (P.hash hb) h = (log, .ok st) ∧
      ∃ bs : List EncBlock, (bs.map some) <+: ps.items ∧
        Chain (Dec.accept P st) (Decrypt.blockFinal st.version) 1 bs r.released := by
  rcases dec_bytes_cases P valid kr msg r hopen with ⟨a, b, _⟩ | ⟨hb, h, ps, log, st, h1, h2, rfl⟩
  · exact Or.inl ⟨a, b⟩
  · exact Or.inr ⟨hb, h, ps, log, st, h1, h2, Dec.run_prefix P st ps.items ps.tail 1⟩

/-- **Level A (complete iff clean), every byte string.**  The byte-level run ends
    without error iff the header decoded from `msg` was accepted, the packets
    decoded from `msg` are exactly one complete message — every packet accepted at
    its position, only the last one final — and the input ends cleanly behind it. -/
theorem C02_clean_end_iff_complete_bytes (P : Prims) (valid : Validator) (kr : Keyring) (msg : Bytes)
    (r : Decrypt.Result) (hopen : Decrypt.openBytes P valid kr msg = .ok r) :
    r.err = none ↔
      ∃ hb h ps log st, Front.readEnc msg = .ok (.ok hb h, ps) ∧
        Decrypt.processHeader P valid kr (P.hash hb) h = (log, .ok st) ∧
        ∃ bs : List EncBlock, ps.items = bs.map some ∧ ps.tail = .eof ∧
          Complete (Dec.accept P st) (Decrypt.blockFinal st.version) 1 bs r.released := by
  constructor
  · intro he
    rcases dec_bytes_cases P valid kr msg r hopen with ⟨_, b, _⟩ | ⟨hb, h, ps, log, st, h1, h2, rfl⟩
    · exact (b he).elim
    · exact ⟨hb, h, ps, log, st, h1, h2, (Dec.run_ok_iff P st ps.items ps.tail 1).mp he⟩
  · rintro ⟨hb, h, ps, log, st, h1, h2, hc⟩
    have := dec_bytes_run P valid kr msg hb h ps h1 log st h2
    rw [hopen] at this
    injection this with this
    subst this
    exact (Dec.run_ok_iff P st ps.items ps.tail 1).mpr hc

/-- the all-at-once form (`Open`) on what the front end read returns plaintext
    only if the streaming form on the same bytes ended cleanly, and then exactly
    what the streaming form released, with the key identity the streaming form reports -/
theorem C02_all_at_once_only_if_clean_bytes (P : Prims) (valid : Validator) (kr : Keyring) (msg : Bytes)
    (hr : HeaderRead EncHeader) (ps : PStream EncBlock) (hread : Front.readEnc msg = .ok (hr, ps))
    (m : MKI) (pt : Bytes) (h : Decrypt.openAll P valid kr hr ps = .ok (m, pt)) :
    ∃ r, Decrypt.openBytes P valid kr msg = .ok r ∧ r.err = none ∧ r.released = pt ∧ r.mki = some m := by
  refine ⟨_, dec_openBytes_of_read hread, ?_⟩
  unfold Decrypt.openAll at h
  generalize Decrypt.openStream P valid kr hr ps = r at h
  obtain ⟨mk, rel, err, calls⟩ := r
  cases err <;> cases mk <;> simp_all

/-- **The reduction, every byte string.**  The front end read `msg` into header
    bytes `hb`, header `h`, packets `ps`; the receiver accepted the header (state
    `st`).  Relative to any history `H` of honest messages: nothing is released
    and the run fails; or what is released is the first `m` chunks of ONE honest
    message with the hash of THESE header bytes and this MAC key — all of it iff
    the run ends cleanly; or `AuthEnc.BreakIn P st H ps.items` (`C02_break_def`):
    a MAC forgery or hash collision exhibited by a packet decoded from `msg` that
    this run reached and accepted.

    The hypotheses `hv`, `hhl` of `C02_authentic_or_break` are discharged here
    (validator contract, lawful hash); `hlen`, `hplan`, `hv1`, `hkey`, `hone` are
    as there (the last two are the stated ASSUMPTIONS). -/
theorem C02_authentic_or_break_bytes (P : Prims) (hP : P.Lawful) (valid : Validator) (hvalid : ValidatorOK valid)
    (kr : Keyring) (msg hb : Bytes) (h : EncHeader) (ps : PStream EncBlock)
    (hread : Front.readEnc msg = .ok (.ok hb h, ps))
    (log : List KeyCall) (st : Decrypt.State)
    (hhdr : Decrypt.processHeader P valid kr (P.hash hb) h = (log, .ok st))
    (H : List AuthEnc.Event)
    (hlen : ∀ e ∈ H, e.headerHash.length = 64)
    (hplan : ∀ e ∈ H, e.headerHash = P.hash hb → PlanOK e.plan ∧ e.plan.length < 2 ^ 64 - 1)
    (hv1 : h.version.major = 1 → ∀ e ∈ H, e.headerHash = P.hash hb → ∀ p ∈ e.plan, (p.1 = [] ↔ p.2 = true))
    (hkey : ∀ e ∈ H, e.headerHash = P.hash hb → e.payloadKey = st.payloadKey)
    (hone : ∀ e ∈ H, ∀ e' ∈ H, e.headerHash = P.hash hb → e'.headerHash = P.hash hb → e = e') :
    ∃ r, Decrypt.openBytes P valid kr msg = .ok r ∧
      (r.released = [] ∧ r.err ≠ none ∨
       (∃ e ∈ H, (e.headerHash = P.hash hb ∧ e.macKey = st.macKey) ∧
          ∃ m, m ≤ e.plan.length ∧ r.released = planPrefix e.plan m ∧ (r.err = none → m = e.plan.length)) ∨
       AuthEnc.BreakIn P st H ps.items) := by
  obtain ⟨hv, hh, hhl⟩ := dec_state_ok P hP valid hvalid kr hb h log st hhdr
  have hver := dec_processHeader_version P valid kr _ h log st hhdr
  refine ⟨_, dec_bytes_run P valid kr msg hb h ps hread log st hhdr, ?_⟩
  have := AuthEnc.authentic_or_break P hP st hv hhl H hlen (by rw [hh]; exact hplan)
    (by rw [hh, hver]; exact hv1) (by rw [hh]; exact hkey) (by rw [hh]; exact hone) ps.items ps.tail
  rw [hh] at this
  exact this

/-! ## a concrete hostile byte string (kernel-evaluated)

  A V2 encryption message whose header is genuine in shape but whose payload
  packet is a FIXMAP (`83 …` = 3 pairs = 6 flat elements: final, authenticators,
  ciphertext, then three surplus elements that go-codec swallows), the
  authenticator list itself a fixmap of one pair whose "authenticators" are a
  3-byte bin and an array of two integers (go-codec pads both to 32 bytes).
  `Wire` calls it unmodelled; the front end decodes it (through `Codec`); no keyring holds a key, so
  the byte-level run refuses at the header — first disjunct of every theorem above. -/

def hostileEncMsg : Bytes :=
  headerPacket (Msgpack.encode (⟨Gen.c_sp_FormatName, v2, mtEncryption, List.replicate 32 5, [9],
      [⟨none, [1, 2, 3]⟩]⟩ : EncHeader).toVal) ++
    [0x83, 0xc3, 0x81, 0xc4, 0x03, 0x01, 0x02, 0x03, 0x92, 0x07, 0x08, 0xc4, 0x02, 0x0a, 0x0b, 0x01, 0x02, 0x03]

def emptyRing : Keyring := ⟨fun _ => (-1, none), fun _ => none, [], fun k => some k, fun _ => none⟩

example : (match Wire.splitEnc hostileEncMsg with | .unmodelled _ => true | .ok _ => false) = true := by decide

/-- the packet the front end decodes from the map: two 32-byte authenticators, the ciphertext, final -/
example : (Front.readEnc hostileEncMsg).toOption.map (fun x => (x.2.items, x.2.tail)) =
    some ([some ⟨[[1, 2, 3] ++ List.replicate 29 0, [7, 8] ++ List.replicate 30 0], [0x0a, 0x0b], true⟩], .eof) := by
  decide

example : (Decrypt.openBytes Toy.prims knownMajor emptyRing hostileEncMsg).toOption.map
    (fun r => (r.released, r.err)) = some ([], some .noDecryptionKey) := by decide

example : Toy.prims.Lawful := Toy.lawful

end Saltpack.Props.C02
