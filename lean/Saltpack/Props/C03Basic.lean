/-
  Property C03 with the library's OWN keyring (package `basic`, model
  Saltpack/Model/Basic.lean): `SigncryptOpen` with a `basic.Keyring` — whose
  `GetAllBoxSecretKeys` iterates a Go map in an order of the runtime's choosing —
  returns exactly the plaintext and the sender.  Statements only; proofs in
  Proofs/Basic.lean, Proofs/BasicRT.lean.

  `order` is that iteration order: ANY permutation of the keyring's entries.
  `Honest`: stored public keys belong to their secrets (Props/C01Basic.lean).
  No hypothesis on key-id lengths is needed here: `signcryptOpenStream` never
  looks a box key up by its id, it derives identifiers from the secrets.
-/
import Saltpack.Proofs.BasicRT
import Saltpack.Props.C03
import Saltpack.Toy

namespace Saltpack.Props.C03
open Saltpack Saltpack.Basic Saltpack.Encrypt Saltpack.Proofs Saltpack.Proofs.BasicRing

/-- `signcryptOpenStream.processHeader` consults a keyring through
    `ImportBoxEphemeralKey(header.Ephemeral)`, `GetAllBoxSecretKeys()` and
    `LookupSigningPublicKey(sender key)` only: if `kr2` (which returns sender
    keys as they are) processes a header to `(log, r)`, so does every `kr1` that
    agrees on the first two and on the sender key `r` names, if any -/
theorem C03_basic_keyring_use (P : Prims) (kr1 kr2 : Saltpack.Keyring) (res : Signcrypt.Resolver) (hh : Bytes)
    (h : EncHeader)
    (hi : kr1.importBoxEphemeralKey h.ephemeral = kr2.importBoxEphemeralKey h.ephemeral)
    (ha : kr1.getAllBoxSecretKeys = kr2.getAllBoxSecretKeys)
    (h2 : ∀ k, kr2.lookupSigningPublicKey k = some k)
    (log : List KeyCall) (r : Except Err Signcrypt.State)
    (hph : Signcrypt.processHeader P kr2 res hh h = (log, r))
    (h1 : ∀ st k, r = .ok st → st.sender = some k → kr1.lookupSigningPublicKey k = some k) :
    Signcrypt.processHeader P kr1 res hh h = (log, r) :=
  sc_processHeader_transfer P kr1 kr2 res hh h hi ha h2 log r hph h1

/-- **what sender a basic keyring reports — any length of the sender field**:
    signcrypt_open.go hands the opened sender-key slice, WHATEVER its length (no
    `rawBoxKeyFromSlice` there), to `LookupSigningPublicKey`; `basic.Keyring`
    copies it into a 32-byte array (`kidToSigningPublicKey`: shorter fields are
    zero-padded, longer ones truncated) and never answers nil.  So whenever the
    header is accepted, the sender secretbox opened to some `senderKey`, and the
    sender reported is none for an all-zero field and `kidToPublicKey senderKey`
    otherwise — never `ErrNoSenderKey`.  (Whether the packets then verify under
    that 32-byte key is the signature check's business.)  Correspondence: the
    32-byte copy itself is driven for every length by the stream `basic.kid`;
    a whole MESSAGE with such a field cannot be made with the library's own
    sender (`signcryptSealStream.init` panics "unexpected signing key length"
    for a signing key whose KID is not 32 bytes) — only a hostile sender emits
    one, and the receiver path is the generic `processHeader` the `basic.sc.open.*`
    streams drive. -/
theorem C03_basic_reports_sender (P : Prims) (k : Basic.Keyring) (order : List SecretKey)
    (res : Signcrypt.Resolver) (hh : Bytes) (h : EncHeader) (log : List KeyCall) (st : Signcrypt.State)
    (hph : Signcrypt.processHeader P (k.toRing order) res hh h = (log, .ok st)) :
    ∃ senderKey, P.sbOpen st.payloadKey Nonce.senderKeySecretBox h.senderSecretbox = some senderKey ∧
      st.sender = (if senderKey.all (· == 0) then none else some (kidToPublicKey senderKey)) := by
  unfold Signcrypt.processHeader at hph
  split at hph
  · cases (Prod.mk.inj hph).2
  · split at hph
    · cases (Prod.mk.inj hph).2
    · simp only [] at hph
      split at hph
      · cases (Prod.mk.inj hph).2
      · cases (Prod.mk.inj hph).2
      · rename_i pk _
        split at hph
        · cases (Prod.mk.inj hph).2
        · rename_i senderKey hs
          split at hph
          · rename_i hz
            obtain ⟨_, h2⟩ := Prod.mk.inj hph
            injection h2 with h2
            subst h2
            exact ⟨senderKey, hs, by simp [hz]⟩
          · rename_i hz
            have hl : (k.toRing order).lookupSigningPublicKey senderKey = some (kidToPublicKey senderKey) := rfl
            rw [hl] at hph
            obtain ⟨_, h2⟩ := Prod.mk.inj hph
            injection h2 with h2
            subst h2
            exact ⟨senderKey, hs, by simp [hz]⟩

/-- the 32-byte copy: a 3-byte field is zero-padded, a 33-byte field truncated -/
example : kidToPublicKey [1, 2, 3] = [1, 2, 3] ++ List.replicate 29 0 ∧
    kidToPublicKey (List.replicate 32 7 ++ [9]) = List.replicate 32 7 := by decide

/-- **Box-key recipient, basic keyring that holds its key, with or without a
    resolver, any iteration order of the map** (`C03_roundtrip_box_ring` for the
    library's own keyring): opens to exactly the plaintext and the sender's
    signing public key (none for an anonymous sender).  `hnc` as there: up to
    position `i`, an identifier derived from a keyring entry equals a header
    identifier only for the entry made for that very key. -/
theorem C03_roundtrip_box_basic (P : Prims) (hP : P.Lawful) (bs : Nat) (hbs : 0 < bs)
    (sender : Option Bytes) (rs : List Signcrypt.Recipient) (eph payloadKey pt : Bytes)
    (hpk : payloadKey.length = 32)
    (hsender : ∀ s, sender = some s → ¬ ((P.sigPub s).all (· == 0)))
    (hblocks : (chunkPlan v2 bs pt).length < 2 ^ 64 - 1)
    (k : Basic.Keyring) (hh : Honest P k) (order : List SecretKey) (hperm : order.Perm k.encKeys)
    (res : Signcrypt.Resolver)
    (i : Nat) (hi : i < rs.length) (sk : Bytes) (hmem : (⟨P.boxPub sk, sk⟩ : SecretKey) ∈ k.encKeys)
    (hsk : rs.getD i default = .box (P.boxPub sk))
    (h : EncHeader) (hb : Bytes) (blks : List SigncryptBlock)
    (hseal : Signcrypt.sealPackets P bs sender rs eph payloadKey pt = .ok (h, hb, blks))
    (hnc : ∀ e ∈ k.encKeys, ∀ j, j ≤ i → j < rs.length →
      Signcrypt.keyIdentifier P (Signcrypt.derivedKeyFromBoxKeys P (P.boxPub eph) e.sec) j =
        Decrypt.kidOf (h.receivers.getD j default) →
      rs.getD j default = .box e.pub) :
    Signcrypt.openAll P (k.toRing order) res (.ok hb h) ⟨blks.map some, .eof⟩ = .ok (sender.map P.sigPub, pt) :=
  sc_roundtrip_box_basic P hP bs hbs sender rs eph payloadKey pt hpk hsender hblocks k hh order hperm res i hi sk hmem
    hsk h hb blks hseal hnc

/-- **Symmetric-key recipients: a basic keyring of foreign box keys (or an empty
    one) and a resolver** (`C03_roundtrip_sym_ring`) -/
theorem C03_roundtrip_sym_basic (P : Prims) (hP : P.Lawful) (bs : Nat) (hbs : 0 < bs)
    (sender : Option Bytes) (rs : List Signcrypt.Recipient) (eph payloadKey pt : Bytes)
    (hpk : payloadKey.length = 32)
    (hsender : ∀ s, sender = some s → ¬ ((P.sigPub s).all (· == 0)))
    (hblocks : (chunkPlan v2 bs pt).length < 2 ^ 64 - 1)
    (h : EncHeader) (hb : Bytes) (blks : List SigncryptBlock)
    (hseal : Signcrypt.sealPackets P bs sender rs eph payloadKey pt = .ok (h, hb, blks))
    (k : Basic.Keyring) (order : List SecretKey) (hperm : order.Perm k.encKeys)
    (hfor : ∀ e ∈ k.encKeys, ∀ j, j < h.receivers.length →
      Signcrypt.keyIdentifier P (Signcrypt.derivedKeyFromBoxKeys P (P.boxPub eph) e.sec) j ≠
        Decrypt.kidOf (h.receivers.getD j default))
    (f : List Bytes → Except Err (List (Option Bytes))) (keys : List (Option Bytes))
    (hf : f (h.receivers.map Decrypt.kidOf) = .ok keys) (hlen : keys.length = rs.length)
    (htrue : ∀ (j : Nat) (key : Bytes), keys[j]? = some (some key) → ∃ ident, rs[j]? = some (Signcrypt.Recipient.sym key ident))
    (hsome : ∃ (j : Nat) (key : Bytes), keys[j]? = some (some key)) :
    Signcrypt.openAll P (k.toRing order) (some f) (.ok hb h) ⟨blks.map some, .eof⟩ = .ok (sender.map P.sigPub, pt) :=
  sc_roundtrip_sym_basic P hP bs hbs sender rs eph payloadKey pt hpk hsender hblocks h hb blks hseal k order hperm hfor f
    keys hf hlen htrue hsome

/-- **no recipient key in the basic keyring** (no entry produces the identifier
    of a header entry) and a resolver that resolves nothing, or none:
    `noDecryptionKey`, nothing released (`C03_no_key`) -/
theorem C03_no_key_basic (P : Prims) (hP : P.Lawful) (bs : Nat)
    (sender : Option Bytes) (rs : List Signcrypt.Recipient) (eph payloadKey pt : Bytes)
    (h : EncHeader) (hb : Bytes) (blks : List SigncryptBlock)
    (hseal : Signcrypt.sealPackets P bs sender rs eph payloadKey pt = .ok (h, hb, blks))
    (k : Basic.Keyring) (order : List SecretKey) (hperm : order.Perm k.encKeys)
    (hfor : ∀ e ∈ k.encKeys, ∀ j, j < h.receivers.length →
      Signcrypt.keyIdentifier P (Signcrypt.derivedKeyFromBoxKeys P (P.boxPub eph) e.sec) j ≠
        Decrypt.kidOf (h.receivers.getD j default))
    (res : Signcrypt.Resolver)
    (hres : ∀ f, res = some f → ∃ keys, f (h.receivers.map Decrypt.kidOf) = .ok keys ∧
      keys.length = rs.length ∧ ∀ k ∈ keys, k = none) :
    Signcrypt.openAll P (k.toRing order) res (.ok hb h) ⟨blks.map some, .eof⟩ = .error .noDecryptionKey ∧
    (Signcrypt.openStream P (k.toRing order) res (.ok hb h) ⟨blks.map some, .eof⟩).released = [] :=
  sc_no_key_basic P hP bs sender rs eph payloadKey pt h hb blks hseal k order hperm hfor res hres

/-- **Round trip on the emitted BYTES**, box-key recipient, basic keyring -/
theorem C03_roundtrip_box_bytes_basic (P : Prims) (hP : P.Lawful) (bs : Nat) (hbs : 0 < bs) (hbs32 : bs + 80 < 2 ^ 32)
    (sender : Option Bytes) (rs : List Signcrypt.Recipient) (eph payloadKey pt : Bytes)
    (hpk : payloadKey.length = 32)
    (hsender : ∀ s, sender = some s → ¬ ((P.sigPub s).all (· == 0)))
    (hblocks : (chunkPlan v2 bs pt).length < 2 ^ 64 - 1)
    (k : Basic.Keyring) (hh : Honest P k) (order : List SecretKey) (hperm : order.Perm k.encKeys)
    (res : Signcrypt.Resolver)
    (i : Nat) (hi : i < rs.length) (sk : Bytes) (hmem : (⟨P.boxPub sk, sk⟩ : SecretKey) ∈ k.encKeys)
    (hsk : rs.getD i default = .box (P.boxPub sk))
    (hnc : ∀ e ∈ k.encKeys, ∀ j, j ≤ i → j < rs.length →
      Signcrypt.keyIdentifier P (Signcrypt.derivedKeyFromBoxKeys P (P.boxPub eph) e.sec) j =
        Decrypt.kidOf ((Signcrypt.header P sender eph payloadKey rs).receivers.getD j default) →
      rs.getD j default = .box e.pub)
    (L : Nat) (hL32 : 32 ≤ L)
    (hid : ∀ key ident, Signcrypt.Recipient.sym key ident ∈ rs → ident.length ≤ L)
    (hsmall : 145 + rs.length * (L + 63) < 2 ^ 32)
    (msg : Bytes) (hmsg : Signcrypt.sealWith P bs sender rs eph payloadKey pt = .ok msg) :
    ∃ hr ps, Wire.splitSigncrypt msg = .ok (hr, ps) ∧
      Signcrypt.openAll P (k.toRing order) res hr ps = .ok (sender.map P.sigPub, pt) :=
  sc_roundtrip_box_bytes_basic P hP bs hbs hbs32 sender rs eph payloadKey pt hpk hsender hblocks k hh order hperm res i hi
    sk hmem hsk hnc L hL32 hid hsmall msg hmsg

/-! ## non-vacuity (toy primitives, evaluated by the kernel) -/

/-- seal the message of the examples and open it with a keyring / resolver -/
def toyScOpen (kr : Saltpack.Keyring) (res : Signcrypt.Resolver) (sender : Option Bytes)
    (rs : List Signcrypt.Recipient) : Except Err (Option Bytes × Bytes) :=
  match Signcrypt.sealPackets Toy.prims 4 sender rs [2] (Toy.pad 32 [9]) [1, 2, 3, 4, 5] with
  | .ok (h, hb, blks) => Signcrypt.openAll Toy.prims kr res (.ok hb h) ⟨blks.map some, .eof⟩
  | .error e => .error e

/-- the basic keyring holding the box key `[4]` (position 1 of `toyRs`) opens the
    message, in whichever order its single entry is iterated; the resolver is
    never consulted -/
example : toyScOpen (Basic.Keyring.empty.importAll [⟨Toy.prims.boxPub [4], [4]⟩]).ring
    (some (fun _ => .error .ioError)) (some [1]) toyRs = .ok (some (Toy.prims.sigPub [1]), [1, 2, 3, 4, 5]) := by decide

/-- symmetric-key recipients: a basic keyring with a foreign key + a resolver -/
example : toyScOpen (Basic.Keyring.empty.importAll [⟨Toy.prims.boxPub [7], [7]⟩]).ring
    (some (fun _ => .ok [none, some (Toy.pad 32 [1])])) none toySyms = .ok (none, [1, 2, 3, 4, 5]) := by decide

/-- two foreign keys, no resolver: `noDecryptionKey` in both iteration orders -/
example :
    toyScOpen (Basic.Keyring.empty.importAll [⟨Toy.prims.boxPub [7], [7]⟩, ⟨Toy.prims.boxPub [8], [8]⟩]).ring none none
      toySyms = .error .noDecryptionKey ∧
    toyScOpen ((Basic.Keyring.empty.importAll [⟨Toy.prims.boxPub [7], [7]⟩, ⟨Toy.prims.boxPub [8], [8]⟩]).toRing
      [⟨Toy.prims.boxPub [8], [8]⟩, ⟨Toy.prims.boxPub [7], [7]⟩]) none none toySyms = .error .noDecryptionKey := by
  decide

end Saltpack.Props.C03
