/-
  spmodel — dispatch for the stream state machines (Model/Stream.lean).

  script entries: `<hex>` data, `<hex>!` data + I/O error, `<hex>$` data + EOF
  (`-` = no data).  caps: `n.n.n`.
-/
import Driver.Util
import Saltpack.Model.Stream
import Saltpack.Model.Classify
import Saltpack.Model.SpecDecode
import Saltpack.Model.SignReader
import Saltpack.Model.ArmorWriter

open Saltpack

namespace Driver3
open Driver Stream

def parseEntry (t : String) : Option (Bytes × Option RErr) :=
  if t.endsWith "!" then (ofHex (t.dropEnd 1).toString).map (·, some (.err .ioError))
  else if t.endsWith "$" then (ofHex (t.dropEnd 1).toString).map (·, some .eof)
  else (ofHex t).map (·, none)

def parseScript (s : String) : Option Source := (splitList s).mapM parseEntry

def parseCaps (s : String) : Option (List Nat) := (s.splitOn ".").mapM String.toNat?

def showRErr : Option RErr → String
  | none => "nil"
  | some .eof => "eof"
  | some (.err e) => showErr e

def parseExpect (s : String) : Option Armor.Expect :=
  if s = "none" then some none else s.toInt?.map some

/-- per-call trace of the decoder stack -/
def traceDec (par : Armor.Params) (ex : Armor.Expect) (caps : List Nat) :
    (fuel : Nat) → Nat → DState → List String → Bytes → List String × Bytes × String
  | 0, _, _, tr, acc => (tr.reverse, acc, "fuel")
  | fuel + 1, k, d, tr, acc =>
    let cap := caps.getD (k % caps.length) 1
    let (x, e, d1) := dRead par ex cap d
    let tr' := s!"{x.length}:{showRErr e}" :: tr
    match e with
    | none => traceDec par ex caps fuel (k + 1) d1 tr' (acc ++ x)
    | some .eof => (tr'.reverse, acc ++ x, "ok")
    | some (.err z) => (tr'.reverse, acc ++ x, showErr z)

/-- punctuated reader op sequence: `r<cap>` / `u<lim>` -/
def tracePunct : List String → PState → List String → List String
  | [], _, tr => tr.reverse
  | op :: ops, s, tr =>
    if op.startsWith "r" then
      match (op.drop 1).toString.toNat? with
      | some cap =>
        let (d, e, s1) := pRead cap s
        tracePunct ops s1 (s!"{toHex d}:{showRErr e}" :: tr)
      | none => ["bad"]
    else if op.startsWith "u" then
      match (op.drop 1).toString.toNat? with
      | some lim =>
        let (r, s1) := pReadUntil lim (lim + 2) s []
        let o := match r with
          | .ok b => s!"{toHex b}:nil"
          | .error e => s!"-:{showRErr (some e)}"
        tracePunct ops s1 (o :: tr)
      | none => ["bad"]
    else ["bad"]

/-- chunk reader over a scripted chunker -/
def scriptNext : Source → Bytes × Option RErr × Source
  | [] => ([], some .eof, [])
  | (d, e) :: rest => (d, e, rest)

def traceCR (caps : List Nat) : (fuel : Nat) → Nat → CRState Source → List String → List String
  | 0, _, _, tr => tr.reverse
  | fuel + 1, k, s, tr =>
    let cap := caps.getD (k % caps.length) 1
    let (d, e, s1) := crRead scriptNext cap (s.chunker.length + 3) s []
    let tr' := s!"{toHex d}:{showRErr e}" :: tr
    match e with
    | none => traceCR caps fuel (k + 1) s1 tr'
    | some _ => -- one more call: the condition must be sticky
      let (d2, e2, _) := crRead scriptNext cap (s1.chunker.length + 3) s1 []
      (s!"{toHex d2}:{showRErr e2}" :: tr').reverse

def showVer (v : Version) : String := s!"{v.major}.{v.minor}"

def showR : Except String String → String
  | .ok s => "ok " ++ s
  | .error e => "reject " ++ e.replace " " "_"

def handle (toks : List String) : Option String :=
  match toks with
  | ["sd.enc", msg, secrets] =>
    match ofHex msg, hexList secrets with
    | some m, some ss => some (showR (SpecDecode.encryption RealPrims m ss))
    | _, _ => none
  | ["sd.att", nl, msg] =>
    match nl.toNat?, ofHex msg with
    | some nl, some m => some (showR (SpecDecode.attached RealPrims nl m))
    | _, _ => none
  | ["sd.det", nl, sigmsg, msg] =>
    match nl.toNat?, ofHex sigmsg, ofHex msg with
    | some nl, some sm, some m => some (showR (SpecDecode.detached RealPrims nl sm m))
    | _, _, _ => none
  | ["sd.sc", msg, idx, key] =>
    match ofHex msg, idx.toNat?, key.splitOn ":" with
    | some m, some i, ["b", k] => (ofHex k).map (fun k => showR (SpecDecode.signcryption RealPrims m i (some k) none))
    | some m, some i, ["s", k] => (ofHex k).map (fun k => showR (SpecDecode.signcryption RealPrims m i none (some k)))
    | _, _, _ => none
  | ["cl.bin", h] =>
    match ofHex h with
    | some b =>
      match Classify.binarySlice b with
      | .ok (t, v) => some s!"ok {t} {showVer v}"
      | .short => some "short"
      | .eof => some "eof"
      | .notSaltpack => some "not"
      | .unmodelled w => some s!"unmodelled {w.replace " " "_"}"
    | none => none
  | ["cl.arm", h] =>
    match ofHex h with
    | some b =>
      match Classify.armoredPrefix b with
      | .ok (br, t, v) => some s!"ok {toHex br} {t} {showVer v}"
      | .short => some "short"
      | .eof => some "eof"
      | .notSaltpack => some "not"
      | .unmodelled w => some s!"unmodelled {w.replace " " "_"}"
    | none => none
  | ["cl.stream", size, h] =>
    match size.toNat?, ofHex h with
    | some size, some b =>
      let sz := if size < 16 then 16 else size
      match Classify.classifyStream sz b with
      | .ok (arm, br, t, v) => some s!"ok armored={arm} {toHex br} {t} {showVer v} remaining={b.length}"
      | .short => some s!"short remaining={b.length}"
      | .eof => some s!"eof remaining={b.length}"
      | .notSaltpack => some s!"not remaining={b.length}"
      | .unmodelled w => some s!"unmodelled {w.replace " " "_"}"
    | _, _ => none
  | ["st.dec", expect, caps, script] =>
    match parseExpect expect, parseCaps caps, parseScript script with
    | some ex, some caps, some src =>
      let total := (src.map (fun p => p.1.length + 2)).sum
      let (tr, acc, outcome) := traceDec Armor.params62 ex caps (4 * total + 64) 0 (newDecoder src) [] []
      some s!"res {outcome} rel={toHex acc} calls={",".intercalate tr}"
    | _, _, _ => none
  | ["st.punct", ops, script] =>
    match parseScript script with
    | some src => some s!"ok {",".intercalate (tracePunct (ops.splitOn ",") { src := src } [])}"
    | none => none
  | ["st.cr", caps, script] =>
    match parseCaps caps, parseScript script with
    | some caps, some src =>
      let total := (src.map (fun p => p.1.length + 2)).sum
      some s!"ok {",".intercalate (traceCR caps (total + 8) 0 { chunker := src } [])}"
    | _, _ => none
  | ["st.chunker", _kind, bs, ma, lens] =>
    match bs.toNat?, ma.toInt?, parseCaps lens with
    | some bs, some ma, some ls =>
      -- position-dependent plaintext (as the harness writes), split by `ls`
      let total := ls.foldl (· + ·) 0
      let whole : Bytes := (List.range total).map (fun i => UInt8.ofNat (i ^^^ (i >>> 8) ^^^ ((i >>> 16) * 7)))
      let ws := (ls.foldl (fun (acc : List Bytes × Bytes) n => (acc.1 ++ [acc.2.take n], acc.2.drop n)) ([], whole)).1
      let (c, maxBuf) := ws.foldl (fun (acc : Chunker × Nat) w =>
          let c' := acc.1.write w; (c', max acc.2 c'.buf.length)) (({ bs := bs } : Chunker), 0)
      let plan := c.close ⟨ma, 0⟩
      let same := plan == Encrypt.chunkPlan ⟨ma, 0⟩ bs whole
      some s!"ok plan={",".intercalate (plan.map (fun p => s!"{p.1.length}/{p.2}"))} maxbuf={maxBuf} same={same}"
    | _, _, _ => none
  | ["sig.verifydetachedr", _form, valid, lsig, sigmsg, scr] =>
    -- `_form` (b|a): binary or armored signature — the same packets either way
    match mkValidator valid, ofHex sigmsg, parseScript scr, mkKeyring [] "none" "nil" "nil" lsig with
    | some valid, some sigmsg, some src, some kr =>
      match Wire.splitDetached sigmsg with
      | .unmodelled w => some s!"unmodelled {w.replace " " "_"}"
      | .ok (hr, sr) =>
        match Sign.verifyDetachedReader RealPrims valid kr hr sr src with
        | .ok k => some s!"res ok signer={toHex k}"
        | .error e => some s!"res {showErr e} signer=-"
    | _, _, _, _ => none
  | ["st.enc", e, sink, writes] =>
    match encByName e, hexList writes with
    | some enc, some ws =>
      let sk : Sink := (if sink = "-" then [] else sink.toList).map (· == '1')
      let s0 : EncState := { enc := enc, sink := sk }
      let (s1, tr) := ws.foldl (fun (acc : EncState × List String) w =>
          let (n, ok, s') := acc.1.write w
          (s', s!"{n}:{ok}" :: acc.2)) (s0, [])
      let (okc, s2) := s1.close
      some s!"ok writes={if tr.isEmpty then "-" else ",".intercalate tr.reverse} close={okc} out={toHex s2.written.flatten} nwrites={s2.written.length}"
    | _, _ => none
  | ["st.frame", expect, scr, plan] =>
    -- the Frame interface at arbitrary moments: plan = actions separated by '.':
    -- r<cap> one Read, a read to the end (cap 64), h GetHeader, b GetBrand, f GetFooter, c<typ> CheckArmor62Frame
    match parseExpect expect, parseScript scr with
    | some ex, some src =>
      let par := Armor.params62
      let setF (d : DState) (f : FState) : DState := { d with fil := { d.fil with f := f } }
      let showE : RErr → String := fun e => showRErr (some e)
      let rec go (fuel : Nat) (acts : List String) (d : DState) (tr : List String) : List String :=
        match fuel, acts with
        | 0, _ => ("fuel" :: tr).reverse
        | _, [] => tr.reverse
        | fuel + 1, a :: rest =>
          if a = "h" then
            let (r, f1) := fGetHeader par ex d.fil.f
            go fuel rest (setF d f1) ((match r with | .ok h => s!"h={toHex h}" | .error e => s!"h!{showE e}") :: tr)
          else if a = "b" then
            let (r, f1) := fGetBrand par ex d.fil.f
            go fuel rest (setF d f1) ((match r with | .ok h => s!"b={toHex h}" | .error e => s!"b!{showE e}") :: tr)
          else if a = "f" then
            let o := match fGetFooter par d.fil.f with
              | none => "f!not-ready"
              | some (.ok h) => s!"f={toHex h}"
              | some (.error e) => s!"f!{showErr e}"
            go fuel rest d (o :: tr)
          else if a.startsWith "c" then
            match (a.drop 1).toString.toInt? with
            | none => ["bad"]
            | some typ =>
              let (r, f1) := fCheckFrame par ex typ d.fil.f
              let o := match r with
                | .error e => s!"c!{showE e}"
                | .ok none => "c!not-ready"
                | .ok (some (.error e)) => s!"c!{showErr e}"
                | .ok (some (.ok b)) => s!"c={toHex b}"
              go fuel rest (setF d f1) (o :: tr)
          else if a.startsWith "r" then
            match (a.drop 1).toString.toNat? with
            | none => ["bad"]
            | some cap =>
              let (x, e, d1) := dRead par ex cap d
              go fuel rest d1 (s!"r={toHex x}:{showRErr e}" :: tr)
          else if a = "a" then
            let (x, e, d1) := dRead par ex 64 d
            match e with
            | none => go fuel ("a" :: rest) d1 (s!"r={toHex x}:nil" :: tr)
            | some e => go fuel rest d1 (s!"r={toHex x}:{showRErr (some e)}" :: tr)
          else ["bad"]
      some ("ok " ++ " ".intercalate (go (scr.length + 4 * plan.length + 64) (plan.splitOn ".") (newDecoder src) []))
    | _, _ => none
  | ["st.aw", typ, brand, writes] =>
    -- the armor writer call by call: cumulative output length after the constructor, after every Write, and the final text
    match typ.toInt?, ofHex brand, hexList writes with
    | some typ, some brand, some ws =>
      let s0 := ArmState.init62 typ brand
      let (s1, tr) := ws.foldl (fun (acc : ArmState × List String) w =>
          let s' := acc.1.write w
          (s', s!"{s'.out.length}" :: acc.2)) (s0, [s!"{s0.out.length}"])
      let s2 := s1.close
      some s!"ok lens={".".intercalate tr.reverse} out={toHex s2.out}"
    | _, _, _ => none
  | _ => none

end Driver3
