/-
Differential test runner: `rctest vectors.txt` recomputes every line
`op arg … => result` produced by the Go generator (`govec`) and reports mismatches.
Tokens are lowercase hex; `-` is the empty byte string; result `fail` = rejected open.
-/
import Saltpack.Real
import Std.Data.HashMap

open Saltpack.Real

/-- Split `s[lo:hi]` at byte `sep` into (lo, hi) ranges (empty ranges dropped). -/
def splitRanges (s : ByteArray) (lo hi : Nat) (sep : UInt8) : Array (Nat × Nat) := Id.run do
  let mut out := #[]
  let mut start := lo
  for i in [lo:hi] do
    if s.get! i == sep then
      if start < i then out := out.push (start, i)
      start := i + 1
  if start < hi then out := out.push (start, hi)
  return out

def tokenStr (s : ByteArray) (r : Nat × Nat) : String :=
  if r.2 - r.1 > 40 then s!"<{r.2 - r.1} chars>"
  else String.fromUTF8! (s.extract r.1 r.2)

def decodeTok (s : ByteArray) (r : Nat × Nat) : Option ByteArray :=
  if r.2 - r.1 == 1 && s.get! r.1 == '-'.toNat.toUInt8 then some ByteArray.empty
  else ofHexBytes s r.1 r.2

def boolBytes (b : Bool) : ByteArray := ByteArray.empty.push (if b then 1 else 0)

/-- Evaluate one operation; `none` result encodes "fail", outer `none` = unknown op/arity. -/
def evalOp (op : String) (a : Array ByteArray) : Option (Option ByteArray) :=
  match op, a with
  | "sha512", #[m] => some (some (sha512 m))
  | "hmac", #[k, m] => some (some (hmacSha512 k m))
  | "seal", #[k, n, m] => some (some (secretboxSeal k n m))
  | "open", #[k, n, b] => some (secretboxOpen k n b)
  | "x25519", #[s, p] => some (some (x25519 s p))
  | "x25519base", #[s] => some (some (x25519Base s))
  | "precompute", #[s, p] => some (some (boxPrecompute s p))
  | "edpub", #[s] => some (some (ed25519Pub s))
  | "edsign", #[s, m] => some (some (ed25519Sign s m))
  | "verify", #[pk, m, sg] => some (some (boolBytes (ed25519Verify pk m sg)))
  | _, _ => none

def showRes : Option ByteArray → String
  | none => "fail"
  | some b => if b.size > 80 then s!"<{b.size} bytes {toHex (b.extract 0 16)}…>" else toHex b

def main (args : List String) : IO UInt32 := do
  let some path := args.head? | do IO.eprintln "usage: rctest vectors.txt"; return 2
  let file ← IO.FS.readBinFile path
  let mut pass := 0
  let mut fail := 0
  -- per-op (count, total ns)
  let mut stats : Std.HashMap String (Nat × Nat) := {}
  for ln in splitRanges file 0 file.size 10 do
    let toks := splitRanges file ln.1 ln.2 32
    if toks.size < 3 then
      IO.println s!"BAD LINE at byte {ln.1}"; fail := fail + 1; continue
    let op := tokenStr file toks[0]!
    let argToks := toks.extract 1 (toks.size - 2)
    let resTok := toks[toks.size - 1]!
    let some argv := argToks.mapM (decodeTok file) |
      do IO.println s!"BAD ARGS in {op} at byte {ln.1}"; fail := fail + 1; continue
    let expected : Option ByteArray :=
      if tokenStr file resTok == "fail" then none else decodeTok file resTok
    let t0 ← IO.monoNanosNow
    let got ← IO.lazyPure fun _ => evalOp op argv
    let t1 ← IO.monoNanosNow
    let (c, t) := stats.getD op (0, 0)
    stats := stats.insert op (c + 1, t + (t1 - t0))
    let big := argv.any (·.size ≥ 1 <<< 20)
    if big then
      IO.println s!"time {op} 1MiB: {(t1 - t0) / 1000000} ms"
    match got with
    | none => IO.println s!"UNKNOWN OP {op} at byte {ln.1}"; fail := fail + 1
    | some g =>
      let ok := match g, expected with
        | none, none => true
        | some x, some y => bytesEq x y
        | _, _ => false
      if ok then pass := pass + 1
      else
        fail := fail + 1
        let argStr := " ".intercalate (argToks.map (tokenStr file)).toList
        IO.println s!"MISMATCH {op} {argStr}\n  want {showRes expected}\n  got  {showRes g}"
  for (op, (c, t)) in stats.toList do
    IO.println s!"avg {op}: {t / c / 1000} us over {c} calls"
  if fail == 0 then IO.println s!"PASS {pass}"; return 0
  else IO.println s!"FAIL {fail} (passed {pass})"; return 1
