/-
  spmodel — line-protocol driver: dispatch for BaseX, rand and the four modes.
-/
import Driver.Util
import Driver.More
import Saltpack.Model.Codec
import Saltpack.Model.Front
import Driver.Ext

open Saltpack

namespace Driver

/-! ### dispatch -/

def handle (toks : List String) : String :=
  match toks with
  -- BaseX -------------------------------------------------------------------
  | ["bx.enc", e, h] =>
    match encByName e, ofHex h with
    | some e, some b => s!"ok {toHex (Basex.encode e b)}"
    | _, _ => bad
  | ["bx.dec", e, h] =>
    match encByName e, ofHex h with
    | some e, some b => showBasexRes (Basex.decode e b)
    | _, _ => bad
  | ["bx.len", e, k, n] =>
    match encByName e, n.toNat? with
    | some e, some n =>
      if k = "e" then s!"ok {e.encLen n}" else if k = "d" then s!"ok {e.decLen n}"
      else if k = "v" then s!"ok {e.validLen n}" else bad
    | _, _ => bad
  -- rand ----------------------------------------------------------------------
  | ["rand.u32n", n, vs] =>
    match n.toNat?, natList vs with
    | some n, some vs =>
      match Rand.u32n n vs with
      | some (r, rest) => s!"ok {r} {vs.length - rest.length}"
      | none => "none"
    | _, _ => bad
  | ["rand.shuffle", n, js] =>
    match n.toNat?, natList js with
    | some n, some js => s!"ok {",".intercalate ((Rand.shuffle js (List.range n)).map toString)}"
    | _, _ => bad
  | ["rand.draws", k, vs] =>
    match k.toNat?, natList vs with
    | some k, some vs =>
      match Rand.drawsFrom k vs with
      | some (js, rest) => s!"ok {",".intercalate (js.map toString)} {vs.length - rest.length}"
      | none => "none"
    | _, _ => bad
  -- encryption ----------------------------------------------------------------
  | ["enc.seal", ma, mi, sender, recips, eph, src, bs, pt] =>
    match ma.toInt?, mi.toInt?, mkSender sender, mkRecips recips, mkEph eph, mkSource src, bs.toNat?, ofHex pt with
    | some ma, some mi, some sender, some rs, some eph, some src, some bs, some pt =>
      showSealRand (Encrypt.sealRand RealPrims bs ⟨ma, mi⟩ sender rs eph src pt) src.length
    | _, _, _, _, _, _, _, _ => bad
  | ["enc.sendercalls", ma, mi, sender, recips, eph, src] =>
    match ma.toInt?, mi.toInt?, mkSender sender, mkRecips recips, mkEph eph, mkSource src with
    | some ma, some mi, some sender, some rs, some eph, some src =>
      match Encrypt.sealRandCalls RealPrims ⟨ma, mi⟩ sender rs eph src with
      | .ok cs => s!"ok {showCalls cs}"
      | .error e => s!"err {showErr e}"
    | _, _, _, _, _, _ => bad
  | ["sig.signcalls", ma, mi, signer, src, bs, msg] =>
    match ma.toInt?, mi.toInt?, ofHex signer, mkSource src, bs.toNat?, ofHex msg with
    | some ma, some mi, some signer, some src, some bs, some msg =>
      if !knownVersion ⟨ma, mi⟩ then "err bad-version"
      else match Rand.readFull Sign.sigNonceLen src with
      | none => "err io-error"
      | some (n, _) =>
        let hb := Msgpack.encode (Sign.header ⟨ma, mi⟩ (RealPrims.sigPub signer) mtAttached n).toVal
        s!"ok {showCalls (Sign.signCalls RealPrims ⟨ma, mi⟩ signer (RealPrims.hash hb) (Encrypt.chunkPlan ⟨ma, mi⟩ bs msg) 0)}"
    | _, _, _, _, _, _ => bad
  | ["sig.detcalls", ma, mi, signer, src, msg] =>
    match ma.toInt?, mi.toInt?, ofHex signer, mkSource src, ofHex msg with
    | some ma, some mi, some signer, some src, some msg =>
      if !knownVersion ⟨ma, mi⟩ then "err bad-version"
      else match Rand.readFull Sign.sigNonceLen src with
      | none => "err io-error"
      | some (n, _) =>
        let hb := Msgpack.encode (Sign.header ⟨ma, mi⟩ (RealPrims.sigPub signer) mtDetached n).toVal
        s!"ok {showCalls [KeyCall.sign signer (detachedSignatureInput RealPrims (RealPrims.hash hb) msg)]}"
    | _, _, _, _, _ => bad
  | ["sc.signcalls", sender, recips, eph, pk, bs, pt] =>
    match mkSender sender, mkSRecips recips, ofHex eph, ofHex pk, bs.toNat?, ofHex pt with
    | some sender, some rs, some eph, some pk, some bs, some pt =>
      let hb := Msgpack.encode (Signcrypt.header RealPrims sender eph pk rs).toVal
      s!"ok {showCalls (Signcrypt.signCalls RealPrims sender (RealPrims.hash hb) (Encrypt.chunkPlan v2 bs pt) 0)}"
    | _, _, _, _, _, _ => bad
  | ["enc.sealwith", ma, mi, sender, recips, eph, pk, bs, pt] =>
    match ma.toInt?, mi.toInt?, mkSender sender, mkRecips recips, ofHex eph, ofHex pk, bs.toNat?, ofHex pt with
    | some ma, some mi, some sender, some rs, some eph, some pk, some bs, some pt =>
      showExceptBytes (Encrypt.sealWith RealPrims bs ⟨ma, mi⟩ sender rs eph pk pt)
    | _, _, _, _, _, _, _, _ => bad
  | ["enc.open", valid, secrets, ls, lp, ie, lsig, msg] =>
    match mkValidator valid, hexList secrets, ofHex msg with
    | some valid, some secrets, some msg =>
      match mkKeyring secrets ls lp ie lsig with
      | none => bad
      | some kr =>
        -- `Decrypt.openBytes` (Model/Front.lean): the bytes are read the way go-codec reads them (`Codec`, typed decoding
        -- incl. its leniencies and its order); the spec-shaped reader (`Wire`) only for what `Codec` calls unmodelled; only
        -- what neither models goes to the decoded-packets route
        match Decrypt.openBytes RealPrims valid kr msg with
        | .error w => s!"unmodelled {w.replace " " "_"}"
        | .ok r =>
          let mki := match r.err, r.mki with
            | none, some m => showMKI m
            | _, _ => "-"
          s!"res {showOptErr r.err} rel={toHex r.released} calls={showCalls r.calls} {mki}"
    | _, _, _ => bad
  -- signcryption --------------------------------------------------------------
  | ["sc.seal", sender, boxes, syms, eph, src, bs, pt] =>
    match mkSender sender, mkSRecips boxes, mkSRecips syms, mkEph eph, mkSource src, bs.toNat?, ofHex pt with
    | some sender, some boxes, some syms, some eph, some src, some bs, some pt =>
      showSealRand (Signcrypt.sealRand RealPrims bs sender boxes syms eph src pt) src.length
    | _, _, _, _, _, _, _ => bad
  | ["sc.sealwith", sender, recips, eph, pk, bs, pt] =>
    match mkSender sender, mkSRecips recips, ofHex eph, ofHex pk, bs.toNat?, ofHex pt with
    | some sender, some rs, some eph, some pk, some bs, some pt =>
      showExceptBytes (Signcrypt.sealWith RealPrims bs sender rs eph pk pt)
    | _, _, _, _, _, _ => bad
  | ["sc.open", secrets, ls, lp, ie, lsig, resolver, msg] =>
    match hexList secrets, mkResolver resolver, ofHex msg with
    | some secrets, some res, some msg =>
      match mkKeyring secrets ls lp ie lsig with
      | none => bad
      | some kr =>
        -- `Signcrypt.openBytes` (Model/Front.lean): `Codec` first, `Wire` for what `Codec` calls unmodelled
        match Signcrypt.openBytes RealPrims kr res msg with
        | .error w => s!"unmodelled {w.replace " " "_"}"
        | .ok r =>
          let snd := match r.err with
            | none => (match r.sender with | some s => toHex s | none => "anon")
            | some _ => "-"
          s!"res {showOptErr r.err} rel={toHex r.released} calls={showCalls r.calls} sender={snd}"
    | _, _, _ => bad
  -- signing -------------------------------------------------------------------
  | ["sig.attached", ma, mi, signer, src, bs, msg] =>
    match ma.toInt?, mi.toInt?, ofHex signer, mkSource src, bs.toNat?, ofHex msg with
    | some ma, some mi, some signer, some src, some bs, some msg =>
      showSealRand (Sign.attachedRand RealPrims bs ⟨ma, mi⟩ signer src msg) src.length
    | _, _, _, _, _, _ => bad
  | ["sig.detached", ma, mi, signer, src, msg] =>
    match ma.toInt?, mi.toInt?, ofHex signer, mkSource src, ofHex msg with
    | some ma, some mi, some signer, some src, some msg =>
      showSealRand (Sign.detachedRand RealPrims ⟨ma, mi⟩ signer src msg) src.length
    | _, _, _, _, _ => bad
  | ["sig.attachedwith", ma, mi, signer, nonce, bs, msg] =>
    match ma.toInt?, mi.toInt?, ofHex signer, ofHex nonce, bs.toNat?, ofHex msg with
    | some ma, some mi, some signer, some nonce, some bs, some msg =>
      showExceptBytes (Sign.attachedWith RealPrims bs ⟨ma, mi⟩ signer nonce msg)
    | _, _, _, _, _, _ => bad
  | ["sig.verify", valid, lsig, msg] =>
    match mkValidator valid, ofHex msg with
    | some valid, some msg =>
      match mkKeyring [] "none" "nil" "nil" lsig with
      | none => bad
      | some kr =>
        -- `Sign.verifyBytes` (Model/Front.lean): `Codec` first, `Wire` for what `Codec` calls unmodelled
        match Sign.verifyBytes RealPrims valid kr msg with
        | .error w => s!"unmodelled {w.replace " " "_"}"
        | .ok r =>
          let snd := match r.err, r.signer with
            | none, some s => toHex s
            | _, _ => "-"
          s!"res {showOptErr r.err} rel={toHex r.released} signer={snd}"
    | _, _ => bad
  | ["sig.verifydetached", valid, lsig, sigmsg, msg] =>
    match mkValidator valid, ofHex sigmsg, ofHex msg with
    | some valid, some sigmsg, some msg =>
      match mkKeyring [] "none" "nil" "nil" lsig with
      | none => bad
      | some kr =>
        -- `Sign.verifyDetachedBytes` (Model/Front.lean)
        match Sign.verifyDetachedBytes RealPrims valid kr sigmsg msg with
        | .error w => s!"unmodelled {w.replace " " "_"}"
        | .ok (.ok k) => s!"res ok signer={toHex k}"
        | .ok (.error e) => s!"res {showErr e} signer=-"
    | _, _, _ => bad
  | _ => handleMore toks
where
  handleMore (toks : List String) : String :=
    match Driver2.handle toks with
    | some s => s
    | none =>
      match DriverExt.handle toks with
      | some s => s
      | none => bad

partial def loop (h : IO.FS.Stream) (out : IO.FS.Stream) : IO Unit := do
  let line ← h.getLine
  if line.isEmpty then return ()
  let toks := (line.trimAscii.toString.splitOn " ").filter (· ≠ "")
  -- a trailing `w=<lens>` / `rd=<sizes>` only tells the harness how to split the plaintext over
  -- Write calls of the streaming entry point; the packets do not depend on it
  -- (Props/C13: any split of the plaintext yields the one-shot plan)
  let strip (toks : List String) : List String := match toks.getLast? with
    | some t => if (t.startsWith "w=" || t.startsWith "rd=" || t.startsWith "re=") && toks.length > 1 then toks.dropLast else toks
    | none => toks
  let toks := strip (strip (strip toks))
  -- a trailing `ep=<form>` selects the entry-point form of an open/verify request:
  -- `all` (Open / Verify / SigncryptOpen) and `arm` (the Dearmor62… all-at-once
  -- forms on the armored bytes) return NOTHING unless the run ended cleanly
  -- (`Decrypt.openAll`, `Sign.verifyAll`, `Signcrypt.openAll` = the streaming
  -- result with the bytes dropped on error — C01_forms_agree); `armstream` is the
  -- streaming form over the dearmored bytes (dearmor ∘ armor = id, C11)
  let (toks, ep) := match toks.getLast? with
    | some t => if t.startsWith "ep=" && toks.length > 1 then (toks.dropLast, (t.drop 3).toString) else (toks, "")
    | none => (toks, "")
  let ans := handle toks
  let ans := if ep == "all" || ep == "arm" then
      match ans.splitOn " " with
      | "res" :: cls :: rest =>
        if cls == "ok" then ans
        else " ".intercalate ("res" :: cls :: rest.map (fun t => if t.startsWith "rel=" then "rel=-" else t))
      | _ => ans
    else ans
  out.putStrLn ans
  out.flush
  loop h out

end Driver

def main : IO Unit := do
  Driver.loop (← IO.getStdin) (← IO.getStdout)
