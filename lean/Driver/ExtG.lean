/-
  spmodel — extension slot G of the line protocol (ops of one model extension;
  chained from Driver/Ext.lean).

    sd.scall <msg hex> <k1,k2,…>     the strict reference decoder for signcryption
        with ALL recipients' keys in header order (`b:<box secret>` | `s:<symmetric key>`),
        Model/SpecDecodeAll.lean `signcryptionAll`  →  ok plaintext=… sender=… recipients=… | reject <why>
-/
import Driver.Util
import Saltpack.Model.SpecDecodeAll

open Saltpack

namespace DriverExtG
open Driver

def showR : Except String String → String
  | .ok s => "ok " ++ s
  | .error e => "reject " ++ e.replace " " "_"

def parseKey (s : String) : Option SpecDecode.ScKey :=
  match s.splitOn ":" with
  | ["b", k] => (ofHex k).map .box
  | ["s", k] => (ofHex k).map .sym
  | _ => none

def handle (toks : List String) : Option String :=
  match toks with
  | ["sd.scall", msg, ks] =>
    match ofHex msg, (if ks = "-" then some [] else (ks.splitOn ",").mapM parseKey) with
    | some m, some keys => some (showR (SpecDecode.signcryptionAll RealPrims m keys))
    | _, _ => none
  | _ => none

end DriverExtG
