/-
  spmodel — extension slot G of the line protocol (ops of one model extension;
  chained from Driver/Ext.lean).

    sd.scall <msg hex> <k1,k2,…>     the strict reference decoder for signcryption
        with ALL recipients' keys in header order (`b:<box secret>` | `s:<symmetric key>`),
        Model/SpecDecodeAll.lean `signcryptionAll`  →  ok plaintext=… sender=… recipients=… | reject <why>

    arm.sc.seal <sender> <boxes> <syms> <eph> <src> <brand> <pt>
        `SigncryptArmor62Seal` with scripted randomness (Model/Armored.lean
        `Signcrypt.sealArmor62Rand`: the frame type is `Signcrypt.armorType`)
        →  ok <hex of the armored text> reads=<n> | err <class>
    arm.sc.open <secrets> <resolver> <text hex>
        `Dearmor62SigncryptOpen` (`Signcrypt.dearmor62Open`), standard keyring
        →  ok sender=<hex|anon> pt=<hex> brand=<hex> | err <class> | unmodelled
-/
import Driver.Util
import Saltpack.Model.SpecDecodeAll
import Saltpack.Model.Armored

open Saltpack

namespace DriverExtG
open Driver

def showR : Except String String → String
  | .ok s => "ok " ++ s
  | .error e => "reject " ++ e.replace " " "_"

def parseKey (s : String) : Option SpecDecode.ScKey :=
  match s.splitOn ":" with
  | ["b", k] => (ofHex k).map .box
  | ["s", k] => (ofHex k).map .sym
  | _ => none

def handle (toks : List String) : Option String :=
  match toks with
  | ["sd.scall", msg, ks] =>
    match ofHex msg, (if ks = "-" then some [] else (ks.splitOn ",").mapM parseKey) with
    | some m, some keys => some (showR (SpecDecode.signcryptionAll RealPrims m keys))
    | _, _ => none
  | ["arm.sc.seal", sender, boxes, syms, eph, src, brand, pt] =>
    match mkSender sender, mkSRecips boxes, mkSRecips syms, mkEph eph, mkSource src, ofHex brand, ofHex pt with
    | some sender, some boxes, some syms, some eph, some src, some brand, some pt =>
      some (showSealRand (Signcrypt.sealArmor62Rand RealPrims blockSize sender boxes syms eph src pt brand) src.length)
    | _, _, _, _, _, _, _ => some bad
  | ["arm.sc.open", secrets, resolver, text] =>
    match hexList secrets, mkResolver resolver, ofHex text with
    | some secrets, some res, some text =>
      match mkKeyring secrets "std" "std" "std" "std" with
      | none => some bad
      | some kr =>
        match Signcrypt.dearmor62Open RealPrims kr res text with
        | .unmodelled _ => some "unmodelled"
        | .ok (.error e) => some s!"err {showErr e}"
        | .ok (.ok (snd, pt, brand)) =>
          some s!"ok sender={match snd with | some k => toHex k | none => "anon"} pt={toHex pt} brand={toHex brand}"
    | _, _, _ => some bad
  | _ => none

end DriverExtG
