/-
  spmodel — line-protocol driver for the executable model (shared helpers).

  One request per line on stdin, one canonical answer per line on stdout.
  Tokens are separated by single spaces; byte strings are lowercase hex with
  `-` for the empty string; lists are comma separated with `-` for the empty
  list.  See harness/internal/proto for the Go side.

  Imports Model + Real only (core Lean), so that it links as a `lean_exe`.
-/
import Saltpack.Model.Basex
import Saltpack.Model.Rand
import Saltpack.Model.Wire
import Saltpack.Model.Encrypt
import Saltpack.Model.Decrypt
import Saltpack.Model.Signcrypt
import Saltpack.Model.Sign
import Saltpack.Gen.BasexTables
import Saltpack.Real

open Saltpack

namespace Driver

def ba (l : Bytes) : ByteArray := ⟨l.toArray⟩
def ofBa (b : ByteArray) : Bytes := b.toList

/-- the primitives the Go implementation uses, re-implemented in Lean -/
def RealPrims : Prims where
  hash m := ofBa (Real.sha512 (ba m))
  hmac k m := ofBa (Real.hmacSha512 (ba k) (ba m))
  sbSeal k n m := ofBa (Real.secretboxSeal (ba k) (ba n) (ba m))
  sbOpen k n c := (Real.secretboxOpen (ba k) (ba n) (ba c)).map ofBa
  boxPub s := ofBa (Real.x25519Base (ba s))
  precompute s p := ofBa (Real.boxPrecompute (ba s) (ba p))
  sigPub s := ofBa (Real.ed25519Pub (ba s))
  sign s m := ofBa (Real.ed25519Sign (ba s) (ba m))
  verify p m s := Real.ed25519Verify (ba p) (ba m) (ba s)

/-! ### tokens -/

def hexDigit (n : Nat) : Char := if n < 10 then Char.ofNat (48 + n) else Char.ofNat (87 + n)

def toHex (b : Bytes) : String :=
  if b.isEmpty then "-" else
  String.ofList (b.flatMap (fun x => [hexDigit (x.toNat / 16), hexDigit (x.toNat % 16)]))

def hexVal (c : Char) : Option Nat :=
  if '0' ≤ c ∧ c ≤ '9' then some (c.toNat - 48)
  else if 'a' ≤ c ∧ c ≤ 'f' then some (c.toNat - 87)
  else none

def ofHexChars : List Char → Option Bytes
  | [] => some []
  | [_] => none
  | a :: b :: rest =>
    match hexVal a, hexVal b, ofHexChars rest with
    | some x, some y, some r => some (UInt8.ofNat (x * 16 + y) :: r)
    | _, _, _ => none

def ofHex (s : String) : Option Bytes := if s = "-" then some [] else ofHexChars s.toList

def splitList (s : String) : List String := if s = "-" then [] else s.splitOn ","

def hexList (s : String) : Option (List Bytes) := (splitList s).mapM ofHex

def natList (s : String) : Option (List Nat) := (splitList s).mapM String.toNat?

def showErr : Err → String
  | .noDecryptionKey => "no-decryption-key" | .trailingGarbage => "trailing-garbage"
  | .failedToReadHeaderBytes => "failed-to-read-header" | .packetOverflow => "packet-overflow"
  | .insufficientRandomness => "insufficient-randomness" | .badEphemeralKey => "bad-ephemeral-key"
  | .badReceivers => "bad-receivers" | .badSenderKeySecretbox => "bad-sender-secretbox"
  | .badSymmetricKey => "bad-symmetric-key" | .badBoxKey => "bad-box-key" | .badLookup => "bad-lookup"
  | .badSignature => "bad-signature" | .decryptionFailed => "decryption-failed"
  | .wrongNumberOfKeys => "wrong-number-of-keys" | .unexpectedEmptyBlock => "unexpected-empty-block"
  | .shortSliceOrBuffer => "short" | .notASaltpackMessage => "not-saltpack"
  | .noSenderKey => "no-sender-key" | .badTag => "bad-tag" | .badCiphertext => "bad-ciphertext"
  | .repeatedKey => "repeated-key" | .wrongMessageType => "wrong-message-type" | .badVersion => "bad-version"
  | .badFrame => "bad-frame" | .invalidParameter => "invalid-parameter" | .unexpectedEOF => "unexpected-eof"
  | .decodeError => "decode-error" | .ioError => "io-error" | .overflow => "overflow"
  | .punctuated => "punctuated" | .basexCorrupt => "basex-corrupt" | .basexBadLen => "basex-badlen"
  | .resolverError => "resolver-error"
  | .panic site => "panic:" ++ site

def showOptErr : Option Err → String
  | none => "ok"
  | some e => showErr e

/-! ### keyrings from a spec

  `secrets` — box secret keys in `GetAllBoxSecretKeys` order;
  `ls` (LookupBoxSecretKey): `std` = first kid (in order) equal to the public of
        one of the secrets; `none`; `fix:<int>:<secret hex>` = that answer always;
  `lp` (LookupBoxPublicKey): `std` = the kid itself; `nil`; `only:<hex,...>`;
  `ie` (ImportBoxEphemeralKey): `std` = kid copied into 32 bytes (zero padded /
        truncated, as basic.Keyring does); `len32` = nil unless 32 bytes; `nil`;
  `lsig` (LookupSigningPublicKey): `std` (32-byte copy) ; `nil`; `only:<hex,...>`. -/

def to32 (k : Bytes) : Bytes := (k ++ zeros 32).take 32

def mkKeyring (secrets : List Bytes) (ls lp ie lsig : String) : Option Keyring := do
  let pubs := secrets.map (fun s => (RealPrims.boxPub s, s))
  let lookupSecret : List Bytes → Int × Option Bytes ←
    match ls.splitOn ":" with
    | ["std"] => some (fun kids =>
        match (kids.zipIdx.filterMap (fun (k, i) => (pubs.find? (fun p => p.1 == to32 k)).map (fun p => (i, p.2)))).head? with
        | some (i, s) => ((i : Int), some s)
        | none => (-1, none))
    | ["none"] => some (fun _ => (-1, none))
    | ["fix", i, sk] =>
      match i.toInt?, ofHex sk with
      | some i, some sk => some (fun _ => (i, some sk))
      | _, _ => none
    | _ => none
  let lookupPub : Bytes → Option Bytes ←
    match lp.splitOn ":" with
    | ["std"] => some (fun k => some (to32 k))
    | ["nil"] => some (fun _ => none)
    | ["only", l] => (hexList l).map (fun ks => fun k => if ks.contains k then some k else none)
    | _ => none
  let importEph : Bytes → Option Bytes ←
    match ie with
    | "std" => some (fun k => some (to32 k))
    | "len32" => some (fun k => if k.length = 32 then some k else none)
    | "nil" => some (fun _ => none)
    | _ => none
  let lookupSig : Bytes → Option Bytes ←
    match lsig.splitOn ":" with
    | ["std"] => some (fun k => some (to32 k))
    | ["nil"] => some (fun _ => none)
    | ["only", l] => (hexList l).map (fun ks => fun k => if ks.contains k then some k else none)
    | _ => none
  return { lookupBoxSecretKey := lookupSecret, lookupBoxPublicKey := lookupPub,
           getAllBoxSecretKeys := secrets, importBoxEphemeralKey := importEph,
           lookupSigningPublicKey := lookupSig }

def mkValidator (s : String) : Option Validator :=
  match s.splitOn ":" with
  | ["known"] => some knownMajor
  | ["any"] => some (fun _ => true)
  | ["single", ma, mi] =>
    match ma.toInt?, mi.toInt? with
    | some a, some b => some (fun v => v == ⟨a, b⟩)
    | _, _ => none
  | _ => none

/-- randomness script: `hex` or `hex!` (error flagged) per read -/
def mkSource (s : String) : Option Rand.Source :=
  (splitList s).mapM (fun t =>
    if t.endsWith "!" then (ofHex (t.dropEnd 1).toString).map (fun d => ⟨d, true⟩)
    else (ofHex t).map (fun d => ⟨d, false⟩))

def mkEph (s : String) : Option Encrypt.EphSource :=
  match s.splitOn ":" with
  | ["r"] => some .fromRand
  | ["f"] => some .fails
  | ["g", h] => (ofHex h).map .given
  | _ => none

def mkRecips (s : String) : Option (List Encrypt.Recipient) :=
  (splitList s).mapM (fun t =>
    match t.splitOn ":" with
    | [p, "h"] => (ofHex p).map (⟨·, true⟩)
    | [p, "v"] => (ofHex p).map (⟨·, false⟩)
    | _ => none)

def mkSRecips (s : String) : Option (List Signcrypt.Recipient) :=
  (splitList s).mapM (fun t =>
    match t.splitOn ":" with
    | ["b", p] => (ofHex p).map .box
    | ["s", k, i] => match ofHex k, ofHex i with
      | some k, some i => some (.sym k i) | _, _ => none
    | _ => none)

def mkSender (s : String) : Option (Option Bytes) := if s = "anon" then some none else (ofHex s).map some

/-- resolver spec: `none` | `err` | `map:<ident>=<key>;...` (resolves listed
    identifiers, nil for the rest) | `short` (returns one key too few) -/
def mkResolver (s : String) : Option Signcrypt.Resolver :=
  match s.splitOn ":" with
  | ["none"] => some none
  | ["err"] => some (some (fun _ => .error .resolverError))
  | ["short"] => some (some (fun ids => .ok (ids.drop 1 |>.map (fun _ => none))))
  | ["map", m] => do
    let pairs ← (if m = "-" then [] else m.splitOn ";").mapM (fun t =>
      match t.splitOn "=" with
      | [i, k] => match ofHex i, ofHex k with
        | some i, some k => some (i, k) | _, _ => none
      | _ => none)
    return some (fun ids => .ok (ids.map (fun i => (pairs.find? (fun p => p.1 == i)).map (·.2))))
  | _ => none

def showCall : KeyCall → String
  | .unbox _ _ n m => s!"unbox:{toHex n}:{toHex m}"
  | .box _ _ n m => s!"box:{toHex n}:{toHex m}"
  | .precompute _ p => s!"precompute:{toHex p}"
  | .sharedUnbox _ _ n m => s!"sunbox:{toHex n}:{toHex m}"
  | .sharedBox _ _ n m => s!"sbox:{toHex n}:{toHex m}"
  | .sign _ m => s!"sign:{toHex m}"

def showCalls (l : List KeyCall) : String := if l.isEmpty then "-" else ",".intercalate (l.map showCall)

def showMKI (m : MKI) : String :=
  s!"sender={toHex m.senderKey} anon={m.senderIsAnon} recv={toHex (RealPrims.boxPub m.receiverKey)} ranon={m.receiverIsAnon} named={if m.namedReceivers.isEmpty then "-" else ",".intercalate (m.namedReceivers.map toHex)} nanon={m.numAnonReceivers}"

def encByName (n : String) : Option Basex.Enc :=
  match n with
  | "b62" => some Gen.base62Std
  | "b62s" => some Gen.base62StdStrict
  | "b58" => some Gen.base58Std
  | "b58s" => some Gen.base58StdStrict
  | _ => none

def showBasexRes : Except Basex.Err Bytes → String
  | .ok b => s!"ok {toHex b}"
  | .error (.corrupt p) => s!"err corrupt {p}"
  | .error .badLen => "err badlen"

def bad : String := "bad-op"

def showExceptBytes : Except Err Bytes → String
  | .ok b => s!"ok {toHex b}"
  | .error e => s!"err {showErr e}"

def showSealRand : Except Err (Bytes × Rand.Source) → Nat → String
  | .ok (b, rest), n => s!"ok {toHex b} reads={n - rest.length}"
  | .error e, _ => s!"err {showErr e}"


end Driver
