/-
  spmodel — extension slot C of the line protocol: the strict reference decoder
  (the oracle of C08), layer W alone — no keys needed:

    sdw <enc|att|det|sc> <hex>   →  ok <hex of render (parse bytes)>  |  reject <why>

  On every accepted byte string `render (parse b)` must be `b` itself
  (`C08_decode_sound_*`), which the harness checks on the answer.
-/
import Driver.Util
import Saltpack.Model.SpecDecode

open Saltpack

namespace DriverExtC
open Driver

def showW (r : Except String Bytes) : String :=
  match r with
  | .ok b => "ok " ++ toHex b
  | .error e => "reject " ++ e.replace " " "_"

def handle (toks : List String) : Option String :=
  match toks with
  | ["sdw", mode, msg] =>
    match ofHex msg with
    | none => none
    | some b =>
      match mode with
      | "enc" => some (showW ((SpecDecode.EncMsg.parse b).map (·.render)))
      | "att" => some (showW ((SpecDecode.AttMsg.parse b).map (·.render)))
      | "det" => some (showW ((SpecDecode.DetMsg.parse b).map (·.render)))
      | "sc" => some (showW ((SpecDecode.ScMsg.parse b).map (·.render)))
      | _ => none
  | _ => none

end DriverExtC
