/-
  spmodel — extension slot F of the line protocol: the model's OWN typed
  decoding of message bytes (Model/Codec.lean = go-codec's decoding into the
  saltpack packet types).

    codec.list <enc|signcrypt|sig> <hex>  →  ok <hdr> <hf> <items> <tail>
    codec.list det <hex>                  →  ok <hdr> <hf> <E|R|S:sig>
  in exactly the token format of `listingTokens` (harness/cmd/corr/packets.go,
  from the hook `VerifListPackets`), or `unmodelled <why>`.
-/
import Driver.Util
import Saltpack.Model.Codec

open Saltpack

namespace DriverExtF
open Driver

def hexOrTilde (b : Option Bytes) : String :=
  match b with
  | none => "~"
  | some x => if x.isEmpty then "~" else toHex x

def showHdr {η : Type} : HeaderRead η → String
  | .unreadable => "U"
  | .undecodable hb => "X:" ++ toHex hb
  | .ok hb _ => "H:" ++ toHex hb

def showEncHF (h : EncHeader) : String :=
  let rcs := if h.receivers.isEmpty then "-"
    else "|".intercalate (h.receivers.map (fun r => hexOrTilde r.kid ++ "/" ++ toHex r.box))
  s!"{toHex h.formatName};{h.version.major};{h.version.minor};{h.typ};{toHex h.ephemeral};{toHex h.senderSecretbox};{rcs}"

def showSigHF (h : SigHeader) : String :=
  s!"{toHex h.formatName};{h.version.major};{h.version.minor};{h.typ};{toHex h.senderPublic};{toHex h.nonce}"

def showHF {η : Type} (f : η → String) : HeaderRead η → String
  | .ok _ h => f h
  | _ => "-"

def flag (b : Bool) : String := if b then "1" else "0"

def showItems {β : Type} (f : β → String) (l : List (Option β)) : String :=
  if l.isEmpty then "-" else ",".intercalate (l.map (fun o => match o with | none => "N" | some x => f x))

def showTail : Tail → String
  | .eof => "E"
  | .err _ => "R"

def majorOf {η : Type} (f : η → Int) : HeaderRead η → Int
  | .ok _ h => f h
  | _ => 0

def showEncItem (major : Int) (b : EncBlock) : String :=
  let fin := if major = 1 then b.ct.length == 16 else b.final
  let a := if b.auths.isEmpty then "-" else ".".intercalate (b.auths.map toHex)
  s!"{flag fin}/{a}/{toHex b.ct}"

def showSigItem (major : Int) (b : SigBlock) : String :=
  let fin := if major = 1 then b.chunk.isEmpty else b.final
  s!"{flag fin}/{toHex b.sig}/{toHex b.chunk}"

def showScItem (b : SigncryptBlock) : String := s!"{flag b.final}/{toHex b.ct}"

def list (mode : String) (msg : Bytes) : Option String :=
  match mode with
  | "enc" =>
    match Codec.splitEnc msg with
    | .error w => some s!"unmodelled {w.replace " " "_"}"
    | .ok (hr, ps) =>
      let m := majorOf (fun h : EncHeader => h.version.major) hr
      some s!"ok {showHdr hr} {showHF showEncHF hr} {showItems (showEncItem m) ps.items} {showTail ps.tail}"
  | "signcrypt" =>
    match Codec.splitSigncrypt msg with
    | .error w => some s!"unmodelled {w.replace " " "_"}"
    | .ok (hr, ps) =>
      some s!"ok {showHdr hr} {showHF showEncHF hr} {showItems showScItem ps.items} {showTail ps.tail}"
  | "sig" =>
    match Codec.splitSig msg with
    | .error w => some s!"unmodelled {w.replace " " "_"}"
    | .ok (hr, ps) =>
      let m := majorOf (fun h : SigHeader => h.version.major) hr
      some s!"ok {showHdr hr} {showHF showSigHF hr} {showItems (showSigItem m) ps.items} {showTail ps.tail}"
  | "det" =>
    match Codec.splitDetached msg with
    | .error w => some s!"unmodelled {w.replace " " "_"}"
    | .ok (hr, sg) =>
      let s := match sg with
        | .sig x => "S:" ++ toHex x
        | .eof => "E"
        | .err => "R"
      some s!"ok {showHdr hr} {showHF showSigHF hr} {s}"
  | _ => none

def handle (toks : List String) : Option String :=
  match toks with
  | ["codec.list", mode, hex] =>
    match ofHex hex with
    | some msg => list mode msg
    | none => none
  | _ => none

end DriverExtF
