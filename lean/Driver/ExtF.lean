/-
  spmodel — extension slot F of the line protocol (ops of one model extension;
  chained from Driver/Ext.lean).
-/
import Driver.Util

open Saltpack

namespace DriverExtF
open Driver

def handle (toks : List String) : Option String :=
  match toks with
  | _ => none

end DriverExtF
