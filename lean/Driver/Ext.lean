/-
  spmodel — chain of the extension slots (each owns its ops).
-/
import Driver.ExtA
import Driver.ExtB
import Driver.ExtC
import Driver.ExtD
import Driver.ExtF
import Driver.ExtG

namespace DriverExt

def handle (toks : List String) : Option String :=
  DriverExtA.handle toks <|> DriverExtB.handle toks <|> DriverExtC.handle toks <|> DriverExtD.handle toks <|> DriverExtF.handle toks <|> DriverExtG.handle toks

end DriverExt
