/-
  spmodel — dispatch for the decoded-packets route (hook `VerifListPackets`),
  armor, classification and the stream state machines.
-/
import Driver.Util
import Saltpack.Model.Armor
import Saltpack.Model.Spec
import Driver.Streams

open Saltpack

namespace Driver2
open Driver

/-! ### decoded-packets route

  `hdr`:  `U` (unreadable) | `X:<headerbytes>` (undecodable) | `H:<headerbytes>`
  `hf`:   enc/signcrypt `<fmt>;<maj>;<min>;<typ>;<eph>;<ssb>;<kid|~>/<box>|...`
          sig           `<fmt>;<maj>;<min>;<typ>;<pub>;<nonce>`       (`-` if no header)
  `items`: comma list; `N` = does not decode as a block;
          enc `<0|1>/<a.a.a>/<ct>`, signcrypt `<0|1>/<ct>`, sig `<0|1>/<sig>/<chunk>`
  `tail`: `E` clean end | `R` error -/

def parseRecv (s : String) : Option RecvKeys :=
  match s.splitOn "/" with
  | [k, b] =>
    match (if k = "~" then some none else (ofHex k).map some), ofHex b with
    | some kid, some bx => some ⟨kid, bx⟩
    | _, _ => none
  | _ => none

def parseEncHF (s : String) : Option EncHeader :=
  match s.splitOn ";" with
  | [fn, ma, mi, ty, eph, ssb, rc] =>
    match ofHex fn, ma.toInt?, mi.toInt?, ty.toInt?, ofHex eph, ofHex ssb,
        (if rc = "-" then some [] else (rc.splitOn "|").mapM parseRecv) with
    | some fn, some ma, some mi, some ty, some eph, some ssb, some rs => some ⟨fn, ⟨ma, mi⟩, ty, eph, ssb, rs⟩
    | _, _, _, _, _, _, _ => none
  | _ => none

def parseSigHF (s : String) : Option SigHeader :=
  match s.splitOn ";" with
  | [fn, ma, mi, ty, pk, n] =>
    match ofHex fn, ma.toInt?, mi.toInt?, ty.toInt?, ofHex pk, ofHex n with
    | some fn, some ma, some mi, some ty, some pk, some n => some ⟨fn, ⟨ma, mi⟩, ty, pk, n⟩
    | _, _, _, _, _, _ => none
  | _ => none

def parseHdr {η : Type} (pf : String → Option η) (hdr hf : String) : Option (HeaderRead η) :=
  if hdr = "U" then some .unreadable
  else match hdr.splitOn ":" with
    | ["X", hb] => (ofHex hb).map .undecodable
    | ["H", hb] =>
      match ofHex hb, pf hf with
      | some hb, some h => some (.ok hb h)
      | _, _ => none
    | _ => none

def parseBool01 (s : String) : Option Bool := if s = "1" then some true else if s = "0" then some false else none

def parseItems {β : Type} (pi : List String → Option β) (s : String) : Option (List (Option β)) :=
  (splitList s).mapM (fun t => if t = "N" then some none else (pi (t.splitOn "/")).map some)

def parseEncItem : List String → Option EncBlock
  | [f, a, c] =>
    match parseBool01 f, (if a = "-" then some [] else (a.splitOn ".").mapM ofHex), ofHex c with
    | some f, some a, some c => some ⟨a, c, f⟩
    | _, _, _ => none
  | _ => none

def parseScItem : List String → Option SigncryptBlock
  | [f, c] =>
    match parseBool01 f, ofHex c with
    | some f, some c => some ⟨c, f⟩
    | _, _ => none
  | _ => none

def parseSigItem : List String → Option SigBlock
  | [f, sg, c] =>
    match parseBool01 f, ofHex sg, ofHex c with
    | some f, some sg, some c => some ⟨sg, c, f⟩
    | _, _, _ => none
  | _ => none

def parseTail (s : String) : Option Tail :=
  if s = "E" then some .eof else if s = "R" then some (.err .decodeError) else none

def parseBool01' (s : String) : Option Bool := if s = "1" then some true else if s = "0" then some false else none

/-- options of the reference sender: `fn=<hex>;maj=<int|->;min=<int>;typ=<int|->;hx=<k>;rx=<k>;px=<k>;cs=<n.n.n|->` -/
def parseOpts (s : String) : Option Spec.Opts := do
  let mut o : Spec.Opts := {}
  for kv in s.splitOn ";" do
    match kv.splitOn "=" with
    | ["fn", v] => o := { o with formatName := ← ofHex v }
    | ["maj", v] =>
      if v = "-" then o := { o with majorLabel := none }
      else
        let i ← v.toInt?
        o := { o with majorLabel := some i }
    | ["min", v] => o := { o with minor := ← v.toInt? }
    | ["typ", v] =>
      if v = "-" then o := { o with typ := none }
      else
        let i ← v.toInt?
        o := { o with typ := some i }
    | ["hx", v] => o := { o with headerExtras := Spec.extraVals (← v.toNat?) }
    | ["rx", v] => o := { o with recvExtras := Spec.extraVals (← v.toNat?) }
    | ["px", v] => o := { o with packetExtras := Spec.extraVals (← v.toNat?) }
    | ["cs", v] => o := { o with chunkSizes := ← (if v = "-" then some [] else (v.splitOn ".").mapM String.toNat?) }
    | ["pl", v] =>
      let pl ← (v.splitOn ".").mapM (fun t => match t.splitOn "/" with
        | [c, f] => match ofHex c, parseBool01' f with
          | some c, some f => some (c, f) | _, _ => none
        | _ => none)
      o := { o with explicitPlan := some pl }
    | _ => none
  return o

def handle (toks : List String) : Option String :=
  match toks with
  | ["spec.enc", layout, opts, sender, recips, eph, pk, pt] =>
    match layout.toNat?, parseOpts opts, mkSender sender, mkRecips recips, ofHex eph, ofHex pk, ofHex pt with
    | some l, some o, some snd, some rs, some eph, some pk, some pt =>
      some s!"ok {toHex (Spec.encode RealPrims l o snd rs eph pk pt)}"
    | _, _, _, _, _, _, _ => none
  | ["spec.att", layout, opts, signer, nonce, msg] =>
    match layout.toNat?, parseOpts opts, ofHex signer, ofHex nonce, ofHex msg with
    | some l, some o, some sg, some n, some m => some s!"ok {toHex (Spec.attached RealPrims l o sg n m)}"
    | _, _, _, _, _ => none
  | ["spec.det", layout, opts, signer, nonce, msg] =>
    match layout.toNat?, parseOpts opts, ofHex signer, ofHex nonce, ofHex msg with
    | some l, some o, some sg, some n, some m => some s!"ok {toHex (Spec.detached RealPrims l o sg n m)}"
    | _, _, _, _, _ => none
  | ["spec.sc", opts, sender, recips, eph, pk, pt] =>
    match parseOpts opts, mkSender sender, mkSRecips recips, ofHex eph, ofHex pk, ofHex pt with
    | some o, some snd, some rs, some eph, some pk, some pt =>
      some s!"ok {toHex (Spec.signcrypt RealPrims o snd rs eph pk pt)}"
    | _, _, _, _, _, _ => none
  | ["enc.openp", valid, secrets, ls, lp, ie, lsig, hdr, hf, items, tail] =>
    match mkValidator valid, hexList secrets, parseHdr parseEncHF hdr hf, parseItems parseEncItem items, parseTail tail with
    | some valid, some secrets, some hr, some its, some tl =>
      match mkKeyring secrets ls lp ie lsig with
      | none => none
      | some kr =>
        let r := Decrypt.openStream RealPrims valid kr hr ⟨its, tl⟩
        let mki := match r.err, r.mki with
          | none, some m => showMKI m
          | _, _ => "-"
        some s!"res {showOptErr r.err} rel={toHex r.released} calls={showCalls r.calls} {mki}"
    | _, _, _, _, _ => none
  | ["sc.openp", secrets, ls, lp, ie, lsig, resolver, hdr, hf, items, tail] =>
    match hexList secrets, mkResolver resolver, parseHdr parseEncHF hdr hf, parseItems parseScItem items, parseTail tail with
    | some secrets, some res, some hr, some its, some tl =>
      match mkKeyring secrets ls lp ie lsig with
      | none => none
      | some kr =>
        let r := Signcrypt.openStream RealPrims kr res hr ⟨its, tl⟩
        let snd := match r.err with
          | none => (match r.sender with | some s => toHex s | none => "anon")
          | some _ => "-"
        some s!"res {showOptErr r.err} rel={toHex r.released} calls={showCalls r.calls} sender={snd}"
    | _, _, _, _, _ => none
  | ["sig.verifyp", valid, lsig, hdr, hf, items, tail] =>
    match mkValidator valid, parseHdr parseSigHF hdr hf, parseItems parseSigItem items, parseTail tail with
    | some valid, some hr, some its, some tl =>
      match mkKeyring [] "none" "nil" "nil" lsig with
      | none => none
      | some kr =>
        let r := Sign.verifyStream RealPrims valid kr hr ⟨its, tl⟩
        let snd := match r.err, r.signer with
          | none, some s => toHex s
          | _, _ => "-"
        some s!"res {showOptErr r.err} rel={toHex r.released} signer={snd}"
    | _, _, _, _ => none
  | ["armor.seal", typ, brand, payload] =>
    match typ.toInt?, ofHex brand, ofHex payload with
    | some typ, some brand, some payload => some s!"ok {toHex (Armor.seal62 typ brand payload)}"
    | _, _, _ => none
  | ["armor.open", expect, text] =>
    match (if expect = "none" then some none else expect.toInt?.map some), ofHex text with
    | some ex, some text =>
      match Armor.open62 ex text with
      | .ok o => some s!"ok payload={toHex o.payload} brand={toHex o.brand} header={toHex o.header} footer={toHex o.footer}"
      | .error e => some s!"err {showErr e}"
    | _, _ => none
  | ["armor.frame", which, typ, brand] =>
    match typ.toInt?, ofHex brand with
    | some typ, some brand =>
      some s!"ok {toHex (if which = "h" then Armor.header typ brand else Armor.footer typ brand)}"
    | _, _ => none
  | ["armor.parse", typ, which, text] =>
    match typ.toInt?, ofHex text with
    | some typ, some text =>
      match Armor.parseFrame text typ (if which = "h" then Gen.c_sp_headerMarker else Gen.c_sp_footerMarker) with
      | .ok b => some s!"ok {toHex b}"
      | .error e => some s!"err {showErr e}"
    | _, _ => none
  | ["armor.check", typ, hdr, ftr] =>
    match typ.toInt?, ofHex hdr, ofHex ftr with
    | some typ, some hdr, some ftr =>
      match Armor.checkArmor62 hdr ftr typ with
      | .ok b => some s!"ok {toHex b}"
      | .error e => some s!"err {showErr e}"
    | _, _, _ => none
  | ["sig.verifydetachedp", valid, lsig, hdr, hf, sg, msg] =>
    match mkValidator valid, parseHdr parseSigHF hdr hf, ofHex msg with
    | some valid, some hr, some msg =>
      match mkKeyring [] "none" "nil" "nil" lsig with
      | none => none
      | some kr =>
        let sr : Option Sign.SigRead :=
          if sg = "E" then some (.none .unexpectedEOF) else if sg = "R" then some (.none .decodeError)
          else match sg.splitOn ":" with
            | ["S", h] => (ofHex h).map .sig
            | _ => none
        match sr with
        | none => none
        | some sr =>
          match Sign.verifyDetached RealPrims valid kr hr sr msg with
          | .ok k => some s!"res ok signer={toHex k}"
          | .error e => some s!"res {showErr e} signer=-"
    | _, _, _ => none
  | _ => Driver3.handle toks

end Driver2
