/-
  spmodel — dispatch for armor, classification and the stream state machines.
-/
import Driver.Util

open Saltpack

namespace Driver2
open Driver

def handle (toks : List String) : Option String :=
  match toks with
  | _ => none

end Driver2
