/-
  spmodel — extension slot A: package `basic` (Saltpack/Model/Basic.lean).

  A basic keyring is built from a spec on both sides:
    box spec  `pub:sec,pub:sec,...` | `-`   the ImportBoxKey calls, in order (32-byte hex each)
    sig spec  `pub:sec,...` | `-`           the ImportSigningKey calls (32 / 64 bytes)

  ops
    bk.kid <kid>                                   kidToPublicKey through the three never-nil lookups
    bk.lookup <boxspec> <kids>                     LookupBoxSecretKey
    bk.all <boxspec>                               GetAllBoxSecretKeys (import order here; compared as a set)
    bk.keyops <pub> <sec> <peer> <nonce> <msg>     SecretKey / PrecomputedSharedKey methods
    bk.sigops <seed> <msg> <othersig>              SigningSecretKey.Sign / SigningPublicKey.Verify
    bk.eph <src>                                   EphemeralKeyCreator{}.CreateEphemeralKey under a scripted source
    bk.genbox <boxspec> <src>                      Keyring.GenerateBoxKey
    bk.gensig <boxspec> <sigspec> <src>            Keyring.GenerateSigningKey
    bk.enc.open <valid> <boxspec> <msg>            Open / NewDecryptStream with the basic keyring
    bk.sc.open <boxspec> <resolver> <msg>          SigncryptOpen …
    bk.sig.verify <valid> <sigspec> <msg>          Verify …
    bk.sig.verifydetached <valid> <sigspec> <sigmsg> <msg>
    bk.*.openp / verifyp …                         the same through the decoded-packets route
    bk.enc.seal <ma> <mi> <sender sec|anon> <recipient pubs> <src> <pt>       Seal with basic keys (creator = basic's)
    bk.sc.seal <signer seed|anon> <recipient pubs> <src> <pt>                 SigncryptSeal with basic.EphemeralKeyCreator
    bk.sig.attached / bk.sig.detached <ma> <mi> <seed> <src> <msg>            Sign / SignDetached with a basic signing key
-/
import Driver.Util
import Driver.More
import Saltpack.Model.Basic

open Saltpack

namespace DriverExtA
open Driver

def len? (n : Nat) (b : Bytes) : Option Bytes := if b.length = n then some b else none

/-- `pub:sec` pairs of exact lengths -/
def parsePairs (np ns : Nat) (s : String) : Option (List (Bytes × Bytes)) :=
  (splitList s).mapM (fun t =>
    match t.splitOn ":" with
    | [p, q] =>
      match (ofHex p).bind (len? np), (ofHex q).bind (len? ns) with
      | some p, some q => some (p, q)
      | _, _ => none
    | _ => none)

def mkRing (boxspec sigspec : String) : Option Basic.Keyring := do
  let bs ← parsePairs 32 32 boxspec
  let ss ← parsePairs 32 64 sigspec
  let k := bs.foldl (fun k e => k.importBoxKey e.1 e.2) Basic.Keyring.empty
  return ss.foldl (fun k e => k.importSigningKey e.1 e.2) k

def showKeys (l : List Basic.SecretKey) : String :=
  if l.isEmpty then "-" else ",".intercalate (l.map (fun e => s!"{toHex e.pub}:{toHex e.sec}"))

def showExc : Except Err Bytes → String
  | .ok b => s!"ok:{toHex b}"
  | .error e => s!"err:{showErr e}"

def showMKIb (m : MKI) : String :=
  s!"sender={toHex m.senderKey} anon={m.senderIsAnon} recvsec={toHex m.receiverKey} ranon={m.receiverIsAnon} named={if m.namedReceivers.isEmpty then "-" else ",".intercalate (m.namedReceivers.map toHex)} nanon={m.numAnonReceivers}"

def encAnswer (r : Decrypt.Result) : String :=
  let mki := match r.err, r.mki with
    | none, some m => showMKIb m
    | _, _ => "-"
  s!"res {showOptErr r.err} rel={toHex r.released} {mki}"

def scAnswer (r : Signcrypt.Result) : String :=
  let snd := match r.err with
    | none => (match r.sender with | some s => toHex s | none => "anon")
    | some _ => "-"
  s!"res {showOptErr r.err} rel={toHex r.released} sender={snd}"

def sigAnswer (r : Sign.Result) : String :=
  let snd := match r.err, r.signer with
    | none, some s => toHex s
    | _, _ => "-"
  s!"res {showOptErr r.err} rel={toHex r.released} signer={snd}"

def detAnswer : Except Err Bytes → String
  | .ok k => s!"res ok signer={toHex k}"
  | .error e => s!"res {showErr e} signer=-"

def visibleRecips (s : String) : Option (List Encrypt.Recipient) :=
  (hexList s).map (fun l => l.map (⟨·, false⟩))

def handle (toks : List String) : Option String :=
  match toks with
  | ["bk.kid", kid] =>
    match ofHex kid with
    | some kid =>
      let k := Basic.Keyring.empty
      some s!"ok lp={toHex (k.lookupBoxPublicKey kid)} ie={toHex (k.importBoxEphemeralKey kid)} lsig={toHex (k.lookupSigningPublicKey kid)}"
    | none => none
  | ["bk.lookup", spec, kids] =>
    match mkRing spec "-", hexList kids with
    | some k, some kids =>
      match k.lookupBoxSecretKey kids with
      | (i, some sk) => some s!"ok {i} pub={toHex sk.getPublicKey} sec={toHex sk.sec}"
      | (i, none) => some s!"ok {i} nil"
    | _, _ => none
  | ["bk.all", spec] =>
    match mkRing spec "-" with
    | some k => some s!"ok all={showKeys k.getAllBoxSecretKeys}"
    | none => none
  | ["bk.keyops", pub, sec, peer, nonce, msg] =>
    match (ofHex pub).bind (len? 32), (ofHex sec).bind (len? 32), (ofHex peer).bind (len? 32),
        (ofHex nonce).bind (len? 24), ofHex msg with
    | some pub, some sec, some peer, some nonce, some msg =>
      let k := Basic.newSecretKey pub sec
      let bx := k.box RealPrims peer nonce msg
      let pre := k.precompute RealPrims peer
      let sbx := Basic.PrecomputedSharedKey.box RealPrims pre nonce msg
      some s!"ok pub={toHex k.getPublicKey} kid={toHex (Basic.PublicKey.toKID k.getPublicKey)} hide={Basic.PublicKey.hideIdentity k.getPublicKey} box={toHex bx} rt={showExc (k.unbox RealPrims peer nonce bx)} unbox={showExc (k.unbox RealPrims peer nonce msg)} pre={toHex pre} sbox={toHex sbx} srt={showExc (Basic.PrecomputedSharedKey.unbox RealPrims pre nonce sbx)} sunbox={showExc (Basic.PrecomputedSharedKey.unbox RealPrims pre nonce msg)}"
    | _, _, _, _, _ => none
  | ["bk.sigops", seed, msg, other] =>
    match (ofHex seed).bind (len? 32), ofHex msg, ofHex other with
    | some seed, some msg, some other =>
      let pub := RealPrims.sigPub seed
      let k := Basic.newSigningSecretKey pub (seed ++ pub)
      match k.sign RealPrims msg with
      | .error e => some s!"err {showErr e}"
      | .ok sg =>
        let v (r : Except Err Unit) : String := match r with | .ok () => "ok" | .error e => showErr e
        some s!"ok pub={toHex k.getPublicKey} sig={toHex sg} verify={v (Basic.SigningPublicKey.verify RealPrims pub msg sg)} verify2={v (Basic.SigningPublicKey.verify RealPrims pub msg other)}"
    | _, _, _ => none
  | ["bk.eph", src] =>
    match mkSource src with
    | some src =>
      match Basic.createEphemeralKey RealPrims src with
      | .ok (sk, rest) => some s!"ok pub={toHex sk.pub} sec={toHex sk.sec} reads={src.length - rest.length}"
      | .error e => some s!"err {showErr e}"
    | none => none
  | ["bk.genbox", spec, src] =>
    match mkRing spec "-", mkSource src with
    | some k, some src =>
      match k.generateBoxKey RealPrims src with
      | .ok (sk, k', rest) =>
        some s!"ok pub={toHex sk.pub} sec={toHex sk.sec} reads={src.length - rest.length} all={showKeys k'.getAllBoxSecretKeys}"
      | .error e => some s!"err {showErr e} all={showKeys k.getAllBoxSecretKeys}"
    | _, _ => none
  | ["bk.gensig", spec, sigspec, src] =>
    match mkRing spec sigspec, mkSource src with
    | some k, some src =>
      match k.generateSigningKey RealPrims src with
      | .ok (sk, k', rest) =>
        some s!"ok pub={toHex sk.pub} sec={toHex sk.sec} reads={src.length - rest.length} all={showKeys k'.getAllBoxSecretKeys}"
      | .error e => some s!"err {showErr e} all={showKeys k.getAllBoxSecretKeys}"
    | _, _ => none
  -- receivers with the basic keyring -------------------------------------------------
  | ["bk.enc.open", valid, spec, msg] =>
    match mkValidator valid, mkRing spec "-", ofHex msg with
    | some valid, some k, some msg =>
      match Wire.splitEnc msg with
      | .unmodelled w => some s!"unmodelled {w.replace " " "_"}"
      | .ok (hr, ps) => some (encAnswer (Decrypt.openStream RealPrims valid k.ring hr ps))
    | _, _, _ => none
  | ["bk.enc.openp", valid, spec, hdr, hf, items, tail] =>
    match mkValidator valid, mkRing spec "-", Driver2.parseHdr Driver2.parseEncHF hdr hf,
        Driver2.parseItems Driver2.parseEncItem items, Driver2.parseTail tail with
    | some valid, some k, some hr, some its, some tl =>
      some (encAnswer (Decrypt.openStream RealPrims valid k.ring hr ⟨its, tl⟩))
    | _, _, _, _, _ => none
  | ["bk.sc.open", spec, resolver, msg] =>
    match mkRing spec "-", mkResolver resolver, ofHex msg with
    | some k, some res, some msg =>
      match Wire.splitSigncrypt msg with
      | .unmodelled w => some s!"unmodelled {w.replace " " "_"}"
      | .ok (hr, ps) => some (scAnswer (Signcrypt.openStream RealPrims k.ring res hr ps))
    | _, _, _ => none
  | ["bk.sc.openp", spec, resolver, hdr, hf, items, tail] =>
    match mkRing spec "-", mkResolver resolver, Driver2.parseHdr Driver2.parseEncHF hdr hf,
        Driver2.parseItems Driver2.parseScItem items, Driver2.parseTail tail with
    | some k, some res, some hr, some its, some tl =>
      some (scAnswer (Signcrypt.openStream RealPrims k.ring res hr ⟨its, tl⟩))
    | _, _, _, _, _ => none
  | ["bk.sig.verify", valid, sigspec, msg] =>
    match mkValidator valid, mkRing "-" sigspec, ofHex msg with
    | some valid, some k, some msg =>
      match Wire.splitSig msg with
      | .unmodelled w => some s!"unmodelled {w.replace " " "_"}"
      | .ok (hr, ps) => some (sigAnswer (Sign.verifyStream RealPrims valid k.ring hr ps))
    | _, _, _ => none
  | ["bk.sig.verifyp", valid, sigspec, hdr, hf, items, tail] =>
    match mkValidator valid, mkRing "-" sigspec, Driver2.parseHdr Driver2.parseSigHF hdr hf,
        Driver2.parseItems Driver2.parseSigItem items, Driver2.parseTail tail with
    | some valid, some k, some hr, some its, some tl =>
      some (sigAnswer (Sign.verifyStream RealPrims valid k.ring hr ⟨its, tl⟩))
    | _, _, _, _, _ => none
  | ["bk.sig.verifydetached", valid, sigspec, sigmsg, msg] =>
    match mkValidator valid, mkRing "-" sigspec, ofHex sigmsg, ofHex msg with
    | some valid, some k, some sigmsg, some msg =>
      match Wire.splitDetached sigmsg with
      | .unmodelled w => some s!"unmodelled {w.replace " " "_"}"
      | .ok (hr, sr) => some (detAnswer (Sign.verifyDetached RealPrims valid k.ring hr sr msg))
    | _, _, _, _ => none
  | ["bk.sig.verifydetachedp", valid, sigspec, hdr, hf, sg, msg] =>
    match mkValidator valid, mkRing "-" sigspec, Driver2.parseHdr Driver2.parseSigHF hdr hf, ofHex msg with
    | some valid, some k, some hr, some msg =>
      let sr : Option Sign.SigRead :=
        if sg = "E" then some (.none .unexpectedEOF) else if sg = "R" then some (.none .decodeError)
        else match sg.splitOn ":" with
          | ["S", h] => (ofHex h).map .sig
          | _ => none
      sr.map (fun sr => detAnswer (Sign.verifyDetached RealPrims valid k.ring hr sr msg))
    | _, _, _, _ => none
  -- senders with basic keys (the ephemeral key comes from basic.EphemeralKeyCreator = `.fromRand`,
  -- Proofs/Basic.lean `sealRand_fromRand_is_basic_creator`) --------------------------
  | ["bk.enc.seal", ma, mi, sender, recips, src, pt] =>
    match ma.toInt?, mi.toInt?, mkSender sender, visibleRecips recips, mkSource src, ofHex pt with
    | some ma, some mi, some sender, some rs, some src, some pt =>
      some (showSealRand (Encrypt.sealRand RealPrims blockSize ⟨ma, mi⟩ sender rs .fromRand src pt) src.length)
    | _, _, _, _, _, _ => none
  | ["bk.sc.seal", sender, recips, src, pt] =>
    match mkSender sender, hexList recips, mkSource src, ofHex pt with
    | some sender, some rs, some src, some pt =>
      some (showSealRand (Signcrypt.sealRand RealPrims blockSize sender (rs.map .box) [] .fromRand src pt) src.length)
    | _, _, _, _ => none
  | ["bk.sig.attached", ma, mi, seed, src, msg] =>
    match ma.toInt?, mi.toInt?, (ofHex seed).bind (len? 32), mkSource src, ofHex msg with
    | some ma, some mi, some seed, some src, some msg =>
      some (showSealRand (Sign.attachedRand RealPrims sigBlockSize ⟨ma, mi⟩ seed src msg) src.length)
    | _, _, _, _, _ => none
  | ["bk.sig.detached", ma, mi, seed, src, msg] =>
    match ma.toInt?, mi.toInt?, (ofHex seed).bind (len? 32), mkSource src, ofHex msg with
    | some ma, some mi, some seed, some src, some msg =>
      some (showSealRand (Sign.detachedRand RealPrims ⟨ma, mi⟩ seed src msg) src.length)
    | _, _, _, _, _ => none
  | _ => none

end DriverExtA
