/-
  spmodel — extension slot A of the line protocol (ops of one model extension;
  chained from Driver/Ext.lean).
-/
import Driver.Util

open Saltpack

namespace DriverExtA
open Driver

def handle (toks : List String) : Option String :=
  match toks with
  | _ => none

end DriverExtA
