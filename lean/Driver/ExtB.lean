/-
  spmodel — extension slot B of the line protocol: the SENDER streams call by
  call over a faulting writer (Model/SenderStream.lean).

    st.sender enc <ma> <sender> <recips> <eph> <src> <sink> <ops>
    st.sender sig <ma> <signer> <src> <sink> <ops>
    st.sender sc  <sender> <boxes> <syms> <eph> <src> <sink> <ops>
    st.sender det <ma> <signer> <src> <sink> <ops>
    st.sender <kind>.a … <brand> <sink> <ops>       the armored composition
    st.sender armor <typ> <brand> <sink> <ops>      the BARE armor encoder stream
                                                    (`NewArmor62EncoderStream`, `FArm.init62` / `writeN` / `close` / `calls`)

  <sink>  `-` or a string of 0/1: which underlying Write calls fail (1 = fails),
          optionally followed by `/k.k.…`: how many bytes the successive FAILING
          writes accept before failing (`(min k len, err)`; default 0)
  <ops>   comma separated: `w:<hex>` Write of these bytes, `g:<off>:<len>` Write
          of position-dependent bytes, `c` Close
  answer  `ok init=<class> calls=<n:class,…> lens=<bytes at the writer after the
          constructor and after every call> tried=<sizes of all attempted
          underlying writes> out=<what reached the writer>`
-/
import Driver.Util
import Saltpack.Model.SenderStream
import Saltpack.Model.Armored

open Saltpack

namespace DriverExtB
open Driver Saltpack.Sender

inductive Op where
  | w (p : Bytes)
  | c

def genBytes (off len : Nat) : Bytes :=
  (List.range len).map (fun j => let i := off + j; UInt8.ofNat (i ^^^ (i >>> 8) ^^^ ((i >>> 16) * 7)))

def parseOp (s : String) : Option Op :=
  match s.splitOn ":" with
  | ["c"] => some .c
  | ["w", h] => (ofHex h).map .w
  | ["g", o, l] => match o.toNat?, l.toNat? with
    | some o, some l => some (.w (genBytes o l))
    | _, _ => none
  | _ => none

def parseOps (s : String) : Option (List Op) := (splitList s).mapM parseOp

def parseSink (s : String) : Wr :=
  match s.splitOn "/" with
  | [a, b] => { sink := (if a = "-" then [] else a.toList).map (· == '1'),
                part := (b.splitOn ".").filterMap String.toNat? }
  | _ => { sink := (if s = "-" then [] else s.toList).map (· == '1') }

def cls : Option Err → String
  | none => "ok"
  | some (.panic _) => "panic"
  | some e => showErr e

def showOut (b : Bytes) : String :=
  if b.length ≤ 2048 then toHex b else s!"#{b.length}:{toHex (RealPrims.hash b)}"

def dots (l : List Nat) : String := if l.isEmpty then "-" else ".".intercalate (l.map toString)

/-- run the calls on a machine given as its two transitions -/
def runOps {σ : Type} (write : σ → Bytes → Nat × Option Err × σ) (close : σ → Option Err × σ)
    (lenOf : σ → Nat) (ops : List Op) (s0 : σ) : σ × List String × List Nat :=
  ops.foldl (fun (acc : σ × List String × List Nat) op =>
    let (s, tr, ls) := acc
    match op with
    | .w p => let (n, e, s') := write s p; (s', tr ++ [s!"{n}:{cls e}"], ls ++ [lenOf s'])
    | .c => let (e, s') := close s; (s', tr ++ [s!"c:{cls e}"], ls ++ [lenOf s'])) (s0, [], [lenOf s0])

def answer (initOk : Bool) (tr : List String) (ls : List Nat) (w : Wr) : String :=
  s!"ok init={if initOk then "ok" else "io-error"} calls={if tr.isEmpty then "-" else ",".intercalate tr} lens={dots ls} tried={dots w.tried} out={showOut w.bytes}"

/-- a packet stream over the scripted writer -/
def runPacket (setup : Except Err (Bytes × Cfg)) (w0 : Wr) (ops : List Op) : String :=
  match setup with
  | .error e => s!"err {showErr e}"
  | .ok (hb, cfg) =>
    let (ok, st0) := PSt.init Wr.write cfg.pieces w0 hb
    if !ok then answer false [] [st0.codec.w.bytes.length] st0.codec.w
    else
      let (st, tr, ls) := runOps (PSt.write Wr.write cfg) (PSt.close Wr.write cfg) (fun s => s.codec.w.bytes.length) ops st0
      answer true tr ls st.codec.w

def runDetached (setup : Except Err (Bytes × (Bytes → Bytes))) (w0 : Wr) (ops : List Op) : String :=
  match setup with
  | .error e => s!"err {showErr e}"
  | .ok (hb, sigPkt) =>
    let (ok, st0) := DSt.init Wr.write codecPieces w0 hb
    if !ok then answer false [] [st0.codec.w.bytes.length] st0.codec.w
    else
      let (st, tr, ls) := runOps DSt.write (DSt.close Wr.write codecPieces sigPkt) (fun s => s.codec.w.bytes.length) ops st0
      answer true tr ls st.codec.w

/-- the armored composition: armor header first (`NewArmor62EncoderStream`), then the packet stream's constructor -/
def runPacketA (typ : Int) (brand : Bytes) (setup : Except Err (Bytes × Cfg)) (w0 : Wr) (ops : List Op) : String :=
  let (aok, a0) := FArm.init62 typ brand w0
  if !aok then answer false [] [a0.w.bytes.length] a0.w
  else match setup with
  | .error e => s!"ok init={showErr e} calls=- lens={a0.w.bytes.length} tried={dots a0.w.tried} out={showOut a0.w.bytes}"
  | .ok (hb, cfg) =>
    let (ok, st0) := PSt.init FArm.write cfg.pieces a0 hb
    if !ok then answer false [] [st0.codec.w.w.bytes.length] st0.codec.w.w
    else
      let (st, tr, ls) := runOps (PSt.write FArm.write cfg) (armoredClose cfg) (fun s => s.codec.w.w.bytes.length) ops st0
      answer true tr ls st.codec.w.w

def runDetachedA (typ : Int) (brand : Bytes) (setup : Except Err (Bytes × (Bytes → Bytes))) (w0 : Wr) (ops : List Op) : String :=
  let (aok, a0) := FArm.init62 typ brand w0
  if !aok then answer false [] [a0.w.bytes.length] a0.w
  else match setup with
  | .error e => s!"ok init={showErr e} calls=- lens={a0.w.bytes.length} tried={dots a0.w.tried} out={showOut a0.w.bytes}"
  | .ok (hb, sigPkt) =>
    let (ok, st0) := DSt.init FArm.write codecPieces a0 hb
    if !ok then answer false [] [st0.codec.w.w.bytes.length] st0.codec.w.w
    else
      let (st, tr, ls) := runOps DSt.write (armoredCloseD codecPieces sigPkt) (fun s => s.codec.w.w.bytes.length) ops st0
      answer true tr ls st.codec.w.w

/-- the bare armor encoder stream over the scripted writer, the caller carrying
    on after errors: per call `(n, class)` from `FArm.calls`, the bytes at the
    writer after every call from the same transitions one by one -/
def runBareArmor (typ : Int) (brand : Bytes) (w0 : Wr) (ops : List Op) : String :=
  let (aok, a0) := FArm.init62 typ brand w0
  if !aok then answer false [] [a0.w.bytes.length] a0.w
  else
    let err (ok : Bool) : Option Err := if ok then none else some .ioError
    let (_, _, ls) := runOps (fun s p => let r := FArm.writeN s p; (r.1, err r.2.1, r.2.2))
      (fun s => let r := FArm.close s; (err r.1, r.2)) (fun s => s.w.bytes.length) ops a0
    let (rs, a) := FArm.calls a0 (ops.map (fun o => match o with | .w p => some p | .c => none))
    let tr := (ops.zip rs).map (fun (o, r) => match o with
      | .w _ => s!"{r.1}:{cls (err r.2)}"
      | .c => s!"c:{cls (err r.2)}")
    answer true tr ls a.w

def handle (toks : List String) : Option String :=
  match toks with
  | ["st.sender", "armor", typ, brand, sink, ops] =>
    match typ.toInt?, ofHex brand, parseOps ops with
    | some typ, some brand, some ops => some (runBareArmor typ brand (parseSink sink) ops)
    | _, _, _ => some bad
  | ["st.sender", "enc.a", ma, sender, recips, eph, src, brand, sink, ops] =>
    match ma.toInt?, mkSender sender, mkRecips recips, mkEph eph, mkSource src, ofHex brand, parseOps ops with
    | some ma, some sender, some rs, some eph, some src, some brand, some ops =>
      some (runPacketA Encrypt.armorType brand (encryptSetupRand RealPrims blockSize codecPieces ⟨ma, 0⟩ sender rs eph src) (parseSink sink) ops)
    | _, _, _, _, _, _, _ => some bad
  | ["st.sender", "sig.a", ma, signer, src, brand, sink, ops] =>
    match ma.toInt?, ofHex signer, mkSource src, ofHex brand, parseOps ops with
    | some ma, some signer, some src, some brand, some ops =>
      some (runPacketA Sign.attachedArmorType brand (signSetupRand RealPrims sigBlockSize codecPieces ⟨ma, 0⟩ signer src) (parseSink sink) ops)
    | _, _, _, _, _ => some bad
  | ["st.sender", "sc.a", sender, boxes, syms, eph, src, brand, sink, ops] =>
    match mkSender sender, mkSRecips boxes, mkSRecips syms, mkEph eph, mkSource src, ofHex brand, parseOps ops with
    | some sender, some boxes, some syms, some eph, some src, some brand, some ops =>
      some (runPacketA Signcrypt.armorType brand (signcryptSetupRand RealPrims blockSize codecPieces sender boxes syms eph src) (parseSink sink) ops)
    | _, _, _, _, _, _, _ => some bad
  | ["st.sender", "det.a", ma, signer, src, brand, sink, ops] =>
    match ma.toInt?, ofHex signer, mkSource src, ofHex brand, parseOps ops with
    | some ma, some signer, some src, some brand, some ops =>
      some (runDetachedA Sign.detachedArmorType brand (detachedSetupRand RealPrims ⟨ma, 0⟩ signer src) (parseSink sink) ops)
    | _, _, _, _, _ => some bad
  | ["st.sender", "enc", ma, sender, recips, eph, src, sink, ops] =>
    match ma.toInt?, mkSender sender, mkRecips recips, mkEph eph, mkSource src, parseOps ops with
    | some ma, some sender, some rs, some eph, some src, some ops =>
      some (runPacket (encryptSetupRand RealPrims blockSize codecPieces ⟨ma, 0⟩ sender rs eph src) (parseSink sink) ops)
    | _, _, _, _, _, _ => some bad
  | ["st.sender", "sig", ma, signer, src, sink, ops] =>
    match ma.toInt?, ofHex signer, mkSource src, parseOps ops with
    | some ma, some signer, some src, some ops =>
      some (runPacket (signSetupRand RealPrims sigBlockSize codecPieces ⟨ma, 0⟩ signer src) (parseSink sink) ops)
    | _, _, _, _ => some bad
  | ["st.sender", "sc", sender, boxes, syms, eph, src, sink, ops] =>
    match mkSender sender, mkSRecips boxes, mkSRecips syms, mkEph eph, mkSource src, parseOps ops with
    | some sender, some boxes, some syms, some eph, some src, some ops =>
      some (runPacket (signcryptSetupRand RealPrims blockSize codecPieces sender boxes syms eph src) (parseSink sink) ops)
    | _, _, _, _, _, _ => some bad
  | ["st.sender", "det", ma, signer, src, sink, ops] =>
    match ma.toInt?, ofHex signer, mkSource src, parseOps ops with
    | some ma, some signer, some src, some ops =>
      some (runDetached (detachedSetupRand RealPrims ⟨ma, 0⟩ signer src) (parseSink sink) ops)
    | _, _, _, _ => some bad
  | _ => none

end DriverExtB
