/-
  spmodel — extension slot D of the line protocol: the bufio machine
  (Model/Bufio.lean), `ClassifyStream` on it, and the dispatcher
  (Model/Dispatch.lean).

  bf.trace <size> <ops> <script>      ops: `p<n>` Peek(n) / `r<cap>` Read(cap); per call `<hex>:<cond>`
  bf.classify <size> <cap> <script>   ClassifyStream on NewReaderSize(script, size), then drain with Read(cap)
  bf.dispatch <frag> <secrets> <ls> <lp> <ie> <lsig> <resolver> <bytes>
                                      ClassifyEncryptedStreamAndMakeDecoder on a reader delivering <bytes> (the
                                      implementation reads them in fragmentation <frag>; the model does not depend on it)
  bf.dispatchs <cap> <secrets> <ls> <lp> <ie> <lsig> <resolver> <script>   the same on the bufio machine over a script
  bf.dispatchb <size> <preops> <cap> <secrets> <ls> <lp> <ie> <lsig> <resolver> <script>
                                      the source handed to the dispatcher already IS a `bufio.NewReaderSize(script, size)`
                                      on which <preops> (as in bf.trace, or `-`) were called: `bufio.NewReader` returns it
                                      unchanged when size ≥ 4096
  script entries as in Driver/Streams: `<hex>` data, `<hex>!` data + I/O error, `<hex>$` data + EOF
-/
import Driver.Util
import Driver.Streams
import Saltpack.Model.Bufio
import Saltpack.Model.Dispatch

open Saltpack

namespace DriverExtD
open Driver Driver3 Stream Bufio

def showBErr : Option BErr → String
  | none => "nil"
  | some (.src e) => showRErr (some e)
  | some .bufferFull => "bufferfull"
  | some .noProgress => "noprogress"

def traceB : List String → BState → List String → List String
  | [], _, tr => tr.reverse
  | op :: ops, s, tr =>
    match (op.drop 1).toString.toNat? with
    | none => ["bad"]
    | some n =>
      if op.startsWith "p" then
        let (d, e, s1) := peek n s
        traceB ops s1 (s!"{toHex d}:{showBErr e}" :: tr)
      else if op.startsWith "r" then
        let (d, e, s1) := read n s
        traceB ops s1 (s!"{toHex d}:{showBErr e}" :: tr)
      else ["bad"]

/-- the state after a list of `p<n>` / `r<cap>` calls -/
def runOps : List String → BState → Option BState
  | [], s => some s
  | op :: ops, s =>
    match (op.drop 1).toString.toNat? with
    | none => none
    | some n =>
      if op.startsWith "p" then runOps ops (peek n s).2.2
      else if op.startsWith "r" then runOps ops (read n s).2.2
      else none

def showMV : MVerdict (Bool × Bytes × Int × Version) → String
  | .v (.ok (arm, br, t, v)) => s!"ok armored={arm} {toHex br} {t} {showVer v}"
  | .v .short => "short"
  | .v .eof => "eof"
  | .v .notSaltpack => "not"
  | .v (.unmodelled w) => s!"unmodelled {w.replace " " "_"}"
  | .fail e => s!"err:{showBErr (some e)}"

def scriptLen (src : Source) : Nat := (src.map (fun p => p.1.length + 2)).sum

def showResult (r : Dispatch.Result) : String :=
  let cls := s!"armored={r.armored} type={r.msgType} ver={showVer r.version}"
  match r.out with
  | .fail e => s!"fail {showErr e}"
  | .unmodelled w => s!"unmodelled {w.replace " " "_"}"
  | .armorFail _ => s!"armorfail {cls}"
  | .enc d =>
    let mki := match d.err, d.mki with
      | none, some m => showMKI m
      | _, _ => "-"
    s!"enc {cls} res {showOptErr d.err} rel={toHex d.released} calls={showCalls d.calls} {mki}"
  | .sc d =>
    let snd := match d.err with
      | none => (match d.sender with | some s => toHex s | none => "anon")
      | some _ => "-"
    s!"sc {cls} res {showOptErr d.err} rel={toHex d.released} calls={showCalls d.calls} sender={snd}"

def handle (toks : List String) : Option String :=
  match toks with
  | ["bf.dispatch", _frag, secrets, ls, lp, ie, lsig, resolver, msg] =>
    match hexList secrets, mkResolver resolver, ofHex msg with
    | some secrets, some res, some msg =>
      match mkKeyring secrets ls lp ie lsig with
      | none => none
      | some kr => some (showResult (Dispatch.dispatch RealPrims kr res msg))
    | _, _, _ => none
  | ["bf.dispatchs", cap, secrets, ls, lp, ie, lsig, resolver, script] =>
    match cap.toNat?, hexList secrets, mkResolver resolver, parseScript script with
    | some cap, some secrets, some res, some src =>
      match mkKeyring secrets ls lp ie lsig with
      | none => none
      | some kr => some (showResult (Dispatch.dispatchSrc RealPrims kr res cap (scriptLen src + 8) src))
    | _, _, _, _ => none
  | ["bf.dispatchb", size, preops, cap, secrets, ls, lp, ie, lsig, resolver, script] =>
    match size.toNat?, cap.toNat?, hexList secrets, mkResolver resolver, parseScript script with
    | some size, some cap, some secrets, some res, some src =>
      match mkKeyring secrets ls lp ie lsig with
      | none => none
      | some kr =>
        -- `source` already is a `*bufio.Reader` (size `size`, used before by `preops`):
        -- `bufio.NewReader(source)` is `source` itself when its buffer is ≥ 4096 bytes
        if max size minReadBufferSize < defaultBufSize then some "unmodelled bufio.Reader_smaller_than_4096_wrapped_again"
        else
          match runOps (if preops = "-" then [] else preops.splitOn ",") (newReaderSize src size) with
          | none => none
          | some s0 => some (showResult (Dispatch.dispatchM RealPrims kr res cap (scriptLen src + s0.buf.length + 8) s0))
    | _, _, _, _, _ => none
  | ["bf.trace", size, ops, script] =>
    match size.toNat?, parseScript script with
    | some size, some src =>
      some s!"ok {",".intercalate (traceB (ops.splitOn ",") (newReaderSize src size) [])}"
    | _, _ => none
  | ["bf.classify", size, cap, script] =>
    match size.toNat?, cap.toNat?, parseScript script with
    | some size, some cap, some src =>
      let (v, s1) := classifyStreamM (newReaderSize src size)
      let (rest, e, _) := drain cap (scriptLen src + s1.buf.length + 8) s1 []
      some s!"{showMV v} rest={toHex rest} end={showBErr e}"
    | _, _, _ => none
  | _ => none

end DriverExtD
