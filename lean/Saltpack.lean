import Saltpack.Model.Bytes
import Saltpack.Model.Basex
import Saltpack.Model.Rand
