#!/usr/bin/env python3
"""Regenerates MANIFEST.json from the table below (kept in one place so that it stays valid)."""
import json, subprocess

HOOK_COMMITS = subprocess.run(["git", "-C", "/repo", "log", "--format=%H", "--grep=^verif hooks"], capture_output=True, text=True).stdout.split()

CLAIMED = {
 "C10": dict(
   text="Machine-checked Lean 4 proof over an executable model of encoding/basex: exact block-wise base conversion, round trip for every byte string, canonicity/injectivity of strict decoding (foreign characters, non-minimal lengths and overflowing blocks rejected), skipping = strict on the filtered string; the float-computed length tables of the *running* code are regenerated on every run and checked by the kernel against exact integer arithmetic. The model is tied to /repo by a byte-exact differential over exhaustive small blocks, boundary values of every block length, mutated multi-block strings and the length helpers.",
   note="Trusted: Lean kernel (axioms propext, Classical.choice, Quot.sound), the extractor (tables obtained by running the code; block-periodicity of the helpers checked for 40 blocks), the correspondence harness; math/big and float helpers exercised not verified. Streaming encoder/decoder agreement is covered by correspondence only until the stream-layer theorems land (see C13).",
   technique="Lean 4 proof (induction over digit/chunk lists) + generated tables checked by decide + differential correspondence", design="§7 C10"),
 "C19": dict(
   text="Machine-checked Lean 4 proof: the bounded draw is exactly uniform (each result r<n is hit by exactly floor(2^32/n) consecutive accepted source words; rejected words redraw) and Fisher-Yates maps legal draw vectors bijectively onto arrangements, hence the header order is uniform and independent of the caller's order given a uniform source. Tied to rand.go by driving the exported csprngUint32n/csprngShuffle on boundary words of every acceptance threshold and on every draw vector for n<=5/6.",
   note="Trusted: Lean kernel, hook exports under the verif tag, correspondence harness, uniformity of crypto/rand. The hidden-identity half (field provenance) is stated over the sender model in Props/C19Fields once the encoder tie is in place.",
   technique="Lean 4 proof (interval counting, induction on Fisher-Yates) + differential correspondence on enumerated sources", design="§7 C19"),
 "C01": dict(
   text="Machine-checked Lean 4 proof over an executable model of encrypt.go/decrypt.go (generic in the primitives, which only need to be functionally lawful): for every plaintext, version, named/anonymous sender, recipient list with any visible/hidden pattern, chunk size and recipient position, the holder of that recipient's key opens the sender model's packets to exactly the plaintext with the true sender / anonymous flag, its own key and hidden flag; no-key keyrings get no-decryption-key and no bytes; chunking facts at every length; all-at-once = streaming by construction; MessagePack parse∘encode = id. Tied to /repo by a byte-exact differential of Seal (scripted crypto/rand, shuffles included) and an outcome/MKI/call-log differential of Open at every recipient position, plus the round-trip predicate evaluated on Open, NewDecryptStream (1-byte reads) and Dearmor62DecryptOpen.",
   note="Assumes Prims.Lawful, NoSpuriousOpen (explicit hypothesis), distinct recipient keys, non-empty visible key ids, named sender key != ephemeral key. Trusted: Lean kernel; Lean re-implementations of the primitives (driver only, 1261 vectors vs x/crypto); go-codec; correspondence harness. Armored form agreement is by the implementation-side predicate until C11's theorem composes.",
   technique="Lean 4 proof (round trip by induction over the chunk plan; dh commutativity) + byte-exact differential correspondence", design="§7 C01"),
 "C03": dict(
   text="Machine-checked Lean 4 proof over the model of signcrypt_seal.go/signcrypt_open.go: box-key recipients at every position (under NoIdentifierCollision) and symmetric-key recipients under any resolver that resolves a non-empty subset of identifiers to their true keys recover exactly the plaintext and the sender's signing key (none if anonymous); no key => no-decryption-key. Tied to /repo by byte-exact SigncryptSeal (scripted randomness) and outcome-exact SigncryptOpen for every position and recipient kind.",
   note="Assumes Prims.Lawful, NoIdentifierCollision, signing public key not all-zero. Trusted base as C01.",
   technique="Lean 4 proof + byte-exact differential correspondence", design="§7 C03"),
 "C05": dict(
   text="Machine-checked Lean 4 proof over the model of sign_stream.go/verify_stream.go/verify.go: for every message, version, chunk size, key and header nonce, a keyring knowing the signer verifies the attached-signature packets to exactly the message and the signer's key; unknown signer => no-sender-key and no bytes. Tied to /repo by byte-exact Sign (scripted randomness) and outcome-exact Verify, plus the predicate on Verify, NewVerifyStream (1-byte reads), Dearmor62Verify.",
   note="Assumes Prims.Lawful. Trusted base as C01.",
   technique="Lean 4 proof + byte-exact differential correspondence", design="§7 C05"),
 "C07": dict(
   text="Machine-checked Lean 4 proof: detached round trip; soundness (success only through a verified signature, under the key looked up for the header's signer, on exactly domain_detached || hash(hash(header bytes) || message), with format name, admitted version and detached mode checked); the three domain strings (generated from /repo) are pairwise non-prefix, so attached/signcryption signatures are signatures on different inputs. Tied to /repo by byte-exact SignDetached and outcome-exact VerifyDetached on every single-bit change of message and signature, every truncation, header edits, attached-as-detached and transplants.",
   note="Assumes Prims.Lawful for the round trip; soundness holds for every Prims. 'Signer really signed' is then C06's reduction (signature forgery / hash collision as explicit Break). Trusted base as C01; SHA-512 streaming = one-shot.",
   technique="Lean 4 proof (case analysis of the verifier; decide on generated domain strings) + differential correspondence", design="§7 C07"),
 "C02": dict(
   text="Machine-checked Lean 4 proof over the packet-level model of decrypt.go/chunk_reader.go, for ARBITRARY packet streams and keyrings: (A) released bytes are the in-order chunks of an accepted prefix of the packets; the run ends cleanly iff the packets are exactly one complete message (only the last final) and the input ends cleanly after it; all-at-once returns nothing otherwise; (B) an accepted packet binds MAC key, header hash, packet number (nonce), final flag and ciphertext (unique decomposition of the MACed string); (reduction) released bytes are the first m chunks of ONE honest message with this header hash, all iff clean, or nothing released and failure, or an explicit Break (MAC forgery under the receiver's MAC key / hash collision) - adversary may know the payload key. Tied to /repo by an outcome/released-bytes/call-log differential on ~2k (quick) tree-level, packet-level, byte-level mutations and co-recipient forgeries of multi-packet messages built by the Lean reference sender with small chunks, with go-codec's own decoding fed to the model wherever the model does not claim to know it; the authenticity predicate is evaluated on every implementation answer.",
   note="No security assumption: Break is a disjunct. Assumes Prims.Lawful; hkey (an honest message with this header hash used the payload key the receiver derived - C01 for the header, absent a header-hash collision). Attribution (sender key = content of the sender secretbox) is by correspondence + predicate, not yet a theorem. Trusted: Lean kernel, go-codec (decoded-packets route), harness.",
   technique="Lean 4 proof (induction over packet chains; injectivity of fixed-width concatenations; classical reduction to explicit Break events) + mutation differential correspondence", design="§7 C02, §4.3"),
 "C04": dict(
   text="As C02 for signcrypt_open.go: stream logic, binding of an accepted chunk to a verified Ed25519 signature over domain||header hash||nonce(final bit, chunk number)||final||SHA-512(chunk), empty chunks only as sole final chunk, and the reduction for named senders against adversaries who know the payload key (signature forgery / hash collision as explicit Break). Mutation differential includes insider forgeries that decrypt with the genuine payload key and re-encrypt modified plaintext, renumbered or re-flagged chunks with reused signatures.",
   note="Anonymous senders: integrity only against parties lacking the payload key (as the property states); covered by correspondence. Otherwise as C02.",
   technique="Lean 4 proof + mutation/forgery differential correspondence", design="§7 C04"),
 "C06": dict(
   text="As C02 for verify_stream.go/verify.go: stream logic; an accepted packet's signature verifies under the looked-up key on domain||SHA-512(header hash||seqno||[final]||chunk) (unique decomposition); other modes refused at the header; the reduction relative to all attached messages the key owner signed (signature forgery / hash collision as explicit Break).",
   note="As C02 (no payload-key hypothesis needed: chunks are in the clear). items.length < 2^64 (physical bound: the Go seqno is a uint64).",
   technique="Lean 4 proof + mutation differential correspondence", design="§7 C05/C06"),
 "C11": dict(
   text="Machine-checked Lean 4 proof over the model of armor.go/armor62.go/frame.go: frame shape; body = words of <=15 base62 characters with a newline exactly after every 200th; round trip of the sealed text for every payload, armorable type and alphanumeric brand <=128; tolerant dearmoring of every variant (arbitrary runs of space/tab/CR/LF/'>' between payload characters, between frame words and around the frames, trimmed frames <=512) to the identical payload and brand; rejection of other types, non-mirroring footers, over-long frames and brands. Tied to /repo by an exact differential of Armor62Seal, Armor62Open(WithValidation), MakeArmorHeader/Footer, parseFrame, CheckArmor62 on every payload length 0..N, exhaustive short strings over {'.',' ','0','z','!','>'}, malformed frames and random re-flows (~20k cases quick).",
   note="Interpretation: 'identical header and footer' is read modulo the white-space normalisation of the frame grammar (a re-flowed frame is returned as received, trimmed). The streaming decoder = this whole-text meaning is C13's concern. Trusted: Lean kernel, regexp/strings of the Go stdlib (re-implemented recognisers compared on enumerated/random strings), harness.",
   technique="Lean 4 proof (list surgery on periods/white space; BaseX round trip from C10; decide +kernel over the 256 byte values) + exhaustive/differential correspondence", design="§7 C11"),
 "C12": dict(
   text="Machine-checked Lean 4 proof over call logs the model returns next to every result (also on error paths): for ALL headers/packets/keyrings a decrypting receiver's long-term key opens boxes only under the V1 constant or saltpack_recipsb||be64(index) and otherwise boxes only 32 zero bytes; a signcryption opener only boxes 32 zero bytes under the fixed derived-key nonce; a sender's long-term box key only boxes 32 zero bytes; signing keys sign only domain string || fixed-length hash material (64 / 64+24+1+64 bytes). Tied to /repo by comparing the model's log entry by entry with what logging key objects record around Open/SigncryptOpen/Seal/Sign/SignDetached/SigncryptSeal on genuine, mutated and forged input, and by evaluating the property's predicate on the implementation's own logs.",
   note="Trusted: harness key objects (they log at the BoxSecretKey/BoxPrecomputedSharedKey/SigningSecretKey interfaces), Lean kernel, correspondence. Call-site inventory from source is not yet part of the obligations.",
   technique="Lean 4 proof (induction over the key-trial loops) + call-log differential correspondence", design="§7 C12"),
 "C15": dict(
   text="Machine-checked Lean 4 proof: every model receiver is a total function (termination checker; no partial defs) and, for ALL decoded headers/packets, ALL keyring/resolver functions (nil results, out-of-range indices) and any validator admitting only majors 1,2, no run ends in a panic (each explicit panic( and each index/nil dereference on attacker data is a model branch); the validator contract is shown necessary; frame collection is bounded by 8192. Tied to /repo by ~8k (quick) hostile cases: tree/packet/byte mutations of every mode x nine hostile keyring behaviours x resolver behaviours, random and length-bomb byte strings, each compared with the model (panic = disagreement) and checked for panics on the implementation.",
   note="Partial by nature: 'never allocates memory driven by length fields' and hangs inside go-codec/runtime are not expressible in the model; the harness only observes that every case returns. Armor/classify entry points are covered by C11/C16 streams.",
   technique="Lean 4 proof (no-panic by case analysis over every panic site; totality by construction) + hostile-input differential correspondence", design="§7 C15"),
 "C17": dict(
   text="Machine-checked Lean 4 proof: each receiving model entry point releases or accepts anything only if the header names 'saltpack', carries an admitted version (major 2 for signcryption) and the mode it serves; mode numbers and signature domain strings (generated from /repo) are pairwise distinct / non-prefix, so one header can never serve two entry points; senders refuse every version other than 1.0/2.0 with an error before drawing randomness or writing, and label what they emit with the requested version and their own mode. Tied to /repo by every (producing mode/version, consuming entry point, validator) triple, every Version value to every sender, header edits, and fully consistent messages from the independent reference sender that name another format / major / mode (must be refused).",
   note="Cross-mode acceptance with recomputed hashes reduces to C02/C04/C06's Break. Trusted as C02.",
   technique="Lean 4 proof (case analysis of validate/processHeader; decide on generated constants) + cross-feed differential correspondence", design="§7 C17"),
 "C18": dict(
   text="Machine-checked Lean 4 proof over the randomness-script model: a full read returns exactly the bytes the source delivered and leaves a suffix (consecutive operations use disjoint consecutive segments); Seal's shuffle draws, ephemeral key and payload key, and a signature's header nonce, are exactly those reads in that order; an error or short read before the requested count fails the read and Seal returns an error; chunk, signcryption, payload-key-box and MAC-key-box nonces are injective in their counters below the overflow guard, the sender-secretbox nonce differs from every chunk nonce, and the encoder refuses packet numbers at the guard. Tied to /repo by byte-exact sealing/signing under scripted crypto/rand (pins the draw order), a fault (error / short+error / exhausted) at every read of every sealing/signing entry point, and repeated identical calls with the real source.",
   note="The source itself (uniform, non-repeating) is trusted. For armored streams the armor header sentence is written before randomness is drawn (observed, harmless).",
   technique="Lean 4 proof (structural induction over the read script; injectivity of counters) + fault-injection differential correspondence", design="§7 C18"),
 "C09": dict(
   text="Machine-checked Lean 4 proof: the code-model receivers accept ANY valid chunk plan (any cut of the plaintext, final marker on the last chunk; V1 empty terminator; V2 no empty chunk except the empty message) for encryption (every recipient position), attached signatures (also any minor version) and signcryption, returning the concatenation of the chunks and the right attribution; the shipped validator ignores the minor version; the typed views ignore extra trailing elements in version pairs, headers, recipient pairs and payload packets of every mode/version. Tied to /repo by an independent reference sender written in Lean from specs/*.md with its own constants (Model/Spec.lean): random chunkings incl. all-1-byte chunks, unknown minors, 0-3 extras at each of the three places, all four modes, every opener kind - its messages are fed to Open/Verify/VerifyDetached/SigncryptOpen and must be accepted with the same plaintext and attribution (and the code model must agree).",
   note="The link 'reference sender output = sealPacketsPlan + extras' is by correspondence (both are run), not a theorem. Assumes Prims.Lawful, NoSpuriousOpen, NoIdentifierCollision as C01/C03.",
   technique="Lean 4 proof (round trips generalised to arbitrary valid chunk plans; view lemmas) + independent reference encoder differential", design="§7 C09"),
 "C13": dict(
   text="Machine-checked Lean 4 proof for the write side and the chunk reader: the plaintext bufferer shared by NewEncryptStream/NewSignStream/NewSigncryptSealStream yields, for EVERY split of the plaintext over Write calls (empty writes included), exactly the all-at-once chunk plan, buffers at most one block after each Write and conserves bytes; the BaseX encoder stream equals the one-shot encoding for every split and holds back less than one block; the chunk reader delivers the pending bytes exactly once, in order, never more than the caller's buffer, and reports its terminal condition only at the end and then again; the source model never loses or reorders bytes. The armor READER stack (punctuatedReader, framedDecoderStream, filteringReader, BaseX decoder) is modelled call by call and compared with the implementation per Read under 8 fragmentations (1-byte, halving, random, one-shot, 4095, each also with data-with-EOF) x 10 buffer-size schedules on genuine, re-flowed and malformed texts; whole entry points of every mode are run under fragmenting readers against the fragmentation-free model, and the property's predicate (same outcome, same bytes, prefix-comparable on failure) is evaluated across each group.",
   note="PARTIAL: no machine-checked layer theorem yet for the armor reader stack (correspondence only there; its whole-text meaning is Armor.openPure, C11); go-codec's reading of an io.Reader is differential only; resident memory/GC is not modelled (the bound is on buffered bytes). This correspondence found and led to the repair of defect D11 (filteringReader dropped an error delivered with whitespace-only data).",
   technique="Lean 4 proof (fold invariants over Write/Read sequences) + per-call state-machine differential correspondence under fragmentation schedules", design="§7 C13"),
 "C14": dict(
   text="Machine-checked Lean 4 proof: the BaseX encoder stream (the layer every armored encoder writes through) is sticky and reporting - after a failed underlying write every later Write and Close fail, and a Close that reports success after successful Writes has seen no failed write; the BaseX decoder's and the chunk reader's error conditions are sticky; the punctuated reader hands on an error that arrives alone and remembers one that arrives with data. Every other path is covered by fault injection at EVERY k-th underlying Write of 11 encoder stream kinds (binary and armored, all modes; transient and sticky) and at every k-th Read of the armor reader stack (alone/with data/with whitespace-only data; transient/sticky) per call against the model, plus whole decoding entry points over faulting readers, with the property's predicate (an error is reported; released bytes stay a plaintext prefix) on the implementation.",
   note="PARTIAL: go-codec's Encode/Decode error propagation and the armor spacer's write path are validated by exhaustive-k fault injection, not proved.",
   technique="Lean 4 proof (sticky-error invariants) + every-k fault-injection differential correspondence", design="§7 C14"),
 "C20": dict(
   text="Machine-checked Lean 4: (1) the effect summary regenerated from /repo by go/ssa on every run - stores, map updates and receiver-mutating math/big calls whose target is rooted in a package-level variable or a *basex.Encoding, outside init/NewEncoding - is EMPTY and the package-level variables are only error values, the shipped encodings, the armor parameters and frame-checker function values (kernel-checked decide on the generated lists); (2) in any machine whose steps cannot write the shared state, every schedule gives each thread the state of its solo run. Validation: a mixed workload of all API families (BaseX, armor, classify, all decoders on genuine and mutated input, per-call stream reads, real-randomness round trips on shared basic keys) run in 8-24 goroutines x GOMAXPROCS {1,2,4,N} with every result compared to the solo result and to the model; thorough tier under the race detector.",
   note="PARTIAL by nature: soundness of the static write-set extraction (aliasing through interfaces, stdlib internals) and the Go memory model are outside the model; the race-detector run is supporting evidence, not a proof.",
   technique="generated effect summary checked in Lean (decide) + Lean 4 proof of schedule independence under the frame condition + concurrent differential workload (race detector in thorough)", design="§7 C20"),
}

ALL = ["C%02d" % i for i in range(1, 21)]
m = {
 "version": 1,
 "setup_cmd": "cd /verif && ./check --setup",
 "hooks": {
   "guard": "verif",
   "enable": "go build -tags verif (harness module with `replace github.com/keybase/saltpack => /repo`)",
   "baseline_off_cmd": "cd /repo && GOFLAGS=-mod=mod GOPROXY=off GOSUMDB=off go test -vet=off -count=1 -json ./...",
   "source_commits": HOOK_COMMITS,
   "add_only": True,
 },
 "engines": [
   {"name": "lean-model", "path": "lean/", "serves_properties": sorted(CLAIMED), "kind_free_text": "Lean 4 executable model of keybase/saltpack + property theorems (lake project, core Lean; no Mathlib needed so far)"},
   {"name": "extract", "path": "harness/cmd/extract", "serves_properties": sorted(CLAIMED), "kind_free_text": "Go extractor: regenerates lean/Saltpack/Gen/*.lean (constants, BaseX tables by running the code, inventories) from /repo's working tree on every run"},
   {"name": "corr", "path": "harness/cmd/corr", "serves_properties": sorted(CLAIMED), "kind_free_text": "correspondence check: real code (-tags verif) vs compiled Lean model on seeded inputs through a line protocol; property predicates on the implementation; verdict + evidence"},
 ],
 "checks": [],
 "notes": "Every check: ./check <id> <tier>; VERIF_SEED selects the seed. See DESIGN.md.",
 "not_applicable": [],
}
for p in ALL:
    if p in CLAIMED:
        c = CLAIMED[p]
        m["checks"].append({
          "property_id": p,
          "quick_cmd": "./check %s quick" % p,
          "thorough_cmd": "./check %s thorough" % p,
          "evidence_file": "/verif/evidence/%s.json" % p,
          "replay_cmd_template": "./check %s --replay {path}" % p,
          "engine": "lean-model",
          "level_claimed": {"category": "proof", "text": c["text"], "design_ref": c["design"]},
          "level_note": c["note"],
          "technique": c["technique"],
        })
    else:
        m["not_applicable"].append({"property_id": p, "reason": "not claimed yet: model/theorems/correspondence for this property are still being built (DESIGN.md §11 build order); Lean proof is applicable"})
json.dump(m, open("/verif/MANIFEST.json", "w"), indent=1)
print("claimed", sorted(CLAIMED))
