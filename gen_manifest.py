#!/usr/bin/env python3
"""Regenerates MANIFEST.json from the table below (kept in one place so that it stays valid)."""
import json, subprocess

HOOK_COMMITS = subprocess.run(["git", "-C", "/repo", "log", "--format=%H", "--grep=^verif hooks"], capture_output=True, text=True).stdout.split()

CLAIMED = {
 "C10": dict(
   text="Machine-checked Lean 4 proof over an executable model of encoding/basex: exact block-wise base conversion, round trip for every byte string, canonicity/injectivity of strict decoding (foreign characters, non-minimal lengths and overflowing blocks rejected), skipping = strict on the filtered string; the float-computed length tables of the *running* code are regenerated on every run and checked by the kernel against exact integer arithmetic. The model is tied to /repo by a byte-exact differential over exhaustive small blocks, boundary values of every block length, mutated multi-block strings and the length helpers.",
   note="Trusted: Lean kernel (axioms propext, Classical.choice, Quot.sound), the extractor (tables obtained by running the code; block-periodicity of the helpers checked for 40 blocks), the correspondence harness; math/big and float helpers exercised not verified. Streaming encoder/decoder agreement is covered by correspondence only until the stream-layer theorems land (see C13).",
   technique="Lean 4 proof (induction over digit/chunk lists) + generated tables checked by decide + differential correspondence", design="§7 C10"),
 "C19": dict(
   text="Machine-checked Lean 4 proof: the bounded draw is exactly uniform (each result r<n is hit by exactly floor(2^32/n) consecutive accepted source words; rejected words redraw) and Fisher-Yates maps legal draw vectors bijectively onto arrangements, hence the header order is uniform and independent of the caller's order given a uniform source. Tied to rand.go by driving the exported csprngUint32n/csprngShuffle on boundary words of every acceptance threshold and on every draw vector for n<=5/6.",
   note="Trusted: Lean kernel, hook exports under the verif tag, correspondence harness, uniformity of crypto/rand. The hidden-identity half (field provenance) is stated over the sender model in Props/C19Fields once the encoder tie is in place.",
   technique="Lean 4 proof (interval counting, induction on Fisher-Yates) + differential correspondence on enumerated sources", design="§7 C19"),
}

ALL = ["C%02d" % i for i in range(1, 21)]
m = {
 "version": 1,
 "setup_cmd": "cd /verif && ./check --setup",
 "hooks": {
   "guard": "verif",
   "enable": "go build -tags verif (harness module with `replace github.com/keybase/saltpack => /repo`)",
   "baseline_off_cmd": "cd /repo && GOFLAGS=-mod=mod GOPROXY=off GOSUMDB=off go test -vet=off -count=1 -json ./...",
   "source_commits": HOOK_COMMITS,
   "add_only": True,
 },
 "engines": [
   {"name": "lean-model", "path": "lean/", "serves_properties": sorted(CLAIMED), "kind_free_text": "Lean 4 executable model of keybase/saltpack + property theorems (lake project, core Lean; no Mathlib needed so far)"},
   {"name": "extract", "path": "harness/cmd/extract", "serves_properties": sorted(CLAIMED), "kind_free_text": "Go extractor: regenerates lean/Saltpack/Gen/*.lean (constants, BaseX tables by running the code, inventories) from /repo's working tree on every run"},
   {"name": "corr", "path": "harness/cmd/corr", "serves_properties": sorted(CLAIMED), "kind_free_text": "correspondence check: real code (-tags verif) vs compiled Lean model on seeded inputs through a line protocol; property predicates on the implementation; verdict + evidence"},
 ],
 "checks": [],
 "notes": "Every check: ./check <id> <tier>; VERIF_SEED selects the seed. See DESIGN.md.",
 "not_applicable": [],
}
for p in ALL:
    if p in CLAIMED:
        c = CLAIMED[p]
        m["checks"].append({
          "property_id": p,
          "quick_cmd": "./check %s quick" % p,
          "thorough_cmd": "./check %s thorough" % p,
          "evidence_file": "/verif/evidence/%s.json" % p,
          "replay_cmd_template": "./check %s --replay {path}" % p,
          "engine": "lean-model",
          "level_claimed": {"category": "proof", "text": c["text"], "design_ref": c["design"]},
          "level_note": c["note"],
          "technique": c["technique"],
        })
    else:
        m["not_applicable"].append({"property_id": p, "reason": "not claimed yet: model/theorems/correspondence for this property are still being built (DESIGN.md §11 build order); Lean proof is applicable"})
json.dump(m, open("/verif/MANIFEST.json", "w"), indent=1)
print("claimed", sorted(CLAIMED))
