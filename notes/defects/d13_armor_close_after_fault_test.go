package saltpack

// Demonstration of defect D13 (property C14): copy next to the package sources and run
//   go test -run TestD13ArmorCloseAfterTransientFault .
// Before fix "armor encoder stream remembers a failed write" it fails: Close reports success although
// a separator (or a whole 15-character word) never reached the writer.

import (
	"bytes"
	"errors"
	"testing"
)

type d13Writer struct {
	n, failAt int
	data      bytes.Buffer
}

func (w *d13Writer) Write(p []byte) (int, error) {
	k := w.n
	w.n++
	if k == w.failAt {
		return 0, errors.New("transient write error")
	}
	return w.data.Write(p)
}

func TestD13ArmorCloseAfterTransientFault(t *testing.T) {
	payload := bytes.Repeat([]byte{0xa7, 0x13, 0x5c}, 400)
	want, err := Armor62Seal(payload, MessageTypeEncryption, "")
	if err != nil {
		t.Fatal(err)
	}
	for failAt := 1; failAt < 40; failAt++ {
		w := &d13Writer{failAt: failAt}
		s, err := NewArmor62EncoderStream(w, MessageTypeEncryption, "")
		if err != nil {
			t.Fatal(err)
		}
		sawErr := false
		for off := 0; off < len(payload); off += 100 {
			if _, err := s.Write(payload[off : off+100]); err != nil {
				sawErr = true
			}
		}
		cerr := s.Close()
		if cerr == nil && w.data.String() != want {
			t.Errorf("underlying write %d failed once (a Write reported it: %v); Close then reported success, but %d of %d bytes reached the writer", failAt, sawErr, w.data.Len(), len(want))
		}
	}
}
