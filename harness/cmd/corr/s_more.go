package main

// C12 (call logs), C15 (hostile input / keyrings), C17 (gating), C18 (randomness).

import (
	"bytes"
	"fmt"
	"strings"

	"github.com/keybase/saltpack"
	"verifharness/internal/keys"
	"verifharness/internal/prng"
)

// ---------------------------------------------------------------------------
// C12

// callPredicate: the property's own predicate on a call log of the implementation.
func callPredicate(out string, sender bool) string {
	calls := ""
	for _, f := range strings.Fields(out) {
		if strings.HasPrefix(f, "calls=") {
			calls = f[6:]
		}
	}
	if strings.HasPrefix(out, "ok ") {
		calls = strings.Fields(out)[1]
	}
	if calls == "-" || calls == "" {
		return ""
	}
	zero32 := strings.Repeat("00", 32)
	for _, c := range strings.Split(calls, ",") {
		p := strings.Split(c, ":")
		switch p[0] {
		case "unbox", "sunbox":
			n := unhex(p[1])
			ok := string(n) == "saltpack_payload_key_box" || (len(n) == 24 && string(n[:16]) == "saltpack_recipsb")
			if !ok {
				return fmt.Sprintf("a long-term box key was asked to open a box under nonce %x (not a saltpack payload-key nonce)", n)
			}
		case "box", "sbox":
			if p[2] != zero32 {
				return fmt.Sprintf("a long-term box key was asked to box %s (not 32 zero bytes)", trunc(p[2], 80))
			}
		case "sign":
			m := unhex(p[1])
			okp := false
			for _, d := range []string{"saltpack attached signature\x00", "saltpack detached signature\x00", "saltpack encrypted signature\x00"} {
				if bytes.HasPrefix(m, []byte(d)) {
					rest := len(m) - len(d)
					if rest == 64 || rest == 64+24+1+64 {
						okp = true
					}
				}
			}
			if !okp {
				return fmt.Sprintf("a signing key was asked to sign %x (no saltpack domain string + fixed-length hash material)", m)
			}
		case "precompute":
		default:
			return "unknown call " + c
		}
	}
	return ""
}

func genCalls(ctx *Ctx, emit func(Case)) {
	r := ctx.R.Fork()
	// receivers: genuine + mutated + forged input, every mode (the streams of C02/C04 carry the logs)
	wrap := func(c Case) {
		old := c.Direct
		out := c.GoOut
		c.Direct = func() string {
			if f := callPredicate(out, false); f != "" {
				return f + " — request " + trunc(c.Line, 500)
			}
			_ = old
			return ""
		}
		emit(c)
	}
	for _, f := range encFamilies(ctx, r, ctx.N(4, 24)) {
		genuineCases("calls.enc.genuine", f, "reference-sender", wrap)
		mutationCases(ctx, "calls.enc.mutated", f, allMutations(ctx, r, f, false), wrap)
	}
	for _, f := range scFamilies(ctx, r, ctx.N(3, 16)) {
		genuineCases("calls.sc.genuine", f, "reference-sender", wrap)
		mutationCases(ctx, "calls.sc.mutated", f, allMutations(ctx, r, f, false), wrap)
	}
	// hidden recipients with several keys in the ring: trial decryption logs
	for k := 0; k < ctx.N(10, 60); k++ {
		nr := 2 + r.Intn(3)
		hidden := make([]bool, nr)
		for i := range hidden {
			hidden[i] = r.Intn(2) == 0
		}
		pos := r.Intn(nr)
		f, secs := buildEncFamily(r, encFamilyCfg{major: 1 + k%2, nRecips: nr, openerPos: pos, hidden: hidden, bs: 16, ptLens: []int{5}})
		ring := stdRing(r.Bytes(32), secs[pos], r.Bytes(32))
		line := encOpenLine("known", ring, f.msgs[0].msg)
		out := goExec(line)
		wrap(Case{Stream: "calls.enc.multikey", Line: line, GoOut: out, Cmp: resCmp, Fallback: fallbackFor(line), Branch: fmt.Sprintf("hidden=%v/%s", hidden[pos], resClass(out))})
	}
	// senders
	for k := 0; k < ctx.N(20, 150); k++ {
		c := randEncConfig(r, 1)
		snd := "anon"
		if c.sender != nil {
			snd = keys.Hex(c.sender)
		}
		t := strings.Fields(c.line())
		line := fmt.Sprintf("enc.sendercalls %s %s %s %s %s %s", t[1], t[2], snd, t[4], t[5], t[6])
		out := goExec(line)
		wrap(Case{Stream: "calls.enc.sender", Line: line, GoOut: out, Branch: fmt.Sprintf("v%s/anon=%v", t[1], c.sender == nil),
			Sample: map[string]interface{}{"op": "Seal (sender key calls)", "calls": trunc(out, 200)}})
	}
	for k := 0; k < ctx.N(12, 60); k++ {
		major := 1 + k%2
		n := smallLen(r)
		if k == 0 {
			n = mib + 1
		}
		if k == 2 || k == 3 {
			n = 0
		}
		signer, msg := r.Bytes(32), r.Bytes(n)
		// how the plaintext reaches the signer: all-at-once, or the streaming
		// entry point with some Write split (incl. "closed without any Write")
		how := prng.Pick(r, "", "", " w=-1", " w=0", " w=1", " w=3.0.7", fmt.Sprintf(" w=%d", r.Intn(n+1)))
		if k == 2 || k == 3 {
			how = " w=-1"
		}
		// bound to fresh randomness: the same request under another header nonce
		// must present the key with different inputs
		fresh := func(c Case, other string) Case {
			o1 := c.GoOut
			l1 := c.Line
			c.Predicate = func() string { return freshPredicate(l1, o1, other) }
			prev := c.Direct
			c.Direct = func() string {
				if prev != nil {
					if f := prev(); f != "" {
						return f
					}
				}
				return freshPredicate(l1, o1, other)
			}
			return c
		}
		wrapFresh := func(c Case, other string) {
			wrap(c)
			c2 := fresh(Case{Stream: c.Stream + ".fresh", Line: c.Line, GoOut: c.GoOut, Branch: c.Branch}, other)
			emit(c2)
		}
		line := fmt.Sprintf("sig.signcalls %d 0 %s %s %d %s%s", major, keys.Hex(signer), randSigScript(r, -1, 0).Spec(), mib, keys.Hex(msg), how)
		out := goExec(line)
		wrapFresh(Case{Stream: "calls.sig.attached", Line: line, GoOut: out, Branch: fmt.Sprintf("v%d/%s/%s", major, sizeClass(n), howClass(how))},
			fmt.Sprintf("sig.signcalls %d 0 %s %s %d %s%s", major, keys.Hex(signer), randSigScript(r, -1, 0).Spec(), mib, keys.Hex(msg), how))
		line = fmt.Sprintf("sig.detcalls %d 0 %s %s %s%s", major, keys.Hex(signer), randSigScript(r, -1, 0).Spec(), keys.Hex(msg), how)
		out = goExec(line)
		wrapFresh(Case{Stream: "calls.sig.detached", Line: line, GoOut: out, Branch: fmt.Sprintf("v%d/%s/%s", major, sizeClass(n), howClass(how))},
			fmt.Sprintf("sig.detcalls %d 0 %s %s %s%s", major, keys.Hex(signer), randSigScript(r, -1, 0).Spec(), keys.Hex(msg), how))
		rec := "b:" + keys.Hex(boxPub(r.Bytes(32)))
		if r.Bool() {
			rec = "s:" + keys.Hex(r.Bytes(32)) + ":" + keys.Hex(r.Bytes(32))
		}
		snd := keys.Hex(signer)
		if r.Intn(4) == 0 {
			snd = "anon"
		}
		line = fmt.Sprintf("sc.signcalls %s %s %s %s %d %s%s", snd, rec, keys.Hex(r.Bytes(32)), keys.Hex(r.Bytes(32)), mib, keys.Hex(msg), how)
		out = goExec(line)
		wrap(Case{Stream: "calls.sc.sender", Line: line, GoOut: out, Branch: fmt.Sprintf("anon=%v/%s/%s", snd == "anon", sizeClass(n), howClass(how))})
	}
}

// ---------------------------------------------------------------------------
// C15

var hostileRings = []struct{ ls, lp, ie, lsig string }{
	{"std", "std", "std", "std"},
	{"none", "std", "std", "std"},
	{"std", "nil", "std", "nil"},
	{"std", "std", "nil", "std"},
	{"std", "std", "len32", "std"},
	{"fix:0:SEC", "std", "std", "std"},
	{"fix:7:SEC", "std", "std", "std"},
	{"fix:-1:SEC", "std", "std", "std"},
	{"fix:-5:SEC", "nil", "len32", "nil"},
}

func noPanicPredicate(line, out string) string {
	if strings.Contains(out, "panic") {
		return fmt.Sprintf("a receiver PANICS on hostile input: %s -> %s", trunc(line, 1200), trunc(out, 200))
	}
	return ""
}

func genHostile(ctx *Ctx, emit func(Case)) {
	r := ctx.R.Fork()
	emitH := func(c Case) {
		line, out := c.Line, c.GoOut
		c.Direct = func() string { return noPanicPredicate(line, out) }
		emit(c)
	}
	variants := func(f *family, secretsHex string, build func(ringSpec string) func(msg []byte) string, stream string, exhaustive bool) {
		muts := allMutations(ctx, r, f, exhaustive)
		for hi, h := range hostileRings {
			spec := fmt.Sprintf("%s %s %s %s %s", secretsHex, strings.ReplaceAll(h.ls, "SEC", keys.Hex(r.Bytes(32))), h.lp, h.ie, h.lsig)
			f2 := *f
			f2.openLine = build(spec)
			ms := muts
			if hi > 0 && ctx.Quick { // quick: the full mutation set under the faithful ring, a sample under the hostile ones
				ms = nil
				for i := hi; i < len(muts); i += 6 {
					ms = append(ms, muts[i])
				}
			}
			for _, g := range f2.msgs {
				ms = append(ms, mutation{"genuine", g.msg})
			}
			for _, m := range ms {
				line := f2.openLine(m.msg)
				out := goExec(line)
				emitH(Case{Stream: stream, Line: line, GoOut: out, Cmp: resCmp, Fallback: fallbackFor(line),
					Branch: fmt.Sprintf("ring%d/%s/%s", hi, strings.SplitN(m.label, ".", 2)[0], resClass(out)),
					Sample: map[string]interface{}{"mode": f.mode, "mutation": m.label, "keyring": fmt.Sprintf("%v", h), "outcome": resClass(out)}})
			}
		}
	}
	for i := 0; i < ctx.N(3, 16); i++ {
		nr := prng.Pick(r, 1, 2, 3)
		pos := r.Intn(nr)
		f, secs := buildEncFamily(r, encFamilyCfg{major: 1 + i%2, anon: r.Intn(3) == 0, nRecips: nr, openerPos: pos, hidden: randHidden(r, nr), bs: prng.Pick(r, 4, 32), ptLens: []int{prng.Pick(r, 0, 9), 20}})
		variants(f, keys.Hex(secs[pos]), func(spec string) func([]byte) string {
			return func(msg []byte) string { return fmt.Sprintf("enc.open known %s %s", spec, keys.Hex(msg)) }
		}, "hostile.enc", !ctx.Quick && i == 0)
	}
	for i := 0; i < ctx.N(3, 16); i++ {
		kinds := prng.Pick(r, "b", "bs", "sb", "bbs")
		pos := strings.IndexByte(kinds, 'b')
		signer := r.Bytes(32)
		_ = signer
		// rebuild a signcryption family whose opener is a box recipient, keeping its secret
		sec := r.Bytes(32)
		rs := []string{}
		for j, c := range kinds {
			if j == pos {
				rs = append(rs, "b:"+keys.Hex(boxPub(sec)))
			} else if c == 'b' {
				rs = append(rs, "b:"+keys.Hex(boxPub(r.Bytes(32))))
			} else {
				rs = append(rs, "s:"+keys.Hex(r.Bytes(32))+":"+keys.Hex(r.Bytes(32)))
			}
		}
		f := &family{mode: "sc", major: 2, named: true, sender: keys.Hex(sigPub(signer))}
		for _, pl := range []int{prng.Pick(r, 0, 7), 25} {
			eph, pk, pt := r.Bytes(32), r.Bytes(32), r.Bytes(pl)
			line := fmt.Sprintf("sc.sealwith %s %s %s %s %d %s", keys.Hex(signer), strings.Join(rs, ","), keys.Hex(eph), keys.Hex(pk), prng.Pick(r, 5, 40), keys.Hex(pt))
			f.msgs = append(f.msgs, &genuineMsg{msg: mustOK(askGen(line), line), pt: pt, payloadKey: pk})
		}
		for _, res := range []string{"none", "err", "short", "map:-"} {
			res := res
			variants(f, keys.Hex(sec), func(spec string) func([]byte) string {
				return func(msg []byte) string { return fmt.Sprintf("sc.open %s %s %s", spec, res, keys.Hex(msg)) }
			}, "hostile.sc", false)
			if ctx.Quick {
				break
			}
		}
	}
	for i := 0; i < ctx.N(3, 16); i++ {
		f := buildSigFamily(r, 1+i%2, 0, prng.Pick(r, 3, 30), []int{prng.Pick(r, 0, 8), 17}, "")
		for _, lsig := range []string{"std", "nil"} {
			f2 := *f
			lsig := lsig
			f2.openLine = func(msg []byte) string { return fmt.Sprintf("sig.verify known %s %s", lsig, keys.Hex(msg)) }
			for _, m := range allMutations(ctx, r, &f2, false) {
				line := f2.openLine(m.msg)
				out := goExec(line)
				emitH(Case{Stream: "hostile.sig", Line: line, GoOut: out, Cmp: resCmp, Fallback: fallbackFor(line), Branch: fmt.Sprintf("lsig=%s/%s/%s", lsig, strings.SplitN(m.label, ".", 2)[0], resClass(out))})
				// the same bytes as a detached signature
				l2 := fmt.Sprintf("sig.verifydetached known %s %s %s", lsig, keys.Hex(m.msg), keys.Hex([]byte("msg")))
				o2 := goExec(l2)
				emitH(Case{Stream: "hostile.det", Line: l2, GoOut: o2, Cmp: resCmp, Fallback: fallbackFor(l2), Branch: fmt.Sprintf("lsig=%s/%s", lsig, resClass(o2))})
			}
		}
	}
	// random and near-random byte strings to every entry point
	for k := 0; k < ctx.N(200, 3000); k++ {
		var b []byte
		switch r.Intn(4) {
		case 0:
			b = r.Bytes(r.Intn(60))
		case 1: // plausible prefix then noise
			b = append([]byte{0xc4, byte(r.Intn(64))}, r.Bytes(r.Intn(80))...)
		case 2: // huge declared lengths with little data
			b = append([]byte{prng.Pick(r, byte(0xc6), byte(0xdd), byte(0xdb), byte(0xdf), byte(0xc9)), 0xff, 0xff, 0xff, prng.Pick(r, byte(0xff), byte(0x10))}, r.Bytes(r.Intn(20))...)
		default: // header packet with a huge array inside
			b = mpEncode(mvBinOf(append([]byte{0xdd, 0x7f, 0xff, 0xff, 0xff}, r.Bytes(r.Intn(30))...)))
		}
		ring := stdRing(r.Bytes(32))
		for _, line := range []string{
			encOpenLine("known", ring, b),
			fmt.Sprintf("sc.open %s none %s", ring.Spec(), keys.Hex(b)),
			fmt.Sprintf("sig.verify known std %s", keys.Hex(b)),
			fmt.Sprintf("sig.verifydetached known std %s %s", keys.Hex(b), keys.Hex([]byte("m"))),
		} {
			out := goExec(line)
			emitH(Case{Stream: "hostile.random", Line: line, GoOut: out, Cmp: resCmp, Fallback: fallbackFor(line), Branch: strings.Fields(line)[0] + "/" + resClass(out), Trivial: len(b) < 2})
		}
	}
}

// ---------------------------------------------------------------------------
// C17

func genGating(ctx *Ctx, emit func(Case)) {
	r := ctx.R.Fork()
	// every producing mode/version fed to every consuming entry point under every validator
	type produced struct {
		mode  string
		major int
		msg   []byte
		pt    []byte
	}
	var ps []produced
	sec := r.Bytes(32)
	sig := r.Bytes(32)
	for major := 1; major <= 2; major++ {
		f, _ := buildEncFamily(r, encFamilyCfg{major: major, nRecips: 1, openerPos: 0, hidden: []bool{false}, bs: 8, ptLens: []int{11}})
		_ = f
		// encryption to `sec`
		pt := r.Bytes(11)
		l := fmt.Sprintf("enc.sealwith %d 0 %s %s:v %s %s 8 %s", major, keys.Hex(r.Bytes(32)), keys.Hex(boxPub(sec)), keys.Hex(r.Bytes(32)), keys.Hex(r.Bytes(32)), keys.Hex(pt))
		ps = append(ps, produced{"enc", major, mustOK(askGen(l), l), pt})
		l = fmt.Sprintf("sig.attachedwith %d 0 %s %s 8 %s", major, keys.Hex(sig), keys.Hex(r.Bytes(16)), keys.Hex(pt))
		ps = append(ps, produced{"att", major, mustOK(askGen(l), l), pt})
		l = fmt.Sprintf("sig.detached %d 0 %s %s %s", major, keys.Hex(sig), randSigScript(r, -1, 0).Spec(), keys.Hex(pt))
		if b, ok := okBytes(goExec(l)); ok {
			ps = append(ps, produced{"det", major, b, pt})
		}
	}
	pt := r.Bytes(11)
	l := fmt.Sprintf("sc.sealwith %s b:%s %s %s 8 %s", keys.Hex(sig), keys.Hex(boxPub(sec)), keys.Hex(r.Bytes(32)), keys.Hex(r.Bytes(32)), keys.Hex(pt))
	ps = append(ps, produced{"sc", 2, mustOK(askGen(l), l), pt})
	ring := stdRing(sec)
	validators := []string{"known", "single:1:0", "single:2:0", "single:2:1", "single:3:0"}
	for _, p := range ps {
		p := p
		for _, v := range validators {
			v := v
			admits := v == "known" || v == fmt.Sprintf("single:%d:0", p.major)
			consumers := []struct{ mode, line string }{
				{"enc", fmt.Sprintf("enc.open %s %s %s", v, ring.Spec(), keys.Hex(p.msg))},
				{"att", fmt.Sprintf("sig.verify %s std %s", v, keys.Hex(p.msg))},
				{"det", fmt.Sprintf("sig.verifydetached %s std %s %s", v, keys.Hex(p.msg), keys.Hex(p.pt))},
			}
			if v == "known" {
				consumers = append(consumers, struct{ mode, line string }{"sc", fmt.Sprintf("sc.open %s none %s", ring.Spec(), keys.Hex(p.msg))})
			}
			for _, c := range consumers {
				c := c
				out := goExec(c.line)
				want := c.mode == p.mode && (admits || c.mode == "sc")
				emit(Case{Stream: "gate.crossfeed", Line: c.line, GoOut: out, Cmp: resCmp, Fallback: fallbackFor(c.line),
					Branch: fmt.Sprintf("%s.v%d->%s/%s/%s", p.mode, p.major, c.mode, v, resClass(out)),
					Sample: map[string]interface{}{"produced": fmt.Sprintf("%s v%d", p.mode, p.major), "consumer": c.mode, "validator": v, "outcome": resClass(out)},
					Direct: func() string {
						if (resClass(out) == "ok") != want {
							return fmt.Sprintf("gating: a %s v%d message fed to the %s entry point under validator %s gives %s (expected accept=%v): %s", p.mode, p.major, c.mode, v, resClass(out), want, trunc(c.line, 800))
						}
						return ""
					}})
			}
		}
	}
	// every Version value to every sender: unknown versions are refused with an error
	for _, ma := range []int{0, 1, 2, 3, 255, -1} {
		for _, mi := range []int{0, 1, 7} {
			known := (ma == 1 || ma == 2) && mi == 0
			lines := []string{
				fmt.Sprintf("enc.seal %d %d %s %s:v g:%s %s %d %s", ma, mi, keys.Hex(r.Bytes(32)), keys.Hex(boxPub(r.Bytes(32))), keys.Hex(r.Bytes(32)), keys.Hex(r.Bytes(32)), mib, keys.Hex(r.Bytes(5))),
				fmt.Sprintf("sig.attached %d %d %s %s %d %s", ma, mi, keys.Hex(r.Bytes(32)), randSigScript(r, -1, 0).Spec(), mib, keys.Hex(r.Bytes(5))),
				fmt.Sprintf("sig.attached %d %d %s %s %d -", ma, mi, keys.Hex(r.Bytes(32)), randSigScript(r, -1, 0).Spec(), mib),
				fmt.Sprintf("sig.detached %d %d %s %s %s", ma, mi, keys.Hex(r.Bytes(32)), randSigScript(r, -1, 0).Spec(), keys.Hex(r.Bytes(5))),
			}
			for _, line := range lines {
				line := line
				out := goExec(line)
				emit(Case{Stream: "gate.senders", Line: line, GoOut: out, Branch: fmt.Sprintf("%s/%d.%d/%s", strings.Fields(line)[0], ma, mi, strings.Fields(out)[0]),
					Direct: func() string {
						if strings.Contains(out, "panic") {
							return fmt.Sprintf("a sender PANICS for version %d.%d: %s", ma, mi, trunc(line, 300))
						}
						if !known && !strings.HasPrefix(out, "err") {
							return fmt.Sprintf("a sender emits a message labelled with the unimplemented version %d.%d: %s", ma, mi, trunc(line, 300))
						}
						if known && !strings.HasPrefix(out, "ok") {
							return fmt.Sprintf("a sender refuses the implemented version %d.%d: %s -> %s", ma, mi, trunc(line, 300), out)
						}
						return ""
					}})
			}
		}
	}
	// header edits of format name / version / mode (with the packets unchanged): the mutation streams
	for _, f := range append(append(encFamilies(ctx, r, ctx.N(2, 10)), scFamilies(ctx, r, ctx.N(2, 10))...), sigFamilies(ctx, r, ctx.N(2, 10))...) {
		var ms []mutation
		for _, g := range f.msgs[:1] {
			for _, m := range treeMutations(f, g, r, nil) {
				if strings.HasPrefix(m.label, "h.fn") || strings.HasPrefix(m.label, "h.major") || strings.HasPrefix(m.label, "h.minor") || strings.HasPrefix(m.label, "h.type") {
					ms = append(ms, m)
				}
			}
		}
		mutationCases(ctx, "gate.headeredit", f, ms, emit)
	}
}

// ---------------------------------------------------------------------------
// C18

func genFresh(ctx *Ctx, emit func(Case)) {
	r := ctx.R.Fork()
	failTurn := 0
	failClosed := func(stream, line string, fault int) {
		// every other faulting request: the source's error is io.EOF (an exhausted source) instead of a generic error
		if failTurn++; failTurn%2 == 0 {
			line += " re=eof"
		}
		out := goExec(line)
		emit(Case{Stream: stream, Line: line, GoOut: out, Branch: fmt.Sprintf("fault@%d/%s", fault, strings.Fields(out)[0]),
			// WHICH error value comes back (the source's own io.EOF / io.ErrUnexpectedEOF or the library's) is not compared
			Cmp: func(a, b string) bool { return a == b || (strings.HasPrefix(a, "err") && strings.HasPrefix(b, "err")) },
			Sample: map[string]interface{}{"op": strings.Fields(line)[0], "fault_at_read": fault, "outcome": strings.Fields(out)[0]},
			Direct: func() string {
				if !strings.HasPrefix(out, "err") {
					return fmt.Sprintf("an operation continues although a read of the randomness source failed (read %d): %s -> %s", fault, trunc(line, 400), trunc(out, 100))
				}
				return ""
			}})
	}
	for k := 0; k < ctx.N(12, 80); k++ {
		c := randEncConfig(r, smallLen(r))
		clean := randScript(r, len(c.recips), c.ephRand, -1, 0)
		for fault := 0; fault < len(clean.Reads); fault++ {
			for mode := 0; mode < 5; mode++ {
				c2 := *c
				sc := scriptCopy(clean, fault, mode)
				c2.src = &sc
				failClosed("fresh.enc.fault", c2.line(), fault)
			}
		}
		c.src = clean
		line := c.line()
		emit(Case{Stream: "fresh.enc.clean", Line: line, GoOut: goExec(line), Branch: "clean"})
	}
	for k := 0; k < ctx.N(8, 40); k++ {
		signer, msg := r.Bytes(32), r.Bytes(smallLen(r))
		clean := randSigScript(r, -1, 0)
		for fault := 0; fault < len(clean.Reads); fault++ {
			for mode := 0; mode < 5; mode++ {
				s := scriptCopy(clean, fault, mode)
				failClosed("fresh.sig.fault", fmt.Sprintf("sig.attached %d 0 %s %s %d %s", 1+k%2, keys.Hex(signer), s.Spec(), mib, keys.Hex(msg)), fault)
				failClosed("fresh.det.fault", fmt.Sprintf("sig.detached %d 0 %s %s %s", 1+k%2, keys.Hex(signer), s.Spec(), keys.Hex(msg)), fault)
			}
		}
	}
	for k := 0; k < ctx.N(8, 40); k++ {
		nb, ns := 1+r.Intn(2), r.Intn(3)
		var boxes, syms []string
		for i := 0; i < nb; i++ {
			boxes = append(boxes, "b:"+keys.Hex(boxPub(r.Bytes(32))))
		}
		for i := 0; i < ns; i++ {
			syms = append(syms, "s:"+keys.Hex(r.Bytes(32))+":"+keys.Hex(r.Bytes(32)))
		}
		jl := func(l []string) string {
			if len(l) == 0 {
				return "-"
			}
			return strings.Join(l, ",")
		}
		ephRand := r.Bool()
		eph := "r"
		if !ephRand {
			eph = "g:" + keys.Hex(r.Bytes(32))
		}
		clean := randScript(r, nb+ns, ephRand, -1, 0)
		for fault := 0; fault < len(clean.Reads); fault++ {
			for mode := 0; mode < 5; mode++ {
				s := scriptCopy(clean, fault, mode)
				failClosed("fresh.sc.fault", fmt.Sprintf("sc.seal %s %s %s %s %s %d %s", keys.Hex(r.Bytes(32)), jl(boxes), jl(syms), eph, s.Spec(), mib, keys.Hex(r.Bytes(9))), fault)
			}
		}
	}
	// repeated identical calls: the secrets on the wire are exactly the scripted
	// draws (so they repeat only if the source repeats) — byte-exact against the model
	for k := 0; k < ctx.N(6, 40); k++ {
		c := randEncConfig(r, 20)
		for rep := 0; rep < 3; rep++ {
			c.src = randScript(r, len(c.recips), c.ephRand, -1, 0)
			line := c.line()
			out := goExec(line)
			emit(Case{Stream: "fresh.enc.repeat", Line: line, GoOut: out, Branch: fmt.Sprintf("rep%d", rep)})
		}
	}
	// signature headers: the nonce on the wire is exactly what the randomness
	// source delivered for this call (byte-exact against the model, and read back
	// from the emitted header), attached and detached, both versions
	for k := 0; k < ctx.N(8, 60); k++ {
		signer, msg := r.Bytes(32), r.Bytes(smallLen(r))
		for rep := 0; rep < 2; rep++ {
			src := randSigScript(r, -1, 0)
			var want []byte
			for _, rd := range src.Reads {
				want = append(want, rd.Data...)
			}
			for _, op := range []string{"sig.attached", "sig.detached"} {
				line := fmt.Sprintf("%s %d 0 %s %s %d %s", op, 1+k%2, keys.Hex(signer), src.Spec(), mib, keys.Hex(msg))
				if op == "sig.detached" {
					line = fmt.Sprintf("%s %d 0 %s %s %s", op, 1+k%2, keys.Hex(signer), src.Spec(), keys.Hex(msg))
				}
				out := goExec(line)
				emit(Case{Stream: "fresh.sig.nonce", Line: line, GoOut: out, Branch: fmt.Sprintf("%s/v%d/rep%d", op, 1+k%2, rep),
					Direct: func() string {
						b, ok := okBytes(out)
						if !ok {
							return ""
						}
						_, inner, _, _ := splitMsg(b)
						if inner == nil || inner.K != mvArr || len(inner.Arr) < 5 {
							return "emitted signature header does not parse: " + trunc(line, 300)
						}
						if !bytes.Equal(inner.Arr[4].Data, want) {
							return fmt.Sprintf("the signature header's nonce (%x) is not the %d bytes the randomness source delivered for this call (%x): %s", inner.Arr[4].Data, len(want), want, trunc(line, 400))
						}
						return ""
					}})
			}
		}
	}
	// and with the real crypto/rand: ephemeral key, sender secretbox and first
	// ciphertext never repeat across identical calls
	seen := map[string]bool{}
	sec := saltpackBasicKey(r)
	for k := 0; k < ctx.N(40, 400); k++ {
		msg, err := saltpack.Seal(saltpack.Version2(), []byte("same"), sec, []saltpack.BoxPublicKey{sec.GetPublicKey()})
		line := fmt.Sprintf("noop fresh.realrand %d", k)
		dup := ""
		if err == nil {
			_, inner, packets, _ := splitMsg(msg)
			parts := [][]byte{inner.Arr[3].Data, inner.Arr[4].Data, packets[0]}
			for i, p := range parts {
				key := fmt.Sprintf("%d:%x", i, p)
				if seen[key] {
					dup = fmt.Sprintf("two Seal calls with identical arguments produced the same %s", []string{"ephemeral key", "sender secretbox", "payload packet"}[i])
				}
				seen[key] = true
			}
		}
		emit(Case{Stream: "fresh.realrand", Line: line, GoOut: "bad-op", Branch: "real", Trivial: k > 0, Direct: func() string { return dup }})
	}
	sigKey := keys.NewSigSecret(r.Bytes(32), nil)
	for k := 0; k < ctx.N(40, 400); k++ {
		dup := ""
		for vi, v := range []saltpack.Version{saltpack.Version1(), saltpack.Version2()} {
			for di, det := range []bool{false, true} {
				var b []byte
				var err error
				if det {
					b, err = saltpack.SignDetached(v, []byte("same"), sigKey)
				} else {
					b, err = saltpack.Sign(v, []byte("same"), sigKey)
				}
				if err != nil {
					continue
				}
				_, inner, _, _ := splitMsg(b)
				if inner == nil || inner.K != mvArr || len(inner.Arr) < 5 {
					continue
				}
				key := fmt.Sprintf("sig:%d:%d:%x", vi, di, inner.Arr[4].Data)
				if seen[key] {
					dup = fmt.Sprintf("two signing calls with identical arguments (version %d, detached=%v) produced the same header nonce %x", v.Major, det, inner.Arr[4].Data)
				}
				seen[key] = true
			}
		}
		emit(Case{Stream: "fresh.realrand.sig", Line: fmt.Sprintf("noop fresh.realrand.sig %d", k), GoOut: "bad-op", Branch: "real", Trivial: k > 0, Direct: func() string { return dup }})
	}
}

// howClass: branch label of a write-split suffix
func howClass(how string) string {
	switch {
	case how == "":
		return "oneshot"
	case how == " w=-1":
		return "stream-nowrite"
	default:
		return "stream"
	}
}

// writeSplit: a random Write split for an n-byte plaintext ("" = all-at-once)
func writeSplit(r *prng.R, n int) string {
	if n >= mib+14 {
		// always the shape "a few pending bytes, then one Write of more than a
		// block": a direct-from-the-caller's-slice fast path must not overtake
		// what is buffered
		return fmt.Sprintf(" w=%d.%d", 1+r.Intn(13), mib+1+r.Intn(n-mib-13))
	}
	if n >= mib && n%mib == 0 {
		// the plaintext ends exactly on a block boundary: some bytes pending, then a Write that completes the
		// block and nothing after it — the held-back full block must become the FINAL one, not be flushed early
		k := 1 + r.Intn(13)
		return prng.Pick(r, fmt.Sprintf(" w=%d.%d", k, n-k), fmt.Sprintf(" w=%d.1", n-1), fmt.Sprintf(" w=%d.%d.0", k, n-k))
	}
	if n >= mib {
		return prng.Pick(r, "", fmt.Sprintf(" w=%d.1", mib-1), fmt.Sprintf(" w=1.%d", mib), " w=0.5.0", fmt.Sprintf(" w=%d", mib))
	}
	return prng.Pick(r, "", "", " w=-1", " w=0", " w=1", " w=1.1.1", " w=3.0.7", fmt.Sprintf(" w=%d", r.Intn(n+1)), fmt.Sprintf(" w=%d.%d", r.Intn(n+1), r.Intn(n+1)))
}
// freshPredicate: C12's "bound to a header containing fresh randomness" — the
// same signing request under a different header nonce must not present the key
// with any input it was presented with before.
func freshPredicate(line, out, otherLine string) string {
	signs := func(o string) []string {
		var l []string
		f := strings.Fields(o)
		if len(f) < 2 || f[0] != "ok" {
			return nil
		}
		for _, c := range strings.Split(f[1], ",") {
			if strings.HasPrefix(c, "sign:") {
				l = append(l, c)
			}
		}
		return l
	}
	a, b := signs(out), signs(goExec(otherLine))
	seen := map[string]bool{}
	for _, x := range a {
		seen[x] = true
	}
	for _, y := range b {
		if seen[y] {
			return fmt.Sprintf("a signing key is asked to sign the same input under two different header nonces (not bound to the header's fresh randomness): %s — requests %s and %s", trunc(y, 200), trunc(line, 300), trunc(otherLine, 300))
		}
	}
	return ""
}
