package main

func genBasexStream(ctx *Ctx, emit func(Case))   {}
func genFields(ctx *Ctx, emit func(Case))        {}
func goExecMore3(t []string) (string, bool)      { return "", false }
