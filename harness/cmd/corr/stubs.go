package main

func genBasexStream(ctx *Ctx, emit func(Case))   {}
func genFields(ctx *Ctx, emit func(Case))        {}
func goExecMore4(t []string) (string, bool)      { return "", false }
