package main

func genBasexStream(ctx *Ctx, emit func(Case)) {}
func genFields(ctx *Ctx, emit func(Case))      {}
