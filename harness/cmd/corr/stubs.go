package main

func genBasexStream(ctx *Ctx, emit func(Case)) {}
