package main

import (
	"fmt"
	"strings"

	"verifharness/internal/keys"
	"verifharness/internal/prng"
)

// genBasexStream (C10): the streaming encoder under Write splits and the
// streaming decoder under reader fragmentation, against the model's one-shot
// forms (the model ignores the w= / rd= token).
func genBasexStream(ctx *Ctx, emit func(Case)) {
	r := ctx.R.Fork()
	encs := []string{"b62", "b62s", "b58", "b58s"}
	for k := 0; k < ctx.N(300, 4000); k++ {
		e := encs[k%4]
		ibl, obl := 32, 43
		if strings.HasPrefix(e, "b58") {
			ibl, obl = 19, 26
		}
		n := prng.Pick(r, 0, 1, ibl-1, ibl, ibl+1, 2*ibl, 2*ibl+7, r.Intn(300), 128*ibl, 128*ibl+5, 200*ibl+3)
		b := r.Bytes(n)
		if r.Intn(6) == 0 {
			for i := range b {
				b[i] = prng.Pick(r, byte(0), byte(0xff))
			}
		}
		var ws []string
		for i := 0; i < 1+r.Intn(4); i++ {
			ws = append(ws, fmt.Sprint(prng.Pick(r, 0, 1, ibl-1, ibl, ibl+1, r.Intn(n+1), 128*ibl)))
		}
		line := fmt.Sprintf("bx.enc %s %s w=%s", e, keys.Hex(b), strings.Join(ws, "."))
		out := goExec(line)
		emit(Case{Stream: "basex.stream.enc", Line: line, GoOut: out, Branch: fmt.Sprintf("%s/len%%%d=%d", e, ibl, n%ibl),
			Sample: map[string]interface{}{"op": "NewEncoder", "enc": e, "len": n, "writes": ws},
			Direct: func() string {
				want := "ok " + keys.Hex([]byte(encByName(e).EncodeToString(b)))
				if out != want {
					return fmt.Sprintf("the streaming BaseX encoder differs from the one-shot form: %s", trunc(line, 400))
				}
				return ""
			}})
		// decode the encoding (genuine), a mutated one, and with skipped characters
		text := []byte(encByName(e).EncodeToString(b))
		variants := [][]byte{text}
		if len(text) > 0 {
			m := append([]byte(nil), text...)
			m[r.Intn(len(m))] = prng.Pick(r, byte('z'), byte('0'), byte('!'), byte(' '), byte('1'))
			variants = append(variants, m)
			variants = append(variants, text[:len(text)-1-r.Intn(min(len(text), 3))])
			if !strings.HasSuffix(e, "s") {
				var sp []byte
				for _, c := range text {
					sp = append(sp, c)
					if r.Intn(9) == 0 {
						sp = append(sp, prng.Pick(r, byte(' '), byte('\n'), byte('>'), byte('\t')))
					}
				}
				variants = append(variants, sp)
			}
		}
		for vi, t := range variants {
			var rs []string
			for i := 0; i < 1+r.Intn(4); i++ {
				rs = append(rs, fmt.Sprint(prng.Pick(r, 0, 1, 1, obl-1, obl, obl+1, 2*obl, r.Intn(len(t)+1), 4096, -1)))
			}
			ok := false
			for _, x := range rs {
				if x != "0" {
					ok = true
				}
			}
			if !ok {
				rs = append(rs, "7")
			}
			t := t
			line := fmt.Sprintf("bx.dec %s %s rd=%s", e, keys.Hex(t), strings.Join(rs, "."))
			out := goExec(line)
			cmp := func(a, b string) bool { // ok: exact; errors: both errors (positions are per buffer in the stream)
				if strings.HasPrefix(a, "ok") || strings.HasPrefix(b, "ok") {
					return a == b
				}
				return strings.HasPrefix(a, "err") && strings.HasPrefix(b, "err")
			}
			emit(Case{Stream: "basex.stream.dec", Line: line, GoOut: out, Cmp: cmp, Branch: fmt.Sprintf("%s/variant%d/%s", e, vi, strings.Fields(out)[0]),
				Sample: map[string]interface{}{"op": "NewDecoder", "enc": e, "chars": len(t), "reads": rs, "outcome": strings.Fields(out)[0]},
				Direct: func() string {
					d, err := encByName(e).DecodeString(string(t))
					if err == nil && out != "ok "+keys.Hex(d) {
						return fmt.Sprintf("the streaming BaseX decoder differs from the one-shot form (which accepts): %s -> %s", trunc(line, 400), trunc(out, 100))
					}
					if err != nil && strings.HasPrefix(out, "ok") {
						return fmt.Sprintf("the streaming BaseX decoder accepts what the one-shot form rejects (%v): %s", err, trunc(line, 400))
					}
					return ""
				}})
		}
	}
}
