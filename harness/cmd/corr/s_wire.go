package main

// C08: everything the library emits is the wire format the specification
// defines — (1) byte-exact equality with the code model's encoders (which the
// theorems relate to the independent reference sender), and (2) the bytes the
// IMPLEMENTATION emits are parsed, fully authenticated and decoded by the
// independent strict reference decoder (Lean, from specs/*.md).

import (
	"fmt"
	"strings"

	"verifharness/internal/keys"
	"verifharness/internal/prng"
)

func strictOK(ans string, wants ...string) string {
	if !strings.HasPrefix(ans, "ok ") {
		return ans
	}
	for _, w := range wants {
		if !strings.Contains(ans, w) {
			return "decoded differently: missing " + w + " in " + trunc(ans, 200)
		}
	}
	return ""
}

func genWire(ctx *Ctx, emit func(Case)) {
	r := ctx.R.Fork()
	lens := []int{0, 0, 1, 2, 17, 300}
	for i := 0; i < ctx.N(20, 200); i++ {
		lens = append(lens, smallLen(r))
	}
	if ctx.Quick {
		lens = append(lens, mib, mib+1)
	} else {
		lens = append(lens, boundaryLens...)
		lens = append(lens, boundaryLens...)
	}
	for li, n := range lens {
		n := n
		// --- encryption -------------------------------------------------------------
		c := randEncConfig(r, n)
		if n >= mib-1 {
			c.recips, c.hidden = c.recips[:1], c.hidden[:1]
			c.src = randScript(r, 1, c.ephRand, -1, 0)
			c.v.Major = 1 + li%2
		}
		line := c.line()
		out := goExec(line)
		emit(Case{Stream: "wire.enc", Line: line, GoOut: out, Branch: fmt.Sprintf("v%d/%s/recips=%d", c.v.Major, sizeClass(n), len(c.recips)),
			Sample: map[string]interface{}{"op": "Seal -> strict reference decoder", "version": c.v.Major, "plaintext_len": n, "recipients": len(c.recips)},
			Direct: func() string {
				msg, ok := okBytes(out)
				if !ok {
					return ""
				}
				// the shuffled order is unknown here: recover it from the key ids / try secrets in header order
				order := headerOrderSecrets(msg, c)
				if order == nil {
					return "cannot match header recipients to the supplied recipients: " + trunc(line, 300)
				}
				ans := askGen(fmt.Sprintf("sd.enc %s %s", keys.Hex(msg), keys.HexList(order)))
				senderPub := boxPub(c.eph)
				if c.sender != nil {
					senderPub = boxPub(c.sender)
				}
				wants := []string{"plaintext=" + hexNoDash(c.pt) + " "}
				if c.sender != nil {
					wants = append(wants, "sender="+hexNoDash(senderPub)+" anon=false")
				} else {
					wants = append(wants, "anon=true")
				}
				if f := strictOK(ans, wants...); f != "" {
					return fmt.Sprintf("the strict reference decoder (from the specification) does not accept what Seal emitted: %s ; version=%d plaintext_len=%d request=%s", f, c.v.Major, n, trunc(line, 300))
				}
				return ""
			}})
		// --- attached + detached ------------------------------------------------------
		major := 1 + li%2
		signer, msgb := r.Bytes(32), r.Bytes(n)
		for _, mode := range []string{"attached", "detached"} {
			mode := mode
			var l string
			if mode == "attached" {
				l = fmt.Sprintf("sig.attached %d 0 %s %s %d %s", major, keys.Hex(signer), randSigScript(r, -1, 0).Spec(), mib, keys.Hex(msgb))
			} else {
				l = fmt.Sprintf("sig.detached %d 0 %s %s %s", major, keys.Hex(signer), randSigScript(r, -1, 0).Spec(), keys.Hex(msgb))
			}
			o := goExec(l)
			emit(Case{Stream: "wire.sig." + mode, Line: l, GoOut: o, Branch: fmt.Sprintf("v%d/%s", major, sizeClass(n)),
				Direct: func() string {
					sm, ok := okBytes(o)
					if !ok {
						return ""
					}
					ask := func(nl int) string {
						if mode == "attached" {
							return askGen(fmt.Sprintf("sd.att %d %s", nl, keys.Hex(sm)))
						}
						return askGen(fmt.Sprintf("sd.det %d %s %s", nl, keys.Hex(sm), keys.Hex(msgb)))
					}
					wants := []string{"signer=" + hexNoDash(sigPub(signer))}
					if mode == "attached" {
						wants = append(wants, "plaintext="+hexNoDash(msgb)+" ")
					}
					// everything but the nonce length, with the length the code emits
					if f := strictOK(ask(16), wants...); f != "" {
						return fmt.Sprintf("the strict reference decoder does not accept the %s signature the library emitted: %s ; major=%d message_len=%d", mode, f, major, n)
					}
					// the specification's nonce length
					if f := strictOK(ask(32), wants...); f != "" {
						return fmt.Sprintf("%s signature header: %s", mode, f)
					}
					return ""
				}})
		}
		// --- signcryption ---------------------------------------------------------------
		sec, symk, ident := r.Bytes(32), r.Bytes(32), r.Bytes(32)
		useBox := r.Bool()
		snd := keys.Hex(signer)
		if r.Intn(3) == 0 {
			snd = "anon"
		}
		boxes, syms, key := "b:"+keys.Hex(boxPub(sec)), "-", "b:"+keys.Hex(sec)
		if !useBox {
			boxes, syms, key = "-", "s:"+keys.Hex(symk)+":"+keys.Hex(ident), "s:"+keys.Hex(symk)
		}
		if snd == "anon" {
			// an ANONYMOUS message right after a named one of the same size class in this process: whatever the sender
			// recycles between messages (a staging buffer that still holds the previous signature) must not leak into it —
			// the specification asks for 64 zero bytes where a named sender's signature would be
			lp := fmt.Sprintf("sc.seal %s %s %s g:%s %s %d %s", keys.Hex(signer), boxes, syms, keys.Hex(r.Bytes(32)), randScript(r, 1, false, -1, 0).Spec(), mib, keys.Hex(r.Bytes(n)))
			goExec(lp)
		}
		l := fmt.Sprintf("sc.seal %s %s %s g:%s %s %d %s", snd, boxes, syms, keys.Hex(r.Bytes(32)), randScript(r, 1, false, -1, 0).Spec(), mib, keys.Hex(msgb))
		o := goExec(l)
		emit(Case{Stream: "wire.sc", Line: l, GoOut: o, Branch: fmt.Sprintf("%s/box=%v/anon=%v", sizeClass(n), useBox, snd == "anon"),
			Direct: func() string {
				sm, ok := okBytes(o)
				if !ok {
					return ""
				}
				want := "sender=anon"
				if snd != "anon" {
					want = "sender=" + hexNoDash(sigPub(signer))
				}
				if f := strictOK(askGen(fmt.Sprintf("sd.sc %s 0 %s", keys.Hex(sm), key)), "plaintext="+hexNoDash(msgb)+" ", want); f != "" {
					return fmt.Sprintf("the strict reference decoder does not accept what SigncryptSeal emitted: %s ; plaintext_len=%d", f, n)
				}
				return ""
			}})
	}
}

func hexNoDash(b []byte) string {
	if len(b) == 0 {
		return ""
	}
	return keys.Hex(b)
}

// headerOrderSecrets recovers the header order of the recipients' secrets: by
// key id for visible ones; hidden ones are matched by trying the remaining
// secrets in every order the strict decoder accepts (few recipients).
func headerOrderSecrets(msg []byte, c *encConfig) [][]byte {
	_, inner, _, _ := splitMsg(msg)
	if inner == nil || len(inner.Arr) < 6 {
		return nil
	}
	rc := inner.Arr[5].Arr
	used := make([]bool, len(c.recips))
	order := make([][]byte, len(rc))
	var hiddenIdx []int
	for i, e := range rc {
		if e.Arr[0].K == mvBin && len(e.Arr[0].Data) > 0 {
			for j, s := range c.recips {
				if !used[j] && string(boxPub(s)) == string(e.Arr[0].Data) {
					order[i], used[j] = s, true
				}
			}
			if order[i] == nil {
				return nil
			}
		} else {
			hiddenIdx = append(hiddenIdx, i)
		}
	}
	var rest [][]byte
	for j, s := range c.recips {
		if !used[j] {
			rest = append(rest, s)
		}
	}
	if len(rest) != len(hiddenIdx) {
		return nil
	}
	// try permutations of the hidden ones (at most a few): pick the first the decoder accepts
	var perm func(k int) [][]byte
	perm = func(k int) [][]byte {
		if k == len(rest) {
			o := append([][]byte(nil), order...)
			for t, hi := range hiddenIdx {
				o[hi] = rest[t]
			}
			if len(rest) <= 1 || strings.HasPrefix(askGen(fmt.Sprintf("sd.enc %s %s", keys.Hex(msg), keys.HexList(o))), "ok") {
				return o
			}
			return nil
		}
		for i := k; i < len(rest); i++ {
			rest[k], rest[i] = rest[i], rest[k]
			if o := perm(k + 1); o != nil {
				return o
			}
			rest[k], rest[i] = rest[i], rest[k]
		}
		return nil
	}
	if o := perm(0); o != nil {
		return o
	}
	o := append([][]byte(nil), order...)
	for t, hi := range hiddenIdx {
		o[hi] = rest[t]
	}
	return o
}

var _ = prng.New

func init() {
	reg("C08", func(ctx *Ctx, emit func(Case)) { genWire(ctx, emit) },
		[]string{"the strict reference decoder and the reference sender are written from specs/*.md with their own constants; they share the primitives and the MessagePack grammar with the code model"},
		commonTrusted)
}
