package main

import (
	"bytes"
	"fmt"
	"io"

	"github.com/keybase/saltpack"
	"verifharness/internal/keys"
	"verifharness/internal/prng"
)

// genDispatch: ClassifyEncryptedStreamAndMakeDecoder returns the same plaintext
// and identities as the direct entry point for the detected mode.
func genDispatch(ctx *Ctx, emit func(Case)) {
	r := ctx.R.Fork()
	for k := 0; k < ctx.N(30, 300); k++ {
		k := k
		sec, signer := r.Bytes(32), r.Bytes(32)
		ring := stdRing(sec)
		n := prng.Pick(r, 0, 1, 50, 500, 5000)
		var msg, pt []byte
		var mode string
		var wantSender []byte
		o := specOpts{min: prng.Pick(r, 0, 3)}
		switch k % 4 {
		case 0, 1:
			mode = "enc"
			sender := r.Bytes(32)
			pt = r.Bytes(n)
			line := fmt.Sprintf("spec.enc %d %s %s %s:%s %s %s %s", 1+k%2, o, keys.Hex(sender), keys.Hex(boxPub(sec)), prng.Pick(r, "v", "h"), keys.Hex(r.Bytes(32)), keys.Hex(r.Bytes(32)), keys.Hex(pt))
			msg = mustOK(askGen(line), line)
			wantSender = boxPub(sender)
		case 2:
			mode = "sc"
			pt = r.Bytes(n)
			line := fmt.Sprintf("spec.sc %s %s b:%s %s %s %s", o, keys.Hex(signer), keys.Hex(boxPub(sec)), keys.Hex(r.Bytes(32)), keys.Hex(r.Bytes(32)), keys.Hex(pt))
			msg = mustOK(askGen(line), line)
			wantSender = sigPub(signer)
		default:
			mode = "att"
			pt = r.Bytes(n)
			line := fmt.Sprintf("spec.att %d %s %s %s %s", 1+k%2, o, keys.Hex(signer), keys.Hex(r.Bytes(16)), keys.Hex(pt))
			msg = mustOK(askGen(line), line)
		}
		for _, armored := range []bool{false, true} {
			armored := armored
			brand := prng.Pick(r, "", "KB")
			src := msg
			if armored {
				typ := saltpack.MessageTypeEncryption
				if mode == "att" {
					typ = saltpack.MessageTypeAttachedSignature
				}
				s, _ := saltpack.Armor62Seal(msg, typ, brand)
				if r.Bool() {
					s = reflow(r, s, 9)
				}
				src = []byte(s)
			}
			line := fmt.Sprintf("noop dispatch %s armored=%v k=%d", mode, armored, k)
			emit(Case{Stream: "classify.dispatch", Line: line, GoOut: "bad-op", Branch: fmt.Sprintf("%s/armored=%v", mode, armored),
				Sample: map[string]interface{}{"op": "ClassifyEncryptedStreamAndMakeDecoder", "mode": mode, "armored": armored, "plaintext_len": n},
				Direct: func() string {
					plain, typ, mki, spk, isArm, gotBrand, _, err := saltpack.ClassifyEncryptedStreamAndMakeDecoder(bytes.NewReader(src), ring, nil)
					fail := func(w string) string {
						return fmt.Sprintf("classify-and-decrypt differs from the direct entry point (%s): mode=%s armored=%v plaintext_len=%d err=%v", w, mode, armored, n, err)
					}
					if mode == "att" {
						if err == nil {
							return fail("a signed message was accepted by the decrypting convenience entry point")
						}
						return ""
					}
					if err != nil {
						return fail("error")
					}
					out, rerr := io.ReadAll(plain)
					if rerr != nil || !bytes.Equal(out, pt) {
						return fail("plaintext")
					}
					if isArm != armored || (armored && gotBrand != brand) {
						return fail("armoring/brand")
					}
					if mode == "enc" {
						if typ != saltpack.MessageTypeEncryption || mki == nil || !bytes.Equal(mki.SenderKey.ToKID(), wantSender) || !bytes.Equal(mki.ReceiverKey.GetPublicKey().ToKID(), boxPub(sec)) {
							return fail("identities")
						}
					} else if typ != saltpack.MessageTypeSigncryption || spk == nil || !bytes.Equal(spk.ToKID(), wantSender) {
						return fail("identities")
					}
					return ""
				}})
		}
	}
}
