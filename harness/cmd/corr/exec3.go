package main

// goExec for the stream state machines (st.* ops).

import (
	"bytes"
	"fmt"
	"io"
	"strings"

	"github.com/keybase/saltpack"
	"github.com/keybase/saltpack/encoding/basex"
	"verifharness/internal/keys"
	"verifharness/internal/script"
)

type scriptEntry struct {
	data []byte
	err  error // nil, io.EOF, script.ErrIO
}

type scriptedReader struct{ entries []scriptEntry }

func parseScriptEntries(s string) []scriptEntry {
	var out []scriptEntry
	for _, t := range splitL(s) {
		e := scriptEntry{}
		switch {
		case strings.HasSuffix(t, "!"):
			e.err = script.ErrIO
			t = t[:len(t)-1]
		case strings.HasSuffix(t, "$"):
			e.err = io.EOF
			t = t[:len(t)-1]
		}
		e.data = unhex(t)
		out = append(out, e)
	}
	return out
}

func (r *scriptedReader) Read(p []byte) (int, error) {
	if len(r.entries) == 0 {
		return 0, io.EOF
	}
	e := &r.entries[0]
	if len(e.data) <= len(p) {
		n := copy(p, e.data)
		err := e.err
		r.entries = r.entries[1:]
		return n, err
	}
	n := copy(p, e.data[:len(p)])
	e.data = e.data[len(p):]
	return n, nil
}

func rerr(err error) string {
	if err == nil {
		return "nil"
	}
	if err == io.EOF {
		return "eof"
	}
	return script.Class(err)
}

func parseCapsGo(s string) []int {
	var out []int
	for _, t := range strings.Split(s, ".") {
		out = append(out, atoi(t))
	}
	return out
}

type failingWriter struct {
	sink    []bool
	k       int
	written [][]byte
}

func (w *failingWriter) Write(p []byte) (int, error) {
	fail := false
	if w.k < len(w.sink) {
		fail = w.sink[w.k]
	}
	w.k++
	if fail {
		return 0, script.ErrIO
	}
	w.written = append(w.written, append([]byte(nil), p...))
	return len(p), nil
}

func goExecMore3(t []string) (string, bool) {
	switch t[0] {
	case "sig.verifydetachedr": // form valid lsig sigmsg script
		ring := parseRing("-", "none", "nil", "nil", t[3], nil)
		rd := &scriptedReader{parseScriptEntries(t[5])}
		var skey saltpack.SigningPublicKey
		var err error
		if t[1] == "a" {
			arm, aerr := saltpack.Armor62Seal(unhex(t[4]), saltpack.MessageTypeDetachedSignature, "")
			if aerr != nil {
				return "err armor", true
			}
			skey, _, err = saltpack.Dearmor62VerifyDetachedReader(parseValidator(t[2]), rd, arm, ring)
		} else {
			skey, err = saltpack.VerifyDetachedReader(parseValidator(t[2]), rd, unhex(t[4]), ring)
		}
		if err != nil {
			return fmt.Sprintf("res %s signer=-", script.Class(err)), true
		}
		return fmt.Sprintf("res ok signer=%s", keys.Hex(skey.ToKID())), true
	case "st.dec":
		var hc saltpack.HeaderChecker
		var fc saltpack.FrameChecker
		if t[1] != "none" {
			hc, fc = armorCheckers(saltpack.MessageType(atoi(t[1])))
		}
		caps := parseCapsGo(t[2])
		dec, _, _ := saltpack.NewArmor62DecoderStream(&scriptedReader{parseScriptEntries(t[3])}, hc, fc)
		var rel []byte
		var tr []string
		outcome := "fuel"
		for k := 0; k < 1<<22; k++ {
			buf := make([]byte, caps[k%len(caps)])
			n, err := dec.Read(buf)
			rel = append(rel, buf[:n]...)
			tr = append(tr, fmt.Sprintf("%d:%s", n, rerr(err)))
			if err == io.EOF {
				outcome = "ok"
				break
			}
			if err != nil {
				outcome = script.Class(err)
				break
			}
		}
		return fmt.Sprintf("res %s rel=%s calls=%s", outcome, keys.Hex(rel), strings.Join(tr, ",")), true
	case "st.frame":
		// the Frame interface (GetHeader / GetBrand / GetFooter, CheckArmor62Frame) at arbitrary moments of a read
		var hc saltpack.HeaderChecker
		var fc saltpack.FrameChecker
		if t[1] != "none" {
			hc, fc = armorCheckers(saltpack.MessageType(atoi(t[1])))
		}
		dec, frame, _ := saltpack.NewArmor62DecoderStream(&scriptedReader{parseScriptEntries(t[2])}, hc, fc)
		var tr []string
		frameErr := func(err error) string {
			if strings.Contains(err.Error(), "can be retrieved only after") {
				return "not-ready"
			}
			return rerr(err)
		}
		for _, a := range strings.Split(t[3], ".") {
			switch {
			case a == "h":
				if h, err := frame.GetHeader(); err != nil {
					tr = append(tr, "h!"+frameErr(err))
				} else {
					tr = append(tr, "h="+keys.Hex([]byte(h)))
				}
			case a == "b":
				if h, err := frame.GetBrand(); err != nil {
					tr = append(tr, "b!"+frameErr(err))
				} else {
					tr = append(tr, "b="+keys.Hex([]byte(h)))
				}
			case a == "f":
				if h, err := frame.GetFooter(); err != nil {
					tr = append(tr, "f!"+frameErr(err))
				} else {
					tr = append(tr, "f="+keys.Hex([]byte(h)))
				}
			case strings.HasPrefix(a, "c"):
				if b, err := saltpack.CheckArmor62Frame(frame, saltpack.MessageType(atoi(a[1:]))); err != nil {
					tr = append(tr, "c!"+frameErr(err))
				} else {
					tr = append(tr, "c="+keys.Hex([]byte(b)))
				}
			case strings.HasPrefix(a, "r"):
				buf := make([]byte, atoi(a[1:]))
				n, err := dec.Read(buf)
				tr = append(tr, fmt.Sprintf("r=%s:%s", keys.Hex(buf[:n]), rerr(err)))
			case a == "a":
				for k := 0; k < 1<<20; k++ {
					buf := make([]byte, 64)
					n, err := dec.Read(buf)
					tr = append(tr, fmt.Sprintf("r=%s:%s", keys.Hex(buf[:n]), rerr(err)))
					if err != nil {
						break
					}
				}
			default:
				return "bad-op", true
			}
		}
		return "ok " + strings.Join(tr, " "), true
	case "st.punct":
		pr := saltpack.VerifNewPunctuatedReader(&scriptedReader{parseScriptEntries(t[2])}, '.')
		var tr []string
		for _, op := range strings.Split(t[1], ",") {
			n := atoi(op[1:])
			if op[0] == 'r' {
				buf := make([]byte, n)
				k, err := pr.Read(buf)
				tr = append(tr, fmt.Sprintf("%s:%s", keys.Hex(buf[:k]), rerr(err)))
			} else {
				b, err := pr.ReadUntilPunctuation(n)
				if err != nil {
					tr = append(tr, "-:"+rerr(err))
				} else {
					tr = append(tr, keys.Hex(b)+":nil")
				}
			}
		}
		return "ok " + strings.Join(tr, ","), true
	case "st.cr":
		caps := parseCapsGo(t[1])
		entries := parseScriptEntries(t[2])
		next := func() ([]byte, error) {
			if len(entries) == 0 {
				return nil, io.EOF
			}
			e := entries[0]
			entries = entries[1:]
			return e.data, e.err
		}
		r := saltpack.VerifNewChunkReader(next)
		var tr []string
		done := false
		for k := 0; k < 1<<20; k++ {
			buf := make([]byte, caps[k%len(caps)])
			n, err := r.Read(buf)
			tr = append(tr, fmt.Sprintf("%s:%s", keys.Hex(buf[:n]), rerr(err)))
			if err != nil {
				if done {
					break
				}
				done = true
			} else if done {
				break
			}
		}
		return "ok " + strings.Join(tr, ","), true
	case "st.chunker":
		return execChunker(t), true
	case "st.enc":
		enc := encByName(t[1])
		w := &failingWriter{}
		if t[2] != "-" {
			for _, c := range t[2] {
				w.sink = append(w.sink, c == '1')
			}
		}
		e := basex.NewEncoder(enc, w)
		var tr []string
		for _, h := range splitL(t[3]) {
			n, err := e.Write(unhex(h))
			tr = append(tr, fmt.Sprintf("%d:%s", n, boolS(err == nil)))
		}
		err := e.Close()
		l := "-"
		if len(tr) > 0 {
			l = strings.Join(tr, ",")
		}
		return fmt.Sprintf("ok writes=%s close=%s out=%s nwrites=%d", l, boolS(err == nil), keys.Hex(bytes.Join(w.written, nil)), len(w.written)), true
	case "st.aw":
		// NewArmor62EncoderStream call by call: what has reached the underlying writer after the
		// constructor, after every Write and after Close
		var buf bytes.Buffer
		w, err := saltpack.NewArmor62EncoderStream(&buf, saltpack.MessageType(atoi(t[1])), string(unhex(t[2])))
		if err != nil {
			return "err " + script.Class(err), true
		}
		lens := []string{fmt.Sprint(buf.Len())}
		for _, h := range splitL(t[3]) {
			if _, err := w.Write(unhex(h)); err != nil {
				return "err " + script.Class(err), true
			}
			lens = append(lens, fmt.Sprint(buf.Len()))
		}
		if err := w.Close(); err != nil {
			return "err " + script.Class(err), true
		}
		return fmt.Sprintf("ok lens=%s out=%s", strings.Join(lens, "."), keys.Hex(buf.Bytes())), true
	}
	return goExecMore4(t)
}

// st.chunker kind bs ma lens: drive the real plaintext bufferer of one of the
// three encoder streams with writes of the given lengths (position-dependent bytes) and
// recover the chunk plan from the emitted packets.
func execChunker(t []string) string {
	kind, ma := t[1], atoi(t[3])
	if atoi(t[2]) != mib {
		return "bad-op"
	}
	lens := parseCapsGo(t[4])
	v := saltpack.Version{Major: ma, Minor: 0}
	var buf bytes.Buffer
	var w io.WriteCloser
	var err error
	secret := make([]byte, 32)
	secret[0] = 7
	c := &keys.EphCreator{Secret: secret}
	src := &script.Source{Reads: []script.Read{{Data: make([]byte, 32)}}}
	maxBuf := 0
	var oneShot []byte
	total := 0
	for _, n := range lens {
		total += n
	}
	script.With(src, func() {
		switch kind {
		case "sig":
			w, err = saltpack.NewSignStream(v, &buf, keys.NewSigSecret(secret, nil))
		case "enc":
			w, err = saltpack.NewEncryptStream(v, &buf, nil, []saltpack.BoxPublicKey{keys.NewBoxSecret(secret, false, nil, c).Pub})
		default:
			w, err = saltpack.NewSigncryptSealStream(&buf, c, keys.NewSigSecret(secret, nil), []saltpack.BoxPublicKey{keys.NewBoxSecret(secret, false, nil, c).Pub}, nil)
		}
	})
	if err != nil {
		return "err " + script.Class(err)
	}
	// position-dependent plaintext, so that reordered or duplicated bytes show
	whole := make([]byte, total)
	for i := range whole {
		whole[i] = byte(i ^ (i >> 8) ^ (i>>16)*7)
	}
	off := 0
	for _, n := range lens {
		if _, err := w.Write(whole[off : off+n]); err != nil {
			return "err " + script.Class(err)
		}
		off += n
		if b := saltpack.VerifBuffered(w); b > maxBuf {
			maxBuf = b
		}
	}
	if err := w.Close(); err != nil {
		return "err " + script.Class(err)
	}
	src2 := &script.Source{Reads: []script.Read{{Data: make([]byte, 32)}}}
	script.With(src2, func() {
		switch kind {
		case "sig":
			oneShot, err = saltpack.Sign(v, whole, keys.NewSigSecret(secret, nil))
		case "enc":
			oneShot, err = saltpack.Seal(v, whole, nil, []saltpack.BoxPublicKey{keys.NewBoxSecret(secret, false, nil, c).Pub})
		default:
			oneShot, err = saltpack.SigncryptSeal(whole, c, keys.NewSigSecret(secret, nil), []saltpack.BoxPublicKey{keys.NewBoxSecret(secret, false, nil, c).Pub}, nil)
		}
	})
	same := err == nil && bytes.Equal(oneShot, buf.Bytes())
	// recover the plan
	_, _, packets, _ := splitMsg(buf.Bytes())
	var plan []string
	for i, praw := range packets {
		p, _, _ := mpParse(praw)
		final := false
		clen := 0
		switch kind {
		case "sig":
			if ma == 2 {
				final, clen = p.Arr[0].B, len(p.Arr[2].Data)
			} else {
				clen = len(p.Arr[1].Data)
				final = clen == 0
			}
		case "enc":
			if ma == 2 {
				final, clen = p.Arr[0].B, len(p.Arr[2].Data)-16
			} else {
				clen = len(p.Arr[1].Data) - 16
				final = clen == 0
			}
		default:
			final, clen = p.Arr[1].B, len(p.Arr[0].Data)-16-64
		}
		_ = i
		plan = append(plan, fmt.Sprintf("%d/%s", clen, boolS(final)))
	}
	return fmt.Sprintf("ok plan=%s maxbuf=%d same=%s", strings.Join(plan, ","), maxBuf, boolS(same))
}
