package main

// Extension slot D (C16): the bufio machine per call against the real
// bufio.Reader over scripted fragmenting/faulting readers, ClassifyStream on such
// readers followed by draining the reader, and ClassifyEncryptedStreamAndMakeDecoder
// against the model of the dispatcher.

import (
	"bufio"
	"bytes"
	"fmt"
	"io"
	"strings"

	"github.com/keybase/saltpack"
	"verifharness/internal/keys"
	"verifharness/internal/prng"
	"verifharness/internal/script"
)

// scriptReader delivers a script of reads: entries `<hex>` data, `<hex>!` data +
// I/O error, `<hex>$` data + EOF; a delivery longer than the caller's buffer is
// handed out over several calls (its condition with the last part); an
// exhausted script reports EOF forever.  (Same semantics as Stream.srcRead.)
type delivery struct {
	d   []byte
	err error
}

type scriptReader struct{ q []delivery }

func parseScriptD(s string) []delivery {
	var out []delivery
	if s == "-" || s == "" {
		return out
	}
	for _, e := range strings.Split(s, ",") {
		var err error
		if strings.HasSuffix(e, "!") {
			err, e = script.ErrIO, e[:len(e)-1]
		} else if strings.HasSuffix(e, "$") {
			err, e = io.EOF, e[:len(e)-1]
		}
		out = append(out, delivery{unhex(e), err})
	}
	return out
}

func (s *scriptReader) Read(p []byte) (int, error) {
	if len(s.q) == 0 {
		return 0, io.EOF
	}
	h := s.q[0]
	if len(h.d) <= len(p) {
		copy(p, h.d)
		s.q = s.q[1:]
		return len(h.d), h.err
	}
	copy(p, h.d[:len(p)])
	s.q[0].d = h.d[len(p):]
	return len(p), nil
}

func condD(err error) string {
	switch err {
	case nil:
		return "nil"
	case io.EOF:
		return "eof"
	case bufio.ErrBufferFull:
		return "bufferfull"
	case io.ErrNoProgress:
		return "noprogress"
	case script.ErrIO, script.ErrScripted:
		return "io-error"
	}
	return "other:" + strings.ReplaceAll(err.Error(), " ", "_")
}

func classifyAnswerD(arm bool, brand string, typ saltpack.MessageType, ver saltpack.Version, err error) string {
	switch err {
	case nil:
		return fmt.Sprintf("ok armored=%s %s %d %d.%d", boolS(arm), keys.Hex([]byte(brand)), int(typ), ver.Major, ver.Minor)
	case saltpack.ErrShortSliceOrBuffer:
		return "short"
	case saltpack.ErrNotASaltpackMessage:
		return "not"
	case io.EOF:
		return "eof"
	}
	return "err:" + condD(err)
}

func dispatchAnswerD(source io.Reader, ring *keys.Ring, log *keys.Log, res saltpack.SymmetricKeyResolver) string {
	plain, typ, mki, spk, isArm, _, ver, err := saltpack.ClassifyEncryptedStreamAndMakeDecoder(source, ring, res)
	if typ == saltpack.MessageTypeUnknown {
		return "fail " + script.Class(err)
	}
	cls := fmt.Sprintf("armored=%s type=%d ver=%d.%d", boolS(isArm), int(typ), ver.Major, ver.Minor)
	kind, tail := "enc", "-"
	if typ == saltpack.MessageTypeSigncryption {
		kind, tail = "sc", "sender=-"
	}
	if err != nil {
		return fmt.Sprintf("%s %s res %s rel=- calls=%s %s", kind, cls, script.Class(err), log.String(), tail)
	}
	rel, rerr := readAllCollect(plain, 4096)
	if rerr == nil {
		if kind == "enc" {
			tail = mkiString(mki)
		} else if spk == nil {
			tail = "sender=anon"
		} else {
			tail = "sender=" + keys.Hex(spk.ToKID())
		}
	}
	return fmt.Sprintf("%s %s res %s rel=%s calls=%s %s", kind, cls, script.Class(rerr), keys.Hex(rel), log.String(), tail)
}

func goExecExtD(t []string) (string, bool) {
	switch t[0] {
	case "bf.trace": // size ops script
		rd := bufio.NewReaderSize(&scriptReader{parseScriptD(t[3])}, atoi(t[1]))
		var tr []string
		for _, op := range strings.Split(t[2], ",") {
			n := atoi(op[1:])
			if op[0] == 'p' {
				b, err := rd.Peek(n)
				tr = append(tr, keys.Hex(b)+":"+condD(err))
			} else {
				buf := make([]byte, n)
				k, err := rd.Read(buf)
				tr = append(tr, keys.Hex(buf[:k])+":"+condD(err))
			}
		}
		return "ok " + strings.Join(tr, ","), true
	case "bf.classify": // size cap script
		rd := bufio.NewReaderSize(&scriptReader{parseScriptD(t[3])}, atoi(t[1]))
		arm, brand, typ, ver, err := saltpack.ClassifyStream(rd)
		ans := classifyAnswerD(arm, brand, typ, ver, err)
		var rest []byte
		buf := make([]byte, atoi(t[2]))
		var end error
		for i := 0; i < 1<<22; i++ {
			k, e := rd.Read(buf)
			rest = append(rest, buf[:k]...)
			if e != nil {
				end = e
				break
			}
		}
		return fmt.Sprintf("%s rest=%s end=%s", ans, keys.Hex(rest), condD(end)), true
	case "bf.dispatch": // frag secrets ls lp ie lsig resolver bytes
		log := &keys.Log{}
		ring := parseRing(t[2], t[3], t[4], t[5], t[6], log)
		var src io.Reader = bytes.NewReader(unhex(t[8]))
		if t[1] != "whole" {
			src = &fragReader{b: unhex(t[8]), mode: t[1], r: prng.New(uint64(len(t[8])))}
		}
		return dispatchAnswerD(src, ring, log, parseResolver(t[7])), true
	case "bf.dispatchs": // cap secrets ls lp ie lsig resolver script
		log := &keys.Log{}
		ring := parseRing(t[2], t[3], t[4], t[5], t[6], log)
		return dispatchAnswerD(&scriptReader{parseScriptD(t[8])}, ring, log, parseResolver(t[7])), true
	case "bf.dispatchb": // size preops cap secrets ls lp ie lsig resolver script — the source already is a *bufio.Reader
		log := &keys.Log{}
		ring := parseRing(t[4], t[5], t[6], t[7], t[8], log)
		rd := bufio.NewReaderSize(&scriptReader{parseScriptD(t[10])}, atoi(t[1]))
		if t[2] != "-" {
			for _, op := range strings.Split(t[2], ",") {
				n := atoi(op[1:])
				if op[0] == 'p' {
					rd.Peek(n) // nolint
				} else {
					rd.Read(make([]byte, n)) // nolint
				}
			}
		}
		return dispatchAnswerD(rd, ring, log, parseResolver(t[9])), true
	}
	return "", false
}

// dispatchCmp: the classification part exactly; the receiver part like every
// receiver stream (resCmp); an armor-layer rejection of the model must be an
// error of the implementation; two errors on armored input are not compared
// further (the streaming armor decoder interleaves its checks differently).
func dispatchCmp(g, m string) bool {
	if g == m {
		return true
	}
	gi, mi := strings.Index(g, " res "), strings.Index(m, " res ")
	if strings.HasPrefix(m, "armorfail ") {
		return gi >= 0 && !strings.Contains(g, " res ok ") && strings.HasSuffix(g[:gi], strings.TrimPrefix(m, "armorfail "))
	}
	if gi < 0 || mi < 0 || g[:gi] != m[:mi] {
		return false
	}
	if strings.Contains(g[:gi], "armored=true") && !strings.Contains(g, " res ok ") && !strings.Contains(m, " res ok ") {
		return true
	}
	return resCmp(g[gi+1:], m[mi+1:])
}

// scriptOf cuts b into deliveries: mode "one", "bytes", "rand", "eofdata"
// (the last delivery carries EOF), "fault:<k>" (a transient I/O error after k bytes),
// "faultdata:<k>" (the error arrives together with the k-th byte), "empty" (empty reads in between),
// "enderr" / "enderrdata" (the source ends in an I/O error instead of EOF, alone / with the last bytes)
func scriptOf(r *prng.R, b []byte, mode string) string {
	var es []string
	add := func(d []byte, suffix string) {
		h := keys.Hex(d)
		if len(d) == 0 {
			h = "-"
		}
		es = append(es, h+suffix)
	}
	cut := func(b []byte, last string) {
		for len(b) > 0 {
			n := 1 + r.Intn(40)
			if mode == "bytes" {
				n = 1
			}
			if n > len(b) {
				n = len(b)
			}
			s := ""
			if n == len(b) {
				s = last
			}
			add(b[:n], s)
			if mode == "empty" && r.Intn(3) == 0 {
				add(nil, "")
			}
			b = b[n:]
		}
	}
	switch {
	case mode == "one":
		add(b, "")
	case mode == "eofdata":
		if len(b) == 0 {
			add(nil, "$")
		}
		cut(b, "$")
	case strings.HasPrefix(mode, "fault:"), strings.HasPrefix(mode, "faultdata:"):
		k := atoi(mode[strings.Index(mode, ":")+1:])
		if k > len(b) {
			k = len(b)
		}
		if strings.HasPrefix(mode, "faultdata:") && k > 0 {
			cut(b[:k], "!")
		} else {
			cut(b[:k], "")
			add(nil, "!")
		}
		cut(b[k:], "")
	case mode == "enderr": // every byte, then an I/O error instead of EOF
		cut(b, "")
		add(nil, "!")
	case mode == "enderrdata": // the error arrives together with the last bytes
		if len(b) == 0 {
			add(nil, "!")
		}
		cut(b, "!")
	default:
		cut(b, "")
	}
	if len(es) == 0 {
		return "-"
	}
	return strings.Join(es, ",")
}

func genExtD(ctx *Ctx, emit func(Case)) {
	r := ctx.R.Fork()
	corpus := classifyCorpus(r)
	var small [][]byte // genuine binary and armored messages below 3 kB, plus junk
	for _, c := range corpus {
		if len(c.msg) > 3000 {
			continue
		}
		small = append(small, c.msg)
		arm, _ := saltpack.Armor62Seal(c.msg, armorTypeFor(c.mode), prng.Pick(r, "", "KB"))
		small = append(small, []byte(arm), []byte(reflow(r, arm, 7)))
	}
	small = append(small, nil, []byte("BEGIN"), []byte("BEGIN SALTPACK ENCRYPTED MESSAGE."), r.Bytes(10), r.Bytes(30), bytes.Repeat([]byte("x "), 3000))

	// --- the bufio machine, call by call
	peeks := []int{0, 1, 15, 16, 17, 22, 23, 24, 64, 4095, 4096, 4097, 5000}
	reads := []int{0, 1, 7, 16, 23, 100, 4096, 5000}
	for k := 0; k < ctx.N(160, 3000); k++ {
		size := prng.Pick(r, 0, 16, 17, 23, 64, 4096)
		n := prng.Pick(r, 0, 1, 10, 30, 100, 5000)
		var es []string
		left := n
		for left > 0 || len(es) == 0 {
			c := 1 + r.Intn(prng.Pick(r, 5, 40, 40, 3000))
			if c > left {
				c = left
			}
			e := keys.Hex(r.Bytes(c))
			if c == 0 {
				e = "-"
			}
			switch r.Intn(12) {
			case 0:
				e += "!"
			case 1:
				e += "$"
			case 2:
				es = append(es, "-")
			}
			es = append(es, e)
			left -= c
			if c == 0 {
				break
			}
		}
		if r.Intn(8) == 0 { // more than 100 empty reads in a row: io.ErrNoProgress
			var em []string
			for i := 0; i < prng.Pick(r, 99, 100, 101); i++ {
				em = append(em, "-")
			}
			es = append(append(es[:len(es)/2:len(es)/2], em...), es[len(es)/2:]...)
		}
		var ops []string
		for i := 0; i < 2+r.Intn(10); i++ {
			if r.Intn(2) == 0 {
				ops = append(ops, fmt.Sprintf("p%d", peeks[r.Intn(len(peeks))]))
			} else {
				ops = append(ops, fmt.Sprintf("r%d", reads[r.Intn(len(reads))]))
			}
		}
		line := fmt.Sprintf("bf.trace %d %s %s", size, strings.Join(ops, ","), strings.Join(es, ","))
		out := goExec(line)
		emit(Case{Stream: "bufio.calls", Line: line, GoOut: out, Branch: fmt.Sprintf("size=%d/n=%d/full=%v/noprog=%v/err=%v", size, n, strings.Contains(out, "bufferfull"), strings.Contains(out, "noprogress"), strings.Contains(out, "io-error"))})
	}

	// --- ClassifyStream on scripted readers, then the reader is drained
	modes := []string{"one", "bytes", "rand", "eofdata", "empty", "fault", "faultdata"}
	for k := 0; k < ctx.N(220, 4000); k++ {
		b := small[r.Intn(len(small))]
		mode := modes[r.Intn(len(modes))]
		clean := !strings.HasPrefix(mode, "fault")
		if !clean {
			mode = fmt.Sprintf("%s:%d", mode, prng.Pick(r, 0, 1, 5, 22, 23, 60, r.Intn(len(b)+1), 4095, 4096, 4097))
		}
		size := prng.Pick(r, 16, 23, 64, 4096, 4096)
		capR := prng.Pick(r, 1, 7, 4096, 10000)
		if mode == "bytes" && len(b) > 400 {
			capR = 4096
		}
		line := fmt.Sprintf("bf.classify %d %d %s", size, capR, scriptOf(r, b, mode))
		out := goExec(line)
		bb, cleanC := b, clean
		emit(Case{Stream: "bufio.classify", Line: line, GoOut: out, Branch: fmt.Sprintf("%s/size=%d/%s", strings.Split(mode, ":")[0], size, strings.Fields(out)[0]),
			Direct: func() string {
				if cleanC && !strings.Contains(out, " rest="+hexOrDash(bb)+" end=eof") {
					return fmt.Sprintf("ClassifyStream consumed or duplicated input: after classification the reader delivers %s, the source holds %d bytes", trunc(out, 120), len(bb))
				}
				return ""
			}})
	}

	// --- the dispatcher against its model
	frags := []string{"whole", "bytes", "random", "random-eof", "halving"}
	for k := 0; k < ctx.N(36, 400); k++ {
		n := prng.Pick(r, 0, 1, 50, 700)
		var m specMsg
		switch k % 6 {
		case 0, 1:
			m = specEnc(r, 1+k%2, specOpts{min: prng.Pick(r, 0, 3)}, n)
		case 2, 3:
			m = specSc(r, specOpts{}, n)
		case 4:
			m = specAtt(r, 1+(k/6)%2, specOpts{}, n)
		default:
			m = specDet(r, 1+(k/6)%2, specOpts{}, n)
		}
		t := strings.Fields(m.open(m.msg))
		ringSpec, resolver := strings.Join([]string{"-", "std", "std", "std", "std"}, " "), "none"
		switch m.mode {
		case "enc":
			ringSpec = strings.Join(t[2:7], " ")
		case "sc":
			ringSpec, resolver = strings.Join(t[1:6], " "), t[6]
		}
		typ := saltpack.MessageTypeEncryption
		if m.mode == "att" {
			typ = saltpack.MessageTypeAttachedSignature
		} else if m.mode == "det" {
			typ = saltpack.MessageTypeDetachedSignature
		}
		arm, _ := saltpack.Armor62Seal(m.msg, typ, prng.Pick(r, "", "KB"))
		wrongFrame, _ := saltpack.Armor62Seal(m.msg, saltpack.MessageTypeAttachedSignature, "")
		variants := map[string][]byte{
			"binary": m.msg, "armored": []byte(arm), "reflowed": []byte(reflow(r, arm, 9)),
			"bin-truncated": m.msg[:len(m.msg)*2/3], "arm-truncated": []byte(arm[:len(arm)*2/3]),
			"bin-flipped": flipD(r, m.msg), "arm-flipped": flipD(r, []byte(arm)), "arm-wrong-frame": []byte(wrongFrame),
			"bin-trailing": append(append([]byte(nil), m.msg...), 0xc0), "arm-trailing": []byte(arm + " x"),
		}
		for name, src := range variants {
			if ctx.Quick && name != "binary" && name != "armored" && r.Intn(3) != 0 {
				continue
			}
			frag := frags[r.Intn(len(frags))]
			line := fmt.Sprintf("bf.dispatch %s %s %s %s", frag, ringSpec, resolver, keys.Hex(src))
			out := goExec(line)
			direct := ""
			if name == "binary" && (m.mode == "enc" || m.mode == "sc") {
				direct = goExec(m.open(m.msg))
			}
			mode, name := m.mode, name
			emit(Case{Stream: "dispatch.model", Line: line, GoOut: out, Cmp: dispatchCmp,
				Branch: fmt.Sprintf("%s/%s/%s/%s", mode, name, frag, strings.Fields(out)[0]+resClassD(out)),
				Direct: func() string {
					// (a flipped bit may hit the mode byte itself and turn a signature header into an encryption header:
					// seen in the thorough tier, `02` → `00`; model and code agree on it, so the refusal predicate is for
					// the variants that keep the header)
					if (mode == "att" || mode == "det") && !strings.HasSuffix(name, "-flipped") && !strings.HasPrefix(out, "fail ") {
						return fmt.Sprintf("ClassifyEncryptedStreamAndMakeDecoder does not refuse a %s message (%s): %s", mode, name, trunc(out, 100))
					}
					// same outcome as the direct entry point on the same bytes
					if direct != "" {
						i := strings.Index(out, " res ")
						if i < 0 || !resCmp(out[i+1:], direct) {
							return fmt.Sprintf("dispatcher and direct entry point differ on a %s message: %s vs %s", mode, trunc(out, 160), trunc(direct, 160))
						}
					}
					return ""
				}})
		}
		// the same through the bufio machine over a script: clean fragmentations; a fault inside the
		// classified range (refused as "not saltpack"); a fault AFTER it, binary and armored, alone or with data
		// (the decoder meets it); a source that delivers everything and ends in an error instead of EOF
		big := specEnc(r, 1+k%2, specOpts{}, 6000)
		if k%2 == 1 {
			big = specSc(r, specOpts{}, 6000)
		}
		bt := strings.Fields(big.open(big.msg))
		bigRing, bigRes := strings.Join(bt[2:7], " "), "none"
		if big.mode == "sc" {
			bigRing, bigRes = strings.Join(bt[1:6], " "), bt[6]
		}
		bigArm, _ := saltpack.Armor62Seal(big.msg, saltpack.MessageTypeEncryption, "")
		type mcase struct {
			smode, ring, res string
			src              []byte
			label            string
		}
		var mcs []mcase
		for _, smode := range []string{"rand", "eofdata", fmt.Sprintf("fault:%d", r.Intn(len(m.msg)+1)), "enderr", "enderrdata",
			fmt.Sprintf("faultdata:%d", 1+r.Intn(len(m.msg)))} {
			src, label := m.msg, "bin"
			if r.Bool() {
				src, label = []byte(arm), "arm"
			}
			mcs = append(mcs, mcase{smode, ringSpec, resolver, src, m.mode + "/" + label})
		}
		// beyond the peeked 4096 bytes
		for _, src := range [][]byte{big.msg, []byte(bigArm)} {
			if ctx.Quick && k%6 != 0 {
				break
			}
			label := big.mode + "/bigbin"
			if len(src) != len(big.msg) {
				label = big.mode + "/bigarm"
			}
			at := prng.Pick(r, 4096, 4097, 4200, 4096+r.Intn(len(src)-4096), len(src)-1, len(src))
			for _, smode := range []string{prng.Pick(r, "enderr", "enderrdata"), fmt.Sprintf("%s:%d", prng.Pick(r, "fault", "faultdata"), at), prng.Pick(r, "rand", "eofdata")} {
				if ctx.Quick && r.Intn(2) == 0 {
					continue
				}
				mcs = append(mcs, mcase{smode, bigRing, bigRes, src, label})
			}
		}
		for _, c := range mcs {
			if strings.HasPrefix(c.smode, "fault") && len(c.src) > 4096 && !strings.Contains(c.label, "big") {
				continue
			}
			line := fmt.Sprintf("bf.dispatchs %d %s %s %s", prng.Pick(r, 1, 100, 4096, 5000), c.ring, c.res, scriptOf(r, c.src, c.smode))
			out := goExec(line)
			emit(Case{Stream: "dispatch.machine", Line: line, GoOut: out, Cmp: dispatchCmp,
				Branch: fmt.Sprintf("%s/%s/%s", c.label, strings.Split(c.smode, ":")[0], strings.Fields(out)[0]+resClassD(out))})
		}
		// the source handed in already is a *bufio.Reader (bufio.NewReader returns it unchanged when its buffer is >= 4096 bytes)
		for i := 0; i < 2; i++ {
			src := m.msg
			if r.Bool() {
				src = []byte(arm)
			}
			size := prng.Pick(r, 4096, 4097, 8192, 65536, 100, 16)
			pre := prng.Pick(r, "-", "p1", "p23", "p4096", fmt.Sprintf("p%d", size), "r0", "p10,p5000", "r1", "r7,p30")
			smode := prng.Pick(r, "rand", "eofdata", "one", "enderr", fmt.Sprintf("fault:%d", r.Intn(len(src)+1)))
			line := fmt.Sprintf("bf.dispatchb %d %s %d %s %s %s", size, pre, prng.Pick(r, 1, 100, 4096), ringSpec, resolver, scriptOf(r, src, smode))
			out := goExec(line)
			emit(Case{Stream: "dispatch.bufio-source", Line: line, GoOut: out, Cmp: dispatchCmp,
				Branch: fmt.Sprintf("%s/size=%d/pre=%s/%s/%s", m.mode, size, pre, strings.Split(smode, ":")[0], strings.Fields(out)[0]+resClassD(out))})
		}
	}
	// non-saltpack and short inputs
	for k := 0; k < ctx.N(30, 300); k++ {
		src := small[len(small)-6+r.Intn(6)]
		if r.Intn(3) == 0 {
			c := corpus[r.Intn(len(corpus))]
			src = c.msg[:r.Intn(30)]
		}
		line := fmt.Sprintf("bf.dispatch %s - std std std std none %s", frags[r.Intn(len(frags))], hexOrDash(src))
		out := goExec(line)
		emit(Case{Stream: "dispatch.model", Line: line, GoOut: out, Cmp: dispatchCmp, Branch: "junk/" + strings.Join(strings.Fields(out)[:2], "-")})
	}
}

func resClassD(out string) string {
	if i := strings.Index(out, " res "); i >= 0 {
		return "/" + strings.Fields(out[i+5:])[0]
	}
	if f := strings.Fields(out); len(f) > 1 {
		return "/" + f[1]
	}
	return ""
}

func flipD(r *prng.R, b []byte) []byte {
	c := append([]byte(nil), b...)
	if len(c) > 0 {
		c[r.Intn(len(c))] ^= 1 << uint(r.Intn(8))
	}
	return c
}

func init() {
	regExtra("C16", genExtD)
}
