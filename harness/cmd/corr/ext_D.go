package main

// Extension slot D: request lines (goExecExtD) and generators (registered with regExtra) of one model extension.

func goExecExtD(t []string) (string, bool) {
	switch t[0] {
	}
	return "", false
}

func init() {
	// regExtra("Cnn", func(ctx *Ctx, emit func(Case)) { … })
}
