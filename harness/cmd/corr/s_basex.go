package main

import (
	"fmt"
	"math/big"
	"strings"

	"github.com/keybase/saltpack/encoding/basex"
	"verifharness/internal/keys"
	"verifharness/internal/prng"
)

const alpha62 = "0123456789ABCDEFGHIJKLMNOPQRSTUVWXYZabcdefghijklmnopqrstuvwxyz"
const alpha58 = "123456789ABCDEFGHJKLMNPQRSTUVWXYZabcdefghijkmnopqrstuvwxyz"

func strictOf(n string) string {
	if strings.HasSuffix(n, "s") {
		return n
	}
	return n + "s"
}

// basexEncCase: encode; oracle: decoding the output gives the input back, in the
// strict and in the skipping variant.
func basexEncCase(stream, enc string, b []byte) Case {
	line := fmt.Sprintf("bx.enc %s %s", enc, keys.Hex(b))
	return Case{Stream: stream, Line: line, GoOut: goExec(line), Branch: fmt.Sprintf("len%%32=%d", len(b)%32),
		Sample: map[string]string{"op": "bx.enc", "enc": enc, "bytes": keys.Hex(b)},
		Direct: func() string {
			e := encByName(enc)
			s := e.EncodeToString(b)
			d, err := e.DecodeString(s)
			if err != nil || string(d) != string(b) {
				return fmt.Sprintf("basex round trip fails: enc=%s bytes=%s encoded=%q decoded=%x err=%v", enc, keys.Hex(b), s, d, err)
			}
			if len(s) != e.EncodedLen(len(b)) {
				return fmt.Sprintf("basex EncodedLen mismatch: enc=%s bytes=%s", enc, keys.Hex(b))
			}
			return ""
		}}
}

// basexDecCase: decode; oracle (strict encodings): an accepted string is the
// encoding of what it decodes to.
func basexDecCase(stream, enc string, s []byte) Case {
	line := fmt.Sprintf("bx.dec %s %s", enc, keys.Hex(s))
	out := goExec(line)
	cmp := func(a, b string) bool {
		// error positions are compared, error kind too; ok bytes exact
		return a == b
	}
	branch := strings.Join(strings.Fields(out)[:1], "")
	if strings.HasPrefix(out, "err") {
		branch = strings.Join(strings.Fields(out)[:2], "-")
	}
	return Case{Stream: stream, Line: line, GoOut: out, Cmp: cmp, Branch: fmt.Sprintf("%s/len%%43=%d", branch, len(s)%43),
		Sample: map[string]string{"op": "bx.dec", "enc": enc, "chars": string(s)},
		Direct: func() string {
			e := encByName(enc)
			d, err := e.DecodeString(string(s))
			// the string form and the slice form are the same decoder: same verdict, same bytes
			d1 := make([]byte, e.DecodedLen(len(s))+8)
			n1, err1 := e.Decode(d1, s)
			if (err == nil) != (err1 == nil) || (err == nil && string(d) != string(d1[:n1])) {
				return fmt.Sprintf("basex DecodeString and Decode disagree on the same characters: enc=%s chars=%q DecodeString=(%x, %v) Decode=(%x, %v)", enc, s, d, err, d1[:n1], err1)
			}
			if err != nil {
				return ""
			}
			if strings.HasSuffix(enc, "s") {
				if e.EncodeToString(d) != string(s) {
					return fmt.Sprintf("basex strict decoding accepts a non-canonical string: enc=%s chars=%q decodes to %x whose encoding is %q", enc, s, d, e.EncodeToString(d))
				}
			} else {
				// skipping variant: same result as the strict one on the filtered string
				var f []byte
				al := alpha62
				if strings.HasPrefix(enc, "b58") {
					al = alpha58
				}
				// only the encoding's own skip characters may be dropped; anything else foreign must have been rejected
				skip := "\t\n\r >"
				if strings.HasPrefix(enc, "b58") {
					skip = "\t\n\r !\"#$%&'()*+,-./0:;<=>?@IOl[\\]^_`{|}~"
				}
				for _, c := range s {
					if strings.IndexByte(skip, c) < 0 {
						f = append(f, c)
					}
				}
				_ = al
				d2, err2 := encByName(strictOf(enc)).DecodeString(string(f))
				if err2 != nil || string(d2) != string(d) {
					return fmt.Sprintf("basex skipping decode differs from strict decode of the filtered string: enc=%s chars=%q", enc, s)
				}
			}
			return ""
		}}
}

func digitsString(al string, v *big.Int, n int) []byte {
	base := big.NewInt(int64(len(al)))
	out := make([]byte, n)
	x := new(big.Int).Set(v)
	r := new(big.Int)
	for i := n - 1; i >= 0; i-- {
		x.QuoRem(x, base, r)
		out[i] = al[r.Int64()]
	}
	return out
}

func genBasex(ctx *Ctx, emit func(Case)) {
	r := ctx.R.Fork()
	type encInfo struct {
		name, al string
		bl, cbl  int
		e        *basex.Encoding
	}
	encs := []encInfo{{"b62s", alpha62, 32, 43, basex.Base62StdEncodingStrict}, {"b62", alpha62, 32, 43, basex.Base62StdEncoding},
		{"b58s", alpha58, 19, 26, basex.Base58StdEncodingStrict}, {"b58", alpha58, 19, 26, basex.Base58StdEncoding}}
	for _, e := range encs {
		// --- encoding -----------------------------------------------------------
		for v := 0; v < 256; v++ { // every 1-byte block
			emit(basexEncCase("basex.enc.exh1", e.name, []byte{byte(v)}))
		}
		step := ctx.N(37, 1) // 2-byte blocks: every 37th quick, all thorough
		if e.name == "b62" || e.name == "b58" {
			step = ctx.N(251, 7)
		}
		for v := int(r.Intn(step)); v < 65536; v += step {
			emit(basexEncCase("basex.enc.exh2", e.name, []byte{byte(v >> 8), byte(v)}))
		}
		for n := 0; n <= e.bl; n++ { // every block length: zeros, 0xff, random
			emit(basexEncCase("basex.enc.extreme", e.name, make([]byte, n)))
			ff := make([]byte, n)
			for i := range ff {
				ff[i] = 0xff
			}
			emit(basexEncCase("basex.enc.extreme", e.name, ff))
			for k := 0; k < ctx.N(2, 20); k++ {
				emit(basexEncCase("basex.enc.random", e.name, r.Bytes(n)))
			}
		}
		for k := 0; k < ctx.N(40, 600); k++ { // multi-block
			n := e.bl*r.Intn(5) + r.Intn(e.bl+1)
			emit(basexEncCase("basex.enc.multiblock", e.name, r.Bytes(n)))
		}
		// --- decoding -----------------------------------------------------------
		strict := strings.HasSuffix(e.name, "s")
		al := e.al
		if strict { // all strings up to length 2 exhaustively, length 3 sampled/all
			emit(basexDecCase("basex.dec.exh", e.name, nil))
			for i := 0; i < len(al); i++ {
				emit(basexDecCase("basex.dec.exh", e.name, []byte{al[i]}))
				for j := 0; j < len(al); j++ {
					emit(basexDecCase("basex.dec.exh", e.name, []byte{al[i], al[j]}))
				}
			}
			n3 := len(al) * len(al) * len(al)
			step := ctx.N(97, 1)
			for v := r.Intn(step); v < n3; v += step {
				emit(basexDecCase("basex.dec.exh3", e.name, []byte{al[v/(len(al)*len(al))], al[v/len(al)%len(al)], al[v%len(al)]}))
			}
		}
		// boundary values for every character-block length
		for c := 1; c <= e.cbl; c++ {
			b := e.e.DecodedLen(c)
			pow := new(big.Int).Exp(big.NewInt(256), big.NewInt(int64(b)), nil)
			maxv := new(big.Int).Exp(big.NewInt(int64(len(al))), big.NewInt(int64(c)), nil)
			maxv.Sub(maxv, big.NewInt(1))
			cands := []*big.Int{new(big.Int).Sub(pow, big.NewInt(1)), pow, new(big.Int).Add(pow, big.NewInt(1)), maxv, big.NewInt(0), big.NewInt(1)}
			for _, v := range cands {
				if v.Sign() >= 0 && v.Cmp(maxv) <= 0 {
					emit(basexDecCase("basex.dec.boundary", e.name, digitsString(al, v, c)))
				}
			}
			for k := 0; k < ctx.N(3, 40); k++ {
				v := new(big.Int).SetBytes(r.Bytes(40))
				v.Mod(v, new(big.Int).Add(maxv, big.NewInt(1)))
				emit(basexDecCase("basex.dec.random", e.name, digitsString(al, v, c)))
			}
		}
		// multi-block strings: valid encodings, then mutated
		for k := 0; k < ctx.N(60, 800); k++ {
			n := e.bl*r.Intn(4) + r.Intn(e.bl+1)
			s := []byte(e.e.EncodeToString(r.Bytes(n)))
			switch r.Intn(6) {
			case 0: // as is
			case 1: // foreign character
				if len(s) > 0 {
					s[r.Intn(len(s))] = prng.Pick(r, byte('!'), byte('.'), byte(0), byte(0xff), byte('0'), byte('l'))
				}
			case 2: // drop last char
				if len(s) > 0 {
					s = s[:len(s)-1]
				}
			case 3: // append a char
				s = append(s, al[r.Intn(len(al))])
			case 4: // maximise a block
				if len(s) >= e.cbl {
					o := e.cbl * r.Intn(len(s)/e.cbl)
					for i := 0; i < e.cbl; i++ {
						s[o+i] = al[len(al)-1]
					}
				}
			case 5: // sprinkle skip characters
				var t []byte
				for _, c := range s {
					if r.Intn(4) == 0 {
						t = append(t, prng.Pick(r, byte(' '), byte('\n'), byte('>'), byte('\t'), byte('\r')))
					}
					t = append(t, c)
				}
				if r.Bool() {
					t = append(t, ' ', '\n')
				}
				s = t
			}
			emit(basexDecCase("basex.dec.multiblock", e.name, s))
		}
		// white space and its Unicode relatives at the ENDS only (what a trimming convenience would eat)
		for k := 0; k < ctx.N(24, 200); k++ {
			s := e.e.EncodeToString(r.Bytes(prng.Pick(r, 0, 1, e.bl, e.bl+3, 2*e.bl)))
			ends := []string{" ", "\n", "\t", "\r", "\v", "\f", "\xc2\x85", "\xc2\xa0", "\xe2\x80\x83", ">", "  \n"}
			pre, post := "", ""
			switch k % 3 {
			case 0:
				pre = ends[r.Intn(len(ends))]
			case 1:
				post = ends[r.Intn(len(ends))]
			default:
				pre, post = ends[r.Intn(len(ends))], ends[r.Intn(len(ends))]
			}
			emit(basexDecCase("basex.dec.ends", e.name, []byte(pre+s+post)))
		}
		// --- length helpers -------------------------------------------------------
		for n := 0; n <= ctx.N(140, 2000); n++ {
			for _, k := range []string{"e", "d"} {
				line := fmt.Sprintf("bx.len %s %s %d", e.name, k, n)
				emit(Case{Stream: "basex.len", Line: line, GoOut: goExec(line), Branch: k})
			}
			if n <= e.cbl {
				line := fmt.Sprintf("bx.len %s v %d", e.name, n)
				emit(Case{Stream: "basex.len", Line: line, GoOut: goExec(line), Branch: "v"})
			}
		}
	}
}

func init() {
	register("C10", &propDef{
		streams: func(ctx *Ctx, emit func(Case)) { genBasex(ctx, emit); genBasexStream(ctx, emit) },
		level:   "proof",
		assumptions: []string{
			"math/big arithmetic and the float helpers are exercised, not verified: their per-block answers are regenerated into Lean tables on every run and checked by the kernel against exact integer arithmetic; block-periodicity of the helpers is checked by the extractor for 40 blocks",
		},
		trusted: []string{"harness/cmd/extract (tables by running the code)", "harness/cmd/corr generators and comparison", "Go runtime: math/big, math.Log2/Ceil/Floor"},
	})
}
