package main

// C16: the three header fields the binary classifier decodes through go-codec
// (`Decode(&formatName)`, `Decode(&version)`, `Decode(&msgType)`) in EVERY shape
// go-codec's typed decoding accepts or refuses: the format name as bin/str of
// every width, as an array of small ints (go-codec's DecodeString accepts arrays
// of uint8), as a map, nil, bool, float; the version as array / map keyed by
// codec names / nil / with surplus elements (swallowed) / wide and wrapping
// ints; the mode as wide ints, a uint64 that wraps, nil (= 0 = encryption),
// bool, float.  Genuine headers are re-encoded with one (sometimes two) such
// field and sent to IsSaltpackBinarySlice, ClassifyStream, IsSaltpackArmoredPrefix
// (armored) and ClassifyEncryptedStreamAndMakeDecoder.

import (
	"encoding/binary"
	"fmt"
	"strings"

	"github.com/keybase/saltpack"
	"verifharness/internal/keys"
	"verifharness/internal/prng"
)

type fieldShape struct {
	label string
	raw   []byte
}

func intsRaw(tag []byte, b []byte, enc func(byte) []byte) []byte {
	out := append([]byte(nil), tag...)
	for _, x := range b {
		out = append(out, enc(x)...)
	}
	return out
}

func nameShapes() []fieldShape {
	n := []byte("saltpack")
	fix := func(x byte) []byte { return []byte{x} }
	u8 := func(x byte) []byte { return []byte{0xcc, x} }
	u16 := func(x byte) []byte { return []byte{0xcd, 0, x} }
	i8 := func(x byte) []byte { return []byte{0xd0, x} }
	u64 := func(x byte) []byte { return []byte{0xcf, 0, 0, 0, 0, 0, 0, 0, x} }
	withNil := intsRaw([]byte{0x98}, n, fix)
	withNil[3] = 0xc0
	big := intsRaw([]byte{0x98}, n[:7], fix)
	big = append(big, 0xcd, 0x01, 0x6b) // last element 363: uint8 overflow
	neg := intsRaw([]byte{0x98}, n[:7], fix)
	neg = append(neg, 0xd0, 0xeb)
	return []fieldShape{
		{"name.str", append([]byte{0xa8}, n...)},
		{"name.str8", append([]byte{0xd9, 8}, n...)},
		{"name.str16", append([]byte{0xda, 0, 8}, n...)},
		{"name.str32", append([]byte{0xdb, 0, 0, 0, 8}, n...)},
		{"name.bin8", append([]byte{0xc4, 8}, n...)},
		{"name.bin16", append([]byte{0xc5, 0, 8}, n...)},
		{"name.bin32", append([]byte{0xc6, 0, 0, 0, 8}, n...)},
		{"name.ints", intsRaw([]byte{0x98}, n, fix)},
		{"name.ints16", intsRaw([]byte{0xdc, 0, 8}, n, fix)},
		{"name.ints32", intsRaw([]byte{0xdd, 0, 0, 0, 8}, n, fix)},
		{"name.ints.u8", intsRaw([]byte{0x98}, n, u8)},
		{"name.ints.u16", intsRaw([]byte{0x98}, n, u16)},
		{"name.ints.i8", intsRaw([]byte{0x98}, n, i8)},
		{"name.ints.u64", intsRaw([]byte{0x98}, n, u64)},
		{"name.ints.nil", withNil},
		{"name.ints.overflow", big},
		{"name.ints.negative", neg},
		{"name.ints.short", intsRaw([]byte{0x97}, n[:7], fix)},
		{"name.ints.long", intsRaw([]byte{0x99}, append(append([]byte(nil), n...), 'x'), fix)},
		{"name.ints.bool", append(intsRaw([]byte{0x98}, n[:7], fix), 0xc3)},
		{"name.ints.str", append(intsRaw([]byte{0x98}, n[:7], fix), 0xa1, 'k')},
		{"name.ints.float", append(intsRaw([]byte{0x98}, n[:7], fix), 0xca, 0x42, 0xd6, 0, 0)},
		{"name.arr0", []byte{0x90}},
		{"name.map", intsRaw([]byte{0x84}, n, fix)},
		{"name.map0", []byte{0x80}},
		{"name.nil", []byte{0xc0}},
		{"name.true", []byte{0xc3}},
		{"name.int", []byte{0x08}},
		{"name.float", []byte{0xcb, 0, 0, 0, 0, 0, 0, 0, 0}},
		{"name.ext", []byte{0xd4, 5, 0}},
		{"name.c1", []byte{0xc1}},
		{"name.wrong", append([]byte{0xa8}, []byte("saltpacK")...)},
		{"name.empty", []byte{0xa0}},
	}
}

func versionShapes(major byte) []fieldShape {
	key := func(s string) []byte { return append([]byte{0xa0 | byte(len(s))}, s...) }
	cat := func(parts ...[]byte) []byte {
		var out []byte
		for _, p := range parts {
			out = append(out, p...)
		}
		return out
	}
	m := []byte{major}
	return []fieldShape{
		{"ver.arr", []byte{0x92, major, 0}},
		{"ver.arr16", []byte{0xdc, 0, 2, major, 0}},
		{"ver.arr32", []byte{0xdd, 0, 0, 0, 2, major, 0}},
		{"ver.arr1", []byte{0x91, major}},
		{"ver.arr0", []byte{0x90}},
		{"ver.nil", []byte{0xc0}},
		{"ver.extra.int", []byte{0x93, major, 0, 5}},
		{"ver.extra.nil", []byte{0x93, major, 0, 0xc0}},
		{"ver.extra.nested", []byte{0x94, major, 0, 0x91, 0x90, 0x81, 0xa1, 'k', 0xc3}},
		{"ver.extra.str", []byte{0x93, major, 0, 0xa2, 'h', 'i'}},
		{"ver.extra.float", []byte{0x93, major, 0, 0xca, 0, 0, 0, 0}},
		{"ver.extra.ext", []byte{0x93, major, 0, 0xd4, 5, 0}},
		{"ver.extra.ext0", []byte{0x93, major, 0, 0xc7, 0, 5, 1}},
		{"ver.extra.c1", []byte{0x93, major, 0, 0xc1}},
		{"ver.extra.mapkeyarr", []byte{0x93, major, 0, 0x81, 0x90, 1}},
		{"ver.minor7", []byte{0x92, major, 7}},
		{"ver.u8", []byte{0x92, 0xcc, major, 0xd0, 0}},
		{"ver.u16.i16", []byte{0x92, 0xcd, 0, major, 0xd1, 0, 0}},
		{"ver.u32.i32", []byte{0x92, 0xce, 0, 0, 0, major, 0xd2, 0, 0, 0, 0}},
		{"ver.u64.i64", []byte{0x92, 0xcf, 0, 0, 0, 0, 0, 0, 0, major, 0xd3, 0, 0, 0, 0, 0, 0, 0, 0}},
		{"ver.u64wrap", []byte{0x92, 0xcf, 0xff, 0xff, 0xff, 0xff, 0xff, 0xff, 0xff, 0xff, 0}},
		{"ver.u64top", []byte{0x92, 0xcf, 0x80, 0, 0, 0, 0, 0, 0, major, 0}},
		{"ver.neg", []byte{0x92, 0xff, 0xd0, 0x80}},
		{"ver.nilmajor", []byte{0x92, 0xc0, 0}},
		{"ver.nilminor", []byte{0x92, major, 0xc0}},
		{"ver.bool", []byte{0x92, 0xc3, 0}},
		{"ver.float", []byte{0x92, 0xca, 0x40, 0, 0, 0, 0}},
		{"ver.strmajor", []byte{0x92, 0xa1, '2', 0}},
		{"ver.map", cat([]byte{0x82}, key("major"), m, key("minor"), []byte{0})},
		{"ver.map.rev", cat([]byte{0x82}, key("minor"), []byte{0}, key("major"), m)},
		{"ver.map.major", cat([]byte{0x81}, key("major"), m)},
		{"ver.map.unknown", cat([]byte{0x83}, key("major"), m, key("x"), []byte{0x91, 5}, key("minor"), []byte{0})},
		{"ver.map.twice", cat([]byte{0x83}, key("major"), []byte{9}, key("minor"), []byte{0}, key("major"), m)},
		{"ver.map.binkey", cat([]byte{0x81, 0xc4, 5}, []byte("major"), m)},
		{"ver.map.intskey", cat([]byte{0x81, 0x95}, []byte("major"), m)},
		{"ver.map.emptykey", cat([]byte{0x81, 0xa0}, m)},
		{"ver.map.nilkey", cat([]byte{0x81, 0xc0}, m)},
		{"ver.map.intkey", cat([]byte{0x81, 0x01}, m)},
		{"ver.map.prefixkey", cat([]byte{0x81}, key("majo"), m)},
		{"ver.map.nilval", cat([]byte{0x82}, key("major"), []byte{0xc0}, key("minor"), []byte{0})},
		{"ver.map16", cat([]byte{0xde, 0, 1}, key("major"), m)},
		{"ver.map0", []byte{0x80}},
		{"ver.int", []byte{major}},
		{"ver.str", []byte{0xa2, '2', '0'}},
		{"ver.bin", []byte{0xc4, 2, major, 0}},
		{"ver.true", []byte{0xc3}},
		{"ver.float64", []byte{0xcb, 0x40, 0, 0, 0, 0, 0, 0, 0}},
	}
}

func modeShapes(mode byte) []fieldShape {
	return []fieldShape{
		{"mode.fix", []byte{mode}},
		{"mode.u8", []byte{0xcc, mode}},
		{"mode.u16", []byte{0xcd, 0, mode}},
		{"mode.u32", []byte{0xce, 0, 0, 0, mode}},
		{"mode.u64", []byte{0xcf, 0, 0, 0, 0, 0, 0, 0, mode}},
		{"mode.i8", []byte{0xd0, mode}},
		{"mode.i16", []byte{0xd1, 0, mode}},
		{"mode.i32", []byte{0xd2, 0, 0, 0, mode}},
		{"mode.i64", []byte{0xd3, 0, 0, 0, 0, 0, 0, 0, mode}},
		{"mode.u64.2^32", []byte{0xcf, 0, 0, 0, 1, 0, 0, 0, mode}},
		{"mode.u64wrap", []byte{0xcf, 0xff, 0xff, 0xff, 0xff, 0xff, 0xff, 0xff, 0xff}},
		{"mode.u64top", []byte{0xcf, 0x80, 0, 0, 0, 0, 0, 0, mode}},
		{"mode.u32big", []byte{0xce, 0xff, 0xff, 0xff, 0xff}},
		{"mode.i64min", []byte{0xd3, 0x80, 0, 0, 0, 0, 0, 0, 0}},
		{"mode.4", []byte{4}},
		{"mode.127", []byte{0x7f}},
		{"mode.neg", []byte{0xff}},
		{"mode.i8neg", []byte{0xd0, 0xfd}},
		{"mode.nil", []byte{0xc0}},
		{"mode.false", []byte{0xc2}},
		{"mode.true", []byte{0xc3}},
		{"mode.float32", []byte{0xca, 0, 0, 0, 0}},
		{"mode.float64", []byte{0xcb, 0, 0, 0, 0, 0, 0, 0, 0}},
		{"mode.str", []byte{0xa1, '0' + mode}},
		{"mode.bin", []byte{0xc4, 1, mode}},
		{"mode.arr", []byte{0x91, mode}},
		{"mode.arr0", []byte{0x90}},
		{"mode.map0", []byte{0x80}},
		{"mode.ext", []byte{0xd4, 1, mode}},
		{"mode.c1", []byte{0xc1}},
	}
}

// reheader rebuilds a message whose header array has its first three elements
// replaced by the given raw encodings (nil = keep the genuine one)
func reheader(inner *MV, packets [][]byte, raw [3][]byte, a16 bool) []byte {
	n := len(inner.Arr)
	var body []byte
	if a16 {
		body = []byte{0xdc, byte(n >> 8), byte(n)}
	} else {
		body = []byte{0x90 | byte(n)}
	}
	for i, e := range inner.Arr {
		if i < 3 && raw[i] != nil {
			body = append(body, raw[i]...)
		} else {
			body = append(body, mpEncode(e)...)
		}
	}
	var hdr []byte
	switch {
	case len(body) < 256:
		hdr = append([]byte{0xc4, byte(len(body))}, body...)
	case len(body) < 65536:
		hdr = append([]byte{0xc5, byte(len(body) >> 8), byte(len(body))}, body...)
	default:
		h := []byte{0xc6, 0, 0, 0, 0}
		binary.BigEndian.PutUint32(h[1:], uint32(len(body)))
		hdr = append(h, body...)
	}
	return joinMsg(hdr, packets)
}

func genClassifyShapes(ctx *Ctx, emit func(Case)) {
	r := ctx.R.Fork()
	type src struct {
		m               specMsg
		mode            byte
		major           byte
		ringSpec, resol string
	}
	var srcs []src
	mk := func(m specMsg, mode, major byte) {
		t := strings.Fields(m.open(m.msg))
		ringSpec, resolver := strings.Join([]string{"-", "std", "std", "std", "std"}, " "), "none"
		switch m.mode {
		case "enc":
			ringSpec = strings.Join(t[2:7], " ")
		case "sc":
			ringSpec, resolver = strings.Join(t[1:6], " "), t[6]
		}
		srcs = append(srcs, src{m, mode, major, ringSpec, resolver})
	}
	mk(specEnc(r, 2, specOpts{}, 20), 0, 2)
	mk(specEnc(r, 1, specOpts{}, 20), 0, 1)
	mk(specSc(r, specOpts{}, 20), 3, 2)
	mk(specAtt(r, 2, specOpts{}, 20), 1, 2)
	mk(specDet(r, 1, specOpts{}, 20), 2, 1)

	for si, s := range srcs {
		_, inner, packets, _ := splitMsg(s.m.msg)
		if inner == nil || inner.K != mvArr || len(inner.Arr) < 5 || len(inner.Arr) > 15 {
			panic("classify.shapes: unexpected genuine header")
		}
		var muts []struct {
			label string
			raw   [3][]byte
		}
		for _, f := range nameShapes() {
			muts = append(muts, struct {
				label string
				raw   [3][]byte
			}{f.label, [3][]byte{f.raw, nil, nil}})
		}
		for _, f := range versionShapes(s.major) {
			muts = append(muts, struct {
				label string
				raw   [3][]byte
			}{f.label, [3][]byte{nil, f.raw, nil}})
		}
		for _, f := range modeShapes(s.mode) {
			muts = append(muts, struct {
				label string
				raw   [3][]byte
			}{f.label, [3][]byte{nil, nil, f.raw}})
		}
		// combinations: every field in an unusual but accepted shape
		ns, vs, ms := nameShapes(), versionShapes(s.major), modeShapes(s.mode)
		for k := 0; k < ctx.N(6, 80); k++ {
			a, b, c := ns[r.Intn(len(ns))], vs[r.Intn(len(vs))], ms[r.Intn(len(ms))]
			muts = append(muts, struct {
				label string
				raw   [3][]byte
			}{"combo:" + a.label + "+" + b.label + "+" + c.label, [3][]byte{a.raw, b.raw, c.raw}})
		}
		for mi, mu := range muts {
			if ctx.Quick && si > 0 && (mi+si)%3 != 0 && !strings.HasPrefix(mu.label, "name.ints") {
				continue
			}
			msg := reheader(inner, packets, mu.raw, mi%5 == 4)
			label := strings.SplitN(mu.label, ":", 2)[0]
			if label != "combo" {
				label = mu.label
			}
			// the slice classifier on the whole message and on short prefixes (a field may now end after byte 23)
			for _, k := range []int{23, 26, 32, 40, len(msg)} {
				if k > len(msg) {
					k = len(msg)
				}
				line := "cl.bin " + keys.Hex(msg[:k])
				out := goExec(line)
				emit(Case{Stream: "classify.binary.shapes", Line: line, GoOut: out, Branch: fmt.Sprintf("%s/k=%d/%s", label, k, strings.Fields(out)[0]),
					Sample: map[string]interface{}{"op": "IsSaltpackBinarySlice", "field_shape": mu.label, "prefix_len": k, "answer": out}})
			}
			line := fmt.Sprintf("cl.stream %d %s", prng.Pick(r, 23, 64, 4096), keys.Hex(msg))
			out := goExec(line)
			emit(Case{Stream: "classify.stream.shapes", Line: line, GoOut: out, Branch: label + "/" + strings.Fields(out)[0],
				Direct: func() string {
					if strings.Contains(out, "CONSUMED") {
						return "ClassifyStream consumed input: " + trunc(line, 200)
					}
					return ""
				}})
			arm, _ := saltpack.Armor62Seal(msg, armorTypeFor(int(s.mode)), prng.Pick(r, "", "KB"))
			cut := len(arm)
			if r.Intn(3) == 0 {
				cut = 60 + r.Intn(len(arm)-59)
				if cut > len(arm) {
					cut = len(arm)
				}
			}
			lineA := "cl.arm " + keys.Hex([]byte(arm[:cut]))
			outA := goExec(lineA)
			emit(Case{Stream: "classify.armored.shapes", Line: lineA, GoOut: outA, Branch: label + "/" + strings.Fields(outA)[0]})
			// the dispatcher (binary and armored)
			if s.m.mode == "enc" || s.m.mode == "sc" || mi%4 == 0 {
				for vi, b := range [][]byte{msg, []byte(arm)} {
					if ctx.Quick && vi == 1 && mi%2 == 1 {
						continue
					}
					lineD := fmt.Sprintf("bf.dispatch %s %s %s %s", prng.Pick(r, "whole", "random", "bytes"), s.ringSpec, s.resol, keys.Hex(b))
					outD := goExec(lineD)
					emit(Case{Stream: "dispatch.shapes", Line: lineD, GoOut: outD, Cmp: dispatchCmp,
						Branch: fmt.Sprintf("%s/%s/arm=%v/%s", s.m.mode, label, vi == 1, strings.Fields(outD)[0]+resClassD(outD))})
				}
			}
		}
	}
}

func init() {
	regExtra("C16", genClassifyShapes)
}
