package main

import (
	"io"
	"fmt"

	"github.com/keybase/saltpack"
	"verifharness/internal/keys"
	"verifharness/internal/script"
)

func goExecMore2(t []string) (string, bool) {
	switch t[0] {
	case "enc.sendercalls": // ma mi sender recips eph src
		v := version(t[1], t[2])
		src := parseSource(t[6])
		c := parseEph(t[5], src)
		log := &keys.Log{}
		var sender saltpack.BoxSecretKey
		if t[3] != "anon" {
			sender = keys.NewBoxSecret(unhex(t[3]), false, log, c)
		}
		rs := parseRecips(t[4], c)
		var err error
		script.With(src, func() { _, err = saltpack.Seal(v, []byte("x"), sender, rs) })
		if err != nil {
			return "err " + script.Class(err), true
		}
		return "ok " + log.String(), true
	case "sig.signcalls", "sig.detcalls":
		v := version(t[1], t[2])
		log := &keys.Log{}
		signer := keys.NewSigSecret(unhex(t[3]), log)
		src := parseSource(t[4])
		var err error
		if t[0] == "sig.signcalls" {
			script.With(src, func() {
				if currentWrites != nil {
					_, err = viaStream(unhex(t[6]), func(w io.Writer) (io.WriteCloser, error) { return saltpack.NewSignStream(v, w, signer) })
				} else {
					_, err = saltpack.Sign(v, unhex(t[6]), signer)
				}
			})
		} else {
			script.With(src, func() {
				if currentWrites != nil {
					_, err = viaStream(unhex(t[5]), func(w io.Writer) (io.WriteCloser, error) { return saltpack.NewSignDetachedStream(v, w, signer) })
				} else {
					_, err = saltpack.SignDetached(v, unhex(t[5]), signer)
				}
			})
		}
		if err != nil {
			return "err " + script.Class(err), true
		}
		return "ok " + log.String(), true
	case "sc.signcalls": // sender recips(1) eph pk bs pt
		log := &keys.Log{}
		var sender saltpack.SigningSecretKey
		if t[1] != "anon" {
			sender = keys.NewSigSecret(unhex(t[1]), log)
		}
		c := &keys.EphCreator{Secret: unhex(t[3])}
		boxes, syms := parseSRecips(t[2], c)
		src := &script.Source{Reads: []script.Read{{Data: unhex(t[4])}}}
		var err error
		script.With(src, func() {
			if currentWrites != nil {
				_, err = viaStream(unhex(t[6]), func(w io.Writer) (io.WriteCloser, error) {
					return saltpack.NewSigncryptSealStream(w, c, sender, boxes, syms)
				})
			} else {
				_, err = saltpack.SigncryptSeal(unhex(t[6]), c, sender, boxes, syms)
			}
		})
		if err != nil {
			return "err " + script.Class(err), true
		}
		return "ok " + log.String(), true
	}
	return goExecMore3(t)
}

var _ = fmt.Sprintf
