// Command corr is the correspondence check: it runs the real keybase/saltpack
// code (built from /repo's working tree with the `verif` tag) and the compiled
// Lean model (`spmodel`) on the same seeded inputs and diffs canonicalised
// outputs; it evaluates each property's own predicate on the implementation
// (cheap oracles on every case, neighbourhood searches on disagreement); and it
// writes the evidence file and the verdict lines for one property.
package main

import (
	"encoding/json"
	"flag"
	"fmt"
	"os"
	"runtime"
	"sort"
	"strings"
	"time"

	"verifharness/internal/model"
	"verifharness/internal/prng"
)

// LeanReport is produced by ./check from the Lean build + audit.
type LeanReport struct {
	OK          bool     `json:"ok"`
	ModelOK     bool     `json:"model_ok"` // spmodel was built
	Obligations int      `json:"obligations"`
	Discharged  int      `json:"discharged"`
	Theorems    []string `json:"theorems"`
	Failed      []string `json:"failed"`
	Axioms      []string `json:"axioms"`
	CheckerCmd  string   `json:"checker_cmd"`
	Log         string   `json:"log"`
	GenFacts    []string `json:"generated_facts"`
	Inventory   []string `json:"inventory_mismatches"`
}

type propDef struct {
	streams     func(ctx *Ctx, emit func(Case))
	level       string
	assumptions []string
	trusted     []string
}

// Ctx carries the per-run parameters to generators.
type Ctx struct {
	Prop  string
	Tier  string
	Seed  int64
	R     *prng.R
	Quick bool
}

// N scales a case count by tier.
func (c *Ctx) N(quick, thorough int) int {
	if c.Quick {
		return quick
	}
	return thorough
}

var props = map[string]*propDef{}

func register(id string, p *propDef) { props[id] = p }

// regExtra adds generators to a property registered elsewhere (extension slots); applied when the property runs.
var extraStreams = map[string][]func(ctx *Ctx, emit func(Case)){}

func regExtra(id string, gen func(ctx *Ctx, emit func(Case))) {
	extraStreams[id] = append(extraStreams[id], gen)
}

func main() {
	prop := flag.String("prop", "", "property id")
	tier := flag.String("tier", "quick", "quick|thorough")
	seed := flag.Int64("seed", 1, "seed")
	modelPath := flag.String("model", "/verif/lean/.lake/build/bin/spmodel", "spmodel binary")
	evidence := flag.String("evidence", "", "evidence file")
	leanReport := flag.String("lean", "", "lean report json")
	replayDir := flag.String("replays", "/verif/replays", "replay dir")
	known := flag.String("known", "/verif/known_findings.txt", "known findings")
	replay := flag.String("replay", "", "replay a stored case")
	rounds := flag.Int("rounds", 1, "how many times the generators run, each with a PRNG forked from the seed (thorough tier)")
	child := flag.Bool("child", false, "child mode: execute request lines from stdin, report allocation (C15 memory clause)")
	flag.Parse()
	if *child {
		childMain()
		return
	}

	if *replay != "" {
		os.Exit(doReplay(*replay, *modelPath))
	}
	pd, ok := props[*prop]
	if !ok {
		fmt.Fprintf(os.Stderr, "unknown property %q\n", *prop)
		os.Exit(2)
	}
	var lr LeanReport
	lr.OK, lr.ModelOK = true, true
	if *leanReport != "" {
		b, err := os.ReadFile(*leanReport)
		if err == nil {
			_ = json.Unmarshal(b, &lr)
		}
	}
	ctx := &Ctx{Prop: *prop, Tier: *tier, Seed: *seed, R: prng.New(uint64(*seed)*1000003 + hashStr(*prop)), Quick: *tier != "thorough"}
	st := newStats()
	workers := runtime.NumCPU()
	if workers > 16 {
		workers = 16
	}
	var pool *model.Pool
	if lr.ModelOK {
		var err error
		pool, err = model.NewPool(*modelPath, workers)
		if err != nil {
			fmt.Fprintf(os.Stderr, "cannot start model: %v\n", err)
			lr.ModelOK = false
		}
	}
	allStreams := func(ctx *Ctx, emit func(Case)) {
		pd.streams(ctx, emit)
		for _, g := range extraStreams[*prop] {
			g(ctx, emit)
		}
	}
	if pool != nil {
		gm, err := model.Start(*modelPath)
		if err == nil {
			genModel = gm
			defer gm.Close()
		}
		runCases(pool, workers, func(emit func(Case)) {
			for round := 0; round < *rounds; round++ {
				if round > 0 {
					ctx.R = prng.New(uint64(*seed)*1000003 + hashStr(*prop) + uint64(round)*0x9e3779b97f4a7c15)
				}
				allStreams(ctx, emit)
			}
		}, st)
		pool.Close()
	} else {
		// implementation-only: evaluate the property predicates directly
		allStreams(ctx, func(c Case) {
			st.Evaluations++
			st.ByStream[c.Stream]++
			if c.Direct != nil {
				if f := c.Direct(); f != "" {
					st.DirectFail = append(st.DirectFail, Disagreement{Stream: c.Stream, Line: c.Line, GoOut: c.GoOut, Failing: f, Sample: c.Sample})
				}
			}
			if c.Predicate != nil {
				if f := c.Predicate(); f != "" {
					st.DirectFail = append(st.DirectFail, Disagreement{Stream: c.Stream, Line: c.Line, GoOut: c.GoOut, Failing: f, Sample: c.Sample})
				}
			}
		})
	}

	if dump := os.Getenv("VERIF_DUMP_DISAGREEMENTS"); dump != "" { // debugging aid: every disagreement, one JSON object per line
		if f, err := os.Create(dump); err == nil {
			enc := json.NewEncoder(f)
			for _, d := range st.Disagreements {
				enc.Encode(d)
			}
			for _, d := range st.DirectFail {
				enc.Encode(d)
			}
			f.Close()
		}
	}
	// ---- verdict -----------------------------------------------------------
	findings := loadKnown(*known)
	violations := 0
	var lines []string
	n := 0
	report := func(failing string, d interface{}, what string) {
		// known finding?
		for _, k := range findings {
			if k.Property == *prop && k.Key != "" && strings.Contains(failing+" "+what, k.Key) {
				lines = append(lines, fmt.Sprintf("KNOWN-FINDING: property=%s %s", *prop, k.Text))
				return
			}
		}
		n++
		violations++
		path := writeReplay(*replayDir, *prop, *seed, n, map[string]interface{}{
			"property": *prop, "seed": *seed, "tier": *tier, "what": what, "failing_input": failing, "detail": d,
			"replay_cmd": fmt.Sprintf("./check %s --replay <this file>", *prop),
		})
		suffix := ""
		if failing == "" {
			suffix = " no-failing-input-found"
		}
		lines = append(lines, fmt.Sprintf("VIOLATION property=%s replay=%s%s", *prop, path, suffix))
	}
	// direct predicate failures are failing inputs on the implementation
	for i, d := range st.DirectFail {
		if i >= 3 {
			break
		}
		report(d.Failing, d, "property predicate fails on the implementation")
	}
	// model/code disagreements
	if len(st.DirectFail) == 0 {
		// disagreements for which the search found a failing input come first
		sort.SliceStable(st.Disagreements, func(i, j int) bool {
			return st.Disagreements[i].Failing != "" && st.Disagreements[j].Failing == ""
		})
		for i, d := range st.Disagreements {
			if i >= 3 {
				break
			}
			report(d.Failing, d, "correspondence "+d.Stream+" no longer checks: model and implementation disagree")
		}
	}
	// broken Lean obligations
	if !lr.OK && violations == 0 {
		what := "Lean obligations no longer check: " + strings.Join(lr.Failed, ", ")
		if len(lr.Inventory) > 0 {
			what += "; inventory: " + strings.Join(lr.Inventory, "; ")
		}
		report("", map[string]interface{}{"failed": lr.Failed, "log": lr.Log, "inventory": lr.Inventory}, what)
	}
	// known findings that are theorem-level (printed every run while listed)
	for _, k := range findings {
		if k.Property == *prop && strings.HasPrefix(k.Key, "static:") {
			lines = append(lines, fmt.Sprintf("KNOWN-FINDING: property=%s %s", *prop, k.Text))
		}
	}

	// ---- evidence ----------------------------------------------------------
	cov := map[string]interface{}{
		"obligations":               lr.Obligations,
		"discharged":                lr.Discharged,
		"checker_cmd":               lr.CheckerCmd,
		"trusted_base":              append([]string{"Lean 4.33 kernel; axioms used by the property theorems: " + strings.Join(lr.Axioms, ", ")}, pd.trusted...),
		"theorems":                  lr.Theorems,
		"generated_facts":           lr.GenFacts,
		"evaluations":               st.Evaluations,
		"distinct_nontrivial":       len(st.distinct),
		"rule":                      "correspondence: each case is one input given to the real code and to the compiled Lean model; distinct = distinct (stream, request line) hashes among cases not marked trivial by their generator (rejected before reaching the modelled logic)",
		"streams":                   st.ByStream,
		"generator_rounds":          *rounds,
		"branches":                  topBranches(st.ByBranch, 40),
		"unmodelled":                st.Unmodelled,
		"disagreements":             len(st.Disagreements),
		"property_predicate_failed": len(st.DirectFail),
		"samples":                   st.Samples,
	}
	if len(st.Samples) == 0 {
		cov["samples"] = []interface{}{map[string]interface{}{"theorems": lr.Theorems}}
	}
	if pd.assumptions == nil {
		pd.assumptions = []string{}
	}
	ev := Evidence{PropertyID: *prop, Tier: *tier, Seed: *seed, Level: pd.level, Coverage: cov,
		Assumptions: pd.assumptions, WallS: time.Since(startTime).Seconds(), Violations: violations}
	if *evidence != "" {
		if err := writeJSON(*evidence, ev); err != nil {
			fmt.Fprintf(os.Stderr, "evidence: %v\n", err)
		}
	}
	sort.Strings(lines)
	seen := map[string]bool{}
	for _, l := range lines {
		if !seen[l] {
			fmt.Println(l)
			seen[l] = true
		}
	}
	fmt.Printf("corr %s tier=%s seed=%d evaluations=%d distinct=%d unmodelled=%d disagreements=%d predicate_failures=%d lean_ok=%v wall=%.1fs\n",
		*prop, *tier, *seed, st.Evaluations, len(st.distinct), st.Unmodelled, len(st.Disagreements), len(st.DirectFail), lr.OK, time.Since(startTime).Seconds())
	if violations > 0 {
		os.Exit(1)
	}
}

func hashStr(s string) uint64 {
	var h uint64 = 1469598103934665603
	for i := 0; i < len(s); i++ {
		h ^= uint64(s[i])
		h *= 1099511628211
	}
	return h
}

func doReplay(path, modelPath string) int {
	b, err := os.ReadFile(path)
	if err != nil {
		fmt.Fprintln(os.Stderr, err)
		return 2
	}
	var v struct {
		Property string `json:"property"`
		Detail   struct {
			Line string `json:"model_request"`
		} `json:"detail"`
		Failing string `json:"failing_input"`
	}
	_ = json.Unmarshal(b, &v)
	fmt.Printf("replay %s: failing input: %s\n", v.Property, v.Failing)
	if v.Detail.Line != "" {
		if p, err := model.Start(modelPath); err == nil {
			ans, _ := p.Ask(v.Detail.Line)
			fmt.Printf("model now answers: %s\n", trunc(ans, 400))
			p.Close()
		}
		if out := replayGo(v.Detail.Line); out != "" {
			fmt.Printf("implementation now answers: %s\n", trunc(out, 400))
		}
	}
	return 0
}
