package main

// C09: every message the independent reference sender (Lean, written from the
// specification) can produce is accepted by the corresponding entry point.
// C17 additions: fully consistent messages naming another format / version / mode.

import (
	"bytes"
	"fmt"
	"strings"

	"verifharness/internal/keys"
	"verifharness/internal/prng"
)

type specOpts struct {
	fn         string
	maj        string
	min        int
	typ        string
	hx, rx, px int
	cs         []int
	pl         string // explicit plan "hex/0.hex/1" (hostile sender), "" = none
}

func (o specOpts) String() string {
	cs := "-"
	if len(o.cs) > 0 {
		s := make([]string, len(o.cs))
		for i, c := range o.cs {
			s[i] = fmt.Sprint(c)
		}
		cs = strings.Join(s, ".")
	}
	fn := o.fn
	if fn == "" {
		fn = keys.Hex([]byte("saltpack"))
	}
	maj, typ := o.maj, o.typ
	if maj == "" {
		maj = "-"
	}
	if typ == "" {
		typ = "-"
	}
	out := fmt.Sprintf("fn=%s;maj=%s;min=%d;typ=%s;hx=%d;rx=%d;px=%d;cs=%s", fn, maj, o.min, typ, o.hx, o.rx, o.px, cs)
	if o.pl != "" {
		out += ";pl=" + o.pl
	}
	return out
}

func randCuts(r *prng.R, n int) []int {
	switch r.Intn(5) {
	case 0:
		return nil
	case 1: // all one-byte chunks
		c := make([]int, n)
		for i := range c {
			c[i] = 1
		}
		return c
	case 2:
		return []int{1 + r.Intn(n+1)}
	default:
		var c []int
		for left := n; left > 0; {
			k := 1 + r.Intn(left)
			c = append(c, k)
			left -= k
		}
		return c
	}
}

func randSpecOpts(r *prng.R, ptLen int) specOpts {
	return specOpts{min: prng.Pick(r, 0, 0, 1, 7, 200), hx: r.Intn(4), rx: r.Intn(3), px: r.Intn(4), cs: randCuts(r, ptLen)}
}

type specMsg struct {
	mode, line string
	msg, pt    []byte
	open       func(msg []byte) string
	sender     string
	opts       specOpts
}

func specEnc(r *prng.R, layout int, o specOpts, ptLen int) specMsg {
	nr := prng.Pick(r, 1, 2, 3, 5)
	pos := r.Intn(nr)
	secs := make([][]byte, nr)
	rs := make([]string, nr)
	for i := range secs {
		secs[i] = r.Bytes(32)
		h := "v"
		if r.Intn(3) == 0 {
			h = "h"
		}
		rs[i] = keys.Hex(boxPub(secs[i])) + ":" + h
	}
	sender := r.Bytes(32)
	snd, want := keys.Hex(sender), keys.Hex(boxPub(sender))
	if r.Intn(4) == 0 {
		snd, want = "anon", ""
	}
	pt := r.Bytes(ptLen)
	line := fmt.Sprintf("spec.enc %d %s %s %s %s %s %s", layout, o, snd, strings.Join(rs, ","), keys.Hex(r.Bytes(32)), keys.Hex(r.Bytes(32)), keys.Hex(pt))
	ring := stdRing(secs[pos])
	return specMsg{mode: "enc", line: line, msg: mustOK(askGen(line), line), pt: pt, sender: want, opts: o,
		open: func(m []byte) string { return encOpenLine("known", ring, m) }}
}

func specSc(r *prng.R, o specOpts, ptLen int) specMsg {
	kinds := prng.Pick(r, "b", "s", "bs", "sb", "sbb")
	pos := r.Intn(len(kinds))
	var rs []string
	var ring *keys.Ring
	resolver := "none"
	for i, c := range kinds {
		sec := r.Bytes(32)
		if c == 'b' {
			rs = append(rs, "b:"+keys.Hex(boxPub(sec)))
			if i == pos {
				ring = stdRing(sec)
			}
		} else {
			id := r.Bytes(32)
			rs = append(rs, "s:"+keys.Hex(sec)+":"+keys.Hex(id))
			if i == pos {
				ring = stdRing()
				resolver = "map:" + keys.Hex(id) + "=" + keys.Hex(sec)
			}
		}
	}
	signer := r.Bytes(32)
	snd, want := keys.Hex(signer), keys.Hex(sigPub(signer))
	if r.Intn(4) == 0 {
		snd, want = "anon", "anon"
	}
	pt := r.Bytes(ptLen)
	line := fmt.Sprintf("spec.sc %s %s %s %s %s %s", o, snd, strings.Join(rs, ","), keys.Hex(r.Bytes(32)), keys.Hex(r.Bytes(32)), keys.Hex(pt))
	return specMsg{mode: "sc", line: line, msg: mustOK(askGen(line), line), pt: pt, sender: want, opts: o,
		open: func(m []byte) string { return fmt.Sprintf("sc.open %s %s %s", ring.Spec(), resolver, keys.Hex(m)) }}
}

func specAtt(r *prng.R, layout int, o specOpts, ptLen int) specMsg {
	signer, pt := r.Bytes(32), r.Bytes(ptLen)
	line := fmt.Sprintf("spec.att %d %s %s %s %s", layout, o, keys.Hex(signer), keys.Hex(r.Bytes(prng.Pick(r, 16, 16, 32))), keys.Hex(pt))
	return specMsg{mode: "att", line: line, msg: mustOK(askGen(line), line), pt: pt, sender: keys.Hex(sigPub(signer)), opts: o,
		open: func(m []byte) string { return fmt.Sprintf("sig.verify known std %s", keys.Hex(m)) }}
}

func specDet(r *prng.R, layout int, o specOpts, ptLen int) specMsg {
	signer, pt := r.Bytes(32), r.Bytes(ptLen)
	o.px, o.cs = 0, nil
	line := fmt.Sprintf("spec.det %d %s %s %s %s", layout, o, keys.Hex(signer), keys.Hex(r.Bytes(prng.Pick(r, 16, 32))), keys.Hex(pt))
	return specMsg{mode: "det", line: line, msg: mustOK(askGen(line), line), pt: pt, sender: keys.Hex(sigPub(signer)), opts: o,
		open: func(m []byte) string { return fmt.Sprintf("sig.verifydetached known std %s %s", keys.Hex(m), keys.Hex(pt)) }}
}

func specCase(stream string, m specMsg, wantAccept bool, what string) Case {
	line := m.open(m.msg)
	out := goExec(line)
	return Case{Stream: stream, Line: line, GoOut: out, Cmp: resCmp, Fallback: fallbackFor(line),
		Branch: fmt.Sprintf("%s/%s/min=%d/hx=%d/rx=%d/px=%d/chunks=%d/%s", m.mode, what, m.opts.min, m.opts.hx, m.opts.rx, m.opts.px, len(m.opts.cs), resClass(out)),
		Sample: map[string]interface{}{"reference_sender": trunc(m.line, 160), "what": what, "outcome": resClass(out)},
		Direct: func() string {
			ok := resClass(out) == "ok"
			if wantAccept {
				good := ok && (m.mode == "det" || bytes.Equal(resReleased(out), m.pt))
				if good && m.sender != "" && !strings.Contains(out, "sender="+m.sender) && !strings.Contains(out, "signer="+m.sender) {
					good = false
				}
				if !good {
					return fmt.Sprintf("a spec-valid message from the reference sender is not accepted with its plaintext/attribution (%s): %s -> %s ; built by: %s", what, trunc(line, 700), trunc(out, 160), trunc(m.line, 300))
				}
			} else if ok {
				return fmt.Sprintf("a message that %s is accepted: %s ; built by: %s", what, trunc(line, 700), trunc(m.line, 300))
			}
			return ""
		}}
}

func genSpecValid(ctx *Ctx, emit func(Case)) {
	r := ctx.R.Fork()
	for k := 0; k < ctx.N(60, 600); k++ {
		n := prng.Pick(r, 0, 1, 2, 3, 10, 33, 100)
		o := randSpecOpts(r, n)
		layout := 1 + k%2
		emit(specCase("spec.valid", specEnc(r, layout, o, n), true, "valid"))
		emit(specCase("spec.valid", specAtt(r, layout, o, n), true, "valid"))
		emit(specCase("spec.valid", specDet(r, layout, o, n), true, "valid"))
		emit(specCase("spec.valid", specSc(r, o, n), true, "valid"))
	}
	if !ctx.Quick { // 1 MiB chunks and beyond-1MiB messages from the reference sender
		for _, n := range []int{mib, mib + 1} {
			o := specOpts{min: 3, px: 1, cs: []int{mib}}
			emit(specCase("spec.valid.big", specEnc(r, 2, o, n), true, "valid"))
			emit(specCase("spec.valid.big", specAtt(r, 1, o, n), true, "valid"))
		}
	}
}

// genSpecGate: consistent messages that must be refused.
func genSpecGate(ctx *Ctx, emit func(Case)) {
	r := ctx.R.Fork()
	for k := 0; k < ctx.N(6, 40); k++ {
		layout := 1 + k%2
		for _, fn := range []string{"pgp", "", "SALTPACK", "saltpack "} {
			o := specOpts{fn: keys.Hex([]byte(fn)), cs: []int{3}}
			if fn == "" {
				o.fn = "-"
			}
			what := fmt.Sprintf("names the format %q", fn)
			emit(specCase("spec.gate.format", specEnc(r, layout, o, 7), false, what))
			emit(specCase("spec.gate.format", specAtt(r, layout, o, 7), false, what))
			emit(specCase("spec.gate.format", specDet(r, layout, o, 7), false, what))
			emit(specCase("spec.gate.format", specSc(r, o, 7), false, what))
		}
		for _, maj := range []string{"0", "3", "255"} {
			o := specOpts{maj: maj}
			what := "is labelled with major version " + maj
			emit(specCase("spec.gate.major", specEnc(r, layout, o, 7), false, what))
			emit(specCase("spec.gate.major", specAtt(r, layout, o, 7), false, what))
			emit(specCase("spec.gate.major", specDet(r, layout, o, 7), false, what))
			emit(specCase("spec.gate.major", specSc(r, o, 7), false, what))
		}
		// signcryption exists only as version 2: the entry points take no validator, so a consistent
		// signcryption message labelled 1.x (any minor) must be refused by the library's own gate
		for _, min := range []int{0, 1, 7} {
			o := specOpts{maj: "1", min: min}
			emit(specCase("spec.gate.major", specSc(r, o, 7), false, fmt.Sprintf("is a signcryption message labelled with version 1.%d", min)))
		}
		for typ := 0; typ <= 4; typ++ {
			o := specOpts{typ: fmt.Sprint(typ)}
			what := fmt.Sprintf("carries mode %d", typ)
			if typ != 0 {
				emit(specCase("spec.gate.mode", specEnc(r, layout, o, 7), false, what+" in an encryption message"))
			}
			if typ != 1 {
				emit(specCase("spec.gate.mode", specAtt(r, layout, o, 7), false, what+" in an attached signature"))
			}
			if typ != 2 {
				emit(specCase("spec.gate.mode", specDet(r, layout, o, 7), false, what+" in a detached signature"))
			}
			if typ != 3 {
				emit(specCase("spec.gate.mode", specSc(r, o, 7), false, what+" in a signcryption message"))
			}
		}
	}
}

func init() {
	reg("C09", func(ctx *Ctx, emit func(Case)) {
		genSpecValid(ctx, emit)
		r := ctx.R.Fork()
		for _, f := range encFamilies(ctx, r, ctx.N(4, 30)) {
			genuineCases("spec.chunks.enc", f, "small-chunks", emit)
		}
		for _, f := range scFamilies(ctx, r, ctx.N(4, 30)) {
			genuineCases("spec.chunks.sc", f, "small-chunks", emit)
		}
		for _, f := range sigFamilies(ctx, r, ctx.N(4, 30)) {
			genuineCases("spec.chunks.sig", f, "small-chunks", emit)
		}
	}, []string{"the reference sender is written from specs/*.md with its own constants; it shares only the primitives and the MessagePack encoder with the code model"}, commonTrusted)
}

// hostilePlans: chunk plans a key-holding but spec-violating sender can emit —
// every packet is cryptographically consistent, only the chunk rules are broken.
func hostilePlans(r *prng.R) []string {
	x, y := keys.Hex(r.Bytes(3)), keys.Hex(r.Bytes(5))
	return []string{
		"-/0." + x + "/1", "-/0", "-/0.-/1", x + "/0", x + "/1." + y + "/1", x + "/1." + y + "/0", "-/1." + x + "/1",
		x + "/0.-/0." + y + "/1", x + "/0.-/1", "-/1.-/1", x + "/0." + y + "/0", "-/0." + x + "/0." + y + "/1",
	}
}

// genHostileSender: consistent messages with illegal chunk plans to every receiver
// (C15: never a panic; the model agrees on outcome and released bytes).
func genHostileSender(ctx *Ctx, emit func(Case)) {
	r := ctx.R.Fork()
	for k := 0; k < ctx.N(2, 8); k++ {
		for _, pl := range hostilePlans(r) {
			for layout := 1; layout <= 2; layout++ {
				o := specOpts{pl: pl}
				for _, m := range []specMsg{specEnc(r, layout, o, 0), specAtt(r, layout, o, 0), specSc(r, o, 0)} {
					line := m.open(m.msg)
					out := goExec(line)
					emit(Case{Stream: "hostile.sender", Line: line, GoOut: out, Cmp: resCmp, Fallback: fallbackFor(line),
						Branch: fmt.Sprintf("%s.v%d/%s", m.mode, layout, resClass(out)),
						Sample: map[string]interface{}{"mode": m.mode, "layout": layout, "plan": pl, "outcome": resClass(out)},
						Direct: func() string { return noPanicPredicate(line, out) }})
				}
			}
		}
	}
}
