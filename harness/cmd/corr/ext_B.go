package main

// Extension slot B: request lines (goExecExtB) and generators (registered with regExtra) of one model extension.

func goExecExtB(t []string) (string, bool) {
	switch t[0] {
	}
	return "", false
}

func init() {
	// regExtra("Cnn", func(ctx *Ctx, emit func(Case)) { … })
}
