package main

// Extension slot B: the SENDER streams call by call over a faulting writer.
//
//   st.sender enc <ma> <sender> <recips> <eph> <src> <sink> <ops>
//   st.sender sig <ma> <signer> <src> <sink> <ops>
//   st.sender sc  <sender> <boxes> <syms> <eph> <src> <sink> <ops>
//   st.sender det <ma> <signer> <src> <sink> <ops>
//   st.sender <kind>.a <the same params> <brand> <sink> <ops>      armored composition
//   st.sender armor <typ> <brand> <sink> <ops>                     the bare armor encoder stream (ext_B_armor.go)
//
// goExecExtB drives the REAL NewEncryptStream / NewSignStream / NewSigncryptSealStream /
// NewSignDetachedStream (and the armored constructors) over a writer whose k-th Write fails
// as the sink script says, with crypto/rand.Reader scripted, and answers per call (n, error
// class), the bytes at the writer after every call, the sizes of all attempted underlying
// writes and what reached the writer.  Model: lean/Saltpack/Model/SenderStream.lean,
// driver lean/Driver/ExtB.lean.

import (
	"bytes"
	"crypto/sha512"
	"fmt"
	"io"
	"strings"

	"github.com/keybase/saltpack"
	"verifharness/internal/keys"
	"verifharness/internal/prng"
	"verifharness/internal/script"
)

func goExecExtB(t []string) (string, bool) {
	switch t[0] {
	case "st.sender":
		return execSender(t), true
	}
	return "", false
}

// recWriter: an io.Writer whose k-th Write fails when sink[k]; the j-th FAILING write first
// accepts min(part[j], len(p)) bytes — (n, ErrIO) with 0 <= n <= len(p), legal for an io.Writer
// (default 0).  A short write WITHOUT error would violate io.Writer's contract: never produced.
// Records everything.
type recWriter struct {
	sink   []bool
	part   []int
	k      int
	tried  []int
	out    bytes.Buffer
	faults int
}

func (w *recWriter) Write(p []byte) (int, error) {
	fail := w.k < len(w.sink) && w.sink[w.k]
	w.k++
	w.tried = append(w.tried, len(p))
	if fail {
		n := 0
		if w.faults < len(w.part) {
			n = w.part[w.faults]
		}
		if n > len(p) {
			n = len(p)
		}
		w.faults++
		w.out.Write(p[:n])
		return n, script.ErrIO
	}
	w.out.Write(p)
	return len(p), nil
}

func senderClass(err error) string {
	if err == nil {
		return "ok"
	}
	if strings.Contains(err.Error(), script.ErrIO.Error()) {
		return "io-error"
	}
	return script.Class(err)
}

func genBytesB(off, n int) []byte {
	b := make([]byte, n)
	for j := range b {
		i := off + j
		b[j] = byte(i ^ (i >> 8) ^ (i>>16)*7)
	}
	return b
}

func showOutB(b []byte) string {
	if len(b) <= 2048 {
		return keys.Hex(b)
	}
	h := sha512.Sum512(b)
	return fmt.Sprintf("#%d:%s", len(b), keys.Hex(h[:]))
}

func dotsB(l []int) string {
	if len(l) == 0 {
		return "-"
	}
	s := make([]string, len(l))
	for i, n := range l {
		s[i] = fmt.Sprint(n)
	}
	return strings.Join(s, ".")
}

// parseSinkB: "-" | 0/1 string, optionally "/k.k.…" (bytes accepted by the successive failing writes)
func parseSinkB(s string) ([]bool, []int) {
	var part []int
	if i := strings.Index(s, "/"); i >= 0 {
		for _, f := range strings.Split(s[i+1:], ".") {
			part = append(part, atoi(f))
		}
		s = s[:i]
	}
	if s == "-" {
		return nil, part
	}
	out := make([]bool, len(s))
	for i, c := range s {
		out[i] = c == '1'
	}
	return out, part
}

// sinkBits: the 0/1 part of a sink token
func sinkBits(s string) string {
	if i := strings.Index(s, "/"); i >= 0 {
		return s[:i]
	}
	return s
}

// senderCtor: the constructor of the request's stream kind and its randomness script
func senderCtor(t []string) (mk func(w io.Writer) (io.WriteCloser, error), src *script.Source, rest []string) {
	kind := t[1]
	armored := strings.HasSuffix(kind, ".a")
	kind = strings.TrimSuffix(kind, ".a")
	brand := ""
	switch kind {
	case "enc": // ma sender recips eph src
		v := version(t[2], "0")
		src = parseSource(t[6])
		c := parseEph(t[5], src)
		var sender saltpack.BoxSecretKey
		if t[3] != "anon" {
			sender = keys.NewBoxSecret(unhex(t[3]), false, nil, c)
		}
		rs := parseRecips(t[4], c)
		rest = t[7:]
		if armored {
			brand, rest = string(unhex(rest[0])), rest[1:]
			mk = func(w io.Writer) (io.WriteCloser, error) { return saltpack.NewEncryptArmor62Stream(v, w, sender, rs, brand) }
		} else {
			mk = func(w io.Writer) (io.WriteCloser, error) { return saltpack.NewEncryptStream(v, w, sender, rs) }
		}
	case "sig", "det": // ma signer src
		v := version(t[2], "0")
		signer := keys.NewSigSecret(unhex(t[3]), nil)
		src = parseSource(t[4])
		rest = t[5:]
		if armored {
			brand, rest = string(unhex(rest[0])), rest[1:]
		}
		switch {
		case kind == "sig" && !armored:
			mk = func(w io.Writer) (io.WriteCloser, error) { return saltpack.NewSignStream(v, w, signer) }
		case kind == "sig":
			mk = func(w io.Writer) (io.WriteCloser, error) { return saltpack.NewSignArmor62Stream(v, w, signer, brand) }
		case !armored:
			mk = func(w io.Writer) (io.WriteCloser, error) { return saltpack.NewSignDetachedStream(v, w, signer) }
		default:
			mk = func(w io.Writer) (io.WriteCloser, error) { return saltpack.NewSignDetachedArmor62Stream(v, w, signer, brand) }
		}
	case "sc": // sender boxes syms eph src
		src = parseSource(t[6])
		c := parseEph(t[5], src)
		var sender saltpack.SigningSecretKey
		if t[2] != "anon" {
			sender = keys.NewSigSecret(unhex(t[2]), nil)
		}
		boxes, _ := parseSRecips(t[3], c)
		_, syms := parseSRecips(t[4], c)
		rest = t[7:]
		if armored {
			brand, rest = string(unhex(rest[0])), rest[1:]
			mk = func(w io.Writer) (io.WriteCloser, error) {
				return saltpack.NewSigncryptArmor62SealStream(w, c, sender, boxes, syms, brand)
			}
		} else {
			mk = func(w io.Writer) (io.WriteCloser, error) { return saltpack.NewSigncryptSealStream(w, c, sender, boxes, syms) }
		}
	case "armor": // typ brand — the BARE armor encoder stream (NewArmor62EncoderStream), no packet stream above it
		typ := saltpack.MessageType(atoi(t[2]))
		brand := string(unhex(t[3]))
		src = &script.Source{}
		rest = t[4:]
		mk = func(w io.Writer) (io.WriteCloser, error) { return saltpack.NewArmor62EncoderStream(w, typ, brand) }
	default:
		panic("st.sender kind " + kind)
	}
	return
}

func execSender(t []string) string {
	mk, src, rest := senderCtor(t)
	sk, pt := parseSinkB(rest[0])
	w := &recWriter{sink: sk, part: pt}
	var s io.WriteCloser
	var err error
	var calls []string
	lens := []int{}
	script.With(src, func() {
		s, err = mk(w)
		lens = append(lens, w.out.Len())
		if err != nil {
			return
		}
		for _, op := range splitL(rest[1]) {
			p := strings.Split(op, ":")
			func() {
				defer func() {
					if x := recover(); x != nil {
						if p[0] == "c" {
							calls = append(calls, "c:panic")
						} else {
							calls = append(calls, "0:panic")
						}
					}
				}()
				switch p[0] {
				case "c":
					e := s.Close()
					calls = append(calls, "c:"+senderClass(e))
				case "w":
					n, e := s.Write(unhex(p[1]))
					calls = append(calls, fmt.Sprintf("%d:%s", n, senderClass(e)))
				case "g":
					n, e := s.Write(genBytesB(atoi(p[1]), atoi(p[2])))
					calls = append(calls, fmt.Sprintf("%d:%s", n, senderClass(e)))
				}
			}()
			lens = append(lens, w.out.Len())
		}
	})
	initS := "ok"
	if err != nil {
		if w.k == 0 {
			return "err " + script.Class(err)
		}
		initS = senderClass(err)
	}
	cl := "-"
	if len(calls) > 0 {
		cl = strings.Join(calls, ",")
	}
	return fmt.Sprintf("ok init=%s calls=%s lens=%s tried=%s out=%s", initS, cl, dotsB(lens), dotsB(w.tried), showOutB(w.out.Bytes()))
}

// ---------------------------------------------------------------------------
// generators

type senderCfg struct {
	name   string // histogram key
	prefix string // "st.sender <kind> <params…>" without sink and ops
}

func senderConfigs(r *prng.R, armored bool) []senderCfg {
	var out []senderCfg
	sfx, brand := "", ""
	if armored {
		sfx = ".a"
		brand = " " + prng.Pick(r, "-", keys.Hex([]byte("KEYBASE")), keys.Hex([]byte("x")))
	}
	for _, ma := range []int{1, 2} {
		// encryption: 1–3 recipients, named or anonymous sender
		n := prng.Pick(r, 1, 1, 2, 3)
		var rs []string
		for i := 0; i < n; i++ {
			rs = append(rs, keys.Hex(boxPub(r.Bytes(32)))+":"+prng.Pick(r, "v", "v", "h"))
		}
		snd := "anon"
		if r.Bool() {
			snd = keys.Hex(r.Bytes(32))
		}
		ephRand := r.Bool()
		eph := "r"
		if !ephRand {
			eph = "g:" + keys.Hex(r.Bytes(32))
		}
		out = append(out, senderCfg{fmt.Sprintf("enc%s.v%d", sfx, ma),
			fmt.Sprintf("st.sender enc%s %d %s %s %s %s%s", sfx, ma, snd, strings.Join(rs, ","), eph, randScript(r, n, ephRand, -1, 0).Spec(), brand)})
		out = append(out, senderCfg{fmt.Sprintf("sig%s.v%d", sfx, ma),
			fmt.Sprintf("st.sender sig%s %d %s %s%s", sfx, ma, keys.Hex(r.Bytes(32)), randSigScript(r, -1, 0).Spec(), brand)})
		out = append(out, senderCfg{fmt.Sprintf("det%s.v%d", sfx, ma),
			fmt.Sprintf("st.sender det%s %d %s %s%s", sfx, ma, keys.Hex(r.Bytes(32)), randSigScript(r, -1, 0).Spec(), brand)})
	}
	{
		kinds := prng.Pick(r, "b", "s", "bs", "bb")
		var boxes, syms []string
		for _, ch := range kinds {
			if ch == 'b' {
				boxes = append(boxes, "b:"+keys.Hex(boxPub(r.Bytes(32))))
			} else {
				syms = append(syms, "s:"+keys.Hex(r.Bytes(32))+":"+keys.Hex(r.Bytes(32)))
			}
		}
		jl := func(l []string) string {
			if len(l) == 0 {
				return "-"
			}
			return strings.Join(l, ",")
		}
		snd := keys.Hex(r.Bytes(32))
		if r.Intn(3) == 0 {
			snd = "anon"
		}
		ephRand := r.Bool()
		eph := "r"
		if !ephRand {
			eph = "g:" + keys.Hex(r.Bytes(32))
		}
		out = append(out, senderCfg{"sc" + sfx,
			fmt.Sprintf("st.sender sc%s %s %s %s %s %s%s", sfx, snd, jl(boxes), jl(syms), eph, randScript(r, len(kinds), ephRand, -1, 0).Spec(), brand)})
	}
	return out
}

// small op lists: writes then Close, with the irregular usages the code defines
// (empty writes, no write at all, a second Close, a Write after Close)
func smallOps(r *prng.R, variant int) string {
	w := func(n int) string { return "w:" + keys.Hex(r.Bytes(n)) }
	switch variant % 6 {
	case 0:
		return w(5) + "," + w(40) + ",c"
	case 1:
		return "c"
	case 2:
		return "w:-," + w(1) + ",w:-,c"
	case 3:
		return w(300) + ",c,c"
	case 4:
		return w(17) + ",c," + w(3) + ",c"
	default:
		return w(r.Intn(600)) + "," + w(r.Intn(50)) + "," + w(r.Intn(5)) + ",c"
	}
}

func senderField(ans, key string) string {
	for _, f := range strings.Fields(ans) {
		if strings.HasPrefix(f, key+"=") {
			return f[len(key)+1:]
		}
	}
	return ""
}

func sinkString(k int, sticky bool, total int) string {
	s := strings.Repeat("0", k) + "1"
	if sticky {
		s += strings.Repeat("1", total-k+8)
	}
	return s
}

// the property's own predicate on an implementation answer: a failing underlying write is
// reported by the constructor, a Write or the Close; a run in which every call reported
// success delivered exactly the fault-free bytes; on failure (regular usage: writes, then one
// Close) what reached the writer is a prefix of the fault-free output
func senderPredicate(line, ans, base string, regular bool) string {
	if !strings.HasPrefix(ans, "ok ") {
		return ""
	}
	anyErr := senderField(ans, "init") != "ok"
	for _, c := range splitL(senderField(ans, "calls")) {
		if !strings.HasSuffix(c, ":ok") {
			anyErr = true
		}
	}
	f := strings.Fields(line)
	sink := sinkBits(f[len(f)-2])
	nTried := 0
	if tr := senderField(ans, "tried"); tr != "-" && tr != "" {
		nTried = len(strings.Split(tr, "."))
	}
	idx := strings.Index(sink, "1")
	faulted := idx >= 0 && idx < nTried
	out, bout := senderField(ans, "out"), senderField(base, "out")
	if faulted && !anyErr {
		return fmt.Sprintf("an underlying Write failed but the constructor, every Write and Close reported success: %s -> %s", trunc(line, 600), trunc(ans, 300))
	}
	if !anyErr && out != bout {
		return fmt.Sprintf("every call reported success but the bytes at the writer differ from the fault-free run: %s -> %s", trunc(line, 600), trunc(ans, 300))
	}
	if regular && !strings.HasPrefix(out, "#") && !strings.HasPrefix(bout, "#") && !strings.HasPrefix(strings.TrimPrefix(bout, "-"), strings.TrimPrefix(out, "-")) {
		return fmt.Sprintf("after a fault the bytes at the writer are not a prefix of the fault-free output: %s -> %s", trunc(line, 600), trunc(ans, 300))
	}
	return ""
}

func genSenderFaults(armored bool) func(ctx *Ctx, emit func(Case)) {
	return func(ctx *Ctx, emit func(Case)) {
		r := ctx.R.Fork()
		rounds := ctx.N(1, 6)
		for round := 0; round < rounds; round++ {
			for ci, cfg := range senderConfigs(r, armored) {
				ops := smallOps(r, ci+round)
				if armored && (ci+round)%7 == 3 {
					// more than one armor line (200 words of 15 characters): a line break inside one armor Write
					ops = "w:" + keys.Hex(r.Bytes(2300)) + ",w:" + keys.Hex(r.Bytes(40)) + ",c"
				}
				regular := strings.Count(ops, "c") == 1
				baseLine := cfg.prefix + " - " + ops
				base := goExec(baseLine)
				emit(Case{Stream: "sender.fault." + cfg.name, Line: baseLine, GoOut: base, Branch: "nofault"})
				total := len(strings.Split(senderField(base, "tried"), "."))
				step := 1
				if lim := ctx.N(40, 400); armored && total > lim {
					step = total/lim + 1
				}
				for k := 0; k < total; k += step {
					for _, sticky := range []bool{false, true} {
						if armored && ctx.Quick && sticky != (k%2 == 0) {
							continue
						}
						line := cfg.prefix + " " + sinkString(k, sticky, total) + " " + ops
						out := goExec(line)
						base := base
						emit(Case{Stream: "sender.fault." + cfg.name, Line: line, GoOut: out,
							Branch:  fmt.Sprintf("sticky=%v/init=%s/%s", sticky, senderField(out, "init"), callShape(senderField(out, "calls"))),
							Direct:  func() string { return senderPredicate(line, out, base, regular) },
							Sample:  map[string]interface{}{"stream": cfg.name, "underlying_writes": total, "fault_at": k, "sticky": sticky, "calls": senderField(out, "calls")},
						})
					}
					// the failing write ACCEPTS A PART of its slice before failing: (0 < n <= len, err)
					if !ctx.Quick || k%3 == round%3 {
						sticky := r.Bool()
						line := cfg.prefix + " " + sinkString(k, sticky, total) + partSuffix(r, sticky) + " " + ops
						out := goExec(line)
						base := base
						emit(Case{Stream: "sender.fault.partial." + cfg.name, Line: line, GoOut: out,
							Branch: fmt.Sprintf("sticky=%v/init=%s/%s", sticky, senderField(out, "init"), callShape(senderField(out, "calls"))),
							Direct: func() string { return senderPredicate(line, out, base, regular) },
						})
					}
				}
			}
		}
		if armored {
			return
		}
		// blocks of 1 MiB: a Write that emits one or two blocks, the held-back full block, Close after
		// a failed multi-block Write
		big := []string{
			fmt.Sprintf("g:0:%d,c", mib+1),
			fmt.Sprintf("g:0:%d,g:%d:5,c", mib, mib),
			fmt.Sprintf("g:0:%d,c", 2*mib+1),
			fmt.Sprintf("g:0:700000,g:700000:700000,c"),
			// Writes AFTER a Write that emitted a block (and, under a fault, failed): the stream's own sticky error
			// (`if es.err != nil { return 0, es.err }`) — found untouched by the mutation sweep
			fmt.Sprintf("g:0:%d,g:%d:7,g:%d:0,c", mib+9, mib+9, mib+16),
			fmt.Sprintf("g:0:%d,g:%d:%d,g:%d:3,c,c", mib+1, mib+1, mib, 2*mib+1),
		}
		cfgs := senderConfigs(r, false)
		nbig := 0
		for ci, cfg := range cfgs {
			if strings.HasPrefix(cfg.name, "det") {
				continue
			}
			for bi, ops := range big {
				if ctx.Quick && (ci+bi)%4 != 0 {
					continue
				}
				baseLine := cfg.prefix + " - " + ops
				base := goExec(baseLine)
				emit(Case{Stream: "sender.fault.big." + cfg.name, Line: baseLine, GoOut: base, Branch: "nofault"})
				total := len(strings.Split(senderField(base, "tried"), "."))
				ks := []int{3 + r.Intn(3), total - 1 - r.Intn(3)}
				if !ctx.Quick {
					ks = nil
					for k := r.Intn(4); k < total; k += 4 {
						ks = append(ks, k)
					}
				}
				for _, k := range ks {
					line := cfg.prefix + " " + sinkString(k, r.Bool(), total) + prng.Pick(r, "", "", partSuffix(r, true)) + " " + ops
					out := goExec(line)
					emit(Case{Stream: "sender.fault.big." + cfg.name, Line: line, GoOut: out,
						Branch: fmt.Sprintf("ops%d/%s", bi, callShape(senderField(out, "calls"))),
						Direct: func() string { return senderPredicate(line, out, base, true) }})
					nbig++
				}
			}
		}
	}
}

// partSuffix: "/k.k.…" — how many bytes the successive failing writes accept (1 byte, a few,
// more than any slice: the whole slice is taken and the write still fails)
func partSuffix(r *prng.R, several bool) string {
	n := 1
	if several {
		n = 1 + r.Intn(3)
	}
	var p []string
	for i := 0; i < n; i++ {
		p = append(p, fmt.Sprint(prng.Pick(r, 1, 1, 2, 3, 7, 20, 1000, 2000000)))
	}
	return "/" + strings.Join(p, ".")
}

// callShape: the outcome classes of the calls without the byte counts
func callShape(calls string) string {
	var s []string
	for _, c := range splitL(calls) {
		p := strings.SplitN(c, ":", 2)
		if p[0] == "c" {
			s = append(s, "c"+p[1])
		} else {
			s = append(s, p[1])
		}
	}
	return strings.Join(s, ".")
}

// C13: byte-level write-split independence of the whole stream (header included): the same
// plaintext under different splits over Write calls, no faults; the bytes at the writer must be
// those of the all-at-once form
func genSenderSplits(ctx *Ctx, emit func(Case)) {
	r := ctx.R.Fork()
	for round := 0; round < ctx.N(2, 12); round++ {
		for _, armored := range []bool{false, true} {
			for _, cfg := range senderConfigs(r, armored) {
				pt := r.Bytes(prng.Pick(r, 0, 1, 31, 64, 300, 1000))
				var want string
				for si := 0; si < 3; si++ {
					var ops []string
					switch si {
					case 0:
						ops = append(ops, "w:"+keys.Hex(pt))
					case 1:
						for _, b := range pt {
							ops = append(ops, "w:"+keys.Hex([]byte{b}))
							if len(ops) > 40 {
								break
							}
						}
						if len(pt) > len(ops) {
							ops = append(ops, "w:"+keys.Hex(pt[len(ops):]))
						}
					default:
						rest := pt
						for len(rest) > 0 {
							n := r.Intn(len(rest) + 1)
							ops = append(ops, "w:"+keys.Hex(rest[:n]))
							rest = rest[n:]
						}
						ops = append(ops, "w:-")
					}
					ops = append(ops, "c")
					line := cfg.prefix + " - " + strings.Join(ops, ",")
					out := goExec(line)
					if si == 0 {
						want = senderField(out, "out")
					}
					want := want
					emit(Case{Stream: "sender.split." + cfg.name, Line: line, GoOut: out, Branch: fmt.Sprintf("split%d/len=%s", si, sizeClass(len(pt))),
						Direct: func() string {
							if senderField(out, "out") != want {
								return fmt.Sprintf("the bytes a sender stream wrote depend on how the plaintext was split over Write calls: %s -> %s, one Write: %s", trunc(line, 600), trunc(out, 200), trunc(want, 100))
							}
							return ""
						}})
				}
			}
		}
	}
}

func init() {
	regExtra("C14", genSenderFaults(false))
	regExtra("C14", genSenderFaults(true))
	regExtra("C13", genSenderSplits)
}
