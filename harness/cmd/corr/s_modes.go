package main

// Generators for the four modes: sealing/signing (byte-exact against the model)
// and opening/verifying (outcome-, released-bytes- and call-log-exact).

import (
	"bytes"
	"crypto/ed25519"
	"encoding/binary"
	"fmt"
	"io"
	"strings"

	"github.com/keybase/saltpack"
	"golang.org/x/crypto/curve25519"
	"verifharness/internal/keys"
	"verifharness/internal/prng"
	"verifharness/internal/script"
)

const mib = 1 << 20

func boxPub(sec []byte) []byte {
	var s, p [32]byte
	copy(s[:], sec)
	curve25519.ScalarBaseMult(&p, &s)
	return p[:]
}

func sigPub(seed []byte) []byte {
	return []byte(ed25519.NewKeyFromSeed(seed).Public().(ed25519.PublicKey))
}

// plaintext lengths: the small ones always, chunk-boundary ones on demand
func smallLen(r *prng.R) int {
	return prng.Pick(r, 0, 0, 1, 1, 2, 3, 15, 16, 17, 31, 32, 33, 64, 100, 255, 256, 1000, r.Intn(3000))
}

var boundaryLens = []int{mib - 1, mib, mib + 1, 2*mib - 1, 2 * mib, 2*mib + 1}

// randomness script for n recipients: shuffle draws (each a 4-byte read, every
// now and then a word that is rejected first), [ephemeral 32], payload key 32.
// fault >= 0 injects a failure at that read (mode 0: error with no data, 1:
// short data + error, 2: script simply ends).
func randScript(r *prng.R, nRecips int, ephFromRand bool, fault, faultMode int) *script.Source {
	src := &script.Source{}
	for i := nRecips - 1; i > 0; i-- {
		if r.Intn(5) == 0 { // a rejected word first: low product word < 2^32 mod n
			n := uint64(i + 1)
			t := (uint64(1) << 32) % n
			if t > 0 {
				// v*n mod 2^32 < t  for v = 0 (low = 0 < t)
				src.Reads = append(src.Reads, script.Read{Data: []byte{0, 0, 0, 0}})
			}
		}
		w := make([]byte, 4)
		binary.BigEndian.PutUint32(w, uint32(r.U64()))
		if r.Intn(7) == 0 { // deliver the word in two reads (io.ReadFull loops)
			src.Reads = append(src.Reads, script.Read{Data: w[:1]}, script.Read{Data: w[1:]})
		} else {
			src.Reads = append(src.Reads, script.Read{Data: w})
		}
	}
	if ephFromRand {
		src.Reads = append(src.Reads, script.Read{Data: r.Bytes(32)})
	}
	pk := r.Bytes(32)
	if r.Intn(6) == 0 {
		src.Reads = append(src.Reads, script.Read{Data: pk[:10]}, script.Read{Data: pk[10:]})
	} else {
		src.Reads = append(src.Reads, script.Read{Data: pk})
	}
	if fault >= 0 && fault < len(src.Reads) {
		switch faultMode {
		case 0:
			src.Reads[fault] = script.Read{Err: true}
			src.Reads = src.Reads[:fault+1]
		case 1:
			d := src.Reads[fault].Data
			src.Reads[fault] = script.Read{Data: d[:len(d)/2], Err: true}
			src.Reads = src.Reads[:fault+1]
		default:
			src.Reads = src.Reads[:fault]
		}
	}
	return src
}

type encConfig struct {
	v       saltpack.Version
	sender  []byte // nil = anonymous
	recips  [][]byte
	hidden  []bool
	ephRand bool
	eph     []byte
	src     *script.Source
	pt      []byte
}

func (c *encConfig) line() string {
	snd := "anon"
	if c.sender != nil {
		snd = keys.Hex(c.sender)
	}
	rs := make([]string, len(c.recips))
	for i, s := range c.recips {
		h := "v"
		if c.hidden[i] {
			h = "h"
		}
		rs[i] = keys.Hex(boxPub(s)) + ":" + h
	}
	rl := "-"
	if len(rs) > 0 {
		rl = strings.Join(rs, ",")
	}
	eph := "r"
	if !c.ephRand {
		eph = "g:" + keys.Hex(c.eph)
	}
	return fmt.Sprintf("enc.seal %d %d %s %s %s %s %d %s", c.v.Major, c.v.Minor, snd, rl, eph, c.src.Spec(), mib, keys.Hex(c.pt))
}

func randEncConfig(r *prng.R, ptLen int) *encConfig {
	c := &encConfig{v: prng.Pick(r, saltpack.Version1(), saltpack.Version2())}
	if r.Intn(3) != 0 {
		c.sender = r.Bytes(32)
	}
	n := prng.Pick(r, 1, 1, 2, 2, 3, 4, 5, 8)
	for i := 0; i < n; i++ {
		c.recips = append(c.recips, r.Bytes(32))
		c.hidden = append(c.hidden, r.Intn(3) == 0)
	}
	c.ephRand = r.Bool()
	c.eph = r.Bytes(32)
	c.src = randScript(r, n, c.ephRand, -1, 0)
	c.pt = r.Bytes(ptLen)
	return c
}

// sealed output of an "ok <hex> reads=n" answer
func okBytes(ans string) ([]byte, bool) {
	f := strings.Fields(ans)
	if len(f) < 2 || f[0] != "ok" {
		return nil, false
	}
	return unhex(f[1]), true
}

// openLine builds an enc.open request for a message and a keyring spec.
func encOpenLine(valid string, ring *keys.Ring, msg []byte) string {
	return fmt.Sprintf("enc.open %s %s %s", valid, ring.Spec(), keys.Hex(msg))
}

func stdRing(secrets ...[]byte) *keys.Ring {
	r := &keys.Ring{LS: "std", LP: "std", IE: "std", LSig: "std", Creator: &keys.EphCreator{Fail: true}}
	for _, s := range secrets {
		r.Secrets = append(r.Secrets, keys.NewBoxSecret(s, false, nil, r.Creator))
	}
	return r
}

// resCmp compares two "res <class> rel=.. [calls=..] ..." answers at the
// granularity the properties need: outcome, released bytes, call log and — on
// success — attribution; the error class only where a property names one.
var namedClasses = map[string]bool{"no-decryption-key": true, "no-sender-key": true, "trailing-garbage": true,
	"bad-version": true, "wrong-message-type": true, "not-saltpack": true, "failed-to-read-header": true}

func resCmp(a, b string) bool {
	fa, fb := strings.Fields(a), strings.Fields(b)
	if len(fa) < 2 || len(fb) < 2 || fa[0] != "res" || fb[0] != "res" {
		return a == b
	}
	if strings.HasPrefix(fa[1], "panic") || strings.HasPrefix(fb[1], "panic") {
		return strings.HasPrefix(fa[1], "panic") && strings.HasPrefix(fb[1], "panic")
	}
	if (fa[1] == "ok") != (fb[1] == "ok") {
		return false
	}
	if fa[1] != fb[1] && (namedClasses[fa[1]] || namedClasses[fb[1]]) {
		return false
	}
	return strings.Join(fa[2:], " ") == strings.Join(fb[2:], " ")
}

func resClass(ans string) string {
	f := strings.Fields(ans)
	if len(f) >= 2 {
		if strings.HasPrefix(f[1], "panic") {
			return "panic"
		}
		return f[1]
	}
	return ans
}

func resReleased(ans string) []byte {
	for _, f := range strings.Fields(ans) {
		if strings.HasPrefix(f, "rel=") {
			return unhex(f[4:])
		}
	}
	return nil
}

func sizeClass(n int) string {
	switch {
	case n == 0:
		return "0"
	case n < 64:
		return "<64"
	case n < mib-1:
		return "<1MiB"
	default:
		return fmt.Sprintf("%dMiB%+d", (n+1)/mib, n-((n+1)/mib)*mib)
	}
}

// ---------------------------------------------------------------------------
// C01: encryption round trip (sealing byte-exact; every recipient position opens)

func genEncRoundTrip(ctx *Ctx, emit func(Case)) {
	r := ctx.R.Fork()
	lens := []int{}
	for i := 0; i < ctx.N(40, 400); i++ {
		lens = append(lens, smallLen(r))
	}
	if ctx.Quick {
		lens = append(lens, mib, mib, mib+1, mib+1, mib+50, mib+50)
	} else {
		lens = append(lens, mib+50, mib+50, mib+50, mib+50)
		for _, v := range []int{1, 2} {
			_ = v
			lens = append(lens, boundaryLens...)
			lens = append(lens, boundaryLens...)
		}
	}
	for li, n := range lens {
		c := randEncConfig(r, n)
		if n >= mib-1 { // chunk-boundary lengths: both versions, alternating
			c.v = saltpack.Version{Major: 1 + li%2, Minor: 0}
		}
		if n >= mib-1 && len(c.recips) > 3 {
			c.recips, c.hidden = c.recips[:2], c.hidden[:2]
			c.src = randScript(r, 2, c.ephRand, -1, 0)
		}
		line := c.line()
		out := goExec(line)
		pattern := ""
		for _, h := range c.hidden {
			if h {
				pattern += "h"
			} else {
				pattern += "v"
			}
		}
		emit(Case{Stream: "enc.seal", Line: line, GoOut: out, Branch: fmt.Sprintf("v%d/%s/anon=%v/recips=%s", c.v.Major, sizeClass(n), c.sender == nil, pattern),
			Sample: map[string]interface{}{"op": "Seal", "version": c.v.Major, "plaintext_len": n, "recipients": pattern, "anonymous": c.sender == nil}})
		if how := writeSplit(r, n); how != "" {
			l2 := line + how
			o2 := goExec(l2)
			emit(Case{Stream: "enc.seal.stream", Line: l2, GoOut: o2, Branch: fmt.Sprintf("v%d/%s/%s", c.v.Major, sizeClass(n), howClass(how)),
				Direct: func() string {
					if o2 != out {
						return fmt.Sprintf("streaming and all-at-once encryption disagree: version=%d plaintext_len=%d writes%s: stream %s vs one-shot %s", c.v.Major, n, how, trunc(o2, 100), trunc(out, 100))
					}
					return ""
				}})
		}
		msg, ok := okBytes(out)
		if !ok {
			continue
		}
		// every recipient position opens, model and code agree, and the property's
		// own predicate (exact plaintext, true sender, recipient, hidden flag) holds
		positions := []int{}
		for i := range c.recips {
			positions = append(positions, i)
		}
		if n >= mib-1 {
			positions = positions[:1]
		}
		for _, i := range positions {
			i := i
			ring := stdRing(c.recips[i])
			if r.Intn(3) == 0 { // extra unrelated keys in the ring, before or after
				extra := r.Bytes(32)
				if r.Bool() {
					ring = stdRing(extra, c.recips[i])
				} else {
					ring = stdRing(c.recips[i], extra)
				}
			}
			ol := encOpenLine("known", ring, msg)
			oout := goExec(ol)
			emit(Case{Stream: "enc.open.genuine", Line: ol, GoOut: oout, Cmp: resCmp,
				Branch: fmt.Sprintf("v%d/%s/pos=%d/hidden=%v", c.v.Major, sizeClass(n), i, c.hidden[i]),
				Direct: func() string { return encRoundTripPredicate(c, msg, i) }})
		}
		// a keyring holding none of the recipient keys
		ring := stdRing(r.Bytes(32))
		ol := encOpenLine("known", ring, msg)
		oout := goExec(ol)
		emit(Case{Stream: "enc.open.nokey", Line: ol, GoOut: oout, Cmp: resCmp, Branch: resClass(oout),
			Direct: func() string {
				if resClass(oout) != "no-decryption-key" || len(resReleased(oout)) != 0 {
					return fmt.Sprintf("a keyring without any recipient key got %q instead of no-decryption-key: config %s", trunc(oout, 200), trunc(line, 300))
				}
				return ""
			}})
	}
}

// encRoundTripPredicate: C01's predicate on the implementation, all four entry
// point forms, for recipient i.
func encRoundTripPredicate(c *encConfig, msg []byte, i int) string {
	ring := stdRing(c.recips[i])
	fail := func(what string) string {
		return fmt.Sprintf("encryption round trip fails (%s): version=%d plaintext_len=%d recipient_index=%d hidden=%v anonymous=%v request=%s",
			what, c.v.Major, len(c.pt), i, c.hidden[i], c.sender == nil, trunc(c.line(), 400))
	}
	mki, pt, err := saltpack.Open(saltpack.CheckKnownMajorVersion, msg, ring)
	if err != nil {
		return fail("Open: " + err.Error())
	}
	if !bytes.Equal(pt, c.pt) {
		return fail("Open: plaintext differs")
	}
	wantSender := boxPub(c.eph)
	if c.sender != nil {
		wantSender = boxPub(c.sender)
	}
	if c.ephRand {
		wantSender = nil
	}
	if mki.SenderIsAnon != (c.sender == nil) {
		return fail("anonymous flag")
	}
	if c.sender != nil && !bytes.Equal(mki.SenderKey.ToKID(), boxPub(c.sender)) {
		return fail("sender key")
	}
	_ = wantSender
	if !bytes.Equal(mki.ReceiverKey.GetPublicKey().ToKID(), boxPub(c.recips[i])) {
		return fail("receiver key")
	}
	if mki.ReceiverIsAnon != c.hidden[i] {
		return fail("hidden flag")
	}
	// streaming form agrees
	_, rd, err := saltpack.NewDecryptStream(saltpack.CheckKnownMajorVersion, &oneByteReader{b: msg}, ring)
	if err != nil {
		return fail("NewDecryptStream: " + err.Error())
	}
	pt2, err := readAllCollect(rd, 7)
	if err != nil || !bytes.Equal(pt2, c.pt) {
		return fail("streaming form disagrees")
	}
	// armored form agrees (small messages only: armoring is slow on MiBs)
	if len(c.pt) <= 4096 {
		arm, err := saltpack.Armor62Seal(msg, saltpack.MessageTypeEncryption, "")
		if err != nil {
			return fail("Armor62Seal: " + err.Error())
		}
		_, pt3, _, err := saltpack.Dearmor62DecryptOpen(saltpack.CheckKnownMajorVersion, arm, ring)
		if err != nil || !bytes.Equal(pt3, c.pt) {
			return fail(fmt.Sprintf("armored form disagrees: %v", err))
		}
	}
	return ""
}

type oneByteReader struct {
	b []byte
	i int
}

func (o *oneByteReader) Read(p []byte) (int, error) {
	if o.i >= len(o.b) {
		return 0, io.EOF
	}
	if len(p) == 0 {
		return 0, nil
	}
	p[0] = o.b[o.i]
	o.i++
	return 1, nil
}

func init() {
	register("C01", &propDef{
		streams: func(ctx *Ctx, emit func(Case)) { genEncRoundTrip(ctx, emit) },
		level:   "proof",
		assumptions: []string{
			"Prims.Lawful (functional correctness of NaCl/SHA-512, never security)",
			"NoSpuriousOpen: no other key of the opener's keyring opens another hidden recipient's box (explicit hypothesis)",
			"honest key objects (NaCl output lengths)",
		},
		trusted: []string{"Lean re-implementations of SHA-512/HMAC/XSalsa20-Poly1305/X25519/Ed25519 (driver only; validated against x/crypto by 1261 vectors; no theorem uses them)", "go-codec encoder", "harness/cmd/corr"},
	})
}
