package main

import (
	"github.com/keybase/saltpack"
	"verifharness/internal/keys"
	"verifharness/internal/prng"
	"verifharness/internal/script"
)

// scriptCopy returns clean with a fault injected at read `fault`.
func scriptCopy(clean *script.Source, fault, mode int) script.Source {
	s := script.Source{Reads: append([]script.Read(nil), clean.Reads...)}
	if fault >= 0 && fault < len(s.Reads) {
		switch mode {
		case 0:
			s.Reads[fault] = script.Read{Err: true}
			s.Reads = s.Reads[:fault+1]
		case 1:
			d := s.Reads[fault].Data
			s.Reads[fault] = script.Read{Data: d[:len(d)/2], Err: true}
			s.Reads = s.Reads[:fault+1]
		case 3: // transient: an error with no data, after which the source works again
			s.Reads[fault] = script.Read{Err: true}
			s.Reads = append(s.Reads[:fault+1:fault+1], clean.Reads[fault:]...)
		case 4: // transient: half the data with an error, after which the source works again
			d := s.Reads[fault].Data
			s.Reads[fault] = script.Read{Data: d[:len(d)/2], Err: true}
			s.Reads = append(s.Reads[:fault+1:fault+1], clean.Reads[fault:]...)
		default:
			s.Reads = s.Reads[:fault]
		}
	}
	return s
}

type randCreator struct{}

func saltpackBasicKey(r *prng.R) saltpack.BoxSecretKey {
	c := &keys.EphCreator{}
	c.Read = func(b []byte) error { return script.ReadCryptoRand(b) }
	return keys.NewBoxSecret(r.Bytes(32), false, nil, c)
}
