package main

// C16: near misses of the two classifiers, found missing by the mutation sweep — the header array under every
// MessagePack array tag (fixarray of 2/3/6/15 elements, array16, array32) combined with every bin tag for the outer
// object (bin8 / bin16 / bin32), and COMPLETE armored texts whose payload is a binary prefix of 20–45 bytes (a
// single short base62 block: "need more data", never a verdict from a truncated block).

import (
	"encoding/binary"
	"fmt"
	"strings"

	"github.com/keybase/saltpack"
	"verifharness/internal/keys"
)

func genClassifyNear(ctx *Ctx, emit func(Case)) {
	r := ctx.R.Fork()
	corpus := classifyCorpus(r)
	binTag := func(kind int, inner []byte) []byte {
		switch kind {
		case 0:
			return append([]byte{0xc4, byte(len(inner))}, inner...)
		case 1:
			h := []byte{0xc5, 0, 0}
			binary.BigEndian.PutUint16(h[1:], uint16(len(inner)))
			return append(h, inner...)
		default:
			h := []byte{0xc6, 0, 0, 0, 0}
			binary.BigEndian.PutUint32(h[1:], uint32(len(inner)))
			return append(h, inner...)
		}
	}
	for ci, c := range corpus {
		_, inner, packets, _ := splitMsg(c.msg)
		if inner == nil || inner.K != mvArr || len(inner.Arr) < 5 {
			continue
		}
		body := mpEncode(inner) // array tag + elements
		var elems []byte
		switch {
		case body[0] >= 0x90 && body[0] <= 0x9f:
			elems = body[1:]
		case body[0] == 0xdc:
			elems = body[3:]
		default:
			continue
		}
		n := len(inner.Arr)
		a16 := func(k int) []byte { h := []byte{0xdc, 0, 0}; binary.BigEndian.PutUint16(h[1:], uint16(k)); return h }
		a32 := func(k int) []byte { h := []byte{0xdd, 0, 0, 0, 0}; binary.BigEndian.PutUint32(h[1:], uint32(k)); return h }
		variants := []struct {
			label string
			tag   []byte
		}{
			{"fixarray", []byte{0x90 | byte(n)}}, {"array16", a16(n)}, {"array32", a32(n)},
			{"fix2", []byte{0x92}}, {"fix3", []byte{0x93}}, {"fix15", []byte{0x9f}}, {"fixmap", []byte{0x80 | byte(n)}},
			{"array16.3", a16(3)}, {"array32.3", a32(3)}, {"map16", []byte{0xde, 0, byte(n)}}, {"tag.db", []byte{0xdb}}, {"tag.de", []byte{0xde}},
		}
		for vi, v := range variants {
			for bk := 0; bk < 3; bk++ {
				if len(v.tag)+len(elems) > 255 && bk == 0 {
					continue
				}
				if ctx.Quick && (ci+vi+bk)%2 != 0 && v.label != "array16" && v.label != "array32" {
					continue
				}
				msg := joinMsg(binTag(bk, append(append([]byte(nil), v.tag...), elems...)), packets)
				for _, k := range []int{22, 23, 24, 30, 40, len(msg)} {
					if k > len(msg) {
						k = len(msg)
					}
					line := "cl.bin " + keys.Hex(msg[:k])
					out := goExec(line)
					label, bk := v.label, bk
					emit(Case{Stream: "classify.binary.near", Line: line, GoOut: out, Branch: fmt.Sprintf("%s/bin%d/k=%d/%s", label, bk, k, strings.Fields(out)[0]),
						Sample: map[string]interface{}{"op": "IsSaltpackBinarySlice", "header_array_tag": label, "outer_bin_tag": bk, "prefix_len": k, "answer": out},
						Direct: func() string {
							// the genuine element list under any ARRAY tag of the right count is the same header: same verdict as the genuine message
							if (label == "fixarray" || label == "array16" || label == "array32") && k >= 30 {
								want := fmt.Sprintf("ok %d %d.", c.mode, c.major)
								if !strings.HasPrefix(out, want) {
									return fmt.Sprintf("IsSaltpackBinarySlice does not classify a mode-%d v%d header written with a %s tag inside a bin%d object (answer %q): %s", c.mode, c.major, label, []int{8, 16, 32}[bk], out, trunc(line, 300))
								}
							}
							return ""
						}})
				}
				// the stream classifier on the same bytes
				line := fmt.Sprintf("cl.stream %d %s", 4096, keys.Hex(msg))
				out := goExec(line)
				emit(Case{Stream: "classify.stream.near", Line: line, GoOut: out, Branch: fmt.Sprintf("%s/bin%d/%s", v.label, bk, strings.Fields(out)[0])})
			}
		}
		// complete armored texts of short binary prefixes
		for k := 20; k <= 45; k++ {
			if ctx.Quick && (k+ci)%3 != 0 {
				continue
			}
			arm, _ := saltpack.Armor62Seal(c.msg[:k], armorTypeFor(c.mode), "")
			for _, text := range []string{arm, arm[:strings.LastIndex(arm[:len(arm)-2], ".")+1], strings.TrimRight(arm[:strings.LastIndex(arm[:len(arm)-2], ".")], " ")} {
				line := "cl.arm " + keys.Hex([]byte(text))
				out := goExec(line)
				k := k
				emit(Case{Stream: "classify.armored.shortblock", Line: line, GoOut: out, Branch: fmt.Sprintf("mode%d/k=%d/%s", c.mode, k, strings.Fields(out)[0]),
					Sample: map[string]interface{}{"op": "IsSaltpackArmoredPrefix", "what": "complete armor of a short binary prefix", "payload_len": k, "answer": out},
					Direct: func() string {
						if k < 32 && !(out == "short") {
							return fmt.Sprintf("IsSaltpackArmoredPrefix gives a verdict (%q) from a base62 block that decodes to only %d bytes (a full 32-byte block is required): %q", out, k, trunc(text, 200))
						}
						return ""
					}})
			}
		}
	}
}

func init() {
	regExtra("C16", genClassifyNear)
}
