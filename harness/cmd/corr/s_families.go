package main

// Families of genuine messages (built by the Lean reference sender with small
// chunk sizes, so that multi-packet messages stay small, and by the real
// senders) and the streams derived from them.

import (
	"bytes"
	"fmt"
	"strings"

	"github.com/keybase/saltpack"
	"verifharness/internal/keys"
	"verifharness/internal/model"
	"verifharness/internal/prng"
	"verifharness/internal/script"
)

var genModel *model.Proc

func askGen(line string) string {
	ans, err := genModel.Ask(line)
	if err != nil {
		panic("generator model: " + err.Error())
	}
	return ans
}

func mustOK(ans, line string) []byte {
	b, ok := okBytes(ans)
	if !ok {
		panic("reference sender failed: " + ans + " for " + trunc(line, 200))
	}
	return b
}

type encFamilyCfg struct {
	major      int
	minor      int
	anon       bool
	nRecips    int
	openerPos  int
	hidden     []bool
	bs         int
	ptLens     []int
	extraRing  bool
	validator  string
}

func buildEncFamily(r *prng.R, c encFamilyCfg) (*family, [][]byte) {
	sender := r.Bytes(32)
	secs := make([][]byte, c.nRecips)
	for i := range secs {
		secs[i] = r.Bytes(32)
	}
	rs := make([]string, c.nRecips)
	for i := range secs {
		h := "v"
		if c.hidden[i] {
			h = "h"
		}
		rs[i] = keys.Hex(boxPub(secs[i])) + ":" + h
	}
	snd := keys.Hex(sender)
	if c.anon {
		snd = "anon"
	}
	ring := stdRing(secs[c.openerPos])
	if c.extraRing {
		ring = stdRing(r.Bytes(32), secs[c.openerPos])
	}
	valid := c.validator
	if valid == "" {
		valid = "known"
	}
	f := &family{mode: "enc", major: c.major, named: !c.anon,
		openLine: func(msg []byte) string { return encOpenLine(valid, ring, msg) }}
	for _, n := range c.ptLens {
		eph, pk, pt := r.Bytes(32), r.Bytes(32), r.Bytes(n)
		line := fmt.Sprintf("enc.sealwith %d %d %s %s %s %s %d %s", c.major, c.minor, snd, strings.Join(rs, ","), keys.Hex(eph), keys.Hex(pk), c.bs, keys.Hex(pt))
		msg := mustOK(askGen(line), line)
		f.msgs = append(f.msgs, &genuineMsg{msg: msg, pt: pt, payloadKey: pk, openerPos: c.openerPos})
		if c.anon {
			f.sender = "" // anonymous: attribution is the ephemeral key of that message
		} else {
			f.sender = keys.Hex(boxPub(sender))
		}
	}
	return f, secs
}

func randHidden(r *prng.R, n int) []bool {
	h := make([]bool, n)
	for i := range h {
		h[i] = r.Intn(3) == 0
	}
	return h
}

type scFamilyCfg struct {
	anon      bool
	kinds     string // e.g. "bsb": box / sym per recipient
	openerPos int
	bs        int
	ptLens    []int
}

func buildScFamily(r *prng.R, c scFamilyCfg) *family {
	signer := r.Bytes(32)
	n := len(c.kinds)
	secs := make([][]byte, n)
	idents := make([][]byte, n)
	rs := make([]string, n)
	for i := range secs {
		secs[i] = r.Bytes(32)
		if c.kinds[i] == 'b' {
			rs[i] = "b:" + keys.Hex(boxPub(secs[i]))
		} else {
			idents[i] = r.Bytes(prng.Pick(r, 32, 32, 8, 40))
			rs[i] = "s:" + keys.Hex(secs[i]) + ":" + keys.Hex(idents[i])
		}
	}
	snd := keys.Hex(signer)
	if c.anon {
		snd = "anon"
	}
	var ring *keys.Ring
	resolver := "none"
	if c.kinds[c.openerPos] == 'b' {
		// the opener's key among 0-2 other long-term keys of the same keyring, at any place: GetAllBoxSecretKeys
		// returns several keys and each of them derives its shared key on its own (from 32 zero bytes)
		ringSecs := [][]byte{secs[c.openerPos]}
		for k := r.Intn(3); k > 0; k-- {
			at := r.Intn(len(ringSecs) + 1)
			ringSecs = append(ringSecs[:at], append([][]byte{r.Bytes(32)}, ringSecs[at:]...)...)
		}
		ring = stdRing(ringSecs...)
	} else {
		ring = stdRing()
		resolver = "map:" + keys.Hex(idents[c.openerPos]) + "=" + keys.Hex(secs[c.openerPos])
	}
	f := &family{mode: "sc", major: 2, named: !c.anon,
		openLine: func(msg []byte) string {
			return fmt.Sprintf("sc.open %s %s %s", ring.Spec(), resolver, keys.Hex(msg))
		}}
	f.sender = keys.Hex(sigPub(signer))
	if c.anon {
		f.sender = "anon"
	}
	for _, pl := range c.ptLens {
		eph, pk, pt := r.Bytes(32), r.Bytes(32), r.Bytes(pl)
		line := fmt.Sprintf("sc.sealwith %s %s %s %s %d %s", snd, strings.Join(rs, ","), keys.Hex(eph), keys.Hex(pk), c.bs, keys.Hex(pt))
		msg := mustOK(askGen(line), line)
		f.msgs = append(f.msgs, &genuineMsg{msg: msg, pt: pt, payloadKey: pk, openerPos: c.openerPos})
	}
	return f
}

func buildSigFamily(r *prng.R, major, minor, bs int, ptLens []int, validator string) *family {
	signer := r.Bytes(32)
	if validator == "" {
		validator = "known"
	}
	f := &family{mode: "sig", major: major, named: true, sender: keys.Hex(sigPub(signer)),
		openLine: func(msg []byte) string { return fmt.Sprintf("sig.verify %s std %s", validator, keys.Hex(msg)) }}
	for _, pl := range ptLens {
		nonce, pt := r.Bytes(16), r.Bytes(pl)
		line := fmt.Sprintf("sig.attachedwith %d %d %s %s %d %s", major, minor, keys.Hex(signer), keys.Hex(nonce), bs, keys.Hex(pt))
		msg := mustOK(askGen(line), line)
		f.msgs = append(f.msgs, &genuineMsg{msg: msg, pt: pt})
	}
	return f
}

// genuineCases: the family's own messages must be accepted with the right
// plaintext and attribution (C09: spec-valid messages with any chunk size,
// unknown minors, ...; also the base of every mutation stream).
func genuineCases(stream string, f *family, what string, emit func(Case)) {
	for _, g := range f.msgs {
		g := g
		line := f.openLine(g.msg)
		out := goExec(line)
		emit(Case{Stream: stream, Line: line, GoOut: out, Cmp: resCmp, Fallback: fallbackFor(line),
			Branch: fmt.Sprintf("%s.v%d/%s/%s", f.mode, f.major, what, resClass(out)),
			Sample: map[string]interface{}{"mode": f.mode, "major": f.major, "what": what, "plaintext_len": len(g.pt), "outcome": resClass(out)},
			Direct: func() string {
				if resClass(out) != "ok" || !bytes.Equal(resReleased(out), g.pt) {
					return fmt.Sprintf("a spec-valid %s message (%s) is not accepted with its plaintext: outcome=%s request=%s", f.mode, what, resClass(out), trunc(line, 600))
				}
				return authPredicate(f, "genuine", g.msg, out)
			}})
	}
}

// encFamilies: the grid of encryption families used by C02/C09/C12/C15/C17.
func encFamilies(ctx *Ctx, r *prng.R, n int) []*family {
	var fs []*family
	for i := 0; i < n; i++ {
		nr := prng.Pick(r, 1, 2, 3, 3, 4)
		c := encFamilyCfg{major: 1 + i%2, anon: r.Intn(4) == 0, nRecips: nr, openerPos: r.Intn(nr), hidden: randHidden(r, nr),
			bs: prng.Pick(r, 1, 5, 16, 64), ptLens: []int{prng.Pick(r, 0, 1, 5, 33), prng.Pick(r, 2, 17, 40)}, extraRing: r.Intn(4) == 0}
		if c.bs == 1 {
			c.ptLens = []int{prng.Pick(r, 0, 1, 3), 2}
		}
		f, _ := buildEncFamily(r, c)
		fs = append(fs, f)
	}
	return fs
}

func scFamilies(ctx *Ctx, r *prng.R, n int) []*family {
	var fs []*family
	for i := 0; i < n; i++ {
		kinds := prng.Pick(r, "b", "s", "bs", "sb", "bbs", "sbs", "ssbb")
		c := scFamilyCfg{anon: r.Intn(4) == 0, kinds: kinds, openerPos: r.Intn(len(kinds)), bs: prng.Pick(r, 1, 7, 32),
			ptLens: []int{prng.Pick(r, 0, 1, 9, 40), prng.Pick(r, 3, 20)}}
		if c.bs == 1 {
			c.ptLens = []int{prng.Pick(r, 0, 2), 3}
		}
		fs = append(fs, buildScFamily(r, c))
	}
	return fs
}

func sigFamilies(ctx *Ctx, r *prng.R, n int) []*family {
	var fs []*family
	for i := 0; i < n; i++ {
		bs := prng.Pick(r, 1, 6, 50)
		pl := []int{prng.Pick(r, 0, 1, 10, 60), prng.Pick(r, 2, 13)}
		if bs == 1 {
			pl = []int{prng.Pick(r, 0, 3), 2}
		}
		fs = append(fs, buildSigFamily(r, 1+i%2, 0, bs, pl, ""))
	}
	return fs
}

func allMutations(ctx *Ctx, r *prng.R, f *family, exhaustiveBytes bool) []mutation {
	var muts []mutation
	for i, g := range f.msgs {
		other := f.msgs[(i+1)%len(f.msgs)]
		if other == g {
			other = nil
		}
		muts = append(muts, treeMutations(f, g, r, other)...)
		muts = append(muts, byteMutations(g, r, ctx.N(12, 40), ctx.N(8, 30), exhaustiveBytes && i == 0)...)
		switch f.mode {
		case "enc":
			muts = append(muts, encForgeries(f, g, r)...)
		case "sc":
			muts = append(muts, scForgeries(f, g, r)...)
		}
	}
	return muts
}

func genAuthStream(ctx *Ctx, mode string, emit func(Case)) {
	r := ctx.R.Fork()
	var fs []*family
	switch mode {
	case "enc":
		fs = encFamilies(ctx, r, ctx.N(6, 40))
	case "sc":
		fs = scFamilies(ctx, r, ctx.N(6, 40))
	default:
		fs = sigFamilies(ctx, r, ctx.N(6, 40))
	}
	for i, f := range fs {
		genuineCases(mode+".genuine", f, "reference-sender", emit)
		mutationCases(ctx, mode+".mutated", f, allMutations(ctx, r, f, !ctx.Quick && i < 3), emit)
	}
}

// detached signatures ---------------------------------------------------------

func genDetached(ctx *Ctx, emit func(Case)) {
	r := ctx.R.Fork()
	for k := 0; k < ctx.N(6, 30); k++ {
		major := 1 + k%2
		signer := r.Bytes(32)
		msg := r.Bytes(prng.Pick(r, 0, 1, 50, 300))
		src := randSigScript(r, -1, 0)
		line := fmt.Sprintf("sig.detached %d 0 %s %s %s", major, keys.Hex(signer), src.Spec(), keys.Hex(msg))
		out := goExec(line)
		emit(Case{Stream: "det.sign", Line: line, GoOut: out, Branch: fmt.Sprintf("v%d/%s", major, sizeClass(len(msg))),
			Sample: map[string]interface{}{"op": "SignDetached", "major": major, "message_len": len(msg)}})
		sig, ok := okBytes(out)
		if !ok {
			continue
		}
		verify := func(stream, label string, sigmsg, m []byte, wantOK bool) {
			l := fmt.Sprintf("sig.verifydetached known std %s %s", keys.Hex(sigmsg), keys.Hex(m))
			o := goExec(l)
			emit(Case{Stream: stream, Line: l, GoOut: o, Cmp: resCmp, Fallback: fallbackFor(l), Branch: fmt.Sprintf("v%d/%s/%s", major, label, resClass(o)),
				Direct: func() string {
					if wantOK && (resClass(o) != "ok" || !strings.Contains(o, "signer="+keys.Hex(sigPub(signer)))) {
						return fmt.Sprintf("a genuine detached signature does not verify: %s -> %s", trunc(l, 400), o)
					}
					if !wantOK && resClass(o) == "ok" {
						return fmt.Sprintf("a detached verification succeeds on altered input (%s): %s", label, trunc(l, 600))
					}
					return ""
				}})
		}
		verify("det.verify.genuine", "genuine", sig, msg, true)
		// the streaming signer under a Write split (incl. closed without any Write)
		if how := writeSplit(r, len(msg)); how != "" || k < 2 {
			if k < 2 {
				how = " w=-1"
			}
			l2 := line + how
			o2 := goExec(l2)
			emit(Case{Stream: "det.sign.stream", Line: l2, GoOut: o2, Branch: fmt.Sprintf("v%d/%s/%s", major, sizeClass(len(msg)), howClass(how)),
				Direct: func() string {
					if o2 != out {
						return fmt.Sprintf("streaming and all-at-once detached signing disagree: version=%d message_len=%d writes%s: stream %s vs one-shot %s", major, len(msg), how, trunc(o2, 100), trunc(out, 100))
					}
					return ""
				}})
		}
		// the message given as a reader: every way a legal io.Reader may deliver
		// it (fragments, empty reads, the last bytes together with io.EOF), and a
		// reader that delivers an *extended / shortened* message the same ways
		verifyR := func(stream, label, form string, m []byte, scr string, wantOK bool) {
			l := fmt.Sprintf("sig.verifydetachedr %s known std %s %s", form, keys.Hex(sig), scr)
			o := goExec(l)
			emit(Case{Stream: stream, Line: l, GoOut: o, Cmp: resCmp, Branch: fmt.Sprintf("v%d/%s/%s/%s", major, form, label, resClass(o)),
				Direct: func() string {
					if wantOK && (resClass(o) != "ok" || !strings.Contains(o, "signer="+keys.Hex(sigPub(signer)))) {
						return fmt.Sprintf("a genuine detached signature does not verify when the message (%x) comes from a reader delivering %s: %s -> %s", m, label, trunc(l, 400), o)
					}
					if !wantOK && resClass(o) == "ok" {
						return fmt.Sprintf("a detached signature over %x verifies against a different message delivered by a reader (%s): %s", msg, label, trunc(l, 600))
					}
					return ""
				}})
		}
		for _, form := range []string{"b", "a"} {
			for _, sh := range readerShapes(r, msg) {
				verifyR("det.verify.reader", sh.label, form, msg, sh.script, true)
			}
			ext := append(append([]byte(nil), msg...), r.Bytes(1+r.Intn(3))...)
			for _, sh := range readerShapes(r, ext) {
				verifyR("det.verify.reader.altered", "ext-"+sh.label, form, ext, sh.script, false)
			}
			if len(msg) > 0 {
				for _, sh := range readerShapes(r, msg[:len(msg)-1]) {
					verifyR("det.verify.reader.altered", "trunc-"+sh.label, form, msg[:len(msg)-1], sh.script, false)
				}
			}
			// a reader that fails: never a successful verification
			for _, scr := range []string{keys.Hex(msg) + "!", "-!", hexOrDash(msg) + ",-!"} {
				l := fmt.Sprintf("sig.verifydetachedr %s known std %s %s", form, keys.Hex(sig), scr)
				o := goExec(l)
				emit(Case{Stream: "det.verify.reader.fault", Line: l, GoOut: o, Cmp: resCmp, Branch: fmt.Sprintf("v%d/%s/%s", major, form, resClass(o)),
					Direct: func() string {
						if resClass(o) == "ok" {
							return "a detached verification succeeds although the message reader failed: " + trunc(l, 400)
						}
						return ""
					}})
			}
		}
		// every single-bit change of the message (small) / sampled
		for i := 0; i < len(msg)*8 && i < ctx.N(64, 4096); i++ {
			m := append([]byte(nil), msg...)
			m[i/8] ^= 1 << uint(i%8)
			verify("det.verify.msgflip", "msgflip", sig, m, false)
		}
		verify("det.verify.msgext", "msgext", sig, append(append([]byte(nil), msg...), 0), false)
		if len(msg) > 0 {
			verify("det.verify.msgtrunc", "msgtrunc", sig, msg[:len(msg)-1], false)
		}
		// the signature packet: every bit of the 64-byte signature value, every truncation
		objs, _ := mpSplit(sig)
		if len(objs) == 2 {
			sv, _, _ := mpParse(objs[1])
			step := ctx.N(9, 1)
			for i := r.Intn(step); i < 512; i += step {
				q := sv.clone()
				q.Data[i/8] ^= 1 << uint(i%8)
				verify("det.verify.sigflip", "sigflip", append(append([]byte(nil), objs[0]...), mpEncode(q)...), msg, false)
			}
			for n := 0; n < 64; n += ctx.N(7, 1) {
				q := sv.clone()
				q.Data = q.Data[:n]
				verify("det.verify.sigtrunc", "sigtrunc", append(append([]byte(nil), objs[0]...), mpEncode(q)...), msg, false)
			}
			// the 64-byte value EXTENDED inside a well-formed bin (a receiver that copies into a fixed array would cut it back)
			for _, extra := range [][]byte{{0}, {1}, r.Bytes(16), make([]byte, 64), append(append([]byte(nil), sv.Data...), sv.Data...)} {
				q := sv.clone()
				q.Data = append(append([]byte(nil), sv.Data...), extra...)
				verify("det.verify.sigext", "sigext", append(append([]byte(nil), objs[0]...), mpEncode(q)...), msg, false)
			}
			// … and the value with its zero tail cut off (zero-padding would restore it): a signature whose last byte is 0
			if sv.Data[len(sv.Data)-1] == 0 {
				q := sv.clone()
				q.Data = q.Data[:len(q.Data)-1]
				verify("det.verify.sigtrunc", "sigtrunc.zerotail", append(append([]byte(nil), objs[0]...), mpEncode(q)...), msg, false)
			}
			verify("det.verify.nosig", "nosig", objs[0], msg, false)
			// header edits (header hash changes => signature no longer matches)
			f := &family{mode: "sig", major: major}
			for _, m := range treeMutations(f, &genuineMsg{msg: append(append([]byte(nil), objs[0]...), mpEncode(mvArrOf(mvBinOf(sv.Data), mvBinOf(nil)))...)}, r, nil) {
				if !strings.HasPrefix(m.label, "h.") {
					continue
				}
				h, _ := mpSplit(m.msg)
				if len(h) == 0 {
					continue
				}
				// the header is "altered" iff the header *bytes* (what is hashed and
				// signed) differ; a different outer length/str encoding of the same
				// bytes, or an edit that writes the value already there, is the same header
				accept := false
				if hv, _, err := mpParse(h[0]); err == nil && (hv.K == mvBin || hv.K == mvStr) {
					if ov, _, err := mpParse(objs[0]); err == nil && bytes.Equal(hv.Data, ov.Data) {
						accept = true
					}
				}
				verify("det.verify.hdr", m.label, append(append([]byte(nil), h[0]...), objs[1]...), msg, accept)
			}
		}
		// an attached signature / its packet presented as detached
		att := fmt.Sprintf("sig.attachedwith %d 0 %s %s %d %s", major, keys.Hex(signer), keys.Hex(r.Bytes(16)), mib, keys.Hex(msg))
		am := mustOK(askGen(att), att)
		verify("det.verify.attached-as-detached", "attached", am, msg, false)
		aobjs, _ := mpSplit(am)
		if len(aobjs) >= 2 && len(objs) == 2 {
			ap, _, _ := mpParse(aobjs[1])
			var asig []byte
			for _, e := range ap.Arr {
				if e.K == mvBin && len(e.Data) == 64 {
					asig = e.Data
				}
			}
			verify("det.verify.attached-sig-transplant", "attsig", append(append([]byte(nil), objs[0]...), mpEncode(mvBinOf(asig))...), msg, false)
			verify("det.verify.attached-packet", "attpacket", append(append([]byte(nil), objs[0]...), aobjs[1]...), msg, false)
		}
		// transplant between two signatures by the same key
		msg2 := r.Bytes(20)
		l2 := fmt.Sprintf("sig.detached %d 0 %s %s %s", major, keys.Hex(signer), randSigScript(r, -1, 0).Spec(), keys.Hex(msg2))
		if s2, ok := okBytes(goExec(l2)); ok && len(objs) == 2 {
			o2, _ := mpSplit(s2)
			verify("det.verify.transplant", "sig-of-other", append(append([]byte(nil), objs[0]...), o2[1]...), msg, false)
			verify("det.verify.transplant", "hdr-of-other", append(append([]byte(nil), o2[0]...), objs[1]...), msg, false)
			verify("det.verify.transplant", "other-msg", sig, msg2, false)
		}
	}
}

// silence unused
var _ = saltpack.Version1

func hexOrDash(b []byte) string {
	if len(b) == 0 {
		return "-"
	}
	return keys.Hex(b)
}

// readerShapes: scripts of the ways a legal io.Reader may deliver m
func readerShapes(r *prng.R, m []byte) []struct{ label, script string } {
	type sh = struct{ label, script string }
	out := []sh{
		{"all-then-eof", hexOrDash(m) + ",-$"},
		{"all-with-eof", hexOrDash(m) + "$"},
		{"all-no-eof-entry", hexOrDash(m)},
	}
	if len(m) >= 2 {
		k := 1 + r.Intn(len(m)-1)
		out = append(out,
			sh{"tail-with-eof", keys.Hex(m[:k]) + "," + keys.Hex(m[k:]) + "$"},
			sh{"empty-reads", "-," + keys.Hex(m[:k]) + ",-,-," + keys.Hex(m[k:]) + ",-,-$"},
			sh{"last-byte-with-eof", keys.Hex(m[:len(m)-1]) + "," + keys.Hex(m[len(m)-1:]) + "$"})
		var parts []string
		for _, b := range m {
			parts = append(parts, keys.Hex([]byte{b}))
		}
		if len(parts) <= 64 {
			out = append(out, sh{"bytewise-last-with-eof", strings.Join(parts, ",") + "$"})
		}
	}
	return out
}

// genOwnSignerSplices (C06, C04): cross-message splices between two messages
// produced by the IMPLEMENTATION's own signer / signcryptor with the same key
// (the reference-sender families above take their header nonces from the
// harness; here the library draws them).  Two messages of two payload packets
// each; every packet of one is swapped for the packet at the same position of
// the other; the receiver must not end without error on content that is
// neither message.  The request line (model comparison) is the first message's
// signing request with a short plaintext; the splices are an
// implementation-side predicate.
func genOwnSignerSplices(ctx *Ctx, mode string, emit func(Case)) {
	r := ctx.R.Fork()
	for k := 0; k < ctx.N(2, 8); k++ {
		major := 1 + k%2
		if mode == "sc" {
			major = 2
		}
		seed := r.Bytes(32)
		signer := keys.NewSigSecret(seed, nil)
		ring := stdRing()
		tail := 1 + r.Intn(40)
		ptA, ptB := r.Bytes(mib+tail), r.Bytes(mib+tail)
		var a, b []byte
		var errA, errB error
		v := saltpack.Version{Major: major}
		recSec := r.Bytes(32)
		cr := &keys.EphCreator{Secret: r.Bytes(32)}
		recPub := keys.NewBoxSecret(recSec, false, nil, cr).Pub
		script.With(&prngReader{r}, func() {
			if mode == "sc" {
				a, errA = saltpack.SigncryptSeal(ptA, cr, signer, []saltpack.BoxPublicKey{recPub}, nil)
				b, errB = saltpack.SigncryptSeal(ptB, cr, signer, []saltpack.BoxPublicKey{recPub}, nil)
			} else {
				a, errA = saltpack.Sign(v, ptA, signer)
				b, errB = saltpack.Sign(v, ptB, signer)
			}
		})
		short := r.Bytes(20)
		line := fmt.Sprintf("sig.attached %d 0 %s %s %d %s", major, keys.Hex(seed), randSigScript(r, -1, 0).Spec(), mib, keys.Hex(short))
		out := goExec(line)
		emit(Case{Stream: mode + ".ownsigner.splice", Line: line, GoOut: out, Branch: fmt.Sprintf("%s.v%d", mode, major),
			Sample: map[string]interface{}{"op": "splices between two messages of the library's own " + mode + " sender", "major": major, "plaintext_len": mib + tail},
			Direct: func() string {
				if errA != nil || errB != nil {
					return fmt.Sprintf("the library's sender failed: %v %v", errA, errB)
				}
				oa, _ := mpSplit(a)
				ob, _ := mpSplit(b)
				if len(oa) != len(ob) || len(oa) < 3 {
					return fmt.Sprintf("unexpected packet counts %d %d", len(oa), len(ob))
				}
				open := func(msg []byte) ([]byte, error) {
					if mode == "sc" {
						kr := stdRing(recSec)
						_, pt, err := saltpack.SigncryptOpen(msg, kr, nil)
						return pt, err
					}
					_, pt, err := saltpack.Verify(saltpack.CheckKnownMajorVersion, msg, ring)
					return pt, err
				}
				// sanity: both genuine messages open
				if pt, err := open(a); err != nil || !bytes.Equal(pt, ptA) {
					return fmt.Sprintf("a genuine message of the library's own sender does not open: %v", err)
				}
				for pos := 0; pos < len(oa); pos++ { // pos 0 = header
					sp := make([][]byte, len(oa))
					copy(sp, oa)
					sp[pos] = ob[pos]
					msg := bytes.Join(sp, nil)
					pt, err := open(msg)
					if err == nil && !bytes.Equal(pt, ptA) && !bytes.Equal(pt, ptB) {
						return fmt.Sprintf("a cross-message splice of two %s messages by the same key (object %d of message B put into message A; both produced by the library, version %d, %d-byte plaintexts, signer seed %x) is accepted without error and releases %d bytes that are neither message", mode, pos, major, len(ptA), seed, len(pt))
					}
				}
				return ""
			}})
	}
}
