package main

// C19 (second half, through the real entry point): "each permutation of n recipients arises from exactly one
// draw sequence". For n = 2, 3, 4 recipients and every visibility pattern class (all visible, all hidden, mixed),
// Seal is run under EVERY vector of Fisher–Yates draws (scripted randomness: for the draw with bound b the word in
// the middle of the j-th acceptance interval), each recipient's header entry is located by opening the payload key
// boxes with that recipient's own secret key (the only way hidden entries can be told apart), and the n! resulting
// arrangements must be pairwise different — i.e. all n! permutations. A sender that skips or biases the shuffle
// for some class of recipient lists (all anonymous, a single one, …) fails here with the draw vectors that collide.

import (
	"encoding/binary"
	"fmt"
	"strings"

	"golang.org/x/crypto/nacl/box"

	"github.com/keybase/saltpack"
	"verifharness/internal/keys"
	"verifharness/internal/prng"
	"verifharness/internal/script"
)

func drawVectors(n int) [][]int {
	// draws for i = n-1 … 1 with bound i+1
	out := [][]int{{}}
	for i := n - 1; i > 0; i-- {
		var next [][]int
		for _, v := range out {
			for j := 0; j <= i; j++ {
				next = append(next, append(append([]int(nil), v...), j))
			}
		}
		out = next
	}
	return out
}

func drawWord(j, bound int) []byte {
	w := make([]byte, 4)
	binary.BigEndian.PutUint32(w, uint32((uint64(2*j+1)<<31)/uint64(bound)))
	return w
}

// entryOwners: for the emitted message, which recipient (index into secs) owns header entry e, by trial opening
func entryOwners(msg []byte, major int, secs [][]byte) ([]int, string) {
	_, h, _, _ := splitMsg(msg)
	if h == nil || h.K != mvArr || len(h.Arr) < 6 || h.Arr[5].K != mvArr || len(h.Arr[3].Data) != 32 {
		return nil, "emitted header does not parse"
	}
	var eph [32]byte
	copy(eph[:], h.Arr[3].Data)
	owners := make([]int, len(h.Arr[5].Arr))
	for e, ent := range h.Arr[5].Arr {
		owners[e] = -1
		if ent.K != mvArr || len(ent.Arr) < 2 {
			return nil, "malformed recipient entry"
		}
		var nonce [24]byte
		if major == 1 {
			copy(nonce[:], "saltpack_payload_key_box")
		} else {
			copy(nonce[:], "saltpack_recipsb")
			binary.BigEndian.PutUint64(nonce[16:], uint64(e))
		}
		for ri, s := range secs {
			var sk [32]byte
			copy(sk[:], s)
			if _, ok := box.Open(nil, ent.Arr[1].Data, &nonce, &eph, &sk); ok {
				owners[e] = ri
			}
		}
		if owners[e] < 0 {
			return nil, fmt.Sprintf("header entry %d opens for none of the recipients", e)
		}
	}
	return owners, ""
}

func genOrderThroughSeal(ctx *Ctx, emit func(Case)) {
	r := ctx.R.Fork()
	ns := []int{2, 3}
	if !ctx.Quick {
		ns = []int{2, 3, 4}
	}
	for _, n := range ns {
		for _, pattern := range []string{"visible", "hidden", "mixed", "onehidden"} {
			for major := 1; major <= 2; major++ {
				n, pattern, major := n, pattern, major
				secs := make([][]byte, n)
				hidden := make([]bool, n)
				for i := range secs {
					secs[i] = r.Bytes(32)
					switch pattern {
					case "hidden":
						hidden[i] = true
					case "mixed":
						hidden[i] = i%2 == 0
					case "onehidden":
						hidden[i] = i == n-1
					}
				}
				var sender []byte
				if r.Bool() {
					sender = r.Bytes(32)
				}
				eph, pk, pt := r.Bytes(32), r.Bytes(32), r.Bytes(prng.Pick(r, 0, 5))
				line0 := ""
				emit(Case{Stream: "order.seal.permutations", Line: fmt.Sprintf("noop order.seal n=%d %s v%d", n, pattern, major), GoOut: "bad-op",
					Branch: fmt.Sprintf("n=%d/%s/v%d", n, pattern, major),
					Sample: map[string]interface{}{"op": "Seal under every Fisher–Yates draw vector", "recipients": n, "pattern": pattern, "major": major},
					Direct: func() string {
						seen := map[string]string{}
						for _, dv := range drawVectors(n) {
							src := &script.Source{}
							for k, j := range dv {
								src.Reads = append(src.Reads, script.Read{Data: drawWord(j, n-k)})
							}
							src.Reads = append(src.Reads, script.Read{Data: pk})
							c := &encConfig{v: saltpack.Version{Major: major}, sender: sender, recips: secs, hidden: hidden, ephRand: false, eph: eph, src: src, pt: pt}
							line := c.line()
							if line0 == "" {
								line0 = line
							}
							msg, ok := okBytes(goExec(line))
							if !ok {
								return "Seal failed under a healthy scripted source: " + trunc(line, 400)
							}
							owners, why := entryOwners(msg, major, secs)
							if why != "" {
								return why + " — request " + trunc(line, 400)
							}
							key := fmt.Sprint(owners)
							if other, dup := seen[key]; dup {
								return fmt.Sprintf("the order of recipient entries is not a bijection of the shuffle's draws: %d recipients (%s, v%d), draw vectors %s and %v both give the arrangement %s (entry -> caller's index) — request %s",
									n, pattern, major, other, dv, key, trunc(line, 500))
							}
							seen[key] = fmt.Sprint(dv)
						}
						return ""
					}})
			}
		}
	}
	_ = strings.Join
	_ = keys.Hex
}

func init() {
	regExtra("C19", genOrderThroughSeal)
}
