package main

// goExec runs the *implementation* on one request line of the model's line
// protocol and renders the answer in the model's canonical form.

import (
	"bytes"
	"encoding/binary"
	"encoding/hex"
	"fmt"
	"io"
	"strconv"
	"strings"
	"sync/atomic"

	"github.com/keybase/saltpack"
	"github.com/keybase/saltpack/encoding/basex"
	"verifharness/internal/keys"
	"verifharness/internal/script"
)

func unhex(s string) []byte {
	if s == "-" {
		return []byte{}
	}
	b, err := hex.DecodeString(s)
	if err != nil {
		panic("bad hex " + s)
	}
	return b
}

func splitL(s string) []string {
	if s == "-" {
		return nil
	}
	return strings.Split(s, ",")
}

func encByName(n string) *basex.Encoding {
	switch n {
	case "b62":
		return basex.Base62StdEncoding
	case "b62s":
		return basex.Base62StdEncodingStrict
	case "b58":
		return basex.Base58StdEncoding
	case "b58s":
		return basex.Base58StdEncodingStrict
	}
	panic("enc " + n)
}

func atoi(s string) int {
	n, err := strconv.Atoi(s)
	if err != nil {
		panic(err)
	}
	return n
}

func parseSource(s string) *script.Source {
	src := &script.Source{}
	for _, t := range splitL(s) {
		r := script.Read{}
		if strings.HasSuffix(t, "!") {
			r.Err = true
			t = strings.TrimSuffix(t, "!")
		}
		if t != "" && t != "-" {
			r.Data = unhex(t)
		}
		src.Reads = append(src.Reads, r)
	}
	return src
}

func version(ma, mi string) saltpack.Version {
	return saltpack.Version{Major: atoi(ma), Minor: atoi(mi)}
}

func parseEph(s string, src *script.Source) *keys.EphCreator {
	switch {
	case s == "r":
		return &keys.EphCreator{Read: func(b []byte) error { _, err := io.ReadFull(src, b); return err }}
	case s == "f":
		return &keys.EphCreator{Fail: true}
	case strings.HasPrefix(s, "g:"):
		return &keys.EphCreator{Secret: unhex(s[2:])}
	}
	panic("eph " + s)
}

func parseRing(secrets, ls, lp, ie, lsig string, log *keys.Log) *keys.Ring {
	r := &keys.Ring{LS: ls, LP: lp, IE: ie, LSig: lsig, Log: log, Creator: &keys.EphCreator{Fail: true}}
	for _, s := range splitL(secrets) {
		r.Secrets = append(r.Secrets, keys.NewBoxSecret(unhex(s), false, log, r.Creator))
	}
	return r
}

func parseValidator(s string) saltpack.VersionValidator {
	p := strings.Split(s, ":")
	switch p[0] {
	case "known":
		return saltpack.CheckKnownMajorVersion
	case "any":
		return func(saltpack.Version) error { return nil }
	case "single":
		return saltpack.SingleVersionValidator(saltpack.Version{Major: atoi(p[1]), Minor: atoi(p[2])})
	}
	panic("validator " + s)
}

type resolver struct{ spec string }

func (r resolver) ResolveKeys(ids [][]byte) ([]*saltpack.SymmetricKey, error) {
	p := strings.SplitN(r.spec, ":", 2)
	switch p[0] {
	case "err":
		return nil, script.ErrResolver
	case "short":
		if len(ids) == 0 {
			return nil, nil
		}
		return make([]*saltpack.SymmetricKey, len(ids)-1), nil
	case "map":
		out := make([]*saltpack.SymmetricKey, len(ids))
		if p[1] != "-" {
			for _, pair := range strings.Split(p[1], ";") {
				kv := strings.Split(pair, "=")
				for i, id := range ids {
					if out[i] == nil && keys.Hex(id) == kv[0] {
						var k saltpack.SymmetricKey
						copy(k[:], unhex(kv[1]))
						out[i] = &k
					}
				}
			}
		}
		return out, nil
	}
	panic("resolver " + r.spec)
}

func parseResolver(s string) saltpack.SymmetricKeyResolver {
	if s == "none" {
		return nil
	}
	return resolver{s}
}

// readAllCollect reads r to the end with the given buffer size, returning what
// was released and the terminal error (nil = clean EOF).
// consumerTurn rotates the way receiver streams are consumed (a plain Read loop / io.Copy, which uses
// io.WriterTo when the stream offers it). Atomic: the concurrent workload calls goExec from many goroutines.
var consumerTurn uint32

// readAllCollect consumes a receiver stream the way applications do — a Read loop or io.Copy — and then
// TOUCHES IT AGAIN after it has ended, cleanly or with an error (a retry loop, a second io.Copy, a deferred
// io.ReadAll): whatever those later calls hand out counts as released. A stream whose error is not sticky, or
// that resumes behind a packet it rejected, shows up as extra released bytes.
func readAllCollect(r io.Reader, bufSize int) ([]byte, error) {
	var out []byte
	var first error
	turn := atomic.AddUint32(&consumerTurn, 1)
	if turn%3 == 0 {
		var b bytes.Buffer
		_, first = io.Copy(&b, r)
		out = b.Bytes()
	} else if turn%3 == 1 {
		// sniff a few bytes with Read (stopping inside a chunk), then hand the rest to io.Copy: the two ways of
		// consuming must share what has been verified but not yet delivered
		buf := make([]byte, 1+int(turn/3)%7)
		n, err := r.Read(buf)
		out = append(out, buf[:n]...)
		if err == nil {
			var b bytes.Buffer
			_, first = io.Copy(&b, r)
			out = append(out, b.Bytes()...)
		} else if err != io.EOF {
			first = err
		}
	} else {
		buf := make([]byte, bufSize)
		ended := false
		for i := 0; i < 1<<30; i++ {
			n, err := r.Read(buf)
			out = append(out, buf[:n]...)
			if err == io.EOF {
				ended = true
				break
			}
			if err != nil {
				first, ended = err, true
				break
			}
		}
		if !ended {
			return out, fmt.Errorf("reader never ended")
		}
	}
	// touch it again, both ways
	var b bytes.Buffer
	_, err2 := io.Copy(&b, r)
	out = append(out, b.Bytes()...)
	buf := make([]byte, 64)
	n, err3 := r.Read(buf)
	out = append(out, buf[:n]...)
	if first == nil && (err2 != nil || (err3 != nil && err3 != io.EOF)) {
		// a stream that ended cleanly must keep saying so
		if err2 != nil {
			return out, err2
		}
		return out, err3
	}
	return out, first
}

func boolS(b bool) string {
	if b {
		return "true"
	}
	return "false"
}

func mkiString(m *saltpack.MessageKeyInfo) string {
	named := "-"
	if len(m.NamedReceivers) > 0 {
		named = keys.HexList(m.NamedReceivers)
	}
	return fmt.Sprintf("sender=%s anon=%s recv=%s ranon=%s named=%s nanon=%d",
		keys.Hex(m.SenderKey.ToKID()), boolS(m.SenderIsAnon), keys.Hex(m.ReceiverKey.GetPublicKey().ToKID()),
		boolS(m.ReceiverIsAnon), named, m.NumAnonReceivers)
}

func sealResult(out []byte, err error, src *script.Source) string {
	if err != nil {
		return "err " + script.Class(err)
	}
	return fmt.Sprintf("ok %s reads=%d", keys.Hex(out), src.Consumed())
}

func goExec(line string) (out string) {
	defer func() {
		if r := recover(); r != nil {
			out = fmt.Sprintf("panic:%v", r)
		}
	}()
	t := strings.Fields(line)
	// optional trailing "w=<n.n.n>": the sealing/signing ops use the streaming
	// entry point and deliver the plaintext in Write calls of those lengths
	// (the rest in a last one).  The model ignores the token: by C13's theorems
	// the packets do not depend on the split.
	// optional trailing "ep=<all|arm|armstream>": which entry-point form an
	// open/verify request goes through (default: the binary streaming form)
	// optional trailing "re=eof": scripted randomness faults return io.EOF instead of a generic error
	if len(t) > 1 && t[len(t)-1] == "re=eof" {
		script.ErrValue = io.EOF
		t = t[:len(t)-1]
		defer func() { script.ErrValue = script.ErrScripted }()
	}
	if len(t) > 1 && strings.HasPrefix(t[len(t)-1], "ep=") {
		currentEP = t[len(t)-1][3:]
		t = t[:len(t)-1]
		defer func() { currentEP = "" }()
	}
	// (the global is written only by requests that carry the token — the
	// concurrent workload of C20 never does — and reset when they return)
	if len(t) > 1 && strings.HasPrefix(t[len(t)-1], "w=") {
		currentWrites = parseCapsGo(t[len(t)-1][2:])
		t = t[:len(t)-1]
		defer func() { currentWrites = nil }()
	}
	// optional trailing "rd=<n.n.n>": bx.dec uses the streaming decoder over a
	// reader that delivers the text in pieces of those sizes (cycling); the
	// model answers with the one-shot form (C10: the two agree)
	var reads []int
	if len(t) > 1 && strings.HasPrefix(t[len(t)-1], "rd=") {
		reads = parseCapsGo(t[len(t)-1][3:])
		t = t[:len(t)-1]
	}
	switch t[0] {
	case "bx.enc":
		if currentWrites != nil {
			var buf bytes.Buffer
			w := basex.NewEncoder(encByName(t[1]), &buf)
			rest := unhex(t[2])
			for _, n := range currentWrites {
				if n < 0 {
					continue
				}
				if n > len(rest) {
					n = len(rest)
				}
				if _, err := w.Write(rest[:n]); err != nil {
					return "err write"
				}
				rest = rest[n:]
			}
			if len(rest) > 0 {
				if _, err := w.Write(rest); err != nil {
					return "err write"
				}
			}
			if err := w.Close(); err != nil {
				return "err close"
			}
			return "ok " + keys.Hex(buf.Bytes())
		}
		return "ok " + keys.Hex([]byte(encByName(t[1]).EncodeToString(unhex(t[2]))))
	case "bx.dec":
		if reads != nil {
			dec := basex.NewDecoder(encByName(t[1]), &pieceReader{b: unhex(t[2]), sizes: reads})
			b, err := readAllCollect(dec, 1+len(unhex(t[2]))%97)
			if err != nil {
				if ce, ok := err.(basex.CorruptInputError); ok {
					return fmt.Sprintf("err corrupt %d", int(ce))
				}
				return "err badlen"
			}
			return "ok " + keys.Hex(b)
		}
		b, err := encByName(t[1]).DecodeString(string(unhex(t[2])))
		if err != nil {
			if ce, ok := err.(basex.CorruptInputError); ok {
				return fmt.Sprintf("err corrupt %d", int(ce))
			}
			return "err badlen"
		}
		return "ok " + keys.Hex(b)
	case "bx.len":
		e := encByName(t[1])
		n := atoi(t[3])
		switch t[2] {
		case "e":
			return fmt.Sprintf("ok %d", e.EncodedLen(n))
		case "d":
			return fmt.Sprintf("ok %d", e.DecodedLen(n))
		default:
			return "ok " + boolS(e.IsValidEncodingLength(n))
		}
	case "rand.u32n":
		var buf bytes.Buffer
		vs := splitL(t[2])
		for _, v := range vs {
			x, _ := strconv.ParseUint(v, 10, 32)
			_ = binary.Write(&buf, binary.BigEndian, uint32(x))
		}
		n64, _ := strconv.ParseUint(t[1], 10, 32)
		before := buf.Len()
		r, err := saltpack.VerifCsprngUint32n(&buf, uint32(n64))
		if err != nil {
			return "none"
		}
		return fmt.Sprintf("ok %d %d", r, (before-buf.Len())/4)
	case "rand.shuffle":
		// drive csprngShuffle with source words chosen so that each draw yields
		// the wanted j: v = ceil(j*2^32/(i+1)) is always accepted for i+1 <= 2^31
		n := atoi(t[1])
		js := splitL(t[2])
		var buf bytes.Buffer
		for k, j := range js {
			i := n - 1 - k
			jj, _ := strconv.ParseUint(j, 10, 64)
			v := wordFor(uint64(i+1), jj)
			_ = binary.Write(&buf, binary.BigEndian, uint32(v))
		}
		perm := make([]int, n)
		for i := range perm {
			perm[i] = i
		}
		if err := saltpack.VerifCsprngShuffle(&buf, n, func(i, j int) { perm[i], perm[j] = perm[j], perm[i] }); err != nil {
			return "none"
		}
		s := make([]string, n)
		for i, p := range perm {
			s[i] = strconv.Itoa(p)
		}
		return "ok " + strings.Join(s, ",")
	case "rand.draws":
		// the draws csprngShuffle makes from given source words, observed through swap
		k := atoi(t[1])
		var buf bytes.Buffer
		vs := splitL(t[2])
		for _, v := range vs {
			x, _ := strconv.ParseUint(v, 10, 32)
			_ = binary.Write(&buf, binary.BigEndian, uint32(x))
		}
		before := buf.Len()
		var js []string
		if err := saltpack.VerifCsprngShuffle(&buf, k+1, func(i, j int) { js = append(js, strconv.Itoa(j)) }); err != nil {
			return "none"
		}
		l := "-"
		if len(js) > 0 {
			l = strings.Join(js, ",")
		}
		_ = l
		if len(js) == 0 {
			return fmt.Sprintf("ok  %d", (before-buf.Len())/4)
		}
		return fmt.Sprintf("ok %s %d", strings.Join(js, ","), (before-buf.Len())/4)
	case "enc.seal":
		return execEncSeal(t)
	case "enc.open":
		return execEncOpen(t)
	case "sc.seal":
		return execScSeal(t)
	case "sc.open":
		return execScOpen(t)
	case "sig.attached", "sig.detached":
		return execSign(t)
	case "sig.verify":
		return execVerify(t)
	case "sig.verifydetached":
		return execVerifyDetached(t)
	}
	if out, ok := goExecMore(t); ok {
		return out
	}
	return "bad-op"
}

// wordFor returns a 32-bit source word v such that csprngUint32n(n) accepts it
// and returns j (v*n>>32 == j and low word >= 2^32 mod n).
func wordFor(n, j uint64) uint64 {
	const W = uint64(1) << 32
	t := W % n
	v := (j*W + t + n - 1) / n
	return v
}

func replayGo(line string) string { return goExec(line) }

// --- encryption --------------------------------------------------------------

func parseRecips(s string, c *keys.EphCreator) []saltpack.BoxPublicKey {
	var out []saltpack.BoxPublicKey
	for _, r := range splitL(s) {
		p := strings.Split(r, ":")
		out = append(out, keys.PublicFromRaw(unhex(p[0]), p[1] == "h", c))
	}
	return out
}

// enc.seal ma mi sender recips eph src bs pt
func execEncSeal(t []string) string {
	v := version(t[1], t[2])
	src := parseSource(t[6])
	c := parseEph(t[5], src)
	var sender saltpack.BoxSecretKey
	if t[3] != "anon" {
		sender = keys.NewBoxSecret(unhex(t[3]), false, nil, c)
	}
	rs := parseRecips(t[4], c)
	if atoi(t[7]) != 1048576 {
		return "bad-op"
	}
	pt := unhex(t[8])
	var out []byte
	var err error
	script.With(src, func() {
		if len(rs) == 0 {
			out, err = saltpack.Seal(v, pt, sender, rs)
		} else if currentWrites != nil {
			out, err = viaStream(pt, func(w io.Writer) (io.WriteCloser, error) { return saltpack.NewEncryptStream(v, w, sender, rs) })
		} else {
			out, err = saltpack.Seal(v, pt, sender, rs)
		}
	})
	return sealResult(out, err, src)
}

// enc.open valid secrets ls lp ie lsig msg
func execEncOpen(t []string) string {
	log := &keys.Log{}
	ring := parseRing(t[2], t[3], t[4], t[5], t[6], log)
	msg := unhex(t[7])
	var mki *saltpack.MessageKeyInfo
	var r io.Reader
	var err error
	switch currentEP {
	case "all":
		var pt []byte
		mki, pt, err = saltpack.Open(parseValidator(t[1]), msg, ring)
		return allAtOnce(err, pt, log, func() string { return mkiString(mki) })
	case "arm":
		arm, _ := saltpack.Armor62Seal(msg, saltpack.MessageTypeEncryption, "")
		var pt []byte
		mki, pt, _, err = saltpack.Dearmor62DecryptOpen(parseValidator(t[1]), arm, ring)
		return allAtOnce(err, pt, log, func() string { return mkiString(mki) })
	case "armstream":
		arm, _ := saltpack.Armor62Seal(msg, saltpack.MessageTypeEncryption, "")
		mki, r, _, err = saltpack.NewDearmor62DecryptStream(parseValidator(t[1]), readerFor([]byte(arm)), ring)
	case "dispatch", "armdispatch":
		// the convenience entry point: classify, then the decoder for what was found
		src := msg
		if currentEP == "armdispatch" {
			arm, _ := saltpack.Armor62Seal(msg, saltpack.MessageTypeEncryption, "")
			src = []byte(arm)
		}
		var typ saltpack.MessageType
		r, typ, mki, _, _, _, _, err = saltpack.ClassifyEncryptedStreamAndMakeDecoder(readerFor(src), ring, nil)
		if err == nil && typ != saltpack.MessageTypeEncryption {
			return fmt.Sprintf("res dispatched-as-%d rel=- calls=%s -", int(typ), log.String())
		}
	default:
		mki, r, err = saltpack.NewDecryptStream(parseValidator(t[1]), msgReader(msg), ring)
	}
	if err != nil {
		return fmt.Sprintf("res %s rel=- calls=%s -", script.Class(err), log.String())
	}
	rel, err := readAllCollect(r, 4096)
	m := "-"
	if err == nil {
		m = mkiString(mki)
	}
	return fmt.Sprintf("res %s rel=%s calls=%s %s", script.Class(err), keys.Hex(rel), log.String(), m)
}

// --- signcryption ------------------------------------------------------------

func parseSRecips(s string, c *keys.EphCreator) (boxes []saltpack.BoxPublicKey, syms []saltpack.ReceiverSymmetricKey) {
	for _, r := range splitL(s) {
		p := strings.Split(r, ":")
		if p[0] == "b" {
			boxes = append(boxes, keys.PublicFromRaw(unhex(p[1]), false, c))
		} else {
			var k saltpack.SymmetricKey
			copy(k[:], unhex(p[1]))
			syms = append(syms, saltpack.ReceiverSymmetricKey{Key: k, Identifier: unhex(p[2])})
		}
	}
	return
}

// sc.seal sender boxes syms eph src bs pt
func execScSeal(t []string) string {
	src := parseSource(t[5])
	c := parseEph(t[4], src)
	var sender saltpack.SigningSecretKey
	if t[1] != "anon" {
		sender = keys.NewSigSecret(unhex(t[1]), nil)
	}
	boxes, _ := parseSRecips(t[2], c)
	_, syms := parseSRecips(t[3], c)
	if atoi(t[6]) != 1048576 {
		return "bad-op"
	}
	var out []byte
	var err error
	script.With(src, func() {
		if currentWrites != nil {
			out, err = viaStream(unhex(t[7]), func(w io.Writer) (io.WriteCloser, error) {
				return saltpack.NewSigncryptSealStream(w, c, sender, boxes, syms)
			})
		} else {
			out, err = saltpack.SigncryptSeal(unhex(t[7]), c, sender, boxes, syms)
		}
	})
	return sealResult(out, err, src)
}

// sc.open secrets ls lp ie lsig resolver msg
func execScOpen(t []string) string {
	log := &keys.Log{}
	ring := parseRing(t[1], t[2], t[3], t[4], t[5], log)
	msg := unhex(t[7])
	var spk saltpack.SigningPublicKey
	var r io.Reader
	var err error
	sndOf := func() string {
		if spk == nil {
			return "sender=anon"
		}
		return "sender=" + keys.Hex(spk.ToKID())
	}
	switch currentEP {
	case "all":
		var pt []byte
		spk, pt, err = saltpack.SigncryptOpen(msg, ring, parseResolver(t[6]))
		return strings.Replace(allAtOnce(err, pt, log, sndOf), " -", " sender=-", 1)
	case "arm":
		arm, _ := saltpack.Armor62Seal(msg, saltpack.MessageTypeEncryption, "")
		var pt []byte
		spk, pt, _, err = saltpack.Dearmor62SigncryptOpen(arm, ring, parseResolver(t[6]))
		return strings.Replace(allAtOnce(err, pt, log, sndOf), " -", " sender=-", 1)
	case "armstream":
		arm, _ := saltpack.Armor62Seal(msg, saltpack.MessageTypeEncryption, "")
		spk, r, _, err = saltpack.NewDearmor62SigncryptOpenStream(readerFor([]byte(arm)), ring, parseResolver(t[6]))
	case "dispatch", "armdispatch":
		src := msg
		if currentEP == "armdispatch" {
			arm, _ := saltpack.Armor62Seal(msg, saltpack.MessageTypeEncryption, "")
			src = []byte(arm)
		}
		var typ saltpack.MessageType
		r, typ, _, spk, _, _, _, err = saltpack.ClassifyEncryptedStreamAndMakeDecoder(readerFor(src), ring, parseResolver(t[6]))
		if err == nil && typ != saltpack.MessageTypeSigncryption {
			return fmt.Sprintf("res dispatched-as-%d rel=- calls=%s sender=-", int(typ), log.String())
		}
	default:
		spk, r, err = saltpack.NewSigncryptOpenStream(msgReader(msg), ring, parseResolver(t[6]))
	}
	if err != nil {
		return fmt.Sprintf("res %s rel=- calls=%s sender=-", script.Class(err), log.String())
	}
	rel, err := readAllCollect(r, 4096)
	snd := "-"
	if err == nil {
		if spk == nil {
			snd = "anon"
		} else {
			snd = keys.Hex(spk.ToKID())
		}
	}
	return fmt.Sprintf("res %s rel=%s calls=%s sender=%s", script.Class(err), keys.Hex(rel), log.String(), snd)
}

// --- signatures --------------------------------------------------------------

// sig.attached ma mi signer src bs msg | sig.detached ma mi signer src msg
func execSign(t []string) string {
	v := version(t[1], t[2])
	signer := keys.NewSigSecret(unhex(t[3]), nil)
	src := parseSource(t[4])
	var out []byte
	var err error
	if t[0] == "sig.attached" {
		if atoi(t[5]) != 1048576 {
			return "bad-op"
		}
		script.With(src, func() {
			if currentWrites != nil {
				out, err = viaStream(unhex(t[6]), func(w io.Writer) (io.WriteCloser, error) { return saltpack.NewSignStream(v, w, signer) })
			} else {
				out, err = saltpack.Sign(v, unhex(t[6]), signer)
			}
		})
	} else {
		script.With(src, func() {
			if currentWrites != nil {
				out, err = viaStream(unhex(t[5]), func(w io.Writer) (io.WriteCloser, error) { return saltpack.NewSignDetachedStream(v, w, signer) })
			} else {
				out, err = saltpack.SignDetached(v, unhex(t[5]), signer)
			}
		})
	}
	return sealResult(out, err, src)
}

// sig.verify valid lsig msg
func execVerify(t []string) string {
	ring := parseRing("-", "none", "nil", "nil", t[2], nil)
	var skey saltpack.SigningPublicKey
	var r io.Reader
	var err error
	atOnce := func(pt []byte) string {
		if err != nil {
			return fmt.Sprintf("res %s rel=- signer=-", script.Class(err))
		}
		return fmt.Sprintf("res ok rel=%s signer=%s", keys.Hex(pt), keys.Hex(skey.ToKID()))
	}
	switch currentEP {
	case "all":
		var pt []byte
		skey, pt, err = saltpack.Verify(parseValidator(t[1]), unhex(t[3]), ring)
		return atOnce(pt)
	case "arm":
		arm, _ := saltpack.Armor62Seal(unhex(t[3]), saltpack.MessageTypeAttachedSignature, "")
		var pt []byte
		skey, pt, _, err = saltpack.Dearmor62Verify(parseValidator(t[1]), arm, ring)
		return atOnce(pt)
	case "armstream":
		arm, _ := saltpack.Armor62Seal(unhex(t[3]), saltpack.MessageTypeAttachedSignature, "")
		skey, r, _, err = saltpack.NewDearmor62VerifyStream(parseValidator(t[1]), readerFor([]byte(arm)), ring)
	default:
		skey, r, err = saltpack.NewVerifyStream(parseValidator(t[1]), msgReader(unhex(t[3])), ring)
	}
	if err != nil {
		return fmt.Sprintf("res %s rel=- signer=-", script.Class(err))
	}
	rel, err := readAllCollect(r, 4096)
	s := "-"
	if err == nil {
		s = keys.Hex(skey.ToKID())
	}
	return fmt.Sprintf("res %s rel=%s signer=%s", script.Class(err), keys.Hex(rel), s)
}

// sig.verifydetached valid lsig sigmsg msg
func execVerifyDetached(t []string) string {
	ring := parseRing("-", "none", "nil", "nil", t[2], nil)
	skey, err := saltpack.VerifyDetached(parseValidator(t[1]), unhex(t[4]), unhex(t[3]), ring)
	if err != nil {
		return fmt.Sprintf("res %s signer=-", script.Class(err))
	}
	return fmt.Sprintf("res ok signer=%s", keys.Hex(skey.ToKID()))
}

// msgReader: how the *.open ops read their message (plain, fragmented, faulting)
func msgReader(msg []byte) io.Reader {
	if currentFault != nil {
		return &faultingReader{b: msg, spec: *currentFault}
	}
	return readerFor(msg)
}

var currentWrites []int

// viaStream: the streaming form of a sealing/signing entry point, the plaintext
// delivered in Write calls of currentWrites' lengths (clipped), the rest last.
// A stream that is never written to is closed without any Write call.
func viaStream(pt []byte, mk func(w io.Writer) (io.WriteCloser, error)) ([]byte, error) {
	var buf bytes.Buffer
	w, err := mk(&buf)
	if err != nil {
		return nil, err
	}
	rest := pt
	for _, n := range currentWrites {
		if n < 0 { // "no Write at all" marker
			continue
		}
		if n > len(rest) {
			n = len(rest)
		}
		if _, err := w.Write(rest[:n]); err != nil {
			return nil, err
		}
		rest = rest[n:]
	}
	if len(rest) > 0 {
		if _, err := w.Write(rest); err != nil {
			return nil, err
		}
	}
	if err := w.Close(); err != nil {
		return nil, err
	}
	return buf.Bytes(), nil
}

// pieceReader delivers b in pieces of the given sizes (cycling; 0 = an empty
// read without error), the last piece together with io.EOF when lastEOF.
type pieceReader struct {
	b     []byte
	sizes []int
	k     int
}

func (p *pieceReader) Read(q []byte) (int, error) {
	if len(p.b) == 0 {
		return 0, io.EOF
	}
	n := p.sizes[p.k%len(p.sizes)]
	p.k++
	if n < 0 { // deliver everything that is left together with io.EOF
		n = copy(q, p.b)
		p.b = p.b[n:]
		if len(p.b) == 0 {
			return n, io.EOF
		}
		return n, nil
	}
	if n > len(p.b) {
		n = len(p.b)
	}
	if n > len(q) {
		n = len(q)
	}
	copy(q, p.b[:n])
	p.b = p.b[n:]
	return n, nil
}

var currentEP string

// allAtOnce renders the answer of an all-at-once entry point in the format of
// the streaming ones: nothing is released unless the call succeeded.
func allAtOnce(err error, pt []byte, log *keys.Log, info func() string) string {
	if err != nil {
		return fmt.Sprintf("res %s rel=- calls=%s -", script.Class(err), log.String())
	}
	return fmt.Sprintf("res ok rel=%s calls=%s %s", keys.Hex(pt), log.String(), info())
}
