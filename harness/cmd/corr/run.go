package main

import (
	"crypto/sha256"
	"encoding/hex"
	"encoding/json"
	"fmt"
	"os"
	"path/filepath"
	"sort"
	"strings"
	"sync"
	"time"

	"verifharness/internal/model"
)

// Case is one differential evaluation: the same input goes to the real code
// (GoOut, computed by the generator in-process) and to the Lean model (Line).
type Case struct {
	Stream string // name of the correspondence stream (histogram key)
	Line   string // request line for spmodel
	GoOut  string // canonical answer of the implementation
	// Cmp compares canonical answers (nil: exact string equality).
	Cmp func(goOut, modelOut string) bool
	// Branch is a short signature of what the case exercised (outcome class,
	// size class, ...) — distinct (Stream, Branch, input hash) triples that reach a
	// non-trivial branch are counted as distinct_nontrivial.
	Branch string
	// Trivial marks cases that exercise nothing (e.g. rejected before any logic).
	Trivial bool
	// Predicate evaluates the *property's own predicate* on the implementation for
	// this input (and neighbours); it returns a description of a failing input
	// or "" if the property holds there.  Used when model and code disagree.
	Predicate func() string
	// Direct: the property predicate is evaluated on every case, not only on
	// disagreement (cheap oracles such as round trips).
	Direct func() string
	Sample interface{}
	// Fallback: a second request for the same input through the decoded-packets
	// route, asked when the model answers `unmodelled` to Line.
	Fallback func() string
}

type Disagreement struct {
	Stream   string      `json:"stream"`
	Line     string      `json:"model_request"`
	GoOut    string      `json:"implementation"`
	ModelOut string      `json:"model"`
	Failing  string      `json:"failing_input,omitempty"`
	Sample   interface{} `json:"case,omitempty"`
	Original string      `json:"original_request,omitempty"` // the byte-level request when the model was asked through the decoded-packets route
}

type Stats struct {
	mu            sync.Mutex
	Evaluations   int
	Unmodelled    int
	ByStream      map[string]int
	ByBranch      map[string]int
	distinct      map[string]bool
	Disagreements []Disagreement
	DirectFail    []Disagreement
	Samples       []interface{}
}

func newStats() *Stats {
	return &Stats{ByStream: map[string]int{}, ByBranch: map[string]int{}, distinct: map[string]bool{}}
}

func trunc(s string, n int) string {
	if len(s) <= n {
		return s
	}
	return s[:n] + fmt.Sprintf("…(%d chars)", len(s))
}

// runCases evaluates all cases from gen on `workers` model processes.
func runCases(pool *model.Pool, workers int, gen func(emit func(Case)), st *Stats) {
	ch := make(chan Case, 4*workers)
	var wg sync.WaitGroup
	for w := 0; w < workers; w++ {
		wg.Add(1)
		go func(w int) {
			defer wg.Done()
			p := pool.Get(w)
			for c := range ch {
				ans, err := p.Ask(c.Line)
				if err != nil {
					ans = "model-crash " + err.Error()
				}
				st.mu.Lock()
				st.Evaluations++
				st.ByStream[c.Stream]++
				st.ByBranch[c.Stream+"/"+c.Branch]++
				if !c.Trivial {
					h := sha256.Sum256([]byte(c.Stream + "\x00" + c.Line))
					st.distinct[hex.EncodeToString(h[:8])] = true
				}
				if len(st.Samples) < 6 && c.Sample != nil && st.ByStream[c.Stream] <= 2 {
					st.Samples = append(st.Samples, c.Sample)
				}
				st.mu.Unlock()
				original := ""
				if strings.HasPrefix(ans, "unmodelled") {
					st.mu.Lock()
					st.ByBranch[c.Stream+"/route=decoded-packets"]++
					st.mu.Unlock()
					if c.Fallback != nil {
						if l2 := c.Fallback(); l2 != "" {
							original = c.Line
							c.Line = l2
							ans, err = p.Ask(l2)
							if err != nil {
								ans = "model-crash " + err.Error()
							}
						}
					}
				}
				if strings.HasPrefix(ans, "unmodelled") {
					st.mu.Lock()
					st.Unmodelled++
					st.ByBranch[c.Stream+"/unmodelled"]++
					st.mu.Unlock()
				} else {
					same := ans == c.GoOut
					if c.Cmp != nil {
						same = c.Cmp(c.GoOut, ans)
					}
					if !same {
						d := Disagreement{Stream: c.Stream, Line: c.Line, GoOut: c.GoOut, ModelOut: ans, Sample: c.Sample, Original: original}
						if c.Predicate != nil {
							d.Failing = c.Predicate()
						}
						st.mu.Lock()
						st.Disagreements = append(st.Disagreements, d)
						st.mu.Unlock()
					}
				}
				if c.Direct != nil {
					if f := c.Direct(); f != "" {
						st.mu.Lock()
						st.DirectFail = append(st.DirectFail, Disagreement{Stream: c.Stream, Line: c.Line, GoOut: c.GoOut, ModelOut: ans, Failing: f, Sample: c.Sample})
						st.mu.Unlock()
					}
				}
			}
		}(w)
	}
	gen(func(c Case) { ch <- c })
	close(ch)
	wg.Wait()
}

// ---------------------------------------------------------------------------
// verdict + evidence

type Known struct {
	Property string
	Key      string
	Text     string
}

func loadKnown(path string) (findings []Known) {
	b, err := os.ReadFile(path)
	if err != nil {
		return nil
	}
	for _, ln := range strings.Split(string(b), "\n") {
		ln = strings.TrimSpace(ln)
		if !strings.HasPrefix(ln, "finding:") {
			continue
		}
		f := Known{}
		rest := strings.TrimSpace(strings.TrimPrefix(ln, "finding:"))
		toks := strings.Fields(rest)
		var text []string
		for _, t := range toks {
			switch {
			case strings.HasPrefix(t, "property="):
				f.Property = strings.TrimPrefix(t, "property=")
			case strings.HasPrefix(t, "key="):
				f.Key = strings.TrimPrefix(t, "key=")
			default:
				text = append(text, t)
			}
		}
		f.Text = strings.Join(text, " ")
		findings = append(findings, f)
	}
	return
}

type Evidence struct {
	PropertyID  string                 `json:"property_id"`
	Tier        string                 `json:"tier"`
	Seed        int64                  `json:"seed"`
	Level       string                 `json:"level"`
	Coverage    map[string]interface{} `json:"coverage"`
	Assumptions []string               `json:"assumptions"`
	WallS       float64                `json:"wall_s"`
	Violations  int                    `json:"violations"`
}

func sortedCounts(m map[string]int) map[string]int {
	// maps marshal sorted by key already; keep as is
	return m
}

func writeJSON(path string, v interface{}) error {
	if err := os.MkdirAll(filepath.Dir(path), 0o755); err != nil {
		return err
	}
	b, err := json.MarshalIndent(v, "", " ")
	if err != nil {
		return err
	}
	return os.WriteFile(path, append(b, '\n'), 0o644)
}

func writeReplay(dir, prop string, seed int64, n int, v interface{}) string {
	p := filepath.Join(dir, fmt.Sprintf("%s-%d-%d.json", prop, seed, n))
	_ = writeJSON(p, v)
	return p
}

func topBranches(m map[string]int, n int) map[string]int {
	type kv struct {
		k string
		v int
	}
	var l []kv
	for k, v := range m {
		l = append(l, kv{k, v})
	}
	sort.Slice(l, func(i, j int) bool { return l[i].v > l[j].v || (l[i].v == l[j].v && l[i].k < l[j].k) })
	out := map[string]int{}
	for i, e := range l {
		if i >= n {
			break
		}
		out[e.k] = e.v
	}
	return out
}

var startTime = time.Now()
