package main

// A small, independent MessagePack reader/writer used by the generators to
// take genuine messages apart, mutate them at tree level and put them back
// together (also with non-minimal encodings).  It is deliberately not go-codec.

import (
	"encoding/binary"
	"errors"
)

type mvKind int

const (
	mvNil mvKind = iota
	mvBool
	mvInt  // I (signed)
	mvUint // U
	mvBin
	mvStr
	mvArr
	mvMap
	mvRaw // ext / float kept verbatim in Raw (incl. descriptor)
)

type MV struct {
	K    mvKind
	B    bool
	I    int64
	U    uint64
	Data []byte
	Arr  []*MV
	Map  [][2]*MV
	Raw  []byte
	// encoding hints
	Wide bool // use a wider-than-necessary length/int encoding
}

var errTrunc = errors.New("truncated")
var errInvalid = errors.New("invalid")

func mpParse(b []byte) (*MV, []byte, error) {
	if len(b) == 0 {
		return nil, nil, errTrunc
	}
	c := b[0]
	rest := b[1:]
	need := func(n int) ([]byte, []byte, error) {
		if len(rest) < n {
			return nil, nil, errTrunc
		}
		return rest[:n], rest[n:], nil
	}
	lenN := func(w int) (int, error) {
		h, r, err := need(w)
		if err != nil {
			return 0, err
		}
		rest = r
		var n uint64
		for _, x := range h {
			n = n<<8 | uint64(x)
		}
		return int(n), nil
	}
	arr := func(n int) (*MV, []byte, error) {
		v := &MV{K: mvArr}
		for i := 0; i < n; i++ {
			e, r, err := mpParse(rest)
			if err != nil {
				return nil, nil, err
			}
			rest = r
			v.Arr = append(v.Arr, e)
		}
		return v, rest, nil
	}
	mp := func(n int) (*MV, []byte, error) {
		v := &MV{K: mvMap}
		for i := 0; i < n; i++ {
			k, r, err := mpParse(rest)
			if err != nil {
				return nil, nil, err
			}
			rest = r
			e, r, err := mpParse(rest)
			if err != nil {
				return nil, nil, err
			}
			rest = r
			v.Map = append(v.Map, [2]*MV{k, e})
		}
		return v, rest, nil
	}
	data := func(k mvKind, n int) (*MV, []byte, error) {
		d, r, err := need(n)
		if err != nil {
			return nil, nil, err
		}
		return &MV{K: k, Data: append([]byte(nil), d...)}, r, nil
	}
	switch {
	case c < 0x80:
		return &MV{K: mvUint, U: uint64(c)}, rest, nil
	case c < 0x90:
		return mp(int(c - 0x80))
	case c < 0xa0:
		return arr(int(c - 0x90))
	case c < 0xc0:
		return data(mvStr, int(c-0xa0))
	case c == 0xc0:
		return &MV{K: mvNil}, rest, nil
	case c == 0xc1:
		return nil, nil, errInvalid
	case c == 0xc2, c == 0xc3:
		return &MV{K: mvBool, B: c == 0xc3}, rest, nil
	case c >= 0xc4 && c <= 0xc6:
		n, err := lenN([]int{1, 2, 4}[c-0xc4])
		if err != nil {
			return nil, nil, err
		}
		return data(mvBin, n)
	case c >= 0xc7 && c <= 0xc9:
		w := []int{1, 2, 4}[c-0xc7]
		save := rest
		n, err := lenN(w)
		if err != nil {
			return nil, nil, err
		}
		if len(rest) < n+1 {
			return nil, nil, errTrunc
		}
		raw := append([]byte{c}, save[:w+n+1]...)
		return &MV{K: mvRaw, Raw: raw}, rest[n+1:], nil
	case c == 0xca, c == 0xcb:
		n := 4
		if c == 0xcb {
			n = 8
		}
		d, r, err := need(n)
		if err != nil {
			return nil, nil, err
		}
		return &MV{K: mvRaw, Raw: append([]byte{c}, d...)}, r, nil
	case c >= 0xcc && c <= 0xcf:
		n, err := lenN([]int{1, 2, 4, 8}[c-0xcc])
		if err != nil {
			return nil, nil, err
		}
		return &MV{K: mvUint, U: uint64(n)}, rest, nil
	case c >= 0xd0 && c <= 0xd3:
		w := []int{1, 2, 4, 8}[c-0xd0]
		h, r, err := need(w)
		if err != nil {
			return nil, nil, err
		}
		var x int64
		switch w {
		case 1:
			x = int64(int8(h[0]))
		case 2:
			x = int64(int16(binary.BigEndian.Uint16(h)))
		case 4:
			x = int64(int32(binary.BigEndian.Uint32(h)))
		default:
			x = int64(binary.BigEndian.Uint64(h))
		}
		return &MV{K: mvInt, I: x}, r, nil
	case c >= 0xd4 && c <= 0xd8:
		n := []int{1, 2, 4, 8, 16}[c-0xd4]
		d, r, err := need(n + 1)
		if err != nil {
			return nil, nil, err
		}
		return &MV{K: mvRaw, Raw: append([]byte{c}, d...)}, r, nil
	case c >= 0xd9 && c <= 0xdb:
		n, err := lenN([]int{1, 2, 4}[c-0xd9])
		if err != nil {
			return nil, nil, err
		}
		return data(mvStr, n)
	case c == 0xdc, c == 0xdd:
		n, err := lenN([]int{2, 4}[c-0xdc])
		if err != nil {
			return nil, nil, err
		}
		if n > len(rest) {
			return nil, nil, errTrunc
		}
		return arr(n)
	case c == 0xde, c == 0xdf:
		n, err := lenN([]int{2, 4}[c-0xde])
		if err != nil {
			return nil, nil, err
		}
		if n > len(rest) {
			return nil, nil, errTrunc
		}
		return mp(n)
	default:
		return &MV{K: mvInt, I: int64(int8(c))}, rest, nil
	}
}

// mpSplit splits a stream into top-level objects (raw bytes each) and the
// unparseable remainder.
func mpSplit(b []byte) (objs [][]byte, rest []byte) {
	for len(b) > 0 {
		_, r, err := mpParse(b)
		if err != nil {
			return objs, b
		}
		objs = append(objs, b[:len(b)-len(r)])
		b = r
	}
	return objs, nil
}

func beBytes(w int, n uint64) []byte {
	out := make([]byte, w)
	for i := w - 1; i >= 0; i-- {
		out[i] = byte(n)
		n >>= 8
	}
	return out
}

func lenHdr(n int, fix byte, fixMax int, d8, d16, d32 byte, wide bool) []byte {
	switch {
	case fixMax > 0 && n <= fixMax && !wide:
		return []byte{fix + byte(n)}
	case d8 != 0 && n < 256 && !wide:
		return []byte{d8, byte(n)}
	case n < 65536 && !(wide && n >= 256):
		return append([]byte{d16}, beBytes(2, uint64(n))...)
	default:
		return append([]byte{d32}, beBytes(4, uint64(n))...)
	}
}

func mpEncode(v *MV) []byte {
	switch v.K {
	case mvNil:
		return []byte{0xc0}
	case mvBool:
		if v.B {
			return []byte{0xc3}
		}
		return []byte{0xc2}
	case mvUint:
		u := v.U
		switch {
		case u < 128 && !v.Wide:
			return []byte{byte(u)}
		case u < 256 && !v.Wide:
			return []byte{0xcc, byte(u)}
		case u < 65536:
			return append([]byte{0xcd}, beBytes(2, u)...)
		case u < 1<<32:
			return append([]byte{0xce}, beBytes(4, u)...)
		default:
			return append([]byte{0xcf}, beBytes(8, u)...)
		}
	case mvInt:
		i := v.I
		switch {
		case i >= 0:
			return mpEncode(&MV{K: mvUint, U: uint64(i), Wide: v.Wide})
		case i >= -32 && !v.Wide:
			return []byte{byte(i)}
		case i >= -128:
			return []byte{0xd0, byte(i)}
		case i >= -32768:
			return append([]byte{0xd1}, beBytes(2, uint64(uint16(i)))...)
		case i >= -2147483648:
			return append([]byte{0xd2}, beBytes(4, uint64(uint32(i)))...)
		default:
			return append([]byte{0xd3}, beBytes(8, uint64(i))...)
		}
	case mvBin:
		return append(lenHdr(len(v.Data), 0, 0, 0xc4, 0xc5, 0xc6, v.Wide), v.Data...)
	case mvStr:
		return append(lenHdr(len(v.Data), 0xa0, 31, 0xd9, 0xda, 0xdb, v.Wide), v.Data...)
	case mvArr:
		out := lenHdr(len(v.Arr), 0x90, 15, 0, 0xdc, 0xdd, v.Wide)
		for _, e := range v.Arr {
			out = append(out, mpEncode(e)...)
		}
		return out
	case mvMap:
		out := lenHdr(len(v.Map), 0x80, 15, 0, 0xde, 0xdf, v.Wide)
		for _, kv := range v.Map {
			out = append(out, mpEncode(kv[0])...)
			out = append(out, mpEncode(kv[1])...)
		}
		return out
	default:
		return v.Raw
	}
}

func mvBinOf(b []byte) *MV  { return &MV{K: mvBin, Data: append([]byte(nil), b...)} }
func mvStrOf(s string) *MV  { return &MV{K: mvStr, Data: []byte(s)} }
func mvIntOf(i int64) *MV   { return &MV{K: mvInt, I: i} }
func mvBoolOf(b bool) *MV   { return &MV{K: mvBool, B: b} }
func mvArrOf(e ...*MV) *MV  { return &MV{K: mvArr, Arr: e} }
func (v *MV) clone() *MV {
	c := *v
	c.Data = append([]byte(nil), v.Data...)
	c.Raw = append([]byte(nil), v.Raw...)
	c.Arr = nil
	for _, e := range v.Arr {
		c.Arr = append(c.Arr, e.clone())
	}
	c.Map = nil
	for _, kv := range v.Map {
		c.Map = append(c.Map, [2]*MV{kv[0].clone(), kv[1].clone()})
	}
	return &c
}
