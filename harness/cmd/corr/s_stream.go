package main

// C13 (fragmentation independence, bounded buffering) and C14 (I/O faults).

import (
	"bytes"
	"fmt"
	"io"
	"strings"

	"github.com/keybase/saltpack"
	"verifharness/internal/keys"
	"verifharness/internal/prng"
	"verifharness/internal/script"
)

// fragmentations of a text into script entries
func fragment(r *prng.R, text []byte, mode string) string {
	var parts []string
	add := func(b []byte, suffix string) {
		h := keys.Hex(b)
		if len(b) == 0 {
			h = "-"
		}
		parts = append(parts, h+suffix)
	}
	switch mode {
	case "oneshot":
		add(text, "")
	case "oneshot-eof":
		add(text, "$")
	case "bytes":
		for _, c := range text {
			add([]byte{c}, "")
		}
	case "bytes-eof":
		for i, c := range text {
			if i == len(text)-1 {
				add([]byte{c}, "$")
			} else {
				add([]byte{c}, "")
			}
		}
	case "halving":
		rest := text
		for len(rest) > 0 {
			n := (len(rest) + 1) / 2
			add(rest[:n], "")
			rest = rest[n:]
		}
	case "random", "random-eof":
		rest := text
		for len(rest) > 0 {
			n := 1 + r.Intn(prng.Pick(r, 3, 17, 64, 300))
			if n > len(rest) {
				n = len(rest)
			}
			suf := ""
			if mode == "random-eof" && n == len(rest) {
				suf = "$"
			}
			add(rest[:n], suf)
			rest = rest[n:]
		}
	case "4095":
		rest := text
		for len(rest) > 0 {
			n := 4095
			if n > len(rest) {
				n = len(rest)
			}
			add(rest[:n], "")
			rest = rest[n:]
		}
	}
	if len(parts) == 0 {
		return "-"
	}
	return strings.Join(parts, ",")
}

var fragModes = []string{"oneshot", "oneshot-eof", "bytes", "bytes-eof", "halving", "random", "random-eof", "4095"}
var capSets = []string{"1", "2", "31", "32", "33", "43", "4096", "1048576", "1.2.31.32.33.43.4096", "7.1.100"}

func stRel(out string) (string, []byte) {
	f := strings.Fields(out)
	if len(f) < 3 {
		return out, nil
	}
	return f[1], unhex(strings.TrimPrefix(f[2], "rel="))
}

// armored texts: genuine, re-flowed, malformed
func armoredTexts(ctx *Ctx, r *prng.R) [][]byte {
	var texts [][]byte
	for _, n := range []int{0, 1, 31, 32, 33, 64, 100, 700, 2240} {
		s, _ := saltpack.Armor62Seal(r.Bytes(n), saltpack.MessageTypeEncryption, prng.Pick(r, "", "KB"))
		texts = append(texts, []byte(s), []byte(reflow(r, s, 4)))
	}
	good, _ := saltpack.Armor62Seal(r.Bytes(40), saltpack.MessageTypeEncryption, "")
	parts := strings.SplitN(good, ".", 3)
	for _, t := range []string{
		good + "trailing", good + "!", good + ".", parts[0] + "." + parts[1] + ".", parts[0] + "." + parts[1], parts[0] + ".",
		parts[0] + "." + parts[1][:20] + "!" + parts[1][20:] + "." + parts[2], parts[0] + "." + parts[1][:len(parts[1])-3] + "." + parts[2],
		parts[0] + ". > ." + parts[2] + "x!", ". ..!", "", ".", "...", "BEGIN SALTPACK SIGNED MESSAGE." + parts[1] + "." + parts[2],
		strings.Repeat(" ", 8150) + good, strings.Repeat(" ", 8190) + good, strings.Repeat(" ", 9000) + good,
		parts[0] + "." + parts[1] + "." + strings.Repeat(" ", 8180) + parts[2],
	} {
		texts = append(texts, []byte(t))
	}
	return texts
}

func genFragmentation(ctx *Ctx, emit func(Case)) {
	r := ctx.R.Fork()
	// (a) the armor decoder stack, per call, under every fragmentation x buffer sizes
	for ti, text := range armoredTexts(ctx, r) {
		type res struct {
			line, out string
		}
		var group []res
		modes := fragModes
		caps := capSets
		if ctx.Quick {
			caps = []string{caps[ti%len(caps)], caps[(ti+3)%len(caps)], "4096"}
		}
		for _, m := range modes {
			if len(text) > 3000 && (m == "bytes" || m == "bytes-eof") && ctx.Quick {
				continue
			}
			for _, c := range caps {
				for _, expect := range []string{"none", "0"} {
					line := fmt.Sprintf("st.dec %s %s %s", expect, c, fragment(r, text, m))
					group = append(group, res{line, goExec(line)})
				}
			}
		}
		for gi, g := range group {
			g := g
			var direct func() string
			if gi == 0 {
				direct = func() string { // the property's predicate over the whole group
					for _, expect := range []string{"none", "0"} {
						var first *res
						for i := range group {
							if !strings.HasPrefix(group[i].line, "st.dec "+expect+" ") {
								continue
							}
							if first == nil {
								first = &group[i]
								continue
							}
							o1, r1 := stRel(first.out)
							o2, r2 := stRel(group[i].out)
							if (o1 == "ok") != (o2 == "ok") || (o1 == "ok" && !bytes.Equal(r1, r2)) || !(bytes.HasPrefix(r1, r2) || bytes.HasPrefix(r2, r1)) {
								return fmt.Sprintf("the armor decoder's result depends on how the input is fragmented: %s -> %s BUT %s -> %s", trunc(first.line, 300), trunc(first.out, 120), trunc(group[i].line, 300), trunc(group[i].out, 120))
							}
						}
					}
					return ""
				}
			}
			emit(Case{Stream: "frag.armor.percall", Line: g.line, GoOut: g.out, Branch: fmt.Sprintf("text%d/%s", ti, strings.Fields(g.out)[1]),
				Sample: map[string]interface{}{"op": "NewArmor62DecoderStream per-call trace", "text_len": len(text), "request": trunc(g.line, 120), "answer": trunc(g.out, 120)}, Direct: direct})
		}
	}
	// (b) punctuatedReader alone
	for k := 0; k < ctx.N(150, 2000); k++ {
		n := r.Intn(60)
		text := make([]byte, n)
		for i := range text {
			text[i] = prng.Pick(r, byte('a'), byte('b'), byte('.'), byte('.'), byte(' '))
		}
		var ops []string
		for i := 0; i < 3+r.Intn(12); i++ {
			if r.Intn(4) == 0 {
				ops = append(ops, fmt.Sprintf("u%d", prng.Pick(r, 1, 3, 10, 100)))
			} else {
				ops = append(ops, fmt.Sprintf("r%d", prng.Pick(r, 1, 2, 5, 50)))
			}
		}
		scr := fragment(r, text, prng.Pick(r, fragModes...))
		if r.Intn(5) == 0 && scr != "-" { // an I/O error somewhere
			p := strings.Split(scr, ",")
			i := r.Intn(len(p))
			p[i] = strings.TrimSuffix(p[i], "$") + "!"
			scr = strings.Join(p, ",")
		}
		line := fmt.Sprintf("st.punct %s %s", strings.Join(ops, ","), scr)
		emit(Case{Stream: "frag.punct", Line: line, GoOut: goExec(line), Branch: "ops"})
	}
	// (c) chunkReader
	for k := 0; k < ctx.N(150, 2000); k++ {
		var parts []string
		for i := 0; i < r.Intn(6); i++ {
			parts = append(parts, keys.Hex(r.Bytes(1+r.Intn(20))))
		}
		last := prng.Pick(r, "-$", keys.Hex(r.Bytes(3))+"$", "-!", keys.Hex(r.Bytes(4))+"!")
		parts = append(parts, last)
		line := fmt.Sprintf("st.cr %s %s", prng.Pick(r, "1", "3", "5", "1024", "1.7.2"), strings.Join(parts, ","))
		out := goExec(line)
		emit(Case{Stream: "frag.chunkreader", Line: line, GoOut: out, Branch: "trace",
			Direct: func() string { // released = concatenation of the chunks; terminal condition delivered after them, sticky
				var want []byte
				for _, p := range parts {
					want = append(want, unhex(strings.TrimRight(p, "$!"))...)
				}
				var got []byte
				calls := strings.Split(strings.Fields(out)[1], ",")
				for _, c := range calls[:len(calls)-1] {
					got = append(got, unhex(strings.Split(c, ":")[0])...)
				}
				if !bytes.Equal(got, want) {
					return fmt.Sprintf("chunkReader does not deliver the concatenation of the chunks: %s -> %s", line, out)
				}
				a, b := calls[len(calls)-2], calls[len(calls)-1]
				if strings.Split(a, ":")[1] != strings.Split(b, ":")[1] {
					return fmt.Sprintf("chunkReader's terminal condition is not sticky: %s -> %s", line, out)
				}
				return ""
			}})
	}
	// (d) the plaintext bufferers of the three encoder streams: any split = one shot; bounded buffer
	splits := [][]int{{0}, {1}, {mib}, {mib + 1}, {mib - 1, 1}, {mib, 0}, {mib / 2, mib / 2, 0, 0}, {mib, 0, 1}, {1, mib}, {13, mib + 1}, {mib - 1, mib + 2}, {5, 2*mib + 5, 3}, {mib - 1, 1, 1},
		{0, 0, mib, 0, mib, 0}, {2*mib + 1}, {mib / 2, mib / 2, mib / 2, mib / 2, 1}, {3 * mib}, {1, 3 * mib}, {mib + 1, mib - 1, 1}}
	if ctx.Quick {
		splits = splits[:12]
	}
	// random splits: a few pending bytes, then writes around multiples of the block size
	for k := 0; k < ctx.N(3, 12); k++ {
		var sp []int
		for j := 0; j < 2+r.Intn(3); j++ {
			sp = append(sp, prng.Pick(r, 0, 1, r.Intn(40), mib/2+r.Intn(9), mib-1+r.Intn(3), mib+r.Intn(30), 2*mib-1+r.Intn(3)))
		}
		splits = append(splits, sp)
	}
	for _, kind := range []string{"sig", "enc", "sc"} {
		for ma := 1; ma <= 2; ma++ {
			if kind == "sc" && ma == 1 {
				continue
			}
			for _, sp := range splits {
				ls := make([]string, len(sp))
				for i, n := range sp {
					ls[i] = fmt.Sprint(n)
				}
				line := fmt.Sprintf("st.chunker %s %d %d %s", kind, mib, ma, strings.Join(ls, "."))
				out := goExec(line)
				emit(Case{Stream: "frag.writers", Line: line, GoOut: out, Branch: kind + fmt.Sprintf(".v%d", ma),
					Sample: map[string]interface{}{"op": "encoder stream Write splits", "kind": kind, "major": ma, "write_lengths": sp, "answer": out},
					Direct: func() string {
						if !strings.Contains(out, "same=true") {
							return fmt.Sprintf("an encoder stream's output depends on how the plaintext is split over Write calls: %s -> %s", line, out)
						}
						var mb int
						fmt.Sscanf(out[strings.Index(out, "maxbuf="):], "maxbuf=%d", &mb)
						if mb > mib {
							return fmt.Sprintf("an encoder stream buffers more than one chunk (%d bytes): %s", mb, line)
						}
						return ""
					}})
			}
		}
	}
	// (e) BaseX encoder stream: write splits vs one-shot
	genBasexEncStream(ctx, r, emit, false)
	// (e') the armor writer (word/line spacer over the BaseX encoder), call by call against the model
	genArmorWriter(ctx, r, emit)
	// (f) whole entry points under fragmenting readers (implementation vs the fragmentation-free model)
	genEntryPointFragmentation(ctx, r, emit)
}

func genBasexEncStream(ctx *Ctx, r *prng.R, emit func(Case), faults bool) {
	for k := 0; k < ctx.N(150, 2500); k++ {
		e := prng.Pick(r, "b62", "b62s", "b58")
		ibl := 32
		if e == "b58" {
			ibl = 19
		}
		var ws []string
		var all []byte
		for i := 0; i < r.Intn(7); i++ {
			n := prng.Pick(r, 0, 1, ibl-1, ibl, ibl+1, 2*ibl, r.Intn(200), 128*ibl, 128*ibl+5)
			b := r.Bytes(n)
			all = append(all, b...)
			h := keys.Hex(b)
			ws = append(ws, h)
		}
		wl := "-"
		if len(ws) > 0 {
			wl = strings.Join(ws, ",")
		}
		sink := "-"
		if faults {
			n := 1 + r.Intn(6)
			b := make([]byte, n)
			for i := range b {
				b[i] = '0'
			}
			b[r.Intn(n)] = '1'
			sink = string(b)
		}
		line := fmt.Sprintf("st.enc %s %s %s", e, sink, wl)
		out := goExec(line)
		stream := "frag.basexenc"
		if faults {
			stream = "fault.basexenc"
		}
		emit(Case{Stream: stream, Line: line, GoOut: out, Branch: e + "/" + sink,
			Direct: func() string {
				if faults {
					return ""
				}
				want := encByName(e).EncodeToString(all)
				if !strings.Contains(out, " out="+keys.Hex([]byte(want))+" ") {
					return fmt.Sprintf("the BaseX stream encoder differs from the one-shot encoding: %s", trunc(line, 300))
				}
				return ""
			}})
	}
}

// fragReader delivers b according to a mode; "eof" modes return the last bytes
// together with io.EOF.
type fragReader struct {
	b    []byte
	mode string
	r    *prng.R
	step int
}

func (f *fragReader) Read(p []byte) (int, error) {
	if len(f.b) == 0 {
		return 0, io.EOF
	}
	if len(p) == 0 {
		return 0, nil
	}
	n := len(p)
	switch f.mode {
	case "bytes", "bytes-eof":
		n = 1
	case "random", "random-eof":
		n = 1 + f.r.Intn(40)
	case "halving":
		n = (len(f.b) + 1) / 2
	case "4095":
		n = 4095
	}
	if n > len(p) {
		n = len(p)
	}
	if n > len(f.b) {
		n = len(f.b)
	}
	copy(p, f.b[:n])
	f.b = f.b[n:]
	if len(f.b) == 0 && strings.HasSuffix(f.mode, "eof") {
		return n, io.EOF
	}
	return n, nil
}

var currentFrag *fragReader // when set, the *.open ops read their message through it

func readerFor(msg []byte) io.Reader {
	if currentFrag != nil {
		f := *currentFrag
		f.b = msg
		return &f
	}
	return bytes.NewReader(msg)
}

func genEntryPointFragmentation(ctx *Ctx, r *prng.R, emit func(Case)) {
	var fams []*family
	fams = append(fams, encFamilies(ctx, r, ctx.N(2, 8))...)
	fams = append(fams, scFamilies(ctx, r, ctx.N(2, 8))...)
	fams = append(fams, sigFamilies(ctx, r, ctx.N(2, 8))...)
	// attached signatures over all-zero plaintexts: the payload chunk is the LAST field of the last packet, so the bytes a
	// truncation cuts off are zeros — what a decoder that zero-fills a short read would silently restore
	for major := 1; major <= 2; major++ {
		signer := r.Bytes(32)
		zf := &family{mode: "sig", major: major, named: true, sender: keys.Hex(sigPub(signer)),
			openLine: func(msg []byte) string { return fmt.Sprintf("sig.verify known std %s", keys.Hex(msg)) }}
		pt := make([]byte, 48)
		line := fmt.Sprintf("sig.attachedwith %d 0 %s %s %d %s", major, keys.Hex(signer), keys.Hex(r.Bytes(16)), 64, keys.Hex(pt))
		zf.msgs = append(zf.msgs, &genuineMsg{msg: mustOK(askGen(line), line), pt: pt})
		fams = append(fams, zf)
	}
	for _, f := range fams {
		muts := []mutation{}
		for _, g := range f.msgs {
			muts = append(muts, mutation{"genuine", g.msg})
		}
		all := allMutations(ctx, r, f, false)
		for i := r.Intn(5); i < len(all); i += ctx.N(9, 3) {
			muts = append(muts, all[i])
		}
		// every cut inside the LAST packet of the family's first message (a reader that refills its buffer differently
		// near the end of input must not turn a truncation into a clean end for some fragmentations only)
		if len(f.msgs) > 0 {
			g := f.msgs[0].msg
			_, _, packets, _ := splitMsg(g)
			if n := len(packets); n > 0 {
				lastLen := len(packets[n-1])
				for cut := 1; cut <= lastLen && cut <= 80; cut += 1 + cut/24 {
					muts = append(muts, mutation{fmt.Sprintf("b.cutlast%d", cut), g[:len(g)-cut]})
				}
			}
		}
		for _, m := range muts {
			line := f.openLine(m.msg)
			base := goExec(line)
			for _, mode := range []string{"bytes", "bytes-eof", "random", "random-eof", "halving", "oneshot-eof"} {
				mode := mode
				currentFrag = &fragReader{mode: mode, r: r.Fork()}
				out := goExec(line)
				currentFrag = nil
				emit(Case{Stream: "frag.entrypoints", Line: line, GoOut: out, Cmp: resCmp, Fallback: fallbackFor(line),
					Branch: fmt.Sprintf("%s/%s/%s", f.mode, mode, resClass(out)),
					Direct: func() string {
						if resClass(out) != resClass(base) && (resClass(out) == "ok" || resClass(base) == "ok") || (resClass(out) == "ok" && !bytes.Equal(resReleased(out), resReleased(base))) ||
							!(bytes.HasPrefix(resReleased(out), resReleased(base)) || bytes.HasPrefix(resReleased(base), resReleased(out))) {
							return fmt.Sprintf("a decoding entry point's result depends on read fragmentation (%s): %s -> %s vs one-shot %s", mode, trunc(line, 500), trunc(out, 100), trunc(base, 100))
						}
						return ""
					}})
			}
		}
	}
}

// ---------------------------------------------------------------------------
// C14

type faultWriter struct {
	failAt  int // index of the failing Write (-1: never)
	sticky  bool
	partial bool // the failing Write takes half of the slice before it fails: (0 < n < len, err), legal for an io.Writer
	n      int
	data   bytes.Buffer
	failed bool
}

func (w *faultWriter) Write(p []byte) (int, error) {
	k := w.n
	w.n++
	if k == w.failAt || (w.sticky && w.failAt >= 0 && k > w.failAt) {
		w.failed = true
		if w.partial && len(p) > 1 {
			w.data.Write(p[:len(p)/2])
			return len(p) / 2, script.ErrIO
		}
		return 0, script.ErrIO
	}
	w.data.Write(p)
	return len(p), nil
}

// writerKinds: constructors of every encoding stream over an io.Writer
func writerKinds() map[string]func(w io.Writer) (io.WriteCloser, error) {
	secret := bytes.Repeat([]byte{9}, 32)
	c := &keys.EphCreator{Secret: secret}
	boxPubKey := keys.NewBoxSecret(secret, false, nil, c).Pub
	signer := keys.NewSigSecret(secret, nil)
	return map[string]func(w io.Writer) (io.WriteCloser, error){
		"enc.v1":      func(w io.Writer) (io.WriteCloser, error) { return saltpack.NewEncryptStream(saltpack.Version1(), w, nil, []saltpack.BoxPublicKey{boxPubKey}) },
		"enc.v2":      func(w io.Writer) (io.WriteCloser, error) { return saltpack.NewEncryptStream(saltpack.Version2(), w, nil, []saltpack.BoxPublicKey{boxPubKey}) },
		"enc.armor":   func(w io.Writer) (io.WriteCloser, error) { return saltpack.NewEncryptArmor62Stream(saltpack.Version2(), w, nil, []saltpack.BoxPublicKey{boxPubKey}, "") },
		"sig.v1":      func(w io.Writer) (io.WriteCloser, error) { return saltpack.NewSignStream(saltpack.Version1(), w, signer) },
		"sig.v2":      func(w io.Writer) (io.WriteCloser, error) { return saltpack.NewSignStream(saltpack.Version2(), w, signer) },
		"sig.armor":   func(w io.Writer) (io.WriteCloser, error) { return saltpack.NewSignArmor62Stream(saltpack.Version2(), w, signer, "") },
		"det.v2":      func(w io.Writer) (io.WriteCloser, error) { return saltpack.NewSignDetachedStream(saltpack.Version2(), w, signer) },
		"det.armor":   func(w io.Writer) (io.WriteCloser, error) { return saltpack.NewSignDetachedArmor62Stream(saltpack.Version1(), w, signer, "") },
		"sc":          func(w io.Writer) (io.WriteCloser, error) { return saltpack.NewSigncryptSealStream(w, c, signer, []saltpack.BoxPublicKey{boxPubKey}, nil) },
		"sc.armor":    func(w io.Writer) (io.WriteCloser, error) { return saltpack.NewSigncryptArmor62SealStream(w, c, signer, []saltpack.BoxPublicKey{boxPubKey}, nil, "") },
		"armor":       func(w io.Writer) (io.WriteCloser, error) { return saltpack.NewArmor62EncoderStream(w, saltpack.MessageTypeEncryption, "B") },
	}
}

func genFaults(ctx *Ctx, emit func(Case)) {
	r := ctx.R.Fork()
	// --- write side: a fault at every k-th underlying Write ---------------------------
	kinds := writerKinds()
	names := make([]string, 0, len(kinds))
	for n := range kinds {
		names = append(names, n)
	}
	sortStrings(names)
	for _, name := range names {
		mk := kinds[name]
		ptLen := 700
		if !ctx.Quick && !strings.Contains(name, "armor") {
			ptLen = mib + 50
		}
		if strings.Contains(name, "armor") {
			// more than two armor lines (200 words of 15 characters each): a line
			// is completed in the middle of a single Write of the armor encoder
			ptLen = ctx.N(5000, 9000)
		}
		pt := r.Bytes(ptLen)
		closeOK := false
		partial := false
		run := func(failAt int, sticky bool) (anyErr bool, w *faultWriter) {
			w = &faultWriter{failAt: failAt, sticky: sticky, partial: partial}
			closeOK = false
			s, err := mk(w)
			if err != nil {
				return true, w
			}
			for off := 0; off < len(pt); off += 300 {
				end := off + 300
				if end > len(pt) {
					end = len(pt)
				}
				if _, err := s.Write(pt[off:end]); err != nil {
					anyErr = true
				}
			}
			if err := s.Close(); err != nil {
				anyErr = true
			} else {
				closeOK = true
			}
			return anyErr, w
		}
		_, clean := run(-1, false)
		total := clean.n
		cleanLen := clean.data.Len()
		cleanBytes := append([]byte(nil), clean.data.Bytes()...)
		deterministic := name == "armor" // no randomness: the complete message is the same bytes in every run
		step := 1
		if total > ctx.N(150, 1500) {
			step = total/ctx.N(150, 1500) + 1
		}
		for k := 0; k < total; k += step {
			for variant := 0; variant < 3; variant++ {
				// transient / sticky faults taking nothing, and a transient fault that takes half of the slice first
				sticky := variant == 1
				partial = variant == 2
				k, sticky := k, sticky
				anyErr, w := run(k, sticky)
				partial = false
				closedOK := closeOK
				line := fmt.Sprintf("noop fault.write %s k=%d sticky=%v", name, k, sticky)
				emit(Case{Stream: "fault.write." + name, Line: line, GoOut: "bad-op", Branch: fmt.Sprintf("k%%8=%d", k%8), Trivial: false,
					Sample: map[string]interface{}{"stream": name, "underlying_writes": total, "fault_at": k, "sticky": sticky, "error_reported": anyErr},
					Direct: func() string {
						if w.failed && !anyErr {
							return fmt.Sprintf("an underlying Write failed (call %d of %d, stream %s, sticky=%v) but no Write/Close of the encoding stream returned an error", k, total, name, sticky)
						}
						// "... so Close never reports success for a message that was not completely written" — whatever the
						// earlier Writes returned (the caller here carries on after an error, as a retrying caller would)
						if closedOK && (w.data.Len() != cleanLen || (deterministic && !bytes.Equal(w.data.Bytes(), cleanBytes))) {
							return fmt.Sprintf("Close reports success for a message that was not completely written: stream %s, %d-byte plaintext in 300-byte Writes, underlying Write %d of %d fails once (sticky=%v); %d of %d bytes reached the writer", name, len(pt), k, total, sticky, w.data.Len(), cleanLen)
						}
						return ""
					}})
			}
		}
	}
	// BaseX encoder stream with faults, per call against the model
	genBasexEncStream(ctx, r, emit, true)
	// --- read side: the armor stack, per call against the model ---------------------------
	for ti, text := range armoredTexts(ctx, r) {
		if len(text) == 0 || (len(text) > 1500 && ctx.Quick) {
			continue
		}
		base := strings.Split(fragment(r, text, prng.Pick(r, "random", "halving", "4095", "bytes")), ",")
		step := 1
		if len(base) > ctx.N(40, 400) {
			step = len(base)/ctx.N(40, 400) + 1
		}
		for k := 0; k < len(base); k += step {
			for _, kind := range []string{"alone-transient", "alone-sticky", "withdata-sticky", "whitespace-sticky"} {
				p := append([]string(nil), base...)
				switch kind {
				case "alone-transient":
					p = append(append(append([]string(nil), p[:k]...), "-!"), p[k:]...)
				case "alone-sticky":
					p = append(append([]string(nil), p[:k]...), "-!", "-!", "-!", "-!", "-!", "-!")
				case "withdata-sticky":
					p = append(append([]string(nil), p[:k]...), p[k]+"!", "-!", "-!", "-!", "-!", "-!")
				case "whitespace-sticky":
					p = append(append([]string(nil), p[:k]...), keys.Hex([]byte(" \n ")) + "!", "-!", "-!", "-!", "-!", "-!")
				}
				line := fmt.Sprintf("st.dec %s %s %s", prng.Pick(r, "none", "0"), prng.Pick(r, "1", "32", "43", "4096"), strings.Join(p, ","))
				out := goExec(line)
				kind := kind
				emit(Case{Stream: "fault.read.armor", Line: line, GoOut: out, Branch: fmt.Sprintf("text%d/%s/%s", ti, kind, strings.Fields(out)[1]),
					Direct: func() string {
						if strings.Fields(out)[1] == "ok" {
							return fmt.Sprintf("the underlying reader returned a non-EOF error (%s) but the armor decoder ended with a clean end-of-message: %s", kind, trunc(line, 400))
						}
						return ""
					}})
			}
		}
	}
	// --- read side: whole entry points over faulting readers ---------------------------------
	var fams []*family
	fams = append(fams, encFamilies(ctx, r, ctx.N(2, 6))...)
	fams = append(fams, scFamilies(ctx, r, ctx.N(2, 6))...)
	fams = append(fams, sigFamilies(ctx, r, ctx.N(2, 6))...)
	for _, f := range fams {
		for _, g := range f.msgs {
			line := f.openLine(g.msg)
			// the classify-and-decrypt convenience entry point, binary and armored
			if f.mode == "enc" || f.mode == "sc" {
				for _, armored := range []bool{false, true} {
					src := g.msg
					if armored {
						a, err := saltpack.Armor62Seal(g.msg, saltpack.MessageTypeEncryption, "")
						if err != nil {
							continue
						}
						src = []byte(a)
					}
					step := ctx.N(7, 1)
					if armored {
						step = ctx.N(11, 2)
					}
					for k := 0; k < len(src); k += step {
						for _, kind := range []string{"alone", "withdata", "alone-transient"} {
							k, kind, armored := k, kind, armored
							ring, res := f.ringAndResolver()
							if ring == nil {
								continue
							}
							fr := &faultingReader{b: src, spec: faultSpec{at: k, withData: kind == "withdata", transient: kind == "alone-transient"}}
							var rel []byte
							var err error
							func() {
								defer func() {
									if x := recover(); x != nil {
										err = fmt.Errorf("panic: %v", x)
									}
								}()
								var plain io.Reader
								plain, _, _, _, _, _, _, err = saltpack.ClassifyEncryptedStreamAndMakeDecoder(fr, ring, res)
								if err == nil {
									rel, err = readAllCollect(plain, 4096)
								}
							}()
							emit(Case{Stream: "fault.read.dispatch", Line: fmt.Sprintf("noop fault.dispatch %s armored=%v k=%d %s", f.mode, armored, k, kind), GoOut: "bad-op",
								Branch: fmt.Sprintf("%s/armored=%v/%s/err=%v", f.mode, armored, kind, err != nil),
								Direct: func() string {
									if fr.hit && err == nil {
										return fmt.Sprintf("the underlying reader returned an error (%s, at offset %d of %d, armored=%v) but ClassifyEncryptedStreamAndMakeDecoder and the stream it returned ended cleanly (%d bytes released): mode=%s message=%s", kind, k, len(src), armored, len(rel), f.mode, trunc(keys.Hex(g.msg), 600))
									}
									if !bytes.HasPrefix(g.pt, rel) {
										return fmt.Sprintf("after a reader fault at offset %d classify-and-decrypt released bytes that are not a prefix of the plaintext", k)
									}
									return ""
								}})
						}
					}
				}
			}
			for k := 0; k < len(g.msg); k += ctx.N(7, 1) {
				for _, kind := range []string{"alone", "withdata", "alone-transient"} {
					k, kind := k, kind
					currentFault = &faultSpec{at: k, withData: kind == "withdata", transient: kind == "alone-transient"}
					out := goExec(line)
					currentFault = nil
					emit(Case{Stream: "fault.read.entrypoints", Line: fmt.Sprintf("noop fault.read %s k=%d %s", f.mode, k, kind), GoOut: "bad-op",
						Branch: fmt.Sprintf("%s/%s/%s", f.mode, kind, resClass(out)),
						Direct: func() string {
							if resClass(out) == "ok" {
								return fmt.Sprintf("the underlying reader failed at offset %d (%s) but the decoding stream ended cleanly: %s", k, kind, trunc(line, 400))
							}
							if !bytes.HasPrefix(g.pt, resReleased(out)) {
								return fmt.Sprintf("after a reader fault at offset %d the stream released bytes that are not a prefix of the plaintext: %s", k, trunc(line, 400))
							}
							return ""
						}})
				}
			}
		}
	}
}

type faultSpec struct {
	at        int
	withData  bool
	transient bool // the error is returned once; afterwards the reader works again
}

var currentFault *faultSpec

type faultingReader struct {
	b    []byte
	spec faultSpec
	off  int
	hit  bool
}

func (f *faultingReader) Read(p []byte) (int, error) {
	if f.hit && !f.spec.transient {
		return 0, script.ErrIO // sticky
	}
	if len(p) == 0 {
		return 0, nil
	}
	if f.off >= f.spec.at && !f.hit {
		f.hit = true
		if f.spec.withData && f.off < len(f.b) {
			p[0] = f.b[f.off]
			f.off++
			return 1, script.ErrIO
		}
		return 0, script.ErrIO
	}
	n := len(p)
	if n > 13 {
		n = 13
	}
	if !f.hit && f.off+n > f.spec.at {
		n = f.spec.at - f.off
	}
	if f.off+n > len(f.b) {
		n = len(f.b) - f.off
	}
	if n <= 0 {
		return 0, io.EOF
	}
	copy(p, f.b[f.off:f.off+n])
	f.off += n
	return n, nil
}

func sortStrings(s []string) {
	for i := 1; i < len(s); i++ {
		for j := i; j > 0 && s[j] < s[j-1]; j-- {
			s[j], s[j-1] = s[j-1], s[j]
		}
	}
}

func init() {
	reg("C13", func(ctx *Ctx, emit func(Case)) { genFragmentation(ctx, emit) },
		[]string{"readers that return (0, nil) forever are excluded (io.Reader discourages them)", "resident memory (GC, go-codec's per-packet allocation) is not modelled: the bound is on buffered bytes"},
		append([]string{"go-codec's reading of an io.Reader (fragmentation independence of the binary entry points is differential only)"}, commonTrusted...))
	reg("C14", func(ctx *Ctx, emit func(Case)) { genFaults(ctx, emit) },
		[]string{"go-codec propagates writer and reader errors (validated by fault injection at every call, not proved)"}, commonTrusted)
}

// ringAndResolver: the keyring (and resolver) a family's open request names,
// recovered from its request line.
func (f *family) ringAndResolver() (*keys.Ring, saltpack.SymmetricKeyResolver) {
	if f.openLine == nil {
		return nil, nil
	}
	t := strings.Fields(f.openLine([]byte{0}))
	switch {
	case len(t) >= 8 && t[0] == "enc.open":
		return parseRing(t[2], t[3], t[4], t[5], t[6], nil), nil
	case len(t) >= 8 && t[0] == "sc.open":
		return parseRing(t[1], t[2], t[3], t[4], t[5], nil), parseResolver(t[6])
	}
	return nil, nil
}

// genArmorWriter: NewArmor62EncoderStream under write splits — per call against Stream.ArmState (how much has
// reached the underlying writer after every call, and the final text), and the property's predicates on the
// implementation: the text is the same for every split (= Armor62Seal of the concatenation) and well-formed.
// Payloads go well beyond one armor line (200 words = 3000 characters ~ 2233 bytes), splits are aligned and
// misaligned with words, BaseX blocks and lines.
func genArmorWriter(ctx *Ctx, r *prng.R, emit func(Case)) {
	types := []saltpack.MessageType{saltpack.MessageTypeEncryption, saltpack.MessageTypeAttachedSignature, saltpack.MessageTypeDetachedSignature}
	lens := []int{0, 1, 31, 32, 33, 64, 100, 2232, 2233, 2239, 2240, 4466, 4479, 5000}
	for k := 0; k < ctx.N(10, 120); k++ {
		lens = append(lens, prng.Pick(r, r.Intn(300), 2000+r.Intn(500), 4300+r.Intn(400), 6600+r.Intn(300), r.Intn(9000)))
	}
	for k, n := range lens {
		typ := types[k%3]
		brand := prng.Pick(r, "", "KB", "Q7")
		payload := r.Bytes(n)
		oneShot, err := saltpack.Armor62Seal(payload, typ, brand)
		if err != nil {
			continue
		}
		var splits [][]int
		splits = append(splits, []int{n}, []int{n / 2, n - n/2}, []int{0, n, 0})
		if n > 100 {
			splits = append(splits, []int{100, n - 100}, []int{n - 1, 1}, []int{32, 32, n - 64})
		}
		if n <= 600 { // byte by byte
			one := make([]int, n)
			for i := range one {
				one[i] = 1
			}
			splits = append(splits, one)
		}
		var sp []int
		for left := n; left > 0; {
			c := prng.Pick(r, 1, 11, 15, 32, 33, 45, 700, 2233, 1+r.Intn(3000))
			if c > left {
				c = left
			}
			sp = append(sp, c)
			left -= c
		}
		splits = append(splits, sp)
		for _, sp := range splits {
			var ws []string
			off := 0
			for _, c := range sp {
				ws = append(ws, keys.Hex(payload[off:off+c]))
				off += c
			}
			wl := "-"
			if len(ws) > 0 {
				wl = strings.Join(ws, ",")
			}
			line := fmt.Sprintf("st.aw %d %s %s", int(typ), keys.Hex([]byte(brand)), wl)
			out := goExec(line)
			emit(Case{Stream: "frag.armorwriter", Line: line, GoOut: out, Branch: fmt.Sprintf("len/2233=%d/writes=%d", n/2233, min(len(sp), 8)),
				Sample: map[string]interface{}{"op": "NewArmor62EncoderStream under write splits", "payload_len": n, "writes": len(sp)},
				Direct: func() string {
					text, ok := okBytesField(out, "out=")
					if !ok {
						return fmt.Sprintf("the armor writer failed on a healthy underlying writer: %s -> %s", trunc(line, 300), trunc(out, 100))
					}
					if string(text) != oneShot {
						return fmt.Sprintf("the armored text depends on how the payload is split over Write calls (differs from Armor62Seal of the same %d bytes): type=%d brand=%q write lengths %v — request %s", n, int(typ), brand, sp, trunc(line, 300))
					}
					return armorShapeOfText(string(text), payload, typ, brand)
				}})
		}
	}
}

func okBytesField(out, field string) ([]byte, bool) {
	if !strings.HasPrefix(out, "ok ") {
		return nil, false
	}
	i := strings.Index(out, field)
	if i < 0 {
		return nil, false
	}
	h := out[i+len(field):]
	if j := strings.IndexByte(h, ' '); j >= 0 {
		h = h[:j]
	}
	return unhex(h), true
}
