package main

import (
	"fmt"
	"strconv"
	"strings"
)

func genRand(ctx *Ctx, emit func(Case)) {
	r := ctx.R.Fork()
	const W = uint64(1) << 32
	u32n := func(stream string, n uint64, vs []uint64) {
		s := make([]string, len(vs))
		for i, v := range vs {
			s[i] = strconv.FormatUint(v, 10)
		}
		l := "-"
		if len(s) > 0 {
			l = strings.Join(s, ",")
		}
		line := fmt.Sprintf("rand.u32n %d %s", n, l)
		out := goExec(line)
		c := Case{Stream: stream, Line: line, GoOut: out, Branch: strings.Fields(out)[0] + fmt.Sprintf("/reads=%d", len(strings.Fields(out))),
			Sample: map[string]interface{}{"op": "csprngUint32n", "n": n, "source_words": vs}}
		if len(vs) > 0 {
			v0 := vs[0]
			c.Predicate = func() string { return uniformPredicate(n, v0) }
		}
		emit(c)
	}
	// boundary source words around every acceptance threshold and result change
	ns := []uint64{1, 2, 3, 4, 5, 6, 7, 8, 9, 10, 11, 12, 13, 15, 16, 17, 31, 32, 33, 100, 255, 256, 257, 1000, 65535, 65536, 65537,
		1<<31 - 1, 1 << 31, 1<<31 + 1, 3000000000, W - 2, W - 1}
	for k := 0; k < ctx.N(30, 400); k++ {
		ns = append(ns, 1+r.U64()%(W-1))
	}
	for _, n := range ns {
		t := W % n
		var vs []uint64
		for _, j := range []uint64{0, 1, n / 2, n - 1} {
			if j >= n {
				continue
			}
			lo := (j*W + t + n - 1) / n // first accepted word with result j
			for _, d := range []int64{-2, -1, 0, 1} {
				v := int64(lo) + d
				if v >= 0 && uint64(v) < W {
					vs = append(vs, uint64(v))
				}
			}
			hi := lo + W/n - 1 // last accepted word with result j
			for _, d := range []int64{0, 1, 2} {
				v := int64(hi) + d
				if v >= 0 && uint64(v) < W {
					vs = append(vs, uint64(v))
				}
			}
		}
		vs = append(vs, 0, W-1)
		for _, v := range vs {
			// a rejected word is followed by an accepted one: exercises the redraw
			u32n("rand.u32n.boundary", n, []uint64{v, (W / 2), 12345})
		}
		for k := 0; k < ctx.N(4, 40); k++ {
			u32n("rand.u32n.random", n, []uint64{r.U64() % W, r.U64() % W, r.U64() % W, r.U64() % W})
		}
		u32n("rand.u32n.dry", n, []uint64{0}[:r.Intn(2)])
	}
	// exhaustive small n: all source words cannot be enumerated (2^32), but for
	// n <= 8 every residue class boundary is in the boundary stream above.

	// shuffles: every draw vector for n <= 5 (quick) / 6 (thorough)
	maxN := ctx.N(5, 6)
	for n := 0; n <= maxN; n++ {
		var rec func(i int, js []string)
		rec = func(i int, js []string) {
			if i == 0 {
				l := "-"
				if len(js) > 0 {
					l = strings.Join(js, ",")
				}
				line := fmt.Sprintf("rand.shuffle %d %s", n, l)
				emit(Case{Stream: "rand.shuffle.exhaustive", Line: line, GoOut: goExec(line), Branch: fmt.Sprintf("n=%d", n),
					Sample: map[string]interface{}{"op": "csprngShuffle", "n": n, "draws": l}})
				return
			}
			for j := 0; j <= i; j++ {
				rec(i-1, append(append([]string(nil), js...), strconv.Itoa(j)))
			}
		}
		if n <= 1 {
			rec(0, nil)
		} else {
			rec(n-1, nil)
		}
	}
	for k := 0; k < ctx.N(60, 600); k++ { // larger n, random draws
		n := 7 + r.Intn(60)
		js := make([]string, n-1)
		for i := range js {
			js[i] = strconv.Itoa(r.Intn(n - i))
		}
		line := fmt.Sprintf("rand.shuffle %d %s", n, strings.Join(js, ","))
		emit(Case{Stream: "rand.shuffle.random", Line: line, GoOut: goExec(line), Branch: "n>6"})
	}
	// the draws csprngShuffle extracts from raw source words (incl. rejections)
	for k := 0; k < ctx.N(80, 1000); k++ {
		kk := r.Intn(9)
		nw := kk + r.Intn(4)
		ws := make([]string, nw)
		for i := range ws {
			w := r.U64() % W
			if r.Intn(3) == 0 { // small words are the rejected ones
				w = r.U64() % 16
			}
			ws[i] = strconv.FormatUint(w, 10)
		}
		l := "-"
		if nw > 0 {
			l = strings.Join(ws, ",")
		}
		line := fmt.Sprintf("rand.draws %d %s", kk, l)
		out := goExec(line)
		emit(Case{Stream: "rand.draws", Line: line, GoOut: out, Branch: strings.Fields(out + " x")[0],
			Cmp: func(a, b string) bool { return strings.Join(strings.Fields(a), " ") == strings.Join(strings.Fields(b), " ") }})
	}
}

func init() {
	register("C19", &propDef{
		streams: func(ctx *Ctx, emit func(Case)) { genRand(ctx, emit); genFields(ctx, emit) },
		level:   "proof",
		assumptions: []string{
			"the randomness source is uniform (trusted base); uniformity of the permutation is then a theorem",
			"'appears nowhere in the bytes' is proved as provenance of every field, not about coincidences of primitive outputs",
		},
		trusted: []string{"harness/cmd/corr", "hook VerifCsprngUint32n/VerifCsprngShuffle (verif build tag)"},
	})
}

// uniformPredicate: C19's "each bounded draw is exactly uniform" evaluated on
// the implementation around source word v: count the source words that yield
// the same result as v's class (the words whose high product word is r form one
// interval; rejected words, if any, sit at its ends).  Two results with
// different numbers of preimages, or one with more than floor(2^32/n), is a
// non-uniform draw.
func uniformPredicate(n, v uint64) string {
	const W = uint64(1) << 32
	if n == 0 {
		return ""
	}
	probe := func(x uint64) (bool, uint64) {
		o := goExec(fmt.Sprintf("rand.u32n %d %d", n, x))
		f := strings.Fields(o)
		if len(f) >= 2 && f[0] == "ok" {
			r, _ := strconv.ParseUint(f[1], 10, 64)
			return true, r
		}
		return false, 0
	}
	count := func(r uint64) (cnt uint64, exact bool, lo, hi uint64) {
		lo = (r*W + n - 1) / n
		hi = ((r+1)*W+n-1)/n - 1
		size := hi - lo + 1
		var xs []uint64
		if size <= 5000 {
			for x := lo; x <= hi; x++ {
				xs = append(xs, x)
			}
			exact = true
		} else {
			for d := uint64(0); d < 3; d++ {
				xs = append(xs, lo+d, hi-d)
			}
			for k := uint64(1); k <= 64; k++ {
				xs = append(xs, lo+(size/65)*k)
			}
		}
		rej := uint64(0)
		for _, x := range xs {
			ok, res := probe(x)
			if !ok || res != r {
				rej++
			}
		}
		return size - rej, exact, lo, hi
	}
	r := (v * n) >> 32
	c1, ex1, lo, hi := count(r)
	how := "every word of the interval was tried"
	if !ex1 {
		how = "both ends and 64 interior words were tried, the rest of the interval is assumed accepted"
	}
	if c1 > W/n {
		return fmt.Sprintf("csprngUint32n(%d) is not uniform: result %d is produced by %d source words (%d..%d; %s), more than floor(2^32/%d) = %d — e.g. rand.u32n %d %d and rand.u32n %d %d", n, r, c1, lo, hi, how, n, W/n, n, lo, n, hi)
	}
	r2 := (r + 1) % n
	if r2 != r {
		c2, _, _, _ := count(r2)
		if c2 != c1 {
			return fmt.Sprintf("csprngUint32n(%d) is not uniform: result %d is produced by %d source words but result %d by %d (%s)", n, r, c1, r2, c2, how)
		}
	}
	return ""
}
