package main

// C19 (first half): identities in the emitted bytes.  The sealing requests are
// compared byte for byte with the model (so the header order is the Fisher-Yates
// arrangement of the caller's order under the scripted draws), and the
// property's own predicate is evaluated on the real bytes: the sender's
// long-term public key, hidden recipients' keys and (signcryption) box-key
// recipients' keys occur nowhere; visible recipients / symmetric identifiers
// occur exactly once.

import (
	"bytes"
	"fmt"
	"strings"

	"github.com/keybase/saltpack"
	"verifharness/internal/keys"
	"verifharness/internal/prng"
)

func countSub(hay, needle []byte) int {
	n := 0
	for i := 0; i+len(needle) <= len(hay); i++ {
		if bytes.Equal(hay[i:i+len(needle)], needle) {
			n++
		}
	}
	return n
}

func fieldsPredicateEnc(c *encConfig, line string, msg []byte) string {
	fail := func(f string, a ...interface{}) string {
		return fmt.Sprintf(f, a...) + " — request " + trunc(line, 600)
	}
	senderListed := false
	for i, s := range c.recips {
		pub := boxPub(s)
		want := 1
		if c.hidden[i] {
			want = 0
		}
		if c.sender != nil && bytes.Equal(pub, boxPub(c.sender)) && !c.hidden[i] {
			senderListed = true
		}
		if got := countSub(msg, pub); got != want {
			if c.hidden[i] {
				return fail("the public key of hidden recipient %d (%x) occurs %d time(s) in the encrypted message", i, pub, got)
			}
			return fail("the public key of visible recipient %d (%x) occurs %d time(s) in the encrypted message, not exactly once", i, pub, got)
		}
	}
	if c.sender != nil {
		want := 0
		if senderListed {
			want = 1
		}
		if got := countSub(msg, boxPub(c.sender)); got != want {
			return fail("the sender's long-term public key (%x) occurs %d time(s) in the encrypted message (expected %d)", boxPub(c.sender), got, want)
		}
	}
	// the header's key-id slots: nil exactly for the hidden recipients
	_, h, _, _ := splitMsg(msg)
	if h == nil || h.K != mvArr || len(h.Arr) < 6 || h.Arr[5].K != mvArr {
		return fail("emitted header does not parse")
	}
	nils, named := 0, map[string]int{}
	for _, e := range h.Arr[5].Arr {
		if e.K != mvArr || len(e.Arr) < 2 {
			return fail("malformed recipient entry")
		}
		if e.Arr[0].K == mvNil {
			nils++
		} else {
			named[string(e.Arr[0].Data)]++
		}
	}
	nh := 0
	for i, s := range c.recips {
		if c.hidden[i] {
			nh++
		} else if named[string(boxPub(s))] != 1 {
			return fail("visible recipient %d is named %d time(s) in the header's recipient list", i, named[string(boxPub(s))])
		}
	}
	if nils != nh || len(named) != len(c.recips)-nh {
		return fail("the header names %d keys and has %d anonymous entries for %d visible and %d hidden recipients", len(named), nils, len(c.recips)-nh, nh)
	}
	return ""
}

func genFields(ctx *Ctx, emit func(Case)) {
	r := ctx.R.Fork()
	// --- encryption ---------------------------------------------------------------
	for k := 0; k < ctx.N(60, 600); k++ {
		c := randEncConfig(r, prng.Pick(r, 0, 1, 40))
		switch k % 6 {
		case 1: // all hidden
			for i := range c.hidden {
				c.hidden[i] = true
			}
		case 2: // alternating, starting visible (a hidden entry after a named one, whatever the shuffle)
			for i := range c.hidden {
				c.hidden[i] = i%2 == 1
			}
		case 3: // the sender is also a visible recipient
			if c.sender != nil {
				c.recips[0], c.hidden[0] = c.sender, false
			}
		case 4: // the sender is also a *hidden* recipient
			if c.sender != nil {
				c.recips[0], c.hidden[0] = c.sender, true
			}
		}
		line := c.line()
		out := goExec(line)
		pattern := ""
		for _, h := range c.hidden {
			if h {
				pattern += "h"
			} else {
				pattern += "v"
			}
		}
		cs := Case{Stream: "fields.enc", Line: line, GoOut: out, Branch: fmt.Sprintf("v%d/anon=%v/%s/case%d", c.v.Major, c.sender == nil, pattern, k%6),
			Sample: map[string]interface{}{"op": "Seal (identities in the bytes)", "version": c.v.Major, "recipients": pattern, "anonymous": c.sender == nil}}
		if msg, ok := okBytes(out); ok {
			cs.Direct = func() string { return fieldsPredicateEnc(c, line, msg) }
		}
		emit(cs)
	}
	// --- signcryption ---------------------------------------------------------------
	for k := 0; k < ctx.N(40, 400); k++ {
		anon := r.Intn(3) == 0
		signer := r.Bytes(32)
		kinds := prng.Pick(r, "b", "s", "bs", "sb", "bbs", "sbs", "ssbb", "bbbb", "ssss")
		var boxes, syms []string
		var boxPubs, symKeys, symIDs [][]byte
		for _, ch := range kinds {
			if ch == 'b' {
				p := boxPub(r.Bytes(32))
				boxPubs = append(boxPubs, p)
				boxes = append(boxes, "b:"+keys.Hex(p))
			}
		}
		for _, ch := range kinds {
			if ch == 's' {
				s, id := r.Bytes(32), r.Bytes(prng.Pick(r, 32, 32, 16))
				symKeys, symIDs = append(symKeys, s), append(symIDs, id)
				syms = append(syms, "s:"+keys.Hex(s)+":"+keys.Hex(id))
			}
		}
		ephRand := r.Bool()
		eph := "r"
		if !ephRand {
			eph = "g:" + keys.Hex(r.Bytes(32))
		}
		src := randScript(r, len(kinds), ephRand, -1, 0)
		snd := keys.Hex(signer)
		if anon {
			snd = "anon"
		}
		jl := func(l []string) string {
			if len(l) == 0 {
				return "-"
			}
			return strings.Join(l, ",")
		}
		line := fmt.Sprintf("sc.seal %s %s %s %s %s %d %s", snd, jl(boxes), jl(syms), eph, src.Spec(), mib, keys.Hex(r.Bytes(prng.Pick(r, 0, 1, 40))))
		out := goExec(line)
		cs := Case{Stream: "fields.sc", Line: line, GoOut: out, Branch: fmt.Sprintf("anon=%v/%s", anon, kinds),
			Sample: map[string]interface{}{"op": "SigncryptSeal (identities in the bytes)", "recipients": kinds, "anonymous": anon}}
		if msg, ok := okBytes(out); ok {
			cs.Direct = func() string {
				fail := func(f string, a ...interface{}) string {
					return fmt.Sprintf(f, a...) + " — request " + trunc(line, 600)
				}
				if got := countSub(msg, sigPub(signer)); got != 0 {
					return fail("the sender's signing public key occurs %d time(s) in the signcrypted message", got)
				}
				for i, p := range boxPubs {
					if got := countSub(msg, p); got != 0 {
						return fail("box-key recipient %d's public key (%x) occurs %d time(s) in the signcrypted message", i, p, got)
					}
				}
				for i := range symKeys {
					if got := countSub(msg, symKeys[i]); got != 0 {
						return fail("symmetric recipient %d's key occurs %d time(s) in the signcrypted message", i, got)
					}
					if got := countSub(msg, symIDs[i]); got != 1 {
						return fail("symmetric recipient %d's identifier occurs %d time(s) in the signcrypted message, not exactly once", i, got)
					}
				}
				return ""
			}
		}
		emit(cs)
	}
	_ = saltpack.Version1
}
