package main

// Mutation generators: from genuine messages of every mode to hostile inputs —
// tree-level edits of header and packets, packet-level surgery, byte-level
// flips and truncations, and spec-aware forgeries by parties that know the
// payload key.  Every case goes to the real receiver and to the model; the
// authenticity predicate of C02/C04/C06/C07 is evaluated on what the
// implementation released.

import (
	"bytes"
	"crypto/sha512"
	"encoding/binary"
	"fmt"
	"strings"

	"golang.org/x/crypto/nacl/secretbox"
	"verifharness/internal/keys"
	"verifharness/internal/prng"
)

// family: genuine messages that share sender and opener, plus what the
// harness knows about them.
type genuineMsg struct {
	msg        []byte
	pt         []byte
	payloadKey []byte // enc / signcrypt
	openerPos  int    // position of the opener in the header (enc)
}

type family struct {
	mode     string // enc | sc | sig
	major    int
	msgs     []*genuineMsg
	openLine func(msg []byte) string
	sender   string // expected attribution on success ("anon" / hex / -)
	named    bool   // sender is non-anonymous
}

type mutation struct {
	label string
	msg   []byte
}

func splitMsg(msg []byte) (hdrObj []byte, inner *MV, packets [][]byte, rest []byte) {
	objs, rest := mpSplit(msg)
	if len(objs) == 0 {
		return nil, nil, nil, rest
	}
	hdrObj = objs[0]
	if v, _, err := mpParse(hdrObj); err == nil && (v.K == mvBin || v.K == mvStr) {
		if in, _, err := mpParse(v.Data); err == nil {
			inner = in
		}
	}
	return hdrObj, inner, objs[1:], rest
}

func joinMsg(hdrObj []byte, packets [][]byte) []byte {
	out := append([]byte(nil), hdrObj...)
	for _, p := range packets {
		out = append(out, p...)
	}
	return out
}

func flipBit(b []byte, r *prng.R) []byte {
	c := append([]byte(nil), b...)
	if len(c) > 0 {
		c[r.Intn(len(c))] ^= 1 << uint(r.Intn(8))
	}
	return c
}

// treeMutations of one genuine message.
func treeMutations(f *family, g *genuineMsg, r *prng.R, other *genuineMsg) []mutation {
	var out []mutation
	hdrObj, inner, packets, _ := splitMsg(g.msg)
	if inner == nil || inner.K != mvArr {
		return nil
	}
	add := func(label string, msg []byte) { out = append(out, mutation{label, msg}) }
	rehdr := func(label string, edit func(h *MV)) {
		h := inner.clone()
		edit(h)
		add("h."+label, joinMsg(mpEncode(mvBinOf(mpEncode(h))), packets))
	}
	// --- header fields ----------------------------------------------------------
	for _, fn := range []string{"pgp", "", "SALTPACK", "saltpack\x00"} {
		fn := fn
		rehdr("fn", func(h *MV) { h.Arr[0] = mvStrOf(fn) })
	}
	for _, ma := range []int64{0, 1, 2, 3, 255, -1} {
		ma := ma
		rehdr("major", func(h *MV) { h.Arr[1] = mvArrOf(mvIntOf(ma), h.Arr[1].Arr[1]) })
	}
	for _, mi := range []int64{1, 7, 200} {
		mi := mi
		rehdr("minor", func(h *MV) { h.Arr[1] = mvArrOf(h.Arr[1].Arr[0], mvIntOf(mi)) })
	}
	for _, ty := range []int64{0, 1, 2, 3, 4, -1} {
		ty := ty
		rehdr("type", func(h *MV) { h.Arr[2] = mvIntOf(ty) })
	}
	rehdr("f3.flip", func(h *MV) { h.Arr[3].Data = flipBit(h.Arr[3].Data, r) })
	rehdr("f3.len31", func(h *MV) { h.Arr[3].Data = h.Arr[3].Data[:31] })
	rehdr("f3.empty", func(h *MV) { h.Arr[3].Data = nil })
	rehdr("f3.len33", func(h *MV) { h.Arr[3].Data = append(h.Arr[3].Data, 0) })
	rehdr("f3.nil", func(h *MV) { h.Arr[3] = &MV{K: mvNil} })
	rehdr("f4.flip", func(h *MV) { h.Arr[4].Data = flipBit(h.Arr[4].Data, r) })
	rehdr("f4.trunc", func(h *MV) { h.Arr[4].Data = h.Arr[4].Data[:len(h.Arr[4].Data)/2] })
	rehdr("extra", func(h *MV) { h.Arr = append(h.Arr, mvIntOf(7), mvStrOf("future")) })
	rehdr("short", func(h *MV) { h.Arr = h.Arr[:len(h.Arr)-1] })
	rehdr("wide", func(h *MV) { h.Wide = true; h.Arr[0].Wide = true; h.Arr[2].Wide = true })
	rehdr("strbin", func(h *MV) { h.Arr[0].K = mvBin; h.Arr[3].K = mvStr })
	if f.mode != "sig" && len(inner.Arr) >= 6 && inner.Arr[5].K == mvArr {
		n := len(inner.Arr[5].Arr)
		rehdr("rcv.empty", func(h *MV) { h.Arr[5].Arr = nil })
		rehdr("rcv.nil", func(h *MV) { h.Arr[5] = &MV{K: mvNil} })
		rehdr("rcv.drop0", func(h *MV) { h.Arr[5].Arr = h.Arr[5].Arr[1:] })
		rehdr("rcv.dup0", func(h *MV) { h.Arr[5].Arr = append([]*MV{h.Arr[5].Arr[0].clone()}, h.Arr[5].Arr...) })
		if n >= 2 {
			rehdr("rcv.swap", func(h *MV) { a := h.Arr[5].Arr; a[0], a[n-1] = a[n-1], a[0] })
		}
		k := r.Intn(n)
		rehdr("rcv.kidnil", func(h *MV) { h.Arr[5].Arr[k].Arr[0] = &MV{K: mvNil} })
		rehdr("rcv.kidrand", func(h *MV) { h.Arr[5].Arr[k].Arr[0] = mvBinOf(r.Bytes(32)) })
		rehdr("rcv.kidempty", func(h *MV) { h.Arr[5].Arr[k].Arr[0] = mvBinOf(nil) })
		rehdr("rcv.boxflip", func(h *MV) { h.Arr[5].Arr[k].Arr[1].Data = flipBit(h.Arr[5].Arr[k].Arr[1].Data, r) })
		rehdr("rcv.boxshort", func(h *MV) { h.Arr[5].Arr[k].Arr[1].Data = h.Arr[5].Arr[k].Arr[1].Data[:10] })
		// payload key boxes of unusual shapes in EVERY entry (so the opener's own one too): a nonce glued in front
		// of / behind the genuine box (what NaCl bindings returning nonce||box produce), and other lengths — C12:
		// whatever the entry looks like, the long-term key may only ever be asked to open it under the fixed nonce
		nonce := r.Bytes(24)
		rehdr("rcv.box.noncepre", func(h *MV) {
			for _, e := range h.Arr[5].Arr {
				if len(e.Arr) >= 2 {
					e.Arr[1].Data = append(append([]byte(nil), nonce...), e.Arr[1].Data...)
				}
			}
		})
		rehdr("rcv.box.noncepost", func(h *MV) {
			for _, e := range h.Arr[5].Arr {
				if len(e.Arr) >= 2 {
					e.Arr[1].Data = append(append([]byte(nil), e.Arr[1].Data...), nonce...)
				}
			}
		})
		for _, bl := range []int{24, 40, 47, 49, 56, 72, 80, 96} {
			bl := bl
			rehdr(fmt.Sprintf("rcv.box.len%d", bl), func(h *MV) {
				for _, e := range h.Arr[5].Arr {
					if len(e.Arr) >= 2 {
						e.Arr[1].Data = r.Bytes(bl)
					}
				}
			})
		}
		rehdr("rcv.extra", func(h *MV) { h.Arr[5].Arr[k].Arr = append(h.Arr[5].Arr[k].Arr, mvIntOf(1)) })
		rehdr("rcv.many", func(h *MV) {
			for i := 0; i < 20; i++ {
				h.Arr[5].Arr = append(h.Arr[5].Arr, h.Arr[5].Arr[0].clone())
			}
		})
	}
	// outer header object kinds
	add("h.outer.str", joinMsg(mpEncode(&MV{K: mvStr, Data: mpEncode(inner)}), packets))
	add("h.outer.wide", joinMsg(mpEncode(&MV{K: mvBin, Data: mpEncode(inner), Wide: true}), packets))
	add("h.outer.nil", joinMsg([]byte{0xc0}, packets))
	add("h.outer.int", joinMsg([]byte{0x05}, packets))
	add("h.outer.arr", joinMsg(mpEncode(mvArrOf(mvIntOf(1), mvIntOf(2))), packets))
	add("h.inner.map", joinMsg(mpEncode(mvBinOf([]byte{0x80})), packets))
	add("h.inner.nil", joinMsg(mpEncode(mvBinOf([]byte{0xc0})), packets))
	add("h.inner.trunc", joinMsg(mpEncode(mvBinOf(mpEncode(inner)[:len(mpEncode(inner))/2])), packets))
	add("h.inner.garbage", joinMsg(mpEncode(mvBinOf(r.Bytes(40))), packets))
	// --- packets ------------------------------------------------------------------
	for pi, praw := range packets {
		p, _, err := mpParse(praw)
		if err != nil || p.K != mvArr {
			continue
		}
		repack := func(label string, edit func(p *MV)) {
			q := p.clone()
			edit(q)
			ps := append([][]byte(nil), packets...)
			ps[pi] = mpEncode(q)
			add(fmt.Sprintf("p%d.%s", pi, label), joinMsg(hdrObj, ps))
		}
		n := len(p.Arr)
		for i := 0; i < n; i++ {
			i := i
			e := p.Arr[i]
			switch e.K {
			case mvBool:
				repack("flag.flip", func(q *MV) { q.Arr[i].B = !q.Arr[i].B })
				repack("flag.int", func(q *MV) {
					v := int64(0)
					if q.Arr[i].B {
						v = 1
					}
					q.Arr[i] = mvIntOf(v)
				})
				repack("flag.nil", func(q *MV) { q.Arr[i] = &MV{K: mvNil} })
			case mvBin:
				repack(fmt.Sprintf("bin%d.flip", i), func(q *MV) { q.Arr[i].Data = flipBit(q.Arr[i].Data, r) })
				repack(fmt.Sprintf("bin%d.trunc", i), func(q *MV) { q.Arr[i].Data = q.Arr[i].Data[:len(q.Arr[i].Data)/2] })
				repack(fmt.Sprintf("bin%d.empty", i), func(q *MV) { q.Arr[i].Data = nil })
				repack(fmt.Sprintf("bin%d.nil", i), func(q *MV) { q.Arr[i] = &MV{K: mvNil} })
				repack(fmt.Sprintf("bin%d.ext", i), func(q *MV) { q.Arr[i].Data = append(q.Arr[i].Data, 0) })
				repack(fmt.Sprintf("bin%d.str", i), func(q *MV) { q.Arr[i].K = mvStr })
				repack(fmt.Sprintf("bin%d.wide", i), func(q *MV) { q.Arr[i].Wide = true })
				repack(fmt.Sprintf("bin%d.int", i), func(q *MV) { q.Arr[i] = mvIntOf(3) })
			case mvArr: // authenticators
				m := len(e.Arr)
				repack("auth.empty", func(q *MV) { q.Arr[i].Arr = nil })
				repack("auth.nil", func(q *MV) { q.Arr[i] = &MV{K: mvNil} })
				repack("auth.drop0", func(q *MV) { q.Arr[i].Arr = q.Arr[i].Arr[1:] })
				repack("auth.droplast", func(q *MV) { q.Arr[i].Arr = q.Arr[i].Arr[:m-1] })
				if m >= 2 {
					repack("auth.swap", func(q *MV) { a := q.Arr[i].Arr; a[0], a[m-1] = a[m-1], a[0] })
					repack("auth.rot", func(q *MV) { a := q.Arr[i].Arr; q.Arr[i].Arr = append(a[1:], a[0]) })
				}
				for k := 0; k < m; k++ {
					k := k
					repack(fmt.Sprintf("auth%d.flip", k), func(q *MV) { q.Arr[i].Arr[k].Data = flipBit(q.Arr[i].Arr[k].Data, r) })
				}
				repack("auth.len31", func(q *MV) {
					for _, a := range q.Arr[i].Arr {
						a.Data = a.Data[:31]
					}
				})
				repack("auth.len33", func(q *MV) {
					for _, a := range q.Arr[i].Arr {
						a.Data = append(a.Data, 0)
					}
				})
				repack("auth.ints", func(q *MV) { q.Arr[i].Arr[0] = mvIntOf(1) })
			}
		}
		repack("extra", func(q *MV) { q.Arr = append(q.Arr, mvIntOf(9), mvBinOf([]byte("x"))) })
		repack("short", func(q *MV) { q.Arr = q.Arr[:n-1] })
		repack("wide", func(q *MV) { q.Wide = true })
		repack("empty", func(q *MV) { q.Arr = nil })
		ps := append([][]byte(nil), packets...)
		ps[pi] = []byte{0xc0}
		add(fmt.Sprintf("p%d.nil", pi), joinMsg(hdrObj, ps))
		ps = append([][]byte(nil), packets...)
		ps[pi] = []byte{0x81, 0xa1, 'x', 0x01}
		add(fmt.Sprintf("p%d.map", pi), joinMsg(hdrObj, ps))
		ps = append([][]byte(nil), packets...)
		ps[pi] = []byte{0x2a}
		add(fmt.Sprintf("p%d.int", pi), joinMsg(hdrObj, ps))
	}
	// --- packet-level surgery -------------------------------------------------------
	np := len(packets)
	for k := 0; k <= np; k++ { // truncation at every packet boundary
		add(fmt.Sprintf("s.trunc%d", k), joinMsg(hdrObj, packets[:k]))
	}
	if np >= 2 {
		sw := append([][]byte(nil), packets...)
		sw[0], sw[1] = sw[1], sw[0]
		add("s.swap01", joinMsg(hdrObj, sw))
		sw = append([][]byte(nil), packets...)
		sw[np-2], sw[np-1] = sw[np-1], sw[np-2]
		add("s.swaplast", joinMsg(hdrObj, sw))
		add("s.del0", joinMsg(hdrObj, packets[1:]))
		add("s.delmid", joinMsg(hdrObj, append(append([][]byte(nil), packets[:np-2]...), packets[np-1])))
		add("s.onlylast", joinMsg(hdrObj, packets[np-1:]))
	}
	add("s.dup0", joinMsg(hdrObj, append([][]byte{packets[0]}, packets...)))
	add("s.duplast", joinMsg(hdrObj, append(append([][]byte(nil), packets...), packets[np-1])))
	add("s.append.nil", append(append([]byte(nil), g.msg...), 0xc0))
	add("s.append.int", append(append([]byte(nil), g.msg...), 0x01))
	add("s.append.trunc", append(append([]byte(nil), g.msg...), 0xc4, 0x05, 0x01))
	add("s.append.invalid", append(append([]byte(nil), g.msg...), 0xc1))
	add("s.append.self", append(append([]byte(nil), g.msg...), g.msg...))
	// block-shaped objects BEHIND the final packet whose payload differs from the final one: whatever the receiver
	// does to detect trailing data must not disturb what it has verified but not yet released
	if np >= 2 {
		add("s.append.first", joinMsg(hdrObj, append(append([][]byte(nil), packets...), packets[0])))
		add("s.append.all", joinMsg(hdrObj, append(append([][]byte(nil), packets...), packets...)))
	}
	if last, _, err := mpParse(packets[np-1]); err == nil && last != nil && last.K == mvArr {
		q := last.clone()
		for _, e := range q.Arr {
			if (e.K == mvBin || e.K == mvStr) && len(e.Data) > 0 {
				e.Data = r.Bytes(len(e.Data))
			}
		}
		add("s.append.block", joinMsg(hdrObj, append(append([][]byte(nil), packets...), mpEncode(q))))
	}
	add("s.hdrtwice", joinMsg(append(append([]byte(nil), hdrObj...), hdrObj...), packets))
	if other != nil {
		oh, _, op, _ := splitMsg(other.msg)
		add("x.hdrswap", joinMsg(oh, packets))
		add("x.packets", joinMsg(hdrObj, op))
		if len(op) >= 1 {
			sp := append([][]byte(nil), packets...)
			sp[0] = op[0]
			add("x.splice0", joinMsg(hdrObj, sp))
			sp = append([][]byte(nil), packets...)
			sp[np-1] = op[len(op)-1]
			add("x.splicelast", joinMsg(hdrObj, sp))
			add("x.append", joinMsg(hdrObj, append(append([][]byte(nil), packets[:np-1]...), op...)))
			add("x.append.last", joinMsg(hdrObj, append(append([][]byte(nil), packets...), op[len(op)-1])))
			add("x.append.all", joinMsg(hdrObj, append(append([][]byte(nil), packets...), op...)))
		}
	}
	return out
}

func byteMutations(g *genuineMsg, r *prng.R, flips, truncs int, exhaustive bool) []mutation {
	var out []mutation
	n := len(g.msg)
	if exhaustive {
		for pos := 0; pos < n; pos++ {
			c := append([]byte(nil), g.msg...)
			c[pos] ^= 1 << uint(r.Intn(8))
			out = append(out, mutation{"b.flip", c})
		}
		for k := 0; k < n; k++ {
			out = append(out, mutation{"b.trunc", g.msg[:k]})
		}
		return out
	}
	for i := 0; i < flips; i++ {
		c := append([]byte(nil), g.msg...)
		c[r.Intn(n)] ^= 1 << uint(r.Intn(8))
		out = append(out, mutation{"b.flip", c})
	}
	for i := 0; i < truncs; i++ {
		out = append(out, mutation{"b.trunc", g.msg[:r.Intn(n)]})
	}
	return out
}

// encForgeries: what another recipient of the same message — who knows the
// payload key — can build: re-encrypted chunks with modified plaintext, flags
// or numbering; the victim's authenticators can only be copied or guessed.
func encForgeries(f *family, g *genuineMsg, r *prng.R) []mutation {
	var out []mutation
	hdrObj, _, packets, _ := splitMsg(g.msg)
	hv, _, _ := mpParse(hdrObj)
	hh := sha512.Sum512(hv.Data)
	_ = hh
	var key [32]byte
	copy(key[:], g.payloadKey)
	nonce := func(i int) *[24]byte {
		var n [24]byte
		copy(n[:], "saltpack_ploadsb")
		binary.BigEndian.PutUint64(n[16:], uint64(i))
		return &n
	}
	for pi, praw := range packets {
		p, _, _ := mpParse(praw)
		ctIdx := len(p.Arr) - 1
		forge := func(label string, pt []byte, num int, flag *bool) {
			q := p.clone()
			q.Arr[ctIdx].Data = secretbox.Seal(nil, pt, nonce(num), &key)
			if flag != nil && q.Arr[0].K == mvBool {
				q.Arr[0].B = *flag
			}
			ps := append([][]byte(nil), packets...)
			ps[pi] = mpEncode(q)
			out = append(out, mutation{fmt.Sprintf("f%d.%s", pi, label), joinMsg(hdrObj, ps)})
			// the same forgery with the authenticator list emptied / cut before the
			// victim's position / with only the victim's entry zeroed: the attacker
			// cannot compute the victim's authenticator, but can leave it out
			authIdx := ctIdx - 1
			if q.Arr[authIdx].K == mvArr {
				for _, variant := range []string{"noauth", "cutauth", "zeroauth"} {
					q2 := q.clone()
					switch variant {
					case "noauth":
						q2.Arr[authIdx].Arr = nil
					case "cutauth":
						if g.openerPos < len(q2.Arr[authIdx].Arr) {
							q2.Arr[authIdx].Arr = q2.Arr[authIdx].Arr[:g.openerPos]
						}
					case "zeroauth":
						if g.openerPos < len(q2.Arr[authIdx].Arr) {
							q2.Arr[authIdx].Arr[g.openerPos] = mvBinOf(make([]byte, 32))
						}
					}
					ps2 := append([][]byte(nil), packets...)
					ps2[pi] = mpEncode(q2)
					out = append(out, mutation{fmt.Sprintf("f%d.%s.%s", pi, label, variant), joinMsg(hdrObj, ps2)})
				}
			}
		}
		old, ok := secretbox.Open(nil, p.Arr[ctIdx].Data, nonce(pi), &key)
		if !ok {
			continue
		}
		forge("modpt", append(append([]byte(nil), old...), 'X'), pi, nil)
		forge("emptypt", nil, pi, nil)
		forge("renumber", old, pi+1, nil)
		tr, fa := true, false
		forge("reflag.true", old, pi, &tr)
		forge("reflag.false", old, pi, &fa)
		forge("same", old, pi, nil) // re-encryption of the same plaintext is the same ciphertext: accepted
	}
	// a forged extra chunk after the (re-flagged) last one, authenticated for the attacker only
	return out
}

// scForgeries: insider forgeries for signcryption (payload key known): modified
// plaintext with reused signature, chunk renumbering, final-flag changes.
func scForgeries(f *family, g *genuineMsg, r *prng.R) []mutation {
	var out []mutation
	hdrObj, _, packets, _ := splitMsg(g.msg)
	hv, _, _ := mpParse(hdrObj)
	hh := sha512.Sum512(hv.Data)
	var key [32]byte
	copy(key[:], g.payloadKey)
	nonce := func(i int, final bool) *[24]byte {
		var n [24]byte
		copy(n[:16], hh[:16])
		n[15] &^= 1
		if final {
			n[15] |= 1
		}
		binary.BigEndian.PutUint64(n[16:], uint64(i))
		return &n
	}
	for pi, praw := range packets {
		p, _, _ := mpParse(praw)
		if len(p.Arr) < 2 || p.Arr[1].K != mvBool {
			continue
		}
		fin := p.Arr[1].B
		old, ok := secretbox.Open(nil, p.Arr[0].Data, nonce(pi, fin), &key)
		if !ok || len(old) < 64 {
			continue
		}
		forge := func(label string, att []byte, num int, final bool) {
			q := p.clone()
			q.Arr[0].Data = secretbox.Seal(nil, att, nonce(num, final), &key)
			q.Arr[1].B = final
			ps := append([][]byte(nil), packets...)
			ps[pi] = mpEncode(q)
			out = append(out, mutation{fmt.Sprintf("f%d.%s", pi, label), joinMsg(hdrObj, ps)})
		}
		forge("modpt", append(append([]byte(nil), old...), 'X'), pi, fin)
		forge("droppt", old[:64], pi, fin)
		forge("zerosig", append(make([]byte, 64), old[64:]...), pi, fin)
		forge("reflag", old, pi, !fin)
		forge("renumber", old, pi+1, fin)
		forge("same", old, pi, fin)
		forge("shortsig", old[:40], pi, fin)
		if pi+1 < len(packets) { // move this chunk to the next position (re-encrypted there)
			q := p.clone()
			q.Arr[0].Data = secretbox.Seal(nil, old, nonce(pi+1, fin), &key)
			ps := append([][]byte(nil), packets...)
			ps[pi+1] = mpEncode(q)
			out = append(out, mutation{fmt.Sprintf("f%d.transplant", pi), joinMsg(hdrObj, ps)})
		}
	}
	return out
}

// authPredicate: the authenticity predicate of C02/C04/C06 on what the
// implementation answered for a mutated input.
func authPredicate(f *family, label string, mutated []byte, goOut string) string {
	class := resClass(goOut)
	if class == "panic" {
		return "" // C15's concern; reported there
	}
	rel := resReleased(goOut)
	if len(rel) == 0 && class != "ok" {
		return ""
	}
	// an anonymous signcryption sender signs nothing: a co-recipient (who knows
	// the payload key) can re-encrypt at will, and C04 claims nothing — there is
	// no named sender the bytes are attributed to.  The insider forgeries are
	// still compared with the model; only the predicate does not apply.
	if f.mode == "sc" && !f.named && len(label) > 1 && label[0] == 'f' && label[1] >= '0' && label[1] <= '9' {
		return ""
	}
	var match *genuineMsg
	for _, g := range f.msgs {
		if bytes.HasPrefix(g.pt, rel) {
			if class != "ok" || len(rel) == len(g.pt) {
				match = g
				break
			}
		}
	}
	describe := func(what string) string {
		return fmt.Sprintf("%s: mode=%s major=%d mutation=%s released=%s outcome=%s input=%s", what, f.mode, f.major, label, keys.Hex(rel), class, keys.Hex(mutated))
	}
	if match == nil {
		if class == "ok" {
			return describe("receiver ended WITHOUT error although what it released is not one whole genuine plaintext")
		}
		return describe("receiver released bytes that are not a prefix of any genuine plaintext")
	}
	if class == "ok" && f.sender != "" {
		want := f.sender
		got := ""
		for _, t := range strings.Fields(goOut) {
			if strings.HasPrefix(t, "sender=") || strings.HasPrefix(t, "signer=") {
				got = t[strings.Index(t, "=")+1:]
			}
		}
		if got != want {
			return describe(fmt.Sprintf("receiver succeeded with attribution %s instead of %s", got, want))
		}
	}
	return ""
}

func mutationCases(ctx *Ctx, stream string, f *family, muts []mutation, emit func(Case)) {
	for mi, m := range muts {
		m := m
		line := f.openLine(m.msg)
		out := goExec(line)
		// the same bytes through another entry-point form (all-at-once, armored
		// all-at-once, armored stream): same verdict, nothing released on error
		// by the all-at-once forms
		if strings.HasPrefix(line, "enc.open ") || strings.HasPrefix(line, "sc.open ") || strings.HasPrefix(line, "sig.verify ") {
			ep := []string{"all", "arm", "armstream"}[mi%3]
			l2 := line + " ep=" + ep
			o2 := goExec(l2)
			lbl2 := m.label
			emit(Case{Stream: stream + ".forms", Line: l2, GoOut: o2, Cmp: resCmp, Fallback: fallbackEP(line, ep),
				Branch: fmt.Sprintf("%s.v%d/%s/%s", f.mode, f.major, ep, resClass(o2)),
				Direct: func() string {
					if ep != "armstream" && resClass(o2) != "ok" && len(resReleased(o2)) != 0 {
						return fmt.Sprintf("an all-at-once entry point (%s) returned bytes together with an error: %s", ep, trunc(l2, 600))
					}
					return authPredicate(f, lbl2+"/"+ep, m.msg, o2)
				}})
		}
		lbl := m.label
		if i := strings.IndexAny(lbl, "0123456789"); i > 0 && (lbl[0] == 'p' || lbl[0] == 'f') {
			lbl = lbl[:1] + lbl[strings.Index(lbl, "."):]
		}
		emit(Case{Stream: stream, Line: line, GoOut: out, Cmp: resCmp, Fallback: fallbackFor(line),
			Branch: fmt.Sprintf("%s.v%d/%s/%s", f.mode, f.major, lbl, resClass(out)),
			Trivial: false,
			Direct:  func() string { return authPredicate(f, m.label, m.msg, out) },
			Sample:  map[string]interface{}{"mode": f.mode, "major": f.major, "mutation": m.label, "outcome": resClass(out), "input_len": len(m.msg)}})
	}
}
