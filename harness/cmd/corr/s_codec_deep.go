package main

// Deep and combined mutations through the RECEIVERS (repair R1, audit findings #1 and #2).
//
// The `codec.list.*` streams (ext_F.go) compare the typed decoder of the model with the package's own
// lister; the receivers' ops (`enc.open`, `sc.open`, `sig.verify`, `sig.verifydetached`) went through
// `Front`, which asked the spec-shaped reader first — and that reader accepts what go-codec refuses
// (a reserved extra element nested beyond the decoder's depth budget) and reads in another order (a wrong
// type on the left hidden by a truncation further right).  These streams send exactly such inputs through
// the receivers' request lines, so that whatever `Front` is made of is compared with the real entry points:
//
//   (a) `*.deep.extras`    reserved extra elements nested 90…110 deep (arrays, maps, mixed) at every place
//                          extras may appear: version pair, header, recipient pair, first / last packet;
//   (b) `*.deep.combined`  a wrong-typed / nil / oversized field followed by another wrong type or a truncation
//                          further right, in header and packets;
//   (c) `*.deep.trunc`     a truncation inside every field combined with a type confusion of an earlier field.
//
// Every case is an ordinary receiver request (Cmp resCmp, Fallback fallbackFor).  resCmp compares the error
// class only where a property names one, so the streams additionally carry a Direct check on the CLASS of
// decoder outcomes: the model's answer is not visible there, but the implementation's class is recorded in the
// branch histogram, and `codecDeepClassCmp` (used for these streams) also separates "clean end" from "decode error".

import (
	"fmt"
	"os"
	"strings"

	"verifharness/internal/keys"
	"verifharness/internal/prng"
)

// eofClass: the classes a receiver reports for "the input ended" (io.EOF turned into ErrUnexpectedEOF by
// getNextChunk, the raw io.EOF of VerifyDetachedReader, ErrFailedToReadHeaderBytes is a named class of its own)
func eofClass(c string) bool { return c == "unexpected-eof" || c == "eof" }

// codecDeepClassCmp = resCmp, and in addition: an input that ENDED (io.EOF / io.ErrUnexpectedEOF) and a decode
// error are different answers (audit finding #2: the read order decides which of the two a receiver reports)
func codecDeepClassCmp(a, b string) bool {
	if !resCmp(a, b) {
		return false
	}
	ca, cb := resClass(a), resClass(b)
	if ca == cb {
		return true
	}
	if eofClass(ca) != eofClass(cb) {
		return false
	}
	return true
}

func nestMixed(depth int, leaf *MV) *MV {
	v := leaf
	for i := 0; i < depth; i++ {
		if i%2 == 0 {
			v = mvArrOf(v)
		} else {
			v = mvMapOf(mvIntOf(int64(i%7)), v)
		}
	}
	return v
}

// nestMixedKey: the nesting goes through map KEYS... go-codec cannot hash container keys in the generic reader,
// but `swallow` (surplus elements) does not care
func nestKinds(kind string, depth int, leaf *MV) *MV {
	switch kind {
	case "arr":
		return nestArr(depth, leaf)
	case "map":
		return nestMap(depth, leaf)
	}
	return nestMixed(depth, leaf)
}

type deepSeed struct {
	f     *family // nil for detached
	mode  string  // enc | signcrypt | sig | det   (listing mode; takeApart)
	major int
	msg   []byte
	pt    []byte // detached: the signed message
	line  func(msg []byte) string
}

func deepSeeds(ctx *Ctx, r *prng.R, modes string, n int) (seeds []deepSeed) {
	addFam := func(f *family) {
		g := f.msgs[len(f.msgs)-1]
		seeds = append(seeds, deepSeed{f: f, mode: listMode(f), major: f.major, msg: g.msg, pt: g.pt, line: f.openLine})
	}
	if strings.Contains(modes, "e") {
		for _, f := range encFamilies(ctx, r, 2*n) {
			addFam(f)
		}
	}
	if strings.Contains(modes, "c") {
		for _, f := range scFamilies(ctx, r, n) {
			addFam(f)
		}
	}
	if strings.Contains(modes, "s") {
		for _, f := range sigFamilies(ctx, r, 2*n) {
			addFam(f)
		}
	}
	if strings.Contains(modes, "d") {
		for k := 0; k < 2*n; k++ {
			major := 1 + k%2
			m := r.Bytes(prng.Pick(r, 0, 1, 10, 40))
			line := fmt.Sprintf("sig.detached %d 0 %s %s %s", major, keys.Hex(r.Bytes(32)), keys.Hex(r.Bytes(16)), keys.Hex(m))
			if sig, ok := okBytes(goExec(line)); ok {
				mm := m
				seeds = append(seeds, deepSeed{mode: "det", major: major, msg: sig, pt: m,
					line: func(sigmsg []byte) string {
						return fmt.Sprintf("sig.verifydetached known std %s %s", keys.Hex(sigmsg), keys.Hex(mm))
					}})
			}
		}
	}
	return
}

func (s *deepSeed) emit(stream, label string, msg []byte, emit func(Case)) {
	line := s.line(msg)
	out := goExec(line)
	f := s.f
	mode, major := s.mode, s.major
	// the class of a failed HEADER decode is not modelled (`HeaderRead.undecodable` carries no reason: go-codec's raw io.EOF,
	// io.ErrUnexpectedEOF and its decode errors are all "the header does not decode"); the stricter comparison is for
	// what the packet reads report
	cmp := resCmp
	if strings.HasPrefix(label, "packet-") || strings.HasPrefix(label, "det/sig") {
		cmp = codecDeepClassCmp
	}
	base := cmp
	if os.Getenv("DEEP_DEBUG") != "" { // development: name the disagreeing cases on stderr
		cmp = func(a, b string) bool {
			ok := base(a, b)
			if !ok {
				fmt.Fprintf(os.Stderr, "DEEP %s %s.v%d %s | go: %s | model: %s\n", stream, mode, major, label, trunc(a, 80), trunc(b, 80))
			}
			return ok
		}
	}
	emit(Case{Stream: stream, Line: line, GoOut: out, Cmp: cmp, Fallback: fallbackFor(line),
		Branch: fmt.Sprintf("%s.v%d/%s/%s", mode, major, label, resClass(out)),
		Direct: func() string {
			if f != nil {
				return authPredicate(f, label, msg, out)
			}
			return ""
		},
		Sample: map[string]interface{}{"mode": mode, "major": major, "mutation": label, "outcome": resClass(out), "input_len": len(msg)}})
}

// the bad values a field is replaced by: wrong type, nil, oversized
func deepBadValues(r *prng.R) []struct {
	label string
	v     *MV
} {
	return []struct {
		label string
		v     *MV
	}{
		{"int", mvIntOf(5)}, {"nil", mvNilOf()}, {"true", mvBoolOf(true)}, {"str", mvStrOf("A")}, {"bin300", mvBinOf(r.Bytes(300))},
		{"binlie", mvRawOf(0xc6, 0x00, 0x01, 0x00, 0x00, 1, 2, 3)}, {"ints", intsOf([]byte{1, 2, 3})}, {"arr0", mvArrOf()}, {"map12", mvMapOf(mvIntOf(1), mvIntOf(2))},
		{"f64", mvRawOf(0xcb, 0x3f, 0xf8, 0, 0, 0, 0, 0, 0)}, {"ext", mvRawOf(0xd4, 5, 9)}, {"neg", mvIntOf(-3)}, {"uintmax", mvUintOf(^uint64(0))},
		{"c1", mvRawOf(0xc1)}, {"arrarr", mvArrOf(mvArrOf(mvIntOf(2), mvIntOf(0)))},
	}
}

// offsets of the elements of an array's canonical encoding
func elemOffsets(a *MV) (offs []int, total int) {
	hdr := len(lenHdr(len(a.Arr), 0x90, 15, 0, 0xdc, 0xdd, a.Wide))
	at := hdr
	for _, e := range a.Arr {
		offs = append(offs, at)
		at += len(mpEncode(e))
	}
	return offs, at
}

// a cut strictly inside element j of the array (at least its first byte is gone or present, never the whole element)
func cutInside(a *MV, j int, r *prng.R, how int) int {
	offs, total := elemOffsets(a)
	end := total
	if j+1 < len(offs) {
		end = offs[j+1]
	}
	n := end - offs[j]
	switch {
	case n <= 1 || how == 0:
		return offs[j] // the field is missing altogether
	case how == 1:
		return offs[j] + 1 // just the descriptor
	case how == 2:
		return end - 1 // all but the last byte
	}
	return offs[j] + 1 + r.Intn(n-1)
}

// oversized, truncated byte string: a bin32 announcing 4096 bytes with two bytes present (audit finding #2)
var truncBin32 = []byte{0xc6, 0x00, 0x00, 0x10, 0x00, 0x01, 0x02}

func genCodecDeep(modes string) func(ctx *Ctx, emit func(Case)) {
	return func(ctx *Ctx, emit func(Case)) {
		r := ctx.R.Fork()
		seeds := deepSeeds(ctx, r, modes, ctx.N(1, 3))
		bad := deepBadValues(r)
		kinds := []string{"arr", "map", "mixed"}
		leaves := []*MV{mvIntOf(0), mvArrOf(), mvMapOf(), mvNilOf(), mvRawOf(0xc7, 0, 5, 0x01)}
		depths := []int{90, 95, 96, 97, 98, 99, 100, 101, 110}
		if !ctx.Quick {
			depths = nil
			for d := 90; d <= 110; d++ {
				depths = append(depths, d)
			}
		}
		for si := range seeds {
			s := &seeds[si]
			p := takeApart(s.mode, s.major, s.msg)
			if p == nil {
				continue
			}
			var sigObj []byte // detached: the signature object behind the header
			if s.mode == "det" {
				_, _, pk, _ := splitMsg(s.msg)
				if len(pk) > 0 {
					sigObj = pk[0]
				}
			}
			build := func(inner *MV, packets []*MV) []byte { return p.build(inner, nil, packets) }
			var pis []int // first and last packet
			if s.mode != "det" && len(p.packets) > 0 {
				pis = append(pis, 0)
				if len(p.packets) > 1 {
					pis = append(pis, len(p.packets)-1)
				}
			}
			// ---------------- (a) deep reserved extras ----------------------------------------------------
			ci := 0
			for _, d := range depths {
				ks := kinds
				if ctx.Quick {
					ks = []string{kinds[(ci+si)%3]}
					ci++
				}
				for _, kind := range ks {
					leaf := leaves[r.Intn(len(leaves))]
					deep := nestKinds(kind, d, leaf)
					lbl := fmt.Sprintf("%s%d", kind, d)
					h := p.inner.clone()
					h.Arr = append(h.Arr, deep)
					s.emit("deep.extras", "header/"+lbl, build(h, p.packets), emit)
					if p.inner.Arr[1].K == mvArr {
						h2 := p.inner.clone()
						h2.Arr[1].Arr = append(h2.Arr[1].Arr, deep)
						s.emit("deep.extras", "version/"+lbl, build(h2, p.packets), emit)
					}
					if len(p.inner.Arr) >= 6 && p.inner.Arr[5].K == mvArr && len(p.inner.Arr[5].Arr) > 0 {
						// the recipient pair of the opener is not known here: every pair gets the extra (quick: one at random too)
						h3 := p.inner.clone()
						for _, e := range h3.Arr[5].Arr {
							if e.K == mvArr {
								e.Arr = append(e.Arr, deep)
							}
						}
						s.emit("deep.extras", "recipient-all/"+lbl, build(h3, p.packets), emit)
						h4 := p.inner.clone()
						k := r.Intn(len(h4.Arr[5].Arr))
						if h4.Arr[5].Arr[k].K == mvArr {
							h4.Arr[5].Arr[k].Arr = append(h4.Arr[5].Arr[k].Arr, deep)
							s.emit("deep.extras", "recipient-one/"+lbl, build(h4, p.packets), emit)
						}
					}
					for _, pi := range pis {
						if p.packets[pi].K != mvArr {
							continue
						}
						q := append([]*MV(nil), p.packets...)
						c := q[pi].clone()
						c.Arr = append(c.Arr, deep)
						q[pi] = c
						where := "packet-first/"
						if pi == len(p.packets)-1 {
							where = "packet-last/"
						}
						s.emit("deep.extras", where+lbl, build(p.inner, q), emit)
						if !ctx.Quick || d%3 == 0 {
							// two extras, the deep one second; and an extra in the authenticator list's place after it
							c2 := q[pi].clone()
							c2.Arr[len(c2.Arr)-1] = mvIntOf(7)
							c2.Arr = append(c2.Arr, deep)
							q2 := append([]*MV(nil), p.packets...)
							q2[pi] = c2
							s.emit("deep.extras", where+"second/"+lbl, build(p.inner, q2), emit)
						}
					}
				}
			}
			// ---------------- (b), (c) combined mutations -------------------------------------------------
			// one structure (header array / a packet array): field i gets a bad value; field j > i another bad value, or the
			// encoding is cut inside field j.  `wrap` puts the (possibly cut) encoding of the structure back into a message.
			combine := func(where string, a *MV, wrap func(enc []byte, cut bool) [][]byte) {
				n := len(a.Arr)
				for i := 0; i < n; i++ {
					for j := i + 1; j < n; j++ {
						reps := ctx.N(1, 4)
						for rep := 0; rep < reps; rep++ {
							bi := bad[r.Intn(len(bad))]
							bj := bad[r.Intn(len(bad))]
							c := a.clone()
							c.Arr[i] = bi.v
							// (b) another wrong type further right
							c2 := c.clone()
							c2.Arr[j] = bj.v
							for _, m := range wrap(mpEncode(c2), false) {
								s.emit("deep.combined", fmt.Sprintf("%s/f%d=%s,f%d=%s", where, i, bi.label, j, bj.label), m, emit)
							}
							// (c) a truncation inside field j (the original field, and an oversized truncated byte string in its place)
							how := (i + j + rep) % 4
							enc := mpEncode(c)
							cut := cutInside(c, j, r, how)
							for _, m := range wrap(enc[:cut], true) {
								s.emit("deep.trunc", fmt.Sprintf("%s/f%d=%s,cut-f%d.%d", where, i, bi.label, j, how), m, emit)
							}
							offs, _ := elemOffsets(c)
							enc2 := append(append([]byte(nil), enc[:offs[j]]...), truncBin32...)
							for _, m := range wrap(enc2, true) {
								s.emit("deep.trunc", fmt.Sprintf("%s/f%d=%s,f%d=bin32short", where, i, bi.label, j), m, emit)
							}
						}
					}
				}
				// truncation inside EVERY field without an earlier confusion (base line), and with the first field confused
				for j := 0; j < n; j++ {
					for how := 0; how < ctx.N(2, 4); how++ {
						enc := mpEncode(a)
						cut := cutInside(a, j, r, how+1)
						for _, m := range wrap(enc[:cut], true) {
							s.emit("deep.trunc", fmt.Sprintf("%s/cut-f%d.%d", where, j, how+1), m, emit)
						}
					}
				}
			}
			tailBytes := func(packets []*MV) []byte {
				var out []byte
				for _, q := range packets {
					out = append(out, mpEncode(q)...)
				}
				return out // detached: the signature object is the one "packet"
			}
			// header: the cut header bytes stay a well-formed bin object (the header PACKET is complete, its content is not),
			// and, second form, the message ends where the header content ends (the outer bin is cut too)
			combine("header", p.inner, func(enc []byte, cut bool) [][]byte {
				full := append(mpEncode(mvBinOf(enc)), tailBytes(p.packets)...)
				if !cut {
					return [][]byte{full}
				}
				whole := mpEncode(mvBinOf(mpEncode(p.inner)))
				hl := len(whole) - len(mpEncode(p.inner)) // the bin header announcing the FULL length
				short := append(append([]byte(nil), whole[:hl]...), enc...)
				return [][]byte{full, short}
			})
			// the version pair inside the header
			if p.inner.Arr[1].K == mvArr && len(p.inner.Arr[1].Arr) == 2 {
				v := p.inner.Arr[1]
				for _, bv := range bad[:6] {
					h := p.inner.clone()
					h.Arr[1] = mvArrOf(bv.v, v.Arr[1])
					h.Arr[2] = bad[r.Intn(len(bad))].v
					s.emit("deep.combined", "header/major="+bv.label+",type", build(h, p.packets), emit)
					h2 := p.inner.clone()
					h2.Arr[1] = mvArrOf(bv.v, v.Arr[1])
					enc := mpEncode(h2)
					cut := cutInside(h2, 2+r.Intn(len(h2.Arr)-2), r, 3)
					s.emit("deep.trunc", "header/major="+bv.label+",cut", append(mpEncode(mvBinOf(enc[:cut])), tailBytes(p.packets)...), emit)
				}
			}
			// packets: first and last; the message ends inside the cut packet
			if s.mode != "det" {
				for _, pi := range pis {
					if p.packets[pi].K != mvArr {
						continue
					}
					pi := pi
					where := "packet-first"
					if pi == len(p.packets)-1 {
						where = "packet-last"
					}
					if pi == 0 && len(p.packets) == 1 {
						where = "packet-only"
					}
					combine(where, p.packets[pi], func(enc []byte, cut bool) [][]byte {
						pre := mpEncode(mvBinOf(mpEncode(p.inner)))
						for _, q := range p.packets[:pi] {
							pre = append(pre, mpEncode(q)...)
						}
						m := append(pre, enc...)
						if !cut {
							for _, q := range p.packets[pi+1:] {
								m = append(m, mpEncode(q)...)
							}
						}
						return [][]byte{m}
					})
				}
			} else if len(sigObj) > 0 {
				// detached: header confusion + the signature object cut / of a wrong type / missing
				for _, bv := range bad {
					h := p.inner.clone()
					h.Arr[3+r.Intn(len(h.Arr)-3)] = bv.v
					hb := mpEncode(mvBinOf(mpEncode(h)))
					s.emit("deep.combined", "det/f="+bv.label+",sig=int", append(append([]byte(nil), hb...), 0x05), emit)
					s.emit("deep.trunc", "det/f="+bv.label+",sig-cut", append(append([]byte(nil), hb...), sigObj[:1+r.Intn(len(sigObj)-1)]...), emit)
					s.emit("deep.trunc", "det/f="+bv.label+",sig-missing", hb, emit)
				}
				good := mpEncode(mvBinOf(mpEncode(p.inner)))
				s.emit("deep.trunc", "det/sig-missing", good, emit)
				s.emit("deep.trunc", "det/sig-cut", append(append([]byte(nil), good...), sigObj[:len(sigObj)/2]...), emit)
				s.emit("deep.trunc", "det/sig-bin32short", append(append([]byte(nil), good...), truncBin32...), emit)
				for _, bv := range bad {
					s.emit("deep.combined", "det/sig="+bv.label, append(append([]byte(nil), good...), mpEncode(bv.v)...), emit)
				}
			}
		}
	}
}

func init() {
	regExtra("C02", genCodecDeep("e"))
	regExtra("C04", genCodecDeep("c"))
	regExtra("C06", genCodecDeep("sd"))
	regExtra("C07", genCodecDeep("d"))
	regExtra("C09", genCodecDeep("ecsd"))
	regExtra("C15", genCodecDeep("ecsd"))
	// the streams alone (development): corr -prop XR
	register("XR", &propDef{streams: genCodecDeep("ecsd"), level: "correspondence"})
}
