package main

import (
	"bytes"
	"fmt"
	"strconv"
	"strings"

	"github.com/keybase/saltpack"
	"verifharness/internal/keys"
	"verifharness/internal/prng"
	"verifharness/internal/script"
)

func armorCheckers(typ saltpack.MessageType) (saltpack.HeaderChecker, saltpack.FrameChecker) {
	hc := func(h string) (string, error) { return saltpack.VerifParseFrame(h, typ, true) }
	fc := func(h, f string) (string, error) { return saltpack.CheckArmor62(h, f, typ) }
	return hc, fc
}

func goExecMore(t []string) (string, bool) {
	switch t[0] {
	case "armor.seal":
		s, err := saltpack.Armor62Seal(unhex(t[3]), saltpack.MessageType(atoi(t[1])), string(unhex(t[2])))
		if err != nil {
			return "err " + script.Class(err), true
		}
		return "ok " + keys.Hex([]byte(s)), true
	case "armor.open":
		text := string(unhex(t[2]))
		var body []byte
		var brand, header, footer string
		var err error
		if t[1] == "none" {
			body, header, footer, err = saltpack.Armor62Open(text)
		} else {
			hc, fc := armorCheckers(saltpack.MessageType(atoi(t[1])))
			body, brand, header, footer, err = saltpack.Armor62OpenWithValidation(text, hc, fc)
		}
		if err != nil {
			return "err " + script.Class(err), true
		}
		return fmt.Sprintf("ok payload=%s brand=%s header=%s footer=%s", keys.Hex(body), keys.Hex([]byte(brand)), keys.Hex([]byte(header)), keys.Hex([]byte(footer))), true
	case "armor.frame":
		typ := saltpack.MessageType(atoi(t[2]))
		if t[1] == "h" {
			return "ok " + keys.Hex([]byte(saltpack.MakeArmorHeader(typ, string(unhex(t[3]))))), true
		}
		return "ok " + keys.Hex([]byte(saltpack.MakeArmorFooter(typ, string(unhex(t[3]))))), true
	case "armor.parse":
		b, err := saltpack.VerifParseFrame(string(unhex(t[3])), saltpack.MessageType(atoi(t[1])), t[2] == "h")
		if err != nil {
			return "err " + script.Class(err), true
		}
		return "ok " + keys.Hex([]byte(b)), true
	case "armor.check":
		b, err := saltpack.CheckArmor62(string(unhex(t[2])), string(unhex(t[3])), saltpack.MessageType(atoi(t[1])))
		if err != nil {
			return "err " + script.Class(err), true
		}
		return "ok " + keys.Hex([]byte(b)), true
	}
	return goExecMore2(t)
}

// errCmp: ok answers exact, errors compared as "err" only (which of several
// applicable errors comes first is not part of any property)
func errCmp(a, b string) bool {
	if strings.HasPrefix(a, "err") && strings.HasPrefix(b, "err") {
		return true
	}
	return a == b
}

var reflowChars = []byte{' ', '\t', '\r', '\n', '>'}

func randRun(r *prng.R, max int) []byte {
	n := 1 + r.Intn(max)
	out := make([]byte, n)
	for i := range out {
		out[i] = reflowChars[r.Intn(len(reflowChars))]
	}
	return out
}

// reflow inserts runs of space/tab/CR/LF/'>' between payload characters, between
// frame words, before the header and after the footer.
func reflow(r *prng.R, text string, density int) string {
	var out []byte
	out = append(out, randRun(r, 3)...)
	for i := 0; i < len(text); i++ {
		c := text[i]
		switch {
		case c == ' ' || c == '\n':
			out = append(out, randRun(r, 4)...)
		case c == '.':
			if r.Intn(2) == 0 {
				out = append(out, randRun(r, 2)...)
			}
			out = append(out, c)
		default:
			out = append(out, c)
			// inside a word of the payload (not inside frame words): frames are
			// the parts before the first and after the second period
			if r.Intn(density) == 0 {
				out = append(out, 0) // placeholder, replaced below for payload only
			}
		}
	}
	// replace placeholders: only those between the first and second period
	var res []byte
	periods := 0
	for _, c := range out {
		if c == '.' {
			periods++
		}
		if c == 0 {
			if periods == 1 {
				res = append(res, randRun(r, 3)...)
			}
			continue
		}
		res = append(res, c)
	}
	res = append(res, randRun(r, 3)...)
	return string(res)
}

func genArmor(ctx *Ctx, emit func(Case)) {
	r := ctx.R.Fork()
	types := []saltpack.MessageType{saltpack.MessageTypeEncryption, saltpack.MessageTypeAttachedSignature, saltpack.MessageTypeDetachedSignature}
	brands := []string{"", "A", "KEYBASE", "x9Z", strings.Repeat("b", 128), strings.Repeat("Q7", 30)}
	// --- seal: every residue of the 32-byte block, the 15-char word, the 200-word line
	var lens []int
	for n := 0; n <= ctx.N(100, 700); n++ {
		lens = append(lens, n)
	}
	// 200 words of 15 chars = 3000 chars ~ 2232 bytes; go a bit beyond two lines
	for _, n := range []int{2200, 2220, 2231, 2232, 2233, 2240, 4464, 4465, 5000} {
		lens = append(lens, n)
	}
	if !ctx.Quick {
		for n := 2100; n <= 2300; n++ {
			lens = append(lens, n)
		}
		lens = append(lens, 10000, 65536, 100000)
	}
	for k, n := range lens {
		typ := types[k%3]
		brand := brands[(k/3)%len(brands)]
		payload := r.Bytes(n)
		line := fmt.Sprintf("armor.seal %d %s %s", int(typ), keys.Hex([]byte(brand)), keys.Hex(payload))
		out := goExec(line)
		emit(Case{Stream: "armor.seal", Line: line, GoOut: out, Branch: fmt.Sprintf("len%%32=%d/words%%200", n%32),
			Sample: map[string]interface{}{"op": "Armor62Seal", "type": int(typ), "brand_len": len(brand), "payload_len": n},
			Direct: func() string { return armorShapePredicate(payload, typ, brand) }})
		text, ok := okBytes(out)
		if !ok {
			continue
		}
		// open as is, with and without validation, and re-flowed
		for v := 0; v < 3; v++ {
			t := string(text)
			what := "asis"
			if v > 0 {
				t = reflow(r, t, prng.Pick(r, 2, 5, 20))
				what = "reflow"
			}
			for _, expect := range []string{"none", strconv.Itoa(int(typ))} {
				expect := expect
				l := fmt.Sprintf("armor.open %s %s", expect, keys.Hex([]byte(t)))
				o := goExec(l)
				t2 := t
				emit(Case{Stream: "armor.open.genuine", Line: l, GoOut: o, Cmp: errCmp, Branch: what + "/" + expect + "/" + strings.Fields(o)[0],
					Direct: func() string {
						want := fmt.Sprintf("payload=%s ", keys.Hex(payload))
						if !strings.HasPrefix(o, "ok "+want) {
							return fmt.Sprintf("dearmoring a (%s) armored message does not return the payload: type=%d brand=%q payload_len=%d answer=%s text=%q", what, int(typ), brand, n, trunc(o, 120), trunc(t2, 300))
						}
						if expect != "none" && !strings.Contains(o, " brand="+keys.Hex([]byte(brand))+" ") {
							return fmt.Sprintf("dearmoring returns the wrong brand: want %q answer=%s", brand, trunc(o, 200))
						}
						return ""
					}})
			}
			// the wrong expected type must be refused
			wrong := types[(k+1)%3]
			l := fmt.Sprintf("armor.open %d %s", int(wrong), keys.Hex([]byte(t)))
			o := goExec(l)
			emit(Case{Stream: "armor.open.wrongtype", Line: l, GoOut: o, Cmp: errCmp, Branch: strings.Fields(o)[0],
				Direct: func() string {
					if strings.HasPrefix(o, "ok") {
						return fmt.Sprintf("an armored message of type %d is accepted where type %d is expected: %q", int(typ), int(wrong), trunc(t, 200))
					}
					return ""
				}})
			if n > 40 {
				break
			}
		}
	}
	// --- frames at the specification's 512-character limit ---------------------------
	// runs of space / tab / CR / LF / '>' between the frame words (and around
	// them) bring the raw header (text before the first period) or the raw footer
	// (text between the second and third period) to exactly L characters
	{
		pl := r.Bytes(40)
		for _, brand := range []string{"", "ACME", strings.Repeat("b", 128)} {
			gt, _ := saltpack.Armor62Seal(pl, saltpack.MessageTypeEncryption, brand)
			ps := strings.SplitN(strings.TrimRight(gt, "\n"), ".", 3)
			hdr, body, ftr := ps[0], ps[1], strings.TrimSuffix(ps[2], ".")
			pad := func(frame string, L int, where int) string {
				words := strings.Fields(frame)
				need := L - len(strings.Join(words, " "))
				if need < 0 {
					return frame
				}
				run := make([]byte, need)
				for i := range run {
					run[i] = prng.Pick(r, byte(' '), byte(' '), byte('\t'), byte('\n'), byte('\r'), byte('>'))
				}
				switch where {
				case 0: // before the first word
					return string(run) + strings.Join(words, " ")
				case 1: // after the last word
					return strings.Join(words, " ") + string(run)
				default: // between two words
					k := 1 + r.Intn(len(words)-1)
					return strings.Join(words[:k], " ") + " " + string(run) + strings.Join(words[k:], " ")
				}
			}
			for _, L := range []int{200, 300, 510, 511, 512, 513, 514, 600, 1000, 8189, 8190, 8191, 8192, 8193, 8194} { // … and around the decoder's own quota
				for where := 0; where < 3; where++ {
					for side := 0; side < 2; side++ {
						L, where, side, brand := L, where, side, brand
						h2, f2 := hdr, ftr
						if side == 0 {
							h2 = pad(hdr, L, where)
						} else {
							f2 = pad(ftr, L, where)
						}
						text := h2 + "." + body + "." + f2 + "."
						for _, expect := range []string{"none", "0"} {
							l := fmt.Sprintf("armor.open %s %s", expect, keys.Hex([]byte(text)))
							o := goExec(l)
							emit(Case{Stream: "armor.open.framelimit", Line: l, GoOut: o, Cmp: errCmp,
								Branch: fmt.Sprintf("L=%d/side=%d/where=%d/%s/%s", L, side, where, expect, strings.Fields(o)[0]),
								Sample: map[string]interface{}{"op": "Armor62OpenWithValidation", "frame_len": L, "side": side, "outcome": strings.Fields(o)[0]},
								Direct: func() string {
									if L <= 512 && !strings.HasPrefix(o, "ok payload="+keys.Hex(pl)+" ") {
										return fmt.Sprintf("a frame of %d characters (within the specification's 512) is not dearmored to the payload: side=%d (0 header, 1 footer) padding-position=%d brand=%q answer=%s text=%q", L, side, where, brand, trunc(o, 120), trunc(text, 700))
									}
									// "text whose header or footer is … over-long … is rejected": with frame validation, and the
									// padding INSIDE the frame (runs at the ends are trimmed before the frame is measured)
									if L > 512 && where == 2 && expect != "none" && strings.HasPrefix(o, "ok ") {
										side := []string{"header", "footer"}[side]
										return fmt.Sprintf("a %s of %d characters (over the specification's 512-character limit) is accepted by the validating dearmorer: brand=%q text=%q", side, L, brand, trunc(text, 700))
									}
									return ""
								}})
						}
					}
				}
			}
		}
	}
	// --- malformed frames ----------------------------------------------------------
	payload := r.Bytes(50)
	good, _ := saltpack.Armor62Seal(payload, saltpack.MessageTypeEncryption, "BRAND")
	parts := strings.SplitN(good, ".", 3)
	mal := []struct{ label, text string }{
		{"footer-brand-mismatch", parts[0] + "." + parts[1] + ". END OTHER SALTPACK ENCRYPTED MESSAGE.\n"},
		{"footer-type-mismatch", parts[0] + "." + parts[1] + ". END BRAND SALTPACK SIGNED MESSAGE.\n"},
		{"footer-begin", parts[0] + "." + parts[1] + ". BEGIN BRAND SALTPACK ENCRYPTED MESSAGE.\n"},
		{"header-end", "END BRAND SALTPACK ENCRYPTED MESSAGE." + parts[1] + "." + parts[2]},
		{"header-lower", "begin BRAND SALTPACK ENCRYPTED MESSAGE." + parts[1] + "." + parts[2]},
		{"header-noformat", "BEGIN BRAND PGP ENCRYPTED MESSAGE." + parts[1] + "." + parts[2]},
		{"header-6words", "BEGIN A B SALTPACK ENCRYPTED MESSAGE." + parts[1] + "." + parts[2]},
		{"header-3words", "BEGIN ENCRYPTED MESSAGE." + parts[1] + "." + parts[2]},
		{"header-brand129", "BEGIN " + strings.Repeat("b", 129) + " SALTPACK ENCRYPTED MESSAGE." + parts[1] + ". END " + strings.Repeat("b", 129) + " SALTPACK ENCRYPTED MESSAGE.\n"},
		{"header-513", strings.Repeat(" ", 480) + "x" + "BEGIN BRAND SALTPACK ENCRYPTED MESSAGE." + parts[1] + "." + parts[2]},
		{"header-long-space-ok", strings.Repeat(" ", 600) + "BEGIN BRAND SALTPACK ENCRYPTED MESSAGE." + parts[1] + "." + parts[2]},
		{"header-8191", strings.Repeat(" ", 8191-37) + "BEGIN BRAND SALTPACK ENCRYPTED MESSAGE." + parts[1] + "." + parts[2]},
		{"header-8192", strings.Repeat(" ", 8192-37) + "BEGIN BRAND SALTPACK ENCRYPTED MESSAGE." + parts[1] + "." + parts[2]},
		{"header-9000", strings.Repeat(" ", 9000) + "BEGIN BRAND SALTPACK ENCRYPTED MESSAGE." + parts[1] + "." + parts[2]},
		{"footer-8192", parts[0] + "." + parts[1] + "." + strings.Repeat(" ", 8192-35) + "END BRAND SALTPACK ENCRYPTED MESSAGE.\n"},
		{"header-bang", "BEGIN BR!ND SALTPACK ENCRYPTED MESSAGE." + parts[1] + "." + parts[2]},
		{"no-footer-period", parts[0] + "." + parts[1] + ". END BRAND SALTPACK ENCRYPTED MESSAGE"},
		{"no-footer", parts[0] + "." + parts[1] + "."},
		{"no-body-end", parts[0] + "." + parts[1]},
		{"only-header", parts[0] + "."},
		{"empty", ""},
		{"trailing-text", good + "thanks"},
		{"trailing-period", good + "."},
		{"trailing-bang", good + "!"},
		{"trailing-spaces", good + "  \n\n > "},
		{"body-bang", parts[0] + "." + parts[1][:10] + "!" + parts[1][10:] + "." + parts[2]},
		{"body-short", parts[0] + "." + parts[1][:len(parts[1])-2] + "." + parts[2]},
		{"body-extra", parts[0] + "." + parts[1] + "0." + parts[2]},
		{"body-empty", parts[0] + ".." + parts[2]},
		{"body-spaces", parts[0] + ".   ." + parts[2]},
	}
	for _, m := range mal {
		for _, expect := range []string{"none", "0"} {
			l := fmt.Sprintf("armor.open %s %s", expect, keys.Hex([]byte(m.text)))
			o := goExec(l)
			emit(Case{Stream: "armor.open.malformed", Line: l, GoOut: o, Cmp: errCmp, Branch: m.label + "/" + expect + "/" + strings.Fields(o)[0],
				Sample: map[string]interface{}{"op": "Armor62OpenWithValidation", "case": m.label, "expect": expect, "outcome": strings.Fields(o)[0]}})
		}
	}
	// --- exhaustive small strings over {'.', ' ', '0', 'z', '!', '>'} ----------------
	al := []byte{'.', ' ', '0', 'z', '!', '>'}
	maxLen := ctx.N(5, 7)
	var rec func(cur []byte)
	rec = func(cur []byte) {
		for _, expect := range []string{"none", "0"} {
			l := fmt.Sprintf("armor.open %s %s", expect, keys.Hex(cur))
			o := goExec(l)
			emit(Case{Stream: "armor.open.exhaustive", Line: l, GoOut: o, Cmp: errCmp, Branch: fmt.Sprintf("len=%d/%s/%s", len(cur), expect, strings.Fields(o)[0]),
				Direct: func() string {
					if expect != "none" && strings.HasPrefix(o, "ok") {
						return fmt.Sprintf("a string without a valid frame is accepted under validation: %q", cur)
					}
					return ""
				}})
		}
		if len(cur) == maxLen {
			return
		}
		for _, c := range al {
			rec(append(append([]byte(nil), cur...), c))
		}
	}
	rec(nil)
	// --- frames --------------------------------------------------------------------
	for _, typ := range []int{0, 1, 2, 3, 4, -1} {
		for _, b := range brands {
			for _, w := range []string{"h", "f"} {
				l := fmt.Sprintf("armor.frame %s %d %s", w, typ, keys.Hex([]byte(b)))
				emit(Case{Stream: "armor.frame", Line: l, GoOut: goExec(l), Branch: fmt.Sprintf("typ=%d", typ)})
			}
		}
	}
	frameTexts := []string{"BEGIN SALTPACK ENCRYPTED MESSAGE", "BEGIN X SALTPACK ENCRYPTED MESSAGE", " BEGIN\n>X \tSALTPACK  ENCRYPTED\rMESSAGE ",
		"END SALTPACK SIGNED MESSAGE", "BEGIN SALTPACK DETACHED SIGNATURE", "BEGIN  SALTPACK ENCRYPTED MESSAGE", "", " ", "BEGIN", "BEGIN SALTPACK ENCRYPTED MESSAGE X",
		"BEGIN " + strings.Repeat("a", 128) + " SALTPACK ENCRYPTED MESSAGE", "BEGIN " + strings.Repeat("a", 129) + " SALTPACK ENCRYPTED MESSAGE",
		strings.Repeat(">", 481) + "BEGIN SALTPACK ENCRYPTED MESSAGE", strings.Repeat(">", 480) + "BEGIN SALTPACK ENCRYPTED MESSAGE", "\vBEGIN SALTPACK ENCRYPTED MESSAGE\f"}
	for _, ft := range frameTexts {
		for _, typ := range []int{0, 1, 2, 3} {
			for _, w := range []string{"h", "f"} {
				l := fmt.Sprintf("armor.parse %d %s %s", typ, w, keys.Hex([]byte(ft)))
				o := goExec(l)
				emit(Case{Stream: "armor.parse", Line: l, GoOut: o, Cmp: errCmp, Branch: strings.Fields(o)[0]})
			}
		}
	}
	// --- Unicode white space at the ends (strings.TrimSpace strips it: U+0085, U+00A0,
	// U+1680, U+2000..200A, U+2028/9, U+202F, U+205F, U+3000), near misses (U+200B,
	// U+180E are not white space), truncated and stray UTF-8
	for k := 0; k < ctx.N(120, 1500); k++ {
		base := prng.Pick(r, "BEGIN KB SALTPACK ENCRYPTED MESSAGE", "END KB SALTPACK ENCRYPTED MESSAGE", "BEGIN SALTPACK SIGNED MESSAGE", "BEGIN SALTPACK DETACHED SIGNATURE", "BEGIN", "")
		ft := unicodeEnds(r) + base + unicodeEnds(r)
		if r.Intn(6) == 0 { // in the middle: never trimmed
			ft = "BEGIN" + unicodeEnds(r) + " SALTPACK ENCRYPTED MESSAGE"
		}
		l := fmt.Sprintf("armor.parse %d %s %s", r.Intn(3), prng.Pick(r, "h", "f"), keys.Hex([]byte(ft)))
		o := goExec(l)
		emit(Case{Stream: "armor.parse.unicode", Line: l, GoOut: o, Cmp: errCmp, Branch: strings.Fields(o)[0]})
		if k%3 == 0 {
			h := unicodeEnds(r) + "BEGIN KB SALTPACK ENCRYPTED MESSAGE" + unicodeEnds(r)
			f := unicodeEnds(r) + "END KB SALTPACK ENCRYPTED MESSAGE" + unicodeEnds(r)
			l := fmt.Sprintf("armor.check 0 %s %s", keys.Hex([]byte(h)), keys.Hex([]byte(f)))
			o := goExec(l)
			emit(Case{Stream: "armor.check.unicode", Line: l, GoOut: o, Cmp: errCmp, Branch: strings.Fields(o)[0]})
		}
	}
	for k := 0; k < ctx.N(100, 1500); k++ { // random frame-ish strings
		words := []string{"BEGIN", "END", "SALTPACK", "ENCRYPTED", "MESSAGE", "SIGNED", "DETACHED", "SIGNATURE", "X", "b7", "", " ", ">", "\n", "PGP"}
		var sb strings.Builder
		for i := 0; i < 2+r.Intn(6); i++ {
			sb.WriteString(words[r.Intn(len(words))])
			sb.WriteString(prng.Pick(r, " ", " ", "  ", "\n", ">", " \t"))
		}
		l := fmt.Sprintf("armor.parse %d %s %s", r.Intn(3), prng.Pick(r, "h", "f"), keys.Hex([]byte(sb.String())))
		o := goExec(l)
		emit(Case{Stream: "armor.parse.random", Line: l, GoOut: o, Cmp: errCmp, Branch: strings.Fields(o)[0]})
	}
}

// armorShapePredicate: C11's shape statement, evaluated on Armor62Seal's output.
func armorShapePredicate(payload []byte, typ saltpack.MessageType, brand string) string {
	s, err := saltpack.Armor62Seal(payload, typ, brand)
	if err != nil {
		return fmt.Sprintf("armored output is not well-formed (%s): type=%d brand=%q payload=%s", err.Error(), int(typ), brand, keys.Hex(payload))
	}
	return armorShapeOfText(s, payload, typ, brand)
}

// armorShapeOfText: the frame / word / line shape the property demands of an armored text (however it was produced)
func armorShapeOfText(s string, payload []byte, typ saltpack.MessageType, brand string) string {
	fail := func(w string) string {
		return fmt.Sprintf("armored output is not well-formed (%s): type=%d brand=%q payload=%s", w, int(typ), brand, trunc(keys.Hex(payload), 400))
	}
	ts := map[saltpack.MessageType]string{0: "ENCRYPTED MESSAGE", 1: "SIGNED MESSAGE", 2: "DETACHED SIGNATURE"}[typ]
	b := ""
	if brand != "" {
		b = brand + " "
	}
	pre := "BEGIN " + b + "SALTPACK " + ts + ". "
	suf := ". END " + b + "SALTPACK " + ts + ".\n"
	if !strings.HasPrefix(s, pre) || !strings.HasSuffix(s, suf) || len(s) < len(pre)+len(suf) {
		return fail("frame")
	}
	body := s[len(pre) : len(s)-len(suf)]
	lines := strings.Split(body, "\n")
	var all []byte
	for _, ln := range lines {
		words := strings.Split(ln, " ")
		if len(words) > 200 {
			return fail("more than 200 words on a line")
		}
		for wi, w := range words {
			if len(w) > 15 {
				return fail("word longer than 15")
			}
			if len(w) == 0 && !(wi == len(words)-1) && !(len(body) == 0) {
				return fail("empty word")
			}
			for i := 0; i < len(w); i++ {
				if !strings.ContainsRune(alpha62, rune(w[i])) {
					return fail("non-base62 character")
				}
			}
			all = append(all, w...)
		}
	}
	_ = bytes.Equal
	return ""
}

// unicodeEnds: a run of Unicode white space, near misses and broken UTF-8
func unicodeEnds(r *prng.R) string {
	pieces := []string{"", "", " ", "\t", "\u0085", "\u00a0", "\u1680", "\u2000", "\u2003", "\u200a", "\u2028", "\u2029", "\u202f", "\u205f", "\u3000",
		"\u200b", "\u180e", "\ufeff", "\xc2", "\xe2\x80", "\xc2\x85\xa0", "\x85", "\xa0", "\xe3\x80", "\x80\x80"}
	var sb strings.Builder
	for i := 0; i < r.Intn(4); i++ {
		sb.WriteString(pieces[r.Intn(len(pieces))])
	}
	return sb.String()
}
