package main

// C15, memory clause: "never allocates memory driven by length fields rather
// than by the bytes actually supplied".  Allocation cannot be seen in an answer
// line, and a runaway allocation kills the process; so hostile inputs whose
// MessagePack length prefixes lie are executed in a CHILD process (`corr
// -child`, address space capped), one request per line, and the child reports
// how many bytes the request made it allocate.  The answers are still compared
// with the model; the predicate is on the allocation and on the child's
// survival.

import (
	"bufio"
	"encoding/binary"
	"fmt"
	"io"
	"os"
	"os/exec"
	"runtime"
	"strconv"
	"strings"
	"syscall"

	"verifharness/internal/keys"
	"verifharness/internal/prng"
)

// childMain: the -child mode.
func childMain() {
	// 3 GiB of address space: a 2 GiB claim fails instead of thrashing the host
	lim := &syscall.Rlimit{Cur: 3 << 30, Max: 3 << 30}
	_ = syscall.Setrlimit(syscall.RLIMIT_AS, lim)
	in := bufio.NewReaderSize(os.Stdin, 1<<20)
	out := bufio.NewWriter(os.Stdout)
	var ms runtime.MemStats
	for {
		line, err := in.ReadString('\n')
		line = strings.TrimSpace(line)
		if line != "" {
			runtime.GC()
			runtime.ReadMemStats(&ms)
			before := ms.TotalAlloc
			ans := goExec(line)
			runtime.ReadMemStats(&ms)
			fmt.Fprintf(out, "%s\talloc=%d\n", ans, ms.TotalAlloc-before)
			out.Flush()
		}
		if err != nil {
			return
		}
	}
}

type memChild struct {
	cmd *exec.Cmd
	in  io.WriteCloser
	out *bufio.Reader
}

func startMemChild() (*memChild, error) {
	self, err := os.Executable()
	if err != nil {
		return nil, err
	}
	cmd := exec.Command(self, "-child")
	cmd.Env = append(os.Environ(), "GOGC=50")
	in, err := cmd.StdinPipe()
	if err != nil {
		return nil, err
	}
	outp, err := cmd.StdoutPipe()
	if err != nil {
		return nil, err
	}
	cmd.Stderr = io.Discard
	if err := cmd.Start(); err != nil {
		return nil, err
	}
	return &memChild{cmd: cmd, in: in, out: bufio.NewReaderSize(outp, 1<<20)}, nil
}

// ask returns the answer and the bytes allocated; died = the child is gone.
func (c *memChild) ask(line string) (ans string, alloc uint64, died bool) {
	if _, err := io.WriteString(c.in, line+"\n"); err != nil {
		return "", 0, true
	}
	l, err := c.out.ReadString('\n')
	if err != nil {
		return "", 0, true
	}
	l = strings.TrimRight(l, "\n")
	i := strings.LastIndex(l, "\talloc=")
	if i < 0 {
		return l, 0, false
	}
	a, _ := strconv.ParseUint(l[i+7:], 10, 64)
	return l[:i], a, false
}

func (c *memChild) close() {
	c.in.Close()
	_ = c.cmd.Wait()
}

// lyingLengths: copies of msg in which one length prefix (of the outer header
// bin, of a packet's array, of a bin/str inside a packet) claims `claim`
// elements and the input ends soon after.
func lyingLengths(msg []byte, r *prng.R) []mutation {
	var out []mutation
	claims := []uint32{0x20000000, 0x7fffffff, 0x08000000}
	put := func(tag byte, n uint32) []byte {
		b := make([]byte, 5)
		b[0] = tag
		binary.BigEndian.PutUint32(b[1:], n)
		return b
	}
	objs, _ := mpSplit(msg)
	if len(objs) == 0 {
		return nil
	}
	for _, cl := range claims {
		// (a) the very first object claims a huge bin / str / array / map
		for _, tag := range []byte{0xc6, 0xdb, 0xdd, 0xdf} {
			out = append(out, mutation{fmt.Sprintf("lie.first.%02x.%x", tag, cl), append(put(tag, cl), r.Bytes(1+r.Intn(8))...)})
		}
		// (b) genuine header, then a packet whose array / first bin lies
		hdr := objs[0]
		for _, tag := range []byte{0xc6, 0xdb, 0xdd, 0xdf} {
			out = append(out, mutation{fmt.Sprintf("lie.packet.%02x.%x", tag, cl), append(append(append([]byte(nil), hdr...), put(tag, cl)...), r.Bytes(r.Intn(6))...)})
		}
		// (c) genuine header, a 2/3-element packet whose list of authenticators /
		// payload bin lies
		for _, pre := range [][]byte{{0x93, 0xc2}, {0x92}, {0x93, 0xc3}, {0x92, 0xc4, 0x00}} {
			for _, tag := range []byte{0xc6, 0xdd} {
				b := append(append([]byte(nil), hdr...), pre...)
				b = append(b, put(tag, cl)...)
				b = append(b, 0xc4, 0x20)
				out = append(out, mutation{fmt.Sprintf("lie.inner.%x.%02x.%x", pre, tag, cl), b})
			}
		}
		// (d) after the complete message: a trailing object that lies
		if len(objs) > 1 {
			out = append(out, mutation{fmt.Sprintf("lie.trailing.%x", cl), append(append([]byte(nil), msg...), put(0xc6, cl)...)})
		}
	}
	return out
}

func genMemory(ctx *Ctx, emit func(Case)) {
	r := ctx.R.Fork()
	child, err := startMemChild()
	if err != nil {
		emit(Case{Stream: "memory.child", Line: "bad-op", GoOut: "bad-op", Direct: func() string { return "cannot start the child process for the memory clause: " + err.Error() }})
		return
	}
	defer func() {
		if child != nil {
			child.close()
		}
	}()
	type target struct {
		stream string
		f      *family
	}
	var ts []target
	fe, secs := buildEncFamily(r, encFamilyCfg{major: 2, nRecips: 2, openerPos: 1, hidden: []bool{false, true}, bs: 16, ptLens: []int{40}})
	fe.openLine = func(msg []byte) string {
		return fmt.Sprintf("enc.open known %s std std std std %s", keys.Hex(secs[1]), keys.Hex(msg))
	}
	ts = append(ts, target{"memory.enc", fe})
	fe1, secs1 := buildEncFamily(r, encFamilyCfg{major: 1, nRecips: 1, openerPos: 0, hidden: []bool{false}, bs: 16, ptLens: []int{20}})
	fe1.openLine = func(msg []byte) string {
		return fmt.Sprintf("enc.open known %s std std std std %s", keys.Hex(secs1[0]), keys.Hex(msg))
	}
	ts = append(ts, target{"memory.enc", fe1})
	for _, f := range scFamilies(ctx, r, 1) {
		ts = append(ts, target{"memory.sc", f})
	}
	for major := 1; major <= 2; major++ {
		fs := buildSigFamily(r, major, 0, 16, []int{30}, "")
		fs.openLine = func(msg []byte) string { return fmt.Sprintf("sig.verify known std %s", keys.Hex(msg)) }
		ts = append(ts, target{"memory.sig", fs})
		// a genuine detached signature (by the library) over "m"
		dl := fmt.Sprintf("sig.detached %d 0 %s %s %s", major, keys.Hex(r.Bytes(32)), randSigScript(r, -1, 0).Spec(), keys.Hex([]byte("m")))
		if dsig, ok := okBytes(goExec(dl)); ok {
			fd := &family{mode: "sig", major: major, named: true, msgs: []*genuineMsg{{msg: dsig, pt: []byte("m")}}}
			fd.openLine = func(msg []byte) string {
				return fmt.Sprintf("sig.verifydetached known std %s %s", keys.Hex(msg), keys.Hex([]byte("m")))
			}
			ts = append(ts, target{"memory.det", fd})
		}
	}
	const budget = 48 << 20 // far above what any genuine small message needs (< 2 MiB), far below the claims
	for _, t := range ts {
		g := t.f.msgs[0]
		muts := append([]mutation{{"genuine", g.msg}}, lyingLengths(g.msg, r)...)
		for _, m := range muts {
			line := t.f.openLine(m.msg)
			if child == nil {
				break
			}
			ans, alloc, died := child.ask(line)
			lbl, n := m.label, len(m.msg)
			if died {
				child.close()
				child, _ = startMemChild()
				emit(Case{Stream: t.stream, Line: "bad-op", GoOut: "bad-op", Branch: "child-died",
					Direct: func() string {
						return fmt.Sprintf("the receiver process DIED (address space capped at 3 GiB) on a %d-byte hostile input whose length prefix lies (%s): %s", n, lbl, trunc(line, 1200))
					}})
				continue
			}
			emit(Case{Stream: t.stream, Line: line, GoOut: ans, Cmp: resCmp, Fallback: fallbackFor(line),
				Branch: fmt.Sprintf("%s/%s/alloc<%s", lblClass(lbl), resClass(ans), allocClass(alloc)),
				Sample: map[string]interface{}{"op": strings.Fields(line)[0], "mutation": lbl, "input_len": n, "allocated_bytes": alloc, "outcome": resClass(ans)},
				Direct: func() string {
					if f := noPanicPredicate(line, ans); f != "" {
						return f
					}
					if alloc > budget+64*uint64(n) {
						return fmt.Sprintf("a receiver allocates memory driven by a length field: a %d-byte input (%s) made it allocate %d bytes: %s", n, lbl, alloc, trunc(line, 1200))
					}
					return ""
				}})
		}
	}
}

func allocClass(a uint64) string {
	switch {
	case a < 1<<20:
		return "1MiB"
	case a < 8<<20:
		return "8MiB"
	case a < 48<<20:
		return "48MiB"
	default:
		return "huge"
	}
}

func lblClass(l string) string {
	p := strings.Split(l, ".")
	if len(p) > 2 {
		p = p[:2]
	}
	return strings.Join(p, ".")
}
