package main

// The decoded-packets route: when the model does not claim to know what
// go-codec makes of some bytes, the harness asks the package's own decoder
// (hook VerifListPackets) and hands the model the decoded packets.

import (
	"fmt"
	"io"
	"strings"

	"github.com/keybase/saltpack"
	"verifharness/internal/keys"
)

func hexOrTilde(b []byte) string {
	if len(b) == 0 {
		return "~"
	}
	return keys.Hex(b)
}

func listingTokens(mode string, msg []byte) (hdr, hf, items, tail string) {
	l := saltpack.VerifListPackets(mode, msg)
	hf, items, tail = "-", "-", "E"
	switch l.HeaderState {
	case "unreadable":
		return "U", hf, items, tail
	case "undecodable":
		return "X:" + keys.Hex(l.HeaderBytes), hf, items, tail
	}
	hdr = "H:" + keys.Hex(l.HeaderBytes)
	if l.Enc != nil {
		h := l.Enc
		kids, boxes := saltpack.VerifReceiverFields(h)
		rc := make([]string, len(kids))
		for i := range kids {
			rc[i] = hexOrTilde(kids[i]) + "/" + keys.Hex(boxes[i])
		}
		rcs := "-"
		if len(rc) > 0 {
			rcs = strings.Join(rc, "|")
		}
		hf = fmt.Sprintf("%s;%d;%d;%d;%s;%s;%s", keys.Hex([]byte(h.FormatName)), h.Version.Major, h.Version.Minor, int(h.Type),
			keys.Hex(h.Ephemeral), keys.Hex(h.SenderSecretbox), rcs)
	} else {
		h := l.Sig
		hf = fmt.Sprintf("%s;%d;%d;%d;%s;%s", keys.Hex([]byte(h.FormatName)), h.Version.Major, h.Version.Minor, int(h.Type),
			keys.Hex(h.SenderPublic), keys.Hex(h.Nonce))
	}
	var its []string
	for _, it := range l.Items {
		if !it.Decodes {
			its = append(its, "N")
			continue
		}
		f := "0"
		if it.Final {
			f = "1"
		}
		switch mode {
		case "enc":
			a := "-"
			if len(it.Auths) > 0 {
				as := make([]string, len(it.Auths))
				for i, x := range it.Auths {
					as[i] = keys.Hex(x)
				}
				a = strings.Join(as, ".")
			}
			its = append(its, f+"/"+a+"/"+keys.Hex(it.Ct))
		case "signcrypt":
			its = append(its, f+"/"+keys.Hex(it.Ct))
		default:
			its = append(its, f+"/"+keys.Hex(it.Sig)+"/"+keys.Hex(it.Chunk))
		}
	}
	if len(its) > 0 {
		items = strings.Join(its, ",")
	}
	if l.Tail != nil && l.Tail != io.EOF {
		tail = "R"
	}
	return
}

// fallbackFor builds the decoded-packets request for a byte-level request line.
func fallbackFor(line string) func() string {
	return func() string {
		t := strings.Fields(line)
		switch t[0] {
		case "enc.open":
			hdr, hf, items, tail := listingTokens("enc", unhex(t[7]))
			return fmt.Sprintf("enc.openp %s %s %s %s %s", strings.Join(t[1:7], " "), hdr, hf, items, tail)
		case "sc.open":
			hdr, hf, items, tail := listingTokens("signcrypt", unhex(t[7]))
			return fmt.Sprintf("sc.openp %s %s %s %s %s", strings.Join(t[1:7], " "), hdr, hf, items, tail)
		case "sig.verifydetached":
			sigmsg := unhex(t[3])
			hdr, hf, _, _ := listingTokens("sig", sigmsg)
			l := saltpack.VerifListPackets("det", sigmsg)
			sg := "E"
			if l.HeaderState == "ok" {
				if l.DetachedSigErr == nil {
					sg = "S:" + keys.Hex(l.DetachedSig)
				} else if l.DetachedSigErr != io.EOF {
					sg = "R"
				}
			}
			return fmt.Sprintf("sig.verifydetachedp %s %s %s %s %s %s", t[1], t[2], hdr, hf, sg, t[4])
		case "sig.verify":
			hdr, hf, items, tail := listingTokens("sig", unhex(t[3]))
			return fmt.Sprintf("sig.verifyp %s %s %s %s %s %s", t[1], t[2], hdr, hf, items, tail)
		}
		return ""
	}
}

// fallbackEP: the decoded-packets request for a request that carries an ep= token
func fallbackEP(line, ep string) func() string {
	base := fallbackFor(line)
	return func() string {
		l := base()
		if l == "" {
			return ""
		}
		return l + " ep=" + ep
	}
}
