package main

// C01 / C03 / C05: HISTORIES in one process. A sender that recycles per-message state (a pooled staging buffer, a
// cached key, a reused header) keeps working as long as every message looks like the one before it. Here each
// sequence alternates what may not leak from one message into the next — named and anonymous senders, full 1 MiB
// blocks and short ones, different recipients and keys — and every message must round trip to its own plaintext
// and its own sender (all-at-once and streaming openers). Real randomness; the predicate is the property's own.

import (
	"bytes"
	crand "crypto/rand"
	"fmt"
	"io"

	"github.com/keybase/saltpack"
	"verifharness/internal/keys"
	"verifharness/internal/prng"
	"verifharness/internal/script"
)

func genHistories(mode string) func(ctx *Ctx, emit func(Case)) {
	return func(ctx *Ctx, emit func(Case)) {
		r := ctx.R.Fork()
		creator := &keys.EphCreator{Read: func(b []byte) error { _, err := io.ReadFull(crand.Reader, b); return err }}
		rounds := ctx.N(2, 6)
		for k := 0; k < rounds; k++ {
			k := k
			seed := r.Bytes(32)
			emit(Case{Stream: "history." + mode, Line: fmt.Sprintf("noop history.%s %d", mode, k), GoOut: "bad-op", Branch: fmt.Sprintf("round%d", k),
				Sample: map[string]interface{}{"op": "a sequence of messages in one process, alternating named/anonymous senders and full/short blocks", "mode": mode},
				Direct: func() string {
					// real randomness: keep request lines that script crypto/rand.Reader (other workers) out while this runs
					script.RandMu.Lock()
					defer script.RandMu.Unlock()
					rr := prng.New(uint64(seed[0]) | uint64(seed[1])<<8 | uint64(k)<<20)
					signerA, signerB := keys.NewSigSecret(rr.Bytes(32), nil), keys.NewSigSecret(rr.Bytes(32), nil)
					boxA, boxB := keys.NewBoxSecret(rr.Bytes(32), false, nil, creator), keys.NewBoxSecret(rr.Bytes(32), false, nil, creator)
					recv := keys.NewBoxSecret(rr.Bytes(32), false, nil, creator)
					ring := &keys.Ring{LS: "std", LP: "std", IE: "std", LSig: "std", Creator: creator, Secrets: []*keys.BoxSecret{recv}}
					type step struct {
						named int // 0 anonymous, 1 sender A, 2 sender B
						n     int
					}
					seq := []step{{1, mib + 5}, {0, mib + 5}, {0, 2 * mib}, {2, mib}, {0, 17}, {1, 3}, {0, mib + 1}, {2, 2*mib + 9}, {0, 0}}
					if ctx.Quick {
						seq = []step{{1, mib + 5}, {0, mib + 5}, {2, mib}, {0, 2 * mib}, {0, 17}, {1, 3}}
					}
					for si, st := range seq {
						pt := make([]byte, st.n)
						for i := range pt {
							pt[i] = byte(i*7 + si*13 + k)
						}
						what := fmt.Sprintf("message %d of the sequence (%s, sender %d [0 = anonymous], %d bytes; the messages before it: %v)", si, mode, st.named, st.n, seq[:si])
						switch mode {
						case "sc":
							var sender saltpack.SigningSecretKey
							want := "anon"
							if st.named == 1 {
								sender, want = signerA, keys.Hex(signerA.PublicBytes())
							} else if st.named == 2 {
								sender, want = signerB, keys.Hex(signerB.PublicBytes())
							}
							var ct []byte
							var err error
							if sender == nil {
								ct, err = saltpack.SigncryptSeal(pt, ring, nil, []saltpack.BoxPublicKey{recv.GetPublicKey()}, nil)
							} else {
								ct, err = saltpack.SigncryptSeal(pt, ring, sender, []saltpack.BoxPublicKey{recv.GetPublicKey()}, nil)
							}
							if err != nil {
								return "SigncryptSeal fails: " + err.Error() + " — " + what
							}
							who, out, err := saltpack.SigncryptOpen(ct, ring, nil)
							if err != nil || !bytes.Equal(out, pt) {
								return fmt.Sprintf("signcryption round trip fails (%v, %d bytes back) for %s", err, len(out), what)
							}
							got := "anon"
							if who != nil {
								got = keys.Hex(who.ToKID())
							}
							if got != want {
								return fmt.Sprintf("signcryption names sender %s instead of %s for %s", got, want, what)
							}
						case "enc":
							var sender saltpack.BoxSecretKey
							want := ""
							if st.named == 1 {
								sender, want = boxA, keys.Hex(boxA.GetPublicKey().ToKID())
							} else if st.named == 2 {
								sender, want = boxB, keys.Hex(boxB.GetPublicKey().ToKID())
							}
							ver := saltpack.Version1()
							if si%2 == 1 {
								ver = saltpack.Version2()
							}
							ct, err := saltpack.Seal(ver, pt, sender, []saltpack.BoxPublicKey{recv.GetPublicKey()})
							if err != nil {
								return "Seal fails: " + err.Error() + " — " + what
							}
							mki, out, err := saltpack.Open(saltpack.CheckKnownMajorVersion, ct, ring)
							if err != nil || !bytes.Equal(out, pt) {
								return fmt.Sprintf("encryption round trip fails (%v, %d bytes back) for %s", err, len(out), what)
							}
							if (want == "") != mki.SenderIsAnon || (want != "" && keys.Hex(mki.SenderKey.ToKID()) != want) {
								return fmt.Sprintf("encryption names the wrong sender for %s", what)
							}
						default: // attached signatures
							sender := signerA
							if st.named == 2 {
								sender = signerB
							}
							ver := saltpack.Version1()
							if si%2 == 1 {
								ver = saltpack.Version2()
							}
							ct, err := saltpack.Sign(ver, pt, sender)
							if err != nil {
								return "Sign fails: " + err.Error() + " — " + what
							}
							who, out, err := saltpack.Verify(saltpack.CheckKnownMajorVersion, ct, ring)
							if err != nil || !bytes.Equal(out, pt) || keys.Hex(who.ToKID()) != keys.Hex(sender.PublicBytes()) {
								return fmt.Sprintf("attached signature round trip fails (%v) for %s", err, what)
							}
						}
					}
					return ""
				}})
		}
	}
}

func init() {
	regExtra("C03", genHistories("sc"))
	regExtra("C01", genHistories("enc"))
	regExtra("C05", genHistories("sig"))
}
