package main

import (
	"bytes"
	"fmt"
	"strings"

	"github.com/keybase/saltpack"
	"verifharness/internal/keys"
	"verifharness/internal/prng"
	"verifharness/internal/script"
)

func randSigScript(r *prng.R, fault, faultMode int) *script.Source {
	n := r.Bytes(16)
	src := &script.Source{}
	if r.Intn(5) == 0 {
		src.Reads = []script.Read{{Data: n[:5]}, {Data: n[5:]}}
	} else {
		src.Reads = []script.Read{{Data: n}}
	}
	if fault >= 0 && fault < len(src.Reads) {
		switch faultMode {
		case 0:
			src.Reads[fault] = script.Read{Err: true}
			src.Reads = src.Reads[:fault+1]
		case 1:
			d := src.Reads[fault].Data
			src.Reads[fault] = script.Read{Data: d[:len(d)/2], Err: true}
			src.Reads = src.Reads[:fault+1]
		default:
			src.Reads = src.Reads[:fault]
		}
	}
	return src
}

// ---------------------------------------------------------------------------
// C05: attached signatures round trip

func genSignRoundTrip(ctx *Ctx, emit func(Case)) {
	r := ctx.R.Fork()
	lens := []int{}
	for i := 0; i < ctx.N(30, 300); i++ {
		lens = append(lens, smallLen(r))
	}
	if ctx.Quick {
		lens = append(lens, mib, mib, mib+1, mib+1, mib+50, mib+50)
	} else {
		lens = append(lens, boundaryLens...)
		lens = append(lens, boundaryLens...)
		lens = append(lens, mib, mib+50, mib+50, mib+50, mib+50)
	}
	for k, n := range lens {
		v := saltpack.Version{Major: 1 + k%2, Minor: 0}
		signer := r.Bytes(32)
		pt := r.Bytes(n)
		src := randSigScript(r, -1, 0)
		line := fmt.Sprintf("sig.attached %d 0 %s %s %d %s", v.Major, keys.Hex(signer), src.Spec(), mib, keys.Hex(pt))
		out := goExec(line)
		emit(Case{Stream: "sig.sign", Line: line, GoOut: out, Branch: fmt.Sprintf("v%d/%s", v.Major, sizeClass(n)),
			Sample: map[string]interface{}{"op": "Sign", "version": v.Major, "message_len": n}})
		// the streaming form under a Write split: same bytes as all-at-once
		if how := writeSplit(r, n); how != "" {
			l2 := line + how
			o2 := goExec(l2)
			emit(Case{Stream: "sig.sign.stream", Line: l2, GoOut: o2, Branch: fmt.Sprintf("v%d/%s/%s", v.Major, sizeClass(n), howClass(how)),
				Sample: map[string]interface{}{"op": "NewSignStream", "version": v.Major, "message_len": n, "writes": strings.TrimSpace(how)},
				Direct: func() string {
					if o2 != out {
						return fmt.Sprintf("streaming and all-at-once attached signing disagree: version=%d message_len=%d writes%s: stream %s vs one-shot %s", v.Major, n, how, trunc(o2, 100), trunc(out, 100))
					}
					return ""
				}})
		}
		msg, ok := okBytes(out)
		if !ok {
			continue
		}
		for _, lsig := range []string{"std", "nil"} {
			lsig := lsig
			ol := fmt.Sprintf("sig.verify known %s %s", lsig, keys.Hex(msg))
			oo := goExec(ol)
			emit(Case{Stream: "sig.verify.genuine", Line: ol, GoOut: oo, Cmp: resCmp, Branch: fmt.Sprintf("v%d/%s/ring=%s/%s", v.Major, sizeClass(n), lsig, resClass(oo)),
				Direct: func() string {
					if lsig == "nil" {
						if resClass(oo) != "no-sender-key" || len(resReleased(oo)) != 0 {
							return fmt.Sprintf("a keyring that does not know the signer got %q instead of no-sender-key", trunc(oo, 200))
						}
						return ""
					}
					return signRoundTripPredicate(v, signer, pt, msg)
				}})
		}
	}
}

func signRoundTripPredicate(v saltpack.Version, signer, pt, msg []byte) string {
	ring := stdRing()
	fail := func(w string) string {
		return fmt.Sprintf("attached signature round trip fails (%s): version=%d message_len=%d signer_seed=%s", w, v.Major, len(pt), keys.Hex(signer))
	}
	k, out, err := saltpack.Verify(saltpack.CheckKnownMajorVersion, msg, ring)
	if err != nil || !bytes.Equal(out, pt) || !bytes.Equal(k.ToKID(), sigPub(signer)) {
		return fail(fmt.Sprintf("Verify: %v", err))
	}
	_, rd, err := saltpack.NewVerifyStream(saltpack.CheckKnownMajorVersion, &oneByteReader{b: msg}, ring)
	if err != nil {
		return fail("NewVerifyStream: " + err.Error())
	}
	o2, err := readAllCollect(rd, 5)
	if err != nil || !bytes.Equal(o2, pt) {
		return fail("streaming form disagrees")
	}
	if len(pt) <= 4096 {
		arm, err := saltpack.Armor62Seal(msg, saltpack.MessageTypeAttachedSignature, "")
		if err != nil {
			return fail("armor: " + err.Error())
		}
		_, o3, _, err := saltpack.Dearmor62Verify(saltpack.CheckKnownMajorVersion, arm, ring)
		if err != nil || !bytes.Equal(o3, pt) {
			return fail(fmt.Sprintf("armored form disagrees: %v", err))
		}
	}
	return ""
}

// ---------------------------------------------------------------------------
// C03: signcryption round trip

func genSigncryptRoundTrip(ctx *Ctx, emit func(Case)) {
	r := ctx.R.Fork()
	lens := []int{}
	for i := 0; i < ctx.N(30, 300); i++ {
		lens = append(lens, smallLen(r))
	}
	if ctx.Quick {
		lens = append(lens, mib, mib+1, mib+50)
	} else {
		lens = append(lens, boundaryLens...)
		lens = append(lens, mib+50, mib+50, mib+50)
	}
	for _, n := range lens {
		anon := r.Intn(3) == 0
		signer := r.Bytes(32)
		kinds := prng.Pick(r, "b", "s", "bs", "sb", "bbs", "sbs", "ssbb", "bbbb", "ssss")
		if n >= mib-1 {
			kinds = prng.Pick(r, "b", "s", "bs")
		}
		var boxes, syms []string
		secs := map[int][]byte{}
		idents := map[int][]byte{}
		// caller order: box keys first, then symmetric keys (as the API takes them)
		idx := 0
		for _, c := range kinds {
			if c == 'b' {
				s := r.Bytes(32)
				secs[idx] = s
				boxes = append(boxes, "b:"+keys.Hex(boxPub(s)))
				idx++
			}
		}
		nb := idx
		for _, c := range kinds {
			if c == 's' {
				s := r.Bytes(32)
				id := r.Bytes(prng.Pick(r, 32, 32, 16))
				secs[idx], idents[idx] = s, id
				syms = append(syms, "s:"+keys.Hex(s)+":"+keys.Hex(id))
				idx++
			}
		}
		total := idx
		ephRand := r.Bool()
		eph := "r"
		if !ephRand {
			eph = "g:" + keys.Hex(r.Bytes(32))
		}
		src := randScript(r, total, ephRand, -1, 0)
		snd := keys.Hex(signer)
		if anon {
			snd = "anon"
		}
		jl := func(l []string) string {
			if len(l) == 0 {
				return "-"
			}
			return strings.Join(l, ",")
		}
		pt := r.Bytes(n)
		line := fmt.Sprintf("sc.seal %s %s %s %s %s %d %s", snd, jl(boxes), jl(syms), eph, src.Spec(), mib, keys.Hex(pt))
		out := goExec(line)
		emit(Case{Stream: "sc.seal", Line: line, GoOut: out, Branch: fmt.Sprintf("%s/anon=%v/kinds=%s", sizeClass(n), anon, kinds),
			Sample: map[string]interface{}{"op": "SigncryptSeal", "plaintext_len": n, "recipients": kinds, "anonymous": anon}})
		if how := writeSplit(r, n); how != "" {
			l2 := line + how
			o2 := goExec(l2)
			emit(Case{Stream: "sc.seal.stream", Line: l2, GoOut: o2, Branch: fmt.Sprintf("%s/%s", sizeClass(n), howClass(how)),
				Direct: func() string {
					if o2 != out {
						return fmt.Sprintf("streaming and all-at-once signcryption disagree: plaintext_len=%d writes%s: stream %s vs one-shot %s", n, how, trunc(o2, 100), trunc(out, 100))
					}
					return ""
				}})
		}
		msg, ok := okBytes(out)
		if !ok {
			continue
		}
		want := keys.Hex(sigPub(signer))
		if anon {
			want = "anon"
		}
		positions := []int{}
		for i := 0; i < total; i++ {
			positions = append(positions, i)
		}
		if n >= mib-1 {
			positions = positions[:1]
		}
		for _, i := range positions {
			i := i
			var ring *keys.Ring
			resolver := "none"
			if i < nb {
				ring = stdRing(secs[i])
			} else {
				ring = stdRing()
				// resolve this identifier, and sometimes some others too (to their true keys)
				pairs := []string{keys.Hex(idents[i]) + "=" + keys.Hex(secs[i])}
				for j := nb; j < total; j++ {
					if j != i && r.Intn(3) == 0 {
						pairs = append(pairs, keys.Hex(idents[j])+"="+keys.Hex(secs[j]))
					}
				}
				resolver = "map:" + strings.Join(pairs, ";")
			}
			ol := fmt.Sprintf("sc.open %s %s %s", ring.Spec(), resolver, keys.Hex(msg))
			oo := goExec(ol)
			emit(Case{Stream: "sc.open.genuine", Line: ol, GoOut: oo, Cmp: resCmp, Branch: fmt.Sprintf("%s/pos=%d/box=%v/%s", sizeClass(n), i, i < nb, resClass(oo)),
				Direct: func() string {
					if resClass(oo) != "ok" || !bytes.Equal(resReleased(oo), pt) || !strings.Contains(oo, "sender="+want) {
						return fmt.Sprintf("signcryption round trip fails: plaintext_len=%d recipient_index=%d kinds=%s anonymous=%v outcome=%s request=%s", n, i, kinds, anon, trunc(oo, 200), trunc(line, 400))
					}
					return ""
				}})
		}
		ring := stdRing(r.Bytes(32))
		ol := fmt.Sprintf("sc.open %s map:- %s", ring.Spec(), keys.Hex(msg))
		oo := goExec(ol)
		emit(Case{Stream: "sc.open.nokey", Line: ol, GoOut: oo, Cmp: resCmp, Branch: resClass(oo),
			Direct: func() string {
				if resClass(oo) != "no-decryption-key" || len(resReleased(oo)) != 0 {
					return fmt.Sprintf("a holder of no recipient key got %q instead of no-decryption-key", trunc(oo, 200))
				}
				return ""
			}})
	}
}

func reg(id string, streams func(ctx *Ctx, emit func(Case)), assumptions, trusted []string) {
	register(id, &propDef{streams: streams, level: "proof", assumptions: assumptions, trusted: trusted})
}

var commonTrusted = []string{
	"Lean re-implementations of SHA-512/HMAC/XSalsa20-Poly1305/X25519/Ed25519 (model driver only; validated against x/crypto by 1261 vectors; no theorem uses them)",
	"go-codec (decoder leniency enters only through the decoded-packets route; theorems quantify over arbitrary decoded packets)",
	"harness/cmd/corr generators, canonicalisation and comparison",
}

func init() {
	reg("C02", func(ctx *Ctx, emit func(Case)) { genAuthStream(ctx, "enc", emit) },
		[]string{"authenticity is proved as a reduction: accepted packets bind (MAC key, header hash, packet number, final flag, ciphertext); infeasibility of MAC forgery / hash collision is cryptography, not assumed as an axiom"}, commonTrusted)
	reg("C04", func(ctx *Ctx, emit func(Case)) { genAuthStream(ctx, "sc", emit); genOwnSignerSplices(ctx, "sc", emit) },
		[]string{"as C02, with Ed25519 signatures: an accepted chunk of a named sender carries a verified signature over domain‖header hash‖nonce(final, number)‖final‖SHA-512(chunk)"}, commonTrusted)
	reg("C06", func(ctx *Ctx, emit func(Case)) { genAuthStream(ctx, "sig", emit); genOwnSignerSplices(ctx, "sig", emit) },
		[]string{"as C02 for attached signatures"}, commonTrusted)
	reg("C07", func(ctx *Ctx, emit func(Case)) { genDetached(ctx, emit) },
		[]string{"SHA-512 streaming = one-shot (hash.Hash contract)"}, commonTrusted)
	reg("C03", func(ctx *Ctx, emit func(Case)) { genSigncryptRoundTrip(ctx, emit) },
		[]string{"Prims.Lawful", "NoIdentifierCollision (explicit hypothesis)"}, commonTrusted)
	reg("C05", func(ctx *Ctx, emit func(Case)) { genSignRoundTrip(ctx, emit) }, []string{"Prims.Lawful"}, commonTrusted)
}

func init() {
	reg("C11", func(ctx *Ctx, emit func(Case)) { genArmor(ctx, emit); genArmorWriter(ctx, ctx.R.Fork(), emit) },
		[]string{"frames are measured after trimming surrounding white space (what parseFrame receives); bytes >= 0x80 never reach the frame parser (toASCII rejects them)"},
		[]string{"regexp and strings.TrimSpace/Split of the Go standard library (re-implemented as recognisers, compared on enumerated and random strings)", "harness/cmd/corr"})
}

func init() {
	reg("C12", func(ctx *Ctx, emit func(Case)) { genCalls(ctx, emit) }, []string{"key objects are observed at the interfaces the application supplies (harness key objects log every call)"}, commonTrusted)
	reg("C15", func(ctx *Ctx, emit func(Case)) { genHostile(ctx, emit); genHostileSender(ctx, emit); genMemory(ctx, emit) }, []string{"version validators admit only majors 1 and 2 (documented contract; necessity proved)", "the memory clause is decided by observation only (allocation of a child process on inputs with lying length prefixes, budget 48 MiB + 64 bytes per input byte): go-codec's allocation policy is not modelled"}, commonTrusted)
	reg("C17", func(ctx *Ctx, emit func(Case)) { genGating(ctx, emit); genSpecGate(ctx, emit) }, nil, commonTrusted)
	reg("C18", func(ctx *Ctx, emit func(Case)) { genFresh(ctx, emit) }, []string{"the randomness source itself is trusted (uniform, non-repeating)"}, commonTrusted)
}
