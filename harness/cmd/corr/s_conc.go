package main

// C20: a mixed workload of all API families run concurrently; every goroutine
// must obtain exactly the result of the solo run.  (Under `-race` in the
// thorough tier: the check rebuilds this binary with the race detector.)

import (
	"bytes"
	"fmt"
	"runtime"
	"strings"
	"sync"

	"github.com/keybase/saltpack"
	"github.com/keybase/saltpack/basic"
	"verifharness/internal/keys"
	"verifharness/internal/prng"
)

func workloadLines(ctx *Ctx, r *prng.R) []string {
	var lines []string
	for k := 0; k < ctx.N(30, 120); k++ {
		lines = append(lines, fmt.Sprintf("bx.enc %s %s", prng.Pick(r, "b62", "b58", "b62s"), keys.Hex(r.Bytes(r.Intn(100)))))
		s := []byte(encByName("b62").EncodeToString(r.Bytes(r.Intn(80))))
		lines = append(lines, fmt.Sprintf("bx.dec %s %s", prng.Pick(r, "b62", "b62s"), keys.Hex(s)))
		payload := r.Bytes(r.Intn(200))
		lines = append(lines, fmt.Sprintf("armor.seal %d %s %s", r.Intn(3), keys.Hex([]byte("KB")), keys.Hex(payload)))
		t, _ := saltpack.Armor62Seal(payload, saltpack.MessageTypeEncryption, "")
		lines = append(lines, fmt.Sprintf("armor.open %s %s", prng.Pick(r, "none", "0"), keys.Hex([]byte(reflow(r, t, 5)))))
		lines = append(lines, "cl.arm "+keys.Hex([]byte(t[:r.Intn(len(t))])))
		lines = append(lines, fmt.Sprintf("st.dec none %s %s", prng.Pick(r, "1", "32", "4096"), fragment(r, []byte(t), "random")))
	}
	for _, f := range append(append(encFamilies(ctx, r, ctx.N(2, 6)), scFamilies(ctx, r, ctx.N(2, 6))...), sigFamilies(ctx, r, ctx.N(2, 6))...) {
		for _, g := range f.msgs {
			lines = append(lines, f.openLine(g.msg))
			lines = append(lines, "cl.bin "+keys.Hex(g.msg[:23]))
		}
		ms := allMutations(ctx, r, f, false)
		for i := r.Intn(7); i < len(ms); i += 7 {
			lines = append(lines, f.openLine(ms[i].msg))
		}
	}
	return lines
}

func genConcurrent(ctx *Ctx, emit func(Case)) {
	r := ctx.R.Fork()
	lines := workloadLines(ctx, r)
	solo := make([]string, len(lines))
	for i, l := range lines {
		solo[i] = goExec(l)
	}
	// real-randomness round trips on shared keys (basic package), also concurrently
	kr := basic.NewKeyring()
	bk, _ := kr.GenerateBoxKey()
	sk, _ := kr.GenerateSigningKey()
	roundTrips := func(id int) (res string) {
		defer func() { // a corrupted shared state may make the library panic: that is a failed round trip
			if x := recover(); x != nil {
				res = fmt.Sprintf("panic: %v", x)
			}
		}()
		pt := bytes.Repeat([]byte{byte(id)}, 100+id)
		c, err := saltpack.EncryptArmor62Seal(saltpack.CurrentVersion(), pt, *bk, []saltpack.BoxPublicKey{bk.GetPublicKey()}, "")
		if err != nil {
			return "seal: " + err.Error()
		}
		_, out, _, err := saltpack.Dearmor62DecryptOpen(saltpack.CheckKnownMajorVersion, c, kr)
		if err != nil || !bytes.Equal(out, pt) {
			return fmt.Sprintf("open: %v", err)
		}
		s, err := saltpack.SignArmor62(saltpack.Version1(), pt, *sk, "")
		if err != nil {
			return "sign: " + err.Error()
		}
		_, out, _, err = saltpack.Dearmor62Verify(saltpack.CheckKnownMajorVersion, s, kr)
		if err != nil || !bytes.Equal(out, pt) {
			return fmt.Sprintf("verify: %v", err)
		}
		sc, err := saltpack.SigncryptSeal(pt, kr, *sk, []saltpack.BoxPublicKey{bk.GetPublicKey()}, nil)
		if err != nil {
			return "signcrypt: " + err.Error()
		}
		_, out, err = saltpack.SigncryptOpen(sc, kr, nil)
		if err != nil || !bytes.Equal(out, pt) {
			return fmt.Sprintf("signcrypt open: %v", err)
		}
		return ""
	}
	var mismatches []string
	var mu sync.Mutex
	for _, procs := range []int{1, 2, 4, runtime.NumCPU()} {
		old := runtime.GOMAXPROCS(procs)
		G := ctx.N(8, 24)
		var wg sync.WaitGroup
		for g := 0; g < G; g++ {
			wg.Add(1)
			go func(g int) {
				defer wg.Done()
				off := g * 7 % len(lines)
				for k := range lines {
					i := (off + k) % len(lines)
					if out := goExec(lines[i]); out != solo[i] {
						mu.Lock()
						mismatches = append(mismatches, fmt.Sprintf("GOMAXPROCS=%d goroutine %d: %s gave %s, alone it gives %s", procs, g, trunc(lines[i], 200), trunc(out, 100), trunc(solo[i], 100)))
						mu.Unlock()
					}
				}
				if f := roundTrips(g); f != "" {
					mu.Lock()
					mismatches = append(mismatches, fmt.Sprintf("GOMAXPROCS=%d goroutine %d: round trip on shared keys failed: %s", procs, g, f))
					mu.Unlock()
				}
			}(g)
		}
		wg.Wait()
		runtime.GOMAXPROCS(old)
	}
	mismatches = append(mismatches, stressConcurrent(ctx.Quick)...)
	for i, l := range lines {
		i := i
		var direct func() string
		if i == 0 {
			direct = func() string {
				if len(mismatches) > 0 {
					return "a concurrent operation obtained a different result than alone: " + strings.Join(mismatches[:1], "; ")
				}
				return ""
			}
		}
		cmp := errCmp
		if strings.HasPrefix(l, "enc.open") || strings.HasPrefix(l, "sc.open") || strings.HasPrefix(l, "sig.verify") {
			cmp = resCmp
		}
		emit(Case{Stream: "conc.workload", Line: l, GoOut: solo[i], Cmp: cmp, Fallback: fallbackFor(l), Branch: strings.Fields(l)[0], Direct: direct,
			Sample: map[string]interface{}{"op": strings.Fields(l)[0], "goroutines_x_gomaxprocs": "8..24 x {1,2,4,NumCPU}", "stress_round_trip_sets_run_concurrently": stressDone, "solo_answer": trunc(solo[i], 80)}})
	}
}

func init() {
	reg("C20", func(ctx *Ctx, emit func(Case)) { genConcurrent(ctx, emit) },
		[]string{"soundness of the static write-set extraction (aliasing through interfaces, stdlib internals) and the Go memory model are outside the model: partial"},
		[]string{"harness/cmd/extract effect summary (go/ssa)", "Go race detector (thorough tier)", "harness/cmd/corr"})
}
