package main

// Extension slot G: request lines (goExecExtG) and generators (registered with regExtra) of one model extension.

func goExecExtG(t []string) (string, bool) {
	switch t[0] {
	}
	return "", false
}

func init() {
	// regExtra("Cnn", func(ctx *Ctx, emit func(Case)) { … })
}
