package main

// Extension slot G.
//
// C08 — the strict reference decoder for signcryption handed ALL recipients'
// keys (Lean: Model/SpecDecodeAll.lean `signcryptionAll`, theorems
// Props/C08DecodeSc.lean).
//
// Request line:  sd.scall <msg hex> <k1,k2,…>   keys in HEADER order, `b:<box secret>` | `s:<symmetric key>`
//   model  →  ok plaintext=<hex> sender=<hex|anon> recipients=<identifier hex,…> | reject <why>
//   goExecExtG answers the same line with the REAL code: `SigncryptOpen` is run once per key (a keyring
//   holding just that box secret / a resolver that knows just that symmetric key, at that position);
//   "ok …" iff EVERY recipient opens the message and all obtain the same plaintext and sender; the
//   identifiers are read from the header with the harness's own MessagePack tree.  Anything else: "reject".
//   Compared: ok-lines exactly, rejections as rejections (the reason is the oracle's own).
//
// Streams (registered for C08):
//   oracle.sc.all.genuine   real `SigncryptSeal` output, 1–4 recipients (box and symmetric mixed, shuffled by
//                           the library), anonymous / named sender: must be ACCEPTED with all keys, decoded
//                           plaintext, sender and symmetric identifiers as given to the sender.
//   oracle.sc.all.foreign   the same message sealed for recipients A… and B' while the oracle is handed the key
//                           of B (≠ B') at B's position: the header entry of ANOTHER recipient is not the one
//                           the specification prescribes for the key list — the one-key oracle at A's index
//                           still accepts (checked), the all-keys oracle must REJECT; so must the real code for B.
//   oracle.sc.all.corrupt   one byte of another recipient's payload key box / identifier flipped in place
//                           (header hash changes): rejected.
//   oracle.sc.all.keys      genuine message, key list with a key missing, one too many, two keys swapped, a
//                           wrong key: rejected (the swapped case is judged by the model only: the real code
//                           finds a box key's entry by identifier, not by position).

import (
	"bytes"
	"fmt"
	"strings"

	saltpack "github.com/keybase/saltpack"

	"verifharness/internal/keys"
	"verifharness/internal/prng"
	"verifharness/internal/script"
)

// posResolver knows one symmetric key, for the identifier at one position.
type posResolver struct {
	idx int
	key []byte
}

func (p posResolver) ResolveKeys(ids [][]byte) ([]*saltpack.SymmetricKey, error) {
	out := make([]*saltpack.SymmetricKey, len(ids))
	if p.idx < len(ids) {
		var k saltpack.SymmetricKey
		copy(k[:], p.key)
		out[p.idx] = &k
	}
	return out, nil
}

// scHeaderIdents reads the recipient identifiers out of a signcryption header.
func scHeaderIdents(msg []byte) ([][]byte, bool) {
	objs, _ := mpSplit(msg)
	if len(objs) == 0 {
		return nil, false
	}
	h, _, err := mpParse(objs[0])
	if err != nil || h.K != mvBin {
		return nil, false
	}
	in, _, err := mpParse(h.Data)
	if err != nil || in.K != mvArr || len(in.Arr) < 6 || in.Arr[5].K != mvArr {
		return nil, false
	}
	var ids [][]byte
	for _, e := range in.Arr[5].Arr {
		if e.K != mvArr || len(e.Arr) < 2 || (e.Arr[0].K != mvBin && e.Arr[0].K != mvStr) {
			return nil, false
		}
		ids = append(ids, e.Arr[0].Data)
	}
	return ids, true
}

// arm.sc.seal sender boxes syms eph src brand pt — the REAL SigncryptArmor62Seal, randomness scripted
func execArmScSeal(t []string) string {
	src := parseSource(t[5])
	c := parseEph(t[4], src)
	var sender saltpack.SigningSecretKey
	if t[1] != "anon" {
		sender = keys.NewSigSecret(unhex(t[1]), nil)
	}
	boxes, _ := parseSRecips(t[2], c)
	_, syms := parseSRecips(t[3], c)
	var out string
	var err error
	script.With(src, func() {
		out, err = saltpack.SigncryptArmor62Seal(unhex(t[7]), c, sender, boxes, syms, string(unhex(t[6])))
	})
	return sealResult([]byte(out), err, src)
}

// arm.sc.open secrets resolver text — the REAL Dearmor62SigncryptOpen
func execArmScOpen(t []string) string {
	ring := parseRing(t[1], "std", "std", "std", "std", &keys.Log{})
	spk, pt, brand, err := saltpack.Dearmor62SigncryptOpen(string(unhex(t[3])), ring, parseResolver(t[2]))
	if err != nil {
		return "err " + script.Class(err)
	}
	snd := "anon"
	if spk != nil {
		snd = keys.Hex(spk.ToKID())
	}
	return fmt.Sprintf("ok sender=%s pt=%s brand=%s", snd, keys.Hex(pt), keys.Hex([]byte(brand)))
}

func goExecExtG(t []string) (string, bool) {
	switch t[0] {
	case "arm.sc.seal":
		if len(t) != 8 {
			return "bad-op", true
		}
		return execArmScSeal(t), true
	case "arm.sc.open":
		if len(t) != 4 {
			return "bad-op", true
		}
		return execArmScOpen(t), true
	case "sd.scall":
		if len(t) != 3 {
			return "bad-op", true
		}
		msg := unhex(t[1])
		ks := splitL(t[2])
		ids, ok := scHeaderIdents(msg)
		if !ok || len(ids) != len(ks) || len(ks) == 0 {
			return "reject", true
		}
		var pt0 []byte
		snd0 := ""
		for i, k := range ks {
			p := strings.Split(k, ":")
			if len(p) != 2 {
				return "bad-op", true
			}
			var ring *keys.Ring
			var res saltpack.SymmetricKeyResolver
			if p[0] == "b" {
				ring = parseRing(p[1], "std", "std", "std", "std", &keys.Log{})
			} else {
				ring = parseRing("-", "std", "std", "std", "std", &keys.Log{})
				res = posResolver{i, unhex(p[1])}
			}
			spk, pt, err := saltpack.SigncryptOpen(msg, ring, res)
			if err != nil {
				return "reject", true
			}
			snd := "anon"
			if spk != nil {
				snd = hexNoDash(spk.ToKID())
			}
			if i == 0 {
				pt0, snd0 = pt, snd
			} else if !bytes.Equal(pt, pt0) || snd != snd0 {
				return "reject", true
			}
		}
		hs := make([]string, len(ids))
		for i, id := range ids {
			hs[i] = hexNoDash(id)
		}
		return fmt.Sprintf("ok plaintext=%s sender=%s recipients=%s", hexNoDash(pt0), snd0, strings.Join(hs, ",")), true
	}
	return "", false
}

// rejection reasons are the oracle's own: compare ok-lines exactly, rejections as rejections
func scAllCmp(goOut, modelOut string) bool {
	if strings.HasPrefix(goOut, "reject") {
		return strings.HasPrefix(modelOut, "reject")
	}
	return goOut == modelOut
}

type scRecip struct {
	box   bool
	sec   []byte // box secret | symmetric key
	ident []byte // symmetric identifier
}

func (q scRecip) key() string {
	if q.box {
		return "b:" + keys.Hex(q.sec)
	}
	return "s:" + keys.Hex(q.sec)
}

func (q scRecip) sealSpec() string {
	if q.box {
		return "b:" + keys.Hex(boxPub(q.sec))
	}
	return "s:" + keys.Hex(q.sec) + ":" + keys.Hex(q.ident)
}

func scSealLine(r *prng.R, snd string, rs []scRecip, pt []byte) string {
	var bs, ss []string
	for _, q := range rs {
		if q.box {
			bs = append(bs, q.sealSpec())
		} else {
			ss = append(ss, q.sealSpec())
		}
	}
	j := func(x []string) string {
		if len(x) == 0 {
			return "-"
		}
		return strings.Join(x, ",")
	}
	return fmt.Sprintf("sc.seal %s %s %s g:%s %s %d %s", snd, j(bs), j(ss), keys.Hex(r.Bytes(32)),
		randScript(r, len(rs), false, -1, 0).Spec(), mib, keys.Hex(pt))
}

// headerOrder finds, with the ONE-key oracle, the header index each recipient's key opens.
func scHeaderOrder(msg []byte, rs []scRecip) []scRecip {
	out := make([]scRecip, len(rs))
	used := make([]bool, len(rs))
	for _, q := range rs {
		found := false
		for idx := range rs {
			if used[idx] {
				continue
			}
			if strings.HasPrefix(askGen(fmt.Sprintf("sd.sc %s %d %s", keys.Hex(msg), idx, q.key())), "ok ") {
				out[idx], used[idx], found = q, true, true
				break
			}
		}
		if !found {
			return nil
		}
	}
	return out
}

func scKeyList(rs []scRecip) string {
	s := make([]string, len(rs))
	for i, q := range rs {
		s[i] = q.key()
	}
	if len(s) == 0 {
		return "-"
	}
	return strings.Join(s, ",")
}

func genOracleScAll(ctx *Ctx, emit func(Case)) {
	r := ctx.R.Fork()
	signer := r.Bytes(32)
	newRecip := func() scRecip {
		if r.Bool() {
			return scRecip{box: true, sec: r.Bytes(32)}
		}
		return scRecip{sec: r.Bytes(32), ident: r.Bytes(prng.Pick(r, 32, 32, 1, 16, 40))}
	}
	lens := []int{0, 1, 17, 300}
	for i := 0; i < ctx.N(8, 120); i++ {
		lens = append(lens, smallLen(r))
	}
	if !ctx.Quick {
		lens = append(lens, mib, mib+1)
	}
	for li, n := range lens {
		pt := r.Bytes(n)
		nr := 1 + li%4
		if n >= mib {
			nr = 2
		}
		rs := make([]scRecip, nr)
		for i := range rs {
			rs[i] = newRecip()
		}
		snd, wantSnd := keys.Hex(signer), "sender="+hexNoDash(sigPub(signer))
		if r.Intn(3) == 0 {
			snd, wantSnd = "anon", "sender=anon"
		}
		sealed := goExec(scSealLine(r, snd, rs, pt))
		msg, ok := okBytes(sealed)
		if !ok {
			panic("SigncryptSeal failed: " + sealed)
		}
		ord := scHeaderOrder(msg, rs)
		if ord == nil {
			emit(Case{Stream: "oracle.sc.all.genuine", Line: "sd.scall " + keys.Hex(msg) + " " + scKeyList(rs), GoOut: "ok", Cmp: scAllCmp,
				Direct: func() string { return "the one-key oracle finds no header index for some recipient of a genuine message" }})
			continue
		}
		br := fmt.Sprintf("%s/recips=%d/anon=%v", sizeClass(n), nr, snd == "anon")
		line := "sd.scall " + keys.Hex(msg) + " " + scKeyList(ord)
		gout := goExec(line)
		pt0, ord0 := pt, ord
		emit(Case{Stream: "oracle.sc.all.genuine", Line: line, GoOut: gout, Cmp: scAllCmp, Branch: br,
			Sample: map[string]interface{}{"op": "SigncryptSeal -> strict reference decoder with all recipients' keys", "plaintext_len": n, "recipients": nr},
			Direct: func() string {
				wants := []string{"plaintext=" + hexNoDash(pt0) + " ", wantSnd}
				for _, q := range ord0 {
					if !q.box {
						wants = append(wants, hexNoDash(q.ident))
					}
				}
				if f := strictOK(askGen(line), wants...); f != "" {
					return fmt.Sprintf("the all-keys strict decoder does not accept what SigncryptSeal emitted: %s ; plaintext_len=%d recipients=%d", f, n, nr)
				}
				if !strings.HasPrefix(gout, "ok ") {
					return fmt.Sprintf("a recipient of a genuine signcryption message cannot open it: plaintext_len=%d recipients=%d", n, nr)
				}
				return ""
			}})
		if n >= mib {
			continue
		}
		// --- key lists that do not fit --------------------------------------------------
		rejected := func(stream, what, l string, useGo bool) {
			g := "reject"
			if useGo {
				g = goExec(l)
			}
			emit(Case{Stream: stream, Line: l, GoOut: g, Cmp: scAllCmp, Branch: what,
				Direct: func() string {
					if a := askGen(l); !strings.HasPrefix(a, "reject") {
						return "the all-keys strict decoder accepts " + what + ": " + trunc(a, 200)
					}
					return ""
				}})
		}
		rejected("oracle.sc.all.keys", "missing-key", "sd.scall "+keys.Hex(msg)+" "+scKeyList(ord[:len(ord)-1]), true)
		rejected("oracle.sc.all.keys", "extra-key", "sd.scall "+keys.Hex(msg)+" "+scKeyList(append(append([]scRecip(nil), ord...), newRecip())), true)
		wrong := append([]scRecip(nil), ord...)
		wi := r.Intn(len(wrong))
		wrong[wi] = scRecip{box: wrong[wi].box, sec: r.Bytes(32), ident: wrong[wi].ident}
		rejected("oracle.sc.all.keys", "wrong-key", "sd.scall "+keys.Hex(msg)+" "+scKeyList(wrong), true)
		if nr >= 2 {
			sw := append([]scRecip(nil), ord...)
			sw[0], sw[1] = sw[1], sw[0]
			// the real code finds a box key's entry by identifier, not by position: model only
			rejected("oracle.sc.all.keys", "swapped-keys", "sd.scall "+keys.Hex(msg)+" "+scKeyList(sw), false)
		}
		// --- another recipient's entry is for somebody else -------------------------------
		if nr >= 2 {
			j := 1 + r.Intn(nr-1) // the recipient whose entry is replaced (never rs[0])
			rs2 := append([]scRecip(nil), rs...)
			rs2[j] = scRecip{box: rs[j].box, sec: r.Bytes(32), ident: rs[j].ident}
			sealed2 := goExec(scSealLine(r, snd, rs2, pt))
			msg2, ok := okBytes(sealed2)
			if !ok {
				panic("SigncryptSeal failed: " + sealed2)
			}
			ord2 := scHeaderOrder(msg2, rs2)
			if ord2 != nil {
				// hand the oracle the keys of the ORIGINAL recipients at the positions of their stand-ins
				asked := make([]scRecip, nr)
				opener := -1
				for idx, q := range ord2 {
					asked[idx] = q
					if bytes.Equal(q.sec, rs2[j].sec) {
						asked[idx] = rs[j]
					} else if opener < 0 {
						opener = idx
					}
				}
				l := "sd.scall " + keys.Hex(msg2) + " " + scKeyList(asked)
				g := goExec(l)
				op := opener
				emit(Case{Stream: "oracle.sc.all.foreign", Line: l, GoOut: g, Cmp: scAllCmp, Branch: br,
					Direct: func() string {
						if a := askGen(fmt.Sprintf("sd.sc %s %d %s", keys.Hex(msg2), op, asked[op].key())); !strings.HasPrefix(a, "ok ") {
							return "the one-key oracle does not accept a genuine message at an untouched recipient: " + trunc(a, 200)
						}
						if a := askGen(l); !strings.HasPrefix(a, "reject") {
							return "the all-keys strict decoder accepts a message whose entry for another recipient is not that recipient's: " + trunc(a, 200)
						}
						if !strings.HasPrefix(g, "reject") {
							return "the real code lets a recipient open a message that carries no entry for it"
						}
						return ""
					}})
			}
			// --- in-place corruption of another recipient's entry ---------------------------
			ids, _ := scHeaderIdents(msg)
			tgt := 1 + r.Intn(nr-1)
			var needle []byte
			what := "box"
			if len(ids[tgt]) < 16 {
				continue // too short to be located unambiguously in the bytes
			}
			if r.Bool() {
				needle, what = ids[tgt], "ident"
			}
			bad := append([]byte(nil), msg...)
			pos := -1
			if needle != nil {
				pos = bytes.Index(bad, needle)
			} else if p := bytes.Index(bad, ids[tgt]); p >= 0 {
				pos = p + len(ids[tgt]) + 2 + r.Intn(48) // bin8 header (c4 30) of the 48-byte box, then its bytes
			}
			if pos >= 0 && pos < len(bad) {
				bad[pos] ^= 1 << uint(r.Intn(8))
				rejected("oracle.sc.all.corrupt", what, "sd.scall "+keys.Hex(bad)+" "+scKeyList(ord), true)
			}
		}
	}
}

// C03: the armored signcryption entry points of Model/Armored.lean against SigncryptArmor62Seal /
// Dearmor62SigncryptOpen: the sealed text byte for byte (so the frame type the MODEL chooses is the
// library's), the round trip through the armored opener, no key => no-decryption-key, and texts with
// the frames of another message type (or no valid frame) refused.  errCmp: refusals of the ARMOR layer
// are compared as refusals (the whole-text decoder's error kind need not be the streaming one's).
func genArmoredSigncrypt(ctx *Ctx, emit func(Case)) {
	r := ctx.R.Fork()
	errCmp := func(a, b string) bool {
		if strings.HasPrefix(a, "err ") && strings.HasPrefix(b, "err ") {
			ka, kb := strings.Contains(a, "no-decryption-key"), strings.Contains(b, "no-decryption-key")
			return ka == kb
		}
		return a == b
	}
	for round := 0; round < ctx.N(6, 60); round++ {
		kinds := prng.Pick(r, "b", "s", "bs", "bb", "sb")
		var boxes, syms, boxSecrets []string
		var symKeys [][]byte
		for _, ch := range kinds {
			if ch == 'b' {
				sk := r.Bytes(32)
				boxSecrets = append(boxSecrets, keys.Hex(sk))
				boxes = append(boxes, "b:"+keys.Hex(boxPub(sk)))
			} else {
				k := r.Bytes(32)
				symKeys = append(symKeys, k)
				syms = append(syms, "s:"+keys.Hex(k)+":"+keys.Hex(r.Bytes(32)))
			}
		}
		jl := func(l []string) string {
			if len(l) == 0 {
				return "-"
			}
			return strings.Join(l, ",")
		}
		snd := keys.Hex(r.Bytes(32))
		if r.Intn(3) == 0 {
			snd = "anon"
		}
		ephRand := r.Bool()
		eph := "r"
		if !ephRand {
			eph = "g:" + keys.Hex(r.Bytes(32))
		}
		brand := prng.Pick(r, "-", keys.Hex([]byte("KEYBASE")), keys.Hex([]byte("x9")))
		pt := r.Bytes(prng.Pick(r, 0, 1, 31, 64, 300, 1000))
		line := fmt.Sprintf("arm.sc.seal %s %s %s %s %s %s %s", snd, jl(boxes), jl(syms), eph,
			randScript(r, len(kinds), ephRand, -1, 0).Spec(), brand, keys.Hex(pt))
		out := goExec(line)
		emit(Case{Stream: "arm.sc.seal", Line: line, GoOut: out, Branch: fmt.Sprintf("%s/brand=%v/len=%s", kinds, brand != "-", sizeClass(len(pt)))})
		f := strings.Fields(out)
		if len(f) < 2 || f[0] != "ok" {
			continue
		}
		text := f[1]
		// round trip with a recipient's key
		if len(boxSecrets) > 0 {
			ol := fmt.Sprintf("arm.sc.open %s none %s", boxSecrets[r.Intn(len(boxSecrets))], text)
			oo := goExec(ol)
			want := fmt.Sprintf("pt=%s brand=%s", keys.Hex(pt), brand)
			emit(Case{Stream: "arm.sc.open", Line: ol, GoOut: oo, Cmp: errCmp, Branch: "roundtrip",
				Direct: func() string {
					if !strings.HasPrefix(oo, "ok ") || !strings.HasSuffix(oo, want) {
						return fmt.Sprintf("Dearmor62SigncryptOpen of SigncryptArmor62Seal's text does not return the plaintext and brand: %s -> %s", trunc(ol, 300), trunc(oo, 300))
					}
					return ""
				}})
		}
		// a foreign key: no-decryption-key through the armored opener
		{
			ol := fmt.Sprintf("arm.sc.open %s none %s", keys.Hex(r.Bytes(32)), text)
			oo := goExec(ol)
			emit(Case{Stream: "arm.sc.open", Line: ol, GoOut: oo, Cmp: errCmp, Branch: "nokey",
				Direct: func() string {
					if !strings.Contains(oo, "no-decryption-key") {
						return fmt.Sprintf("a holder of no recipient key does not get no-decryption-key from Dearmor62SigncryptOpen: %s -> %s", trunc(ol, 300), trunc(oo, 300))
					}
					return ""
				}})
		}
		// the same payload under the frames of a SIGNED message / a detached signature: refused
		{
			raw, _, _, err := saltpack.Armor62Open(string(unhex(text)))
			if err == nil {
				for _, typ := range []saltpack.MessageType{saltpack.MessageTypeAttachedSignature, saltpack.MessageTypeDetachedSignature} {
					other, _ := saltpack.Armor62Seal(raw, typ, string(unhex(brand)))
					ol := fmt.Sprintf("arm.sc.open %s none %s", jl(boxSecrets), keys.Hex([]byte(other)))
					oo := goExec(ol)
					emit(Case{Stream: "arm.sc.open", Line: ol, GoOut: oo, Cmp: errCmp, Branch: fmt.Sprintf("wrongframe/%d", int(typ)),
						Direct: func() string {
							if !strings.HasPrefix(oo, "err ") {
								return fmt.Sprintf("Dearmor62SigncryptOpen accepts a text with the frames of another message type: %s -> %s", trunc(ol, 300), trunc(oo, 300))
							}
							return ""
						}})
				}
			}
		}
	}
}

func init() {
	regExtra("C08", genOracleScAll)
	regExtra("C03", genArmoredSigncrypt)
}
