package main

// Extension slot G.
//
// C08 — the strict reference decoder for signcryption handed ALL recipients'
// keys (Lean: Model/SpecDecodeAll.lean `signcryptionAll`, theorems
// Props/C08DecodeSc.lean).
//
// Request line:  sd.scall <msg hex> <k1,k2,…>   keys in HEADER order, `b:<box secret>` | `s:<symmetric key>`
//   model  →  ok plaintext=<hex> sender=<hex|anon> recipients=<identifier hex,…> | reject <why>
//   goExecExtG answers the same line with the REAL code: `SigncryptOpen` is run once per key (a keyring
//   holding just that box secret / a resolver that knows just that symmetric key, at that position);
//   "ok …" iff EVERY recipient opens the message and all obtain the same plaintext and sender; the
//   identifiers are read from the header with the harness's own MessagePack tree.  Anything else: "reject".
//   Compared: ok-lines exactly, rejections as rejections (the reason is the oracle's own).
//
// Streams (registered for C08):
//   oracle.sc.all.genuine   real `SigncryptSeal` output, 1–4 recipients (box and symmetric mixed, shuffled by
//                           the library), anonymous / named sender: must be ACCEPTED with all keys, decoded
//                           plaintext, sender and symmetric identifiers as given to the sender.
//   oracle.sc.all.foreign   the same message sealed for recipients A… and B' while the oracle is handed the key
//                           of B (≠ B') at B's position: the header entry of ANOTHER recipient is not the one
//                           the specification prescribes for the key list — the one-key oracle at A's index
//                           still accepts (checked), the all-keys oracle must REJECT; so must the real code for B.
//   oracle.sc.all.corrupt   one byte of another recipient's payload key box / identifier flipped in place
//                           (header hash changes): rejected.
//   oracle.sc.all.keys      genuine message, key list with a key missing, one too many, two keys swapped, a
//                           wrong key: rejected (the swapped case is judged by the model only: the real code
//                           finds a box key's entry by identifier, not by position).

import (
	"bytes"
	"fmt"
	"strings"

	saltpack "github.com/keybase/saltpack"

	"verifharness/internal/keys"
	"verifharness/internal/prng"
)

// posResolver knows one symmetric key, for the identifier at one position.
type posResolver struct {
	idx int
	key []byte
}

func (p posResolver) ResolveKeys(ids [][]byte) ([]*saltpack.SymmetricKey, error) {
	out := make([]*saltpack.SymmetricKey, len(ids))
	if p.idx < len(ids) {
		var k saltpack.SymmetricKey
		copy(k[:], p.key)
		out[p.idx] = &k
	}
	return out, nil
}

// scHeaderIdents reads the recipient identifiers out of a signcryption header.
func scHeaderIdents(msg []byte) ([][]byte, bool) {
	objs, _ := mpSplit(msg)
	if len(objs) == 0 {
		return nil, false
	}
	h, _, err := mpParse(objs[0])
	if err != nil || h.K != mvBin {
		return nil, false
	}
	in, _, err := mpParse(h.Data)
	if err != nil || in.K != mvArr || len(in.Arr) < 6 || in.Arr[5].K != mvArr {
		return nil, false
	}
	var ids [][]byte
	for _, e := range in.Arr[5].Arr {
		if e.K != mvArr || len(e.Arr) < 2 || (e.Arr[0].K != mvBin && e.Arr[0].K != mvStr) {
			return nil, false
		}
		ids = append(ids, e.Arr[0].Data)
	}
	return ids, true
}

func goExecExtG(t []string) (string, bool) {
	switch t[0] {
	case "sd.scall":
		if len(t) != 3 {
			return "bad-op", true
		}
		msg := unhex(t[1])
		ks := splitL(t[2])
		ids, ok := scHeaderIdents(msg)
		if !ok || len(ids) != len(ks) || len(ks) == 0 {
			return "reject", true
		}
		var pt0 []byte
		snd0 := ""
		for i, k := range ks {
			p := strings.Split(k, ":")
			if len(p) != 2 {
				return "bad-op", true
			}
			var ring *keys.Ring
			var res saltpack.SymmetricKeyResolver
			if p[0] == "b" {
				ring = parseRing(p[1], "std", "std", "std", "std", &keys.Log{})
			} else {
				ring = parseRing("-", "std", "std", "std", "std", &keys.Log{})
				res = posResolver{i, unhex(p[1])}
			}
			spk, pt, err := saltpack.SigncryptOpen(msg, ring, res)
			if err != nil {
				return "reject", true
			}
			snd := "anon"
			if spk != nil {
				snd = hexNoDash(spk.ToKID())
			}
			if i == 0 {
				pt0, snd0 = pt, snd
			} else if !bytes.Equal(pt, pt0) || snd != snd0 {
				return "reject", true
			}
		}
		hs := make([]string, len(ids))
		for i, id := range ids {
			hs[i] = hexNoDash(id)
		}
		return fmt.Sprintf("ok plaintext=%s sender=%s recipients=%s", hexNoDash(pt0), snd0, strings.Join(hs, ",")), true
	}
	return "", false
}

// rejection reasons are the oracle's own: compare ok-lines exactly, rejections as rejections
func scAllCmp(goOut, modelOut string) bool {
	if strings.HasPrefix(goOut, "reject") {
		return strings.HasPrefix(modelOut, "reject")
	}
	return goOut == modelOut
}

type scRecip struct {
	box   bool
	sec   []byte // box secret | symmetric key
	ident []byte // symmetric identifier
}

func (q scRecip) key() string {
	if q.box {
		return "b:" + keys.Hex(q.sec)
	}
	return "s:" + keys.Hex(q.sec)
}

func (q scRecip) sealSpec() string {
	if q.box {
		return "b:" + keys.Hex(boxPub(q.sec))
	}
	return "s:" + keys.Hex(q.sec) + ":" + keys.Hex(q.ident)
}

func scSealLine(r *prng.R, snd string, rs []scRecip, pt []byte) string {
	var bs, ss []string
	for _, q := range rs {
		if q.box {
			bs = append(bs, q.sealSpec())
		} else {
			ss = append(ss, q.sealSpec())
		}
	}
	j := func(x []string) string {
		if len(x) == 0 {
			return "-"
		}
		return strings.Join(x, ",")
	}
	return fmt.Sprintf("sc.seal %s %s %s g:%s %s %d %s", snd, j(bs), j(ss), keys.Hex(r.Bytes(32)),
		randScript(r, len(rs), false, -1, 0).Spec(), mib, keys.Hex(pt))
}

// headerOrder finds, with the ONE-key oracle, the header index each recipient's key opens.
func scHeaderOrder(msg []byte, rs []scRecip) []scRecip {
	out := make([]scRecip, len(rs))
	used := make([]bool, len(rs))
	for _, q := range rs {
		found := false
		for idx := range rs {
			if used[idx] {
				continue
			}
			if strings.HasPrefix(askGen(fmt.Sprintf("sd.sc %s %d %s", keys.Hex(msg), idx, q.key())), "ok ") {
				out[idx], used[idx], found = q, true, true
				break
			}
		}
		if !found {
			return nil
		}
	}
	return out
}

func scKeyList(rs []scRecip) string {
	s := make([]string, len(rs))
	for i, q := range rs {
		s[i] = q.key()
	}
	if len(s) == 0 {
		return "-"
	}
	return strings.Join(s, ",")
}

func genOracleScAll(ctx *Ctx, emit func(Case)) {
	r := ctx.R.Fork()
	signer := r.Bytes(32)
	newRecip := func() scRecip {
		if r.Bool() {
			return scRecip{box: true, sec: r.Bytes(32)}
		}
		return scRecip{sec: r.Bytes(32), ident: r.Bytes(prng.Pick(r, 32, 32, 1, 16, 40))}
	}
	lens := []int{0, 1, 17, 300}
	for i := 0; i < ctx.N(8, 120); i++ {
		lens = append(lens, smallLen(r))
	}
	if !ctx.Quick {
		lens = append(lens, mib, mib+1)
	}
	for li, n := range lens {
		pt := r.Bytes(n)
		nr := 1 + li%4
		if n >= mib {
			nr = 2
		}
		rs := make([]scRecip, nr)
		for i := range rs {
			rs[i] = newRecip()
		}
		snd, wantSnd := keys.Hex(signer), "sender="+hexNoDash(sigPub(signer))
		if r.Intn(3) == 0 {
			snd, wantSnd = "anon", "sender=anon"
		}
		sealed := goExec(scSealLine(r, snd, rs, pt))
		msg, ok := okBytes(sealed)
		if !ok {
			panic("SigncryptSeal failed: " + sealed)
		}
		ord := scHeaderOrder(msg, rs)
		if ord == nil {
			emit(Case{Stream: "oracle.sc.all.genuine", Line: "sd.scall " + keys.Hex(msg) + " " + scKeyList(rs), GoOut: "ok", Cmp: scAllCmp,
				Direct: func() string { return "the one-key oracle finds no header index for some recipient of a genuine message" }})
			continue
		}
		br := fmt.Sprintf("%s/recips=%d/anon=%v", sizeClass(n), nr, snd == "anon")
		line := "sd.scall " + keys.Hex(msg) + " " + scKeyList(ord)
		gout := goExec(line)
		pt0, ord0 := pt, ord
		emit(Case{Stream: "oracle.sc.all.genuine", Line: line, GoOut: gout, Cmp: scAllCmp, Branch: br,
			Sample: map[string]interface{}{"op": "SigncryptSeal -> strict reference decoder with all recipients' keys", "plaintext_len": n, "recipients": nr},
			Direct: func() string {
				wants := []string{"plaintext=" + hexNoDash(pt0) + " ", wantSnd}
				for _, q := range ord0 {
					if !q.box {
						wants = append(wants, hexNoDash(q.ident))
					}
				}
				if f := strictOK(askGen(line), wants...); f != "" {
					return fmt.Sprintf("the all-keys strict decoder does not accept what SigncryptSeal emitted: %s ; plaintext_len=%d recipients=%d", f, n, nr)
				}
				if !strings.HasPrefix(gout, "ok ") {
					return fmt.Sprintf("a recipient of a genuine signcryption message cannot open it: plaintext_len=%d recipients=%d", n, nr)
				}
				return ""
			}})
		if n >= mib {
			continue
		}
		// --- key lists that do not fit --------------------------------------------------
		rejected := func(stream, what, l string, useGo bool) {
			g := "reject"
			if useGo {
				g = goExec(l)
			}
			emit(Case{Stream: stream, Line: l, GoOut: g, Cmp: scAllCmp, Branch: what,
				Direct: func() string {
					if a := askGen(l); !strings.HasPrefix(a, "reject") {
						return "the all-keys strict decoder accepts " + what + ": " + trunc(a, 200)
					}
					return ""
				}})
		}
		rejected("oracle.sc.all.keys", "missing-key", "sd.scall "+keys.Hex(msg)+" "+scKeyList(ord[:len(ord)-1]), true)
		rejected("oracle.sc.all.keys", "extra-key", "sd.scall "+keys.Hex(msg)+" "+scKeyList(append(append([]scRecip(nil), ord...), newRecip())), true)
		wrong := append([]scRecip(nil), ord...)
		wi := r.Intn(len(wrong))
		wrong[wi] = scRecip{box: wrong[wi].box, sec: r.Bytes(32), ident: wrong[wi].ident}
		rejected("oracle.sc.all.keys", "wrong-key", "sd.scall "+keys.Hex(msg)+" "+scKeyList(wrong), true)
		if nr >= 2 {
			sw := append([]scRecip(nil), ord...)
			sw[0], sw[1] = sw[1], sw[0]
			// the real code finds a box key's entry by identifier, not by position: model only
			rejected("oracle.sc.all.keys", "swapped-keys", "sd.scall "+keys.Hex(msg)+" "+scKeyList(sw), false)
		}
		// --- another recipient's entry is for somebody else -------------------------------
		if nr >= 2 {
			j := 1 + r.Intn(nr-1) // the recipient whose entry is replaced (never rs[0])
			rs2 := append([]scRecip(nil), rs...)
			rs2[j] = scRecip{box: rs[j].box, sec: r.Bytes(32), ident: rs[j].ident}
			sealed2 := goExec(scSealLine(r, snd, rs2, pt))
			msg2, ok := okBytes(sealed2)
			if !ok {
				panic("SigncryptSeal failed: " + sealed2)
			}
			ord2 := scHeaderOrder(msg2, rs2)
			if ord2 != nil {
				// hand the oracle the keys of the ORIGINAL recipients at the positions of their stand-ins
				asked := make([]scRecip, nr)
				opener := -1
				for idx, q := range ord2 {
					asked[idx] = q
					if bytes.Equal(q.sec, rs2[j].sec) {
						asked[idx] = rs[j]
					} else if opener < 0 {
						opener = idx
					}
				}
				l := "sd.scall " + keys.Hex(msg2) + " " + scKeyList(asked)
				g := goExec(l)
				op := opener
				emit(Case{Stream: "oracle.sc.all.foreign", Line: l, GoOut: g, Cmp: scAllCmp, Branch: br,
					Direct: func() string {
						if a := askGen(fmt.Sprintf("sd.sc %s %d %s", keys.Hex(msg2), op, asked[op].key())); !strings.HasPrefix(a, "ok ") {
							return "the one-key oracle does not accept a genuine message at an untouched recipient: " + trunc(a, 200)
						}
						if a := askGen(l); !strings.HasPrefix(a, "reject") {
							return "the all-keys strict decoder accepts a message whose entry for another recipient is not that recipient's: " + trunc(a, 200)
						}
						if !strings.HasPrefix(g, "reject") {
							return "the real code lets a recipient open a message that carries no entry for it"
						}
						return ""
					}})
			}
			// --- in-place corruption of another recipient's entry ---------------------------
			ids, _ := scHeaderIdents(msg)
			tgt := 1 + r.Intn(nr-1)
			var needle []byte
			what := "box"
			if len(ids[tgt]) < 16 {
				continue // too short to be located unambiguously in the bytes
			}
			if r.Bool() {
				needle, what = ids[tgt], "ident"
			}
			bad := append([]byte(nil), msg...)
			pos := -1
			if needle != nil {
				pos = bytes.Index(bad, needle)
			} else if p := bytes.Index(bad, ids[tgt]); p >= 0 {
				pos = p + len(ids[tgt]) + 2 + r.Intn(48) // bin8 header (c4 30) of the 48-byte box, then its bytes
			}
			if pos >= 0 && pos < len(bad) {
				bad[pos] ^= 1 << uint(r.Intn(8))
				rejected("oracle.sc.all.corrupt", what, "sd.scall "+keys.Hex(bad)+" "+scKeyList(ord), true)
			}
		}
	}
}

func init() {
	regExtra("C08", genOracleScAll)
}
