package main

// Extension slot A: request lines (goExecExtA) and generators (registered with regExtra) of one model extension.

func goExecExtA(t []string) (string, bool) {
	switch t[0] {
	}
	return "", false
}

func init() {
	// regExtra("Cnn", func(ctx *Ctx, emit func(Case)) { … })
}
